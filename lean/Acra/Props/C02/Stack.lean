import Acra.Lemmas.Net
import Acra.Lemmas.Pcap
namespace Acra.Props.C02
open Acra.Py Acra.Model.Net Acra.Gen.Net Acra.Lemmas.Net Acra.Model.Pcap Acra.Lemmas.Pcap

/-- **Stack transparency.**  Whatever bytes `x` (up to the UDP maximum 65507) are put in the innermost layer of a
    pcap-record / Ethernet / IPv4 / UDP stack — with up to 46 bytes of link-layer padding after the IP datagram,
    VLAN tag on or off (`e.vlan`), FCS on or off (`fcs`), any header field values that fit their widths, decoder
    objects in any prior state — are recovered unchanged by decoding the layers in turn: the pcap reader's step on the
    file bytes, `Ethernet.unpack`, `IP.unpack` (which drops the padding), `UDP.unpack`. -/
theorem Stack_transparent (x pad rest : Bytes) (fcs : Bool) (u tu : UDP) (i ti : IP) (e te : Eth) (r : Rec)
    (src dst : Nat) (hx : x.length ≤ 65507) (hpad : pad.length ≤ 46)
    (hu : u.srcport < 65536 ∧ u.dstport < 65536)
    (hi : IP_WF { i with payload := [] } src dst) (he : Eth_WF e) (hr : r.sec < 2 ^ 32 ∧ r.usec < 2 ^ 32) :
    ∃ ub ib eb rb,
      (UDP.pack { u with payload := x }).2 = .ok ub ∧
      (IP.pack { i with payload := ub }).2 = .ok ib ∧
      (Eth.pack { e with payload := ib ++ pad } fcs).2 = .ok eb ∧
      (Rec.pack (r.setPayload eb)).2 = .ok rb ∧
      ∃ r', nextRec (rb ++ rest) = some (r', rb.length) ∧
        (Eth.unpack te r'.payload fcs).2 = .ok () ∧
        (IP.unpack ti (Eth.unpack te r'.payload fcs).1.payload).2 = .ok () ∧
        (UDP.unpack tu (IP.unpack ti (Eth.unpack te r'.payload fcs).1.payload).1.payload).2 = .ok () ∧
        (UDP.unpack tu (IP.unpack ti (Eth.unpack te r'.payload fcs).1.payload).1.payload).1.payload = x := by
  -- UDP
  have hwu : UDP_WF { u with payload := x } := ⟨hu.1, hu.2, by simp; omega⟩
  have hub : (udpBytes { u with payload := x }).length = 8 + x.length := by simp [udpBytes]; omega
  -- IP
  have hwi : IP_WF { i with payload := udpBytes { u with payload := x } } src dst := by
    obtain ⟨a1, a2, a3, a4, a5, a6, a7, a8, a9, a10, a11, _⟩ := hi
    exact ⟨a1, a2, a3, a4, a5, a6, a7, a8, a9, a10, a11, by simp only [hub]; omega⟩
  -- Ethernet
  generalize hib : ipHeader { i with payload := udpBytes { u with payload := x } }
      (leBytes 2 (ipCksum { i with payload := udpBytes { u with payload := x } } src dst)) src dst = hdr
  have hhl : hdr.length = 20 := by rw [← hib]; exact ipHeader_length _ _ _ _ (by simp)
  have hwe : Eth_WF { e with payload := (hdr ++ udpBytes { u with payload := x }) ++ pad } := he
  -- record
  have hel := ethFrame_length { e with payload := (hdr ++ udpBytes { u with payload := x }) ++ pad } fcs
  have hwr : Rec_WF (r.setPayload (ethFrame { e with payload := (hdr ++ udpBytes { u with payload := x }) ++ pad } fcs)) := by
    refine ⟨hr.1, hr.2, rfl, rfl, ?_⟩
    simp only [Rec.setPayload, hel, List.length_append, hhl, hub]
    split <;> split <;> omega
  refine ⟨_, _, _, _, by rw [UDP_pack_eq _ hwu], by rw [IP_pack_eq _ src dst hwi, hib],
    by rw [Eth_pack_eq _ fcs hwe], by rw [Rec_pack_eq _ hwr.fits],
    r.setPayload (ethFrame { e with payload := (hdr ++ udpBytes { u with payload := x }) ++ pad } fcs), ?_, ?_⟩
  · rw [nextRec_recBytes _ rest hwr]; simp
  · simp only [Rec.setPayload]
    rw [Eth_unpack_frame _ te fcs hwe]
    simp only [ethDecoded, List.append_assoc]
    rw [← hib, IP_unpack_packed _ ti src dst _ pad (by simp) hwi]
    simp only
    rw [UDP_unpack_packed _ tu hwu]
    simp

/-- all hypotheses of `Stack_transparent` hold together of a non-trivial stack: a 5-byte innermost payload,
    3 bytes of link padding, a VLAN-tagged frame, non-default addresses, ports and time stamp -/
example :
    let x : Bytes := [0xDE, 0xAD, 0xBE, 0xEF, 0x00]
    let pad : Bytes := [0, 0, 0]
    let u : UDP := { UDP.fresh with srcport := 4400, dstport := 5500 }
    let i : IP := { IP.fresh with srcip := some 0xC0A81C10, dstip := some 0xEB000001, flags := 2, ident := 7 }
    let e : Eth := { Eth.fresh with dstmac := 0x01005E000001, srcmac := 0x000C4D000A6C, vlan := true, vlantag := 5 }
    let r : Rec := { Rec.fresh with sec := 0x5F000000, usec := 999999 }
    x.length ≤ 65507 ∧ pad.length ≤ 46 ∧ (u.srcport < 65536 ∧ u.dstport < 65536) ∧
    IP_WF { i with payload := [] } 0xC0A81C10 0xEB000001 ∧ Eth_WF e ∧ (r.sec < 2 ^ 32 ∧ r.usec < 2 ^ 32) := by
  simp [IP_WF, Eth_WF, IP.fresh, Eth.fresh, IP_PROTOCOL_UDP, IP_DEFAULT_TTL, ETH_TYPE_IP, ETH_TYPE_VLAN]

/-- the bound 65507 is the largest the formats allow: one more byte and `IP.pack` cannot express the total
    length (20 + 8 + 65508 = 65536 does not fit 16 bits) — `IP_WF` fails for that payload length -/
example (i : IP) (src dst : Nat) (ub : Bytes) (h : ub.length = 8 + 65508) : ¬ IP_WF { i with payload := ub } src dst := by
  intro hw; have := hw.2.2.2.2.2.2.2.2.2.2.2; simp only [h] at this; omega

end Acra.Props.C02
