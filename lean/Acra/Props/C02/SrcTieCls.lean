import Acra.Gen.Src.Cls.UDP
import Acra.Model.Net
import Acra.Lemmas.SrcTieCls
namespace Acra.Props.C02
open Acra Acra.Py Acra.Lemmas.SrcTieCls

/-! Method source ties (C02): `UDP.pack` and `UDP.unpack` as they are written TODAY (regenerated from the Python source
    by `harness/translate_methods.py` on every run; state-passing over the object structure generated from `__init__`)
    equal the hand-written model `Acra.Model.Net.UDP`.  `toModel / ofModel / Dom`: `Acra/Lemmas/SrcTieCls.lean`. -/

theorem src_UDP_pack_of (s : Model.Net.UDP) :
    Gen.Src.Cls.UDP.pack (UDP.ofModel s) = (UDP.ofModel s.pack.1, s.pack.2) := by
  unfold Gen.Src.Cls.UDP.pack Model.Net.UDP.pack
  simp only [UDP.ofModel, Gen.Src.Cls.UDP.UDP_HEADER_SIZE, Gen.Net.UDP_HEADER_SIZE, Gen.Net.UDP_HEADER_FORMAT, Py.len]
  rw [structPackI_cast _ [s.srcport, s.dstport, (s.payload.length + 8) % 65536, 0] _ (by
    simp only [List.map, Int.ofNat_eq_natCast, Int.natCast_add, Int.natCast_emod, pymod_of_pos _ _ (by omega : (0:Int) ≤ 65536)]
    rfl)]
  cases structPack ⟨true, [.u16, .u16, .u16, .u16]⟩ [s.srcport, s.dstport, (s.payload.length + 8) % 65536, 0] <;> simp

/-- `UDP.pack`, for every object in the model's domain (int attributes `≥ 0`): the object it leaves (`len` recomputed,
    also when `struct.pack` refuses) and the bytes / error are the model's -/
theorem src_UDP_pack (o : Gen.Src.Cls.UDP.Obj) (h : UDP.Dom o) :
    (UDP.toModel (Gen.Src.Cls.UDP.pack o).1, (Gen.Src.Cls.UDP.pack o).2) = (UDP.toModel o).pack := by
  have := src_UDP_pack_of (UDP.toModel o)
  rw [UDP.ofModel_toModel o h] at this
  rw [this]; simp

example : UDP.Dom { srcport := 4400, dstport := 5500, len := 0, payload := [5] } := by decide

/-- outside the domain: a negative port is refused by `struct.pack`, after `len` has been stored -/
theorem src_UDP_pack_negative (o : Gen.Src.Cls.UDP.Obj) (h : o.srcport < 0 ∨ o.dstport < 0) :
    Gen.Src.Cls.UDP.pack o = ({ o with len := (o.payload.length : Int) + 8 }, .error .struct) := by
  unfold Gen.Src.Cls.UDP.pack
  simp only [Gen.Src.Cls.UDP.UDP_HEADER_SIZE, Py.len]
  have : ∃ v, v ∈ [o.srcport, o.dstport, Py.pymod ((o.payload.length : Int) + 8) 65536, 0] ∧ v < 0 := by
    rcases h with h | h <;> exact ⟨_, by simp, h⟩
  obtain ⟨v, hv, hneg⟩ := this
  rw [structPackI_neg _ _ v hv hneg]

example : Gen.Src.Cls.UDP.pack { srcport := -1, dstport := 0, len := 0, payload := [] }
    = ({ srcport := -1, dstport := 0, len := 8, payload := [] }, .error .struct) := by rfl

theorem src_UDP_unpack_of (s : Model.Net.UDP) (buf : Bytes) :
    Gen.Src.Cls.UDP.unpack (UDP.ofModel s) buf
      = (UDP.ofModel (s.unpack buf).1, (s.unpack buf).2.map (fun _ => true)) := by
  unfold Gen.Src.Cls.UDP.unpack Model.Net.UDP.unpack
  simp only [Gen.Src.Cls.UDP.UDP_HEADER_SIZE, Gen.Net.UDP_HEADER_SIZE, Gen.Net.UDP_HEADER_FORMAT, Py.len,
    structUnpackFromI_eq, toNat_lit]
  by_cases hlen : buf.length < 8
  · have : ((buf.length : Nat) : Int) < 8 := by omega
    simp [hlen, this, Except.map]
  · have : ¬ ((buf.length : Nat) : Int) < 8 := by omega
    simp only [hlen, this, if_false]
    cases hs : structUnpackFrom ⟨true, [.u16, .u16, .u16, .u16]⟩ buf 0 with
    | error e => simp [Except.map]
    | ok vs =>
      have hl := structUnpackFrom_vals_length _ _ _ _ hs
      match vs, hl with
      | [a, b, c, d], _ =>
        have h8 := sliceI_from buf 8
        simp only [Py.len] at h8
        simp [Py.intAt, UDP.ofModel, Except.map]
        exact h8

/-- `UDP.unpack`, for every prior object in the model's domain and every buffer: same object afterwards (untouched on
    the rejecting paths), same error; an accepted buffer returns `True` -/
theorem src_UDP_unpack (o : Gen.Src.Cls.UDP.Obj) (h : UDP.Dom o) (buf : Bytes) :
    (UDP.toModel (Gen.Src.Cls.UDP.unpack o buf).1, (Gen.Src.Cls.UDP.unpack o buf).2)
      = (((UDP.toModel o).unpack buf).1, ((UDP.toModel o).unpack buf).2.map (fun _ => true)) := by
  have := src_UDP_unpack_of (UDP.toModel o) buf
  rw [UDP.ofModel_toModel o h] at this
  rw [this]; simp

end Acra.Props.C02
