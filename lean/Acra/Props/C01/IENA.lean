import Acra.Lemmas.IENA
import Acra.Spec.FTI
namespace Acra.Props.C01
open Acra.Py Acra.Model.IENA Acra.Gen.IENA Acra.Lemmas.IENA

/-- positional IENA: `pack()` emits the IENA layout, with the size field in 16-bit words -/
theorem IENA_pack_layout (s : Base) (h : IENA_WF s) :
    (Base.pack s).2 = .ok (Spec.IENA.encode s.key s.timeusec s.keystatus s.status s.sequence s.endfield
      s.payload) := by
  rw [IENA_pack_eq s h]
  have h48 : beBytes 6 s.timeusec = beBytes 2 (s.timeusec / 4294967296) ++ beBytes 4 (s.timeusec % 4294967296) := by
    have := beBytes_add 2 4 s.timeusec
    simpa using this
  simp [IENA_bytes, IENA_hdr, Spec.IENA.encode, encInt, h48, Nat.add_comm]

/-- the computed size field: `size * 2` is the length of the emitted packet -/
theorem IENA_size_law (s : Base) (h : IENA_WF s) :
    ∃ b, (Base.pack s).2 = .ok b ∧ (Base.pack s).1.size * 2 = b.length ∧ b.length = 16 + s.payload.length := by
  refine ⟨IENA_bytes s, by rw [IENA_pack_eq s h], ?_, ?_⟩
  · rw [IENA_pack_eq s h]
    obtain ⟨_, _, _, _, _, _, h7, _⟩ := h
    simp [IENA_bytes]; omega
  · simp [IENA_bytes]; omega

/-- unpack (into an object in any prior state) of the packed bytes returns the same field values,
    and packing the decoded object reproduces the bytes -/
theorem IENA_roundtrip (s t : Base) (h : IENA_WF s) :
    ∃ b, (Base.pack s).2 = .ok b ∧
      Base.unpack t b = ({ s with size := (s.payload.length + 16) / 2, lengthError := t.lengthError }, .ok ()) ∧
      (Base.pack (Base.unpack t b).1).2 = .ok b := by
  refine ⟨IENA_bytes s, by rw [IENA_pack_eq s h], IENA_unpack_pack s t h, ?_⟩
  rw [IENA_unpack_pack s t h]
  have h' : IENA_WF { s with size := (s.payload.length + 16) / 2, lengthError := t.lengthError } := h
  rw [IENA_pack_eq _ h']
  rfl

/-- an odd payload cannot be expressed in 16-bit words: the code's own decoder rejects what pack emits -/
example : (Base.unpack Base.fresh
    (match (Base.pack { Base.fresh with payload := [1] }).2 with | .ok b => b | .error _ => [])).2.isOk
    = false := by decide

example : IENA_WF { Base.fresh with key := 0x1A, timeusec := 10000000, payload := [5, 0] } := by
  simp [IENA_WF, Base.fresh, IENA_DEFAULT_ENDFIELD]

/-! ### IENA-M -/

/-- the base packet an IENA-M object packs: its header fields around the encoded parameters -/
def IENAM_base (s : MState) : Base := { s.base with payload := s.parameters.flatMap encMb }

def IENAM_WF (s : MState) : Prop :=
  (∀ p ∈ s.parameters, MParam_WF p) ∧ IENA_WF (IENAM_base s)

/-- each parameter is laid out as id, delay, length, dataset, pad -/
theorem IENAM_param_layout (p : MParam) :
    encMb p = Spec.IENAM.encodeParam p.paramid p.delay p.dataset := by
  simp [encMb, padM, Spec.IENAM.encodeParam, encInt]

/-- padding rule, every residue: each encoded parameter occupies an even number of bytes -/
theorem IENAM_param_even (p : MParam) : (encMb p).length % 2 = 0 := encMb_even p

/-- what decoding the packed bytes gives: same fields, computed size, the decoder's own option -/
def IENAM_decoded (s : MState) (le : Bool) : MState :=
  { base := { IENAM_base s with size := ((IENAM_base s).payload.length + 16) / 2, lengthError := le },
    parameters := s.parameters }

theorem IENAM_pack_eq (s : MState) (h : IENAM_WF s) :
    MState.pack s = ({ s with base := { IENAM_base s with size := ((IENAM_base s).payload.length + 16) / 2 } },
                     .ok (IENA_bytes (IENAM_base s))) := by
  obtain ⟨hp, hb⟩ := h
  unfold MState.pack
  rw [encAllM_eq _ hp]
  show (match Base.pack (IENAM_base s) with | (b', r) => ({ s with base := b' }, r)) = _
  rw [IENA_pack_eq _ hb]

theorem IENAM_unpack_eq (s t : MState) (h : IENAM_WF s) :
    MState.unpack t (IENA_bytes (IENAM_base s)) =
      ({ base := { IENAM_base s with size := ((IENAM_base s).payload.length + 16) / 2,
                                     lengthError := t.base.lengthError },
         parameters := s.parameters }, .ok ()) := by
  obtain ⟨hp, hb⟩ := h
  unfold MState.unpack
  rw [IENA_unpack_pack (IENAM_base s) t.base hb]
  show (match decOff decM moreRem (s.parameters.flatMap encMb) ((s.parameters.flatMap encMb).length + 1) 0 with
        | .ok ps => _ | .error e => _) = _
  rw [decM_all _ hp]

/-- `IENAM.pack` emits the IENA layout around the concatenated parameter encodings -/
theorem IENAM_pack_layout (s : MState) (h : IENAM_WF s) :
    (MState.pack s).2 = .ok (Spec.IENA.encode s.base.key s.base.timeusec s.base.keystatus s.base.status
      s.base.sequence s.base.endfield
      (s.parameters.flatMap fun p => Spec.IENAM.encodeParam p.paramid p.delay p.dataset)) := by
  have hfun : (fun p : MParam => Spec.IENAM.encodeParam p.paramid p.delay p.dataset) = encMb := by
    funext p; exact (IENAM_param_layout p).symm
  rw [IENAM_pack_eq s h, hfun]
  have := IENA_pack_layout (IENAM_base s) h.2
  rw [IENA_pack_eq _ h.2] at this
  exact this

/-- IENA-M round trip: same header fields, same parameters in order, same bytes on re-encode -/
theorem IENAM_roundtrip (s t : MState) (h : IENAM_WF s) :
    ∃ b, (MState.pack s).2 = .ok b ∧
      (MState.unpack t b).2 = .ok () ∧
      (MState.unpack t b).1.parameters = s.parameters ∧
      (MState.unpack t b).1.base =
        { IENAM_base s with size := ((s.parameters.flatMap encMb).length + 16) / 2,
                            lengthError := t.base.lengthError } ∧
      (MState.pack (MState.unpack t b).1).2 = .ok b := by
  refine ⟨IENA_bytes (IENAM_base s), by rw [IENAM_pack_eq s h], by rw [IENAM_unpack_eq s t h],
    by rw [IENAM_unpack_eq s t h], by rw [IENAM_unpack_eq s t h]; rfl, ?_⟩
  rw [IENAM_unpack_eq s t h]
  have h' : IENAM_WF (IENAM_decoded s t.base.lengthError) := h
  have := IENAM_pack_eq _ h'
  show (MState.pack (IENAM_decoded s t.base.lengthError)).2 = _
  rw [this]
  rfl

example : IENAM_WF { MState.fresh with parameters := [⟨1, 2, [0xAA, 0xBB, 0xCC]⟩, ⟨3, 4, []⟩] } := by
  refine ⟨by simp [MParam_WF], ?_⟩
  simp [IENA_WF, IENAM_base, MState.fresh, Base.fresh, IENA_DEFAULT_ENDFIELD, encMb, padM]

end Acra.Props.C01
