import Acra.Model.iNetX
import Acra.Spec.FTI
namespace Acra.Props.C01
open Acra.Py Acra.Model.iNetX Acra.Gen.iNetX

/-- every header field fits 32 bits and so does the computed length -/
def iNetX_WF (s : State) : Prop :=
  s.inetxcontrol < 2^32 ∧ s.streamid < 2^32 ∧ s.sequence < 2^32 ∧ s.ptptimeseconds < 2^32 ∧
  s.ptptimenanoseconds < 2^32 ∧ s.pif < 2^32 ∧ s.payload.length + 28 < 2^32

theorem iNetX_pack_layout (s : State) (h : iNetX_WF s) :
    (pack s).2 = .ok (Spec.iNetX.encode s.inetxcontrol s.streamid s.sequence s.ptptimeseconds
      s.ptptimenanoseconds s.pif s.payload) := by
  obtain ⟨h1, h2, h3, h4, h5, h6, h7⟩ := h
  simp only [pack, structPack, iNetX_INETX_HEADER_FORMAT, iNetX_INETX_HEADER_LENGTH, packCodes,
    Code.bound, Code.size, encInt, Spec.iNetX.encode]
  have h7' : s.payload.length + 28 < 4294967296 := by omega
  simp [h1, h2, h3, h4, h5, h6, h7', show (4294967296:Nat) = 2^32 from rfl, Nat.add_comm]

example : iNetX_WF { fresh with streamid := 0xDC, payload := [5, 0] } := by
  simp [iNetX_WF, fresh, iNetX_DEF_CONTROL_WORD]

/-- the public fields (`REQ_ATTR`) -/
def iNetX_fields (s : State) := (s.inetxcontrol, s.streamid, s.sequence, s.ptptimeseconds,
  s.ptptimenanoseconds, s.pif, s.payload)

theorem iNetX_pack_ok (s : State) (h : iNetX_WF s) : ∃ b, (pack s).2 = .ok b ∧ b.length = 28 + s.payload.length
   ∧ (pack s).1 = { s with packetlen := s.payload.length + 28 } := by
  refine ⟨_, iNetX_pack_layout s h, ?_, ?_⟩
  · simp [Spec.iNetX.encode]; omega
  · simp only [pack, iNetX_INETX_HEADER_LENGTH]; split <;> rfl

theorem iNetX_roundtrip (s t : State) (h : iNetX_WF s) :
    ∃ b, (pack s).2 = .ok b ∧
      (unpack t b).2 = .ok () ∧
      (unpack t b).1 = { s with packetlen := s.payload.length + 28 } ∧
      (pack (unpack t b).1).2 = .ok b := by
  obtain ⟨h1, h2, h3, h4, h5, h6, h7⟩ := h
  have h7' : s.payload.length + 28 < 4294967296 := by omega
  have hp : ∃ hd, structPack iNetX_INETX_HEADER_FORMAT
      [s.inetxcontrol, s.streamid, s.sequence, s.payload.length + 28, s.ptptimeseconds,
       s.ptptimenanoseconds, s.pif] = .ok hd := by
    rw [structPack_ok_iff]; simp [Fits, iNetX_INETX_HEADER_FORMAT, Code.bound]; omega
  obtain ⟨hd, hhd⟩ := hp
  have hl := structPack_length _ _ _ hhd
  have hu := structUnpackFrom_structPack _ _ _ s.payload hhd
  have hpk : pack s = ({ s with packetlen := s.payload.length + 28 }, .ok (hd ++ s.payload)) := by
    simp [pack, iNetX_INETX_HEADER_LENGTH, hhd]
  have hun : unpack t (hd ++ s.payload) = ({ s with packetlen := s.payload.length + 28 }, .ok ()) := by
    simp only [unpack, hu, iNetX_INETX_HEADER_LENGTH, List.length_append, hl]
    simp [Fmt.size, iNetX_INETX_HEADER_FORMAT, codesSize, Code.size] at hl ⊢
    simp [hl, Nat.add_comm]
  refine ⟨hd ++ s.payload, by rw [hpk], by rw [hun], by rw [hun], ?_⟩
  rw [hun]
  have := hpk
  simp only [pack, iNetX_INETX_HEADER_LENGTH] at this ⊢
  simp [hhd]

end Acra.Props.C01
