import Acra.Lemmas.iNET
import Acra.Lemmas.ListAux
import Acra.Spec.FTI2
namespace Acra.Props.C01
open Acra.Py Acra.Model.iNET Acra.Gen.iNET Acra.Lemmas.iNET

theorem pad4_eq_spec (n : Nat) : pad4 n = Spec.pad4 n 0 := by
  unfold pad4 Spec.pad4
  split
  · congr 1; omega
  · have : (4 - n % 4) % 4 = 0 := by omega
    simp [this]

/-- the bytes of a well-formed package are the package layout -/
theorem pkgBytes_eq_spec (p : Pkg) :
    pkgBytes p = Spec.iNETPackage.encode p.definitionID p.flags p.timedelta p.payload := by
  simp [pkgBytes, pkgHdr, Spec.iNETPackage.encode, encInt, pad4_eq_spec, beBytes, leBytes]

/-- `iNETPackage.pack` emits: definition id(32) length(16) reserved(8)=0 flags(8) time delta(32) payload, zero pad -/
theorem iNETPackage_pack_layout (p : Pkg) (h : Pkg_WF p) :
    (Pkg.pack p).2 = .ok (Spec.iNETPackage.encode p.definitionID p.flags p.timedelta p.payload) := by
  rw [Pkg_pack_eq p h, pkgBytes_eq_spec]

/-- padding rule, every residue: an encoded package occupies a multiple of four bytes;
    computed field: the length field is 12 + |payload|, padding excluded -/
theorem iNETPackage_length_laws (p : Pkg) (h : Pkg_WF p) :
    ∃ b, (Pkg.pack p).2 = .ok b ∧ b.length % 4 = 0 ∧ (Pkg.pack p).1.length = 12 + p.payload.length ∧
      b.length = 12 + p.payload.length + (4 - p.payload.length % 4) % 4 := by
  refine ⟨pkgBytes p, by rw [Pkg_pack_eq p h], pkgBytes_mod4 p, by rw [Pkg_pack_eq p h]; rfl, pkgBytes_length p⟩

/-- unpack (any prior state, any following bytes) returns the same fields and exactly the following
    bytes; packing the decoded package reproduces the bytes -/
theorem iNETPackage_roundtrip (p t : Pkg) (rest : Bytes) (h : Pkg_WF p) :
    ∃ b, (Pkg.pack p).2 = .ok b ∧
      Pkg.unpack t (b ++ rest) = ({ p with length := 12 + p.payload.length }, .ok rest) ∧
      (Pkg.pack (Pkg.unpack t (b ++ rest)).1).2 = .ok b := by
  refine ⟨pkgBytes p, by rw [Pkg_pack_eq p h], Pkg_unpack_eq p t rest h, ?_⟩
  rw [Pkg_unpack_eq p t rest h, Pkg_pack_eq _ (Pkg_WF_norm p h)]
  rfl

example : Pkg_WF { Pkg.fresh with definitionID := 7, flags := 255, payload := [1, 2, 3, 4, 5] } := by
  simp [Pkg_WF, Pkg.fresh]

/-- `iNET.pack` emits the message layout: version/option-word-count byte, type, flags, definition id,
    sequence, total length, time stamp, option words, packages -/
theorem iNET_pack_layout (s : State) (h : iNET_WF s) :
    (pack s).2 = .ok (Spec.iNET.encode s.version s.type s.flags s.definition_ID s.sequence s.ptptimeseconds
      s.ptptimenanoseconds s.app_fields
      (s.packages.flatMap fun p => Spec.iNETPackage.encode p.definitionID p.flags p.timedelta p.payload)) := by
  rw [iNET_pack_eq s h]
  have hf : (fun p : Pkg => Spec.iNETPackage.encode p.definitionID p.flags p.timedelta p.payload) = pkgBytes := by
    funext p; exact (pkgBytes_eq_spec p).symm
  have h4 : encInt true 4 = beBytes 4 := by funext n; simp [encInt]
  have hl : 24 + 4 * s.app_fields.length + (s.packages.flatMap pkgBytes).length = msgLen s := by
    simp only [msgLen]; omega
  rw [hf]
  simp only [Spec.iNET.encode, hl]
  simp [msgBytes, msgHdr, words32, encInt, h4, Nat.add_comm]

/-- computed field: the length field is the number of bytes emitted -/
theorem iNET_length_law (s : State) (h : iNET_WF s) :
    ∃ b, (pack s).2 = .ok b ∧ (pack s).1.length = b.length := by
  refine ⟨msgBytes s, by rw [iNET_pack_eq s h], ?_⟩
  rw [iNET_pack_eq s h]
  simp only [packed, msgLen, msgBytes, List.length_append, msgHdr_length, words32_length]
  omega

/-- iNET round trip: the same header fields, option words and packages (each with its computed length
    field), whatever the decoding object held; re-encoding the decoded object reproduces the bytes -/
theorem iNET_roundtrip (s t : State) (h : iNET_WF s) :
    ∃ b, (pack s).2 = .ok b ∧ unpack t b = (decoded s, .ok ()) ∧ (pack (unpack t b).1).2 = .ok b := by
  refine ⟨msgBytes s, by rw [iNET_pack_eq s h], iNET_unpack_eq s t h, ?_⟩
  rw [iNET_unpack_eq s t h]
  have hwf : iNET_WF (decoded s) := by
    obtain ⟨h1, h2, h3, h4, h5, h6, h7, h8, h9, h10, h11⟩ := h
    refine ⟨h1, h2, h3, h4, h5, h6, h7, h8, h9, ?_, ?_⟩
    · intro p hp
      simp only [decoded, packed, List.mem_map] at hp
      obtain ⟨y, hy, rfl⟩ := hp
      exact Pkg_WF_norm y (h10 y hy)
    · simp only [decoded, packed, flatMap_pkgBytes_norm]; exact h11
  rw [iNET_pack_eq _ hwf]
  simp [msgBytes, msgHdr, msgLen, decoded, packed, flatMap_pkgBytes_norm]

/-- the decoded fields are the encoded ones -/
theorem iNET_decoded_fields (s : State) :
    (decoded s).flags = s.flags ∧ (decoded s).type = s.type ∧ (decoded s).version = s.version ∧
    (decoded s).definition_ID = s.definition_ID ∧ (decoded s).sequence = s.sequence ∧
    (decoded s).ptptimeseconds = s.ptptimeseconds ∧ (decoded s).ptptimenanoseconds = s.ptptimenanoseconds ∧
    (decoded s).app_fields = s.app_fields ∧
    (decoded s).packages = s.packages.map fun p => { p with length := 12 + p.payload.length } :=
  ⟨rfl, rfl, rfl, rfl, rfl, rfl, rfl, rfl, rfl⟩

example : iNET_WF { fresh with type := 3, app_fields := [1, 2], packages := [{ Pkg.fresh with definitionID := 7, payload := [1, 2, 3, 4, 5] }, Pkg.fresh] } := by
  refine ⟨by simp [fresh], by simp, by simp [fresh, INET_DEFAULT_VERSION], by simp [fresh], by simp [fresh],
    by simp [fresh], by simp [fresh], by simp, by simp, ?_, ?_⟩
  · intro p hp; simp [fresh] at hp; rcases hp with rfl | rfl <;> simp [Pkg_WF, Pkg.fresh]
  · simp [fresh, pkgBytes, pkgHdr, pad4, Pkg.fresh]

/-- a type beyond its four bits is not expressible: the decoder keeps the low four bits -/
example : (unpack fresh (match (pack { fresh with type := 0x13 }).2 with | .ok b => b | .error _ => [])).1.type = 3 := by
  decide

end Acra.Props.C01
