import Acra.Lemmas.IENAQDN
import Acra.Props.C01.IENA
import Acra.Spec.FTI2
namespace Acra.Props.C01
open Acra.Py Acra.Model.IENA Acra.Gen.IENA Acra.Lemmas.IENA

/-- the bytes of a well-formed IENA packet are the IENA layout (both are what `pack` returns) -/
theorem IENA_bytes_eq_spec (s : Base) (h : IENA_WF s) :
    IENA_bytes s = Spec.IENA.encode s.key s.timeusec s.keystatus s.status s.sequence s.endfield s.payload := by
  have h1 := IENA_pack_layout s h
  rw [IENA_pack_eq s h] at h1
  exact Except.ok.inj h1

/-! ### IENA-Q -/

def IENAQ_base (s : QState) : Base := { s.base with payload := s.parameters.flatMap encQb }

def IENAQ_WF (s : QState) : Prop :=
  (∀ p ∈ s.parameters, QParam_WF p) ∧ IENA_WF (IENAQ_base s)

/-- each parameter is laid out as id, length, dataset, pad -/
theorem IENAQ_param_layout (p : QParam) :
    encQb p = Spec.IENAQ.encodeParam p.paramid p.dataset := by
  simp [encQb, padM, Spec.IENAQ.encodeParam, encInt]

/-- padding rule, every residue: each encoded parameter occupies an even number of bytes -/
theorem IENAQ_param_even (p : QParam) : (encQb p).length % 2 = 0 := encQb_even p

def IENAQ_decoded (s : QState) (le : Bool) : QState :=
  { base := { IENAQ_base s with size := ((IENAQ_base s).payload.length + 16) / 2, lengthError := le },
    parameters := s.parameters }

theorem IENAQ_pack_eq (s : QState) (h : IENAQ_WF s) :
    QState.pack s = ({ s with base := { IENAQ_base s with size := ((IENAQ_base s).payload.length + 16) / 2 } },
                     .ok (IENA_bytes (IENAQ_base s))) := by
  obtain ⟨hp, hb⟩ := h
  unfold QState.pack
  rw [encAllQ_eq _ hp]
  show (match Base.pack (IENAQ_base s) with | (b', r) => ({ s with base := b' }, r)) = _
  rw [IENA_pack_eq _ hb]

theorem IENAQ_unpack_eq (s t : QState) (h : IENAQ_WF s) :
    QState.unpack t (IENA_bytes (IENAQ_base s)) =
      ({ base := { IENAQ_base s with size := ((IENAQ_base s).payload.length + 16) / 2, lengthError := t.base.lengthError },
         parameters := s.parameters }, .ok ()) := by
  obtain ⟨hp, hb⟩ := h
  unfold QState.unpack
  rw [IENA_unpack_pack (IENAQ_base s) t.base hb]
  show (match decOff decQ moreRem (s.parameters.flatMap encQb) ((s.parameters.flatMap encQb).length + 1) 0 with
        | .ok ps => _ | .error e => _) = _
  rw [decQ_all _ hp]

/-- `IENAQ.pack` emits the IENA layout around the concatenated parameter encodings -/
theorem IENAQ_pack_layout (s : QState) (h : IENAQ_WF s) :
    (QState.pack s).2 = .ok (Spec.IENA.encode s.base.key s.base.timeusec s.base.keystatus s.base.status
      s.base.sequence s.base.endfield
      (s.parameters.flatMap fun p => Spec.IENAQ.encodeParam p.paramid p.dataset)) := by
  rw [IENAQ_pack_eq s h, IENA_bytes_eq_spec _ h.2]
  have : (fun p : QParam => Spec.IENAQ.encodeParam p.paramid p.dataset) = encQb := by
    funext p; exact (IENAQ_param_layout p).symm
  rw [this]; rfl

/-- IENA-Q round trip: same header fields, same parameters in order, same bytes on re-encode -/
theorem IENAQ_roundtrip (s t : QState) (h : IENAQ_WF s) :
    ∃ b, (QState.pack s).2 = .ok b ∧
      (QState.unpack t b).2 = .ok () ∧
      (QState.unpack t b).1.parameters = s.parameters ∧
      (QState.unpack t b).1.base =
        { IENAQ_base s with size := ((s.parameters.flatMap encQb).length + 16) / 2, lengthError := t.base.lengthError } ∧
      (QState.pack (QState.unpack t b).1).2 = .ok b := by
  refine ⟨IENA_bytes (IENAQ_base s), by rw [IENAQ_pack_eq s h], by rw [IENAQ_unpack_eq s t h],
    by rw [IENAQ_unpack_eq s t h], by rw [IENAQ_unpack_eq s t h]; rfl, ?_⟩
  rw [IENAQ_unpack_eq s t h]
  have h' : IENAQ_WF (IENAQ_decoded s t.base.lengthError) := h
  have := IENAQ_pack_eq _ h'
  show (QState.pack (IENAQ_decoded s t.base.lengthError)).2 = _
  rw [this]
  rfl

example : IENAQ_WF { QState.fresh with parameters := [⟨1, [0xAA, 0xBB, 0xCC]⟩, ⟨3, []⟩] } := by
  refine ⟨by simp [QParam_WF], ?_⟩
  simp [IENA_WF, IENAQ_base, QState.fresh, Base.fresh, IENA_DEFAULT_ENDFIELD, encQb, padM]

/-! ### IENA-D: decode-only layout, for every data-word count `keystatus & 7` -/

/-- the IENA packet whose payload is the parameters `ps` laid end to end -/
def IENAD_packet (h : Base) (ps : List DParam) : Base := { h with payload := ps.flatMap encDb }

theorem IENAD_param_layout (p : DParam) :
    encDb p = Spec.IENAD.encodeParam p.paramid p.delay p.dwords := by
  have : encInt true 2 = beBytes 2 := by funext n; simp [encInt]
  simp [encDb, words16, Spec.IENAD.encodeParam, this]

theorem IENAD_unpack_eq (h : Base) (ps : List DParam) (t : DState) (hwf : IENA_WF (IENAD_packet h ps))
    (hp : ∀ p ∈ ps, DParam_WF (h.keystatus % 8) p) :
    DState.unpack t (IENA_bytes (IENAD_packet h ps)) =
      ({ base := { IENAD_packet h ps with size := ((ps.flatMap encDb).length + 16) / 2, lengthError := t.base.lengthError },
         parameters := ps }, .ok ()) := by
  unfold DState.unpack
  rw [IENA_unpack_pack (IENAD_packet h ps) t.base hwf]
  have hlen := flatMap_encDb_length (h.keystatus % 8) ps hp
  have hnum : ps.length * (h.keystatus % 8 * 2 + 4) / (h.keystatus % 8 * 2 + 4) = ps.length :=
    Nat.mul_div_cancel _ (by omega)
  have hdec := decDAll_enc (h.keystatus % 8) ps hp [] [] 0 (by simp)
  simp only [List.nil_append, List.append_nil] at hdec
  simp only [IENAD_packet, Lemmas.Bits.and_7, hlen, hnum, Nat.sub_self, ne_eq, not_true_eq_false, if_false,
    List.range_eq_range', hdec]

/-- bytes laid out as IENA-D (the IENA layout around `n + 2` 16-bit words per parameter, `n` the low three
    bits of the key-status byte) decode into exactly those parameters, whatever the object held before;
    and the decoded object re-encodes to the same bytes -/
theorem IENAD_decode_layout (h : Base) (ps : List DParam) (t : DState) (hwf : IENA_WF (IENAD_packet h ps))
    (hp : ∀ p ∈ ps, DParam_WF (h.keystatus % 8) p) :
    let b := Spec.IENA.encode h.key h.timeusec h.keystatus h.status h.sequence h.endfield
      (ps.flatMap fun p => Spec.IENAD.encodeParam p.paramid p.delay p.dwords)
    (DState.unpack t b).2 = .ok () ∧ (DState.unpack t b).1.parameters = ps ∧
    (DState.unpack t b).1.base = { IENAD_packet h ps with size := ((ps.flatMap encDb).length + 16) / 2, lengthError := t.base.lengthError } ∧
    (DState.pack (DState.unpack t b).1).2 = .ok b := by
  have hfun : (fun p : DParam => Spec.IENAD.encodeParam p.paramid p.delay p.dwords) = encDb := by
    funext p; exact (IENAD_param_layout p).symm
  have hb := IENA_bytes_eq_spec _ hwf
  simp only [IENAD_packet] at hb
  simp only [hfun, ← hb]
  have hu := IENAD_unpack_eq h ps t hwf hp
  simp only [IENAD_packet] at hu
  rw [hu]
  refine ⟨rfl, rfl, rfl, ?_⟩
  have h' : IENA_WF { IENAD_packet h ps with size := ((ps.flatMap encDb).length + 16) / 2, lengthError := t.base.lengthError } := hwf
  simp only [DState.pack]
  have := IENA_pack_eq _ h'
  simp only [IENAD_packet] at this
  rw [this]
  rfl

/-- witnesses for every word count 0..7 -/
example : ∀ n < 8, ∃ p : DParam, DParam_WF n p := by
  intro n _
  exact ⟨⟨1, 2, List.replicate n 7⟩, by simp [DParam_WF]⟩
example : IENA_WF (IENAD_packet { Base.fresh with keystatus := 0x1A } [⟨1, 2, [3, 4]⟩, ⟨5, 6, [7, 65535]⟩]) ∧
    ∀ p ∈ [(⟨1, 2, [3, 4]⟩ : DParam), ⟨5, 6, [7, 65535]⟩], DParam_WF (0x1A % 8) p := by
  refine ⟨?_, by simp [DParam_WF]⟩
  simp [IENA_WF, IENAD_packet, Base.fresh, IENA_DEFAULT_ENDFIELD, encDb, words16]

/-! ### IENA-N -/

def IENAN_packet (h : Base) (ps : List NParam) : Base := { h with payload := ps.flatMap encNb }

theorem IENAN_param_layout (p : NParam) :
    encNb p = Spec.IENAN.encodeParam p.paramid p.dwords := by
  have : encInt true 2 = beBytes 2 := by funext n; simp [encInt]
  simp [encNb, words16, Spec.IENAN.encodeParam, this]

theorem IENAN_unpack_eq (h : Base) (ps : List NParam) (t : NState) (hwf : IENA_WF (IENAN_packet h ps))
    (hp : ∀ p ∈ ps, NParam_WF (h.keystatus % 8) p) :
    NState.unpack t (IENA_bytes (IENAN_packet h ps)) =
      ({ base := { IENAN_packet h ps with size := ((ps.flatMap encNb).length + 16) / 2, lengthError := t.base.lengthError },
         parameters := ps }, .ok ()) := by
  unfold NState.unpack
  rw [IENA_unpack_pack (IENAN_packet h ps) t.base hwf]
  have hlen := flatMap_encNb_length (h.keystatus % 8) ps hp
  have hnum : ps.length * (h.keystatus % 8 * 2 + 2) / (h.keystatus % 8 * 2 + 2) = ps.length :=
    Nat.mul_div_cancel _ (by omega)
  have hdec := decNAll_enc (h.keystatus % 8) ps hp [] [] 0 (by simp)
  simp only [List.nil_append, List.append_nil] at hdec
  simp only [IENAN_packet, Lemmas.Bits.and_7, hlen, hnum, Nat.sub_self, ne_eq, not_true_eq_false, if_false,
    List.range_eq_range', hdec]

/-- bytes laid out as IENA-N (`n + 1` 16-bit words per parameter) decode into exactly those parameters -/
theorem IENAN_decode_layout (h : Base) (ps : List NParam) (t : NState) (hwf : IENA_WF (IENAN_packet h ps))
    (hp : ∀ p ∈ ps, NParam_WF (h.keystatus % 8) p) :
    let b := Spec.IENA.encode h.key h.timeusec h.keystatus h.status h.sequence h.endfield
      (ps.flatMap fun p => Spec.IENAN.encodeParam p.paramid p.dwords)
    (NState.unpack t b).2 = .ok () ∧ (NState.unpack t b).1.parameters = ps ∧
    (NState.unpack t b).1.base = { IENAN_packet h ps with size := ((ps.flatMap encNb).length + 16) / 2, lengthError := t.base.lengthError } ∧
    (NState.pack (NState.unpack t b).1).2 = .ok b := by
  have hfun : (fun p : NParam => Spec.IENAN.encodeParam p.paramid p.dwords) = encNb := by
    funext p; exact (IENAN_param_layout p).symm
  have hb := IENA_bytes_eq_spec _ hwf
  simp only [IENAN_packet] at hb
  simp only [hfun, ← hb]
  have hu := IENAN_unpack_eq h ps t hwf hp
  simp only [IENAN_packet] at hu
  rw [hu]
  refine ⟨rfl, rfl, rfl, ?_⟩
  have h' : IENA_WF { IENAN_packet h ps with size := ((ps.flatMap encNb).length + 16) / 2, lengthError := t.base.lengthError } := hwf
  simp only [NState.pack]
  have := IENA_pack_eq _ h'
  simp only [IENAN_packet] at this
  rw [this]
  rfl

example : ∀ n < 8, ∃ p : NParam, NParam_WF n p := by
  intro n _
  exact ⟨⟨1, List.replicate n 7⟩, by simp [NParam_WF]⟩
example : IENA_WF (IENAN_packet { Base.fresh with keystatus := 3 } [⟨1, [2, 3, 4]⟩]) ∧
    ∀ p ∈ [(⟨1, [2, 3, 4]⟩ : NParam)], NParam_WF (3 % 8) p := by
  refine ⟨?_, by simp [NParam_WF]⟩
  simp [IENA_WF, IENAN_packet, Base.fresh, IENA_DEFAULT_ENDFIELD, encNb, words16]

end Acra.Props.C01
