import Acra.Model.Container
import Acra.Props.C01.iNetX
import Acra.Props.C01.IENA
import Acra.Props.C01.IENAQDN
import Acra.Props.C01.iNET
import Acra.Props.C01.NPD
import Acra.Props.C01.ParserAligned
/-!
  C01 for the container protocol of the FTI payload classes.

  * `len(x)` of iNetX / IENA / iNET is the length of the bytes `pack` returns (unconditionally: same bytes or same
    exception), and for a well-formed object that length is the one the layout dictates;
    `len(block)` of a ParserAlignedBlock is the length of what `pack` emits whenever `pack` accepts the block — and it
    is ALSO defined (8 + |payload|) when `pack` refuses the payload.
  * `x[i]` of a decoded container is the i-th encoded element: `unpack (pack x)` then `[i]` is `x.elements[i]`
    (Python indexing: `i ≥ 0` from the front, `i < 0` from the back), `IndexError` exactly outside `-n ≤ i < n`,
    and `len` of it is the number of encoded elements.
-/
namespace Acra.Props.C01
open Acra.Py

/-! ### `len` is the length of the packed bytes -/

/-- whatever the fields hold: if `pack` returns `b` then `len` returns `|b|`, if `pack` raises `e` so does `len` -/
theorem iNetX_len_pack (s : Acra.Model.iNetX.State) :
    (∀ b, (Acra.Model.iNetX.pack s).2 = .ok b → (Acra.Model.iNetX.len s).2 = .ok b.length) ∧
    (∀ e, (Acra.Model.iNetX.pack s).2 = .error e → (Acra.Model.iNetX.len s).2 = .error e) := by
  constructor
  · intro b h; show (Acra.Model.iNetX.pack s).2.map List.length = _; rw [h]; rfl
  · intro e h; show (Acra.Model.iNetX.pack s).2.map List.length = _; rw [h]; rfl

/-- a well-formed iNetX packet: `len` is 28 + the payload length -/
theorem iNetX_len_wf (s : Acra.Model.iNetX.State) (h : iNetX_WF s) :
    (Acra.Model.iNetX.len s).2 = .ok (28 + s.payload.length) := by
  obtain ⟨b, hb, hl, _⟩ := iNetX_pack_ok s h
  rw [(iNetX_len_pack s).1 b hb, hl]

open Acra.Model.IENA in
theorem IENA_len_pack (s : Base) :
    (∀ b, (Base.pack s).2 = .ok b → (Base.len s).2 = .ok b.length) ∧
    (∀ e, (Base.pack s).2 = .error e → (Base.len s).2 = .error e) := by
  constructor
  · intro b h; show (Base.pack s).2.map List.length = _; rw [h]; rfl
  · intro e h; show (Base.pack s).2.map List.length = _; rw [h]; rfl

open Acra.Model.IENA Acra.Lemmas.IENA in
/-- a well-formed positional IENA packet: `len` is 16 + the payload length, twice the size field `len` leaves behind -/
theorem IENA_len_wf (s : Base) (h : IENA_WF s) :
    (Base.len s).2 = .ok (16 + s.payload.length) ∧ (Base.len s).1.size * 2 = 16 + s.payload.length := by
  obtain ⟨b, hb, hs, hl⟩ := IENA_size_law s h
  refine ⟨by rw [(IENA_len_pack s).1 b hb, hl], ?_⟩
  show (Base.pack s).1.size * 2 = _
  rw [hs, hl]

theorem iNET_len_pack (s : Acra.Model.iNET.State) :
    (∀ b, (Acra.Model.iNET.pack s).2 = .ok b → (Acra.Model.iNET.len s).2 = .ok b.length) ∧
    (∀ e, (Acra.Model.iNET.pack s).2 = .error e → (Acra.Model.iNET.len s).2 = .error e) := by
  constructor
  · intro b h; show (Acra.Model.iNET.pack s).2.map List.length = _; rw [h]; rfl
  · intro e h; show (Acra.Model.iNET.pack s).2.map List.length = _; rw [h]; rfl

open Acra.Lemmas.iNET in
/-- a well-formed iNET message: `len` succeeds and equals the length field it leaves in the object -/
theorem iNET_len_wf (s : Acra.Model.iNET.State) (h : iNET_WF s) :
    ∃ n, (Acra.Model.iNET.len s).2 = .ok n ∧ (Acra.Model.iNET.len s).1.length = n := by
  obtain ⟨b, hb, hl⟩ := iNET_length_law s h
  exact ⟨b.length, (iNET_len_pack s).1 b hb, hl⟩

open Acra.Model.ParserAligned Acra.Lemmas.ParserAligned Acra.Gen.ParserAligned in
/-- `len(block)` is 8 + |payload| for every block; when `pack` accepts the block that is the length of its bytes -/
theorem ParserAlignedBlock_len (s : Block) :
    s.len = 8 + s.payload.length ∧ (Block_WF s → ∃ b, (Block.pack s).2 = .ok b ∧ s.len = b.length) := by
  have h8 : s.len = 8 + s.payload.length := by
    show s.payload.length + 8 = 8 + s.payload.length
    omega
  refine ⟨h8, fun h => ⟨blockBytes s, by rw [Block_pack_eq s h], ?_⟩⟩
  rw [h8, blockBytes_length]

open Acra.Model.ParserAligned in
/-- `len` is defined where `pack` is not: a 3-byte payload is refused by `pack` (bare `Exception`), `len` says 11 -/
theorem ParserAlignedBlock_len_without_pack :
    ({ Block.fresh with payload := [1, 2, 3] } : Block).len = 11 ∧
    (Block.pack { Block.fresh with payload := [1, 2, 3] }).2 = .error .generic := ⟨rfl, rfl⟩

/-! ### `[i]` of a decoded container is the i-th encoded element -/

/-- Python indexing on a list, the three facts every container theorem below instantiates -/
theorem index_law {α : Type} (l : List α) :
    (∀ k (hk : k < l.length), listGet l (k : Int) = .ok l[k]) ∧
    (∀ k (h1 : 1 ≤ k) (hk : k ≤ l.length), listGet l (-(k : Int)) = .ok (l[l.length - k]'(by omega))) ∧
    (∀ i : Int, listGet l i = .error .index ↔ ¬ (-(l.length : Int) ≤ i ∧ i < l.length)) :=
  ⟨listGet_nonneg l, listGet_neg l, listGet_error_iff l⟩

open Acra.Model.IENA Acra.Lemmas.IENA in
/-- IENA-M: decode the encoding of `s` (into an object in any prior state): `len` is the number of parameters of `s`
    and `[i]` is `s.parameters[i]` — in range from either end, `IndexError` exactly outside `-n ≤ i < n` -/
theorem IENAM_getitem_roundtrip (s t : MState) (h : IENAM_WF s) :
    ∃ b, (MState.pack s).2 = .ok b ∧ (MState.unpack t b).2 = .ok () ∧
      (MState.unpack t b).1.len = s.parameters.length ∧
      (∀ i, (MState.unpack t b).1.getitem i = listGet s.parameters i) ∧
      (∀ k (hk : k < s.parameters.length), (MState.unpack t b).1.getitem k = .ok s.parameters[k]) ∧
      (∀ i : Int, (MState.unpack t b).1.getitem i = .error .index ↔
        ¬ (-(s.parameters.length : Int) ≤ i ∧ i < s.parameters.length)) := by
  obtain ⟨b, h1, h2, h3, _, _⟩ := IENAM_roundtrip s t h
  refine ⟨b, h1, h2, ?_, ?_, ?_, ?_⟩
  · simp only [MState.len, h3]
  · intro i; simp only [MState.getitem, h3]
  · intro k hk; simp only [MState.getitem, h3]; exact listGet_nonneg _ k hk
  · intro i; simp only [MState.getitem, h3]; exact listGet_error_iff _ i

open Acra.Model.IENA Acra.Lemmas.IENA in
example : IENAM_WF { MState.fresh with parameters := [⟨1, 2, [0xAA, 0xBB, 0xCC]⟩, ⟨3, 4, []⟩] } := by
  refine ⟨by simp [MParam_WF], ?_⟩
  simp [IENA_WF, IENAM_base, MState.fresh, Base.fresh, Acra.Gen.IENA.IENA_DEFAULT_ENDFIELD, encMb, padM]

open Acra.Model.IENA Acra.Lemmas.IENA in
theorem IENAQ_getitem_roundtrip (s t : QState) (h : IENAQ_WF s) :
    ∃ b, (QState.pack s).2 = .ok b ∧ (QState.unpack t b).2 = .ok () ∧
      (QState.unpack t b).1.len = s.parameters.length ∧
      (∀ i, (QState.unpack t b).1.getitem i = listGet s.parameters i) ∧
      (∀ k (hk : k < s.parameters.length), (QState.unpack t b).1.getitem k = .ok s.parameters[k]) ∧
      (∀ i : Int, (QState.unpack t b).1.getitem i = .error .index ↔
        ¬ (-(s.parameters.length : Int) ≤ i ∧ i < s.parameters.length)) := by
  obtain ⟨b, h1, h2, h3, _, _⟩ := IENAQ_roundtrip s t h
  refine ⟨b, h1, h2, ?_, ?_, ?_, ?_⟩
  · simp only [QState.len, h3]
  · intro i; simp only [QState.getitem, h3]
  · intro k hk; simp only [QState.getitem, h3]; exact listGet_nonneg _ k hk
  · intro i; simp only [QState.getitem, h3]; exact listGet_error_iff _ i

open Acra.Model.IENA Acra.Lemmas.IENA in
/-- IENA-D: bytes laid out as IENA-D with parameters `ps` decode into a container whose `[i]` is `ps[i]` -/
theorem IENAD_getitem_decode (h : Base) (ps : List DParam) (t : DState) (hwf : IENA_WF (IENAD_packet h ps))
    (hp : ∀ p ∈ ps, DParam_WF (h.keystatus % 8) p) :
    let b := Spec.IENA.encode h.key h.timeusec h.keystatus h.status h.sequence h.endfield
      (ps.flatMap fun p => Spec.IENAD.encodeParam p.paramid p.delay p.dwords)
    (DState.unpack t b).1.len = ps.length ∧ ∀ i, (DState.unpack t b).1.getitem i = listGet ps i := by
  intro b
  obtain ⟨_, h2, _, _⟩ := IENAD_decode_layout h ps t hwf hp
  exact ⟨by simp only [DState.len]; rw [h2], fun i => by simp only [DState.getitem]; rw [h2]⟩

open Acra.Model.IENA Acra.Lemmas.IENA in
theorem IENAN_getitem_decode (h : Base) (ps : List NParam) (t : NState) (hwf : IENA_WF (IENAN_packet h ps))
    (hp : ∀ p ∈ ps, NParam_WF (h.keystatus % 8) p) :
    let b := Spec.IENA.encode h.key h.timeusec h.keystatus h.status h.sequence h.endfield
      (ps.flatMap fun p => Spec.IENAN.encodeParam p.paramid p.dwords)
    (NState.unpack t b).1.len = ps.length ∧ ∀ i, (NState.unpack t b).1.getitem i = listGet ps i := by
  intro b
  obtain ⟨_, h2, _, _⟩ := IENAN_decode_layout h ps t hwf hp
  exact ⟨by simp only [NState.len]; rw [h2], fun i => by simp only [NState.getitem]; rw [h2]⟩

open Acra.Model.ParserAligned Acra.Lemmas.ParserAligned in
/-- parser-aligned packet: `[i]` of the decoded packet is block `i` of `s` with its computed quad-byte count -/
theorem ParserAlignedPacket_getitem_roundtrip (s t : Packet) (h : Packet_WF s) :
    ∃ b, (Packet.pack s).2 = .ok b ∧ (Packet.unpack t b).2 = .ok () ∧
      (Packet.unpack t b).1.len = s.parserblocks.length ∧
      (∀ i, (Packet.unpack t b).1.getitem i = (listGet s.parserblocks i).map norm) ∧
      (∀ i : Int, (Packet.unpack t b).1.getitem i = .error .index ↔
        ¬ (-(s.parserblocks.length : Int) ≤ i ∧ i < s.parserblocks.length)) := by
  obtain ⟨b, h1, h2, _⟩ := ParserAlignedPacket_roundtrip s t h
  refine ⟨b, h1, by rw [h2], ?_, ?_, ?_⟩
  · rw [h2]; simp [Packet.len]
  · intro i; rw [h2]; simp only [Packet.getitem]; exact listGet_map norm _ i
  · intro i; rw [h2]; simp only [Packet.getitem]
    have := listGet_error_iff (s.parserblocks.map norm) i
    simpa using this

open Acra.Model.NPD Acra.Lemmas.NPD in
/-- NPD: `[i]` of the decoded packet is segment `i` of `s` as its typed decoder reads it -/
theorem NPD_getitem_roundtrip (s t : State) (dt mc ts : Nat) (h : NPD_WF s dt mc ts)
    (hok : ∀ g ∈ s.segments, TypedOK (kindOf dt) g)
    (hk : kindOf dt ≠ .rs232 ∨ ∀ g ∈ s.segments, g.kind = .rs232) :
    ∃ b, (pack s).2 = .ok b ∧ (unpack t b).2 = .ok () ∧
      len (unpack t b).1 = s.segments.length ∧
      ∀ i, getitem (unpack t b).1 i = (listGet s.segments i).map (decodedSeg (kindOf dt)) := by
  obtain ⟨b, h1, h2, _⟩ := NPD_roundtrip s t dt mc ts h hok hk
  refine ⟨b, h1, by rw [h2], ?_, ?_⟩
  · rw [h2]; simp [len, decodedNPD]
  · intro i; rw [h2]; exact listGet_map _ _ i

/-! ### witnesses: each theorem above applied to a concrete, non-trivial object -/
section witnesses

example := iNetX_len_wf { Acra.Model.iNetX.fresh with streamid := 0xDC, payload := [5, 0] }
  (by simp [iNetX_WF, Acra.Model.iNetX.fresh, Acra.Gen.iNetX.iNetX_DEF_CONTROL_WORD])

open Acra.Model.IENA Acra.Lemmas.IENA Acra.Gen.IENA in
example := IENA_len_wf { Base.fresh with key := 0x1A, timeusec := 10000000, payload := [5, 0] }
  (by simp [IENA_WF, Base.fresh, IENA_DEFAULT_ENDFIELD])

open Acra.Model.iNET Acra.Lemmas.iNET Acra.Gen.iNET in
example := iNET_len_wf { fresh with type := 3, app_fields := [1, 2], packages := [{ Pkg.fresh with definitionID := 7, payload := [1, 2, 3, 4, 5] }, Pkg.fresh] } (by
  refine ⟨by simp [fresh], by simp, by simp [fresh, INET_DEFAULT_VERSION], by simp [fresh], by simp [fresh],
    by simp [fresh], by simp [fresh], by simp, by simp, ?_, ?_⟩
  · intro p hp; simp [fresh] at hp; rcases hp with rfl | rfl <;> simp [Pkg_WF, Pkg.fresh]
  · simp [fresh, pkgBytes, pkgHdr, pad4, Pkg.fresh])

open Acra.Model.ParserAligned Acra.Lemmas.ParserAligned Acra.Gen.ParserAligned in
example := (ParserAlignedBlock_len { Block.fresh with error := true, errorcode := 63, payload := [1, 2, 3, 4] }).2
  (by simp [Block_WF, Block.fresh, PAB_DEFAULT_BUSID, PAB_DEFAULT_ELAPSEDTIME])

open Acra.Model.IENA Acra.Lemmas.IENA Acra.Gen.IENA in
example := IENAM_getitem_roundtrip { MState.fresh with parameters := [⟨1, 2, [0xAA, 0xBB, 0xCC]⟩, ⟨3, 4, []⟩] }
  { MState.fresh with parameters := [⟨9, 9, [1]⟩] } (by
    refine ⟨by simp [MParam_WF], ?_⟩
    simp [IENA_WF, IENAM_base, MState.fresh, Base.fresh, IENA_DEFAULT_ENDFIELD, encMb, padM])

open Acra.Model.IENA Acra.Lemmas.IENA Acra.Gen.IENA in
example := IENAQ_getitem_roundtrip { QState.fresh with parameters := [⟨1, [0xAA, 0xBB, 0xCC]⟩, ⟨3, []⟩] }
  { QState.fresh with parameters := [⟨9, [1]⟩] } (by
    refine ⟨by simp [QParam_WF], ?_⟩
    simp [IENA_WF, IENAQ_base, QState.fresh, Base.fresh, IENA_DEFAULT_ENDFIELD, encQb, padM])

open Acra.Model.IENA Acra.Lemmas.IENA Acra.Gen.IENA in
example := IENAD_getitem_decode { Base.fresh with keystatus := 0x1A } [⟨1, 2, [3, 4]⟩, ⟨5, 6, [7, 65535]⟩]
  { DState.fresh with parameters := [⟨9, 9, [1, 1]⟩] }
  (by simp [IENA_WF, IENAD_packet, Base.fresh, IENA_DEFAULT_ENDFIELD, encDb, words16]) (by simp [DParam_WF])

open Acra.Model.IENA Acra.Lemmas.IENA Acra.Gen.IENA in
example := IENAN_getitem_decode { Base.fresh with keystatus := 3 } [⟨1, [2, 3, 4]⟩] NState.fresh
  (by simp [IENA_WF, IENAN_packet, Base.fresh, IENA_DEFAULT_ENDFIELD, encNb, words16]) (by simp [NParam_WF])

open Acra.Model.ParserAligned Acra.Lemmas.ParserAligned Acra.Gen.ParserAligned in
example := ParserAlignedPacket_getitem_roundtrip
  { Packet.fresh with parserblocks := [{ Block.fresh with payload := [1, 2, 3, 4] }, Block.fresh] }
  { Packet.fresh with parserblocks := [Block.fresh, Block.fresh, Block.fresh] } (by
    intro b hb
    simp at hb
    rcases hb with rfl | rfl <;> simp [Block_WF, Block.fresh, PAB_DEFAULT_BUSID, PAB_DEFAULT_ELAPSEDTIME])

open Acra.Model.NPD Acra.Lemmas.NPD Acra.Gen.NPD in
example := NPD_getitem_roundtrip
  { fresh with datatype := some 0xD0, mcastaddr := some 0xEB000001, timestamp := some 7, segments := [rawSeg 1 2 3 [0, 5, 1, 2, 9, 9]] }
  { fresh with segments := [Seg.fresh .base] } 0xD0 0xEB000001 7 (by
    refine ⟨by simp [fresh, NPD_VERSION], rfl, rfl, by omega, by simp [fresh], by simp [fresh], by simp [fresh],
      by simp [fresh], rfl, by omega, rfl, by omega, ?_, ?_⟩
    · intro g hg; simp at hg; subst hg; exact rawSeg_WF 1 2 3 _ (by omega) (by omega) (by omega) (by simp)
    · simp [segBytes_length, effPayload, rawSeg, Seg.fresh])
  (by intro g hg; simp at hg; subst hg; rfl) (Or.inl (by decide))

end witnesses

end Acra.Props.C01
