import Acra.Lemmas.ParserAligned
import Acra.Lemmas.ListAux
import Acra.Spec.FTI2
namespace Acra.Props.C01
open Acra.Py Acra.Model.ParserAligned Acra.Gen.ParserAligned Acra.Lemmas.ParserAligned

/-- `ParserAlignedBlock.pack` emits the block layout: error(1) error code(6) quad-byte count(9),
    message count, bus id, elapsed time, payload -/
theorem ParserAlignedBlock_pack_layout (s : Block) (h : Block_WF s) :
    (Block.pack s).2 = .ok (Spec.ParserAlignedBlock.encode s.error s.errorcode s.messagecount s.busid
      s.elapsedtime s.payload) := by
  rw [Block_pack_eq s h]
  have : (if s.error = true then 32768 else 0) = (if s.error = true then 1 else 0) * 32768 := by
    split <;> rfl
  simp [blockBytes, blockHdr, eaq, Spec.ParserAlignedBlock.encode, encInt, this]

/-- computed field: `quadbytes = 2 + |payload| / 4`, and `4 · quadbytes` is the length of the bytes emitted -/
theorem ParserAlignedBlock_quadbytes_law (s : Block) (h : Block_WF s) :
    ∃ b, (Block.pack s).2 = .ok b ∧ (Block.pack s).1.quadbytes = 2 + s.payload.length / 4 ∧
      (Block.pack s).1.quadbytes * 4 = b.length := by
  refine ⟨blockBytes s, by rw [Block_pack_eq s h], by rw [Block_pack_eq s h]; rfl, ?_⟩
  rw [Block_pack_eq s h, blockBytes_length]
  have := h.2.2.2.2.1
  simp only [norm]
  omega

/-- unpack (into an object in any prior state, with any bytes following the block) returns the same
    field values and the block length; packing the decoded object reproduces the bytes -/
theorem ParserAlignedBlock_roundtrip (s t : Block) (rest : Bytes) (h : Block_WF s) :
    ∃ b, (Block.pack s).2 = .ok b ∧
      Block.unpack t (b ++ rest) = ({ s with quadbytes := 2 + s.payload.length / 4 }, .ok b.length) ∧
      (Block.pack (Block.unpack t (b ++ rest)).1).2 = .ok b := by
  refine ⟨blockBytes s, by rw [Block_pack_eq s h], ?_, ?_⟩
  · rw [Block_unpack_eq s t rest h, blockBytes_length]
    have := h.2.2.2.2.1
    simp only [norm]
    congr 2
    omega
  · rw [Block_unpack_eq s t rest h, Block_pack_eq _ (Block_WF_norm s h)]
    rfl

example : Block_WF { Block.fresh with error := true, errorcode := 63, payload := [1, 2, 3, 4] } := by
  simp [Block_WF, Block.fresh, PAB_DEFAULT_BUSID, PAB_DEFAULT_ELAPSEDTIME]

/-- a payload that is not a whole number of quad-bytes cannot be expressed: `pack` refuses it -/
example : (Block.pack { Block.fresh with payload := [1] }).2 = .error .generic := rfl

def Packet_WF (s : Packet) : Prop := ∀ b ∈ s.parserblocks, Block_WF b

/-- a packet is its blocks laid end to end -/
theorem ParserAlignedPacket_pack_layout (s : Packet) (h : Packet_WF s) :
    (Packet.pack s).2 = .ok (s.parserblocks.flatMap fun b =>
      Spec.ParserAlignedBlock.encode b.error b.errorcode b.messagecount b.busid b.elapsedtime b.payload) := by
  simp only [Packet.pack, packBlocks_eq _ h]
  congr 1
  apply Lemmas.flatMap_congr'
  intro b hb
  have h1 := ParserAlignedBlock_pack_layout b (h b hb)
  rw [Block_pack_eq b (h b hb)] at h1
  exact Except.ok.inj h1

/-- packet round trip: the same blocks in order (each with its computed count), the same bytes on re-encode;
    `numberofblocks` is the number of blocks decoded -/
theorem ParserAlignedPacket_roundtrip (s t : Packet) (h : Packet_WF s) :
    ∃ b, (Packet.pack s).2 = .ok b ∧
      Packet.unpack t b = ({ parserblocks := s.parserblocks.map norm, numberofblocks := s.parserblocks.length }, .ok ()) ∧
      (Packet.pack (Packet.unpack t b).1).2 = .ok b := by
  refine ⟨s.parserblocks.flatMap blockBytes, by simp only [Packet.pack, packBlocks_eq _ h], ?_, ?_⟩
  · simp only [Packet.unpack, decBlock_all _ h, List.length_map]
  · simp only [Packet.unpack, decBlock_all _ h, Packet.pack]
    rw [packBlocks_eq _ (by
      intro b hb
      simp only [List.mem_map] at hb
      obtain ⟨y, hy, rfl⟩ := hb
      exact Block_WF_norm y (h y hy))]
    simp [flatMap_blockBytes_norm]

example : Packet_WF { Packet.fresh with parserblocks := [{ Block.fresh with payload := [1, 2, 3, 4] }, Block.fresh] } := by
  intro b hb
  simp at hb
  rcases hb with rfl | rfl <;> simp [Block_WF, Block.fresh, PAB_DEFAULT_BUSID, PAB_DEFAULT_ELAPSEDTIME]

end Acra.Props.C01
