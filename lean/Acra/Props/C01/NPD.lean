import Acra.Lemmas.NPD2
import Acra.Lemmas.ListAux
import Acra.Spec.FTI2
namespace Acra.Props.C01
open Acra.Py Acra.Model.NPD Acra.Gen.NPD Acra.Lemmas.NPD

theorem padFF_eq_spec (n : Nat) : padFF n = Spec.pad4 n 0xFF := by
  unfold padFF Spec.pad4
  split
  · rename_i h; have : (4 - n % 4) % 4 = 0 := by omega
    simp [this]
  · congr 1; omega

/-- header, data, pad: the NPD segment layout -/
theorem segBytesL_eq_spec (td ec fl : Nat) (pl : Bytes) :
    segBytesL td (8 + pl.length) ec fl pl = Spec.NPDSegment.encode td ec fl pl := by
  simp [segBytesL, segHdr, Spec.NPDSegment.encode, encInt, padFF_eq_spec]

/-- `<segment class>.pack` emits the segment layout around the data the class encodes (for an RS-232
    segment: status word, sync bytes, data; otherwise the payload) -/
theorem NPDSegment_pack_layout (g : Seg) (h : Seg_WF g) :
    (Seg.pack g).2 = .ok (Spec.NPDSegment.encode g.timedelta g.errorcode g.flags (effPayload g)) := by
  rw [Seg_pack_eq g h, segBytes, segBytesL_eq_spec]

/-- the data an RS-232 segment encodes is the RS-232 layout: status word whose low three bits are the
    number of sync bytes, the sync bytes, the data -/
theorem RS232Segment_data_layout (g : Seg) (hk : g.kind = .rs232) :
    effPayload g = Spec.RS232.encodeData (g.block_status % 65536 / 8) g.sync_bytes g.data := by
  have h1 : encInt true 1 = beBytes 1 := by funext n; simp [encInt]
  simp [effPayload, hk, Spec.RS232.encodeData, encInt, h1]

/-- padding rule, every residue: an encoded segment occupies a multiple of four bytes; computed field:
    `segmentlen` is 8 + |data|, padding excluded -/
theorem NPDSegment_length_laws (g : Seg) (h : Seg_WF g) :
    ∃ b, (Seg.pack g).2 = .ok b ∧ b.length % 4 = 0 ∧ (Seg.pack g).1.segmentlen = 8 + (effPayload g).length ∧
      b.length = 8 + (effPayload g).length + (4 - (effPayload g).length % 4) % 4 := by
  refine ⟨segBytes g, by rw [Seg_pack_eq g h], segBytes_mod4 g, ?_, segBytes_length g⟩
  rw [Seg_pack_eq g h]
  obtain ⟨_, _, _, _, _, h6⟩ := h
  by_cases hk : g.kind = .rs232
  · simp [packedSeg, hk]; omega
  · have heff : effPayload g = g.payload := by cases hkk : g.kind <;> simp_all [effPayload]
    have : packedSeg g = g := by cases hkk : g.kind <;> simp_all [packedSeg]
    simp [this, heff, h6 hk]

/-- the `payload` property setter establishes `segmentlen = 8 + |payload|` -/
theorem NPDSegment_setter_law (g : Seg) (b : Bytes) :
    (g.setPayload b).segmentlen = 8 + b.length ∧ (g.setPayload b).payload = b := by
  simp [Seg.setPayload, NPD_SEGMENT_HDR_LEN, Nat.add_comm]

/-- segment round trip, for every segment class `k`: a new object of class `k` decodes the bytes (with
    anything following) into the same base fields and the typed view of the data, and returns what follows -/
theorem NPDSegment_roundtrip (k : Kind) (g : Seg) (rest : Bytes) (h : Seg_WF g) (hok : TypedOK k g) :
    ∃ b, (Seg.pack g).2 = .ok b ∧ Seg.unpack (Seg.fresh k) (b ++ rest) = (decodedSeg k g, .ok rest) ∧
      (decodedSeg k g).timedelta = g.timedelta ∧ (decodedSeg k g).errorcode = g.errorcode ∧
      (decodedSeg k g).flags = g.flags ∧ (decodedSeg k g).payload = effPayload g ∧
      (decodedSeg k g).segmentlen = 8 + (effPayload g).length := by
  have hb := typedUnpack_base k (withBase (Seg.fresh k) g.timedelta g.errorcode g.flags (effPayload g))
  refine ⟨segBytes g, by rw [Seg_pack_eq g h], Seg_unpack_eq k g rest h hok, ?_, ?_, ?_, ?_, ?_⟩
  · simp only [decodedSeg]; rw [hb.2.2.1]; rfl
  · simp only [decodedSeg]; rw [hb.2.2.2.1]; rfl
  · simp only [decodedSeg]; rw [hb.2.2.2.2.1]; rfl
  · simp only [decodedSeg]; rw [hb.2.1]; rfl
  · simp only [decodedSeg]; rw [hb.1]; simp [withBase, Nat.add_comm]

/-- the plain classes (NPDSegment, PCMPacketizer, A429Segment) have no typed header: always decodable -/
theorem TypedOK_plain (k : Kind) (g : Seg) (hk : k = .base ∨ k = .pcmpkt ∨ k = .a429) : TypedOK k g := by
  rcases hk with rfl | rfl | rfl <;> rfl

example : Seg_WF { Seg.fresh .base with timedelta := 3, payload := [1, 2, 3], segmentlen := 11 } := by
  simp [Seg_WF, Seg.fresh, effPayload]
example : Seg_WF { Seg.fresh .rs232 with block_status := 0xFFFF, sync_bytes := [1, 2], data := [9] } := by
  simp [Seg_WF, Seg.fresh, effPayload]
/-! ### typed segments: decode-only layouts -/

/-- a plain segment object carrying `data`, used to lay out typed data by hand -/
def rawSeg (td ec fl : Nat) (data : Bytes) : Seg :=
  { Seg.fresh .base with timedelta := td, errorcode := ec, flags := fl, payload := data, segmentlen := 8 + data.length }

theorem rawSeg_WF (td ec fl : Nat) (data : Bytes) (h1 : td < 4294967296) (h2 : ec < 256) (h3 : fl < 256)
    (h4 : 8 + data.length < 65536) : Seg_WF (rawSeg td ec fl data) := by
  simp [Seg_WF, rawSeg, Seg.fresh, effPayload]; omega

theorem rawSeg_bytes (td ec fl : Nat) (data : Bytes) :
    segBytes (rawSeg td ec fl data) = Spec.NPDSegment.encode td ec fl data := by
  simp only [segBytes]
  have : effPayload (rawSeg td ec fl data) = data := rfl
  rw [this]
  exact segBytesL_eq_spec td ec fl data

/-- joint witnesses for `NPDSegment_roundtrip` / `decodedSeg_bytes` with a TYPED decoding class (`hok`, `hk`):
    a 1553 layout, an ACQ layout, an RS-232 object; and what `TypedOK` excludes: data shorter than the typed
    header (the code raises `struct.error` there) -/
example : Seg_WF (rawSeg 1 2 3 [0, 5, 1, 2, 9, 9]) ∧ TypedOK .mil1553 (rawSeg 1 2 3 [0, 5, 1, 2, 9, 9]) ∧
    (Kind.mil1553 ≠ .rs232 ∨ (rawSeg 1 2 3 [0, 5, 1, 2, 9, 9]).kind = .rs232) :=
  ⟨by simp [Seg_WF, rawSeg, Seg.fresh, effPayload], rfl, Or.inl (by decide)⟩
example : Seg_WF (rawSeg 1 2 3 [7, 0x80, 0, 0, 1, 2]) ∧ TypedOK .acq (rawSeg 1 2 3 [7, 0x80, 0, 0, 1, 2]) :=
  ⟨by simp [Seg_WF, rawSeg, Seg.fresh, effPayload], rfl⟩
example : TypedOK .rs232 { Seg.fresh .rs232 with block_status := 0xFFFF, sync_bytes := [1, 2], data := [9] } ∧
    (Kind.rs232 ≠ .rs232 ∨ ({ Seg.fresh .rs232 with block_status := 0xFFFF, sync_bytes := [1, 2], data := [9] } : Seg).kind = .rs232) :=
  ⟨rfl, Or.inr rfl⟩
example : ¬ TypedOK .mil1553 (rawSeg 1 2 3 [0, 5, 1]) := by
  intro h; have : (Except.ok () : R Unit).isOk = false := h ▸ (by decide); exact absurd this (by decide)


/-- bytes laid out as a MIL-STD-1553 segment — segment header, block status(16), gap 1(8), gap 2(8),
    message data — decode into exactly `(blockstatus, gap1, gap2, data)` -/
theorem MIL1553Segment_decode_layout (td ec fl bs g1 g2 : Nat) (data rest : Bytes)
    (h1 : td < 4294967296) (h2 : ec < 256) (h3 : fl < 256) (h4 : 8 + (4 + data.length) < 65536)
    (h5 : bs < 65536) (h6 : g1 < 256) (h7 : g2 < 256) :
    let pl := Spec.MIL1553.encodeData bs g1 g2 data
    Seg.unpack (Seg.fresh .mil1553) (Spec.NPDSegment.encode td ec fl pl ++ rest) =
      ({ Seg.fresh .mil1553 with timedelta := td, segmentlen := pl.length + 8, errorcode := ec, flags := fl,
                                 payload := pl, blockstatus := bs, gap1 := g1, gap2 := g2, data := data }, .ok rest) := by
  intro pl
  have hpl : pl = data1553 bs g1 g2 data := by simp [pl, Spec.MIL1553.encodeData, data1553, encInt]
  have hlen : pl.length = 4 + data.length := by rw [hpl]; simp [data1553]; omega
  have hwf := rawSeg_WF td ec fl pl h1 h2 h3 (by omega)
  have hty := unpack1553_eq (withBase (Seg.fresh .mil1553) td ec fl pl) bs g1 g2 data hpl h5 h6 h7
  have hok : TypedOK .mil1553 (rawSeg td ec fl pl) := by
    simp only [TypedOK, typedUnpack]
    show (Seg.unpack1553 (withBase (Seg.fresh .mil1553) td ec fl pl)).2 = _
    rw [hty]
  have := Seg_unpack_eq .mil1553 (rawSeg td ec fl pl) rest hwf hok
  rw [rawSeg_bytes] at this
  rw [this]
  simp only [decodedSeg, typedUnpack]
  show ((Seg.unpack1553 (withBase (Seg.fresh .mil1553) td ec fl pl)).1, _) = _
  rw [hty]
  rfl

/-- a concrete instance (all hypotheses jointly): `ABCD 11 22 09 09` after a segment header decodes to
    block status 0xABCD, gap1 0x11, gap2 0x22 (the slot slip of defect D02 would give gap1 = 0) -/
example := MIL1553Segment_decode_layout 1 2 3 0xABCD 0x11 0x22 [9, 9] [7] (by omega) (by omega) (by omega)
  (by simp) (by omega) (by omega) (by omega)

/-- bytes laid out as an ACQ segment — sub-frame id(8), a byte whose top bit is CAL, reserved(16),
    16-bit words — decode into `(sfid, cal, words)`, whatever the seven low bits and the reserved word are -/
theorem ACQSegment_decode_layout (td ec fl sfid cal low7 reserved : Nat) (words : List Nat) (rest : Bytes)
    (h1 : td < 4294967296) (h2 : ec < 256) (h3 : fl < 256) (h4 : 8 + (4 + 2 * words.length) < 65536)
    (h5 : sfid < 256) (h6 : cal < 2) (h7 : low7 < 128) (h8 : reserved < 65536) (h9 : ∀ w ∈ words, w < 65536) :
    let pl := Spec.ACQ.encodeData sfid cal low7 reserved words
    Seg.unpack (Seg.fresh .acq) (Spec.NPDSegment.encode td ec fl pl ++ rest) =
      ({ Seg.fresh .acq with timedelta := td, segmentlen := pl.length + 8, errorcode := ec, flags := fl,
                             payload := pl, sfid := sfid, cal := cal, words := words }, .ok rest) := by
  intro pl
  have h16 : encInt true 2 = beBytes 2 := by funext n; simp [encInt]
  have hpl : pl = dataACQ sfid (cal * 128 + low7) reserved words := by
    simp [pl, Spec.ACQ.encodeData, dataACQ, wordsC, Code.size, encInt, h16]
  have hlen : pl.length = 4 + 2 * words.length := by
    rw [hpl]; simp [dataACQ, wordsC_length, Code.size]; omega
  have hwf := rawSeg_WF td ec fl pl h1 h2 h3 (by omega)
  have hty := unpackACQ_eq (withBase (Seg.fresh .acq) td ec fl pl) sfid (cal * 128 + low7) reserved words hpl h5
    (by omega) h8 h9
  have hcal : (cal * 128 + low7) / 128 = cal := by omega
  rw [hcal] at hty
  have hok : TypedOK .acq (rawSeg td ec fl pl) := by
    simp only [TypedOK, typedUnpack]
    show (Seg.unpackACQ (withBase (Seg.fresh .acq) td ec fl pl)).2 = _
    rw [hty]
  have := Seg_unpack_eq .acq (rawSeg td ec fl pl) rest hwf hok
  rw [rawSeg_bytes] at this
  rw [this]
  simp only [decodedSeg, typedUnpack]
  show ((Seg.unpackACQ (withBase (Seg.fresh .acq) td ec fl pl)).1, _) = _
  rw [hty]
  rfl

example := ACQSegment_decode_layout 1 2 3 0x42 1 0x55 0xBEEF [1, 65535] [7] (by omega) (by omega) (by omega)
  (by simp) (by omega) (by omega) (by omega) (by omega) (by simp)

/-- bytes laid out as an RS-232 segment — block status(16) whose low three bits `n` count the sync
    bytes, `n` sync bytes, data — decode into `(block_status, sync_bytes[0:n], data)` -/
theorem RS232Segment_decode_layout (td ec fl hi13 : Nat) (sync : List Nat) (data rest : Bytes)
    (h1 : td < 4294967296) (h2 : ec < 256) (h3 : fl < 256) (h4 : 8 + (2 + sync.length + data.length) < 65536)
    (h5 : hi13 < 8192) (h6 : sync.length < 8) (h7 : ∀ b ∈ sync, b < 256) :
    let pl := Spec.RS232.encodeData hi13 sync data
    Seg.unpack (Seg.fresh .rs232) (Spec.NPDSegment.encode td ec fl pl ++ rest) =
      ({ Seg.fresh .rs232 with timedelta := td, segmentlen := pl.length + 8, errorcode := ec, flags := fl,
                               payload := pl, block_status := hi13 * 8 + sync.length, sync_bytes := sync,
                               data := data }, .ok rest) := by
  intro pl
  have h8 : encInt true 1 = beBytes 1 := by funext n; simp [encInt]
  have hpl : pl = dataRS232 hi13 sync data := by
    simp [pl, Spec.RS232.encodeData, dataRS232, wordsC, Code.size, encInt, h8]
  have hlen : pl.length = 2 + sync.length + data.length := by
    rw [hpl]; simp [dataRS232, wordsC_length, Code.size]; omega
  have hwf := rawSeg_WF td ec fl pl h1 h2 h3 (by omega)
  have hty := unpackRS232_eq (withBase (Seg.fresh .rs232) td ec fl pl) hi13 sync data hpl h5 h6 h7
  have hok : TypedOK .rs232 (rawSeg td ec fl pl) := by
    simp only [TypedOK, typedUnpack]
    show (Seg.unpackRS232 (withBase (Seg.fresh .rs232) td ec fl pl)).2 = _
    rw [hty]
  have := Seg_unpack_eq .rs232 (rawSeg td ec fl pl) rest hwf hok
  rw [rawSeg_bytes] at this
  rw [this]
  simp only [decodedSeg, typedUnpack]
  show ((Seg.unpackRS232 (withBase (Seg.fresh .rs232) td ec fl pl)).1, _) = _
  rw [hty]
  rfl

example := RS232Segment_decode_layout 1 2 3 0x1FFF [0xFE, 0xFF] [9, 8, 7] [] (by omega) (by omega) (by omega)
  (by simp) (by omega) (by simp) (by simp)

/-- the typed fields of an RS-232 segment OBJECT through pack → unpack (what `decodedSeg .rs232 g` holds):
    sync bytes and data come back; `block_status` comes back with its low three bits REPLACED by the number of
    sync bytes and reduced to 16 bits (`pack` does `(block_status & 0xFFF8) + len(sync_bytes)`), so it is
    preserved exactly when it fits 16 bits and its low three bits already are that count -/
theorem RS232Segment_roundtrip_fields (g : Seg) (rest : Bytes) (h : Seg_WF g) (hk : g.kind = .rs232) :
    ∃ b, (Seg.pack g).2 = .ok b ∧ (Seg.unpack (Seg.fresh .rs232) (b ++ rest)).2 = .ok rest ∧
      (Seg.unpack (Seg.fresh .rs232) (b ++ rest)).1.sync_bytes = g.sync_bytes ∧
      (Seg.unpack (Seg.fresh .rs232) (b ++ rest)).1.data = g.data ∧
      (Seg.unpack (Seg.fresh .rs232) (b ++ rest)).1.block_status = g.block_status % 65536 / 8 * 8 + g.sync_bytes.length ∧
      (g.block_status < 65536 → g.block_status % 8 = g.sync_bytes.length →
        (Seg.unpack (Seg.fresh .rs232) (b ++ rest)).1.block_status = g.block_status) := by
  obtain ⟨h7, h8⟩ := h.2.2.2.2.1 hk
  have heff : effPayload g = dataRS232 (g.block_status % 65536 / 8) g.sync_bytes g.data := by
    simp [effPayload, hk, dataRS232, wordsC, Code.size]
  have hty := unpackRS232_eq (withBase (Seg.fresh .rs232) g.timedelta g.errorcode g.flags (effPayload g))
    (g.block_status % 65536 / 8) g.sync_bytes g.data heff (by omega) h7 h8
  have hok : TypedOK .rs232 g := by
    simp only [TypedOK, typedUnpack]; rw [hty]
  have hd : decodedSeg .rs232 g = { withBase (Seg.fresh .rs232) g.timedelta g.errorcode g.flags (effPayload g) with
      block_status := g.block_status % 65536 / 8 * 8 + g.sync_bytes.length, sync_bytes := g.sync_bytes, data := g.data } := by
    simp only [decodedSeg, typedUnpack]
    show (Seg.unpackRS232 _).1 = _
    rw [hty]
  refine ⟨segBytes g, by rw [Seg_pack_eq g h], ?_⟩
  rw [Seg_unpack_eq .rs232 g rest h hok, hd]
  refine ⟨rfl, rfl, rfl, rfl, ?_⟩
  intro h1 h2
  show g.block_status % 65536 / 8 * 8 + g.sync_bytes.length = g.block_status
  omega
/-- joint witness: an RS-232 object whose status word has all upper bits set and whose low three bits (7) are NOT
    the sync count (2) — well-formed; its status word comes back as 0xFFFA -/
example : Seg_WF { Seg.fresh .rs232 with block_status := 0xFFFF, sync_bytes := [1, 2], data := [9] } ∧
    ({ Seg.fresh .rs232 with block_status := 0xFFFF, sync_bytes := [1, 2], data := [9] } : Seg).kind = .rs232 ∧
    0xFFFF % 65536 / 8 * 8 + ([1, 2] : List Nat).length = 0xFFFA :=
  ⟨by simp [Seg_WF, Seg.fresh, effPayload], rfl, by decide⟩

/-! ### NPD packets -/

/-- `NPD.unpack` builds the segment class `NPD_DT` gives for the data type, and `NPDSegment` for any other -/
theorem NPD_segment_class :
    kindOf 0x50 = .rs232 ∧ kindOf 0x38 = .a429 ∧ kindOf 0xA1 = .acq ∧ kindOf 0xD0 = .mil1553 ∧ kindOf 0x60 = .pcmpkt ∧
    ∀ dt, dt ∉ [0x50, 0x38, 0xA1, 0xD0, 0x60] → kindOf dt = .base := by
  refine ⟨rfl, rfl, rfl, rfl, rfl, ?_⟩
  intro dt h
  simp only [List.mem_cons, List.not_mem_nil, or_false, not_or] at h
  obtain ⟨a, b, c, d, e⟩ := h
  simp [kindOf, NPD_DT_RS232, NPD_DT_A429, NPD_DT_ACQ, NPD_DT_MIL1553, NPD_DT_PCMPKT, a, b, c, d, e]

/-- `NPD.pack` emits the NPD layout around the concatenated segment encodings -/
theorem NPD_pack_layout (s : State) (dt mc ts : Nat) (h : NPD_WF s dt mc ts) :
    (pack s).2 = .ok (Spec.NPD.encode s.version dt s.cfgcnt s.flags s.sequence s.datasrcid mc ts
      (s.segments.flatMap fun g => Spec.NPDSegment.encode g.timedelta g.errorcode g.flags (effPayload g))) := by
  rw [NPD_pack_eq s dt mc ts h]
  have hf : (s.segments.flatMap fun g => Spec.NPDSegment.encode g.timedelta g.errorcode g.flags (effPayload g)) =
      s.segments.flatMap segBytes := by
    apply Lemmas.flatMap_congr'
    intro g _
    simp only [segBytes, segBytesL_eq_spec]
  rw [hf]
  have h2 := h.2.1
  simp [npdBytes, npdHdr, Spec.NPD.encode, encInt, h2]

/-- computed field: `packetlen · 4` is the number of bytes emitted -/
theorem NPD_packetlen_law (s : State) (dt mc ts : Nat) (h : NPD_WF s dt mc ts) :
    ∃ b, (pack s).2 = .ok b ∧ (pack s).1.packetlen * 4 = b.length := by
  refine ⟨npdBytes s dt mc ts, by rw [NPD_pack_eq s dt mc ts h], ?_⟩
  rw [NPD_pack_eq s dt mc ts h, npdBytes_length]
  have := flatMap_segBytes_mod4 s.segments
  simp only [packedNPD]
  omega

/-- re-encoding a decoded segment gives the same bytes (for an RS-232 data type: when the segment that
    was packed was itself an RS-232 segment) -/
theorem decodedSeg_bytes (k : Kind) (g : Seg) (h : Seg_WF g) (hok : TypedOK k g)
    (hk : k ≠ .rs232 ∨ g.kind = .rs232) : Seg_WF (decodedSeg k g) ∧ segBytes (decodedSeg k g) = segBytes g := by
  have hb := typedUnpack_base k (withBase (Seg.fresh k) g.timedelta g.errorcode g.flags (effPayload g))
  obtain ⟨hb1, hb2, hb3, hb4, hb5, hb6⟩ := hb
  obtain ⟨h1, h2, h3, h4, h5, h6⟩ := h
  by_cases hkr : k = .rs232
  · subst hkr
    have hgk : g.kind = .rs232 := by rcases hk with hk | hk; exact absurd rfl hk; exact hk
    obtain ⟨h7, h8⟩ := h5 hgk
    have heff : effPayload g = dataRS232 (g.block_status % 65536 / 8) g.sync_bytes g.data := by
      simp [effPayload, hgk, dataRS232, wordsC, Code.size]
    have hty := unpackRS232_eq (withBase (Seg.fresh .rs232) g.timedelta g.errorcode g.flags (effPayload g))
      (g.block_status % 65536 / 8) g.sync_bytes g.data heff (by omega) h7 h8
    have hd : decodedSeg .rs232 g = { withBase (Seg.fresh .rs232) g.timedelta g.errorcode g.flags (effPayload g) with
        block_status := g.block_status % 65536 / 8 * 8 + g.sync_bytes.length, sync_bytes := g.sync_bytes, data := g.data } := by
      simp only [decodedSeg, typedUnpack]
      show (Seg.unpackRS232 _).1 = _
      rw [hty]
    have he : effPayload (decodedSeg .rs232 g) = effPayload g := by
      rw [hd]
      have : (g.block_status % 65536 / 8 * 8 + g.sync_bytes.length) % 65536 / 8 * 8 = g.block_status % 65536 / 8 * 8 := by omega
      simp [effPayload, withBase, Seg.fresh, this, hgk]
    refine ⟨?_, ?_⟩
    · rw [hd] at he ⊢
      refine ⟨h1, h2, h3, by rw [he]; exact h4, fun _ => ⟨h7, h8⟩, fun hne => absurd rfl hne⟩
    · simp only [segBytes, he]
      rw [hd]
      rfl
  · have hkd : (decodedSeg k g).kind = k := by simp only [decodedSeg]; rw [hb6]; rfl
    have he : effPayload (decodedSeg k g) = effPayload g := by
      have : effPayload (decodedSeg k g) = (decodedSeg k g).payload := by
        cases hkk : (decodedSeg k g).kind <;> simp_all [effPayload]
      rw [this]; simp only [decodedSeg]; rw [hb2]; rfl
    have htd : (decodedSeg k g).timedelta = g.timedelta := by simp only [decodedSeg]; rw [hb3]; rfl
    have hec : (decodedSeg k g).errorcode = g.errorcode := by simp only [decodedSeg]; rw [hb4]; rfl
    have hfl : (decodedSeg k g).flags = g.flags := by simp only [decodedSeg]; rw [hb5]; rfl
    have hsl : (decodedSeg k g).segmentlen = (effPayload g).length + 8 := by simp only [decodedSeg]; rw [hb1]; rfl
    have hpl : (decodedSeg k g).payload = effPayload g := by simp only [decodedSeg]; rw [hb2]; rfl
    refine ⟨⟨by rw [htd]; exact h1, by rw [hec]; exact h2, by rw [hfl]; exact h3, by rw [he]; exact h4,
      fun hr => absurd (hkd ▸ hr) hkr, fun _ => by rw [hsl, hpl]; omega⟩, ?_⟩
    simp only [segBytes, he, htd, hec, hfl]

/-- NPD round trip: whatever the decoding object held, it ends up with the same header fields and, for
    every segment, the typed view the data type's segment class gives of it; re-encoding the decoded packet
    reproduces the bytes -/
theorem NPD_roundtrip (s t : State) (dt mc ts : Nat) (h : NPD_WF s dt mc ts)
    (hok : ∀ g ∈ s.segments, TypedOK (kindOf dt) g)
    (hk : kindOf dt ≠ .rs232 ∨ ∀ g ∈ s.segments, g.kind = .rs232) :
    ∃ b, (pack s).2 = .ok b ∧ unpack t b = (decodedNPD s dt, .ok ()) ∧ (pack (unpack t b).1).2 = .ok b := by
  refine ⟨npdBytes s dt mc ts, by rw [NPD_pack_eq s dt mc ts h], NPD_unpack_eq s t dt mc ts h hok, ?_⟩
  rw [NPD_unpack_eq s t dt mc ts h hok]
  have hsegs : ∀ g ∈ s.segments, Seg_WF (decodedSeg (kindOf dt) g) ∧ segBytes (decodedSeg (kindOf dt) g) = segBytes g := by
    intro g hg
    obtain ⟨_, _, _, _, _, _, _, _, _, _, _, _, h13, _⟩ := h
    exact decodedSeg_bytes (kindOf dt) g (h13 g hg) (hok g hg) (by
      rcases hk with hk | hk
      · exact Or.inl hk
      · exact Or.inr (hk g hg))
  have hfm : (s.segments.map (decodedSeg (kindOf dt))).flatMap segBytes = s.segments.flatMap segBytes := by
    rw [List.flatMap_map]
    exact Lemmas.flatMap_congr' _ _ _ (fun g hg => (hsegs g hg).2)
  have hwf : NPD_WF (decodedNPD s dt) dt mc ts := by
    obtain ⟨h1, h2, h3, h4, h5, h6, h7, h8, h9, h10, h11, h12, h13, h14⟩ := h
    refine ⟨h1, h2, h3, h4, h5, h6, h7, h8, h9, h10, h11, h12, ?_, ?_⟩
    · intro g hg
      simp only [decodedNPD, List.mem_map] at hg
      obtain ⟨y, hy, rfl⟩ := hg
      exact (hsegs y hy).1
    · simp only [decodedNPD, hfm]; exact h14
  rw [NPD_pack_eq _ dt mc ts hwf]
  simp only [npdBytes, npdHdr, decodedNPD, hfm]

example : NPD_WF { fresh with datatype := some 0xD0, mcastaddr := some 0xEB000001, timestamp := some 7, segments := [rawSeg 1 2 3 [0, 5, 1, 2, 9, 9]] } 0xD0 0xEB000001 7 := by
  refine ⟨by simp [fresh, NPD_VERSION], rfl, rfl, by omega, by simp [fresh], by simp [fresh], by simp [fresh],
    by simp [fresh], rfl, by omega, rfl, by omega, ?_, ?_⟩
  · intro g hg; simp at hg; subst hg; exact rawSeg_WF 1 2 3 _ (by omega) (by omega) (by omega) (by simp)
  · simp [segBytes_length, effPayload, rawSeg, Seg.fresh]
/-- … and the two further hypotheses of `NPD_roundtrip` hold of the same packet (data type 0xD0 → 1553 class,
    the segment's data holds a complete 1553 header) -/
example : (∀ g ∈ [rawSeg 1 2 3 [0, 5, 1, 2, 9, 9]], TypedOK (kindOf 0xD0) g) ∧
    (kindOf 0xD0 ≠ .rs232 ∨ ∀ g ∈ [rawSeg 1 2 3 [0, 5, 1, 2, 9, 9]], g.kind = .rs232) := by
  refine ⟨?_, Or.inl (by decide)⟩
  intro g hg; simp at hg; subst hg; rfl

/-- `NPD_WF` fixes `hdrlen = 5` (the 20-byte header `pack` always emits, in 32-bit words): any other value
    is written into the low nibble of byte 0 and makes the code's own decoder slice the segments at the
    wrong offset — what `pack` emits is then rejected -/
example : (unpack fresh (match (pack { fresh with datatype := some 0x10, mcastaddr := some 0xEB000001, timestamp := some 7, hdrlen := 6, segments := [rawSeg 1 2 3 [0, 5, 1, 2, 9, 9]] }).2 with
    | .ok b => b | .error _ => [])).2.isOk = false := by decide

end Acra.Props.C01
