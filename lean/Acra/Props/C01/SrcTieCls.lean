import Acra.Gen.Src.Cls.iNetX
import Acra.Gen.Src.Cls.IENA
import Acra.Model.iNetX
import Acra.Model.IENA
import Acra.Lemmas.SrcTieCls
namespace Acra.Props.C01
open Acra Acra.Py Acra.Lemmas.SrcTieCls

/-! Method source ties (C01): `iNetX.pack` and `iNetX.unpack` as they are written TODAY — regenerated from the current
    Python source by `harness/translate_methods.py` on every run, in state-passing style over the object structure
    generated from `__init__` (`Acra.Gen.Src.Cls.iNetX`) — equal the hand-written model `Acra.Model.iNetX` for every
    object / buffer.  `toModel` / `ofModel` / `Dom`: `Acra/Lemmas/SrcTieCls.lean`. -/

/-- `iNetX.pack` on the image of a model state: the object it leaves and the result (bytes or the error, with the
    object as it is at the raise) are the model's. -/
theorem src_iNetX_pack_of (s : Model.iNetX.State) :
    Gen.Src.Cls.iNetX.pack (iNetX.ofModel s)
      = (iNetX.ofModel (Model.iNetX.pack s).1, (Model.iNetX.pack s).2) := by
  unfold Gen.Src.Cls.iNetX.pack Model.iNetX.pack
  simp only [iNetX.ofModel, Gen.Src.Cls.iNetX.INETX_HEADER_LENGTH, Gen.iNetX.iNetX_INETX_HEADER_LENGTH,
    Gen.iNetX.iNetX_INETX_HEADER_FORMAT, Py.len]
  rw [structPackI_cast _ [s.inetxcontrol, s.streamid, s.sequence, s.payload.length + 28, s.ptptimeseconds,
      s.ptptimenanoseconds, s.pif] _ (by simp)]
  cases structPack ⟨true, [.u32, .u32, .u32, .u32, .u32, .u32, .u32]⟩ [s.inetxcontrol, s.streamid, s.sequence,
      s.payload.length + 28, s.ptptimeseconds, s.ptptimenanoseconds, s.pif] <;> simp

/-- `iNetX.pack`, for every object in the model's domain (int attributes `≥ 0`) -/
theorem src_iNetX_pack (o : Gen.Src.Cls.iNetX.Obj) (h : iNetX.Dom o) :
    (iNetX.toModel (Gen.Src.Cls.iNetX.pack o).1, (Gen.Src.Cls.iNetX.pack o).2)
      = Model.iNetX.pack (iNetX.toModel o) := by
  have := src_iNetX_pack_of (iNetX.toModel o)
  rw [iNetX.ofModel_toModel o h] at this
  rw [this]; simp

example : iNetX.Dom
    { inetxcontrol := 0x11000000, streamid := 0xdc, sequence := 1, packetlen := 0,
      ptptimeseconds := 1, ptptimenanoseconds := 1, pif := 0, payload := [5, 0] } := by decide

/-- `iNetX.unpack` on the image of a model state, for every buffer: same object afterwards (also on the rejecting
    paths: untouched when too short, header fields stored when the length field disagrees), same error; the result of
    an accepted buffer is `True`. -/
theorem src_iNetX_unpack_of (s : Model.iNetX.State) (buf : Bytes) :
    Gen.Src.Cls.iNetX.unpack (iNetX.ofModel s) buf
      = (iNetX.ofModel (Model.iNetX.unpack s buf).1, (Model.iNetX.unpack s buf).2.map (fun _ => true)) := by
  unfold Gen.Src.Cls.iNetX.unpack Model.iNetX.unpack
  simp only [Gen.Src.Cls.iNetX.INETX_HEADER_LENGTH, Gen.iNetX.iNetX_INETX_HEADER_LENGTH,
    Gen.iNetX.iNetX_INETX_HEADER_FORMAT, Py.len, structUnpackFromI_eq, toNat_lit]
  by_cases hlen : buf.length < 28
  · have : ((buf.length : Nat) : Int) < 28 := by omega
    simp [hlen, this, Except.map]
  · have : ¬ ((buf.length : Nat) : Int) < 28 := by omega
    simp only [hlen, this, if_false]
    cases hs : structUnpackFrom ⟨true, [.u32, .u32, .u32, .u32, .u32, .u32, .u32]⟩ buf 0 with
    | error e => simp [Except.map]
    | ok vs =>
      have hl := structUnpackFrom_vals_length _ _ _ _ hs
      match vs, hl with
      | [a, b, c, d, e, f, g], _ =>
        have h28 := sliceI_from buf 28
        simp only [Py.len] at h28
        by_cases hd : d = buf.length
        · have : ((d : Nat) : Int) = (buf.length : Int) := by omega
          simp [Py.intAt, hd, iNetX.ofModel, Except.map]
          exact h28
        · have : ¬ ((d : Nat) : Int) = (buf.length : Int) := by omega
          simp [Py.intAt, hd, this, iNetX.ofModel, Except.map]

/-- `iNetX.unpack`, for every prior object in the model's domain and every buffer -/
theorem src_iNetX_unpack (o : Gen.Src.Cls.iNetX.Obj) (h : iNetX.Dom o) (buf : Bytes) :
    (iNetX.toModel (Gen.Src.Cls.iNetX.unpack o buf).1, (Gen.Src.Cls.iNetX.unpack o buf).2)
      = ((Model.iNetX.unpack (iNetX.toModel o) buf).1,
         (Model.iNetX.unpack (iNetX.toModel o) buf).2.map (fun _ => true)) := by
  have := src_iNetX_unpack_of (iNetX.toModel o) buf
  rw [iNetX.ofModel_toModel o h] at this
  rw [this]; simp

/-- outside the model's domain (Python ints may be negative, the model's `Nat` fields cannot): a negative value in
    any of the six packed attributes makes `struct.pack` refuse (`struct.error`), after `packetlen` has been stored -/
theorem src_iNetX_pack_negative (o : Gen.Src.Cls.iNetX.Obj)
    (h : o.inetxcontrol < 0 ∨ o.streamid < 0 ∨ o.sequence < 0 ∨ o.ptptimeseconds < 0 ∨ o.ptptimenanoseconds < 0 ∨
      o.pif < 0) :
    Gen.Src.Cls.iNetX.pack o
      = ({ o with packetlen := (o.payload.length : Int) + 28 }, .error .struct) := by
  unfold Gen.Src.Cls.iNetX.pack
  simp only [Gen.Src.Cls.iNetX.INETX_HEADER_LENGTH, Py.len]
  have : ∃ v, v ∈ [o.inetxcontrol, o.streamid, o.sequence, (o.payload.length : Int) + 28, o.ptptimeseconds,
      o.ptptimenanoseconds, o.pif] ∧ v < 0 := by
    rcases h with h | h | h | h | h | h <;> exact ⟨_, by simp, h⟩
  obtain ⟨v, hv, hneg⟩ := this
  rw [structPackI_neg _ _ v hv hneg]

example : Gen.Src.Cls.iNetX.pack { inetxcontrol := 0, streamid := -1, sequence := 0, packetlen := 0,
                                   ptptimeseconds := 0, ptptimenanoseconds := 0, pif := 0, payload := [1] }
    = ({ inetxcontrol := 0, streamid := -1, sequence := 0, packetlen := 29,
         ptptimeseconds := 0, ptptimenanoseconds := 0, pif := 0, payload := [1] }, .error .struct) := by rfl

/-! `IENA.pack` / `IENA.unpack` (the base class; `self.key` resolved through its property to `self._key`, the loop over
    `self._req_attr` unrolled from `IENA.REQ_ATTR`, `buf[14:-2]` and `unpack_from(">H", buf, -2)` counted from the end) -/

theorem src_IENA_pack_of (s : Model.IENA.Base) :
    Gen.Src.Cls.IENA.pack (IENA.ofModel s) = (IENA.ofModel s.pack.1, s.pack.2) := by
  unfold Gen.Src.Cls.IENA.pack Model.IENA.Base.pack
  simp only [IENA.ofModel, Gen.Src.Cls.IENA.IENA_HEADER_LENGTH, Gen.Src.Cls.IENA.TRAILER_LENGTH,
    Gen.IENA.IENA_HEADER_LENGTH, Gen.IENA.IENA_TRAILER_LENGTH, Gen.IENA.IENA_HEADER_FORMAT, Gen.IENA.IENA_pack_fmt0,
    Py.len]
  have e1 : Py.floordiv ((s.payload.length : Int) + 14 + 2) 2 = (((s.payload.length + 14 + 2) / 2 : Nat) : Int) := by
    rw [floordiv_of_pos _ _ (by omega)]; omega
  have e2 : Py.shr (s.timeusec : Int) 32 = ((s.timeusec / 4294967296 : Nat) : Int) := by
    rw [shr_eq_div]; simp only [toNat_lit, Nat.reducePow]; omega
  have e3 : Py.pymod (s.timeusec : Int) 4294967296 = ((s.timeusec % 4294967296 : Nat) : Int) := by
    rw [pymod_of_pos _ _ (by omega)]; omega
  rw [e1, e2, e3]
  rw [structPackI_cast _ [s.key, (s.payload.length + 14 + 2) / 2, s.timeusec / 4294967296, s.timeusec % 4294967296,
      s.keystatus, s.status, s.sequence] _ (by simp)]
  rw [structPackI_cast _ [s.endfield] _ (by simp)]
  cases structPack ⟨true, [.u16, .u16, .u16, .u32, .u8, .u8, .u16]⟩ [s.key, (s.payload.length + 14 + 2) / 2,
      s.timeusec / 4294967296, s.timeusec % 4294967296, s.keystatus, s.status, s.sequence] with
  | error e => simp
  | ok h =>
    dsimp only
    cases structPack ⟨true, [.u16]⟩ [s.endfield] <;> simp

/-- `IENA.pack`, for every object in the model's domain (int attributes `≥ 0`) -/
theorem src_IENA_pack (o : Gen.Src.Cls.IENA.Obj) (h : IENA.Dom o) :
    (IENA.toModel (Gen.Src.Cls.IENA.pack o).1, (Gen.Src.Cls.IENA.pack o).2) = (IENA.toModel o).pack := by
  have := src_IENA_pack_of (IENA.toModel o)
  rw [IENA.ofModel_toModel o h] at this
  rw [this]; simp

example : IENA.Dom { _key := 0xDC, size := 0, timeusec := 10000000, keystatus := 0, status := 0, sequence := 1,
                     endfield := 0xDEAD, payload := [5, 0], lengthError := true } := by decide

theorem src_IENA_unpack_of (s : Model.IENA.Base) (buf : Bytes) :
    Gen.Src.Cls.IENA.unpack (IENA.ofModel s) buf
      = (IENA.ofModel (s.unpack buf).1, (s.unpack buf).2.map (fun _ => true)) := by
  unfold Gen.Src.Cls.IENA.unpack Model.IENA.Base.unpack
  simp only [Gen.Src.Cls.IENA.IENA_HEADER_LENGTH, Gen.IENA.IENA_HEADER_LENGTH, Gen.IENA.IENA_HEADER_FORMAT,
    Gen.IENA.IENA_unpack_fmt0, Py.len, structUnpackFromI_eq, toNat_lit, Py.structUnpackFromEndI, Py.sliceEndI]
  by_cases hlen : buf.length < 14
  · have : ((buf.length : Nat) : Int) < 14 := by omega
    simp [hlen, this, Except.map]
  · have : ¬ ((buf.length : Nat) : Int) < 14 := by omega
    have h2 : 2 ≤ buf.length := by omega
    simp only [hlen, this, if_false, h2, if_true]
    cases hs : structUnpackFrom ⟨true, [.u16, .u16, .u16, .u32, .u8, .u8, .u16]⟩ buf 0 with
    | error e => simp [Except.map]
    | ok vs =>
      have hl := structUnpackFrom_vals_length _ _ _ _ hs
      match vs, hl with
      | [k, sz, thi, tlo, ks, st, sq], _ =>
        have hp : Py.pow 2 32 = 4294967296 := by decide
        simp only [Except.map, Py.intAt, List.map, hp, IENA.ofModel, Int.ofNat_eq_natCast]
        have hiff : ((sz : Int) * 2 = (buf.length : Int)) ↔ (sz * 2 = buf.length) := by omega

        cases he : structUnpackFrom ⟨true, [.u16]⟩ buf (buf.length - 2) with
        | error e => by_cases hsz : sz * 2 = buf.length <;> cases hle : s.lengthError <;> simp [hsz, hle, hiff]
        | ok ws =>
          have hl2 := structUnpackFrom_vals_length _ _ _ _ he
          match ws, hl2 with
          | [e], _ => by_cases hsz : sz * 2 = buf.length <;> cases hle : s.lengthError <;> simp [hsz, hle, hiff]

/-- `IENA.unpack`, for every prior object in the model's domain and every buffer: same object afterwards (on every
    rejecting path too), same exception; an accepted buffer returns `True` -/
theorem src_IENA_unpack (o : Gen.Src.Cls.IENA.Obj) (h : IENA.Dom o) (buf : Bytes) :
    (IENA.toModel (Gen.Src.Cls.IENA.unpack o buf).1, (Gen.Src.Cls.IENA.unpack o buf).2)
      = (((IENA.toModel o).unpack buf).1, ((IENA.toModel o).unpack buf).2.map (fun _ => true)) := by
  have := src_IENA_unpack_of (IENA.toModel o) buf
  rw [IENA.ofModel_toModel o h] at this
  rw [this]; simp

end Acra.Props.C01
