import Acra.Lemmas.PTPToRtc
import Acra.Lemmas.ExtraTime
namespace Acra.Props.C15
open Acra.Py Acra.Model.PTPToRtc Acra.Model.Ch11Pay.TimeFmt Acra.Lemmas.Float Acra.Lemmas.PTPToRtc
open Acra.Lemmas.Ch11Calendar

/-! `PTPTime.to_rtc` — the conversion to a 10 MHz count relative to the START OF THE YEAR, in binary64 arithmetic
    (C15's sentence on the PTP-to-RTC conversion describes `to_pinksheet_rtc`, which is `pinksheet_eq`; this is the
    other conversion).  What holds, for every rounding function with the two binary64 facts:

    * the calendar part is exact on 1970…2099: the seconds since the start of the year are `seconds − yearStart`;
    * the result is exactly `S·10^7 + ⌊ns/100⌋` while that value is below 4.5·10^13 — the first 52 days of a year
      (`S ≤ 4 499 999` for `ns < 10^9`) — for every such rounding function; and for the executable model (CPython's
      binary64) while it is below 2^47 (until 11/12 June), which is sharp;
    * beyond, it is NOT exact: the sum `S·10^7 + ns/100` is rounded to the spacing of binary64 at that magnitude
      (1/32 from 2^47, 1/16 from 2^48), so a fraction .99 (from 2^47 ≈ day 163) and .97–.99 (from 2^48 ≈ day 326) is
      rounded UP to the next integer before `int()` truncates: the result is one tick too large (witnesses below,
      evaluated on the executable model, which the correspondence compares with CPython bit for bit);
    * no reduction modulo 2^48: from second 28 147 498 of the year (22 November) the value does not fit the 48-bit
      relative time counter. -/

/-- `int(timedelta.total_seconds())` is the whole number of seconds -/
theorem to_rtc_total_seconds_exact (fl : ℚ → ℚ) (F : FloatSem fl) (S : ℕ) (h : S < 2 ^ 53) :
    totalSecondsInt fl (S * 1000000) = S := totalSecondsInt_exact fl F S h

example : (31622399 : ℕ) < 2 ^ 53 := by norm_num

/-- exactness domain of the float part -/
theorem to_rtc_ticks_exact (fl : ℚ → ℚ) (F : FloatSem fl) (S ns : ℕ)
    (h : S * 10000000 + ns / 100 < 45000000000000) : ticks fl S ns = S * 10000000 + ns / 100 :=
  ticks_exact fl F S ns h

/-- 21 February 23:59:59.999999999 of a year is inside the domain, and so is every nanosecond count a 32-bit field
    can hold up to second 4 499 995 -/
example : (4499999 : ℕ) * 10000000 + 999999999 / 100 < 45000000000000 ∧
    (4499995 : ℕ) * 10000000 + 4294967295 / 100 < 45000000000000 := by decide

/-- `PTPTime(seconds, ns).to_rtc()` for a time stamp of 1970…2099 in the first 52 days of its year: exactly the
    seconds since the start of the year in 100 ns units plus the nanoseconds in 100 ns units, rounded down -/
theorem to_rtc_exact (fl : ℚ → ℚ) (F : FloatSem fl) (seconds ns : ℕ) (h : seconds < 86400 * DAYS)
    (hdom : (seconds - yearStart seconds) * 10000000 + ns / 100 < 45000000000000) :
    toRtcWith fl seconds ns = .ok (ideal (seconds - yearStart seconds) ns) := by
  have hy := yearStart_le seconds h
  have hs := since_start_of_year seconds h
  have hts := Acra.Lemmas.Ch11TimeFmt.fromTimestamp_eq seconds h
  simp only at hs hts
  have h53 : seconds - yearStart seconds < 2 ^ 53 := by
    have h2 : (366 * 86400 : ℕ) < 2 ^ 53 := by norm_num
    exact Nat.lt_trans hy.2 h2
  generalize civilFromDays (seconds / 86400 + EPOCH) = c at hs hts
  rw [toRtcWith_of_fromTimestamp fl _ _ _ _ _ _ _ _ hts, hs, totalSecondsInt_exact fl F _ h53, ticks_exact fl F _ _ hdom]

/-- the same for the executable model -/
theorem to_rtc_exact_exec (seconds ns : ℕ) (h : seconds < 86400 * DAYS)
    (hdom : (seconds - yearStart seconds) * 10000000 + ns / 100 < 45000000000000) :
    toRtc seconds ns = .ok (ideal (seconds - yearStart seconds) ns) :=
  to_rtc_exact Float.rne rne_floatSem seconds ns h hdom

/-- SHARP for the executable model (CPython's binary64, compared bit for bit by the correspondence): exact while the
    tick count stays below 2^47 — below 2^47 the spacing of binary64 is at most 1/64, so a fraction of at most .99
    (+ the 2^-27 the division may add) is never rounded up to the next integer.  `ns` is any value a 32-bit
    nanosecond field can hold.  The first wrong result is just beyond: `to_rtc_off_by_one_witness`. -/
theorem to_rtc_ticks_exact_exec (S ns : ℕ) (hns : ns < 2 ^ 32)
    (h : S * 10000000 + ns / 100 + 1 ≤ 2 ^ 47) : ticks Float.rne S ns = S * 10000000 + ns / 100 :=
  ticks_exact_exec S ns hns (by norm_num at h ⊢; exact h)

/-- second 14 073 748 of a year (11/12 June) with up to 83 552 000 ns is still inside; so is the whole domain of
    `to_rtc_ticks_exact` -/
example : (999999999 : ℕ) < 2 ^ 32 ∧ (14073748 : ℕ) * 10000000 + 835532700 / 100 + 1 ≤ 2 ^ 47 ∧
    (45000000000000 : ℕ) ≤ 2 ^ 47 := by norm_num

theorem to_rtc_exact_exec_sharp (seconds ns : ℕ) (h : seconds < 86400 * DAYS) (hns : ns < 2 ^ 32)
    (hdom : (seconds - yearStart seconds) * 10000000 + ns / 100 + 1 ≤ 2 ^ 47) :
    toRtc seconds ns = .ok (ideal (seconds - yearStart seconds) ns) := by
  have hy := yearStart_le seconds h
  have hs := since_start_of_year seconds h
  have hts := Acra.Lemmas.Ch11TimeFmt.fromTimestamp_eq seconds h
  simp only at hs hts
  have h53 : seconds - yearStart seconds < 2 ^ 53 := by
    have h2 : (366 * 86400 : ℕ) < 2 ^ 53 := by norm_num
    exact Nat.lt_trans hy.2 h2
  generalize civilFromDays (seconds / 86400 + EPOCH) = c at hs hts
  unfold toRtc
  rw [toRtcWith_of_fromTimestamp Float.rne _ _ _ _ _ _ _ _ hts, hs, totalSecondsInt_exact Float.rne rne_floatSem _ h53,
    ticks_exact_exec _ _ hns (by norm_num at hdom ⊢; exact hdom)]

/-- non-vacuity: 2024-06-11 21:22:28 UTC (second 14 073 748 of 2024), 835 532 700 ns -/
example : (1718140948 : ℕ) < 86400 * DAYS ∧ (835532700 : ℕ) < 2 ^ 32 ∧
    (1718140948 - yearStart 1718140948) * 10000000 + 835532700 / 100 + 1 ≤ 2 ^ 47 := by decide +kernel

/-- the start of the year is where the Gregorian calendar puts it, not after the time stamp and less than 366 days
    before it -/
theorem to_rtc_year_start (seconds : ℕ) (h : seconds < 86400 * DAYS) :
    yearStart seconds ≤ seconds ∧ seconds - yearStart seconds < 366 * 86400 := yearStart_le seconds h

/-- non-vacuity: 2024-02-21 23:59:59 UTC (second 4 492 799 of the leap year 2024), 999 999 999 ns -/
example : (1708559999 : ℕ) < 86400 * DAYS ∧ yearStart 1708559999 = 1704067200 ∧
    (1708559999 - yearStart 1708559999) * 10000000 + 999999999 / 100 < 45000000000000 := by decide +kernel

/-- `to_rtc` raises nothing but the ValueError of `datetime.fromtimestamp` (year above 9999) -/
theorem to_rtc_total (fl : ℚ → ℚ) (seconds ns : ℕ) :
    (∃ v, toRtcWith fl seconds ns = .ok v) ∨ toRtcWith fl seconds ns = .error .value := by
  unfold toRtcWith
  cases hts : fromTimestamp (seconds : Int) with
  | ok date => left; exact ⟨_, rfl⟩
  | error e => right; rw [fromTimestamp_error _ _ hts]; rfl

/-- 1 January 10000 is the first second the conversion refuses -/
example : toRtc 253402300800 5 = .error .value ∧ toRtc 253402300799 999999999 = .ok 315360000000000 :=
  ⟨(Acra.Lemmas.ExtraTime.errIs_iff _ _).mp (by decide +kernel), (Acra.Lemmas.ExtraTime.okIs_iff _ _).mp (by decide +kernel)⟩

/-! ### Outside the domain (executable model = CPython's binary64, compared bit for bit by the correspondence) -/

/-- FULL STATEMENT one would like (FALSE of the code): `toRtc seconds ns = .ok (ideal (seconds − yearStart seconds) ns)` for
    every time stamp.  Witnesses: 2024-06-12 (second 14 073 749 of the year, past 2^47 ticks) with 99 ns gives one tick
    more; the last representable instant of 1970 comes out as the first tick of a 366th day. -/
theorem to_rtc_off_by_one_witness :
    toRtc 1718140949 99 = .ok 140737490000001 ∧ ideal (1718140949 - yearStart 1718140949) 99 = 140737490000000 ∧
    toRtc 31535999 999999999 = .ok 315360000000000 ∧ ideal 31535999 999999999 = 315359999999999 :=
  ⟨(Acra.Lemmas.ExtraTime.okIs_iff _ _).mp (by decide +kernel), by decide +kernel,
   (Acra.Lemmas.ExtraTime.okIs_iff _ _).mp (by decide +kernel), by decide +kernel⟩

/-- the result is not reduced modulo 2^48: on 22 November and later it exceeds the 48-bit counter -/
theorem to_rtc_exceeds_48_bits_witness :
    toRtc 1732214698 0 = .ok 281474980000000 ∧ (2 : ℕ) ^ 48 ≤ 281474980000000 :=
  ⟨(Acra.Lemmas.ExtraTime.okIs_iff _ _).mp (by decide +kernel), by norm_num⟩

end Acra.Props.C15
