import Acra.Gen.Src.PES
import Acra.Gen.Src.Chapter11
import Acra.Model.Ch11
import Acra.Gen.Src.TimeDataFormat
import Acra.Model.Ch11TimeFmt
import Acra.Gen.Src.Ptptime
import Acra.Lemmas.SrcTieTime
import Acra.Model.PES
import Acra.Lemmas.SrcTie
import Acra.Lemmas.SrcTieNorm
set_option linter.unusedSimpArgs false
namespace Acra.Props.C15
open Acra Acra.Py Acra.Lemmas.SrcTieNorm Acra.Lemmas.SrcTie

/-! Source ties (C15): integer parts of the time conversions, regenerated from the current Python source by
    `harness/translate.py` on every run (see `Props/C07/SrcTie.lean`). -/

/-- `pts_to_ts`: the integer `pts` that the function divides by `90e3` is the model's `ptsOfField v`, for every
    non-negative field value `v` (the translation covers every statement of the function before
    `return pts / 90e3`; the float division is `Model.PES.pts_to_ts`'s `fl (fl pts / 90000)`) -/
theorem src_pts_to_ts_int (v : Nat) :
    Gen.Src.PES.pts_to_ts_pts v = (Model.PES.ptsOfField v : Int) := by
  unfold Gen.Src.PES.pts_to_ts_pts Model.PES.ptsOfField
  simp only [shr_natCast, shl_lit, band_natCast, bor_lit_natCast, bor_natCast, toNat_lit]
  congr 1
  rw [Nat.zero_or,
    and_field (v >>> 3) 7 3 30 (7 <<< 30) (by decide) (by decide),
    and_field (v >>> 2) 32767 15 15 (32767 <<< 15) (by decide) (by decide),
    and_field (v >>> 1) 32767 15 0 (32767 <<< 0) (by decide) (by decide)]
  simp only [Nat.shiftRight_eq_div_pow]
  rw [or_field _ _ 15 15 (by omega) (Nat.mod_lt _ (by decide)),
    or_field _ _ 0 15 (by omega) (Nat.mod_lt _ (by decide))]
  omega

/-- `ts_to_pts`: every statement after `pts = int(round(ts * 90e3))`, as a function of the non-negative tick count
    `pts`, is the model's `fieldOfPts` (`Model.PES.ts_to_pts fl ts = fieldOfPts (roundNat (fl (ts * 90000)))`) -/
theorem src_ts_to_pts_int (pts : Nat) :
    Gen.Src.PES.ts_to_pts_v pts = (Model.PES.fieldOfPts pts : Int) := by
  unfold Gen.Src.PES.ts_to_pts_v Model.PES.fieldOfPts
  simp only [shr_natCast, shl_natCast, shl_lit, band_natCast, band_natCast_lit, bor_lit_natCast, bor_natCast, toNat_lit]
  congr 1
  -- a field selected in place (`(pts & (m << k)) << s`) is the field extracted and placed (`((pts >> k) & m) << (k + s)`)
  try simp only [field_in_place_15, field_in_place_3, Nat.shiftRight_zero, Nat.reduceAdd]
  rw [and_low pts 32767 15 (by decide), and_low (pts >>> 15) 32767 15 (by decide),
    and_low (pts >>> 30) 7 3 (by decide)]
  simp only [Nat.shiftRight_eq_div_pow, Nat.shiftLeft_eq]
  rw [or_field _ _ 1 15 (by decide) (Nat.mod_lt _ (by decide)),
    or_field _ _ 17 15 (by omega) (Nat.mod_lt _ (by decide)),
    or_field _ _ 33 3 (by omega) (Nat.mod_lt _ (by decide))]

/-! `PTPTime` operators: `self` and the operand are `PTPTime` objects (the `isinstance` tests are true), their
    attributes arbitrary Python ints; an object is the pair (seconds, nanoseconds). -/

/-- `PTPTime.__sub__` as written today = the model, for all integer attribute values -/
theorem src_PTPTime_sub (a b : Model.Ch11.IPTP) :
    Gen.Src.Chapter11.PTPTime.__sub__ a.1 a.2 b.1 b.2 = Model.Ch11.ptpSub a b := by
  unfold Gen.Src.Chapter11.PTPTime.__sub__ Model.Ch11.ptpSub
  split <;> rfl

/-- `PTPTime.__lt__` (Python tuple comparison) as written today = the model -/
theorem src_PTPTime_lt (a b : Model.Ch11.IPTP) :
    Gen.Src.Chapter11.PTPTime.__lt__ a.1 a.2 b.1 b.2 = Model.Ch11.ptpLt a b := by
  unfold Gen.Src.Chapter11.PTPTime.__lt__ Model.Ch11.ptpLt
  rw [Bool.eq_iff_iff]
  simp [tupleLt]

/-- `PTPTime.__le__` as written today = the model -/
theorem src_PTPTime_le (a b : Model.Ch11.IPTP) :
    Gen.Src.Chapter11.PTPTime.__le__ a.1 a.2 b.1 b.2 = Model.Ch11.ptpLe a b := by
  unfold Gen.Src.Chapter11.PTPTime.__le__ Model.Ch11.ptpLe
  rw [Bool.eq_iff_iff]
  simp [tupleLe]
  omega

/-- `PTPTime.__eq__` as written today = the model -/
theorem src_PTPTime_eq (a b : Model.Ch11.IPTP) :
    Gen.Src.Chapter11.PTPTime.__eq__ a.1 a.2 b.1 b.2 = Model.Ch11.ptpEq a b := by
  unfold Gen.Src.Chapter11.PTPTime.__eq__ Model.Ch11.ptpEq
  by_cases h1 : a.2 = b.2 <;> by_cases h2 : a.1 = b.1 <;> simp [h1, h2]

/-- `PTPTime.__add__` as written today = the model, for the attribute values of the wire format (32-bit seconds and
    nanoseconds of both operands).  `addns % 1e9` and `addns // 1e9` are binary64 operations; they are exact on that
    range (|addns| < 2^33; checked by the translator, which refuses the function otherwise); the ranges are
    hypotheses of the generated definition itself. -/
theorem src_PTPTime_add (a b : Model.Ch11.IPTP)
    (ha1 : 0 ≤ a.1 ∧ a.1 ≤ 4294967295) (ha2 : 0 ≤ a.2 ∧ a.2 ≤ 4294967295)
    (hb1 : 0 ≤ b.1 ∧ b.1 ≤ 4294967295) (hb2 : 0 ≤ b.2 ∧ b.2 ≤ 4294967295) :
    Gen.Src.Chapter11.PTPTime.__add__ a.1 a.2 b.1 b.2 ha1 ha2 hb1 hb2 = Model.Ch11.ptpAdd a b := by
  unfold Gen.Src.Chapter11.PTPTime.__add__ Model.Ch11.ptpAdd
  simp only [pymod_of_pos _ _ (by decide : (0 : Int) ≤ 1000000000),
    floordiv_of_pos _ _ (by decide : (0 : Int) ≤ 1000000000)]

example : Gen.Src.Chapter11.PTPTime.__add__ 5 999999999 7 2 (by decide) (by decide) (by decide) (by decide)
    = (13, 1) := by decide

/-- `PTPTime.to_pinksheet_rtc` as written today = the model, for the attribute values of the wire format
    (32-bit seconds and nanoseconds).  The `Decimal` operations are exact on that range (every intermediate result
    has at most 20 digits; checked by the translator, which refuses the function otherwise); the range is a
    hypothesis of the generated definition itself. -/
theorem src_PTPTime_to_pinksheet_rtc (s ns : Nat) (hs : s ≤ 4294967295) (hns : ns ≤ 4294967295) :
    Gen.Src.Chapter11.PTPTime.to_pinksheet_rtc s ns ⟨by omega, by omega⟩ ⟨by omega, by omega⟩
      = (Model.Ch11.pinksheet s ns : Int) := by
  unfold Gen.Src.Chapter11.PTPTime.to_pinksheet_rtc Model.Ch11.pinksheet
  have h1 : ((s : Int) * 1000000000 + (ns : Int)) = ((s * 1000000000 + ns : Nat) : Int) := by omega
  simp only [h1, floordiv_natCast_lit, Int.reduceSub, band_natCast_lit]

example : Gen.Src.Chapter11.PTPTime.to_pinksheet_rtc 1700000000 999999999 (by decide) (by decide)
    = 111501407360639 := by decide

/-- `TimeDataFormat.double_digits_to_bcd` as written today = the model's `bcd2`, for `0 ≤ val < 2^32` (every caller
    passes a calendar field).  `int(val / dec)` is a binary64 division; on this range it truncates to the integer
    quotient (checked by the translator from the declared range, which is a hypothesis of the generated definition). -/
theorem src_double_digits_to_bcd (v : Nat) (h : v ≤ 4294967295) :
    Gen.Src.TimeDataFormat.double_digits_to_bcd v ⟨by omega, by omega⟩
      = (Model.Ch11Pay.TimeFmt.bcd2 v : Int) := by
  unfold Gen.Src.TimeDataFormat.double_digits_to_bcd Model.Ch11Pay.TimeFmt.bcd2
  simp only [List.foldl_cons, List.foldl_nil, floordiv_natCast_lit, pymod_natCast_lit, shl_natCast, toNat_lit,
    Nat.shiftLeft_eq]
  omega

example : Gen.Src.TimeDataFormat.double_digits_to_bcd 59 (by decide) = 0x59 := by decide

/-- `ptptime.bcdTointConvert` as written today = the model, for every non-negative argument — including termination:
    the translated `while` loop is bounded by `a + 1` iterations (the model's fuel) and the theorem shows it stops
    before that.  (For a negative argument the Python loop never ends: `a >> 4` stays at -1.) -/
theorem src_bcdTointConvert (a : Nat) :
    Gen.Src.Ptptime.bcdTointConvert a = .ok (Model.ExtraTime.bcdToInt a : Int) := by
  unfold Gen.Src.Ptptime.bcdTointConvert Model.ExtraTime.bcdToInt
  have h := Lemmas.SrcTieTime.bcd_loop (a + 1) a 0 0 (Nat.lt_succ_self a)
  show (Py.whileLoop Lemmas.SrcTieTime.bcdCond Lemmas.SrcTieTime.bcdBody (Int.toNat ((a : Int) + 1))
      ((0 : Int), (a : Int), (0 : Int)) >>= fun st => Except.ok st.1) = _
  have hf : Int.toNat ((a : Int) + 1) = a + 1 := by omega
  rw [hf]
  cases hw : Py.whileLoop Lemmas.SrcTieTime.bcdCond Lemmas.SrcTieTime.bcdBody (a + 1) ((0 : Int), (a : Int), (0 : Int)) with
  | error e => rw [show ((0 : Int), (a : Int), (0 : Int)) = (((0 : Nat) : Int), (a : Int), ((0 : Nat) : Int)) from rfl] at hw
               rw [hw] at h; cases h
  | ok st => rw [show ((0 : Int), (a : Int), (0 : Int)) = (((0 : Nat) : Int), (a : Int), ((0 : Nat) : Int)) from rfl] at hw
             rw [hw] at h; exact h

/-- outside the domain: a negative argument exhausts any fuel (here: none is granted) -/
example : Gen.Src.Ptptime.bcdTointConvert (-1) = .error .fuel := by rfl
example : Gen.Src.Ptptime.bcdTointConvert 0x1234 = .ok 1234 := by rfl

end Acra.Props.C15
