/-
  C15, PTP / RTC / pinksheet part: PTPTime (32+32 bit) and RTCTime (48 bit) survive pack/unpack over their
  whole ranges; `+` and `-` are exact, keep nanoseconds in [0, 10⁹) and undo each other; the ordering
  operators (including Python's reflected `>` / `>=`) are the lexicographic order on
  (seconds, nanoseconds) = the order of the total nanosecond count; `to_pinksheet_rtc` is
  ⌊total ns / 100⌋ mod 2⁴⁸.
  The operators are modelled on arbitrary integers (`IPTP = Int × Int`), as Python evaluates them.
-/
import Acra.Lemmas.Ch11
namespace Acra.Props.C15
open Acra.Py Acra.Model.Ch11 Acra.Gen.Ch11 Acra.Lemmas.Ch10 Acra

/-- total nanoseconds of a time stamp -/
def total (p : IPTP) : Int := p.1 * 1000000000 + p.2
/-- nanoseconds in [0, 10⁹) -/
def Norm (p : IPTP) : Prop := 0 ≤ p.2 ∧ p.2 < 1000000000

example : Norm (1700000000, 999999999) := by simp [Norm]
/-- a pair of operands for the two-operand statements below: present-day epoch, 2 ns apart across a second boundary -/
example : Norm (1700000000, 999999999) ∧ Norm (1700000001, 1) := by simp [Norm]

/-! ### carriage -/

/-- PTP: layout (nanoseconds then seconds, little-endian 32-bit) and exact round trip over the whole range -/
theorem ptp_pack_unpack (t : PTP) (hs : t.seconds < 2 ^ 32) (hn : t.nanoseconds < 2 ^ 32) :
    t.pack = .ok (leBytes 4 t.nanoseconds ++ leBytes 4 t.seconds) ∧
    PTP.unpack (leBytes 4 t.nanoseconds ++ leBytes 4 t.seconds) = .ok t := by
  have hf : Fits PTP_pack_fmt0.codes [t.nanoseconds, t.seconds] := by
    simp only [PTP_pack_fmt0, Fits, Code.bound, and_true]; omega
  have he : encCodes PTP_pack_fmt0.big PTP_pack_fmt0.codes [t.nanoseconds, t.seconds] =
      leBytes 4 t.nanoseconds ++ leBytes 4 t.seconds := by
    simp [PTP_pack_fmt0, encCodes, encInt, Code.size]
  refine ⟨by rw [PTP.pack, structPack_eq _ _ hf, he], ?_⟩
  have hu := structUnpack_enc PTP_unpack_fmt0 [t.nanoseconds, t.seconds] hf
  rw [show PTP_unpack_fmt0.big = PTP_pack_fmt0.big from rfl, show PTP_unpack_fmt0.codes = PTP_pack_fmt0.codes from rfl, he] at hu
  simp [PTP.unpack, hu]

example : (⟨1700000000, 999999999⟩ : PTP).seconds < 2 ^ 32 ∧ (⟨1700000000, 999999999⟩ : PTP).nanoseconds < 2 ^ 32 := by
  decide

/-- every 8-byte buffer decodes, and re-encodes to itself; any other length is rejected -/
theorem ptp_unpack_total (b : Bytes) :
    (b.length = 8 → ∃ t, PTP.unpack b = .ok t ∧ t.pack = .ok b) ∧
    (b.length ≠ 8 → PTP.unpack b = .error .struct) := by
  constructor
  · intro h
    have hp := packCodes_unpackCodes false PTP_unpack_fmt0.codes b (by simp [Unsigned, PTP_unpack_fmt0])
      (by simp [PTP_unpack_fmt0, codesSize, Code.size, h])
    have h8 : codesSize PTP_unpack_fmt0.codes = 8 := rfl
    rw [h8, List.take_of_length_le (by omega)] at hp
    simp only [PTP_unpack_fmt0, unpackCodes, Code.size] at hp
    refine ⟨⟨decInt false ((b.drop 4).take 4), decInt false (b.take 4)⟩, ?_, ?_⟩
    · simp [PTP.unpack, structUnpack, h, PTP_unpack_fmt0, unpackCodes, Code.size, Fmt.size, codesSize]
    · simpa [PTP.pack, structPack, PTP_pack_fmt0] using hp
  · intro h
    simp [PTP.unpack, structUnpack, show PTP_unpack_fmt0.size = 8 from rfl, h]

/-- RTC: 48-bit count, layout `count` little-endian in six bytes then two zero bytes; exact round trip -/
theorem rtc_pack_unpack (c : Nat) (h : c < 2 ^ 48) :
    rtcPack c = .ok (leBytes 6 c ++ [0, 0]) ∧ rtcUnpack (leBytes 6 c ++ [0, 0]) = .ok c := by
  have hf : Fits RTC_pack_fmt0.codes [c % 4294967296, c / 4294967296 % 65536, 0] := by
    simp only [RTC_pack_fmt0, Fits, Code.bound, and_true]; omega
  have e6 : leBytes 6 c = leBytes 4 (c % 4294967296) ++ leBytes 2 (c / 4294967296 % 65536) := by
    have := leBytes_add 2 4 c
    have h2 := leBytes_mod 4 c
    have h3 := leBytes_mod 2 (c / 4294967296)
    simp only [Nat.reducePow, Nat.reduceAdd] at this h2 h3
    rw [this, h2, h3]
  have he : encCodes RTC_pack_fmt0.big RTC_pack_fmt0.codes [c % 4294967296, c / 4294967296 % 65536, 0] =
      leBytes 6 c ++ [0, 0] := by
    rw [e6]; simp [RTC_pack_fmt0, encCodes, encInt, Code.size, leBytes]
  constructor
  · simp only [rtcPack]
    bits_simp
    rw [structPack_eq _ _ hf, he]
  · have hu := structUnpack_enc RTC_unpack_fmt0 [c % 4294967296, c / 4294967296 % 65536, 0] hf
    rw [show RTC_unpack_fmt0.big = RTC_pack_fmt0.big from rfl, show RTC_unpack_fmt0.codes = RTC_pack_fmt0.codes from rfl, he] at hu
    simp only [rtcUnpack, hu]
    bits_simp
    congr 1; omega

example : (0xFFFFFFFFFFFF : Nat) < 2 ^ 48 ∧ (0x123456789ABC : Nat) < 2 ^ 48 := by decide

/-- quirk: a count that does not fit 48 bits is silently reduced modulo 2⁴⁸ by `pack` (never an error) -/
theorem rtc_pack_masks (c : Nat) : rtcPack c = rtcPack (c % 2 ^ 48) := by
  simp only [rtcPack]
  bits_simp
  have h1 : c % 281474976710656 % 4294967296 = c % 4294967296 := by omega
  have h2 : c % 281474976710656 / 4294967296 % 65536 = c / 4294967296 % 65536 := by omega
  rw [h1, h2]

/-! ### arithmetic -/

/-- `a + b`: exact, and the nanoseconds end up in [0, 10⁹) — for ALL integer operands OF THE MODEL.
    (rev2 review: the code computes `int(addns % 1e9)` and `int(addns // 1e9)` in binary64; the model's integer `%` and
    `/` are those operations exactly as long as |addns| < 2⁵³, which covers every pair of 32-bit — indeed 52-bit —
    nanosecond fields.  Beyond that the statement is about the model only.) -/
theorem ptp_add_exact (a b : IPTP) :
    total (ptpAdd a b) = total a + total b ∧ Norm (ptpAdd a b) := by
  simp only [total, ptpAdd, Norm]
  refine ⟨by omega, by omega, by omega⟩

/-- `a - b`: exact, nanoseconds in [0, 10⁹), for operands with nanoseconds in [0, 10⁹) -/
theorem ptp_sub_exact (a b : IPTP) (ha : Norm a) (hb : Norm b) :
    total (ptpSub a b) = total a - total b ∧ Norm (ptpSub a b) := by
  simp only [total, ptpSub, Norm] at *
  split <;> simp only <;> refine ⟨by omega, by omega, by omega⟩

/-- addition and subtraction undo each other -/
theorem ptp_add_sub_cancel (a b : IPTP) (ha : Norm a) (hb : Norm b) : ptpSub (ptpAdd a b) b = a := by
  obtain ⟨a1, a2⟩ := a
  obtain ⟨b1, b2⟩ := b
  simp only [Norm, ptpAdd, ptpSub] at *
  by_cases hc : b2 > (a2 + b2) % 1000000000
  · simp only [hc, ↓reduceIte, Prod.mk.injEq]; constructor <;> omega
  · simp only [hc, ↓reduceIte, Prod.mk.injEq]; constructor <;> omega

theorem ptp_sub_add_cancel (a b : IPTP) (ha : Norm a) (hb : Norm b) : ptpAdd (ptpSub a b) b = a := by
  obtain ⟨a1, a2⟩ := a
  obtain ⟨b1, b2⟩ := b
  simp only [Norm, ptpAdd, ptpSub] at *
  by_cases hc : b2 > a2
  · simp only [hc, ↓reduceIte, Prod.mk.injEq]; constructor <;> omega
  · simp only [hc, ↓reduceIte, Prod.mk.injEq]; constructor <;> omega

/-- instances at a present-day epoch: the borrow and the carry -/
example : ptpSub (1700000001, 1) (1700000000, 999999999) = (0, 2) ∧ ptpAdd (0, 2) (1700000000, 999999999) = (1700000001, 1) := by
  decide

/-! ### ordering -/

/-- `<` is the lexicographic order on (seconds, nanoseconds), for ALL pairs -/
theorem ptp_lt_iff_lex (a b : IPTP) : ptpLt a b = true ↔ a.1 < b.1 ∨ (a.1 = b.1 ∧ a.2 < b.2) := by
  simp [ptpLt]
theorem ptp_le_iff_lex (a b : IPTP) : ptpLe a b = true ↔ a.1 < b.1 ∨ (a.1 = b.1 ∧ a.2 ≤ b.2) := by
  simp [ptpLe]
/-- Python's reflected fallbacks -/
theorem ptp_gt_iff_lex (a b : IPTP) : ptpGt a b = true ↔ b.1 < a.1 ∨ (b.1 = a.1 ∧ b.2 < a.2) := by
  simp [ptpGt, ptpLt]
theorem ptp_ge_iff_lex (a b : IPTP) : ptpGe a b = true ↔ b.1 < a.1 ∨ (b.1 = a.1 ∧ b.2 ≤ a.2) := by
  simp [ptpGe, ptpLe]
theorem ptp_eq_iff (a b : IPTP) : ptpEq a b = true ↔ a = b := by
  obtain ⟨a1, a2⟩ := a
  obtain ⟨b1, b2⟩ := b
  simp [ptpEq]
  constructor
  · rintro ⟨h1, h2⟩; exact ⟨h2, h1⟩
  · rintro ⟨h1, h2⟩; exact ⟨h2, h1⟩

/-- for stamps with nanoseconds in [0, 10⁹) the order is the order of the total nanosecond counts — in
    particular two stamps 1 ns apart are ordered at every epoch -/
theorem ptp_lt_iff_total (a b : IPTP) (ha : Norm a) (hb : Norm b) : ptpLt a b = true ↔ total a < total b := by
  rw [ptp_lt_iff_lex]; simp only [total, Norm] at *; omega
theorem ptp_le_iff_total (a b : IPTP) (ha : Norm a) (hb : Norm b) : ptpLe a b = true ↔ total a ≤ total b := by
  rw [ptp_le_iff_lex]; simp only [total, Norm] at *; omega
theorem ptp_gt_iff_total (a b : IPTP) (ha : Norm a) (hb : Norm b) : ptpGt a b = true ↔ total b < total a := by
  rw [ptp_gt_iff_lex]; simp only [total, Norm] at *; omega
theorem ptp_ge_iff_total (a b : IPTP) (ha : Norm a) (hb : Norm b) : ptpGe a b = true ↔ total b ≤ total a := by
  rw [ptp_ge_iff_lex]; simp only [total, Norm] at *; omega

/-- the witness of the former defect (float comparison could not resolve 1 ns at 1.7·10⁹ s) is ordered correctly -/
example : ptpLt (1700000000, 1) (1700000000, 2) = true ∧ ptpLe (1700000000, 2) (1700000000, 1) = false ∧
    ptpGt (1700000000, 2) (1700000000, 1) = true ∧ ptpGe (1700000000, 1) (1700000000, 2) = false := by decide

/-- consistency of the six operators: exactly one of `<`, `==`, `>` holds; `<=` is `<` or `==` -/
theorem ptp_trichotomy (a b : IPTP) :
    (ptpLt a b = true ∧ ptpEq a b = false ∧ ptpGt a b = false) ∨
    (ptpLt a b = false ∧ ptpEq a b = true ∧ ptpGt a b = false) ∨
    (ptpLt a b = false ∧ ptpEq a b = false ∧ ptpGt a b = true) := by
  obtain ⟨a1, a2⟩ := a
  obtain ⟨b1, b2⟩ := b
  simp only [ptpLt, ptpGt, ptpEq]
  by_cases h1 : a1 < b1
  · have : ¬ b1 < a1 := by omega
    have : a1 ≠ b1 := by omega
    have : b1 ≠ a1 := by omega
    simp [*]
  · by_cases h2 : b1 < a1
    · have : a1 ≠ b1 := by omega
      have : b1 ≠ a1 := by omega
      simp [*]
    · have : a1 = b1 := by omega
      subst this
      by_cases h3 : a2 < b2
      · have : ¬ b2 < a2 := by omega
        have : a2 ≠ b2 := by omega
        simp [*]
      · by_cases h4 : b2 < a2
        · have : a2 ≠ b2 := by omega
          simp [*]
        · have : a2 = b2 := by omega
          subst this
          simp

theorem ptp_le_iff_lt_or_eq (a b : IPTP) : ptpLe a b = true ↔ (ptpLt a b = true ∨ ptpEq a b = true) := by
  obtain ⟨a1, a2⟩ := a
  obtain ⟨b1, b2⟩ := b
  simp only [ptpLe, ptpLt, ptpEq]
  simp
  omega

/-! ### conversion -/

/-- PTP → 10 MHz RTC ("pink sheet"): total nanoseconds divided by 100, rounded down, modulo 2⁴⁸
    (domain where the code's `Decimal` arithmetic is exact: 32-bit seconds, nanoseconds < 10⁹) -/
theorem pinksheet_eq (s ns : Nat) (_hs : s < 2 ^ 32) (_hn : ns < 1000000000) :
    pinksheet s ns = ((s * 1000000000 + ns) / 100) % 2 ^ 48 := by
  simp only [pinksheet]
  exact Nat.and_two_pow_sub_one_eq_mod _ 48

/-- the same equation holds of the MODEL for all naturals (the two hypotheses above are not used by the proof: they
    delimit where the model's integer arithmetic is the code's `Decimal` arithmetic, 28 significant digits) -/
theorem pinksheet_eq_model (s ns : Nat) : pinksheet s ns = ((s * 1000000000 + ns) / 100) % 2 ^ 48 := by
  simp only [pinksheet]
  exact Nat.and_two_pow_sub_one_eq_mod _ 48

example : (1700000000 : Nat) < 2 ^ 32 ∧ (999999999 : Nat) < 1000000000 ∧ pinksheet 1700000000 999999999 = 17000000009999999 % 2 ^ 48 ∧
    pinksheet 1700000000 999999999 = 111501407360639 := by
  decide

example : pinksheet 1 250 = 10000002 := by decide

end Acra.Props.C15
