import Acra.Lemmas.Float
import Acra.Model.IENATime
namespace Acra.Props.C15
open Acra.Py Acra.Model.IENATime Acra.Lemmas.Float

/-- IENA time of year: for every rounding function with the two binary64 facts, every start-of-year
    value `soy` (whatever `mktime` returned: the law does not depend on the time zone), every time
    stamp within a year after it and every microsecond count below 10^6,
    `_getPacketTime()` after `setPacketTime(ts, us)` returns `ts`. -/
theorem iena_time_inverse (fl : ℚ → ℚ) (F : FloatSem fl) (ts us soy : ℕ)
    (h1 : soy ≤ ts) (h2 : ts - soy ≤ 366 * 86400) (h3 : us < 1000000) (h4 : ts < 2 ^ 32) :
    getPacketTimeWith fl (setPacketTime ts us soy) soy = ts := by
  obtain ⟨d, rfl⟩ : ∃ d, ts = soy + d := ⟨ts - soy, by omega⟩
  have hd : d ≤ 366 * 86400 := by omega
  simp only [getPacketTimeWith, setPacketTime, Nat.add_sub_cancel_left]
  have hT : us + d * 1000000 < 2 ^ 53 := by
    have : d * 1000000 ≤ 366 * 86400 * 1000000 := Nat.mul_le_mul_right _ hd
    norm_num at this ⊢; omega
  have hsoy : soy < 2 ^ 53 := by
    have : (2:ℕ) ^ 32 < 2 ^ 53 := by norm_num
    omega
  rw [F.exact _ hT, F.exact _ hsoy]
  have hdq : (d : ℚ) ≤ 366 * 86400 := by exact_mod_cast hd
  have husq : (us : ℚ) < 1000000 := by exact_mod_cast h3
  have hus0 : (0 : ℚ) ≤ us := by positivity
  have hd0 : (0 : ℚ) ≤ d := by positivity
  have hsoy0 : (0 : ℚ) ≤ soy := by positivity
  have hts : ((soy + d : ℕ) : ℚ) < 4294967296 := by exact_mod_cast h4
  -- exact value of the first division
  have hx1 : (((us + d * 1000000 : ℕ)) : ℚ) / 1000000 = (d : ℚ) + (us : ℚ) / 1000000 := by
    push_cast; field_simp; ring
  rw [hx1]
  by_cases hz : us = 0
  · -- whole seconds: every operation is exact
    subst hz
    have e1 : (d : ℚ) + ((0 : ℕ) : ℚ) / 1000000 = ((d : ℕ) : ℚ) := by simp
    rw [e1, F.exact d (by omega)]
    have e2 : (d : ℚ) + (soy : ℚ) = ((soy + d : ℕ) : ℚ) := by push_cast; ring
    have hsd53 : soy + d < 2 ^ 53 := by
      have : (2:ℕ) ^ 32 < 2 ^ 53 := by norm_num
      omega
    rw [e2, F.exact (soy + d) hsd53]
    exact floorNat_eq _ _ (le_refl _) (by linarith)
  · have hus1 : (1 : ℚ) ≤ us := by exact_mod_cast Nat.one_le_iff_ne_zero.mpr hz
    set x1 : ℚ := (d : ℚ) + (us : ℚ) / 1000000 with hx1def
    have hx1_0 : 0 ≤ x1 := by positivity
    have hx1_hi : x1 < 366 * 86400 + 1 := by
      have : (us : ℚ) / 1000000 < 1 := by rw [div_lt_one (by norm_num)]; exact husq
      linarith
    have herr1 := F.err x1 hx1_0
    have hb1 : x1 * (1 / 2 ^ 53) ≤ 1 / 2 ^ 28 := by
      have : x1 ≤ 2 ^ 25 := by norm_num at hx1_hi ⊢; linarith
      calc x1 * (1 / 2 ^ 53) ≤ 2 ^ 25 * (1 / 2 ^ 53) := by
            apply mul_le_mul_of_nonneg_right this; positivity
        _ = 1 / 2 ^ 28 := by norm_num
    have hq1 := abs_le.mp (le_trans herr1 hb1)
    set q1 : ℚ := fl x1 with hq1def
    have hq1_0 : 0 ≤ q1 := by
      have : (1:ℚ) / 1000000 ≤ x1 := by
        have : (1:ℚ) / 1000000 ≤ (us : ℚ) / 1000000 := by
          apply div_le_div_of_nonneg_right hus1; norm_num
        linarith
      have h28 : (1:ℚ) / 2 ^ 28 < 1 / 1000000 := by norm_num
      linarith [hq1.1]
    set y : ℚ := q1 + (soy : ℚ) with hydef
    have hy0 : 0 ≤ y := by positivity
    have hy_hi : y ≤ 2 ^ 33 := by
      have hsd : (soy : ℚ) + (d : ℚ) < 4294967296 := by push_cast at hts; exact hts
      have : (us : ℚ) / 1000000 < 1 := by rw [div_lt_one (by norm_num)]; exact husq
      have h28 : (1:ℚ) / 2 ^ 28 < 1 := by norm_num
      norm_num
      linarith [hq1.2]
    have herr2 := F.err y hy0
    have hb2 : y * (1 / 2 ^ 53) ≤ 1 / 2 ^ 20 := by
      calc y * (1 / 2 ^ 53) ≤ 2 ^ 33 * (1 / 2 ^ 53) := by
            apply mul_le_mul_of_nonneg_right hy_hi; positivity
        _ = 1 / 2 ^ 20 := by norm_num
    have hq2 := abs_le.mp (le_trans herr2 hb2)
    have hfrac_lo : (1:ℚ) / 1000000 ≤ (us : ℚ) / 1000000 := by
      apply div_le_div_of_nonneg_right hus1; norm_num
    have hfrac_hi : (us : ℚ) / 1000000 ≤ 999999 / 1000000 := by
      apply div_le_div_of_nonneg_right _ (by norm_num)
      have : us ≤ 999999 := by omega
      exact_mod_cast this
    have hc1 : (1:ℚ) / 2 ^ 28 + 1 / 2 ^ 20 < 1 / 1000000 := by norm_num
    apply floorNat_eq
    · push_cast; linarith [hq1.1, hq2.1]
    · push_cast; linarith [hq1.2, hq2.2]

/-- the same law for the executable model (binary64 round-to-nearest-even), which the correspondence
    check compares with CPython bit for bit -/
theorem iena_time_inverse_exec (ts us soy : ℕ)
    (h1 : soy ≤ ts) (h2 : ts - soy ≤ 366 * 86400) (h3 : us < 1000000) (h4 : ts < 2 ^ 32) :
    getPacketTime (setPacketTime ts us soy) soy = ts :=
  iena_time_inverse Float.rne rne_floatSem ts us soy h1 h2 h3 h4

/-- the hypotheses are satisfiable: 2024-02-29 12:00:00 UTC and 1 µs, start of year 2024-01-01 UTC -/
example : (1704067200 : ℕ) ≤ 1709208000 ∧ 1709208000 - 1704067200 ≤ 366 * 86400 ∧ (1 : ℕ) < 1000000 ∧
    (1709208000 : ℕ) < 2 ^ 32 := by decide

end Acra.Props.C15
