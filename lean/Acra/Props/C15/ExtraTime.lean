/-
  C15, the helpers of AcraNetwork/ptptime.py and AcraNetwork/nanotime.py (models in Model/ExtraTime.lean; every
  float step is the exact binary64 model `Acra.Py.Float.rne`, for which `Lemmas.Float` proves the two IEEE facts).

  What holds is proved; what does not hold of the code is stated as a witness theorem about the faithful model
  (`…_witness`), with the full law kept in a comment and the restricted law that IS true next to it
  (`…_partial`).  The witnesses are re-found on the real code by `harness/families/extra.py` (oracles_C15).
-/
import Acra.Lemmas.ExtraTime
namespace Acra.Props.C15
open Acra.Py Acra.Py.Float Acra.Lemmas.Float Acra.Model.ExtraTime Acra.Lemmas.ExtraTime Acra.Gen.ExtraTime

/-! ### getLeapYear -/

/-- what the function computes: 1 up to 1972, 32 afterwards.  The branches returning 35 and 0 are dead
    (`t.year >= 1999 or t.year <= 2000` is true of every year) -/
theorem xt_getLeapYear_eq (y : Nat) : getLeapYear y = if y ≤ 1972 then 1 else 32 := by
  unfold getLeapYear
  split
  · rfl
  · split
    · rfl
    · omega

theorem xt_getLeapYear_never_35_or_0 (y : Nat) : getLeapYear y ≠ 35 ∧ getLeapYear y ≠ 0 := by
  rw [xt_getLeapYear_eq]; split <;> simp

/-- the model agrees with the values the code returns today for 1900 … 2200 (regenerated on every run) -/
theorem xt_getLeapYear_table :
    (List.range LEAP_TABLE.length).map (fun i => getLeapYear (LEAP_TABLE_FROM + i)) = LEAP_TABLE := by decide +kernel

/-! ### BCD helpers -/

/-- `bcdTointConvert` reads the nibbles of a 16-bit value as decimal digits -/
theorem xt_bcdToInt_nibbles (a : Nat) (ha : a < 65536) :
    bcdToInt a = a % 16 + 10 * (a / 16 % 16) + 100 * (a / 256 % 16) + 1000 * (a / 4096 % 16) :=
  bcdToInt_nibbles4 a ha

/-- `digitSplit` returns floats, but for every int below 2^53 truncating them gives the decimal digits:
    the correctly rounded quotient `a / 10**i` has the same integer part as the exact one -/
theorem xt_digitSplit_digits (a len : Nat) (ha : a < 2 ^ 53) :
    (digitSplit a len).map floorNat = (List.range len).map fun i => a / 10 ^ i % 10 := by
  unfold digitSplit
  rw [List.map_map]
  apply List.map_congr_left
  intro i _
  exact digit_floor a i ha

/-- the BCD packing idiom of `sbi` / `irigtime()` on a four-digit number -/
theorem xt_bcd4_eq (x : Nat) (hx : x < 10000) :
    bcd4 x = x % 10 + 16 * (x / 10 % 10) + 256 * (x / 100 % 10) + 4096 * (x / 1000 % 10) := by
  unfold bcd4
  rw [xt_digitSplit_digits x 4 (by omega)]
  simp only [List.range, List.range.loop, List.map, intToBcd, List.foldl]
  have h0 : x / 10 ^ 0 % 10 = x % 10 := by simp
  have h1 : x / 10 ^ 1 % 10 = x / 10 % 10 := by simp
  have h2 : x / 10 ^ 2 % 10 = x / 100 % 10 := by norm_num
  have h3 : x / 10 ^ 3 % 10 = x / 1000 % 10 := by norm_num
  rw [h0, h1, h2, h3]
  have key : ∀ d3 < 10, ∀ d2 < 10, ∀ d1 < 10, ∀ d0 < 10,
      (((0 ||| d3 <<< 12) ||| d2 <<< 8) ||| d1 <<< 4) ||| d0 <<< 0 = d0 + 16 * d1 + 256 * d2 + 4096 * d3 := by
    decide +kernel
  exact key _ (Nat.mod_lt _ (by norm_num)) _ (Nat.mod_lt _ (by norm_num)) _ (Nat.mod_lt _ (by norm_num)) _
    (Nat.mod_lt _ (by norm_num))

/-- the two BCD helpers are inverse on 0 … 9999 -/
theorem xt_bcd_inverse (x : Nat) (hx : x < 10000) : bcdToInt (bcd4 x) = x := by
  rw [xt_bcd4_eq x hx, xt_bcdToInt_nibbles _ (by omega)]
  have key : ∀ d3 < 10, ∀ d2 < 10, ∀ d1 < 10, ∀ d0 < 10,
      (d0 + 16 * d1 + 256 * d2 + 4096 * d3) % 16 + 10 * ((d0 + 16 * d1 + 256 * d2 + 4096 * d3) / 16 % 16) +
        100 * ((d0 + 16 * d1 + 256 * d2 + 4096 * d3) / 256 % 16) +
        1000 * ((d0 + 16 * d1 + 256 * d2 + 4096 * d3) / 4096 % 16) = d0 + 10 * d1 + 100 * d2 + 1000 * d3 := by
    decide +kernel
  rw [key _ (Nat.mod_lt _ (by norm_num)) _ (Nat.mod_lt _ (by norm_num)) _ (Nat.mod_lt _ (by norm_num)) _
    (Nat.mod_lt _ (by norm_num))]
  omega

example : bcd4 1234 = 0x1234 ∧ bcdToInt 0x1234 = 1234 := by decide +kernel

/-! ### the 64-bit PTP word -/

/-- layout: seconds in the high 32 bits, `microsecond*1000 + nanosecond` in the low 32 -/
theorem xt_ptpWord_layout (T us ns : Nat) (h : us * 1000 + ns < 4294967296) :
    ptpWord T us ns >>> 32 = T ∧ ptpWord T us ns &&& 0xffffffff = us * 1000 + ns := by
  have h2 : us * 1000 + ns < 2 ^ 32 := by rw [show (2 : Nat) ^ 32 = 4294967296 by norm_num]; exact h
  have hm := Nat.and_two_pow_sub_one_eq_mod (T * 2 ^ 32 + (us * 1000 + ns)) 32
  rw [ptpWord_eq T us ns h2, Nat.shiftRight_eq_div_pow]
  rw [show (2 : Nat) ^ 32 - 1 = 0xffffffff by norm_num] at hm
  rw [hm, show (2 : Nat) ^ 32 = 4294967296 by norm_num]
  constructor <;> omega

/-- the word orders times like (seconds, microsecond, nanosecond) lexicographically -/
theorem xt_ptpWord_lt_iff (T us ns T' us' ns' : Nat) (hus : us < 1000000) (hns : ns < 1000)
    (hus' : us' < 1000000) (hns' : ns' < 1000) :
    ptpWord T us ns < ptpWord T' us' ns' ↔
      T < T' ∨ (T = T' ∧ (us < us' ∨ (us = us' ∧ ns < ns'))) := by
  have h1' : us * 1000 + ns < 4294967296 := by omega
  have h2' : us' * 1000 + ns' < 4294967296 := by clear h1'; omega
  have h1 : us * 1000 + ns < 2 ^ 32 := by rw [show (2 : Nat) ^ 32 = 4294967296 by norm_num]; exact h1'
  have h2 : us' * 1000 + ns' < 2 ^ 32 := by rw [show (2 : Nat) ^ 32 = 4294967296 by norm_num]; exact h2'
  rw [ptpWord_eq _ _ _ h1, ptpWord_eq _ _ _ h2, show (2 : Nat) ^ 32 = 4294967296 by norm_num]
  omega

example : (999999 : Nat) < 1000000 ∧ (999 : Nat) < 1000 := by decide

/-! ### nanotime.timedelta: the nanosecond carry -/

/-- for non-negative nanoseconds (below 2^53) the carry is exact: the total is conserved and the remainder
    is in 0 … 999 -/
theorem xt_timedelta_carry_nonneg (us : Int) (ns : Nat) (h : ns < 2 ^ 53) :
    (tdCarry us ns).1 * 1000 + ((tdCarry us ns).2 : Int) = us * 1000 + ns ∧ (tdCarry us ns).2 < 1000 := by
  rw [tdCarry_nonneg us ns h]
  constructor
  · simp only; omega
  · simp only; omega

/- Full law (FALSE of the code): for every int `ns`, the total `us*1000 + ns` is conserved.
   What is missing: for a NEGATIVE multiple of 1000 the code subtracts one microsecond "for the borrow" although
   `ns % 1000` is 0 and nothing was borrowed (`if nanoseconds < 0: kwargs['microseconds'] -= 1`). -/

/-- negative nanoseconds: conserved exactly when the value is not a multiple of 1000 -/
theorem xt_timedelta_carry_neg_partial (us : Int) (m : Nat) (hm0 : 0 < m) (h : m < 2 ^ 53) (hr : m % 1000 ≠ 0) :
    (tdCarry us (-(m : Int))).1 * 1000 + ((tdCarry us (-(m : Int))).2 : Int) = us * 1000 - m ∧
    (tdCarry us (-(m : Int))).2 < 1000 := by
  rw [tdCarry_neg us m hm0 h]
  constructor
  · simp only; omega
  · simp only; omega

/-- … and off by exactly one microsecond when it is -/
theorem xt_timedelta_carry_neg_witness (us : Int) (m : Nat) (hm0 : 0 < m) (h : m < 2 ^ 53) (hr : m % 1000 = 0) :
    (tdCarry us (-(m : Int))).1 * 1000 + ((tdCarry us (-(m : Int))).2 : Int) = us * 1000 - m - 1000 := by
  rw [tdCarry_neg us m hm0 h]
  simp only; omega

example : (0 : Nat) < 1000 ∧ (1000 : Nat) < 2 ^ 53 ∧ 1000 % 1000 = 0 ∧ 1001 % 1000 ≠ 0 := by decide

/-! ### seconds since the epoch, `total_seconds`, `ptp` -/

/-- `int((self - ptptime.utcfromtimestamp(0)).total_seconds())` is the exact number of whole seconds as long
    as the microsecond count since 1970 stays below 2^53 (year 2255) -/
theorem xt_baseSeconds_exact (t : PT) (T : Nat) (hT : t.epochSeconds = T) (hus : t.microsecond < 1000000)
    (hns : t.nanosecond < 1000) (hb : T * 1000000 + t.microsecond < 9007199254740992) :
    t.baseSeconds = .ok (T : Int) := by
  have := sinceEpoch_seconds T t.microsecond t.nanosecond hus hns hb
  unfold PT.baseSeconds PT.sinceEpoch
  rw [hT]
  cases hd : tdMake 0 (T : Int) (t.microsecond : Int) (t.nanosecond : Int) with
  | error e => rw [hd] at this; simp [Except.map] at this
  | ok d => rw [hd] at this; simpa [Except.map] using this

/- Full law (FALSE of the code): `total_seconds` is the whole seconds since 1970 for every ptptime.
   What is missing: the value goes through `timedelta.total_seconds()`, a float; from 2^34 s (year 2514) a
   time with microsecond 999999 rounds up to the next second. -/
theorem xt_total_seconds_witness :
    let t : PT := { year := 2514, month := 5, day := 30, hour := 1, minute := 53, second := 4,
                    microsecond := 999999, nanosecond := 0, leap := .flag false }
    t.epochSeconds = 17179869184 ∧ t.baseSeconds = .ok 17179869185 :=
  ⟨by decide +kernel, (okIs_iff _ _).mp (by decide +kernel)⟩

/-- `leapyear=True` adds 1, not the table value: `isinstance(True, int)` holds, so the branch that calls
    `getLeapYear` is never reached -/
theorem xt_leap_flag_adds_one (t : PT) (s : Int) (h : t.baseSeconds = .ok s) :
    ({ t with leap := .flag true } : PT).totalSeconds = .ok (s + 1) := by
  have hb : ({ t with leap := .flag true } : PT).baseSeconds = t.baseSeconds := rfl
  unfold PT.totalSeconds
  rw [hb, h]
  rfl

/-- the PTP word of a time: seconds (plus the integer offset) and the sub-second part -/
theorem xt_ptp_value (t : PT) (T L : Nat) (hT : t.epochSeconds = T) (hl : t.leap = .int L)
    (hus : t.microsecond < 1000000) (hns : t.nanosecond < 1000) (hb : T * 1000000 + t.microsecond < 9007199254740992) :
    t.ptp = .ok ((((T + L) * 4294967296 + (t.microsecond * 1000 + t.nanosecond) : Nat)) : Int) := by
  have hbase := xt_baseSeconds_exact t T hT hus hns hb
  have hx' : t.microsecond * 1000 + t.nanosecond < 4294967296 := by clear hb hbase; omega
  have hx : t.microsecond * 1000 + t.nanosecond < 2 ^ 32 := by
    rw [show (2 : Nat) ^ 32 = 4294967296 by norm_num]; exact hx'
  have htot : t.totalSeconds = .ok ((T : Int) + (L : Int)) := by
    unfold PT.totalSeconds
    rw [hbase, hl]
    rfl
  have h0 : (0 : Int) ≤ (T : Int) + (L : Int) := by omega
  have ht : ((T : Int) + (L : Int)).toNat = T + L := by omega
  unfold PT.ptp
  rw [htot]
  dsimp only
  rw [if_pos h0, ht, ptpWord_eq _ _ _ hx, show (2 : Nat) ^ 32 = 4294967296 by norm_num]

/-- PTP words are ordered like the times that produced them (same offset) -/
theorem xt_ptp_monotone (a b : PT) (Ta Tb L : Nat) (ha : a.epochSeconds = Ta) (hb : b.epochSeconds = Tb)
    (hla : a.leap = .int L) (hlb : b.leap = .int L)
    (hua : a.microsecond < 1000000) (hna : a.nanosecond < 1000) (hub : b.microsecond < 1000000) (hnb : b.nanosecond < 1000)
    (hba : Ta * 1000000 + a.microsecond < 9007199254740992) (hbb : Tb * 1000000 + b.microsecond < 9007199254740992)
    (hlt : Ta < Tb ∨ (Ta = Tb ∧ (a.microsecond < b.microsecond ∨ (a.microsecond = b.microsecond ∧ a.nanosecond < b.nanosecond)))) :
    ∃ x y : Int, a.ptp = .ok x ∧ b.ptp = .ok y ∧ x < y := by
  refine ⟨_, _, xt_ptp_value a Ta L ha hla hua hna hba, xt_ptp_value b Tb L hb hlb hub hnb hbb, ?_⟩
  have : (Ta + L) * 4294967296 + (a.microsecond * 1000 + a.nanosecond) < (Tb + L) * 4294967296 + (b.microsecond * 1000 + b.nanosecond) := by
    clear hba hbb
    omega
  exact_mod_cast this

example :
    let t : PT := { year := 2024, month := 2, day := 29, hour := 12, minute := 34, second := 56,
                    microsecond := 123456, nanosecond := 789, leap := .int 0 }
    t.epochSeconds = (1709210096 : Nat) ∧ t.microsecond < 1000000 ∧ t.nanosecond < 1000 := by
  refine ⟨by decide +kernel, by decide, by decide⟩

/-! ### timefromptp -/

/-- decode then encode: for every 64-bit word whose seconds (after removing a non-negative integer offset `L`)
    lie in 1970 … 2099 and whose low half is a legal sub-second count (below 10^9), `timefromptp(p, L)` returns
    a time and that time's `.ptp` is the word `p` again.  The float steps (`int(x/1000)`, the `total_seconds()`
    of the difference to the epoch) are exact on this domain. -/
theorem xt_ptp_timefromptp (T x L : Nat) (hT : T < 4102444800) (hL : L ≤ T) (hx : x < 1000000000) :
    ∃ t, timefromptp (T * 4294967296 + x) (L : Int) = .ok t ∧ t.ptp = .ok (((T * 4294967296 + x : Nat)) : Int) := by
  refine ⟨ptOfDate (dateOfSeconds (T - L)) (x / 1000) (x % 1000) (.int L), ?_, ?_⟩
  · unfold timefromptp
    rw [word_hi T x hx, word_lo T x hx]
    exact timefromptpParts_eq T x L hT hL hx
  · have hn : T - L < 4102444800 := by omega
    have hv := xt_ptp_value (ptOfDate (dateOfSeconds (T - L)) (x / 1000) (x % 1000) (.int L)) (T - L) L
      (ptOfDate_epoch (T - L) _ _ _ hn) rfl
      (show x / 1000 < 1000000 by omega) (show x % 1000 < 1000 by omega)
      (show (T - L) * 1000000 + x / 1000 < 9007199254740992 by omega)
    rw [hv]
    have e : (T - L + L) * 4294967296 + (x / 1000 * 1000 + x % 1000) = T * 4294967296 + x := by omega
    show Except.ok (((T - L + L) * 4294967296 + (x / 1000 * 1000 + x % 1000) : Nat) : Int) = _
    rw [e]

example : (1709210096 : Nat) < 4102444800 ∧ (37 : Nat) ≤ 1709210096 ∧ (123456789 : Nat) < 1000000000 := by decide

/-! ### decoders: what does not invert -/

/- Full law (FALSE of the code): `timefromiena(t.iena, t.year) = t` (to the microsecond).
   What is missing: `timefromiena` places the start of `year` at `(year-1970) * 365 days` after the epoch, so
   from 1973 on the result is early by the number of leap days since 1970. -/
theorem xt_timefromiena_witness :
    let t : PT := { year := 1973, month := 1, day := 1, hour := 0, minute := 0, second := 0,
                    microsecond := 5, nanosecond := 0, leap := .flag false }
    t.iena = .ok 5 ∧
    (timefromiena 5 1973).map (fun r => (r.year, r.month, r.day, r.microsecond)) = .ok (1972, 12, 31, 5) :=
  ⟨(okIs_iff _ _).mp (by decide +kernel), (okIs_iff _ _).mp (by decide +kernel)⟩

/- Full law (FALSE of the code): `nanotime + timedelta` is exact for every pair whose sum lies in year 1 … 9999.
   What is missing: the nanosecond carry is added to `microsecond` without carrying into the seconds, and the
   constructor rejects microsecond = 1 000 000. -/
theorem xt_nanotime_add_carry_witness :
    let t : PT := { year := 2024, month := 1, day := 1, hour := 0, minute := 0, second := 0,
                    microsecond := 999999, nanosecond := 999, leap := .flag false }
    (tdMake 0 0 0 1).bind (ntAdd t) = .error .value :=
  (errIs_iff _ _).mp (by decide +kernel)

/- Full law (FALSE of the code): `timefromptp(t.ptp, -1)` gives back a time built with `leapyear=True`
   ("use the leap-second table" on both sides).  `t.ptp` adds 1 (`xt_leap_flag_adds_one`), `timefromptp(p, -1)`
   subtracts `getLeapYear` = 32. -/
theorem xt_timefromptp_table_witness :
    let t : PT := { year := 2024, month := 2, day := 29, hour := 12, minute := 34, second := 56,
                    microsecond := 123456, nanosecond := 789, leap := .flag true }
    t.ptp = .ok 7341001468731444501 ∧
    (timefromptp 7341001468731444501 (-1)).map (fun r => (r.hour, r.minute, r.second)) = .ok (12, 34, 25) :=
  ⟨(okIs_iff _ _).mp (by decide +kernel), (okIs_iff _ _).mp (by decide +kernel)⟩

end Acra.Props.C15
