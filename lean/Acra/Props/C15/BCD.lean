import Acra.Model.Ch11TimeFmt
namespace Acra.Props.C15
open Acra.Model.Ch11Pay.TimeFmt

/-- the BCD helpers invert each other on 0..99: `bcd_to_int(double_digits_to_bcd(v)) = v` -/
theorem bcd_inverse : ∀ v, v < 100 → bcdToInt (bcd2 v) = v := by decide

/-- … and the other way round (added by the rev2 review; "invert each other"): every byte whose two nibbles are decimal
    digits is the encoding of the value it decodes to -/
theorem bcd_inverse_conv : ∀ b, b < 256 → b % 16 < 10 → b / 16 < 10 → bcd2 (bcdToInt b) = b ∧ bcdToInt b < 100 := by decide +kernel

example : (0x59 : Nat) < 256 ∧ 0x59 % 16 < 10 ∧ 0x59 / 16 < 10 ∧ bcdToInt 0x59 = 59 ∧ bcd2 59 = 0x59 := by decide

/-- `double_digits_to_bcd` puts the tens digit in the high nibble and the units digit in the low one -/
theorem bcd_layout (v : Nat) (h : v < 100) : bcd2 v = 16 * (v / 10) + v % 10 := by
  unfold bcd2; omega

/-- the encoder's result always fits one byte -/
theorem bcd_byte (v : Nat) : bcd2 v < 256 := by
  unfold bcd2; omega

/-- `bcd_to_int` on two BCD bytes read as one little-endian 16-bit word (the year field of time format 1):
    four decimal digits -/
theorem bcd_year : ∀ k, k < 130 →
    bcdToInt (bcd2 ((1970 + k) % 100) + 256 * bcd2 ((1970 + k) / 100)) = 1970 + k := by decide

/-- nibbles above 9 are not BCD: `bcd_to_int` renders them as two decimal digits (0xAB ↦ "10" "11") -/
example : bcdToInt 0xAB = 1011 := by decide

end Acra.Props.C15
