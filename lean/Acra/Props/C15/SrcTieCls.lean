import Acra.Gen.Src.Cls.PTPTime
import Acra.Gen.Src.Cls.RTCTime
import Acra.Model.Ch11
import Acra.Lemmas.SrcTieCls
namespace Acra.Props.C15
open Acra Acra.Py Acra.Lemmas.SrcTieCls

/-! Method source ties (C15): `PTPTime.pack / unpack`, `RTCTime.pack / unpack / to_rtc` as they are written TODAY
    (regenerated from the Python source by `harness/translate_methods.py` on every run, state-passing over the object
    structure generated from `__init__`) equal the hand-written models of `Acra.Model.Ch11`.  The models are
    functions (`PTP.pack : PTP → R Bytes`, `PTP.unpack : Bytes → R PTP`, `rtcPack`, `rtcUnpack`); the theorems also say
    what happens to the object: `pack` never changes it, `unpack` stores the decoded value or leaves it untouched. -/

theorem src_PTPTime_pack_of (t : Model.Ch11.PTP) :
    Gen.Src.Cls.PTPTime.pack (PTPTime.ofModel t) = (PTPTime.ofModel t, t.pack) := by
  unfold Gen.Src.Cls.PTPTime.pack Model.Ch11.PTP.pack
  simp only [PTPTime.ofModel, Gen.Ch11.PTP_pack_fmt0]
  rw [structPackI_cast _ [t.nanoseconds, t.seconds] _ (by simp)]
  cases structPack ⟨false, [.u32, .u32]⟩ [t.nanoseconds, t.seconds] <;> rfl

/-- `PTPTime.pack`, for every object in the model's domain (both attributes `≥ 0`): the model's bytes / error, object
    unchanged -/
theorem src_PTPTime_pack (o : Gen.Src.Cls.PTPTime.Obj) (h : PTPTime.Dom o) :
    Gen.Src.Cls.PTPTime.pack o = (o, (PTPTime.toModel o).pack) := by
  have := src_PTPTime_pack_of (PTPTime.toModel o)
  rwa [PTPTime.ofModel_toModel o h] at this

example : PTPTime.Dom { seconds := 1700000000, nanoseconds := 999999999 } := by decide

/-- outside the domain: a negative attribute is refused by `struct.pack` -/
theorem src_PTPTime_pack_negative (o : Gen.Src.Cls.PTPTime.Obj) (h : o.seconds < 0 ∨ o.nanoseconds < 0) :
    Gen.Src.Cls.PTPTime.pack o = (o, .error .struct) := by
  unfold Gen.Src.Cls.PTPTime.pack
  have : ∃ v, v ∈ [o.nanoseconds, o.seconds] ∧ v < 0 := by
    rcases h with h | h <;> exact ⟨_, by simp, h⟩
  obtain ⟨v, hv, hneg⟩ := this
  rw [structPackI_neg _ _ v hv hneg]

example : Gen.Src.Cls.PTPTime.pack { seconds := -1, nanoseconds := 0 }
    = ({ seconds := -1, nanoseconds := 0 }, .error .struct) := by rfl

/-- `PTPTime.unpack`, for EVERY prior object and every buffer: the model's value stored and `True`, or the model's error
    with the object untouched -/
theorem src_PTPTime_unpack (o : Gen.Src.Cls.PTPTime.Obj) (buf : Bytes) :
    Gen.Src.Cls.PTPTime.unpack o buf =
      match Model.Ch11.PTP.unpack buf with
      | .ok t => (PTPTime.ofModel t, .ok true)
      | .error e => (o, .error e) := by
  unfold Gen.Src.Cls.PTPTime.unpack Model.Ch11.PTP.unpack
  simp only [structUnpackI_eq, Gen.Ch11.PTP_unpack_fmt0]
  cases hs : structUnpack ⟨false, [.u32, .u32]⟩ buf with
  | error e => rfl
  | ok vs =>
    have hl := structUnpack_vals_length' _ _ _ hs
    match vs, hl with
    | [a, b], _ => rfl

theorem src_RTCTime_pack_of (c : Nat) :
    Gen.Src.Cls.RTCTime.pack (RTCTime.ofModel c) = (RTCTime.ofModel c, Model.Ch11.rtcPack c) := by
  unfold Gen.Src.Cls.RTCTime.pack Model.Ch11.rtcPack
  simp only [RTCTime.ofModel, Gen.Ch11.RTC_pack_fmt0, shr_natCast, band_natCast_lit, toNat_lit]
  rw [structPackI_cast _ [c &&& 4294967295, (c >>> 32) &&& 65535, 0] _ (by simp)]
  cases structPack ⟨false, [.u32, .u16, .u16]⟩ [c &&& 4294967295, (c >>> 32) &&& 65535, 0] <;> rfl

/-- `RTCTime.pack`, for every object with `count ≥ 0` (a negative count is outside the model: Python's `&` on a negative
    int yields its two's-complement low bits, so `pack` emits the low 48 bits of `count mod 2^48`) -/
theorem src_RTCTime_pack (o : Gen.Src.Cls.RTCTime.Obj) (h : RTCTime.Dom o) :
    Gen.Src.Cls.RTCTime.pack o = (o, Model.Ch11.rtcPack (RTCTime.toModel o)) := by
  have := src_RTCTime_pack_of (RTCTime.toModel o)
  rwa [RTCTime.ofModel_toModel o h] at this

example : RTCTime.Dom { count := 0xFFFFFFFFFFFF } := by decide

/-- `RTCTime.unpack`, for every prior object and every buffer -/
theorem src_RTCTime_unpack (o : Gen.Src.Cls.RTCTime.Obj) (buf : Bytes) :
    Gen.Src.Cls.RTCTime.unpack o buf =
      match Model.Ch11.rtcUnpack buf with
      | .ok c => (RTCTime.ofModel c, .ok true)
      | .error e => (o, .error e) := by
  unfold Gen.Src.Cls.RTCTime.unpack Model.Ch11.rtcUnpack
  simp only [structUnpackI_eq, Gen.Ch11.RTC_unpack_fmt0]
  cases hs : structUnpack ⟨false, [.u32, .u16, .u16]⟩ buf with
  | error e => rfl
  | ok vs =>
    have hl := structUnpack_vals_length' _ _ _ hs
    match vs, hl with
    | [a, b, c], _ =>
      simp only [Except.map, Py.intAt, List.map, List.getD_cons_zero, List.getD_cons_succ, toNat_lit]
      simp [RTCTime.ofModel, shl_natCast]

/-- `RTCTime.to_rtc` returns `count` and leaves the object alone (every object) -/
theorem src_RTCTime_to_rtc (o : Gen.Src.Cls.RTCTime.Obj) : Gen.Src.Cls.RTCTime.to_rtc o = (o, .ok o.count) := rfl

end Acra.Props.C15
