import Acra.Lemmas.Float
import Acra.Model.PES
import Acra.Spec.MPEG
namespace Acra.Props.C15
open Acra.Py Acra.Model.PES Acra.Lemmas.Float

/-- exact bit layout over ℕ: the field `ts_to_pts` builds from a tick count is
    `0010 p[32..30] 1 p[29..15] 1 p[14..0] 1` (ISO 13818-1 PES header, 40 bits) -/
theorem pts_layout (p : ℕ) : fieldOfPts p = Spec.MPEG.ptsField p := by
  unfold fieldOfPts Spec.MPEG.ptsField
  omega

/-- the marker bits: bit 0, bit 16 and bit 32 are set, the top nibble is 0010 -/
theorem pts_markers (p : ℕ) :
    fieldOfPts p % 2 = 1 ∧ fieldOfPts p / 2 ^ 16 % 2 = 1 ∧ fieldOfPts p / 2 ^ 32 % 2 = 1 ∧
    fieldOfPts p / 2 ^ 36 = 2 ∧ fieldOfPts p < 2 ^ 40 := by
  unfold fieldOfPts
  omega

/-- the three tick groups sit at bits 1..15, 17..31 and 33..35 -/
theorem pts_groups (p : ℕ) :
    fieldOfPts p / 2 % 2 ^ 15 = p % 2 ^ 15 ∧ fieldOfPts p / 2 ^ 17 % 2 ^ 15 = p / 2 ^ 15 % 2 ^ 15 ∧
    fieldOfPts p / 2 ^ 33 % 8 = p / 2 ^ 30 % 8 := by
  unfold fieldOfPts
  omega

/-- every 33-bit tick count is recovered from its field -/
theorem pts_field_inverse (p : ℕ) (h : p < 2 ^ 33) : ptsOfField (fieldOfPts p) = p := by
  unfold ptsOfField fieldOfPts
  omega

/-- whatever the 40-bit field holds, the decoded tick count is below 2^33 -/
theorem pts_of_field_lt (v : ℕ) : ptsOfField v < 2 ^ 33 := by
  unfold ptsOfField
  omega

/-- ticks survive the conversion to seconds and back, for EVERY rounding function with the two
    binary64 facts: `ts_to_pts (pts_to_ts (enc p)) = enc p` for all p < 2^33.
    (error of the division ≤ p/90000·2⁻⁵³, of the multiplication ≤ (p+1)·2⁻⁵³, together < 2⁻¹⁸ < ½,
    so rounding to the nearest integer recovers p) -/
theorem pts_roundtrip (fl : ℚ → ℚ) (F : FloatSem fl) (p : ℕ) (h : p < 2 ^ 33) :
    ts_to_pts fl (pts_to_ts fl (fieldOfPts p)) = fieldOfPts p := by
  unfold ts_to_pts pts_to_ts
  rw [pts_field_inverse p h]
  have hp53 : p < 2 ^ 53 := by
    have : (2:ℕ) ^ 33 < 2 ^ 53 := by norm_num
    omega
  rw [F.exact p hp53]
  congr 1
  -- x = fl (p / 90000), y = fl (x * 90000)
  have hpq : (p : ℚ) < 2 ^ 33 := by exact_mod_cast h
  have hp0 : (0 : ℚ) ≤ p := by positivity
  set x : ℚ := fl ((p : ℚ) / 90000) with hx
  have hx0' : (0 : ℚ) ≤ (p : ℚ) / 90000 := by positivity
  have e1 := abs_le.mp (F.err _ hx0')
  have hx_lo : (p : ℚ) / 90000 * (1 - 1 / 2 ^ 53) ≤ x := by linarith [e1.1]
  have hx_hi : x ≤ (p : ℚ) / 90000 * (1 + 1 / 2 ^ 53) := by linarith [e1.2]
  have hx0 : 0 ≤ x := by
    have : (0 : ℚ) ≤ (p : ℚ) / 90000 * (1 - 1 / 2 ^ 53) := by
      apply mul_nonneg hx0'; norm_num
    linarith
  have hy0' : (0 : ℚ) ≤ x * 90000 := by positivity
  set y : ℚ := fl (x * 90000) with hy
  have e2 := abs_le.mp (F.err _ hy0')
  -- bounds on y around p
  have hxp_hi : x * 90000 ≤ (p : ℚ) * (1 + 1 / 2 ^ 53) := by
    have := mul_le_mul_of_nonneg_right hx_hi (show (0:ℚ) ≤ 90000 by norm_num)
    calc x * 90000 ≤ (p : ℚ) / 90000 * (1 + 1 / 2 ^ 53) * 90000 := this
      _ = (p : ℚ) * (1 + 1 / 2 ^ 53) := by ring
  have hxp_lo : (p : ℚ) * (1 - 1 / 2 ^ 53) ≤ x * 90000 := by
    have := mul_le_mul_of_nonneg_right hx_lo (show (0:ℚ) ≤ 90000 by norm_num)
    calc (p : ℚ) * (1 - 1 / 2 ^ 53) = (p : ℚ) / 90000 * (1 - 1 / 2 ^ 53) * 90000 := by ring
      _ ≤ x * 90000 := this
  have hbig : x * 90000 ≤ 2 ^ 34 := by
    have : (p : ℚ) * (1 + 1 / 2 ^ 53) ≤ 2 ^ 33 * 2 := by
      apply mul_le_mul (le_of_lt hpq) (by norm_num) (by norm_num) (by norm_num)
    linarith
  have herr2 : (x * 90000) * (1 / 2 ^ 53) ≤ 1 / 2 ^ 19 := by
    calc (x * 90000) * (1 / 2 ^ 53) ≤ 2 ^ 34 * (1 / 2 ^ 53) := by
          apply mul_le_mul_of_nonneg_right hbig; positivity
      _ = 1 / 2 ^ 19 := by norm_num
  have hperr : (p : ℚ) * (1 / 2 ^ 53) ≤ 1 / 2 ^ 20 := by
    calc (p : ℚ) * (1 / 2 ^ 53) ≤ 2 ^ 33 * (1 / 2 ^ 53) := by
          apply mul_le_mul_of_nonneg_right (le_of_lt hpq); positivity
      _ = 1 / 2 ^ 20 := by norm_num
  have hy_lo : (p : ℚ) - 1 / 4 ≤ y := by
    have : (p : ℚ) * (1 - 1 / 2 ^ 53) = p - p * (1 / 2 ^ 53) := by ring
    have h3 : (1:ℚ) / 2 ^ 19 + 1 / 2 ^ 20 ≤ 1 / 4 := by norm_num
    linarith [e2.1]
  have hy_hi : y ≤ (p : ℚ) + 1 / 4 := by
    have : (p : ℚ) * (1 + 1 / 2 ^ 53) = p + p * (1 / 2 ^ 53) := by ring
    have h3 : (1:ℚ) / 2 ^ 19 + 1 / 2 ^ 20 ≤ 1 / 4 := by norm_num
    linarith [e2.2]
  -- round half even of a value within 1/4 of the integer p
  show Float.roundNat y = p
  unfold Float.roundNat Float.roundHalfEven
  by_cases hge : (p : ℚ) ≤ y
  · have hfl : Float.floorNat y = p := floorNat_eq y p hge (by linarith)
    simp only [hfl]
    have h1 : ¬ (y - (p : ℚ) > 1 / 2) := by linarith
    have h2 : y - (p : ℚ) < 1 / 2 := by linarith
    rw [if_neg h1, if_pos h2]
  · have hlt : y < p := lt_of_not_ge hge
    have hp1 : 1 ≤ p := by
      by_contra hc
      have : p = 0 := by omega
      subst this
      -- p = 0: x = fl 0 = 0, y = fl 0 = 0
      have hx00 : x = 0 := by
        have := F.exact 0 (by norm_num)
        simp only [hx]; simpa using this
      have hy00 : y = 0 := by
        have := F.exact 0 (by norm_num)
        simp only [hy, hx00]; simpa using this
      simp [hy00] at hlt
    have hfl : Float.floorNat y = p - 1 := by
      apply floorNat_eq
      · have : ((p - 1 : ℕ) : ℚ) = (p : ℚ) - 1 := by
          rw [Nat.cast_sub hp1]; simp
        rw [this]; linarith
      · have : ((p - 1 : ℕ) : ℚ) = (p : ℚ) - 1 := by
          rw [Nat.cast_sub hp1]; simp
        rw [this]; linarith
    have hc : ((p - 1 : ℕ) : ℚ) = (p : ℚ) - 1 := by rw [Nat.cast_sub hp1]; simp
    simp only [hfl, hc]
    have h1 : y - ((p : ℚ) - 1) > 1 / 2 := by linarith
    rw [if_pos h1]
    omega

/-- the same for the executable model (binary64 round-to-nearest-even), which the correspondence
    check compares with CPython bit for bit -/
theorem pts_roundtrip_exec (p : ℕ) (h : p < 2 ^ 33) :
    ts_to_pts Float.rne (pts_to_ts Float.rne (fieldOfPts p)) = fieldOfPts p :=
  pts_roundtrip Float.rne rne_floatSem p h

/-- the five-byte big-endian carriage: `buf_to_ts (ts_to_buf ts)` reads back the field it wrote -/
theorem pts_buf_carriage (fl : ℚ → ℚ) (ts : ℚ) :
    ∃ b, ts_to_buf fl ts = .ok b ∧ b.length = 5 ∧ buf_to_ts fl b = .ok (pts_to_ts fl (ts_to_pts fl ts)) := by
  have hlt : ts_to_pts fl ts < 2 ^ 40 := (pts_markers _).2.2.2.2
  have hfit : Fits Acra.Gen.PES.ts_to_buf_fmt0.codes [ts_to_pts fl ts / 4294967296, ts_to_pts fl ts % 4294967296] := by
    simp [Fits, Acra.Gen.PES.ts_to_buf_fmt0, Code.bound]; omega
  refine ⟨_, by unfold ts_to_buf; exact structPack_eq _ _ hfit, ?_, ?_⟩
  · simp [encCodes, Acra.Gen.PES.ts_to_buf_fmt0, Code.size]
  · unfold buf_to_ts
    have := structUnpack_enc Acra.Gen.PES.buf_to_ts_fmt0 [ts_to_pts fl ts / 4294967296, ts_to_pts fl ts % 4294967296] hfit
    have e : encCodes Acra.Gen.PES.ts_to_buf_fmt0.big Acra.Gen.PES.ts_to_buf_fmt0.codes [ts_to_pts fl ts / 4294967296, ts_to_pts fl ts % 4294967296]
        = encCodes Acra.Gen.PES.buf_to_ts_fmt0.big Acra.Gen.PES.buf_to_ts_fmt0.codes [ts_to_pts fl ts / 4294967296, ts_to_pts fl ts % 4294967296] := rfl
    rw [e, this]
    simp only
    congr 2
    omega

example : (16842600 : ℕ) < 2 ^ 33 := by norm_num

end Acra.Props.C15
