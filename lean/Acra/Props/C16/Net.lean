import Acra.Lemmas.Reassembly
import Acra.Lemmas.ReviewReassembly
namespace Acra.Props.C16
open Acra.Py Acra.Model.Net Acra.Lemmas.Reassembly

/-- what `combine_ip_fragments` returns for a list of IP objects with one identification -/
theorem combine_ok (l : List IP) (h : SameId l) : combine (l.map .ip) = .ok (combineSorted (sortFrags l)) := by
  simp [combine, checkItems_ok_of_sameId l h]

/-- **independence of the arrival order** (`List.Perm`, every n): two arrival orders of the same fragments, with
    pairwise distinct fragment offsets, reassemble to the same packet — or are both refused -/
theorem combine_perm (l₁ l₂ : List IP) (hp : l₁.Perm l₂) (hd : Distinct l₁) :
    combine (l₁.map .ip) = combine (l₂.map .ip) := by
  by_cases hs : SameId l₁
  · rw [combine_ok l₁ hs, combine_ok l₂ (SameId_perm hp hs), sortFrags_perm hp hd]
  · have hs2 : ¬ SameId l₂ := fun h => hs (SameId_perm hp.symm h)
    have refuse : ∀ l : List IP, ¬ SameId l → combine (l.map .ip) = .error .generic := by
      intro l hl
      simp only [combine]
      cases hc : checkItems none (l.map .ip) with
      | error e => rw [checkItems_error _ _ _ hc]
      | ok ps =>
        obtain ⟨h1, _, h3⟩ := checkItems_ok _ _ _ hc
        have : l = ps := by
          have e := congrArg (List.filterMap fun it => match it with | Item.ip p => some p | Item.other => none) h1
          simpa [List.filterMap_map, Function.comp_def] using e
        subst this
        exact absurd h3 hl
    rw [refuse l₁ hs, refuse l₂ hs2]

/-- **cut and reassemble**: the fragments carrying the pieces of a payload one after the other (every piece but the
    last non-empty — e.g. cut at positive multiples of 8 —, every fragment with its own header fields but one
    identification), supplied in ANY order, reassemble to the concatenation of the pieces, with the FIRST fragment's
    source, destination, protocol, version, IHL, DSCP, identification and TTL, and cleared flags and offset -/
theorem combine_cut (h0 : IP) (p0 : Bytes) (rest : List (IP × Bytes)) (l : List IP)
    (hne : ∀ hp ∈ ((h0, p0) :: rest).dropLast, hp.2 ≠ [])
    (hid : SameId (mkFrags ((h0, p0) :: rest) 0))
    (hperm : l.Perm (mkFrags ((h0, p0) :: rest) 0)) :
    ∃ c, combine (l.map .ip) = .ok c ∧
      c.payload = p0 ++ (rest.map (·.2)).flatten ∧
      c.srcip = h0.srcip ∧ c.dstip = h0.dstip ∧ c.protocol = h0.protocol ∧ c.version = h0.version ∧
      c.ihl = h0.ihl ∧ c.dscp = h0.dscp ∧ c.ident = h0.ident ∧ c.ttl = h0.ttl ∧
      c.flags = 0 ∧ c.fragment_offset = 0 := by
  have hsorted := mkFrags_sorted ((h0, p0) :: rest) 0 hne
  have hdist : Distinct (mkFrags ((h0, p0) :: rest) 0) :=
    List.Pairwise.imp (fun h => Nat.ne_of_lt h) hsorted
  have hdl : Distinct l := (List.Perm.pairwise_iff (fun h => Ne.symm h) hperm.symm).1 hdist
  refine ⟨combineSorted (mkFrags ((h0, p0) :: rest) 0), ?_, ?_⟩
  · rw [combine_ok l (SameId_perm hperm.symm hid), sortFrags_perm hperm hdl, sortFrags_sorted _ hsorted]
  · have hp := mkFrags_payload ((h0, p0) :: rest) 0
    simp only [combineSorted, hp]
    simp [mkFrags]

/-- **refusal**: a non-IP element anywhere in the list -/
theorem refuses_foreign (items : List Item) (h : Item.other ∈ items) : combine items = .error .generic := by
  simp only [combine]
  cases hc : checkItems none items with
  | error e => rw [checkItems_error _ _ _ hc]
  | ok ps =>
    obtain ⟨h1, _, _⟩ := checkItems_ok _ _ _ hc
    rw [h1] at h
    simp at h

/-- **refusal**: two elements with differing identification, wherever they are -/
theorem refuses_ids (items : List Item) (p q : IP) (hp : Item.ip p ∈ items) (hq : Item.ip q ∈ items)
    (hne : p.ident ≠ q.ident) : combine items = .error .generic := by
  simp only [combine]
  cases hc : checkItems none items with
  | error e => rw [checkItems_error _ _ _ hc]
  | ok ps =>
    obtain ⟨h1, _, h3⟩ := checkItems_ok _ _ _ hc
    rw [h1] at hp hq
    simp only [List.mem_map, Item.ip.injEq, exists_eq_right] at hp hq
    exact absurd (h3 p hp q hq) hne

example : Distinct (mkFrags [(IP.fresh, [1, 2, 3, 4, 5, 6, 7, 8]), ({ IP.fresh with ttl := 3 }, [9])] 0) ∧
    SameId (mkFrags [(IP.fresh, [1, 2, 3, 4, 5, 6, 7, 8]), ({ IP.fresh with ttl := 3 }, [9])] 0) := by
  constructor
  · simp [Distinct, mkFrags]
  · intro a ha b hb
    simp [mkFrags] at ha hb
    rcases ha with rfl | rfl <;> rcases hb with rfl | rfl <;> rfl

/-! ### added by the rev2 review -/

/-- the general form behind `combine_cut`: ANY list of fragments with one identification whose offsets are strictly
    ascending, supplied in ANY order, reassembles to the concatenation of their payloads in offset order with the
    lowest fragment's header fields -/
theorem combine_sorted_perm (s l : List IP) (hs : s.Pairwise fun a b => a.fragment_offset < b.fragment_offset)
    (hid : SameId s) (hperm : l.Perm s) : combine (l.map .ip) = .ok (combineSorted s) := by
  have hdist : Distinct s := List.Pairwise.imp (fun h => Nat.ne_of_lt h) hs
  have hdl : Distinct l := (List.Perm.pairwise_iff (fun h => Ne.symm h) hperm.symm).1 hdist
  rw [combine_ok l (SameId_perm hperm.symm hid), sortFrags_perm hperm hdl, sortFrags_sorted _ hs]

/-- **cut at 8-byte boundaries, offsets in 8-byte units** (what an IPv4 header carries; `combine_cut` above numbers the
    fragments by BYTE offset): the fragments of a payload cut at positive multiples of 8 — every piece but the last a
    positive multiple of 8 bytes long — with `fragment_offset = byte offset / 8`, supplied in ANY order, reassemble to
    the payload with the first fragment's header fields and cleared fragmentation fields -/
theorem combine_cut8 (h0 : IP) (p0 : Bytes) (rest : List (IP × Bytes)) (l : List IP)
    (h8 : ∀ hp ∈ ((h0, p0) :: rest).dropLast, 0 < hp.2.length ∧ hp.2.length % 8 = 0)
    (hid : SameId (mkFrags8 ((h0, p0) :: rest) 0))
    (hperm : l.Perm (mkFrags8 ((h0, p0) :: rest) 0)) :
    ∃ c, combine (l.map .ip) = .ok c ∧
      c.payload = p0 ++ (rest.map (·.2)).flatten ∧
      c.srcip = h0.srcip ∧ c.dstip = h0.dstip ∧ c.protocol = h0.protocol ∧ c.version = h0.version ∧
      c.ihl = h0.ihl ∧ c.dscp = h0.dscp ∧ c.ident = h0.ident ∧ c.ttl = h0.ttl ∧
      c.flags = 0 ∧ c.fragment_offset = 0 := by
  refine ⟨_, combine_sorted_perm _ l (mkFrags8_sorted _ 0 h8) hid hperm, ?_⟩
  have hp := mkFrags8_payload ((h0, p0) :: rest) 0
  simp only [combineSorted, hp]
  simp [mkFrags8]

/-- non-vacuity: a 19-byte payload cut 8 + 8 + 3, the three fragments (own TTLs, one identification) supplied in the
    order 3rd, 1st, 2nd; their wire offsets are 0, 1, 2 -/
example :
    let parts : List (IP × Bytes) := [({ IP.fresh with ident := 0 }, [1, 2, 3, 4, 5, 6, 7, 8]),
      ({ IP.fresh with ident := 0, ttl := 3 }, [9, 10, 11, 12, 13, 14, 15, 16]), ({ IP.fresh with ident := 0, ttl := 4 }, [17, 18, 19])]
    (∀ hp ∈ parts.dropLast, 0 < hp.2.length ∧ hp.2.length % 8 = 0) ∧ SameId (mkFrags8 parts 0) ∧
    (mkFrags8 parts 0).map (·.fragment_offset) = [0, 1, 2] ∧
    ((mkFrags8 parts 0).rotateRight 1).Perm (mkFrags8 parts 0) := by
  refine ⟨by decide, ?_, by decide, ?_⟩
  · intro a ha b hb
    simp [mkFrags8] at ha hb
    rcases ha with rfl | rfl | rfl <;> rcases hb with rfl | rfl | rfl <;> rfl
  · simp only [List.rotateRight]
    exact (List.perm_append_comm)

/-- the hypothesis `Distinct` of `combine_perm` cannot be dropped: two fragments with the SAME offset and different
    payloads reassemble differently in the two orders (the sort is stable) -/
example :
    let a : IP := { IP.fresh with payload := [1] }
    let b : IP := { IP.fresh with payload := [2] }
    [a, b].Perm [b, a] ∧
    (match combine ([a, b].map .ip), combine ([b, a].map .ip) with
     | .ok x, .ok y => x.payload != y.payload
     | _, _ => false) = true :=
  ⟨List.Perm.swap _ _ _, by decide⟩

/-- non-vacuity of `combine_cut` (byte offsets): the pieces, the identification and a non-trivial arrival order -/
example :
    let parts : List (IP × Bytes) := [(IP.fresh, [1, 2, 3, 4, 5, 6, 7, 8]), ({ IP.fresh with ttl := 3 }, [9])]
    (∀ hp ∈ parts.dropLast, hp.2 ≠ []) ∧ SameId (mkFrags parts 0) ∧ ((mkFrags parts 0).reverse).Perm (mkFrags parts 0) := by
  refine ⟨by decide, ?_, List.reverse_perm _⟩
  intro a ha b hb
  simp [mkFrags] at ha hb
  rcases ha with rfl | rfl <;> rcases hb with rfl | rfl <;> rfl

/-- non-vacuity of the refusal statements: a foreign element after a fragment; identification 0 against 1 -/
example : Item.other ∈ [Item.ip IP.fresh, Item.other] ∧
    Item.ip { IP.fresh with ident := 0 } ∈ [Item.ip { IP.fresh with ident := 0 }, Item.ip { IP.fresh with ident := 1 }] ∧
    Item.ip { IP.fresh with ident := 1 } ∈ [Item.ip { IP.fresh with ident := 0 }, Item.ip { IP.fresh with ident := 1 }] ∧
    ({ IP.fresh with ident := 0 } : IP).ident ≠ ({ IP.fresh with ident := 1 } : IP).ident := by decide

end Acra.Props.C16
