import Acra.Model.NPD
import Acra.Lemmas.Bits
import Acra.Lemmas.NPDRS232
namespace Acra.Props.C13
open Acra.Py Acra.Model.NPD Acra.Gen.NPD Acra.Lemmas.Bits

/-- `NPDSegment.pack` (every class but RS232Segment) reads the fields and writes none -/
theorem NPDSegment_pack_preserves_fields (g : Seg) (hk : g.kind ≠ .rs232) : (Seg.pack g).1 = g := by
  cases hkk : g.kind <;> simp_all [Seg.pack]

theorem setPayload_idem (g : Seg) (b : Bytes) : (g.setPayload b).setPayload b = g.setPayload b := rfl

/-- `RS232Segment.pack` rewrites the status word (count of sync bytes in the low three bits), the payload
    and `segmentlen`; with at most seven sync bytes a second call changes nothing more -/
theorem Segment_pack_idempotent (g : Seg) (h : g.kind = .rs232 → g.sync_bytes.length < 8) :
    Seg.pack (Seg.pack g).1 = Seg.pack g := by
  by_cases hk : g.kind = .rs232
  · have hn := h hk
    have hbs : ((g.block_status &&& 0xFFF8) + g.sync_bytes.length &&& 0xFFF8) + g.sync_bytes.length =
        (g.block_status &&& 0xFFF8) + g.sync_bytes.length := by
      rw [and_FFF8, and_FFF8]; omega
    have hp : ∀ s : Seg, s.kind = .rs232 → Seg.pack s = s.packRS232 := by
      intro s hs; simp only [Seg.pack, hs]
    rw [hp g hk]
    have hk1 : (g.packRS232).1.kind = .rs232 := by
      simp only [Seg.packRS232]
      repeat' split
      all_goals simp [Seg.setPayload, hk]
    rw [hp _ hk1]
    simp only [Seg.packRS232]
    cases h1 : structPack RS232Segment_pack_fmt0 [(g.block_status &&& 0xFFF8) + g.sync_bytes.length] with
    | error e => simp only [hbs, h1]
    | ok hh =>
      cases h2 : packSync g.sync_bytes with
      | error e => simp only [Seg.setPayload, hbs, h1, h2]
      | ok sb => simp only [Seg.setPayload, hbs, h1, h2]
  · rw [NPDSegment_pack_preserves_fields g hk]

/-- non-vacuity: an RS-232 segment with two sync bytes, a full status word and one data byte satisfies the bound and packs -/
example :
    let g : Seg := { Seg.fresh .rs232 with block_status := 0xFFFF, sync_bytes := [1, 2], data := [9] }
    (g.kind = .rs232 → g.sync_bytes.length < 8) ∧ ∃ b, (Seg.pack g).2 = .ok b ∧ b.length = 16 :=
  ⟨fun _ => by decide, _, rfl, rfl⟩

/-- with eight sync bytes (the count does not fit its three bits) a second `pack` returns other bytes:
    0x0008 becomes 0x0010 in the status word -/
example : (match (Seg.pack (Seg.pack { Seg.fresh .rs232 with sync_bytes := [0, 0, 0, 0, 0, 0, 0, 0] }).1).2,
      (Seg.pack { Seg.fresh .rs232 with sync_bytes := [0, 0, 0, 0, 0, 0, 0, 0] }).2 with
    | .ok second, .ok first => first != second
    | _, _ => false) = true := by decide

/-- exactly when: `RS232Segment.pack` called twice leaves the object and returns the result of calling it once
    ⇔ the segment has at most seven sync bytes (for any list shorter than 2¹⁶; in general the condition is on
    the count mod 2¹⁶ — with 65 536 sync bytes both calls raise `struct.error` from the same state) -/
theorem RS232Segment_pack_idempotent_iff (g : Seg) (hk : g.kind = .rs232) (hn : g.sync_bytes.length < 65536) :
    Seg.pack (Seg.pack g).1 = Seg.pack g ↔ g.sync_bytes.length ≤ 7 := by
  have hp : ∀ s : Seg, s.kind = .rs232 → Seg.pack s = s.packRS232 := by
    intro s hs; simp only [Seg.pack, hs]
  have hk1 : (g.packRS232).1.kind = .rs232 := (Lemmas.NPD.packRS232_fields g).2.2.trans hk
  rw [hp g hk, hp _ hk1, Lemmas.NPD.packRS232_idem_iff]
  omega

/-- the same without the bound on the list: the count mod 2¹⁶ decides -/
theorem RS232Segment_pack_idempotent_iff_mod (g : Seg) (hk : g.kind = .rs232) :
    Seg.pack (Seg.pack g).1 = Seg.pack g ↔ g.sync_bytes.length % 65536 ≤ 7 := by
  have hp : ∀ s : Seg, s.kind = .rs232 → Seg.pack s = s.packRS232 := by
    intro s hs; simp only [Seg.pack, hs]
  have hk1 : (g.packRS232).1.kind = .rs232 := (Lemmas.NPD.packRS232_fields g).2.2.trans hk
  rw [hp g hk, hp _ hk1, Lemmas.NPD.packRS232_idem_iff]

/-- a segment that `pack` accepts has fewer than 2¹⁶ sync bytes, so for it the iff needs no side condition -/
theorem RS232Segment_pack_idempotent_iff_of_ok (g : Seg) (hk : g.kind = .rs232) (b : Bytes) (hb : (Seg.pack g).2 = .ok b) :
    Seg.pack (Seg.pack g).1 = Seg.pack g ↔ g.sync_bytes.length ≤ 7 := by
  apply RS232Segment_pack_idempotent_iff g hk
  have hp : Seg.pack g = g.packRS232 := by simp only [Seg.pack, hk]
  rw [hp] at hb
  simp only [Seg.packRS232] at hb
  cases h1 : structPack RS232Segment_pack_fmt0 [(g.block_status &&& 0xFFF8) + g.sync_bytes.length] with
  | error e => rw [h1] at hb; cases hb
  | ok hh =>
    have := (structPack_ok_iff RS232Segment_pack_fmt0 _).1 ⟨hh, h1⟩
    simp [Fits, RS232Segment_pack_fmt0, Code.bound] at this
    omega

/-- the eight-sync-byte counterexample, as an instance of the iff's right-to-left failure: the results differ -/
example : Seg.pack (Seg.pack { Seg.fresh .rs232 with sync_bytes := [0, 0, 0, 0, 0, 0, 0, 0] }).1 ≠
    Seg.pack { Seg.fresh .rs232 with sync_bytes := [0, 0, 0, 0, 0, 0, 0, 0] } := by
  rw [Ne, RS232Segment_pack_idempotent_iff _ rfl (by decide)]
  decide

/-- and seven are fine -/
example : Seg.pack (Seg.pack { Seg.fresh .rs232 with sync_bytes := [1, 2, 3, 4, 5, 6, 7] }).1 =
    Seg.pack { Seg.fresh .rs232 with sync_bytes := [1, 2, 3, 4, 5, 6, 7] } :=
  (RS232Segment_pack_idempotent_iff _ rfl (by decide)).2 (by decide)

theorem packSegs_idem (gs : List Seg) (h : ∀ g ∈ gs, g.kind = .rs232 → g.sync_bytes.length < 8) :
    packSegs (packSegs gs).1 = packSegs gs := by
  induction gs with
  | nil => rfl
  | cons b bs ih =>
    have hb := Segment_pack_idempotent b (h b (by simp))
    have ih := ih (fun g hg => h g (by simp [hg]))
    cases hp : b.pack with
    | mk b' r =>
      rw [hp] at hb
      simp only at hb
      cases r with
      | error e => simp only [packSegs, hp, hb]
      | ok x =>
        cases hq : packSegs bs with
        | mk bs' r2 =>
          rw [hq] at ih
          simp only at ih
          cases r2 with
          | ok y => simp only [packSegs, hp, hq, hb, ih]
          | error e => simp only [packSegs, hp, hq, hb, ih]

/-- `NPD.pack` depends only on the fields (RS-232 segments with at most seven sync bytes): a second
    call returns the same result and leaves `packetlen` and every segment as the first call left them -/
theorem NPD_pack_idempotent (s : State) (h : ∀ g ∈ s.segments, g.kind = .rs232 → g.sync_bytes.length < 8) :
    pack (pack s).1 = pack s := by
  have hi := packSegs_idem s.segments h
  cases hm : s.mcastaddr with
  | none => simp only [pack, hm]
  | some mc =>
    cases hp : packSegs s.segments with
    | mk gs r =>
      rw [hp] at hi
      simp only at hi
      cases r with
      | error e => simp only [pack, hm, hp, hi]
      | ok pl =>
        cases hd : s.datatype with
        | none => simp only [pack, hm, hp, hd, hi]
        | some dt =>
          cases ht : s.timestamp with
          | none => simp only [pack, hm, hp, hd, ht, hi]
          | some ts =>
            cases hs : structPack NPD_HEADER_FORMAT [(s.version <<< 4) + s.hdrlen, dt, (NPD_HEADER_LENGTH + pl.length) / 4,
                s.cfgcnt, s.flags, s.sequence, s.datasrcid, mc, ts] with
            | ok hb => simp only [pack, hm, hp, hd, ht, hi, hs]
            | error e => simp only [pack, hm, hp, hd, ht, hi, hs]

/-- the attributes an object of the class has: the typed attributes of the other classes do not exist on it -/
def view (s : Seg) : Seg :=
  match s.kind with
  | .acq => { s with block_status := 0, sync_bytes := [], data := [], blockstatus := 0, gap1 := 0, gap2 := 0 }
  | .rs232 => { s with sfid := 0, cal := 0, words := [], blockstatus := 0, gap1 := 0, gap2 := 0 }
  | .mil1553 => { s with sfid := 0, cal := 0, words := [], block_status := 0, sync_bytes := [] }
  | _ => { s with sfid := 0, cal := 0, words := [], block_status := 0, sync_bytes := [], data := [],
                  blockstatus := 0, gap1 := 0, gap2 := 0 }

/-- a successful segment unpack leaves every attribute of the object as a new object of the same class
    would have it -/
theorem Segment_unpack_state_independent (t u : Seg) (buf r : Bytes) (hk : t.kind = u.kind)
    (h : (Seg.unpack t buf).2 = .ok r) :
    (Seg.unpack t buf).2 = (Seg.unpack u buf).2 ∧ view (Seg.unpack t buf).1 = view (Seg.unpack u buf).1 := by
  revert h
  simp only [Seg.unpack, Seg.unpackBase, hk]
  cases hh : structUnpackFrom NPD_SEGMENT_HDR_FORMAT buf 0 with
  | error e => simp
  | ok vs =>
    match vs with
    | [td, sl, ec, fl] =>
      simp only
      cases hku : u.kind <;> simp only [Seg.setPayload]
      · simp [view]
      · -- ACQ
        simp only [Seg.unpackACQ]
        cases h1 : structUnpackFrom ACQSegment_unpack_fmt0 (slice buf NPD_SEGMENT_HDR_LEN sl) 0 with
        | error e => simp
        | ok v1 =>
          rcases v1 with _ | ⟨a, _ | ⟨b, _ | ⟨c, _ | ⟨d, v⟩⟩⟩⟩
          · simp
          · simp
          · simp
          · simp only
            cases h2 : structUnpackFrom (ACQSegment_unpack_fmt1 (((slice buf NPD_SEGMENT_HDR_LEN sl).length - 4) / 2))
                (slice buf NPD_SEGMENT_HDR_LEN sl) 4 with
            | error e => simp
            | ok ws => simp [view]
          · simp
      · simp [view]
      · simp [view]
      · -- RS232
        simp only [Seg.unpackRS232]
        cases h1 : structUnpackFrom RS232Segment_unpack_fmt0 (slice buf NPD_SEGMENT_HDR_LEN sl) 0 with
        | error e => simp
        | ok v1 =>
          rcases v1 with _ | ⟨a, _ | ⟨b, v⟩⟩
          · simp
          · simp only
            by_cases hc : a &&& BSL_SYNC_COUNT_MASK > 0
            · simp only [hc, if_true]
              cases h2 : structUnpackFrom (RS232Segment_unpack_fmt1 (a &&& BSL_SYNC_COUNT_MASK))
                  (List.drop 2 (slice buf NPD_SEGMENT_HDR_LEN sl)) 0 with
              | error e => simp
              | ok sb => simp [view]
            · simp [hc, view]
          · simp
      · -- MIL-STD-1553
        simp only [Seg.unpack1553]
        cases h1 : structUnpackFrom MIL1553Segment_unpack_fmt0 (slice buf NPD_SEGMENT_HDR_LEN sl) 0 with
        | error e => simp
        | ok v1 =>
          rcases v1 with _ | ⟨a, _ | ⟨b, _ | ⟨c, _ | ⟨d, v⟩⟩⟩⟩
          · simp
          · simp
          · simp
          · simp [view]
          · simp
    | [] | [_] | [_, _] | [_, _, _] | _ :: _ :: _ :: _ :: _ :: _ => simp

/-- non-vacuity: an RS-232 segment object holding three stale sync bytes decodes a 16-byte segment (two sync bytes)
    followed by one more byte -/
example :
    let t : Seg := { Seg.fresh .rs232 with sync_bytes := [7, 7, 7], data := [1, 2], timedelta := 5 }
    let u : Seg := Seg.fresh .rs232
    t.kind = u.kind ∧
    (Seg.unpack t [0, 0, 0, 0, 0, 13, 0, 0, 255, 250, 1, 2, 9, 255, 255, 255, 0xEE]).2 = .ok [0xEE] ∧
    (Seg.unpack t [0, 0, 0, 0, 0, 13, 0, 0, 255, 250, 1, 2, 9, 255, 255, 255, 0xEE]).1.sync_bytes = [1, 2] :=
  ⟨rfl, rfl, rfl⟩

/-- a successful `NPD.unpack` leaves the object in the state a new object would be in: every header
    attribute and the segment list are rebuilt from the bytes -/
theorem NPD_unpack_state_independent (t u : State) (buf : Bytes) (h : (unpack t buf).2 = .ok ()) :
    unpack t buf = unpack u buf := by
  revert h
  simp only [unpack]
  repeat' split
  all_goals simp

/-- non-vacuity (`packSegs_idem`, `NPD_pack_idempotent`, `NPD_unpack_state_independent`): a packet with one 4-byte
    segment packs to 32 bytes; an object that holds two stale segments decodes it and ends with one -/
example :
    let a : State := { fresh with datatype := some 0xD0, mcastaddr := some 0xEB000001, timestamp := some 7,
                                  segments := [{ Seg.fresh .base with timedelta := 3, payload := [1, 2, 3, 4], segmentlen := 12 }] }
    let t : State := { fresh with sequence := 9, segments := [Seg.fresh .rs232, Seg.fresh .acq] }
    (∀ g ∈ a.segments, g.kind = .rs232 → g.sync_bytes.length < 8) ∧
    ∃ b, (pack a).2 = .ok b ∧ b.length = 32 ∧ (unpack t b).2 = .ok () ∧ (unpack t b).1.segments.length = 1 :=
  ⟨by decide, _, rfl, rfl, rfl, rfl⟩

end Acra.Props.C13
