import Acra.Lemmas.Ch11MIL1553
namespace Acra.Props.C13
open Acra.Py Acra.Model.Ch11Pay Acra.Model.Ch11Pay.MIL1553 Acra.Gen.Ch11MIL1553 Acra.Lemmas.Ch11MIL1553 Acra.Lemmas.Ch11Pay

/-- a message decoder configured for the same kind of time stamp gives the same result whatever the
    object held before -/
theorem MILMsg_unpack_state_independent (t u : Msg) (buf : Bytes) (hk : sameKind t.ipts u.ipts)
    (h : ∃ n, (Msg.unpack t buf).2 = .ok n) : Msg.unpack t buf = Msg.unpack u buf := by
  obtain ⟨n, h⟩ := h
  revert h
  simp only [Msg.unpack, Ipts_unpack_congr _ _ _ hk]
  repeat' split
  all_goals simp_all

/-- non-vacuity (also of `MILMsg_pack_idempotent`): a message with RTC stamp and three data bytes packs, and a used
    message object of the same time-stamp kind decodes it -/
example :
    let a : Msg := ⟨.rtc 77, 0xFFFF, 3, 0, [1, 2, 3]⟩
    let t : Msg := ⟨.rtc 5, 1, 1, 9, [7, 7]⟩
    sameKind t.ipts (Msg.fresh (.rtc 0)).ipts ∧
    ∃ b, a.pack.2 = .ok b ∧ b.length = 17 ∧ (Msg.unpack t b).2 = .ok 17 ∧ (Msg.unpack t b).1 = a.pack.1 :=
  ⟨by simp [sameKind, Msg.fresh], _, rfl, rfl, rfl, rfl⟩

/-- `pack()` of a message only sets `length`; calling it again changes nothing -/
theorem MILMsg_pack_idempotent (m : Msg) (b : Bytes) (h : m.pack.2 = .ok b) : m.pack.1.pack = m.pack := by
  revert h
  simp only [Msg.pack]
  cases hi : m.ipts.pack with
  | error e => simp
  | ok ts =>
    simp only
    cases hs : structPack MSG_pack_fmt0 [m.blockstatus, m.gaptimes, m.message.length] with
    | error e => simp
    | ok hd => simp [hi, hs]

theorem packMsgs_idempotent (ms : List Msg) (b : Bytes) (h : (packMsgs ms).2 = .ok b) :
    packMsgs (packMsgs ms).1 = packMsgs ms := by
  induction ms generalizing b with
  | nil => rfl
  | cons m ms ih =>
    revert h
    simp only [packMsgs]
    cases hm : m.pack with
    | mk m' r =>
      cases r with
      | error e => simp
      | ok bm =>
        have him := MILMsg_pack_idempotent m bm (by rw [hm])
        rw [hm] at him
        simp only at him
        cases hr : packMsgs ms with
        | mk ms' r' =>
          cases r' with
          | error e => simp
          | ok br =>
            have := ih br (by rw [hr])
            rw [hr] at this
            simp only at this
            intro _
            simp only [packMsgs, him, this]

/-- a successful `pack()` twice: identical bytes, fields as the first call left them -/
theorem MIL_pack_idempotent (p : Packet) (b : Bytes) (h : p.pack.2 = .ok b) : p.pack.1.pack = p.pack := by
  revert h
  simp only [Packet.pack]
  split
  · simp
  · rename_i hl
    cases hr : packMsgs p.messages with
    | mk ms' r =>
      cases r with
      | error e => simp
      | ok body =>
        simp only
        have hidem := packMsgs_idempotent p.messages body (by rw [hr])
        rw [hr] at hidem
        simp only at hidem
        have hlen : ms'.length = p.messages.length := by
          have : ∀ (l : List Msg), (packMsgs l).1.length = l.length := by
            intro l
            induction l with
            | nil => rfl
            | cons a l ih =>
              simp only [packMsgs]
              repeat' split
              all_goals simp_all [packMsgs]
          have := this p.messages
          rw [hr] at this
          exact this
        cases hs : structPack PKT_pack_fmt0 [1073741824 * p.ttb + p.messages.length] with
        | error e => simp
        | ok csw =>
          intro _
          simp only [hlen, hl, if_false, hidem, hs]

/-- a successful unpack leaves an object with the same `ipts_source` option exactly as it would leave a new one -/
theorem MIL_unpack_state_independent (t u : Packet) (buf : Bytes) (ho : t.ipts_source = u.ipts_source)
    (h : (Packet.unpack t buf).2 = .ok ()) :
    (Packet.unpack t buf).1 = { (Packet.unpack u buf).1 with ipts_source := t.ipts_source } ∧
    (Packet.unpack u buf).2 = .ok () := by
  have hp : t.proto = u.proto := by simp [Packet.proto, ho]
  revert h
  simp only [Packet.unpack, hp]
  repeat' split
  all_goals simp_all

/-- non-vacuity (of `packMsgs_idempotent`, `MIL_pack_idempotent`, `MIL_unpack_state_independent`): a two-message
    packet packs; a used packet object with the same time-stamp source decodes it and ends with two messages -/
example :
    let p : Packet := { messages := [⟨.rtc 1, 0, 0, 0, []⟩, ⟨.rtc 77, 0xFFFF, 3, 0, [1, 2, 3]⟩], msgcount := 2, ttb := 3,
                        ipts_source := some 0 }
    let t : Packet := { messages := [⟨.rtc 5, 1, 1, 2, [7, 7]⟩], msgcount := 1, ttb := 1, ipts_source := some 0 }
    ∃ b, p.pack.2 = .ok b ∧ b.length = 35 ∧ (packMsgs p.messages).2 = .ok (b.drop 4) ∧
      (Packet.unpack t b).2 = .ok () ∧ (Packet.unpack t b).1.messages.length = 2 :=
  ⟨_, rfl, rfl, rfl, rfl, rfl⟩

end Acra.Props.C13
