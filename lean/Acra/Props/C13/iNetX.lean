import Acra.Model.iNetX
namespace Acra.Props.C13
open Acra.Py Acra.Model.iNetX Acra.Gen.iNetX

/-- the only field pack writes is the computed length -/
theorem iNetX_pack_preserves_fields (s : State) :
    (pack s).1 = { s with packetlen := s.payload.length + iNetX_INETX_HEADER_LENGTH } := by
  simp only [pack]; split <;> rfl

/-- pack depends only on the fields: a second call returns the same bytes and leaves every field
    as the first call left it (for every state, also when pack raises) -/
theorem iNetX_pack_idempotent (s : State) : pack (pack s).1 = pack s := by
  rw [iNetX_pack_preserves_fields]
  rfl

/-- unpack depends only on the bytes: whatever state the object was in, a successful unpack leaves
    it in the state a fresh object would be in -/
theorem iNetX_unpack_state_independent (t : State) (buf : Bytes) (h : (unpack t buf).2 = .ok ()) :
    unpack t buf = unpack fresh buf := by
  revert h
  simp only [unpack]
  split
  · simp
  · split <;> simp_all
    split <;> simp_all

/-- non-vacuity: a used object decodes a 30-byte packet -/
example :
    let a : State := { fresh with streamid := 0xDC, payload := [5, 0] }
    let t : State := { fresh with sequence := 9, payload := [1, 2, 3] }
    ∃ b, (pack a).2 = .ok b ∧ b.length = 30 ∧ (unpack t b).2 = .ok () ∧ (unpack t b).1.payload = [5, 0] :=
  ⟨_, rfl, rfl, rfl, rfl⟩

end Acra.Props.C13
