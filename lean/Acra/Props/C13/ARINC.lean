import Acra.Lemmas.Ch11ARINC
namespace Acra.Props.C13
open Acra.Py Acra.Model.Ch11Pay Acra.Model.Ch11Pay.ARINC Acra.Gen.Ch11ARINC Acra.Lemmas.Ch11ARINC

/-- the word decoder sets every field: a successful unpack does not depend on the prior state -/
theorem ARINCWord_unpack_state_independent (t u : Word) (buf : Bytes) (h : (Word.unpack t buf).2 = .ok ()) :
    Word.unpack t buf = Word.unpack u buf := by
  revert h
  simp only [Word.unpack]
  repeat' split
  all_goals simp_all

theorem ARINC_pack_preserves_fields (p : Packet) : p.pack.1 = { p with msgcount := p.arincwords.length } := by
  simp only [Packet.pack]; repeat' split
  all_goals rfl

/-- `pack()` twice: same bytes, fields as the first call left them (`msgcount` = number of words) -/
theorem ARINC_pack_idempotent (p : Packet) : p.pack.1.pack = p.pack := by
  rw [ARINC_pack_preserves_fields]; rfl

/-- a successful unpack leaves the object exactly as it would leave a new one -/
theorem ARINC_unpack_state_independent (t u : Packet) (buf : Bytes) (h : (Packet.unpack t buf).2 = .ok ()) :
    Packet.unpack t buf = Packet.unpack u buf := by
  revert h
  simp only [Packet.unpack]
  repeat' split
  all_goals simp_all

end Acra.Props.C13
