import Acra.Lemmas.Ch11ARINC
namespace Acra.Props.C13
open Acra.Py Acra.Model.Ch11Pay Acra.Model.Ch11Pay.ARINC Acra.Gen.Ch11ARINC Acra.Lemmas.Ch11ARINC

/-- the word decoder sets every field: a successful unpack does not depend on the prior state -/
theorem ARINCWord_unpack_state_independent (t u : Word) (buf : Bytes) (h : (Word.unpack t buf).2 = .ok ()) :
    Word.unpack t buf = Word.unpack u buf := by
  revert h
  simp only [Word.unpack]
  repeat' split
  all_goals simp_all

/-- non-vacuity: a word object whose every field is set decodes an 8-byte word successfully -/
example : (Word.unpack ⟨1, true, true, 1, 9, [9, 9, 9, 9]⟩ [0x0E, 0x10, 0x80, 200, 1, 2, 3, 4]).2 = .ok () := rfl

theorem ARINC_pack_preserves_fields (p : Packet) : p.pack.1 = { p with msgcount := p.arincwords.length } := by
  simp only [Packet.pack]; repeat' split
  all_goals rfl

/-- `pack()` twice: same bytes, fields as the first call left them (`msgcount` = number of words) -/
theorem ARINC_pack_idempotent (p : Packet) : p.pack.1.pack = p.pack := by
  rw [ARINC_pack_preserves_fields]; rfl

/-- a successful unpack leaves the object exactly as it would leave a new one -/
theorem ARINC_unpack_state_independent (t u : Packet) (buf : Bytes) (h : (Packet.unpack t buf).2 = .ok ()) :
    Packet.unpack t buf = Packet.unpack u buf := by
  revert h
  simp only [Packet.unpack]
  repeat' split
  all_goals simp_all

/-- non-vacuity: a packet object that already holds a word (and a stale count) decodes the encoding of a
    two-word packet successfully, and ends with exactly the two words -/
example :
    let a : Packet := ⟨0, [⟨4110, true, false, 1, 200, [1, 2, 3, 4]⟩, ⟨0, false, true, 0, 0, [0, 0, 0, 0]⟩]⟩
    let t : Packet := ⟨7, [⟨1, false, false, 0, 9, [9, 9, 9, 9]⟩]⟩
    ∃ b, a.pack.2 = .ok b ∧ b.length = 20 ∧ (Packet.unpack t b).2 = .ok () ∧
      (Packet.unpack t b).1.arincwords = a.arincwords :=
  ⟨_, rfl, rfl, rfl, rfl⟩

end Acra.Props.C13
