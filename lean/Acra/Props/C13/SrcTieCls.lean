import Acra.Gen.Src.Cls.iNetX
import Acra.Lemmas.SrcTieCls
namespace Acra.Props.C13
open Acra Acra.Py Acra.Lemmas.SrcTieCls

/-! Method source ties (C13), stated DIRECTLY on the methods regenerated from the current Python source
    (`Acra.Gen.Src.Cls.iNetX`, `harness/translate_methods.py`), for every object — no model in between, no domain
    restriction (Python ints as `Int`). -/

/-- the only attribute `iNetX.pack` writes is the computed length, also when it raises -/
theorem src_iNetX_pack_writes_only_packetlen (o : Gen.Src.Cls.iNetX.Obj) :
    (Gen.Src.Cls.iNetX.pack o).1 = { o with packetlen := (o.payload.length : Int) + 28 } := by
  unfold Gen.Src.Cls.iNetX.pack
  dsimp only
  split <;> rfl

/-- `iNetX.pack` depends only on the attributes: a second call returns the same result and leaves the object as the
    first call left it -/
theorem src_iNetX_pack_idempotent (o : Gen.Src.Cls.iNetX.Obj) :
    Gen.Src.Cls.iNetX.pack (Gen.Src.Cls.iNetX.pack o).1 = Gen.Src.Cls.iNetX.pack o := by
  rw [src_iNetX_pack_writes_only_packetlen]
  rfl

/-- `iNetX.unpack` depends only on the bytes: an accepted buffer leaves any two objects in the same state -/
theorem src_iNetX_unpack_state_independent (o o' : Gen.Src.Cls.iNetX.Obj) (buf : Bytes)
    (h : (Gen.Src.Cls.iNetX.unpack o buf).2 = .ok true) :
    Gen.Src.Cls.iNetX.unpack o buf = Gen.Src.Cls.iNetX.unpack o' buf := by
  revert h
  unfold Gen.Src.Cls.iNetX.unpack
  split
  · simp
  · split
    · simp
    · dsimp only; split <;> simp

example : (Gen.Src.Cls.iNetX.unpack
    { inetxcontrol := 0, streamid := 9, sequence := 0, packetlen := 0, ptptimeseconds := 0,
      ptptimenanoseconds := 0, pif := 0, payload := [1, 2, 3] }
    ([0x11,0,0,0, 0,0,0,0xDC, 0,0,0,1, 0,0,0,30, 0,0,0,5, 0,0,0,6, 0,0,0,0] ++ [7,8])).2 = .ok true := by rfl

end Acra.Props.C13
