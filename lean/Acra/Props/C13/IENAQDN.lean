import Acra.Model.IENAQDN
import Acra.Props.C13.IENA
namespace Acra.Props.C13
open Acra.Py Acra.Model.IENA Acra.Gen.IENA

theorem IENAQ_pack_idempotent (s : QState) : QState.pack (QState.pack s).1 = QState.pack s := by
  cases h : encAllQ s.parameters with
  | error e => simp [QState.pack, h]
  | ok pl =>
    have h1 : QState.pack s = ({ s with base := (Base.pack { s.base with payload := pl }).1 },
        (Base.pack { s.base with payload := pl }).2) := by
      simp [QState.pack, h]
    rw [h1]
    simp only [QState.pack, h, IENA_pack_preserves_fields]
    rfl

/-- IENA-Q: the state after a successful unpack does not depend on what the object held -/
theorem IENAQ_unpack_state_independent (t u : QState) (buf : Bytes)
    (ho : t.base.lengthError = u.base.lengthError)
    (h : (QState.unpack t buf).2 = .ok ()) : QState.unpack t buf = QState.unpack u buf := by
  revert h
  simp only [QState.unpack]
  cases hb : Base.unpack t.base buf with
  | mk b r =>
    cases r with
    | error e => simp
    | ok x =>
      have hb2 := IENA_unpack_state_independent t.base u.base buf ho (by rw [hb])
      rw [← hb2, hb]
      intro _
      rfl

example :
    let a : QState := { QState.fresh with parameters := [⟨1, [0xAA, 0xBB, 0xCC]⟩, ⟨3, []⟩] }
    let t : QState := { QState.fresh with parameters := [⟨9, [1]⟩] }
    ∃ b, (QState.pack a).2 = .ok b ∧ b.length = 28 ∧ (QState.unpack t b).2 = .ok () ∧
      (QState.unpack t b).1.parameters = a.parameters :=
  ⟨_, rfl, rfl, rfl, rfl⟩

/-- IENA-D has no pack of its own: `IENA.pack` of the payload bytes; the only field written is `size` -/
theorem IENAD_pack_idempotent (s : DState) : DState.pack (DState.pack s).1 = DState.pack s := by
  simp only [DState.pack, IENA_pack_idempotent]

theorem IENAD_pack_preserves_parameters (s : DState) : (DState.pack s).1.parameters = s.parameters := rfl

theorem IENAD_unpack_state_independent (t u : DState) (buf : Bytes)
    (ho : t.base.lengthError = u.base.lengthError)
    (h : (DState.unpack t buf).2 = .ok ()) : DState.unpack t buf = DState.unpack u buf := by
  revert h
  simp only [DState.unpack]
  cases hb : Base.unpack t.base buf with
  | mk b r =>
    cases r with
    | error e => simp
    | ok x =>
      have hb2 := IENA_unpack_state_independent t.base u.base buf ho (by rw [hb])
      rw [← hb2, hb]
      intro _
      rfl

/-- non-vacuity: key status 0x1A (two data words per parameter), two parameters, decoded into a used object -/
example :
    let t : DState := { DState.fresh with parameters := [⟨9, 9, [1]⟩] }
    let b : Bytes := [0, 0, 0, 16, 0, 0, 0, 0, 0, 0, 26, 0, 0, 0, 0, 1, 0, 2, 0, 3, 0, 4, 0, 5, 0, 6, 0, 7, 255, 255, 222, 173]
    (DState.unpack t b).2 = .ok () ∧ (DState.unpack t b).1.parameters = [⟨1, 2, [3, 4]⟩, ⟨5, 6, [7, 65535]⟩] :=
  ⟨rfl, rfl⟩

theorem IENAN_pack_idempotent (s : NState) : NState.pack (NState.pack s).1 = NState.pack s := by
  simp only [NState.pack, IENA_pack_idempotent]

theorem IENAN_unpack_state_independent (t u : NState) (buf : Bytes)
    (ho : t.base.lengthError = u.base.lengthError)
    (h : (NState.unpack t buf).2 = .ok ()) : NState.unpack t buf = NState.unpack u buf := by
  revert h
  simp only [NState.unpack]
  cases hb : Base.unpack t.base buf with
  | mk b r =>
    cases r with
    | error e => simp
    | ok x =>
      have hb2 := IENA_unpack_state_independent t.base u.base buf ho (by rw [hb])
      rw [← hb2, hb]
      intro _
      rfl

example :
    let t : NState := { NState.fresh with parameters := [⟨9, [1]⟩] }
    let b : Bytes := [0, 0, 0, 12, 0, 0, 0, 0, 0, 0, 3, 0, 0, 0, 0, 1, 0, 2, 0, 3, 0, 4, 222, 173]
    (NState.unpack t b).2 = .ok () ∧ (NState.unpack t b).1.parameters = [⟨1, [2, 3, 4]⟩] :=
  ⟨rfl, rfl⟩

example : (QState.unpack { QState.fresh with parameters := [⟨9, [1]⟩] }
    [0, 5, 0, 10, 0, 0, 0, 0, 0, 0, 0, 0, 0, 0, 0, 1, 0, 0, 0xDE, 0xAD]).1.parameters = [⟨1, []⟩] := by decide

end Acra.Props.C13
