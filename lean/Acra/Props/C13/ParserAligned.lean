import Acra.Model.ParserAligned
namespace Acra.Props.C13
open Acra.Py Acra.Model.ParserAligned Acra.Gen.ParserAligned

/-- the only field `pack` writes is the computed quad-byte count (and nothing when it refuses the payload) -/
theorem ParserAlignedBlock_pack_preserves_fields (s : Block) :
    (Block.pack s).1 = s ∨ (Block.pack s).1 = { s with quadbytes := 2 + s.payload.length / 4 } := by
  simp only [Block.pack]
  repeat' split
  all_goals simp

theorem ParserAlignedBlock_pack_idempotent (s : Block) : Block.pack (Block.pack s).1 = Block.pack s := by
  simp only [Block.pack]
  by_cases h : s.payload.length % 4 ≠ 0
  · simp [h]
  · simp only [h, if_false]
    split <;> simp_all

/-- a successful unpack leaves the block in the state a fresh block would be in -/
theorem ParserAlignedBlock_unpack_state_independent (t u : Block) (buf : Bytes) (n : Nat)
    (h : (Block.unpack t buf).2 = .ok n) : Block.unpack t buf = Block.unpack u buf := by
  revert h
  simp only [Block.unpack]
  split
  · split
    · simp
    · rename_i q mc bi et _ hq
      by_cases hc : buf.length < PAB_HEADERLEN + ((q &&& 0x1FF) - 2) * 4
      · simp [hc]
      · simp [hc]
  · simp
  · simp

/-- non-vacuity: a block object holding a longer payload decodes a 12-byte block (error flag, code 63) followed by a byte -/
example :
    let a : Block := { Block.fresh with error := true, errorcode := 63, payload := [1, 2, 3, 4] }
    let t : Block := { Block.fresh with payload := [9, 9, 9, 9, 9, 9, 9, 9], quadbytes := 4 }
    ∃ b, (Block.pack a).2 = .ok b ∧ (Block.unpack t (b ++ [0xEE])).2 = .ok 12 ∧ (Block.unpack t (b ++ [0xEE])).1.payload = [1, 2, 3, 4] :=
  ⟨_, rfl, rfl, rfl⟩

theorem packBlocks_idem (bs : List Block) : packBlocks (packBlocks bs).1 = packBlocks bs := by
  induction bs with
  | nil => rfl
  | cons b bs ih =>
    have hb := ParserAlignedBlock_pack_idempotent b
    cases hp : b.pack with
    | mk b' r =>
      rw [hp] at hb
      simp only at hb
      cases r with
      | error e => simp only [packBlocks, hp, hb]
      | ok x =>
        cases hq : packBlocks bs with
        | mk bs' r2 =>
          rw [hq] at ih
          simp only at ih
          cases r2 with
          | ok y => simp only [packBlocks, hp, hq, hb, ih]
          | error e => simp only [packBlocks, hp, hq, hb, ih]

theorem ParserAlignedPacket_pack_idempotent (s : Packet) : Packet.pack (Packet.pack s).1 = Packet.pack s := by
  simp only [Packet.pack, packBlocks_idem]

/-- the decoded block list depends only on the bytes -/
theorem ParserAlignedPacket_unpack_blocks_state_independent (t u : Packet) (buf : Bytes) :
    (Packet.unpack t buf).2 = (Packet.unpack u buf).2 ∧
    (Packet.unpack t buf).1.parserblocks = (Packet.unpack u buf).1.parserblocks := by
  simp only [Packet.unpack]
  split <;> simp

/-- a successful unpack leaves the packet in the state a new object would be in: the block list and
    `numberofblocks` are both rebuilt from the bytes (the latter since the `fix:` commit that made
    `unpack` write it) -/
theorem ParserAlignedPacket_unpack_state_independent (t u : Packet) (buf : Bytes)
    (h : (Packet.unpack t buf).2 = .ok ()) : Packet.unpack t buf = Packet.unpack u buf := by
  revert h
  simp only [Packet.unpack]
  split <;> simp

theorem ParserAlignedPacket_unpack_numberofblocks (t : Packet) (buf : Bytes)
    (h : (Packet.unpack t buf).2 = .ok ()) :
    (Packet.unpack t buf).1.numberofblocks = (Packet.unpack t buf).1.parserblocks.length := by
  revert h
  simp only [Packet.unpack]
  split <;> simp

/-- non-vacuity: a packet object holding three blocks decodes a two-block packet and ends with count 2 -/
example :
    let a : Packet := { Packet.fresh with parserblocks := [{ Block.fresh with payload := [1, 2, 3, 4] }, Block.fresh] }
    let t : Packet := { Packet.fresh with parserblocks := [Block.fresh, Block.fresh, Block.fresh], numberofblocks := 3 }
    ∃ b, (Packet.pack a).2 = .ok b ∧ b.length = 20 ∧ (Packet.unpack t b).2 = .ok () ∧ (Packet.unpack t b).1.numberofblocks = 2 :=
  ⟨_, rfl, rfl, rfl, rfl⟩

example : (Packet.unpack { Packet.fresh with numberofblocks := 3 } [0, 2, 0, 0, 0, 0, 0, 0]).1 =
    (Packet.unpack Packet.fresh [0, 2, 0, 0, 0, 0, 0, 0]).1 := by decide

end Acra.Props.C13
