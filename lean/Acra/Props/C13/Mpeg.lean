import Acra.Lemmas.MPEGTS
import Acra.Model.PMT
import Acra.Model.PES
import Acra.Props.C06.MPEGTS
import Acra.Props.C06.PES
import Acra.Props.C06.STANAG
import Acra.Props.C06.PMT
namespace Acra.Props.C13
open Acra.Py Acra.Model.MPEGTS Acra.Model.PMT Acra.Model.PES Acra.Lemmas.MPEGTS

/-! `unpack` is a function of the bytes only: a successful decode into an object in an ARBITRARY prior
    state `t` leaves exactly the state a decode into any other object `u` leaves (in particular a
    fresh one).  `pack` is a function of the fields only: packing the object `pack` left behind
    returns the same bytes and leaves the same object. -/

theorem Ext_unpack_state_independent (t u : Ext) (buf : Bytes) (n : Nat) (h : (Ext.unpack t buf).2 = .ok n) :
    Ext.unpack t buf = Ext.unpack u buf := by
  revert h
  simp only [Ext.unpack]
  repeat' split
  all_goals simp_all

/-- non-vacuity: an extension object with a stale piecewise rate decodes a 4-byte extension (LTW only) -/
example : (Ext.unpack { Ext.fresh with piecewise_rate_flag := true, piecewise := [7, 7, 7] } [3, 0x9F, 1, 2, 0xEE]).2 = .ok 4 := rfl

/-- the adaptation-field decoder does not read the prior state even when it fails after the first
    two bytes (the partly assigned object is what `MPEGPacket.unpack` keeps) -/
theorem AF_unpack_state_independent (t u : AF) (buf : Bytes) (h : 2 ≤ buf.length) :
    AF.unpack t buf = AF.unpack u buf := by
  have h0 : (structUnpackFrom Acra.Gen.MPEGTS.AF_unpack_fmt0 buf 0).isOk = true := by
    rw [structUnpackFrom_ok_iff]
    simp [Acra.Gen.MPEGTS.AF_unpack_fmt0, Fmt.size, codesSize, Code.size]; omega
  simp only [AF.unpack]
  cases hu : structUnpackFrom Acra.Gen.MPEGTS.AF_unpack_fmt0 buf 0 with
  | error e => rw [hu] at h0; exact absurd h0 Bool.false_ne_true
  | ok vs =>
    have hl : vs.length = 2 := by
      simp only [structUnpackFrom] at hu
      split at hu
      · injection hu with hu; subst hu; simp [unpackCodes_length, Acra.Gen.MPEGTS.AF_unpack_fmt0]
      · simp at hu
    match vs, hl with
    | [a, b], _ => rfl

/-- non-vacuity: an adaptation field with PCR flag and a 6-byte PCR, decoded into two different used objects -/
example : (2 : Nat) ≤ ([7, 0x10, 1, 2, 3, 4, 5, 6] : Bytes).length ∧
    (AF.unpack { AF.fresh with splicing_flag := true, splice_countdown := 9 } [7, 0x10, 1, 2, 3, 4, 5, 6]).2 = .ok () ∧
    (AF.unpack { AF.fresh with splicing_flag := true, splice_countdown := 9 } [7, 0x10, 1, 2, 3, 4, 5, 6]).1.pcr = [1, 2, 3, 4, 5, 6] :=
  ⟨by decide, rfl, rfl⟩

theorem Pkt_unpack_state_independent (t u : Pkt) (buf : Bytes) (h : (Pkt.unpack t buf).2 = .ok ()) :
    Pkt.unpack t buf = Pkt.unpack u buf := by
  revert h
  simp only [Pkt.unpack]
  repeat' split
  all_goals simp_all

/-- non-vacuity: a packet object holding another PID, payload and adaptation field decodes a packet with a
    3-byte adaptation field and three payload bytes -/
example : (Pkt.unpack { Pkt.fresh with pid := 5, payload := [9], adaption_field := some AF.fresh }
    [0x47, 0, 0, 0x30, 3, 0x10, 0xAA, 0xBB, 1, 2, 3]).2 = .ok () := rfl

/-- `MPEGTS.unpack` never reads the prior state at all -/
theorem MPEGTS_unpack_state_independent (t u : TS) (buf : Bytes) : TS.unpack t buf = TS.unpack u buf := rfl

theorem PMT_unpack_state_independent (t u : PMT) (buf : Bytes) (r : Bool) (h : (PMT.unpack t buf).2 = .ok r) :
    PMT.unpack t buf = PMT.unpack u buf := by
  revert h
  simp only [PMT.unpack]
  cases hp : Pkt.unpack t.pkt buf with
  | mk p rp =>
    cases rp with
    | error e => simp
    | ok x =>
      have := Pkt_unpack_state_independent t.pkt u.pkt buf (by rw [hp])
      rw [← this, hp]
      simp only
      repeat' split
      all_goals simp_all

set_option maxRecDepth 20000 in
/-- non-vacuity: a PMT with one descriptor and two streams packs to 188 bytes; an object that already lists a
    stream decodes it -/
example :
    let a : PMT := { PMT.fresh with
      pkt := { Pkt.fresh with adaption_ctrl := 1 }, program_number := 1, pcr_pid := 0x100,
      descriptor_tags := [{ tag := some 5, data := [1, 2] }],
      streams := [{ streamtype := 0x1B, elementary_pid := 0x100, elementary_stream_descriptors := [] },
                  { streamtype := 0x0F, elementary_pid := 0x101, elementary_stream_descriptors := [9, 9, 9] }] }
    let t : PMT := { PMT.fresh with streams := [{ streamtype := 2, elementary_pid := 3, elementary_stream_descriptors := [] }] }
    ∃ b, (PMT.pack a).2 = .ok b ∧ b.length = 188 ∧ (PMT.unpack t b).2 = .ok true ∧ (PMT.unpack t b).1.streams = a.streams :=
  ⟨_, rfl, rfl, rfl, rfl⟩

theorem PES_unpack_state_independent (t u : PES) (buf : Bytes) (h : (PES.unpack t buf).2 = .ok ()) :
    PES.unpack t buf = PES.unpack u buf := by
  revert h
  simp only [PES.unpack]
  cases hp : Pkt.unpack t.pkt buf with
  | mk p rp =>
    cases rp with
    | error e => simp
    | ok x =>
      have := Pkt_unpack_state_independent t.pkt u.pkt buf (by rw [hp])
      rw [← this, hp]
      simp only
      repeat' split
      all_goals simp_all

set_option maxRecDepth 20000 in
/-- non-vacuity: the PES packet with optional header of C06 (`headerExample`, 170 data bytes), decoded into a used object -/
example : ∃ b, (PES.pack C06.headerExample).2 = .ok b ∧ b.length = 188 ∧
    (PES.unpack { PES.fresh with streamid := 9, pesdata := [1], header_data := some [7] } b).2 = .ok () :=
  ⟨_, rfl, rfl, rfl⟩

theorem STANAG_unpack_state_independent (t u : STANAG) (buf : Bytes) (h : (STANAG.unpack t buf).2 = .ok ()) :
    STANAG.unpack t buf = STANAG.unpack u buf := by
  revert h
  simp only [STANAG.unpack]
  cases hp : PES.unpack t.pes buf with
  | mk p rp =>
    cases rp with
    | error e => simp
    | ok x =>
      have := PES_unpack_state_independent t.pes u.pes buf (by rw [hp])
      rw [← this, hp]
      simp only
      repeat' split
      all_goals simp_all

set_option maxRecDepth 20000 in
/-- non-vacuity: the STANAG 4609 time-stamp packet of C06 (`stanagExample`), decoded into a used object -/
example : ∃ b, (STANAG.pack C06.stanagExample).2 = .ok b ∧ b.length = 188 ∧
    (STANAG.unpack { STANAG.fresh with stanag_counter := 9, time_us := 5 } b).2 = .ok () :=
  ⟨_, rfl, rfl, rfl⟩

/-! ### pack -/

theorem Ext_pack_idempotent (e : Ext) (h : Ext_WF e) : Ext.pack (Ext.pack e).1 = Ext.pack e := by
  rw [Ext_pack_eq e h, Ext_pack_eq _ (Ext_packed_WF e h)]
  rfl

example : Ext_WF { Ext.fresh with ltw := [1, 2], seamless_splice := [1, 2, 3, 4, 5] } := by decide

theorem AF_packed_idem (a : AF) (h : AF_WF a) : AF_packed (AF_packed a) = AF_packed a := by
  obtain ⟨hw, hb⟩ := AF_packed_WF a h
  have h1 := AF_pack_eq _ hw
  have hu1 := AF_unpack_bytes a AF.fresh [] h
  have hu2 := AF_unpack_bytes (AF_packed a) AF.fresh [] hw
  rw [hb, hu1] at hu2
  injection hu2 with hu2
  exact hu2.symm

/-- packing twice returns identical bytes and leaves every field as the first call left it -/
theorem AF_pack_idempotent (a : AF) (h : AF_WF a) : AF.pack (AF.pack a).1 = AF.pack a := by
  obtain ⟨hw, hb⟩ := AF_packed_WF a h
  rw [AF_pack_eq a h, AF_pack_eq _ hw, hb, AF_packed_idem a h]

/-- non-vacuity (`AF_packed_idem`, `AF_pack_idempotent`): PCR, splice countdown, one private byte, an extension with
    a piecewise rate, and a stale length -/
example : AF_WF { AF.fresh with pcr := [1, 2, 3, 4, 5, 6], splice_countdown := 7, private_data := [0xAA], length := 40,
                                adaption_extension := some { Ext.fresh with piecewise := [1, 2, 3] } } := by
  refine ⟨by decide, by decide, by decide, by decide, ?_, by decide, by decide, by decide, by decide, by decide, by decide⟩
  intro x hx
  injection hx with hx
  subst hx
  decide

theorem Pkt_pack_idempotent (p : Pkt) (ns : Bool) (h : Pkt_WF p) : Pkt.pack (Pkt.pack p ns).1 ns = Pkt.pack p ns := by
  have hw : Pkt_WF (Pkt_packed p) := by
    obtain ⟨h1, h2, h3, h4, h5, h6, h7⟩ := h
    refine ⟨?_, ?_, ?_, ?_, ?_, ?_, ?_⟩ <;> unfold Pkt_packed <;> split <;> try assumption
    intro a ha
    simp only [Option.map_eq_some_iff] at ha
    obtain ⟨y, hy, rfl⟩ := ha
    exact (AF_packed_WF y (h7 y hy)).1
  rw [Pkt_pack_eq' p ns h, Pkt_pack_eq' _ ns hw]
  have haf : hasAF (Pkt_packed p) ↔ hasAF p := by unfold Pkt_packed; split <;> exact Iff.rfl
  have e1 : Pkt_packed (Pkt_packed p) = Pkt_packed p := by
    by_cases hh : hasAF p
    · have hh' : hasAF (Pkt_packed p) := haf.mpr hh
      have e : Pkt_packed p = { p with adaption_field := p.adaption_field.map AF_packed } := by
        unfold Pkt_packed; rw [if_pos hh]
      rw [Pkt_packed, if_pos hh', e]
      cases hx : p.adaption_field with
      | none => rfl
      | some a => simp [AF_packed_idem a (h.2.2.2.2.2.2 a hx)]
    · have hh' : ¬ hasAF (Pkt_packed p) := fun c => hh (haf.mp c)
      rw [Pkt_packed, if_neg hh']
  have e2 : Pkt_af (Pkt_packed p) = Pkt_af p := by
    by_cases hh : hasAF p
    · have hh' : hasAF (Pkt_packed p) := haf.mpr hh
      have e : (Pkt_packed p).adaption_field = p.adaption_field.map AF_packed := by
        unfold Pkt_packed; rw [if_pos hh]
      rw [Pkt_af, Pkt_af, if_pos hh, if_pos hh', e]
      cases hx : p.adaption_field with
      | none => rfl
      | some a => simp [(AF_packed_WF a (h.2.2.2.2.2.2 a hx)).2]
    · have hh' : ¬ hasAF (Pkt_packed p) := fun c => hh (haf.mp c)
      rw [Pkt_af, Pkt_af, if_neg hh, if_neg hh']
  have e3 : (Pkt_packed p).payload = p.payload := by unfold Pkt_packed; split <;> rfl
  have e4 : Pkt_hdr (Pkt_packed p) = Pkt_hdr p := by unfold Pkt_packed; split <;> rfl
  rw [e1]
  cases ns
  · simp [Pkt_bytes, Pkt_used, e2, e3, e4]
  · simp [Pkt_unstuffed, e2, e3, e4]

/-- non-vacuity: the packet of C06 (`examplePkt`: adaptation field with PCR and private data and a stale length,
    three payload bytes) is well formed -/
example : Pkt_WF C06.examplePkt := by
  refine ⟨by decide, by decide, by decide, by decide, by decide, by decide, ?_⟩
  intro a ha
  injection ha with ha
  subst ha
  refine ⟨by decide, by decide, by decide, by decide, ?_, by decide, by decide, by decide, by decide, by decide, by decide⟩
  intro x hx; simp [AF.fresh] at hx

/-! ### pack of the composite classes (added by the rev2 review: these clauses had no theorem) -/

theorem TS_packBlocks_idem (ps : List Pkt) (h : ∀ p ∈ ps, Pkt_WF p) :
    Acra.Model.MPEGTS.packBlocks (Acra.Model.MPEGTS.packBlocks ps).1 = Acra.Model.MPEGTS.packBlocks ps := by
  induction ps with
  | nil => rfl
  | cons b bs ih =>
    have hb := Pkt_pack_idempotent b false (h b (by simp))
    have ih := ih (fun g hg => h g (by simp [hg]))
    cases hp : Pkt.pack b with
    | mk b' r =>
      rw [hp] at hb
      simp only at hb
      cases r with
      | error e => simp only [Acra.Model.MPEGTS.packBlocks, hp, hb]
      | ok x =>
        cases hq : Acra.Model.MPEGTS.packBlocks bs with
        | mk bs' r2 =>
          rw [hq] at ih
          simp only at ih
          cases r2 with
          | ok y => simp only [Acra.Model.MPEGTS.packBlocks, hp, hq, hb, ih]
          | error e => simp only [Acra.Model.MPEGTS.packBlocks, hp, hq, hb, ih]

/-- `MPEGTS.pack` twice: same bytes, and the blocks as the first call left them -/
theorem MPEGTS_pack_idempotent (s : TS) (h : ∀ p ∈ s.blocks, Pkt_WF p) : TS.pack (TS.pack s).1 = TS.pack s := by
  simp only [TS.pack, TS_packBlocks_idem s.blocks h]

/-- packing, assigning the same payload again and packing again changes nothing (what `PES.pack` / `PMT.pack` do) -/
theorem Pkt_pack_same_payload (p : Pkt) (pl : Bytes) (ns : Bool) (h : Pkt_WF p) :
    Pkt.pack { (Pkt.pack { p with payload := pl } ns).1 with payload := pl } ns = Pkt.pack { p with payload := pl } ns := by
  have hq : Pkt_WF { p with payload := pl } := h
  have e : ({ (Pkt.pack { p with payload := pl } ns).1 with payload := pl } : Pkt) = (Pkt.pack { p with payload := pl } ns).1 := by
    rw [Pkt_pack_eq' _ ns hq]
    unfold Pkt_packed; split <;> rfl
  rw [e, Pkt_pack_idempotent _ ns hq]

/-- non-vacuity: a stream of two well-formed packets (the C06 examples) -/
example : ∀ p ∈ ({ blocks := [C06.examplePkt, { Pkt.fresh with pid := 7, payload := [1, 2] }] } : TS).blocks, Pkt_WF p := by
  intro p hp
  simp only [List.mem_cons, List.not_mem_nil, or_false] at hp
  rcases hp with rfl | rfl
  · refine ⟨by decide, by decide, by decide, by decide, by decide, by decide, ?_⟩
    intro a ha
    injection ha with ha
    subst ha
    refine ⟨by decide, by decide, by decide, by decide, ?_, by decide, by decide, by decide, by decide, by decide, by decide⟩
    intro x hx; simp [AF.fresh] at hx
  · refine ⟨by decide, by decide, by decide, by decide, by decide, by decide, ?_⟩
    intro a ha; simp [Pkt.fresh] at ha

theorem PES_ext_pkt (s : PES) (q : Pkt) : PES.ext { s with pkt := q } = PES.ext s := rfl


/-- `PES.pack` twice: same result, fields as the first call left them (the transport header well formed) -/
theorem PES_pack_idempotent (s : PES) (h : Pkt_WF s.pkt) : PES.pack (PES.pack s).1 = PES.pack s := by
  have core : ∀ (len : Nat) (eb : R Bytes),
      (∀ q : Pkt, PES.pack { s with pkt := q } =
        (match structPack Acra.Gen.PES.PES_pack_fmt0 [0, 1, s.streamid, len] with
         | .error e => ({ s with pkt := q }, .error e)
         | .ok hb =>
           match eb with
           | .error e => ({ s with pkt := { q with payload := hb } }, .error e)
           | .ok x => ({ s with pkt := (Pkt.pack { q with payload := hb ++ x ++ s.pesdata }).1 },
                       (Pkt.pack { q with payload := hb ++ x ++ s.pesdata }).2))) →
      PES.pack (PES.pack s).1 = PES.pack s := by
    intro len eb hq
    have hs := hq s.pkt
    rw [show ({ s with pkt := s.pkt } : PES) = s from rfl] at hs
    cases h0 : structPack Acra.Gen.PES.PES_pack_fmt0 [0, 1, s.streamid, len] with
    | error e =>
      simp only [h0] at hs hq
      rw [hs]; exact hs
    | ok hb =>
      cases eb with
      | error e =>
        simp only [h0] at hs hq
        rw [hs, hq]
      | ok x =>
        simp only [h0] at hs hq
        rw [hs, hq, Pkt_pack_same_payload s.pkt _ false h]
  cases hx : PES.ext s with
  | none =>
    refine core s.pesdata.length (.ok []) (fun q => ?_)
    unfold PES.pack
    simp only [PES_ext_pkt, hx]
    rfl
  | some t =>
    obtain ⟨w1, w2, hd⟩ := t
    refine core (3 + s.pesdata.length + hd.length)
      (match structPack Acra.Gen.PES.PES_pack_fmt1 [w1, w2, hd.length] with
        | .ok x => .ok (x ++ hd)
        | .error e => .error e) (fun q => ?_)
    unfold PES.pack
    simp only [PES_ext_pkt, hx]
    rfl

/-- non-vacuity: the transport header of the C06 PES example is well formed -/
example : Pkt_WF C06.headerExample.pkt := by
  refine ⟨by decide, by decide, by decide, by decide, by decide, by decide, ?_⟩
  intro a ha; simp [C06.headerExample, Pkt.fresh] at ha

/- `STANAG_pack_idempotent`, `PMT_pack_idempotent` (open at the rev2 review) are in `Props/C13/MpegPack.lean`. -/

end Acra.Props.C13
