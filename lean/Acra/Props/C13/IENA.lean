import Acra.Model.IENA
namespace Acra.Props.C13
open Acra.Py Acra.Model.IENA Acra.Gen.IENA

theorem IENA_pack_preserves_fields (s : Base) :
    (Base.pack s).1 = { s with size := (s.payload.length + IENA_HEADER_LENGTH + IENA_TRAILER_LENGTH) / 2 } := by
  simp only [Base.pack]; repeat' split
  all_goals rfl

theorem IENA_pack_idempotent (s : Base) : Base.pack (Base.pack s).1 = Base.pack s := by
  rw [IENA_pack_preserves_fields]; rfl

/-- a successful unpack leaves the object in the state a fresh object (with the same length-check
    option) would be in -/
theorem IENA_unpack_state_independent (t u : Base) (buf : Bytes) (ho : t.lengthError = u.lengthError)
    (h : (Base.unpack t buf).2 = .ok ()) : Base.unpack t buf = Base.unpack u buf := by
  revert h
  simp only [Base.unpack, ho]
  repeat' split
  all_goals simp_all

/-- non-vacuity: a used object (other key, sequence and payload) decodes an 18-byte packet successfully -/
example :
    let a : Base := { Base.fresh with key := 0x1A, timeusec := 10000000, payload := [5, 0] }
    let t : Base := { Base.fresh with key := 3, sequence := 9, payload := [1, 2, 3, 4] }
    ∃ b, (Base.pack a).2 = .ok b ∧ b.length = 18 ∧ (Base.unpack t b).2 = .ok () ∧ (Base.unpack t b).1.payload = [5, 0] :=
  ⟨_, rfl, rfl, rfl, rfl⟩

theorem IENAM_pack_idempotent (s : MState) : MState.pack (MState.pack s).1 = MState.pack s := by
  cases h : encAllM s.parameters with
  | error e => simp [MState.pack, h]
  | ok pl =>
    have h1 : MState.pack s = ({ s with base := (Base.pack { s.base with payload := pl }).1 },
        (Base.pack { s.base with payload := pl }).2) := by
      simp [MState.pack, h]
    rw [h1]
    simp only [MState.pack, h, IENA_pack_preserves_fields]
    rfl

/-- IENA-M: the parameter list after a successful unpack does not depend on what the object held -/
theorem IENAM_unpack_state_independent (t u : MState) (buf : Bytes)
    (ho : t.base.lengthError = u.base.lengthError)
    (h : (MState.unpack t buf).2 = .ok ()) : MState.unpack t buf = MState.unpack u buf := by
  revert h
  simp only [MState.unpack]
  cases hb : Base.unpack t.base buf with
  | mk b r =>
    cases r with
    | error e => simp
    | ok x =>
      have hb2 := IENA_unpack_state_independent t.base u.base buf ho (by rw [hb])
      rw [← hb2, hb]
      intro _
      rfl

/-- non-vacuity: an object that already holds a parameter decodes a two-parameter packet (one odd-length dataset
    with its pad byte, one empty dataset) and ends with exactly those two parameters -/
example :
    let a : MState := { MState.fresh with parameters := [⟨1, 2, [0xAA, 0xBB, 0xCC]⟩, ⟨3, 4, []⟩] }
    let t : MState := { MState.fresh with parameters := [⟨9, 9, [1]⟩] }
    ∃ b, (MState.pack a).2 = .ok b ∧ b.length = 32 ∧ (MState.unpack t b).2 = .ok () ∧
      (MState.unpack t b).1.parameters = a.parameters :=
  ⟨_, rfl, rfl, rfl, rfl⟩

end Acra.Props.C13
