import Acra.Lemmas.Net
import Acra.Lemmas.Pcap
namespace Acra.Props.C13
open Acra.Py Acra.Model.Net Acra.Gen.Net Acra.Lemmas.Net

/-! `pack` is a function of the fields; `unpack` a function of the bytes: every public attribute is assigned by a
    successful `unpack`, whatever the object held before (arbitrary prior state `t`, `u`). -/

/-! ### Ethernet -/
theorem Ethernet_pack_preserves_fields (s : Eth) (fcs : Bool) : (Eth.pack s fcs).1 = s := by
  simp only [Eth.pack]; repeat' split
  all_goals rfl

theorem Ethernet_pack_idempotent (s : Eth) (fcs : Bool) : Eth.pack (Eth.pack s fcs).1 fcs = Eth.pack s fcs := by
  rw [Ethernet_pack_preserves_fields]

/-- also the VLAN switch and tag: an untagged frame resets them (the defect fixed in /repo by d97411c) -/
theorem Ethernet_unpack_state_independent (t u : Eth) (buf : Bytes) (fcs : Bool)
    (h : (Eth.unpack t buf fcs).2 = .ok ()) : Eth.unpack t buf fcs = Eth.unpack u buf fcs := by
  by_cases hl : buf.length < 14
  · rw [Eth_unpack_short t buf fcs hl] at h; simp at h
  · rw [Eth_unpack_eq t _ _ (by omega), Eth_unpack_eq u _ _ (by omega)] at *
    revert h
    simp only [ethFinish]
    repeat' split
    all_goals simp

/-- non-vacuity: an object left VLAN-tagged by an earlier decode decodes an untagged 17-byte frame; the tag switch is reset -/
example :
    let a : Eth := { Eth.fresh with dstmac := 0x01005E000001, srcmac := 0x000C4D000A6C, payload := [1, 2, 3] }
    let t : Eth := { Eth.fresh with vlan := true, vlantag := 5, payload := [9] }
    ∃ b, (Eth.pack a false).2 = .ok b ∧ b.length = 17 ∧ (Eth.unpack t b false).2 = .ok () ∧
      (Eth.unpack t b false).1.vlan = false :=
  ⟨_, rfl, rfl, rfl, rfl⟩

/-! ### IP -/
/-- the only field `pack` writes is the computed total length (and nothing at all when an address is unusable) -/
theorem IP_pack_preserves_fields (s : IP) :
    (IP.pack s).1 = s ∨ (IP.pack s).1 = { s with len := IP_HEADER_SIZE + s.payload.length } := by
  simp only [IP.pack]; repeat' split
  all_goals simp

theorem IP_pack_idempotent (s : IP) : IP.pack (IP.pack s).1 = IP.pack s := by
  cases hs : s.srcip with
  | none => simp [IP.pack, hs]
  | some a =>
    cases hd : s.dstip with
    | none => simp [IP.pack, hs, hd]
    | some b =>
      have h1 : (IP.pack s).1 = { s with len := IP_HEADER_SIZE + s.payload.length } := by
        simp only [IP.pack, hs, hd]; repeat' split
        all_goals rfl
      rw [h1]; simp only [IP.pack, hs, hd]

theorem IP_unpack_state_independent (t u : IP) (buf : Bytes) (h : (IP.unpack t buf).2 = .ok ()) :
    IP.unpack t buf = IP.unpack u buf := by
  by_cases hl : buf.length < 20
  · simp [IP.unpack, IP_HEADER_SIZE, hl] at h
  · rw [IP_unpack_eq t _ (by omega), IP_unpack_eq u _ (by omega)]

/-- non-vacuity: a DF fragment-offset header with four payload bytes, decoded into a used object -/
example :
    let a : IP := { IP.fresh with srcip := some 0xC0A81C10, dstip := some 0xEB000001, flags := 2, fragment_offset := 1480,
                                  payload := [1, 2, 3, 4] }
    let t : IP := { IP.fresh with ident := 77, ttl := 3, payload := [9, 9] }
    ∃ b, (IP.pack a).2 = .ok b ∧ b.length = 24 ∧ (IP.unpack t b).2 = .ok () ∧ (IP.unpack t b).1.payload = [1, 2, 3, 4] :=
  ⟨_, rfl, rfl, rfl, rfl⟩

/-! ### UDP -/
theorem UDP_pack_preserves_fields (s : UDP) : (UDP.pack s).1 = { s with len := s.payload.length + UDP_HEADER_SIZE } := by
  simp only [UDP.pack]; split <;> rfl

theorem UDP_pack_idempotent (s : UDP) : UDP.pack (UDP.pack s).1 = UDP.pack s := by
  rw [UDP_pack_preserves_fields]; rfl

theorem UDP_unpack_state_independent (t u : UDP) (buf : Bytes) (h : (UDP.unpack t buf).2 = .ok ()) :
    UDP.unpack t buf = UDP.unpack u buf := by
  revert h
  simp only [UDP.unpack]
  repeat' split
  all_goals simp_all

example :
    let a : UDP := { UDP.fresh with srcport := 4400, dstport := 5500, payload := [5] }
    let t : UDP := { UDP.fresh with srcport := 1, len := 99, payload := [7, 7] }
    ∃ b, (UDP.pack a).2 = .ok b ∧ b.length = 9 ∧ (UDP.unpack t b).2 = .ok () ∧ (UDP.unpack t b).1.payload = [5] :=
  ⟨_, rfl, rfl, rfl, rfl⟩

/-! ### ICMP (pack only) -/
theorem ICMP_pack_preserves_fields (s : ICMP) : (ICMP.pack s).1 = s := by
  simp only [ICMP.pack]; repeat' split
  all_goals rfl

theorem ICMP_pack_idempotent (s : ICMP) : ICMP.pack (ICMP.pack s).1 = ICMP.pack s := by
  rw [ICMP_pack_preserves_fields]

/-! ### ARP -/
theorem ARP_pack_preserves_fields (s : ARP) : (ARP.pack s).1 = s := by
  simp only [ARP.pack]; repeat' split
  all_goals rfl

theorem ARP_pack_idempotent (s : ARP) : ARP.pack (ARP.pack s).1 = ARP.pack s := by
  rw [ARP_pack_preserves_fields]

theorem ARP_unpack_state_independent (t u : ARP) (buf : Bytes) (h : (ARP.unpack t buf).2 = .ok ()) :
    ARP.unpack t buf = ARP.unpack u buf := by
  by_cases hl : 28 ≤ buf.length
  · rw [ARP_unpack_eq t _ hl, ARP_unpack_eq u _ hl]
  · exfalso
    revert h
    simp only [ARP.unpack]
    repeat' split
    all_goals first
      | (simp; done)
      | (rename_i hlast; intro _; simp only [inetNtoa, slice_length] at hlast; split at hlast <;> first | omega | (simp at hlast))

example :
    let a : ARP := { ARP.fresh with dstip := some 0xC0A81C02, srcmac := 0x000C4D000A6C }
    let t : ARP := { ARP.fresh with operation := 2, dstmac := 5 }
    ∃ b, (ARP.pack a).2 = .ok b ∧ 28 ≤ b.length ∧ (ARP.unpack t b).2 = .ok () :=
  ⟨_, rfl, by decide, rfl⟩

/-! ### PcapRecord -/
open Acra.Model.Pcap Acra.Gen.Pcap

theorem PcapRecord_pack_preserves_fields (s : Rec) : (Rec.pack s).1 = s := by
  simp only [Rec.pack]; split <;> rfl

theorem PcapRecord_pack_idempotent (s : Rec) : Rec.pack (Rec.pack s).1 = Rec.pack s := by
  rw [PcapRecord_pack_preserves_fields]

/-- `PcapRecord.unpack` decodes the 16-byte header and clears the payload: a successful unpack leaves a
    used object in the state a new object would be in (since the `fix:` commit that clears `_payload`) -/
theorem PcapRecord_unpack_state_independent (t u : Rec) (buf : Bytes) (h : (Rec.unpack t buf).2 = .ok ()) :
    Rec.unpack t buf = Rec.unpack u buf := by
  revert h
  simp only [Rec.unpack]
  repeat' split
  all_goals simp_all

/-- non-vacuity: the 16-byte header of a record with three payload bytes and a present-day time stamp, decoded into an
    object that still holds another record's payload -/
example :
    let a : Rec := { (Rec.fresh.setPayload [1, 2, 3]) with sec := 1700000000, usec := 999999 }
    let t : Rec := Rec.fresh.setPayload [0xAB]
    ∃ b, (Rec.pack a).2 = .ok b ∧ (Rec.unpack t (b.take 16)).2 = .ok () ∧ (Rec.unpack t (b.take 16)).1.incl_len = 3 :=
  ⟨_, rfl, rfl, rfl⟩

/-- the former witness of the defect: the same 16 bytes now leave a used object and a fresh one alike -/
theorem PcapRecord_unpack_clears_stale_payload :
    (Rec.unpack (Rec.fresh.setPayload [0xAB]) (List.replicate 16 0)).1.payload = [] ∧
    (Rec.unpack (Rec.fresh.setPayload [0xAB]) (List.replicate 16 0)).2 = .ok () :=
  ⟨by decide, by rfl⟩

end Acra.Props.C13
