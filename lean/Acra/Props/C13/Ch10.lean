/-
  C13 for the ch10 family: `pack` is a function of the fields (idempotent on every state, also when it
  raises), `unpack` a function of the bytes (state-independent for an ARBITRARY prior state).
  `Chapter11.data_checksum_size` is never assigned by `unpack`; it plays the part of a codec option
  ("same codec options" in the property), so the fresh object is taken with the same value.
-/
import Acra.Lemmas.Ch11
import Acra.Lemmas.Ch10UDP
namespace Acra.Props.C13
open Acra.Py Acra

/-! ### Chapter10UDP -/
/-- the only field `pack` writes is `packetsize` (format 2), from the payload length -/
theorem udp_pack_preserves_fields (s : Model.Ch10UDP.State) :
    (Model.Ch10UDP.pack s).1 = s ∨
    (Model.Ch10UDP.pack s).1 = { s with packetsize := some (s.payload.length / 4) } :=
  Lemmas.Ch10UDP.udp_pack_fields s

theorem udp_pack_idempotent (s : Model.Ch10UDP.State) :
    Model.Ch10UDP.pack (Model.Ch10UDP.pack s).1 = Model.Ch10UDP.pack s := Lemmas.Ch10UDP.udp_pack_idempotent s

/-- whatever state the object was in (any format, any stale per-format fields), a successful unpack leaves it
    in the state a fresh object would be in -/
theorem udp_unpack_state_independent (t : Model.Ch10UDP.State) (buf : Bytes)
    (h : (Model.Ch10UDP.unpack t buf).2 = .ok ()) :
    Model.Ch10UDP.unpack t buf = Model.Ch10UDP.unpack Model.Ch10UDP.fresh buf :=
  Lemmas.Ch10UDP.udp_unpack_state_independent t buf h

/-- non-vacuity: an object left in format 3 with stale per-format fields decodes the encoding of a format-1
    packet (24-bit sequence, three payload bytes) successfully -/
example :
    let a : Model.Ch10UDP.State := { Model.Ch10UDP.fresh with sequence := 0xABCDEF, payload := [1, 2, 3] }
    let t : Model.Ch10UDP.State := { Model.Ch10UDP.fresh with
      version := 3, sourceid_len := 3, sourceid := 0x5A5, offset_pkt_start := some 12, packetsize := some 9, payload := [7, 7] }
    ∃ b, (Model.Ch10UDP.pack a).2 = .ok b ∧ b.length = 7 ∧ (Model.Ch10UDP.unpack t b).2 = .ok () ∧
      (Model.Ch10UDP.unpack t b).1.offset_pkt_start = none :=
  ⟨_, rfl, rfl, rfl, rfl⟩

/-! ### Chapter11 (and the deprecated subclass Chapter10) -/
/-- the only fields `pack` writes are `filler`, `packetlen`, `datalen` -/
theorem ch11_pack_preserves_fields (s : Model.Ch11.State) :
    (Model.Ch11.pack s).1 = s ∨
    ∃ f pl, (Model.Ch11.pack s).1 = { s with filler := f, packetlen := pl, datalen := s.payload.length } := by
  rw [Lemmas.Ch11.pack_state]
  cases Model.Ch11.secHdr s with
  | error e => exact Or.inl rfl
  | ok sec =>
    simp only
    cases Lemmas.Ch11.fillOf s sec with
    | error e => exact Or.inl rfl
    | ok filler => exact Or.inr ⟨_, _, rfl⟩

/-- packing twice returns identical bytes (or the identical exception) and leaves every field as the first
    call left it: the filler is recomputed from the current payload each time -/
theorem ch11_pack_idempotent (s : Model.Ch11.State) :
    Model.Ch11.pack (Model.Ch11.pack s).1 = Model.Ch11.pack s := Lemmas.Ch11.ch11_pack_idempotent s

/-- pack ignores what an earlier pack left behind -/
theorem ch11_pack_ignores_derived (s : Model.Ch11.State) (f : Bytes) (pl dl : Nat) :
    (Model.Ch11.pack { s with filler := f, packetlen := pl, datalen := dl }).2 = (Model.Ch11.pack s).2 :=
  Lemmas.Ch11.pack_ignores s f pl dl

theorem ch11_unpack_state_independent (t : Model.Ch11.State) (buf : Bytes)
    (h : (Model.Ch11.unpack t buf).2 = .ok ()) :
    Model.Ch11.unpack t buf =
      Model.Ch11.unpack { Model.Ch11.fresh with data_checksum_size := t.data_checksum_size } buf :=
  Lemmas.Ch11.ch11_unpack_state_independent t buf h

/-- non-vacuity: an object that decoded a packet with secondary header before (PTP time, filler, flags still
    set) decodes the encoding of a 5-byte-payload packet without secondary header successfully -/
example :
    let a : Model.Ch11.State := { Model.Ch11.fresh with
      channelID := 0x1234, sequence := 3, packetflag := 0x35, datatype := 0x50, relativetimecounter := 0xFFFFFFFFFFFF,
      payload := [1, 2, 3, 4, 5] }
    let t : Model.Ch11.State := { Model.Ch11.fresh with
      channelID := 7, packetflag := 0xF7, has_secondary_header := true, ts_source := Gen.Ch11.TS_IEEE1558,
      ptptime := ⟨1700000000, 999999999⟩, payload := [9, 8, 7], filler := [0xFF] }
    ∃ b, (Model.Ch11.pack a).2 = .ok b ∧ b.length = 32 ∧ (Model.Ch11.unpack t b).2 = .ok () ∧
      (Model.Ch11.unpack t b).1.has_secondary_header = false :=
  ⟨_, rfl, rfl, rfl, rfl⟩

/-! ### PTPTime, RTCTime
  In the model `PTP.unpack : Bytes → R PTP` and `rtcUnpack : Bytes → R Nat` take no state argument and
  `PTP.pack` / `rtcPack` return no state: the two classes assign all of their (one or two) fields in a single
  tuple assignment and `pack` assigns nothing, so state independence and idempotence hold by the shape of the
  model; the correspondence histories (generic C13 + `corr_C13`) are what ties that shape to the code. -/

end Acra.Props.C13
