import Acra.Lemmas.AFDX
namespace Acra.Props.C13
open Acra.Py Acra.Model.AFDX Acra.Gen.AFDX Acra.Lemmas.AFDX Acra.Lemmas.Net

/-! `AFDX.pack` is a function of the fields and writes none of them.  `AFDX.unpack` never returns normally
    (`C08.AFDX_unpack_never_decodes`), so there is no "state after a successful unpack" to compare; what it raises, and
    the three attributes it assigns before raising, are functions of the bytes alone. -/

theorem AFDX_pack_preserves_fields (s : AFDX) : (AFDX.pack s).1 = s := by
  simp only [AFDX.pack]; repeat' split
  all_goals rfl

theorem AFDX_pack_idempotent (s : AFDX) : AFDX.pack (AFDX.pack s).1 = AFDX.pack s := by
  rw [AFDX_pack_preserves_fields]

/-- the outcome of `unpack` does not depend on what the object held before (arbitrary prior states `t`, `u`) -/
theorem AFDX_unpack_result_state_independent (t u : AFDX) (buf : Bytes) :
    (AFDX.unpack t buf).2 = (AFDX.unpack u buf).2 := by
  by_cases h14 : buf.length < 14
  · by_cases h6 : buf.length < 6
    · rw [unpack_lt6 t buf h6, unpack_lt6 u buf h6]
    · rw [unpack_lt14 t buf (by omega) h14, unpack_lt14 u buf (by omega) h14]
  · rw [unpack_ge14 t buf (by omega), unpack_ge14 u buf (by omega)]

/-- the attributes `unpack` assigns before it raises are functions of the bytes: from 14 bytes on, virtual link,
    ethertype and payload are the same whatever the prior state … -/
theorem AFDX_unpack_assigned_state_independent (t u : AFDX) (buf : Bytes) (h : 14 ≤ buf.length) :
    (AFDX.unpack t buf).1.vlink = (AFDX.unpack u buf).1.vlink ∧
    (AFDX.unpack t buf).1.type = (AFDX.unpack u buf).1.type ∧
    (AFDX.unpack t buf).1.payload = (AFDX.unpack u buf).1.payload := by
  rw [unpack_ge14 t buf h, unpack_ge14 u buf h]; exact ⟨rfl, rfl, rfl⟩

example : 14 ≤ (List.replicate 60 (0x11 : UInt8)).length := by decide

/-- … while the other four attributes are left as they were: the object after the (failed) decode is NOT a function
    of the bytes.  The state after an exception is unspecified (DESIGN §3), so this is an observation. -/
theorem AFDX_unpack_leaves_rest (t : AFDX) (buf : Bytes) :
    (AFDX.unpack t buf).1.networkID = t.networkID ∧ (AFDX.unpack t buf).1.equipmentID = t.equipmentID ∧
    (AFDX.unpack t buf).1.interfaceID = t.interfaceID ∧ (AFDX.unpack t buf).1.sequencenum = t.sequencenum := by
  by_cases h14 : buf.length < 14
  · by_cases h6 : buf.length < 6
    · rw [unpack_lt6 t buf h6]; exact ⟨rfl, rfl, rfl, rfl⟩
    · rw [unpack_lt14 t buf (by omega) h14]; exact ⟨rfl, rfl, rfl, rfl⟩
  · rw [unpack_ge14 t buf (by omega)]; exact ⟨rfl, rfl, rfl, rfl⟩

end Acra.Props.C13
