/-
  C13 — PTDP / PTFR: pack is a function of the fields, unpack a function of the bytes (and of the
  codec option `length` for PTFR).  Golay instances only cache tables (Model.Golay), so sharing the
  default `Golay()` between objects is invisible.
-/
import Acra.Lemmas.Chapter7
namespace Acra.Props.C13
open Acra.Py Acra.Model.Chapter7 Acra.Lemmas.Chapter7

/-- the only field PTDP.pack writes is the computed length -/
theorem PTDP_pack_preserves_fields (s : PTDP.State) :
    (PTDP.pack s).1 = { s with length := s.payload.length } := by
  simp only [PTDP.pack]; repeat' split
  all_goals rfl

theorem PTDP_pack_idempotent (s : PTDP.State) : PTDP.pack (PTDP.pack s).1 = PTDP.pack s := by
  rw [PTDP_pack_preserves_fields]; rfl

/-- unpack depends only on the bytes: a successful unpack leaves the object in the state a fresh
    object would be in (since the repair in /repo the low-latency marking is cleared as well) -/
theorem PTDP_unpack_state_independent (t u : PTDP.State) (b rest : Bytes)
    (h : (PTDP.unpack t b).2 = .ok rest) : PTDP.unpack t b = PTDP.unpack u b := by
  by_cases h6 : b.length < 6
  · rw [ptdp_unpack_short t b h6] at h; cases h
  · rw [ptdp_unpack_any t b (by omega)] at h ⊢
    rw [ptdp_unpack_any u b (by omega)]
    unfold ptdpCore at h ⊢
    simp only at h ⊢
    split
    · rename_i hh; simp only [hh, if_true] at h; cases h
    · split
      · rename_i h1 h2; simp only [h1, h2, if_false, if_true] at h; cases h
      · rfl

/-- non-vacuity: an object marked low-latency, holding another payload and length, decodes the encoding of a
    three-byte PTDP followed by one more byte successfully -/
example : ∃ (a t : PTDP.State) (b : Bytes), a.payload = [1, 2, 3] ∧ t.low_latency = true ∧ t.payload = [9] ∧
    (PTDP.pack a).2 = .ok b ∧ (PTDP.unpack t (b ++ [0xAA])).2 = .ok [0xAA] := by
  have h : PTDP_WF { PTDP.fresh with payload := [1, 2, 3], fragment := 3, content := 4 } := by simp [PTDP_WF]
  refine ⟨{ PTDP.fresh with payload := [1, 2, 3], fragment := 3, content := 4 },
    { PTDP.fresh with payload := [9], low_latency := true, length := 77 }, _, rfl, rfl, rfl,
    by rw [ptdp_pack_eq _ h], ?_⟩
  have := ptdp_unpack_noisy _ { PTDP.fresh with payload := [9], low_latency := true, length := 77 } h 0 0
    (by decide) (by decide) wt_zero_le wt_zero_le [0xAA]
  simp only [List.append_assoc] at this ⊢
  rw [this]

/-- on the failure paths the results agree as well (the state is then unspecified) -/
theorem PTDP_unpack_result_state_independent (t u : PTDP.State) (b : Bytes) :
    (PTDP.unpack t b).2 = (PTDP.unpack u b).2 := by
  by_cases h6 : b.length < 6
  · rw [ptdp_unpack_short t b h6, ptdp_unpack_short u b h6]
  · rw [ptdp_unpack_any t b (by omega), ptdp_unpack_any u b (by omega)]
    unfold ptdpCore
    simp only
    repeat' split
    all_goals rfl

/-- PTFR.pack changes nothing -/
theorem PTFR_pack_preserves_fields (s : PTFR.State) : (PTFR.pack s).1 = s := by
  simp only [PTFR.pack]; repeat' split
  all_goals rfl

theorem PTFR_pack_idempotent (s : PTFR.State) : PTFR.pack (PTFR.pack s).1 = PTFR.pack s := by
  rw [PTFR_pack_preserves_fields]

/-- PTFR.unpack replaces every attribute it decodes (payload included, since the repair in /repo):
    two objects with the same `length` option end in the same state whatever they held before -/
theorem PTFR_unpack_state_independent (t u : PTFR.State) (b : Bytes) (ho : t.length = u.length)
    (h : (PTFR.unpack t b).2 = .ok ()) : PTFR.unpack t b = PTFR.unpack u b := by
  revert h
  simp only [PTFR.unpack, PTFR.setPayload, ho]
  repeat' split
  all_goals simp_all

/-- non-vacuity: a frame object that holds an older (longer) payload decodes the encoding of a two-byte frame -/
example : ∃ (a t : PTFR.State) (b : Bytes), a.payload = [9, 9] ∧ t.payload = [1, 2, 3] ∧ t.length = a.length ∧
    (PTFR.pack a).2 = .ok b ∧ (PTFR.unpack t b).2 = .ok () := by
  have h : PTFR_WF { PTFR.fresh with streamid := 1, llp := true, ptdp_offset := 0x7FF, length := 2, payload := [9, 9] } := by
    simp [PTFR_WF, PTFR.fresh]
  refine ⟨{ PTFR.fresh with streamid := 1, llp := true, ptdp_offset := 0x7FF, length := 2, payload := [9, 9] },
    { PTFR.fresh with version := 3, ptdp_offset := 5, length := 2, payload := [1, 2, 3] }, _, rfl, rfl, rfl,
    by rw [ptfr_pack_eq _ h], ?_⟩
  rw [ptfr_unpack_noisy _ _ h 0 (by decide) wt_zero_le (by simp)]

end Acra.Props.C13
