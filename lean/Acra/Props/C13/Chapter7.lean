/-
  C13 — PTDP / PTFR: pack is a function of the fields, unpack a function of the bytes (and of the
  codec option `length` for PTFR).  Golay instances only cache tables (Model.Golay), so sharing the
  default `Golay()` between objects is invisible.
-/
import Acra.Lemmas.Chapter7
namespace Acra.Props.C13
open Acra.Py Acra.Model.Chapter7 Acra.Lemmas.Chapter7

/-- the only field PTDP.pack writes is the computed length -/
theorem PTDP_pack_preserves_fields (s : PTDP.State) :
    (PTDP.pack s).1 = { s with length := s.payload.length } := by
  simp only [PTDP.pack]; repeat' split
  all_goals rfl

theorem PTDP_pack_idempotent (s : PTDP.State) : PTDP.pack (PTDP.pack s).1 = PTDP.pack s := by
  rw [PTDP_pack_preserves_fields]; rfl

/-- Full statement (FAILS on the code, finding F1 in notes/golay7.md): `unpack t b = unpack fresh b`
    whenever it succeeds.  `PTDP.unpack` never assigns `low_latency`, so an object that was marked
    low-latency keeps the mark after decoding a new buffer.  What holds: every other attribute, the
    result and the bytes of a following pack are those of a fresh object. -/
theorem PTDP_unpack_state_independent_partial (t u : PTDP.State) (b : Bytes) :
    PTDP.unpack t b = ({ (PTDP.unpack u b).1 with low_latency := t.low_latency }, (PTDP.unpack u b).2) ∨
    (PTDP.unpack t b).2 = .error .ptdpRemaining ∧ (PTDP.unpack u b).2 = .error .ptdpRemaining ∨
    (PTDP.unpack t b).2 = .error .ptdpLength ∧ (PTDP.unpack u b).2 = .error .ptdpLength := by
  by_cases h : b.length < 6
  · right; left; rw [ptdp_unpack_short t b h, ptdp_unpack_short u b h]; exact ⟨rfl, rfl⟩
  · rw [ptdp_unpack_any t b (by omega), ptdp_unpack_any u b (by omega)]
    unfold ptdpCore
    simp only
    split
    · right; right; exact ⟨rfl, rfl⟩
    · split
      · right; left; exact ⟨rfl, rfl⟩
      · left; rfl

/-- … and the bytes of a following pack do not depend on the prior state at all -/
theorem PTDP_unpack_then_pack_state_independent (t u : PTDP.State) (b rest : Bytes)
    (h : (PTDP.unpack t b).2 = .ok rest) :
    (PTDP.unpack u b).2 = .ok rest ∧ (PTDP.pack (PTDP.unpack t b).1).2 = (PTDP.pack (PTDP.unpack u b).1).2 := by
  rcases PTDP_unpack_state_independent_partial t u b with h1 | ⟨h1, _⟩ | ⟨h1, _⟩
  · rw [h1] at h ⊢
    exact ⟨h, by rw [ptdp_pack_snd, ptdp_pack_snd]⟩
  · rw [h1] at h; cases h
  · rw [h1] at h; cases h

/-- PTFR.pack changes nothing -/
theorem PTFR_pack_preserves_fields (s : PTFR.State) : (PTFR.pack s).1 = s := by
  simp only [PTFR.pack]; repeat' split
  all_goals rfl

theorem PTFR_pack_idempotent (s : PTFR.State) : PTFR.pack (PTFR.pack s).1 = PTFR.pack s := by
  rw [PTFR_pack_preserves_fields]

/-- PTFR.unpack replaces every attribute it decodes (payload included, since the repair in /repo):
    two objects with the same `length` option end in the same state whatever they held before -/
theorem PTFR_unpack_state_independent (t u : PTFR.State) (b : Bytes) (ho : t.length = u.length)
    (h : (PTFR.unpack t b).2 = .ok ()) : PTFR.unpack t b = PTFR.unpack u b := by
  revert h
  simp only [PTFR.unpack, PTFR.setPayload, ho]
  repeat' split
  all_goals simp_all

end Acra.Props.C13
