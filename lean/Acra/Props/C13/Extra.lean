import Acra.Lemmas.Extra
namespace Acra.Props.C13
open Acra.Py Acra.Model.Extra Acra.Lemmas.Extra
open Acra.Gen.ExtraH264 Acra.Gen.ExtraADTS Acra.Gen.ExtraSEI Acra.Gen.ExtraPA Acra.Gen.ExtraNet

/-! State independence of the `extra` decoders.  For every class the RESULT (value / which exception) is a
    function of the bytes alone.  For the object left behind the full statement
    "`unpack t buf = unpack u buf` for arbitrary prior states `t`, `u`" holds for `ADTS` and
    `ParserAligned.ARINC429` (up to the one attribute `unpack` never writes), and is FALSE of
    `STANAG4609_SEI`, `NAL` and `H264`: their `unpack` assigns attributes along the path the data takes and
    never resets the others.  For those the faithful statement is proved (`…_partial`: the exact list of
    attributes that survive) together with a concrete witness of the stale read. -/

/-! ### ADTS -/

theorem ADTS_unpack_result_independent (t u : ADTS) (buf : Bytes) : (ADTS.unpack t buf).2 = (ADTS.unpack u buf).2 := by
  simp only [ADTS.unpack]
  repeat' split
  all_goals rfl

/-- `ADTS.unpack` writes `aac`, `sampling_freq`, `_length`, `no_crc` on every successful path and never
    touches `version` (no statement of the class assigns it after `__init__`) -/
theorem ADTS_unpack_state_independent (t u : ADTS) (buf : Bytes) (hv : t.version = u.version)
    (h : (ADTS.unpack t buf).2 = .ok ()) : ADTS.unpack t buf = ADTS.unpack u buf := by
  revert h
  simp only [ADTS.unpack]
  repeat' split
  all_goals simp_all

example : (ADTS.unpack ADTS.fresh [0xFF, 0xF1, 0x50, 0x80, 0x02, 0x1F, 0xFC, 1, 2]).2 = .ok () := by rfl

/-! ### ParserAligned.ARINC429 -/

/-- all five attributes are assigned from the four bytes -/
theorem PA429_unpack_state_independent (t u : A429) (buf : Bytes) : 
    (A429.unpack t buf).2 = .ok () → A429.unpack t buf = A429.unpack u buf := by
  intro h
  by_cases hl : buf.length = 4
  · obtain ⟨b1, b2, b3, b4, rfl⟩ := len4 buf hl
    obtain ⟨l, hl1, hu⟩ := A429_unpack_cons t b1 b2 b3 b4
    obtain ⟨l', hl2, hu'⟩ := A429_unpack_cons u b1 b2 b3 b4
    rw [hl1] at hl2; injection hl2 with hl2; subst hl2
    rw [hu, hu']
  · rw [A429_unpack_badlen t buf hl] at h; simp at h

example : (A429.unpack A429.fresh [0xE5, 0x12, 0x37, 0xFE]).2 = .ok () := by rfl

/-! ### STANAG4609_SEI -/

theorem SEI_unpack_result_independent (t u : SEI) (buf : Bytes) : (SEI.unpack t buf).2 = (SEI.unpack u buf).2 := by
  simp only [SEI.unpack, SEI.signed]
  repeat' split
  all_goals rfl

/- Full statement (FALSE of the code):
     theorem SEI_unpack_state_independent (t u : SEI) (buf : Bytes) (h : (SEI.unpack t buf).2 = .ok ()) :
         SEI.unpack t buf = SEI.unpack u buf
   What is missing: `unpack` would have to reset `unregdata`, `status`, `seconds`, `nanoseconds`, `time`, `stanag`
   (and `microseconds`, which it never writes) before decoding.  Witness: `SEI_unpack_stale_witness`. -/

/-- what does hold: the object left behind depends on the prior state only through the seven attributes a
    shorter path does not write -/
theorem SEI_unpack_state_independent_partial (t u : SEI) (buf : Bytes)
    (h1 : t.unregdata = u.unregdata) (h2 : t.status = u.status) (h3 : t.seconds = u.seconds)
    (h4 : t.microseconds = u.microseconds) (h5 : t.nanoseconds = u.nanoseconds) (h6 : t.time = u.time)
    (h7 : t.stanag = u.stanag) (h : (SEI.unpack t buf).2 = .ok ()) : SEI.unpack t buf = SEI.unpack u buf := by
  revert h
  simp only [SEI.unpack, SEI.signed]
  repeat' split
  all_goals simp_all

/-- a signed time message (`stanag` comes out `True` from a new object) overwrites everything except
    `microseconds`: decoding it into ANY object gives the new object's result with the old `microseconds` -/
theorem SEI_unpack_signed_overwrites (t : SEI) (buf : Bytes) (h : (SEI.unpack SEI.fresh buf).2 = .ok ())
    (hs : (SEI.unpack SEI.fresh buf).1.stanag = true) :
    SEI.unpack t buf = ({ (SEI.unpack SEI.fresh buf).1 with microseconds := t.microseconds }, .ok ()) := by
  revert h hs
  simp only [SEI.unpack, SEI.signed, SEI.fresh]
  repeat' split
  all_goals simp_all

/-- a signed time message satisfying the two hypotheses above -/
example :
    let signed : Bytes := [5, 28, 0x4D, 0x49, 0x53, 0x50, 0x6D, 0x69, 0x63, 0x72, 0x6F, 0x73, 0x65, 0x63, 0x74, 0x69, 0x6D, 0x65,
                           0x1F, 0, 0, 0xFF, 0, 0, 0xFF, 0, 0, 0xFF, 0, 5]
    (SEI.unpack SEI.fresh signed).2.isOk = true ∧ (SEI.unpack SEI.fresh signed).1.stanag = true :=
  ⟨by decide +kernel, by decide +kernel⟩
/-- objects agreeing on the seven surviving attributes, and a buffer both accept -/
example : (SEI.unpack { SEI.fresh with payloadtype := some 9 } [4, 0]).2 = .ok () := by rfl

/-- the stale read: an object that decoded a signed time, then a payload of another type, still claims
    `stanag = True` and shows the old time; a new object decoding the same two bytes does not -/
theorem SEI_unpack_stale_witness :
    let signed : Bytes := [5, 28, 0x4D, 0x49, 0x53, 0x50, 0x6D, 0x69, 0x63, 0x72, 0x6F, 0x73, 0x65, 0x63, 0x74, 0x69, 0x6D, 0x65,
                           0x1F, 0, 0, 0xFF, 0, 0, 0xFF, 0, 0, 0xFF, 0, 5]
    let other : Bytes := [4, 0]
    (SEI.unpack (SEI.unpack SEI.fresh signed).1 other).2 = .ok () ∧
    (SEI.unpack (SEI.unpack SEI.fresh signed).1 other).1.stanag = true ∧
    (SEI.unpack SEI.fresh other).1.stanag = false := by
  refine ⟨by rfl, by decide +kernel, by decide +kernel⟩

/-! ### NAL -/

theorem NAL_unpack_result_independent (t u : NAL) (buf : Bytes) : (NAL.unpack t buf).2 = (NAL.unpack u buf).2 := by
  simp only [NAL.unpack]
  repeat' split
  all_goals simp_all

/- Full statement (FALSE of the code):
     theorem NAL_unpack_state_independent (t u : NAL) (buf : Bytes) (ho : t.offset = u.offset)
         (h : (NAL.unpack t buf).2 = .ok ()) : NAL.unpack t buf = NAL.unpack u buf
   What is missing: `self.sei = None` for a NAL that is not an SEI.  Witness: `NAL_unpack_stale_witness`. -/

/-- `type` and `size` are always written, `offset` never; `sei` is written exactly for an SEI NAL -/
theorem NAL_unpack_state_independent_partial (t u : NAL) (buf : Bytes) (ho : t.offset = u.offset)
    (hs : t.sei = u.sei) (h : (NAL.unpack t buf).2 = .ok ()) : NAL.unpack t buf = NAL.unpack u buf := by
  revert h
  simp only [NAL.unpack]
  repeat' split
  all_goals simp_all

/-- for an SEI NAL the whole object is a function of the bytes (and of `offset`, which the container owns);
    the SEI inside is decoded into a NEW object, so it is never stale -/
theorem NAL_unpack_sei_state_independent (t u : NAL) (buf : Bytes) (ho : t.offset = u.offset)
    (h : (NAL.unpack t buf).2 = .ok ()) (h6 : (NAL.unpack t buf).1.type = NAL_TYPE_SEI) :
    NAL.unpack t buf = NAL.unpack u buf := by
  revert h h6
  simp only [NAL.unpack]
  repeat' split
  all_goals simp_all

example : (NAL.unpack NAL.fresh [0, 0, 0, 1, 6, 4, 0]).2 = .ok () ∧
    (NAL.unpack NAL.fresh [0, 0, 0, 1, 6, 4, 0]).1.type = NAL_TYPE_SEI := ⟨by rfl, by decide +kernel⟩

theorem NAL_unpack_stale_witness :
    let seiNal : Bytes := [0, 0, 0, 1, 6, 4, 0]
    let idr : Bytes := [0, 0, 0, 1, 0x65, 0x88]
    (NAL.unpack (NAL.unpack NAL.fresh seiNal).1 idr).2 = .ok () ∧
    (NAL.unpack (NAL.unpack NAL.fresh seiNal).1 idr).1.sei.isSome = true ∧
    (NAL.unpack NAL.fresh idr).1.sei.isSome = false := by
  refine ⟨by rfl, by rfl, by rfl⟩

/-! ### H264 -/

theorem H264_unpack_result_independent (t u : H264) (buf : Bytes) : (H264.unpack t buf).2 = (H264.unpack u buf).2 := by
  simp only [H264.unpack]
  repeat' split
  all_goals simp_all

/- Full statement (FALSE of a faithful model, though unreachable through `unpack` alone):
     theorem H264_unpack_state_independent (t u : H264) (buf : Bytes) : H264.unpack t buf = H264.unpack u buf
   `nals` is created in `__init__` and only ever appended to; as the Python 3 code cannot decode a single NAL
   the list an object holds is simply whatever was assigned to it. -/

/-- `unpack` never changes the object (see also C08 `H264_unpack_never_decodes`) -/
theorem H264_unpack_state_independent_partial (t : H264) (buf : Bytes) : (H264.unpack t buf).1 = t := by
  simp only [H264.unpack]
  repeat' split
  all_goals rfl

/-! ### IPv6.pack -/

/-- `pack` writes `len` and nothing else -/
theorem IPv6_pack_preserves_fields (s : IPv6) :
    (IPv6.pack s).1 = s ∨ (IPv6.pack s).1 = { s with len := s.payload.length } := by
  simp only [IPv6.pack]
  repeat' split
  all_goals simp

theorem IPv6_pack_idempotent (s : IPv6) (b : Bytes) (h : (IPv6.pack s).2 = .ok b) :
    IPv6.pack (IPv6.pack s).1 = IPv6.pack s := by
  revert h
  simp only [IPv6.pack, IPv6.word0]
  repeat' split
  all_goals simp_all

example : (IPv6.pack { IPv6.fresh with payload := [1, 2, 3] }).2.isOk = true := by rfl

end Acra.Props.C13
