import Acra.Lemmas.Extra
namespace Acra.Props.C13
open Acra.Py Acra.Model.Extra Acra.Lemmas.Extra
open Acra.Gen.ExtraH264 Acra.Gen.ExtraADTS Acra.Gen.ExtraSEI Acra.Gen.ExtraPA Acra.Gen.ExtraNet

/-! State independence of the `extra` decoders: a successful `unpack` leaves ANY object exactly as it leaves
    any other (in particular a new one), and the result (value / which exception) is a function of the bytes
    alone.  The only attributes a prior state can show through are the ones no `unpack` statement writes and
    that belong to someone else: `ADTS.version`, `NAL.offset` (assigned by the container, `H264.unpack`).
    For `STANAG4609_SEI`, `NAL` and `H264` this holds since the fixes b3ec533 / 4a5c19a (reset at the top of
    `unpack`); before them the models had only `…_partial` statements and stale-read witnesses, which are
    kept below as examples showing that the same histories are now clean. -/

/-! ### ADTS -/

theorem ADTS_unpack_result_independent (t u : ADTS) (buf : Bytes) : (ADTS.unpack t buf).2 = (ADTS.unpack u buf).2 := by
  simp only [ADTS.unpack]
  repeat' split
  all_goals rfl

/-- `ADTS.unpack` writes `aac`, `sampling_freq`, `_length`, `no_crc` on every successful path and never
    touches `version` (no statement of the class assigns it after `__init__`) -/
theorem ADTS_unpack_state_independent (t u : ADTS) (buf : Bytes) (hv : t.version = u.version)
    (h : (ADTS.unpack t buf).2 = .ok ()) : ADTS.unpack t buf = ADTS.unpack u buf := by
  revert h
  simp only [ADTS.unpack]
  repeat' split
  all_goals simp_all

example : (ADTS.unpack ADTS.fresh [0xFF, 0xF1, 0x50, 0x80, 0x02, 0x1F, 0xFC, 1, 2]).2 = .ok () := by rfl

/-! ### ParserAligned.ARINC429 -/

/-- all five attributes are assigned from the four bytes -/
theorem PA429_unpack_state_independent (t u : A429) (buf : Bytes) : 
    (A429.unpack t buf).2 = .ok () → A429.unpack t buf = A429.unpack u buf := by
  intro h
  by_cases hl : buf.length = 4
  · obtain ⟨b1, b2, b3, b4, rfl⟩ := len4 buf hl
    obtain ⟨l, hl1, hu⟩ := A429_unpack_cons t b1 b2 b3 b4
    obtain ⟨l', hl2, hu'⟩ := A429_unpack_cons u b1 b2 b3 b4
    rw [hl1] at hl2; injection hl2 with hl2; subst hl2
    rw [hu, hu']
  · rw [A429_unpack_badlen t buf hl] at h; simp at h

example : (A429.unpack A429.fresh [0xE5, 0x12, 0x37, 0xFE]).2 = .ok () := by rfl

/-! ### STANAG4609_SEI -/

theorem SEI_unpack_result_independent (t u : SEI) (buf : Bytes) : (SEI.unpack t buf).2 = (SEI.unpack u buf).2 := by
  simp only [SEI.unpack, SEI.signed]
  repeat' split
  all_goals rfl

/-- every attribute is reset or assigned on every successful path: the object left behind is a function
    of the bytes -/
theorem SEI_unpack_state_independent (t u : SEI) (buf : Bytes) (h : (SEI.unpack t buf).2 = .ok ()) :
    SEI.unpack t buf = SEI.unpack u buf := by
  revert h
  simp only [SEI.unpack, SEI.signed]
  repeat' split
  all_goals simp_all

/-- even a FAILED decode leaves a state that depends on the old one only through `payloadtype` /
    `payloadsize` (untouched when the very first read fails) -/
theorem SEI_unpack_state_independent_on_error (t u : SEI) (buf : Bytes)
    (h1 : t.payloadtype = u.payloadtype) (h2 : t.payloadsize = u.payloadsize) :
    SEI.unpack t buf = SEI.unpack u buf := by
  simp only [SEI.unpack, SEI.signed]
  repeat' split
  all_goals simp_all

example : (SEI.unpack { SEI.fresh with stanag := true, status := some 9 } [4, 0]).2 = .ok () := by rfl

/-- the former stale read (signed time, then a payload of another type into the same object): the second
    decode now leaves exactly what a new object gets -/
example :
    let signed : Bytes := [5, 28, 0x4D, 0x49, 0x53, 0x50, 0x6D, 0x69, 0x63, 0x72, 0x6F, 0x73, 0x65, 0x63, 0x74, 0x69, 0x6D, 0x65,
                           0x1F, 0, 0, 0xFF, 0, 0, 0xFF, 0, 0, 0xFF, 0, 5]
    let other : Bytes := [4, 0]
    (SEI.unpack SEI.fresh signed).1.stanag = true ∧
    (SEI.unpack (SEI.unpack SEI.fresh signed).1 other).1.stanag = false ∧
    (SEI.unpack (SEI.unpack SEI.fresh signed).1 other).1.time.isSome = false ∧
    (SEI.unpack (SEI.unpack SEI.fresh signed).1 other).1 = (SEI.unpack SEI.fresh other).1 :=
  ⟨by decide +kernel, by decide +kernel, by decide +kernel, by decide +kernel⟩

/-! ### NAL -/

theorem NAL_unpack_result_independent (t u : NAL) (buf : Bytes) : (NAL.unpack t buf).2 = (NAL.unpack u buf).2 := by
  simp only [NAL.unpack]
  repeat' split
  all_goals simp_all

/-- `type`, `size` and `sei` are written on every successful path (`sei` is `None` or a NEW object decoded from
    the bytes); `offset` is the container's and is never written -/
theorem NAL_unpack_state_independent (t u : NAL) (buf : Bytes) (ho : t.offset = u.offset)
    (h : (NAL.unpack t buf).2 = .ok ()) : NAL.unpack t buf = NAL.unpack u buf := by
  revert h
  simp only [NAL.unpack]
  repeat' split
  all_goals simp_all

example : (NAL.unpack NAL.fresh [0, 0, 0, 1, 6, 4, 0]).2 = .ok () := by rfl

/-- the former stale read (an SEI NAL, then an IDR slice into the same object): `sei` is `None` again -/
example :
    let seiNal : Bytes := [0, 0, 0, 1, 6, 4, 0]
    let idr : Bytes := [0, 0, 0, 1, 0x65, 0x88]
    (NAL.unpack NAL.fresh seiNal).1.sei.isSome = true ∧
    (NAL.unpack (NAL.unpack NAL.fresh seiNal).1 idr).1.sei.isSome = false ∧
    (NAL.unpack (NAL.unpack NAL.fresh seiNal).1 idr).1 = (NAL.unpack NAL.fresh idr).1 :=
  ⟨by decide +kernel, by decide +kernel, by decide +kernel⟩

/-! ### H264 -/

theorem H264_unpack_result_independent (t u : H264) (buf : Bytes) : (H264.unpack t buf).2 = (H264.unpack u buf).2 := by
  simp only [H264.unpack]
  repeat' split
  all_goals simp_all

/-- `unpack` never reads the prior state: result and object are functions of the bytes, on success and on
    failure alike -/
theorem H264_unpack_state_independent (t u : H264) (buf : Bytes) : H264.unpack t buf = H264.unpack u buf := rfl

/-- a list assigned by the user no longer survives a decode -/
example : (H264.unpack { nals := [NAL.fresh, NAL.fresh] } [0x61]).1.nals = [] := by decide +kernel

/-! ### IPv6.pack -/

/-- `pack` writes `len` and nothing else -/
theorem IPv6_pack_preserves_fields (s : IPv6) :
    (IPv6.pack s).1 = s ∨ (IPv6.pack s).1 = { s with len := s.payload.length } := by
  simp only [IPv6.pack]
  repeat' split
  all_goals simp

theorem IPv6_pack_idempotent (s : IPv6) (b : Bytes) (h : (IPv6.pack s).2 = .ok b) :
    IPv6.pack (IPv6.pack s).1 = IPv6.pack s := by
  revert h
  simp only [IPv6.pack, IPv6.word0]
  repeat' split
  all_goals simp_all

example : (IPv6.pack { IPv6.fresh with payload := [1, 2, 3] }).2.isOk = true := by rfl

end Acra.Props.C13
