import Acra.Model.iNET
namespace Acra.Props.C13
open Acra.Py Acra.Model.iNET Acra.Gen.iNET

/-- the only field `iNETPackage.pack` writes is the (private) computed length -/
theorem iNETPackage_pack_preserves_fields (p : Pkg) :
    (Pkg.pack p).1 = { p with length := PKG_FORMAT_LEN + p.payload.length } := by
  simp only [Pkg.pack]; split <;> rfl

theorem iNETPackage_pack_idempotent (p : Pkg) : Pkg.pack (Pkg.pack p).1 = Pkg.pack p := by
  rw [iNETPackage_pack_preserves_fields]; rfl

/-- a successful unpack leaves the package in the state a fresh package would be in -/
theorem iNETPackage_unpack_state_independent (t u : Pkg) (buf r : Bytes) (h : (Pkg.unpack t buf).2 = .ok r) :
    Pkg.unpack t buf = Pkg.unpack u buf := by
  revert h
  simp only [Pkg.unpack]
  split
  · rename_i d l res f td hh
    by_cases hl : l < PKG_FORMAT_LEN
    · simp [hl]
    · simp [hl]
  · simp
  · simp

/-- non-vacuity: a package object holding other values decodes a 5-byte-payload package (padded) followed by a byte -/
example :
    let a : Pkg := { Pkg.fresh with definitionID := 7, flags := 255, payload := [1, 2, 3, 4, 5] }
    let t : Pkg := { Pkg.fresh with definitionID := 1, payload := [9] }
    ∃ b, (Pkg.pack a).2 = .ok b ∧ (Pkg.unpack t (b ++ [0xEE])).2 = .ok [0xEE] :=
  ⟨_, rfl, rfl⟩

theorem packPkgs_idem (ps : List Pkg) : packPkgs (packPkgs ps).1 = packPkgs ps := by
  induction ps with
  | nil => rfl
  | cons b bs ih =>
    have hb := iNETPackage_pack_idempotent b
    cases hp : b.pack with
    | mk b' r =>
      rw [hp] at hb
      simp only at hb
      cases r with
      | error e => simp only [packPkgs, hp, hb]
      | ok x =>
        cases hq : packPkgs bs with
        | mk bs' r2 =>
          rw [hq] at ih
          simp only at ih
          cases r2 with
          | ok y => simp only [packPkgs, hp, hq, hb, ih]
          | error e => simp only [packPkgs, hp, hq, hb, ih]

/-- `iNET.pack` depends only on the fields: a second call returns the same result and leaves every
    field (including the rebuilt payload, the length and the packages' length fields) as the first did -/
theorem iNET_pack_idempotent (s : State) : pack (pack s).1 = pack s := by
  have hi := packPkgs_idem s.packages
  cases hp : packPkgs s.packages with
  | mk pk r =>
    rw [hp] at hi
    simp only at hi
    cases r with
    | error e => simp only [pack, hp, hi]
    | ok pl =>
      simp only [pack, hp]
      repeat' split
      all_goals simp_all

/-- a successful unpack leaves the object in the state a fresh object would be in: every attribute,
    the package list and the application fields included, is rebuilt from the bytes -/
theorem iNET_unpack_state_independent (t u : State) (buf : Bytes) (h : (unpack t buf).2 = .ok ()) :
    unpack t buf = unpack u buf := by
  revert h
  simp only [unpack]
  split
  · simp
  · split
    · split
      · simp
      · split
        · simp
        · simp
    · simp
    · simp

/-- non-vacuity: an object holding one package and one application field decodes a 64-byte packet with two
    application fields and two packages, and ends with exactly those -/
example :
    let a : State := { fresh with type := 3, app_fields := [1, 2],
                                  packages := [{ Pkg.fresh with definitionID := 7, payload := [1, 2, 3, 4, 5] }, Pkg.fresh] }
    let t : State := { fresh with app_fields := [9], packages := [Pkg.fresh] }
    ∃ b, (pack a).2 = .ok b ∧ b.length = 64 ∧ (unpack t b).2 = .ok () ∧ (unpack t b).1.packages.length = 2 ∧
      (unpack t b).1.app_fields = [1, 2] :=
  ⟨_, rfl, rfl, rfl, rfl, rfl⟩

end Acra.Props.C13
