import Acra.Lemmas.Ch11PCM
import Acra.Lemmas.Ch11MIL1553
namespace Acra.Props.C13
open Acra.Py Acra.Model.Ch11Pay Acra.Model.Ch11Pay.PCM Acra.Gen.Ch11PCM Acra.Lemmas.Ch11PCM Acra.Lemmas.Ch11Pay
open Acra.Lemmas.Ch11MIL1553 (Ipts_unpack_congr)

/-- a successful minor-frame unpack leaves an object with the same codec options (throughput switch,
    alignment, kind of time stamp) exactly as it would leave a new one: since the `fix:` commit that
    clears `syncword`, `sfid` and the data header at the start of `unpack`, no attribute survives -/
theorem PCMFrame_unpack_state_independent (t u : Frame) (buf : Bytes) (ex : Bool)
    (hthr : t.throughput = u.throughput) (hal : t.alignment = u.alignment) (hk : sameKind t.ipts u.ipts)
    (h : (Frame.unpack t buf ex).2 = .ok ()) : Frame.unpack t buf ex = Frame.unpack u buf ex := by
  have hn : (t.ipts = .none) = (u.ipts = .none) := by
    cases hti : t.ipts <;> cases hui : u.ipts <;> simp_all [sameKind]
  revert h
  simp only [Frame.unpack, hn, Ipts_unpack_congr _ _ _ hk, hthr, hal]
  repeat' split
  all_goals simp_all

/-- the former witness of the defect: a frame object whose `syncword` was set no longer keeps it
    through `unpack(buf)` -/
example :
    let buf : Bytes := [1, 0, 0, 0, 0, 0, 0, 0, 7, 0, 0xAA, 0xBB]
    let fresh : Frame := Frame.fresh (some 0) false 0
    let used : Frame := { fresh with syncword := some 5 }
    (Frame.unpack used buf false).2 = .ok () ∧
    (Frame.unpack used buf false).1.syncword = Option.none ∧
    (Frame.unpack used buf false).1 = (Frame.unpack fresh buf false).1 :=
  ⟨rfl, rfl, rfl⟩

/-- a successful packet unpack leaves an object with the same options (time-stamp source, assigned
    size, sync word) exactly as it would leave a new one; `pack` does not modify the object -/
theorem PCM_unpack_state_independent (t u : Packet) (buf : Bytes) (ex : Bool) (ho : t.ipts_source = u.ipts_source)
    (ha : t.assigned = u.assigned) (hs : t.syncword = u.syncword) (h : (Packet.unpack t buf ex).2 = .ok ()) :
    (Packet.unpack t buf ex).1 = (Packet.unpack u buf ex).1 ∧ (Packet.unpack u buf ex).2 = .ok () := by
  have hd : ∀ hl, detect t buf hl = detect u buf hl := by intro hl; simp [detect, hs]
  revert h
  simp only [Packet.unpack, ho, ha, hd]
  cases t; cases u
  simp only at ho ha hs
  subst ho ha hs
  repeat' split
  all_goals simp_all

/-- non-vacuity: a packet object with the same options that still holds a frame and a detected size decodes the
    encoding of a one-frame packet (PTP stamps, 32-bit alignment, 3 data bytes) -/
example :
    let a : Packet := ⟨0x200000, some 1, some 3, Option.none, Option.none,
      [⟨.ptp 7 8, false, some 0xFFFFFFFF, [1, 2, 3], 1, Option.none, Option.none⟩]⟩
    let t : Packet := { (Packet.fresh (some 1) Option.none (some 3)) with
      minor_frames := [⟨.ptp 1 1, false, some 5, [9, 9, 9], 1, Option.none, Option.none⟩], detected := some 77 }
    t.ipts_source = a.ipts_source ∧ t.assigned = a.assigned ∧ t.syncword = a.syncword ∧
    ∃ b, a.pack = .ok b ∧ (Packet.unpack t b false).2 = .ok () ∧ (Packet.unpack t b false).1.minor_frames.length = 1 :=
  ⟨rfl, rfl, rfl, _, rfl, rfl, rfl⟩

end Acra.Props.C13
