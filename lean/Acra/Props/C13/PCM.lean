import Acra.Lemmas.Ch11PCM
import Acra.Lemmas.Ch11MIL1553
namespace Acra.Props.C13
open Acra.Py Acra.Model.Ch11Pay Acra.Model.Ch11Pay.PCM Acra.Gen.Ch11PCM Acra.Lemmas.Ch11PCM Acra.Lemmas.Ch11Pay
open Acra.Lemmas.Ch11MIL1553 (Ipts_unpack_congr)

/-
  Full statement (C13, `unpack` depends only on the bytes):
    ∀ t u buf ex, same codec options (throughput, alignment, time-stamp kind) → unpack succeeds →
      Frame.unpack t buf ex = Frame.unpack u buf ex
  This is FALSE of `PCMMinorFrame.unpack`: with `extract_sync_sfid=False` it leaves `syncword` / `sfid`
  as they were, and in throughput mode it leaves `intra_packet_data_header` as it was (witness below).
  Proved instead: the result is the same whenever the two objects also agree on those three attributes
  (`…_partial`), and unconditionally when the sync word and sub-frame id are extracted in packed mode.
-/
theorem PCMFrame_unpack_state_independent_partial (t u : Frame) (buf : Bytes) (ex : Bool)
    (hthr : t.throughput = u.throughput) (hal : t.alignment = u.alignment) (hk : sameKind t.ipts u.ipts)
    (hs : t.syncword = u.syncword) (hf : t.sfid = u.sfid) (hh : t.hdr = u.hdr)
    (h : (Frame.unpack t buf ex).2 = .ok ()) : Frame.unpack t buf ex = Frame.unpack u buf ex := by
  have hn : (t.ipts = .none) = (u.ipts = .none) := by
    cases hti : t.ipts <;> cases hui : u.ipts <;> simp_all [sameKind]
  revert h
  simp only [Frame.unpack, hn, Ipts_unpack_congr _ _ _ hk, hthr, hal]
  repeat' split
  all_goals simp_all

theorem PCMFrame_unpack_state_independent_extract (t u : Frame) (buf : Bytes)
    (hthr : t.throughput = false) (hthr' : u.throughput = false) (hal : t.alignment = u.alignment)
    (hk : sameKind t.ipts u.ipts)
    (h : (Frame.unpack t buf true).2 = .ok ()) : Frame.unpack t buf true = Frame.unpack u buf true := by
  have hn : (t.ipts = .none) = (u.ipts = .none) := by
    cases hti : t.ipts <;> cases hui : u.ipts <;> simp_all [sameKind]
  revert h
  simp only [Frame.unpack, hn, Ipts_unpack_congr _ _ _ hk, hthr, hthr', hal]
  repeat' split
  all_goals simp_all

/-- the witness: a frame object whose `syncword` was set (by an earlier `unpack(…, True)` or by
    assignment) keeps it through `unpack(buf)`, and then packs differently from a new object given
    the same bytes -/
example :
    let buf : Bytes := [1, 0, 0, 0, 0, 0, 0, 0, 7, 0, 0xAA, 0xBB]
    let fresh : Frame := Frame.fresh (some 0) false 0
    let used : Frame := { fresh with syncword := some 5 }
    (Frame.unpack used buf false).2 = .ok () ∧ (Frame.unpack fresh buf false).2 = .ok () ∧
    (Frame.unpack used buf false).1.syncword = some 5 ∧ (Frame.unpack fresh buf false).1.syncword = Option.none ∧
    ∃ b1 b2, (Frame.unpack used buf false).1.pack = .ok b1 ∧ (Frame.unpack fresh buf false).1.pack = .ok b2 ∧ b1 ≠ b2 :=
  ⟨rfl, rfl, rfl, rfl, _, _, rfl, rfl, by decide⟩

/-- a successful packet unpack leaves an object with the same options (time-stamp source, assigned
    size, sync word) exactly as it would leave a new one; `pack` does not modify the object -/
theorem PCM_unpack_state_independent (t u : Packet) (buf : Bytes) (ex : Bool) (ho : t.ipts_source = u.ipts_source)
    (ha : t.assigned = u.assigned) (hs : t.syncword = u.syncword) (h : (Packet.unpack t buf ex).2 = .ok ()) :
    (Packet.unpack t buf ex).1 = (Packet.unpack u buf ex).1 ∧ (Packet.unpack u buf ex).2 = .ok () := by
  have hd : ∀ hl, detect t buf hl = detect u buf hl := by intro hl; simp [detect, hs]
  revert h
  simp only [Packet.unpack, ho, ha, hd]
  cases t; cases u
  simp only at ho ha hs
  subst ho ha hs
  repeat' split
  all_goals simp_all

end Acra.Props.C13
