import Acra.Model.Ch11Video
import Acra.Lemmas.Ch11Video
import Acra.Lemmas.ReviewC06
import Acra.Props.C13.Mpeg
import Acra.Props.C04.Video
namespace Acra.Props.C13
open Acra.Py Acra.Model.Ch11Pay.Video Acra.Model.MPEGTS Acra.Gen.Ch11Video Acra.Lemmas.MPEGTS

/-- `VideoFormat2.unpack` assigns the channel-specific word, the data-stream bit and a NEW `MPEGTS` object decoded from
    the rest of the buffer: a successful unpack does not depend on the prior state -/
theorem Video_unpack_state_independent (t u : State) (buf : Bytes) (h : (unpack t buf).2 = .ok ()) :
    unpack t buf = unpack u buf := by
  revert h
  simp only [unpack]
  repeat' split
  all_goals simp_all

set_option maxRecDepth 20000 in
/-- non-vacuity: a video payload object holding a stale block decodes the C04 example stream (three packets, two of
    them with adaptation fields) -/
example :
    let t : State := ⟨5, 0, { blocks := [{ Pkt.fresh with pid := 9, payload := [1] }] }⟩
    ((pack C04.videoExample).2.toOption.map fun b =>
      (b.length, (unpack t b).2.toOption, (unpack t b).1.mpegts.blocks.length)) = some (568, some (), 3) := by
  decide +kernel

/-- `VideoFormat2.pack` mutates the adaptation-field objects of its blocks (through `MPEGTS.pack`); packing twice gives
    the same result and leaves every field as the first call left it -/
theorem Video_pack_idempotent (s : State) (h : ∀ p ∈ s.mpegts.blocks, Pkt_WF p) : pack (pack s).1 = pack s := by
  have hi := MPEGTS_pack_idempotent s.mpegts h
  simp only [pack]
  cases hh : structPack VID_pack_fmt0 [s.channel_specific_word] with
  | error e => simp only [hh]
  | ok hb =>
    simp only
    cases hp : TS.pack s.mpegts with
    | mk ts r =>
      rw [hp] at hi
      simp only at hi
      cases r with
      | ok body => simp only [hh, hi]
      | error e => simp only [hh, hi]

/-- non-vacuity: the blocks of the C04 example are well formed, and the first `pack` changes the object (the splicing
    flag of the second block is switched on) -/
example : (∀ p ∈ C04.videoExample.mpegts.blocks, Pkt_WF p) ∧ (pack C04.videoExample).1 ≠ C04.videoExample := by
  decide +kernel

end Acra.Props.C13
