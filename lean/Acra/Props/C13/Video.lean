import Acra.Model.Ch11Video
namespace Acra.Props.C13
open Acra.Py Acra.Model.Ch11Pay Acra.Model.Ch11Pay.Video Acra.Gen.Ch11Video

/-- `VideoFormat2.unpack` assigns the channel-specific word, the data-stream bit and (through the nested
    `MPEGTS.unpack`, which starts from an empty list) the transport-stream packets: a successful unpack
    does not depend on the prior state; `pack` does not modify the object -/
theorem Video_unpack_state_independent (t u : State) (buf : Bytes) (h : (unpack t buf).2 = .ok ()) :
    unpack t buf = unpack u buf := by
  revert h
  simp only [unpack]
  repeat' split
  all_goals simp_all

end Acra.Props.C13
