import Acra.Model.Ch11Video
namespace Acra.Props.C13
open Acra.Py Acra.Model.Ch11Pay Acra.Model.Ch11Pay.Video Acra.Gen.Ch11Video

/-- `VideoFormat2.unpack` assigns the channel-specific word, the data-stream bit and (through the nested
    `MPEGTS.unpack`, which starts from an empty list) the transport-stream packets: a successful unpack
    does not depend on the prior state; `pack` does not modify the object -/
theorem Video_unpack_state_independent (t u : State) (buf : Bytes) (h : (unpack t buf).2 = .ok ()) :
    unpack t buf = unpack u buf := by
  revert h
  simp only [unpack]
  repeat' split
  all_goals simp_all

set_option maxRecDepth 20000 in
/-- non-vacuity: a video payload object holding two stale chunks decodes a payload of one 188-byte transport packet -/
example :
    let a : State := ⟨0x1000, 1, [[0x47, 0x01, 0x00, 0x10] ++ List.replicate 184 0xAB]⟩
    let t : State := ⟨5, 0, [[1], [2]]⟩
    ∃ b, pack a = .ok b ∧ b.length = 192 ∧ (unpack t b).2 = .ok () ∧ (unpack t b).1.blocks.length = 1 :=
  ⟨_, rfl, rfl, rfl, rfl⟩

end Acra.Props.C13
