import Acra.Lemmas.Ch11UART
namespace Acra.Props.C13
open Acra.Py Acra.Model.Ch11Pay Acra.Model.Ch11Pay.UART Acra.Gen.Ch11UART Acra.Lemmas.Ch11UART Acra.Lemmas.Ch11Pay

theorem unpackTs_congr (t u : Ipts) (buf : Bytes) (h : sameKind t u) : unpackTs t buf = unpackTs u buf := by
  cases t <;> cases u <;> simp_all [sameKind, unpackTs, Ipts.unpack]

/-- a word decoder with the same time-stamp kind and byte order gives the same result whatever the
    object held before (`pack` does not modify the object at all) -/
theorem UARTWord_unpack_state_independent (t u : Word) (buf : Bytes) (hk : sameKind t.ipts u.ipts)
    (he : t.data_endianness = u.data_endianness) (h : ∃ n, (Word.unpack t buf).2 = .ok n) :
    Word.unpack t buf = Word.unpack u buf := by
  obtain ⟨n, h⟩ := h
  revert h
  simp only [Word.unpack, unpackTs_congr _ _ _ hk, he]
  repeat' split
  all_goals simp_all

/-- non-vacuity: a word object of the same stamp kind and byte order, holding other data and a parity flag, decodes
    the encoding of a 3-byte word -/
example :
    let a : Word := Word.setPayload (Word.fresh (.ptp 5 999999999) 1) [1, 2, 3]
    let t : Word := { Word.setPayload (Word.fresh (.ptp 1 1) 1) [7] with parity_error := true }
    sameKind t.ipts a.ipts ∧ t.data_endianness = a.data_endianness ∧ ∃ b n, a.pack = .ok b ∧ (Word.unpack t b).2 = .ok n :=
  ⟨by simp [sameKind, Word.setPayload, Word.fresh], rfl, _, _, rfl, rfl⟩

/-- a successful packet unpack leaves an object with the same options exactly as it would leave a new one -/
theorem UART_unpack_state_independent (t u : Packet) (buf : Bytes) (ho : t.ipts_source = u.ipts_source)
    (he : t.data_endianness = u.data_endianness) (h : (Packet.unpack t buf).2 = .ok ()) :
    (Packet.unpack t buf).1 = (Packet.unpack u buf).1 ∧ (Packet.unpack u buf).2 = .ok () := by
  have hp : t.proto = u.proto := by simp [Packet.proto, ho, he]
  revert h
  simp only [Packet.unpack, hp]
  cases hc : structUnpackFrom UP_unpack_fmt0 buf 0 with
  | error e => simp
  | ok v =>
    cases hq : u.proto with
    | none => simp
    | some proto =>
      cases hd : decOff (decWord proto) moreUART buf (buf.length + 1) 4 with
      | error e => simp [hd]
      | ok ws =>
        simp only [hd]
        intro _
        cases t; cases u; simp_all

/-- non-vacuity: a packet object with the same options that still holds a word decodes a two-word packet -/
example :
    let a : Packet := { uartwords := [Word.setPayload (Word.fresh (.ptp 5 999999999) 1) [1, 2, 3],
                                      { Word.fresh (.ptp 6 0) 1 with parity_error := true, subchannel := 0x1FFF }],
                        ipts_source := some 1, data_endianness := 1 }
    let t : Packet := { uartwords := [Word.setPayload (Word.fresh (.ptp 1 1) 1) [7]], ipts_source := some 1, data_endianness := 1 }
    ∃ b, a.pack = .ok b ∧ (Packet.unpack t b).2 = .ok () ∧ (Packet.unpack t b).1.uartwords.length = 2 :=
  ⟨_, rfl, rfl, rfl⟩

end Acra.Props.C13
