import Acra.Lemmas.MpegPackVia
import Acra.Lemmas.ReviewC06
import Acra.Props.C13.Mpeg
import Acra.Props.C06.PMT
import Acra.Props.C06.STANAG
namespace Acra.Props.C13
open Acra.Py Acra.Model.MPEGTS Acra.Model.PMT Acra.Model.PES Acra.Lemmas.MPEGTS Acra.Lemmas.MpegPackVia

/-! `pack` twice for the two remaining composite MPEG classes (rev2 "not repaired" item 3).  Both `pack`s rebuild a
    byte string from fields that `pack` itself does not write (`PMT_payloadR`, `STANAG_dataR` in
    `Lemmas/MpegPackVia.lean`, valid for EVERY object) and end in `MPEGPacket.pack` / `PES.pack`; the second call
    therefore sees the same byte string and `Pkt_pack_same_payload` / `PES_pack_idempotent` finish.
    The only hypothesis is that of those two theorems: the embedded transport header is well formed.  It covers the
    calls on which a nested `struct.pack` raises (same exception, same object left behind). -/

/-- `MPEGPacketPMT.pack` twice: same result (bytes or exception), every field — `program_info_len`, the rebuilt
    `payload`, the adaptation-field object — as the first call left it -/
theorem PMT_pack_idempotent (s : PMT) (h : Pkt_WF s.pkt) : PMT.pack (PMT.pack s).1 = PMT.pack s := by
  rw [PMT_pack_via s]
  cases hp : PMT_payloadR s with
  | error e =>
    simp only
    rw [PMT_pack_via, show PMT_payloadR { s with program_info_len := PMT_pil s } = PMT_payloadR s from rfl, hp]
    rfl
  | ok pl =>
    simp only
    rw [PMT_pack_via,
      show PMT_payloadR { s with program_info_len := PMT_pil s, pkt := (Pkt.pack { s.pkt with payload := pl }).1 }
        = PMT_payloadR s from rfl, hp]
    simp only
    rw [Pkt_pack_same_payload s.pkt pl false h]
    rfl

set_option maxRecDepth 20000 in
/-- non-vacuity: the PMT example of C06 (one descriptor, two streams) with a stale `program_info_len`, a stale
    payload and an adaptation field whose length `pack` rewrites; the first `pack` changes the object, the second
    does not -/
example :
    let s : PMT :=
      { C06.pmtExample with
        program_info_len := 99,
        pkt := { Pkt.fresh with
                 adaption_ctrl := 3, payload := [1, 2, 3],
                 adaption_field := some { AF.fresh with pcr := [1, 2, 3, 4, 5, 6] } } }
    Pkt_WF s.pkt ∧ (PMT.pack s).1 ≠ s ∧ (PMT.pack s).1.program_info_len = 4 ∧
    ((PMT.pack s).2.toOption.map List.length) = some 188 := by
  decide +kernel

/-- `STANAG4609.pack` twice: same result, every field — the forced PID, the rebuilt `pesdata` and `payload` — as the
    first call left it.  The transport header must be well formed once the PID is forced to 0x104 (so an object
    whose own PID is out of range is covered). -/
theorem STANAG_pack_idempotent (s : STANAG)
    (h : Pkt_WF { s.pes.pkt with pid := Acra.Gen.PES.STANAG4609_PID }) :
    STANAG.pack (STANAG.pack s).1 = STANAG.pack s := by
  have hff : ∀ x : STANAG, x.pes.pkt.pid = Acra.Gen.PES.STANAG4609_PID → STANAG_pidForced x = x := by
    intro x hx
    obtain ⟨⟨⟨sync, pid, tei, pusi, tp, tsc, ac, cc, pl, af⟩, sid, pd, w1, w2, hd⟩, c, u1, u2, tm⟩ := x
    simp only at hx
    subst hx
    rfl
  rw [STANAG_pack_via s]
  cases hp : STANAG_dataR s with
  | error e =>
    simp only
    rw [STANAG_pack_via, show STANAG_dataR (STANAG_pidForced s) = STANAG_dataR s from rfl, hp]
    simp only
    rw [hff (STANAG_pidForced s) rfl]
  | ok d =>
    simp only
    generalize hq : ({ (STANAG_pidForced s).pes with pesdata := d } : PES) = q
    have hqw : Pkt_WF q.pkt := by rw [← hq]; exact h
    have hk := PES_pack_keeps q
    have hqd : q.pesdata = d := by rw [← hq]
    have hqp : q.pkt.pid = Acra.Gen.PES.STANAG4609_PID := by rw [← hq]; rfl
    rw [STANAG_pack_via,
      show STANAG_dataR { STANAG_pidForced s with pes := (PES.pack q).1 } = STANAG_dataR s from rfl, hp]
    simp only
    rw [hff { STANAG_pidForced s with pes := (PES.pack q).1 } (by show (PES.pack q).1.pkt.pid = _; rw [hk.2, hqp])]
    have e : ({ (PES.pack q).1 with pesdata := d } : PES) = (PES.pack q).1 := by
      have := hk.1
      rw [hqd] at this
      generalize PES.pack q = r at this ⊢
      obtain ⟨⟨pk, sid, pd, w1, w2, hd⟩, res⟩ := r
      simp only at this
      subst this
      rfl
    show ({ STANAG_pidForced s with pes := (PES.pack { (PES.pack q).1 with pesdata := d }).1 },
          (PES.pack { (PES.pack q).1 with pesdata := d }).2) = _
    rw [e, PES_pack_idempotent q hqw]

set_option maxRecDepth 20000 in
/-- non-vacuity: the STANAG packet of C06 with a PID outside the 13-bit field (the object's own header is NOT well
    formed), stale metadata and a stale payload; the first `pack` changes the object (PID, `pesdata`), the second
    does not -/
example :
    let s : STANAG :=
      { C06.stanagExample with
        pes := { C06.stanagExample.pes with
                 pesdata := [9, 9],
                 pkt := { C06.stanagExample.pes.pkt with pid := 0x2000, payload := [5] } } }
    Pkt_WF { s.pes.pkt with pid := Acra.Gen.PES.STANAG4609_PID } ∧ ¬ Pkt_WF s.pes.pkt ∧
    (STANAG.pack s).1 ≠ s ∧ (STANAG.pack s).1.pes.pkt.pid = 0x104 ∧ (STANAG.pack s).1.pes.pesdata.length = 36 ∧
    ((STANAG.pack s).2.toOption.map List.length) = some 188 := by
  decide +kernel

/-- the hypothesis in its plain form: a well-formed transport header stays well formed when the PID is forced -/
theorem STANAG_pack_idempotent_wf (s : STANAG) (h : Pkt_WF s.pes.pkt) :
    STANAG.pack (STANAG.pack s).1 = STANAG.pack s :=
  STANAG_pack_idempotent s ⟨h.1, (by show Acra.Gen.PES.STANAG4609_PID < 8192; decide), h.2.2.1, h.2.2.2.1, h.2.2.2.2.1, h.2.2.2.2.2.1, h.2.2.2.2.2.2⟩

example : Pkt_WF C06.stanagExample.pes.pkt := by decide +kernel

end Acra.Props.C13
