import Acra.Model.Ch11Misc
import Acra.Model.Ch11TimeFmt
namespace Acra.Props.C13
open Acra.Py Acra.Model.Ch11Pay

/-- decoders that assign every attribute: a successful unpack does not depend on the prior state;
    `pack` of `Analog`, `ComputerGeneratedFormat0`, the time formats does not modify the object -/
theorem Analog_unpack_state_independent (t u : Analog.State) (buf : Bytes) (h : (Analog.unpack t buf).2 = .ok ()) :
    Analog.unpack t buf = Analog.unpack u buf := by
  revert h; simp only [Analog.unpack]; repeat' split
  all_goals simp_all

/-- non-vacuity: a used object decodes the encoding of a 3-byte analog payload successfully and ends as the sender -/
example :
    let a : Analog.State := { channel_specific_word := 0xDEADBEEF, data := [1, 2, 3] }
    let t : Analog.State := { channel_specific_word := 5, data := [9, 9] }
    ∃ b, Analog.pack a = .ok b ∧ b.length = 7 ∧ (Analog.unpack t b).2 = .ok () ∧ (Analog.unpack t b).1 = a :=
  ⟨_, rfl, rfl, rfl, rfl⟩

theorem CG0_unpack_state_independent (t u : Computer.State0) (buf : Bytes) (h : (Computer.State0.unpack t buf).2 = .ok ()) :
    Computer.State0.unpack t buf = Computer.State0.unpack u buf := by
  revert h; simp only [Computer.State0.unpack]; repeat' split
  all_goals simp_all

example :
    let a : Computer.State0 := { csdw := 7, payload := [0x41] }
    let t : Computer.State0 := { csdw := 99, payload := [1, 2, 3] }
    ∃ b, a.pack = .ok b ∧ b.length = 5 ∧ (Computer.State0.unpack t b).2 = .ok () ∧ (Computer.State0.unpack t b).1 = a :=
  ⟨_, rfl, rfl, rfl, rfl⟩

theorem CG1_unpack_state_independent (t u : Computer.State1) (buf : Bytes) (h : (Computer.State1.unpack t buf).2 = .ok ()) :
    Computer.State1.unpack t buf = Computer.State1.unpack u buf := by
  revert h
  simp only [Computer.State1.unpack]
  cases ht : Computer.State0.unpack t.base buf with
  | mk b r =>
    cases r with
    | error e => simp
    | ok x =>
      have := CG0_unpack_state_independent t.base u.base buf (by rw [ht])
      rw [← this, ht]
      intro _; rfl

example :
    let a : Computer.State1 := { base := { csdw := 0, payload := [1, 2] }, frmt := 1, srcc := 0, rccver := 0xE }
    let t : Computer.State1 := { base := { csdw := 3, payload := [7] }, frmt := 0, srcc := 1, rccver := 9 }
    ∃ b, a.pack.2 = .ok b ∧ b.length = 6 ∧ (Computer.State1.unpack t b).2 = .ok () ∧
      (Computer.State1.unpack t b).1 = a.pack.1 :=
  ⟨_, rfl, rfl, rfl, rfl⟩

/-- `ComputerGeneratedFormat1.pack` rebuilds `_csdw` from the three fields; a second call changes nothing -/
theorem CG1_pack_idempotent (s : Computer.State1) : s.pack.1.pack = s.pack := by
  simp only [Computer.State1.pack]
  repeat' split
  all_goals simp_all

theorem CG1_pack_preserves_fields (s : Computer.State1) :
    s.pack.1.frmt = s.frmt ∧ s.pack.1.srcc = s.srcc ∧ s.pack.1.rccver = s.rccver ∧ s.pack.1.base.payload = s.base.payload := by
  simp only [Computer.State1.pack]
  repeat' split
  all_goals simp

theorem TDF1_unpack_state_independent (t u : TimeFmt.State1) (buf : Bytes) (h : (TimeFmt.State1.unpack t buf).2 = .ok ()) :
    TimeFmt.State1.unpack t buf = TimeFmt.State1.unpack u buf := by
  revert h; simp only [TimeFmt.State1.unpack]; repeat' split
  all_goals simp_all

/-- non-vacuity: 2024-02-29 12:00:00 with the year available, decoded into an object configured without year -/
example :
    let a : TimeFmt.State1 := ⟨0x251, 1709208000, 123456789⟩
    let t : TimeFmt.State1 := ⟨0x51, 5, 6⟩
    ∃ b, a.pack = .ok b ∧ (TimeFmt.State1.unpack t b).2 = .ok () := ⟨_, rfl, rfl⟩

theorem TDF2_unpack_state_independent (fl : Rat → Rat) (t u : TimeFmt.State2) (buf : Bytes)
    (h : (TimeFmt.State2.unpackWith fl t buf).2 = .ok ()) :
    TimeFmt.State2.unpackWith fl t buf = TimeFmt.State2.unpackWith fl u buf := by
  revert h; simp only [TimeFmt.State2.unpackWith]; repeat' split
  all_goals simp_all

example :
    let a : TimeFmt.State2 := { channel_specific_data := 0x21, seconds := 1709208000, nanoseconds := 999999999 }
    let t : TimeFmt.State2 := { channel_specific_data := 0x20, seconds := 1, nanoseconds := 2 }
    ∃ b, a.pack = .ok b ∧ (TimeFmt.State2.unpack t b).2 = .ok () := ⟨_, rfl, rfl⟩

end Acra.Props.C13
