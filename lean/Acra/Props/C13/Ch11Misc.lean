import Acra.Model.Ch11Misc
import Acra.Model.Ch11TimeFmt
namespace Acra.Props.C13
open Acra.Py Acra.Model.Ch11Pay

/-- decoders that assign every attribute: a successful unpack does not depend on the prior state;
    `pack` of `Analog`, `ComputerGeneratedFormat0`, the time formats does not modify the object -/
theorem Analog_unpack_state_independent (t u : Analog.State) (buf : Bytes) (h : (Analog.unpack t buf).2 = .ok ()) :
    Analog.unpack t buf = Analog.unpack u buf := by
  revert h; simp only [Analog.unpack]; repeat' split
  all_goals simp_all

theorem CG0_unpack_state_independent (t u : Computer.State0) (buf : Bytes) (h : (Computer.State0.unpack t buf).2 = .ok ()) :
    Computer.State0.unpack t buf = Computer.State0.unpack u buf := by
  revert h; simp only [Computer.State0.unpack]; repeat' split
  all_goals simp_all

theorem CG1_unpack_state_independent (t u : Computer.State1) (buf : Bytes) (h : (Computer.State1.unpack t buf).2 = .ok ()) :
    Computer.State1.unpack t buf = Computer.State1.unpack u buf := by
  revert h
  simp only [Computer.State1.unpack]
  cases ht : Computer.State0.unpack t.base buf with
  | mk b r =>
    cases r with
    | error e => simp
    | ok x =>
      have := CG0_unpack_state_independent t.base u.base buf (by rw [ht])
      rw [← this, ht]
      intro _; rfl

/-- `ComputerGeneratedFormat1.pack` rebuilds `_csdw` from the three fields; a second call changes nothing -/
theorem CG1_pack_idempotent (s : Computer.State1) : s.pack.1.pack = s.pack := by
  simp only [Computer.State1.pack]
  repeat' split
  all_goals simp_all

theorem CG1_pack_preserves_fields (s : Computer.State1) :
    s.pack.1.frmt = s.frmt ∧ s.pack.1.srcc = s.srcc ∧ s.pack.1.rccver = s.rccver ∧ s.pack.1.base.payload = s.base.payload := by
  simp only [Computer.State1.pack]
  repeat' split
  all_goals simp

theorem TDF1_unpack_state_independent (t u : TimeFmt.State1) (buf : Bytes) (h : (TimeFmt.State1.unpack t buf).2 = .ok ()) :
    TimeFmt.State1.unpack t buf = TimeFmt.State1.unpack u buf := by
  revert h; simp only [TimeFmt.State1.unpack]; repeat' split
  all_goals simp_all

theorem TDF2_unpack_state_independent (fl : Rat → Rat) (t u : TimeFmt.State2) (buf : Bytes)
    (h : (TimeFmt.State2.unpackWith fl t buf).2 = .ok ()) :
    TimeFmt.State2.unpackWith fl t buf = TimeFmt.State2.unpackWith fl u buf := by
  revert h; simp only [TimeFmt.State2.unpackWith]; repeat' split
  all_goals simp_all

end Acra.Props.C13
