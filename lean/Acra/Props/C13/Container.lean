import Acra.Model.Container
import Acra.Props.C13.iNetX
import Acra.Props.C13.IENA
import Acra.Props.C13.IENAQDN
import Acra.Props.C13.iNET
import Acra.Props.C13.NPD
import Acra.Props.C13.ParserAligned
import Acra.Props.C13.ARINC
import Acra.Props.C13.MIL1553
import Acra.Props.C13.UART
import Acra.Props.C13.PCM
import Acra.Props.C13.Ch11Misc
import Acra.Props.C13.Net
import Acra.Props.C13.Extra
import Acra.Props.C13.Mpeg
/-!
  C13 for the container protocol.

  `len(obj)` / `obj[i]` of the element-counting classes (IENA-M/Q/D/N, NPD, ParserAlignedPacket, the Chapter 11
  containers, MPEGTS, and the byte counts of ParserAlignedBlock, PcapRecord, the time formats, NAL) read the object and
  write nothing: in the model they are functions `State → Nat` / `State → Int → R Elem` that return no state, and the
  line protocol (which IS compared with the code, op by op) hands the state through unchanged.  The three classes whose
  `__len__` is `len(self.pack())` DO change the object; the exact change is stated here (`…_len_sets_…`).
  Second half: after a successful `unpack b`, `len` and every `[i]` are functions of `b` only.
-/
namespace Acra.Props.C13
open Acra.Py

/-! ### classes whose `__len__` packs -/
section packing
open Acra.Model.iNetX Acra.Gen.iNetX

/-- `len(inetx)` recomputes `packetlen` (the one field `pack` writes) and nothing else — for EVERY state, also one
    whose fields do not fit (then `len` raises, and `packetlen` has been written all the same) -/
theorem iNetX_len_sets_packetlen (s : State) :
    (len s).1 = { s with packetlen := s.payload.length + iNetX_INETX_HEADER_LENGTH } := by
  show (pack s).1 = _
  exact iNetX_pack_preserves_fields s

/-- the object after `len(o)` is the object after `o.pack()`, and the number returned is the length of those bytes;
    `len` raises exactly what `pack` raises -/
theorem iNetX_len_eq_pack (s : State) : (len s).1 = (pack s).1 ∧ (len s).2 = (pack s).2.map List.length := ⟨rfl, rfl⟩

/-- a second `len` changes nothing more and returns the same number -/
theorem iNetX_len_idempotent (s : State) : len (len s).1 = len s := by
  show (let p := pack (pack s).1; (p.1, p.2.map List.length)) = (let p := pack s; (p.1, p.2.map List.length))
  rw [iNetX_pack_idempotent]

/-- `len` after a successful `unpack b` depends on `b` only -/
theorem iNetX_len_after_unpack (t : State) (buf : Bytes) (h : (unpack t buf).2 = .ok ()) :
    len (unpack t buf).1 = len (unpack fresh buf).1 := by
  rw [iNetX_unpack_state_independent t buf h]

example :
    let a : State := { fresh with streamid := 0xDC, payload := [5, 0] }
    let t : State := { fresh with sequence := 9, payload := [1, 2, 3], packetlen := 77 }
    (len a).2 = .ok 30 ∧ (len a).1.packetlen = 30 ∧ a.packetlen = 0 ∧
    ∃ b, (pack a).2 = .ok b ∧ (unpack t b).2 = .ok () ∧ (len (unpack t b).1).2 = .ok 30 :=
  ⟨rfl, rfl, rfl, _, rfl, rfl, rfl⟩

open Acra.Model.IENA Acra.Gen.IENA in
/-- `len(iena)` of the positional class recomputes `size` and nothing else -/
theorem IENA_len_sets_size (s : Base) :
    (Base.len s).1 = { s with size := (s.payload.length + IENA_HEADER_LENGTH + IENA_TRAILER_LENGTH) / 2 } := by
  show (Base.pack s).1 = _
  exact IENA_pack_preserves_fields s

open Acra.Model.IENA in
theorem IENA_len_eq_pack (s : Base) :
    (Base.len s).1 = (Base.pack s).1 ∧ (Base.len s).2 = (Base.pack s).2.map List.length := ⟨rfl, rfl⟩

open Acra.Model.IENA in
theorem IENA_len_idempotent (s : Base) : Base.len (Base.len s).1 = Base.len s := by
  show (let p := Base.pack (Base.pack s).1; (p.1, p.2.map List.length)) = (let p := Base.pack s; (p.1, p.2.map List.length))
  rw [IENA_pack_idempotent]

open Acra.Model.IENA in
theorem IENA_len_after_unpack (t u : Base) (buf : Bytes) (ho : t.lengthError = u.lengthError)
    (h : (Base.unpack t buf).2 = .ok ()) : Base.len (Base.unpack t buf).1 = Base.len (Base.unpack u buf).1 := by
  rw [IENA_unpack_state_independent t u buf ho h]

open Acra.Model.IENA in
example :
    let a : Base := { Base.fresh with key := 0x1A, timeusec := 10000000, payload := [5, 0] }
    let t : Base := { Base.fresh with key := 3, sequence := 9, payload := [1, 2, 3, 4], size := 500 }
    (Base.len a).2 = .ok 18 ∧ (Base.len a).1.size = 9 ∧
    ∃ b, (Base.pack a).2 = .ok b ∧ (Base.unpack t b).2 = .ok () ∧ (Base.len (Base.unpack t b).1).2 = .ok 18 :=
  ⟨rfl, rfl, _, rfl, rfl, rfl⟩

/-- `len(inet)` leaves the object as `pack` leaves it (`_length`, `_payload` rebuilt from the packages, each package's
    `_length`) and returns the length of the bytes `pack` returns -/
theorem iNET_len_eq_pack (s : Acra.Model.iNET.State) :
    (Acra.Model.iNET.len s).1 = (Acra.Model.iNET.pack s).1 ∧
    (Acra.Model.iNET.len s).2 = (Acra.Model.iNET.pack s).2.map List.length := ⟨rfl, rfl⟩

theorem iNET_len_idempotent (s : Acra.Model.iNET.State) :
    Acra.Model.iNET.len (Acra.Model.iNET.len s).1 = Acra.Model.iNET.len s := by
  show (let p := Acra.Model.iNET.pack (Acra.Model.iNET.pack s).1; (p.1, p.2.map List.length)) =
    (let p := Acra.Model.iNET.pack s; (p.1, p.2.map List.length))
  rw [iNET_pack_idempotent]

theorem iNET_len_after_unpack (t u : Acra.Model.iNET.State) (buf : Bytes) (h : (Acra.Model.iNET.unpack t buf).2 = .ok ()) :
    Acra.Model.iNET.len (Acra.Model.iNET.unpack t buf).1 = Acra.Model.iNET.len (Acra.Model.iNET.unpack u buf).1 := by
  rw [iNET_unpack_state_independent t u buf h]

end packing

/-! ### element containers: `len` and every `[i]` after a successful `unpack b` depend on `b` only -/
section counting
open Acra.Model.IENA

theorem IENAM_container_after_unpack (t u : MState) (buf : Bytes) (ho : t.base.lengthError = u.base.lengthError)
    (h : (MState.unpack t buf).2 = .ok ()) :
    (MState.unpack t buf).1.len = (MState.unpack u buf).1.len ∧
    ∀ i, (MState.unpack t buf).1.getitem i = (MState.unpack u buf).1.getitem i := by
  rw [IENAM_unpack_state_independent t u buf ho h]; exact ⟨rfl, fun _ => rfl⟩

theorem IENAQ_container_after_unpack (t u : QState) (buf : Bytes) (ho : t.base.lengthError = u.base.lengthError)
    (h : (QState.unpack t buf).2 = .ok ()) :
    (QState.unpack t buf).1.len = (QState.unpack u buf).1.len ∧
    ∀ i, (QState.unpack t buf).1.getitem i = (QState.unpack u buf).1.getitem i := by
  rw [IENAQ_unpack_state_independent t u buf ho h]; exact ⟨rfl, fun _ => rfl⟩

theorem IENAD_container_after_unpack (t u : DState) (buf : Bytes) (ho : t.base.lengthError = u.base.lengthError)
    (h : (DState.unpack t buf).2 = .ok ()) :
    (DState.unpack t buf).1.len = (DState.unpack u buf).1.len ∧
    ∀ i, (DState.unpack t buf).1.getitem i = (DState.unpack u buf).1.getitem i := by
  rw [IENAD_unpack_state_independent t u buf ho h]; exact ⟨rfl, fun _ => rfl⟩

theorem IENAN_container_after_unpack (t u : NState) (buf : Bytes) (ho : t.base.lengthError = u.base.lengthError)
    (h : (NState.unpack t buf).2 = .ok ()) :
    (NState.unpack t buf).1.len = (NState.unpack u buf).1.len ∧
    ∀ i, (NState.unpack t buf).1.getitem i = (NState.unpack u buf).1.getitem i := by
  rw [IENAN_unpack_state_independent t u buf ho h]; exact ⟨rfl, fun _ => rfl⟩

/-- non-vacuity: an object that holds one parameter decodes a two-parameter packet; `len` is 2, `[−1]` the second -/
example :
    let a : MState := { MState.fresh with parameters := [⟨1, 2, [0xAA, 0xBB, 0xCC]⟩, ⟨3, 4, []⟩] }
    let t : MState := { MState.fresh with parameters := [⟨9, 9, [1]⟩] }
    ∃ b, (MState.pack a).2 = .ok b ∧ (MState.unpack t b).2 = .ok () ∧ (MState.unpack t b).1.len = 2 ∧
      (MState.unpack t b).1.getitem (-1) = .ok ⟨3, 4, []⟩ ∧ (MState.unpack t b).1.getitem 2 = .error .index :=
  ⟨_, rfl, rfl, rfl, rfl, rfl⟩

theorem NPD_container_after_unpack (t u : Acra.Model.NPD.State) (buf : Bytes)
    (h : (Acra.Model.NPD.unpack t buf).2 = .ok ()) :
    Acra.Model.NPD.len (Acra.Model.NPD.unpack t buf).1 = Acra.Model.NPD.len (Acra.Model.NPD.unpack u buf).1 ∧
    ∀ i, Acra.Model.NPD.getitem (Acra.Model.NPD.unpack t buf).1 i = Acra.Model.NPD.getitem (Acra.Model.NPD.unpack u buf).1 i := by
  rw [NPD_unpack_state_independent t u buf h]; exact ⟨rfl, fun _ => rfl⟩

open Acra.Model.ParserAligned in
theorem ParserAlignedPacket_container_after_unpack (t u : Packet) (buf : Bytes) (h : (Packet.unpack t buf).2 = .ok ()) :
    (Packet.unpack t buf).1.len = (Packet.unpack u buf).1.len ∧
    ∀ i, (Packet.unpack t buf).1.getitem i = (Packet.unpack u buf).1.getitem i := by
  rw [ParserAlignedPacket_unpack_state_independent t u buf h]; exact ⟨rfl, fun _ => rfl⟩

open Acra.Model.ParserAligned in
/-- a block's `len` after a successful `unpack` depends on the bytes only -/
theorem ParserAlignedBlock_len_after_unpack (t u : Block) (buf : Bytes) (n : Nat) (h : (Block.unpack t buf).2 = .ok n) :
    (Block.unpack t buf).1.len = (Block.unpack u buf).1.len := by
  rw [ParserAlignedBlock_unpack_state_independent t u buf n h]

open Acra.Model.Pcap in
/-- `len(record)` after a successful `unpack` of a header is 0 whatever payload the record held before -/
theorem PcapRecord_len_after_unpack (t : Rec) (buf : Bytes) (h : (Rec.unpack t buf).2 = .ok ()) :
    (Rec.unpack t buf).1.len = 0 := by
  revert h
  simp only [Rec.unpack]
  repeat' split
  all_goals simp_all [Rec.len]

open Acra.Model.Pcap in
example : (Rec.unpack (Rec.fresh.setPayload [0xAB, 0xCD]) (List.replicate 16 0)).2 = .ok () ∧
    (Rec.fresh.setPayload [0xAB, 0xCD]).len = 2 := ⟨rfl, rfl⟩

open Acra.Model.Ch11Pay.ARINC in
theorem ARINC_container_after_unpack (t u : Packet) (buf : Bytes) (h : (Packet.unpack t buf).2 = .ok ()) :
    (Packet.unpack t buf).1.len = (Packet.unpack u buf).1.len ∧
    ∀ i, (Packet.unpack t buf).1.getitem i = (Packet.unpack u buf).1.getitem i := by
  rw [ARINC_unpack_state_independent t u buf h]; exact ⟨rfl, fun _ => rfl⟩

open Acra.Model.Ch11Pay.MIL1553 in
theorem MIL_container_after_unpack (t u : Packet) (buf : Bytes) (ho : t.ipts_source = u.ipts_source)
    (h : (Packet.unpack t buf).2 = .ok ()) :
    (Packet.unpack t buf).1.len = (Packet.unpack u buf).1.len ∧
    ∀ i, (Packet.unpack t buf).1.getitem i = (Packet.unpack u buf).1.getitem i := by
  rw [(MIL_unpack_state_independent t u buf ho h).1]; exact ⟨rfl, fun _ => rfl⟩

open Acra.Model.Ch11Pay.UART in
theorem UART_container_after_unpack (t u : Packet) (buf : Bytes) (ho : t.ipts_source = u.ipts_source)
    (he : t.data_endianness = u.data_endianness) (h : (Packet.unpack t buf).2 = .ok ()) :
    (Packet.unpack t buf).1.len = (Packet.unpack u buf).1.len ∧
    ∀ i, (Packet.unpack t buf).1.getitem i = (Packet.unpack u buf).1.getitem i := by
  rw [(UART_unpack_state_independent t u buf ho he h).1]; exact ⟨rfl, fun _ => rfl⟩

open Acra.Model.Ch11Pay.PCM in
theorem PCM_getitem_after_unpack (t u : Packet) (buf : Bytes) (ex : Bool) (ho : t.ipts_source = u.ipts_source)
    (ha : t.assigned = u.assigned) (hs : t.syncword = u.syncword) (h : (Packet.unpack t buf ex).2 = .ok ()) :
    ∀ i, (Packet.unpack t buf ex).1.getitem i = (Packet.unpack u buf ex).1.getitem i := by
  rw [(PCM_unpack_state_independent t u buf ex ho ha hs h).1]; exact fun _ => rfl

open Acra.Model.Ch11Pay.TimeFmt in
theorem TDF1_len_after_unpack (t u : State1) (buf : Bytes) (h : (State1.unpack t buf).2 = .ok ()) :
    (State1.unpack t buf).1.len = (State1.unpack u buf).1.len := by
  rw [TDF1_unpack_state_independent t u buf h]

open Acra.Model.Ch11Pay.TimeFmt in
/-- `len(TimeDataFormat2)` does not look at the object at all -/
theorem TDF2_len_const (s : State2) : s.len = 12 := rfl

open Acra.Model.Extra in
theorem NAL_len_after_unpack (t u : NAL) (buf : Bytes) (ho : t.offset = u.offset) (h : (NAL.unpack t buf).2 = .ok ()) :
    (NAL.unpack t buf).1.len = (NAL.unpack u buf).1.len := by
  rw [NAL_unpack_state_independent t u buf ho h]

open Acra.Model.MPEGTS in
theorem MPEGTS_container_after_unpack (t u : TS) (buf : Bytes) :
    (TS.unpack t buf).1.len = (TS.unpack u buf).1.len ∧
    ∀ i, (TS.unpack t buf).1.getitem i = (TS.unpack u buf).1.getitem i := ⟨rfl, fun _ => rfl⟩

end counting

/-! ### the iteration cursor `_index` (`Model.Cursor`) -/
section cursor
open Acra.Model.Cursor

/-- a loop started by `__iter__` visits positions `k, k+1, …, n-1` in order and stops with the cursor at `n` -/
theorem cursor_run_from (n k fuel : Nat) (hk : k ≤ n) (hf : n - k < fuel) :
    run fuel (some k) n = ((List.range' k (n - k)), some n) := by
  induction fuel generalizing k with
  | zero => omega
  | succ f ih =>
    by_cases hlt : k < n
    · have : n - k = (n - (k + 1)) + 1 := by omega
      simp only [run, next, hlt, if_true]
      rw [ih (k + 1) (by omega) (by omega), this, List.range'_succ]
    · have hkn : k = n := by omega
      subst hkn
      simp [run, next]

example : run 10 (some 2) 5 = ([2, 3, 4], some 5) := cursor_run_from 5 2 10 (by omega) (by omega)

/-- `for x in obj` = `__iter__` then `next` until `StopIteration`: every position `0 … n-1` once, in order, and the cursor
    ends where the model's `loop` puts it; a further `next()` raises `StopIteration` and keeps raising it -/
theorem cursor_for_loop (c : Cursor) (n : Nat) :
    run (n + 1) (start c) n = (List.range n, loop n) ∧
    next (loop n) n = (loop n, .error .stopIteration) := by
  refine ⟨?_, by simp [next, loop]⟩
  have := cursor_run_from n 0 (n + 1) (by omega) (by omega)
  simpa [start, loop, List.range_eq_range'] using this

/-- `next()` without any `__iter__` before it: `AttributeError`, whatever the container holds -/
theorem cursor_next_uninitialised (n : Nat) : next none n = (none, .error .attribute) := rfl

/-- OBSERVATION (C13 observes public attributes and `pack()` bytes, not a bare `next()`): `unpack` does not reset the
    cursor, so what a direct `next()` returns after `unpack b` is NOT a function of `b` — with 3 decoded elements a
    never-iterated object raises `AttributeError`, one whose last loop ran over 1 element returns element 1, one whose
    last loop ran over 5 raises `StopIteration` -/
theorem cursor_next_depends_on_history :
    next none 3 = (none, .error .attribute) ∧ next (loop 1) 3 = (some 2, .ok 1) ∧
    next (loop 5) 3 = (some 5, .error .stopIteration) := ⟨rfl, rfl, rfl⟩

end cursor

/-! ### small methods -/

/-- `setPacketTime` writes the two time fields and nothing else; a later `pack` is not influenced by anything else the
    call did (it did nothing else) -/
theorem iNetX_setPacketTime_fields (s : Acra.Model.iNetX.State) (a b : Nat) :
    (Acra.Model.iNetX.setPacketTime s a b).1 = { s with ptptimeseconds := a, ptptimenanoseconds := b } ∧
    (Acra.Model.iNetX.setPacketTime s a b).2 = true := ⟨rfl, rfl⟩

open Acra.Model.IENA in
/-- the aliases: `n2` reads and writes `status`, `streamid` reads and writes `key` (one storage cell each) -/
theorem IENA_aliases (s : Base) (v : Nat) :
    (s.setN2 v).n2 = v ∧ (s.setN2 v).status = v ∧ ({ s with status := v } : Base).n2 = v ∧
    (s.setStreamid v).streamid = v ∧ (s.setStreamid v).key = v ∧ ({ s with key := v } : Base).streamid = v ∧
    (s.setN2 v).key = s.key ∧ (s.setStreamid v).status = s.status := ⟨rfl, rfl, rfl, rfl, rfl, rfl, rfl, rfl⟩

open Acra.Model.Pcap in
/-- `set_current_time` writes `sec` and `usec` only: payload and both length fields stay -/
theorem PcapRecord_setCurrentTime_keeps_payload (s : Rec) (now : Rat) :
    (s.setCurrentTime now).1.payload = s.payload ∧ (s.setCurrentTime now).1.incl_len = s.incl_len ∧
    (s.setCurrentTime now).1.orig_len = s.orig_len ∧ (s.setCurrentTime now).1.len = s.len := ⟨rfl, rfl, rfl, rfl⟩

end Acra.Props.C13
