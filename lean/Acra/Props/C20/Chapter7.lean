/-
  C20 — Chapter 7 header words survive up to three bit errors each.
  `corruptPTDP b e1 e2` XORs the 24-bit patterns `e1`, `e2` onto the bytes of the two header words of
  a packed PTDP (`xorBytes_be3`: XOR on the three big-endian bytes is XOR on the 24-bit word);
  `corruptPTFR b e` does the same for the protected word (bytes 1..3) of a packed PTFR.  The
  unprotected PTFR byte 0 is outside the statement.  Quantifiers: every well-formed header value,
  every pattern of weight ≤ 3 in each word independently, any bytes following, any prior object state.
-/
import Acra.Lemmas.Chapter7
namespace Acra.Props.C20
open Acra.Py Acra.Model.Chapter7 Acra.Lemmas.Chapter7 Acra.Lemmas.Golay

/-- PTDP: the decoder returns the same length / fragment / content / payload split as for the clean
    header — and these are the encoder's fields -/
theorem PTDP_header_robust (s t : PTDP.State) (h : PTDP_WF s) (e1 e2 : Nat) (he1 : e1 < 2 ^ 24)
    (he2 : e2 < 2 ^ 24) (hw1 : wt e1 ≤ 3) (hw2 : wt e2 ≤ 3) (rest : Bytes) :
    ∃ b, (PTDP.pack s).2 = .ok b ∧
      PTDP.unpack t (corruptPTDP b e1 e2 ++ rest) = PTDP.unpack t (b ++ rest) ∧
      PTDP.unpack t (b ++ rest) =
        ({ s with length := s.payload.length, low_latency := false }, .ok rest) := by
  refine ⟨_, by rw [ptdp_pack_eq s h], ?_, ?_⟩
  · rw [corruptPTDP_eq]
    simp only [List.append_assoc]
    have a := ptdp_unpack_noisy s t h e1 e2 he1 he2 hw1 hw2 rest
    have b := ptdp_unpack_noisy s t h 0 0 (by decide) (by decide) wt_zero_le wt_zero_le rest
    simp only [List.append_assoc] at a b
    rw [a, b]
  · have b := ptdp_unpack_noisy s t h 0 0 (by decide) (by decide) wt_zero_le wt_zero_le rest
    simp only [List.append_assoc] at b ⊢
    exact b

/-- non-vacuity: all hypotheses together — a header with the largest fragment code and a three-byte payload, a weight-3
    pattern on the first word (upper byte, parity half, data half) and a weight-2 pattern on the second -/
example : PTDP_WF { PTDP.fresh with payload := [1, 2, 3], fragment := 3, content := 4 } ∧
    (0x800101 : Nat) < 2 ^ 24 ∧ (0x001800 : Nat) < 2 ^ 24 ∧ wt 0x800101 ≤ 3 ∧ wt 0x001800 ≤ 3 := by
  refine ⟨by simp [PTDP_WF], by decide, by decide, by decide, by decide⟩

/-- the largest length the format allows (2048) is inside the hypotheses -/
example : PTDP_WF { PTDP.fresh with payload := List.replicate 2048 0xAA, fragment := 0, content := 15 } :=
  ⟨by decide, by decide, by simp only [List.length_replicate]; omega⟩

/-- PTFR: version, stream id, low-latency flag, offset and payload are those of the clean frame -/
theorem PTFR_header_robust (s t : PTFR.State) (h : PTFR_WF s) (e : Nat) (he : e < 2 ^ 24) (hw : wt e ≤ 3)
    (hL : s.payload.length ≤ t.length) :
    ∃ b, (PTFR.pack s).2 = .ok b ∧
      PTFR.unpack t (corruptPTFR b e) = PTFR.unpack t b ∧
      PTFR.unpack t b = ({ s with length := t.length }, .ok ()) := by
  refine ⟨_, by rw [ptfr_pack_eq s h], ?_, ?_⟩
  · rw [corruptPTFR_eq, ptfr_unpack_noisy s t h e he hw hL,
      ptfr_unpack_noisy s t h 0 (by decide) wt_zero_le hL]
  · exact ptfr_unpack_noisy s t h 0 (by decide) wt_zero_le hL

/-- non-vacuity: all hypotheses together — LLP flag set, the largest offset, a weight-3 pattern, and a decoder whose frame
    length is the frame's -/
example :
    let s : PTFR.State := { PTFR.fresh with streamid := 1, llp := true, ptdp_offset := 0x7FF, length := 2, payload := [9, 9] }
    let t : PTFR.State := { PTFR.fresh with length := 2, payload := [1, 2, 3], version := 3 }
    PTFR_WF s ∧ (0x800101 : Nat) < 2 ^ 24 ∧ wt 0x800101 ≤ 3 ∧ s.payload.length ≤ t.length := by
  refine ⟨by simp [PTFR_WF, PTFR.fresh], by decide, by decide, by simp [PTFR.fresh]⟩

/-- a bit error on the wire is an XOR on the bytes; on a header word that is an XOR on its value -/
theorem wire_xor_is_word_xor (v e : Nat) : xorBytes (beBytes 3 v) (beBytes 3 e) = beBytes 3 (v ^^^ e) :=
  xorBytes_be3 v e

end Acra.Props.C20
