import Acra.Props.C11.SrcTieTables
namespace Acra.Props.C20
open Acra Acra.Py

/-! Source tie (C20): the Golay-protected header words of Chapter 7 are decoded by `Golay.decode`; the theorems of
    `Props/C11/SrcTieTables.lean` show that the decode tables the SOURCE builds (`Golay._initgolaydecode`, regenerated
    from the current Python text on every run) are the model's, so the correction of up to three bit errors per word
    holds for the source's `decode`. -/

/-- a 12-bit header field `x`, encoded, hit by any error pattern `e` of weight ≤ 3, is decoded to `x` by the source's
    `_initgolaydecode` + `_decode2` -/
theorem src_header_word_survives (x e : Nat) (hx : x < 4096) (he : e < 2 ^ 24) (hw : Lemmas.Golay.wt e ≤ 3) :
    (Gen.Src.Golay.Golay._initgolaydecode (List.replicate 4096 0) (List.replicate 4096 0) (List.replicate 4096 0)
      >>= fun T => Gen.Src.Golay.Golay._decode2 T.1 T.2.1
        ((((Model.Golay.encode x ^^^ e) >>> 12) &&& 0xfff : Nat) : Int) (((Model.Golay.encode x ^^^ e) &&& 0xfff : Nat) : Int))
      = .ok (x : Int) :=
  C11.src_Golay_decode_corrects x e hx he hw

example : (2047 : Nat) < 4096 ∧ (0x400201 : Nat) < 2 ^ 24 ∧ Lemmas.Golay.wt 0x400201 ≤ 3 := by decide

end Acra.Props.C20
