import Acra.Lemmas.Ch11PCM
import Acra.Props.C04.PCM
namespace Acra.Props.C14
open Acra.Py Acra.Model.Ch11Pay Acra.Model.Ch11Pay.PCM Acra.Gen.Ch11PCM Acra.Lemmas.Ch11PCM Acra.Lemmas.Ch11Pay

/-- frame equality compares time stamp, data header, data, sync word, sub-frame id and the throughput
    flag; frames of the same alignment (a codec option) that compare equal encode identically -/
theorem PCMFrame_eq_sound (a b : Frame) (hal : a.alignment = b.alignment) (h : Frame.eq a b = true) : a.pack = b.pack := by
  obtain ⟨h1, h2, h3, h4, h5, h6⟩ := (Frame_eq_iff a b).1 h
  simp only [Frame.pack, h1, h2, h3, h4, h5, h6, hal]

/-- the hypothesis `hal` cannot be dropped: `PCMMinorFrame.__eq__` does not look at `alignment` (a constructor option),
    and two frames that differ only there compare equal and encode differently (2- vs 4-byte data header) -/
example :
    let f0 : Frame := ⟨.rtc 1, false, some 7, [1, 2, 3, 4], 0, Option.none, Option.none⟩
    let f1 : Frame := ⟨.rtc 1, false, some 7, [1, 2, 3, 4], 1, Option.none, Option.none⟩
    Frame.eq f0 f1 = true ∧
    (match f0.pack, f1.pack with | .ok x, .ok y => x != y | _, _ => false) = true := ⟨by decide, rfl⟩

example :
    let f : Frame := ⟨.ptp 7 8, false, some 0xFFFFFFFF, [1, 2, 3], 1, Option.none, Option.none⟩
    f.alignment = f.alignment ∧ Frame.eq f f = true := ⟨rfl, by decide⟩

theorem framesEq_pack (as bs : List Frame) (h : framesEq as bs = true)
    (hal : ∀ a ∈ as, ∀ b ∈ bs, a.alignment = b.alignment) : packList packFrame as = packList packFrame bs := by
  induction as generalizing bs with
  | nil => cases bs <;> simp_all [framesEq]
  | cons a as ih =>
    cases bs with
    | nil => simp [framesEq] at h
    | cons b bs =>
      simp only [framesEq, Bool.and_eq_true] at h
      simp only [packList, packFrame, PCMFrame_eq_sound a b (hal a (by simp) b (by simp)) h.1,
        ih bs h.2 (fun x hx y hy => hal x (by simp [hx]) y (by simp [hy]))]

/-- packets whose frames all have one alignment and that compare equal encode identically -/
theorem PCM_eq_sound (a b : Packet) (hal : ∀ x ∈ a.minor_frames, ∀ y ∈ b.minor_frames, x.alignment = y.alignment)
    (h : Packet.eq a b = true) : a.pack = b.pack := by
  simp only [Packet.eq, Bool.and_eq_true, beq_iff_eq] at h
  simp only [Packet.pack, h.1, framesEq_pack _ _ h.2 hal]

/-- non-vacuity: two packets that differ in the decoder options (source, assigned / detected size) compare equal -/
example :
    let f : Frame := ⟨.ptp 7 8, false, some 0xFFFFFFFF, [1, 2, 3], 1, Option.none, Option.none⟩
    let a : Packet := ⟨0x200000, some 1, some 3, Option.none, Option.none, [f]⟩
    let b : Packet := ⟨0x200000, some 0, Option.none, some 9, Option.none, [f]⟩
    (∀ x ∈ a.minor_frames, ∀ y ∈ b.minor_frames, x.alignment = y.alignment) ∧ Packet.eq a b = true :=
  ⟨by decide, by decide⟩

theorem framesEq_refl (fs : List Frame) : framesEq fs fs = true := by
  induction fs with
  | nil => rfl
  | cons f fs ih => simp [framesEq, ih, (Frame_eq_iff f f).2]

/-- the object decoded from `a`'s encoding (by a decoder that knows the frame size) compares equal to `a` -/
theorem PCM_eq_decode (a t : Packet) (n : Nat) (h : C04.PCM_WF a n) (ho : t.ipts_source = a.ipts_source)
    (hs : t.assigned = some n) :
    ∃ b, a.pack = .ok b ∧ (Packet.unpack t b false).2 = .ok () ∧ Packet.eq a (Packet.unpack t b false).1 = true := by
  obtain ⟨b, hp, hu, _⟩ := C04.PCM_roundtrip a t n h ho hs
  refine ⟨b, hp, by rw [hu], ?_⟩
  rw [hu]
  simp [Packet.eq, C04.PCM_decoded, framesEq_refl]

example :
    let a : Packet := ⟨0x200000, some 1, some 3, Option.none, Option.none,
      [⟨.ptp 7 8, false, some 0xFFFFFFFF, [1, 2, 3], 1, Option.none, Option.none⟩]⟩
    let t : Packet := Packet.fresh (some 1) Option.none (some 3)
    C04.PCM_WF a 3 ∧ t.ipts_source = a.ipts_source ∧ t.assigned = some 3 := by
  refine ⟨⟨by simp, by simp [MODE_THROUGHPUT], ?_⟩, rfl, rfl⟩
  intro f hf
  simp only [List.mem_cons, List.mem_nil_iff, or_false] at hf
  subst hf
  simp [Frame_WF, Frame.fresh, Ipts_WF, hdrLen, MODE_ALIGNMENT, C04.pcmProto, sameKind, Gen.Ch11PayTs.TS_CH4]

end Acra.Props.C14
