/-
  C14 — PTDP / PTFR equality.  PTDP compares payload, length, fragment, content; PTFR compares
  version, streamid, llp, ptdp_offset, payload (same `length` option assumed, as the property says).
  Foreign operands: the `isinstance` guard returns False (correspondence + generic oracle).
-/
import Acra.Lemmas.Chapter7
import Acra.Props.C10.Codecs
namespace Acra.Props.C14
open Acra.Py Acra.Model.Chapter7 Acra.Lemmas.Chapter7

theorem PTDP_eq_sound (a b : PTDP.State) (h : PTDP.eq a b = true) : (PTDP.pack a).2 = (PTDP.pack b).2 := by
  simp only [PTDP.eq, Bool.and_eq_true, beq_iff_eq] at h
  obtain ⟨⟨⟨h1, _⟩, h3⟩, h4⟩ := h
  rw [ptdp_pack_snd, ptdp_pack_snd, h1, h3, h4]

/-- non-vacuity: equal although the low-latency marking (which is not encoded) differs -/
example : PTDP.eq { PTDP.fresh with payload := [1, 2, 3], length := 3, fragment := 3, content := 4 }
    { PTDP.fresh with payload := [1, 2, 3], length := 3, fragment := 3, content := 4, low_latency := true } = true := by decide

/-- the object decoded (into any prior state) from a's encoding compares equal to a as pack left it -/
theorem PTDP_eq_decode (a t : PTDP.State) (h : PTDP_WF a) :
    ∃ b, (PTDP.pack a).2 = .ok b ∧ (PTDP.unpack t b).2 = .ok [] ∧
      PTDP.eq (PTDP.pack a).1 (PTDP.unpack t b).1 = true := by
  obtain ⟨b, hp, _, hu⟩ := C10.PTDP_roundtrip a t h []
  rw [List.append_nil] at hu
  refine ⟨b, hp, by rw [hu], ?_⟩
  rw [hu, ptdp_pack_eq a h]
  simp [PTDP.eq]

example : PTDP_WF { PTDP.fresh with payload := [1, 2, 3], fragment := 3, content := 4 } := by simp [PTDP_WF]

theorem PTFR_eq_sound (a b : PTFR.State) (h : PTFR.eq a b = true) (ho : a.length = b.length) :
    (PTFR.pack a).2 = (PTFR.pack b).2 := by
  simp only [PTFR.eq, Bool.and_eq_true, beq_iff_eq] at h
  obtain ⟨⟨⟨⟨h1, h2⟩, h3⟩, h4⟩, h5⟩ := h
  simp only [PTFR.pack, h1, h2, h3, h4, h5, ho]
  repeat' split
  all_goals simp_all

example :
    let a : PTFR.State := { PTFR.fresh with streamid := 1, llp := true, ptdp_offset := 0x7FF, length := 2, payload := [9, 9] }
    PTFR.eq a a = true ∧ a.length = a.length := ⟨by decide, rfl⟩

theorem PTFR_eq_decode (a t : PTFR.State) (h : PTFR_WF a) (hL : a.payload.length ≤ t.length) :
    ∃ b, (PTFR.pack a).2 = .ok b ∧ (PTFR.unpack t b).2 = .ok () ∧ PTFR.eq a (PTFR.unpack t b).1 = true := by
  obtain ⟨b, hp, hu⟩ := C10.PTFR_roundtrip a t h hL
  exact ⟨b, hp, by rw [hu], by rw [hu]; simp [PTFR.eq]⟩

example :
    let a : PTFR.State := { PTFR.fresh with streamid := 1, llp := true, ptdp_offset := 0x7FF, length := 2, payload := [9, 9] }
    let t : PTFR.State := { PTFR.fresh with length := 2, payload := [1, 2, 3], version := 3 }
    PTFR_WF a ∧ a.payload.length ≤ t.length := by
  simp [PTFR_WF, PTFR.fresh]

end Acra.Props.C14
