import Acra.Lemmas.AFDX
import Acra.Props.C02.AFDX
namespace Acra.Props.C14
open Acra.Py Acra.Model.AFDX Acra.Gen.AFDX Acra.Lemmas.AFDX

/-! `AFDX.__eq__`: `isinstance` guard, then the seven attributes in the order found in the source
    (`Gen.AFDX.AFDX_EQ_ATTRS`); a missing attribute on either side raises AttributeError.  The foreign-operand clause
    is `AFDX_eq_foreign` in `Props/C14/Foreign.lean`. -/

/-- `getattr` succeeds exactly on an existing attribute -/
theorem AFDX_getattr_full (ty net equip iface vlink : Nat) (payload : Bytes) (sq : Nat) :
    AFDX_EQ_ATTRS.map (AFDX.getattr (full ty net equip iface vlink payload sq)) =
      [.ok (.nat ty), .ok (.nat net), .ok (.nat iface), .ok (.nat equip), .ok (.nat vlink), .ok (.nat sq),
       .ok (.bytes payload)] := rfl

/-- if `a == b` is `True` then every attribute exists on both sides and the two objects hold the same values -/
theorem AFDX_eq_true_iff (a b : AFDX) :
    AFDX.eq a b = .ok true ↔
      a = b ∧ ∃ ty net equip iface vlink payload sq, a = full ty net equip iface vlink payload sq := by
  constructor
  · exact eq_true_fields a b
  · rintro ⟨rfl, ty, net, equip, iface, vlink, payload, sq, rfl⟩
    rw [eq_full]; simp

/-- equality soundness: objects that compare equal encode to the same bytes (AFDX has no codec options) -/
theorem AFDX_eq_sound (a b : AFDX) (h : AFDX.eq a b = .ok true) : (AFDX.pack a).2 = (AFDX.pack b).2 := by
  rw [((AFDX_eq_true_iff a b).1 h).1]

/-- non-vacuity: two objects built alike compare equal -/
example : AFDX.eq (full 0x0800 1 2 3 0x1234 (List.replicate 42 0x22) 9)
    (full 0x0800 1 2 3 0x1234 (List.replicate 42 0x22) 9) = .ok true := by rw [eq_full]; simp

/-- on objects with all seven attributes `==` never raises and is exactly "same seven values" -/
theorem AFDX_eq_full (ty net equip iface vlink : Nat) (payload : Bytes) (sq : Nat)
    (ty' net' equip' iface' vlink' : Nat) (payload' : Bytes) (sq' : Nat) :
    AFDX.eq (full ty net equip iface vlink payload sq) (full ty' net' equip' iface' vlink' payload' sq') =
      .ok (decide (full ty net equip iface vlink payload sq = full ty' net' equip' iface' vlink' payload' sq')) :=
  eq_full ..

/-- one differing field is seen, whichever it is (here: the sequence number, the last byte of the frame) -/
example : AFDX.eq (full 0x0800 1 2 3 0x1234 (List.replicate 42 0x22) 9)
    (full 0x0800 1 2 3 0x1234 (List.replicate 42 0x22) 8) = .ok false := by rw [eq_full]; simp [full]

/-- OBSERVATION: two instances as `AFDX.__new__` leaves them (no attributes) cannot be compared — AttributeError.
    No such instance comes out of the constructor (which raises) — nothing does. -/
theorem AFDX_eq_bare_raises : AFDX.eq AFDX.bare AFDX.bare = .error .attribute := by
  simp [AFDX.eq, AFDX_EQ_ATTRS, AFDX.eqLoop, AFDX.getattr, AFDX.bare, Option.map, AVal.lift]

/-
  FULL STATEMENT of the decode clause ("an object decoded from another's encoding compares equal to it"), which fails
  of the code as it stands because nothing can be decoded:
      ∀ a WF, ∀ t, ∃ b, (AFDX.pack a).2 = .ok b ∧ (AFDX.unpack t b).2 = .ok () ∧ AFDX.eq a (AFDX.unpack t b).1 = .ok true
  Proved instead: the decode of a's encoding raises TypeError (so there is no decoded object to compare), and what it
  leaves in a NEW object cannot even be compared with `a` (network ID missing: AttributeError).
-/
theorem AFDX_eq_decode_partial (a : AFDX) (ty net equip iface vlink : Nat) (payload : Bytes) (sq : Nat)
    (h : WF a ty net equip iface vlink payload sq) :
    ∃ b, (AFDX.pack a).2 = .ok b ∧ (AFDX.unpack AFDX.bare b).2 = .error .type ∧
      AFDX.eq a (AFDX.unpack AFDX.bare b).1 = .error .attribute := by
  obtain ⟨b, hp, hu⟩ := C02.AFDX_roundtrip_partial a AFDX.bare ty net equip iface vlink payload sq h
  refine ⟨b, hp, by rw [hu], ?_⟩
  rw [hu, h.eq_full]
  simp [AFDX.eq, AFDX_EQ_ATTRS, AFDX.eqLoop, AFDX.getattr, full, AFDX.bare, Option.map, AVal.lift]

example : WF (full 0x0800 1 2 3 0x1234 (List.replicate 42 0x22) 9) 0x0800 1 2 3 0x1234 (List.replicate 42 0x22) 9 := by
  constructor <;> first | rfl | decide

end Acra.Props.C14
