import Acra.Lemmas.Net
import Acra.Props.C02.Net
namespace Acra.Props.C14
open Acra.Py Acra.Model.Net Acra.Gen.Net Acra.Lemmas.Net

/-! `Ethernet` and `ARP` define `__eq__` over the complete attribute list; `IP`, `UDP`, `ICMP` and `PcapRecord`
    define none (identity comparison: two distinct objects are never equal, so soundness is vacuous for them). -/

/-- Ethernet equality compares every public attribute: equal objects are the same value … -/
theorem Ethernet_eq_iff (a b : Eth) : Eth.eq a b = true ↔ a = b := by
  cases a; cases b
  simp only [Eth.eq, Bool.and_eq_true, beq_iff_eq, Eth.mk.injEq]
  constructor
  · rintro ⟨⟨⟨⟨⟨h1, h2⟩, h3⟩, h4⟩, h5⟩, h6⟩; exact ⟨h1, h3, h2, h4, h5, h6⟩
  · rintro ⟨h1, h3, h2, h4, h5, h6⟩; exact ⟨⟨⟨⟨⟨h1, h2⟩, h3⟩, h4⟩, h5⟩, h6⟩

/-- … hence encode to the same bytes, with or without FCS -/
theorem Ethernet_eq_sound (a b : Eth) (fcs : Bool) (h : Eth.eq a b = true) : (Eth.pack a fcs).2 = (Eth.pack b fcs).2 := by
  rw [(Ethernet_eq_iff a b).1 h]

example : Eth.eq { Eth.fresh with dstmac := 0x01005E000001, vlan := true, vlantag := 5, payload := [1, 2, 3] }
    { Eth.fresh with dstmac := 0x01005E000001, vlan := true, vlantag := 5, payload := [1, 2, 3] } = true := by decide

/-- an object decoded (into any prior state) from a's encoding compares equal to a — when a is in the canonical
    form the decoder produces (an untagged frame has the tag sentinel 0xFFFF) -/
theorem Ethernet_eq_decode (a t : Eth) (fcs : Bool) (h : Eth_WF a) (hc : a.vlan = false → a.vlantag = 0xFFFF) :
    ∃ b, (Eth.pack a fcs).2 = .ok b ∧ (Eth.unpack t b fcs).2 = .ok () ∧ Eth.eq a (Eth.unpack t b fcs).1 = true := by
  obtain ⟨b, hp, hu, _⟩ := C02.Ethernet_roundtrip a t fcs h
  refine ⟨b, hp, by rw [hu], ?_⟩
  rw [hu, Ethernet_eq_iff]
  cases hv : a.vlan
  · cases a; simp_all
  · cases a; simp_all

/-- non-vacuity: a VLAN-tagged frame (the canonical-form hypothesis is then void) and an untagged one in canonical form -/
example : Eth_WF { Eth.fresh with dstmac := 0x01005E000001, srcmac := 0x000C4D000A6C, vlan := true, vlantag := 5, payload := [1, 2, 3] } ∧
    Eth_WF { Eth.fresh with dstmac := 0x01005E000001, payload := [1, 2, 3] } ∧
    (({ Eth.fresh with dstmac := 0x01005E000001, payload := [1, 2, 3] } : Eth).vlan = false →
     ({ Eth.fresh with dstmac := 0x01005E000001, payload := [1, 2, 3] } : Eth).vlantag = 0xFFFF) := by
  simp [Eth_WF, Eth.fresh, ETH_TYPE_IP, ETH_TYPE_VLAN, ETH_DEFAULT_VLANTAG]

/-- without the canonical form the decoded object differs (and is reported unequal): the tag of an untagged frame is
    not on the wire -/
example : Eth.eq { Eth.fresh with vlantag := 5 }
    (Eth.unpack Eth.fresh (match (Eth.pack { Eth.fresh with vlantag := 5 } false).2 with | .ok b => b | .error _ => []) false).1
    = false := by decide

theorem ARP_eq_iff (a b : ARP) : ARP.eq a b = true ↔ a = b := by
  cases a; cases b
  simp only [ARP.eq, Bool.and_eq_true, beq_iff_eq, ARP.mk.injEq]
  constructor
  · rintro ⟨⟨⟨⟨⟨⟨⟨⟨h1, h2⟩, h3⟩, h4⟩, h5⟩, h6⟩, h7⟩, h8⟩, h9⟩; exact ⟨h1, h2, h3, h4, h5, h6, h7, h8, h9⟩
  · rintro ⟨h1, h2, h3, h4, h5, h6, h7, h8, h9⟩; exact ⟨⟨⟨⟨⟨⟨⟨⟨h1, h2⟩, h3⟩, h4⟩, h5⟩, h6⟩, h7⟩, h8⟩, h9⟩

theorem ARP_eq_sound (a b : ARP) (h : ARP.eq a b = true) : (ARP.pack a).2 = (ARP.pack b).2 := by
  rw [(ARP_eq_iff a b).1 h]

example : ARP.eq { ARP.fresh with dstip := some 0xC0A81C02 } { ARP.fresh with dstip := some 0xC0A81C02 } = true := by decide

theorem ARP_eq_decode (a t : ARP) (sip dip : Nat) (h : ARP_WF a sip dip) :
    ∃ b, (ARP.pack a).2 = .ok b ∧ (ARP.unpack t b).2 = .ok () ∧ ARP.eq a (ARP.unpack t b).1 = true := by
  obtain ⟨b, hp, hu, _⟩ := C02.ARP_roundtrip a t sip dip h
  exact ⟨b, hp, by rw [hu], by rw [hu, ARP_eq_iff]⟩

example : ARP_WF { ARP.fresh with dstip := some 0xC0A81C02 } 0 0xC0A81C02 := by
  simp [ARP_WF, ARP.fresh, ARP_DEFAULT_HARDWARE_TYPE, ETH_TYPE_IP, ETH_ADDR_LENGTH, IP_ADDR_LENGTH, ARP_OPER_REQUEST]

end Acra.Props.C14
