import Acra.Lemmas.Ch11MIL1553
import Acra.Props.C04.MIL1553
namespace Acra.Props.C14
open Acra.Py Acra.Model.Ch11Pay Acra.Model.Ch11Pay.MIL1553 Acra.Gen.Ch11MIL1553 Acra.Lemmas.Ch11MIL1553

theorem MILMsg_eq_sound (a b : Msg) (h : Msg.eq a b = true) : a.pack = b.pack := by
  rw [(Msg_eq_iff a b).1 h]

example : Msg.eq ⟨.rtc 77, 0xFFFF, 3, 3, [1, 2, 3]⟩ ⟨.rtc 77, 0xFFFF, 3, 3, [1, 2, 3]⟩ = true := by decide

/-- packet equality compares the messages, the count and the time-tag bits; equal packets encode identically -/
theorem MIL_eq_sound (a b : Packet) (h : Packet.eq a b = true) : a.pack.2 = b.pack.2 := by
  simp only [Packet.eq, Bool.and_eq_true, beq_iff_eq, msgsEq_iff] at h
  obtain ⟨⟨h1, h2⟩, h3⟩ := h
  simp only [Packet.pack, h1, h3]
  repeat' split
  all_goals simp_all

/-- non-vacuity: equal although the time-stamp source option differs -/
example : Packet.eq { messages := [⟨.rtc 77, 0xFFFF, 3, 3, [1, 2, 3]⟩], msgcount := 1, ttb := 3, ipts_source := some 0 }
    { messages := [⟨.rtc 77, 0xFFFF, 3, 3, [1, 2, 3]⟩], msgcount := 1, ttb := 3, ipts_source := some 1 } = true := by decide

/-- the object decoded from `a`'s encoding compares equal to `a` as `pack` left it, provided `a`'s count
    is the number of its messages (what `append()` maintains) -/
theorem MIL_eq_decode (a t : Packet) (h : C04.MIL_WF a) (ho : t.ipts_source = a.ipts_source)
    (hc : a.msgcount = a.messages.length) :
    ∃ b, a.pack.2 = .ok b ∧ (Packet.unpack t b).2 = .ok () ∧ Packet.eq a.pack.1 (Packet.unpack t b).1 = true := by
  obtain ⟨b, hp, hu, _⟩ := C04.MIL_roundtrip a t h ho
  refine ⟨b, hp, by rw [hu], ?_⟩
  rw [hu, C04.MIL_pack_eq a h]
  simp [Packet.eq, msgsEq_iff, hc]

/-- non-vacuity of `MIL_eq_decode`: two messages (the first without data), count in step, decoder with the same source -/
example :
    let a : Packet := { messages := [⟨.rtc 1, 0, 0, 0, []⟩, ⟨.rtc 77, 0xFFFF, 3, 0, [1, 2, 3]⟩], msgcount := 2, ttb := 3,
                        ipts_source := some 0 }
    C04.MIL_WF a ∧ (Packet.fresh (some 0)).ipts_source = a.ipts_source ∧ a.msgcount = a.messages.length := by
  refine ⟨⟨?_, by simp, by simp, by simp, by simp⟩, rfl, rfl⟩
  intro m hm
  simp only [List.mem_cons, List.mem_nil_iff, or_false] at hm
  rcases hm with h | h <;> subst h <;>
    simp [Msg_WF, Lemmas.Ch11Pay.Ipts_WF, C04.protoIpts, iptsOfSource, Gen.Ch11PayTs.TS_CH4, Lemmas.Ch11Pay.sameKind]

end Acra.Props.C14
