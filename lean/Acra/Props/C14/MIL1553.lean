import Acra.Lemmas.Ch11MIL1553
import Acra.Props.C04.MIL1553
namespace Acra.Props.C14
open Acra.Py Acra.Model.Ch11Pay Acra.Model.Ch11Pay.MIL1553 Acra.Gen.Ch11MIL1553 Acra.Lemmas.Ch11MIL1553

theorem MILMsg_eq_sound (a b : Msg) (h : Msg.eq a b = true) : a.pack = b.pack := by
  rw [(Msg_eq_iff a b).1 h]

/-- packet equality compares the messages, the count and the time-tag bits; equal packets encode identically -/
theorem MIL_eq_sound (a b : Packet) (h : Packet.eq a b = true) : a.pack.2 = b.pack.2 := by
  simp only [Packet.eq, Bool.and_eq_true, beq_iff_eq, msgsEq_iff] at h
  obtain ⟨⟨h1, h2⟩, h3⟩ := h
  simp only [Packet.pack, h1, h3]
  repeat' split
  all_goals simp_all

/-- the object decoded from `a`'s encoding compares equal to `a` as `pack` left it, provided `a`'s count
    is the number of its messages (what `append()` maintains) -/
theorem MIL_eq_decode (a t : Packet) (h : C04.MIL_WF a) (ho : t.ipts_source = a.ipts_source)
    (hc : a.msgcount = a.messages.length) :
    ∃ b, a.pack.2 = .ok b ∧ (Packet.unpack t b).2 = .ok () ∧ Packet.eq a.pack.1 (Packet.unpack t b).1 = true := by
  obtain ⟨b, hp, hu, _⟩ := C04.MIL_roundtrip a t h ho
  refine ⟨b, hp, by rw [hu], ?_⟩
  rw [hu, C04.MIL_pack_eq a h]
  simp [Packet.eq, msgsEq_iff, hc]

end Acra.Props.C14
