import Acra.Props.C04.TimeFmt1
import Acra.Props.C04.TimeFmt2
import Acra.Lemmas.ReviewC04Calendar
namespace Acra.Props.C14
open Acra.Py Acra.Model.Ch11Pay Acra.Model.Ch11Pay.TimeFmt Acra.Lemmas.Ch11Calendar Acra.Lemmas.Float
open Acra.Lemmas.ReviewC04Calendar

/-! C14 `eq_decode` for `TimeDataFormat1` and `TimeDataFormat2` (rev2 "not repaired" item 4).  Both `__eq__` compare the
    channel-specific word and the `PTPTime` (seconds, nanoseconds) — structural equality of the model state — and `pack`
    does not modify the object, so "the decoded object compares equal to the encoder" holds exactly for the objects the
    format can carry without loss.  Every theorem below is an EQUIVALENCE: it says for which objects the comparison
    gives True, not only that it does for some.

    * format 1, day-month-year: nanoseconds a multiple of 10 ms (the format has two BCD digits of 10 ms);
    * format 1, day-of-year: additionally the second lies in 1970 (the format carries no year, the decoder's base
      year is 1970);
    * format 2, IEEE-1588 codes: every well-formed object;
    * format 2, NTP code: the nanosecond counts that survive `int(ns·2³²/10⁹)` followed by `int(fs/(2³²/10⁹))`
      (the conversion truncates twice: `ns` or `ns − 1` comes back, C04 `ntp_within_1ns`; almost always `ns − 1`). -/

/-! ### TimeDataFormat1 -/

theorem State1_eq_iff (a b : TimeFmt.State1) : TimeFmt.State1.eq a b = true ↔ a = b := by
  constructor
  · intro h
    simp only [TimeFmt.State1.eq, Bool.and_eq_true, beq_iff_eq] at h
    cases a; cases b; simp_all
  · rintro rfl; simp [TimeFmt.State1.eq]

/-- day-month-year variant, every second of 1970-01-01 … 2099-12-31, any prior state of the decoder -/
theorem TDF1_eq_decode_dmy (st t : State1) (n : Nat) (h : C04.TDF1_WF st n)
    (hy : yearAvail st.channel_specific_data = true) :
    ∃ b, st.pack = .ok b ∧ (State1.unpack t b).2 = .ok () ∧
      (State1.eq st (State1.unpack t b).1 = true ↔ st.nanoseconds % 10000000 = 0) := by
  obtain ⟨b, hp, hu⟩ := C04.TDF1_roundtrip_dmy st t n h hy
  refine ⟨b, hp, by rw [hu], ?_⟩
  rw [hu, State1_eq_iff]
  constructor
  · intro e
    have := congrArg State1.nanoseconds e
    simp only at this
    omega
  · intro e
    cases st
    simp only at e ⊢
    rw [e, Nat.sub_zero]

/-- the year in which second `n` lies is 1970 exactly for the first 365 days -/
theorem startOfYear_zero_iff (n : Nat) (h : n < 86400 * DAYS) : C04.startOfYear n = 0 ↔ n < 365 * 86400 := by
  constructor
  · intro h0
    by_cases hlt : n < 365 * 86400
    · exact hlt
    · exfalso
      by_cases hd : n / 86400 = 365
      · have : C04.startOfYear n = 31536000 := by
          unfold C04.startOfYear C04.civil
          rw [hd]
          decide
        omega
      · have := (C04.TDF1_startOfYear n h).2.2
        have : 366 * 86400 ≤ n := by omega
        omega
  · intro hlt
    unfold C04.startOfYear C04.civil
    rw [yearStart_1970 n hlt, Nat.sub_self]

/-- day-of-year variant -/
theorem TDF1_eq_decode_doy (st t : State1) (n : Nat) (h : C04.TDF1_WF st n)
    (hy : yearAvail st.channel_specific_data = false) :
    ∃ b, st.pack = .ok b ∧ (State1.unpack t b).2 = .ok () ∧
      (State1.eq st (State1.unpack t b).1 = true ↔ st.nanoseconds % 10000000 = 0 ∧ n < 365 * 86400) := by
  obtain ⟨b, hp, hu, hle⟩ := C04.TDF1_roundtrip_doy st t n h hy
  refine ⟨b, hp, by rw [hu], ?_⟩
  rw [hu, State1_eq_iff, ← startOfYear_zero_iff n h.2.2.1]
  have hs := h.1
  constructor
  · intro e
    have e1 := congrArg State1.nanoseconds e
    have e2 := congrArg State1.seconds e
    simp only at e1 e2
    rw [hs] at e2
    constructor
    · omega
    · omega
  · rintro ⟨e1, e2⟩
    cases st
    simp only at e1 hs ⊢
    rw [e1, e2, Nat.sub_zero, Nat.sub_zero, hs]

/-- witnesses: 2024-02-29 12:00:00.12 in the day-month-year variant and 1970-12-31 23:59:59.99 in the day-of-year
    variant compare equal after the round trip; … -/
example : C04.TDF1_WF ⟨0x251, 1709208000, 120000000⟩ 1709208000 ∧ yearAvail 0x251 = true ∧ 120000000 % 10000000 = 0 ∧
    C04.TDF1_WF ⟨0x51, 31535999, 990000000⟩ 31535999 ∧ yearAvail 0x51 = false ∧ 990000000 % 10000000 = 0 ∧
    31535999 < 365 * 86400 :=
  ⟨⟨rfl, by simp, by simp [DAYS], by simp⟩, by decide, by decide, ⟨rfl, by simp, by simp [DAYS], by simp⟩, by decide,
   by decide, by decide⟩

/-- … and the model evaluated on them and on the two kinds of excluded object (1 ns more; day-of-year in 1971) -/
example :
    (∀ b, (⟨0x251, 1709208000, 120000000⟩ : State1).pack = .ok b →
      State1.eq ⟨0x251, 1709208000, 120000000⟩ (State1.unpack ⟨0x51, 5, 6⟩ b).1 = true) ∧
    (∀ b, (⟨0x251, 1709208000, 120000001⟩ : State1).pack = .ok b →
      State1.eq ⟨0x251, 1709208000, 120000001⟩ (State1.unpack ⟨0x51, 5, 6⟩ b).1 = false) ∧
    (∀ b, (⟨0x51, 31535999, 990000000⟩ : State1).pack = .ok b →
      State1.eq ⟨0x51, 31535999, 990000000⟩ (State1.unpack State1.fresh b).1 = true) ∧
    (∀ b, (⟨0x51, 31536000, 0⟩ : State1).pack = .ok b →
      State1.eq ⟨0x51, 31536000, 0⟩ (State1.unpack State1.fresh b).1 = false) := by
  refine ⟨?_, ?_, ?_, ?_⟩ <;> intro b hb <;> injection hb with hb <;> subst hb <;> rfl

/-! ### TimeDataFormat2 -/

theorem State2_eq_iff (a b : TimeFmt.State2) : TimeFmt.State2.eq a b = true ↔ a = b := by
  constructor
  · intro h
    simp only [TimeFmt.State2.eq, Bool.and_eq_true, beq_iff_eq] at h
    cases a; cases b; simp_all
  · rintro rfl; simp [TimeFmt.State2.eq]

/-- IEEE-1588 time codes (2002, 2008 — any non-zero code): every well-formed object, any rounding function with the
    binary64 facts (the float path is not taken at all) -/
theorem TDF2_eq_decode_ptp (fl : ℚ → ℚ) (F : FloatSem fl) (s t : State2) (h : C04.TDF2_WF s)
    (hp : isPTP s.channel_specific_data = true) :
    ∃ b, State2.packWith fl s = .ok b ∧ (State2.unpackWith fl t b).2 = .ok () ∧
      State2.eq s (State2.unpackWith fl t b).1 = true := by
  obtain ⟨b, hb, hu⟩ := C04.TDF2_roundtrip_ptp fl F s t h hp
  exact ⟨b, hb, by rw [hu], by rw [hu, State2_eq_iff]⟩

/-- NTP code: the comparison gives True exactly for the nanosecond counts that survive the two truncating float
    conversions -/
theorem TDF2_eq_decode_ntp (fl : ℚ → ℚ) (F : FloatSem fl) (s t : State2) (h : C04.TDF2_WF s)
    (hp : isPTP s.channel_specific_data = false) :
    ∃ b, State2.packWith fl s = .ok b ∧ (State2.unpackWith fl t b).2 = .ok () ∧
      (State2.eq s (State2.unpackWith fl t b).1 = true ↔ fracToNs fl (nsToFrac fl s.nanoseconds) = s.nanoseconds) := by
  refine ⟨_, C04.TDF2_pack_layout fl F s h, ?_⟩
  obtain ⟨h1, h2, h3⟩ := h
  have hn := C04.ntp_within_1ns fl F s.nanoseconds (by omega)
  simp only [hp, Bool.false_eq_true, if_false]
  rw [C04.TDF2_unpack_bytes fl t _ _ _ h1 h2 hn.2.2]
  refine ⟨rfl, ?_⟩
  rw [State2_eq_iff]
  simp only [hp, Bool.false_eq_true, if_false]
  constructor
  · intro e
    have := congrArg State2.nanoseconds e
    exact this.symm
  · intro e
    cases s
    simp only at e ⊢
    rw [e]

/-- the executable model (binary64 round to nearest even — what the driver runs and the correspondence check compares
    with CPython) -/
theorem TDF2_eq_decode_ptp_exec (s t : State2) (h : C04.TDF2_WF s) (hp : isPTP s.channel_specific_data = true) :
    ∃ b, s.pack = .ok b ∧ (State2.unpack t b).2 = .ok () ∧ State2.eq s (State2.unpack t b).1 = true :=
  TDF2_eq_decode_ptp Float.rne rne_floatSem s t h hp

theorem TDF2_eq_decode_ntp_exec (s t : State2) (h : C04.TDF2_WF s) (hp : isPTP s.channel_specific_data = false) :
    ∃ b, s.pack = .ok b ∧ (State2.unpack t b).2 = .ok () ∧
      (State2.eq s (State2.unpack t b).1 = true ↔
        fracToNs Float.rne (nsToFrac Float.rne s.nanoseconds) = s.nanoseconds) :=
  TDF2_eq_decode_ntp Float.rne rne_floatSem s t h hp

/-- witnesses: the three network time codes (NTP, IEEE-1588-2002, IEEE-1588-2008) on well-formed objects -/
example : C04.TDF2_WF { channel_specific_data := 0x21, seconds := 1709208000, nanoseconds := 999999999 } ∧ isPTP 0x21 = true ∧
    C04.TDF2_WF { channel_specific_data := 0x11, seconds := 0xFFFFFFFF, nanoseconds := 1 } ∧ isPTP 0x11 = true ∧
    C04.TDF2_WF { channel_specific_data := 0xFFFFFF0F, seconds := 0xFFFFFFFF, nanoseconds := 585937500 } ∧
    isPTP 0xFFFFFF0F = false :=
  ⟨by simp [C04.TDF2_WF], by decide, by simp [C04.TDF2_WF], by decide, by simp [C04.TDF2_WF], by decide⟩

/-- the NTP condition on the executable model is decidable and has members on both sides.  `frac = int(ns·2³²/10⁹)`
    truncates, so only nanosecond counts for which `ns·2²³/5⁹` is an integer (multiples of 5⁹ = 1 953 125 ns) can come
    back unchanged — and of those 512 values 428 do, the rest fall to the float rounding of the constant
    (`#eval` over all 512; sampled non-multiples never survive).  Survivors: 0, 3·5⁹, 300·5⁹; one short: 1·5⁹, 0.5 s
    = 256·5⁹, 1 ns, 123 456 789 ns, 999 999 999 ns.  (`harness/families/ch11.py` `tdf2_fields` draws NTP objects with
    0 ns for the generic C14 check for this reason.) -/
example : fracToNs Float.rne (nsToFrac Float.rne 0) = 0 ∧
    fracToNs Float.rne (nsToFrac Float.rne 5859375) = 5859375 ∧
    fracToNs Float.rne (nsToFrac Float.rne 585937500) = 585937500 ∧
    fracToNs Float.rne (nsToFrac Float.rne 1953125) = 1953124 ∧
    fracToNs Float.rne (nsToFrac Float.rne 500000000) = 499999999 ∧
    fracToNs Float.rne (nsToFrac Float.rne 1) = 0 ∧
    fracToNs Float.rne (nsToFrac Float.rne 123456789) = 123456788 ∧
    fracToNs Float.rne (nsToFrac Float.rne 999999999) = 999999998 := by decide +kernel

end Acra.Props.C14
