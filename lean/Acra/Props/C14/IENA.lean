import Acra.Model.IENA
import Acra.Props.C01.IENA
namespace Acra.Props.C14
open Acra.Py Acra.Model.IENA Acra.Gen.IENA

/-- two IENA objects that compare equal encode to the same bytes (size is recomputed) -/
theorem IENA_eq_sound (a b : Base) (h : Base.eq a b = true) : (Base.pack a).2 = (Base.pack b).2 := by
  simp only [Base.eq, Bool.and_eq_true, beq_iff_eq] at h
  obtain ⟨⟨⟨⟨⟨⟨h1, h2⟩, h3⟩, h4⟩, h5⟩, h6⟩, h7⟩ := h
  simp only [Base.pack, h1, h2, h3, h4, h5, h6, h7]
  repeat' split
  all_goals simp_all

/-- non-vacuity: equal although the (recomputed) size fields differ -/
example : Base.eq { Base.fresh with key := 0x1A, payload := [5, 0], size := 9 }
    { Base.fresh with key := 0x1A, payload := [5, 0], size := 0 } = true := by decide

theorem IENA_eq_decode (a t : Base) (h : Lemmas.IENA.IENA_WF a) :
    ∃ b, (Base.pack a).2 = .ok b ∧ (Base.unpack t b).2 = .ok () ∧ Base.eq a (Base.unpack t b).1 = true := by
  obtain ⟨b, hp, hu, _⟩ := C01.IENA_roundtrip a t h
  exact ⟨b, hp, by rw [hu], by rw [hu]; simp [Base.eq]⟩

example : Lemmas.IENA.IENA_WF { Base.fresh with key := 0x1A, timeusec := 10000000, payload := [5, 0] } := by
  simp [Lemmas.IENA.IENA_WF, Base.fresh, IENA_DEFAULT_ENDFIELD]

/-- IENA-M equality compares header fields, the cached payload and the parameter list; equal
    objects have equal parameters, hence equal encodings -/
theorem IENAM_eq_sound (a b : MState) (h : MState.eq a b = true) : (MState.pack a).2 = (MState.pack b).2 := by
  simp only [MState.eq, Bool.and_eq_true, beq_iff_eq] at h
  obtain ⟨hb, hp⟩ := h
  simp only [MState.pack, hp]
  cases encAllM b.parameters with
  | error e => rfl
  | ok pl =>
    simp only
    apply IENA_eq_sound
    simp only [Base.eq, Bool.and_eq_true, beq_iff_eq] at hb ⊢
    obtain ⟨⟨⟨⟨⟨⟨h1, h2⟩, h3⟩, h4⟩, h5⟩, h6⟩, h7⟩ := hb
    simp_all

example : MState.eq { MState.fresh with parameters := [⟨1, 2, [0xAA, 0xBB, 0xCC]⟩] }
    { base := { Base.fresh with size := 77 }, parameters := [⟨1, 2, [0xAA, 0xBB, 0xCC]⟩] } = true := by decide

/-- (added by the rev2 review: IENA-M had no decode clause) an object decoded, into an object in any prior state, from
    a's encoding compares equal to a as `pack` left it -/
theorem IENAM_eq_decode (a t : MState) (h : C01.IENAM_WF a) :
    ∃ b, (MState.pack a).2 = .ok b ∧ (MState.unpack t b).2 = .ok () ∧
      MState.eq (MState.pack a).1 (MState.unpack t b).1 = true := by
  refine ⟨Lemmas.IENA.IENA_bytes (C01.IENAM_base a), by rw [C01.IENAM_pack_eq a h], by rw [C01.IENAM_unpack_eq a t h], ?_⟩
  rw [C01.IENAM_unpack_eq a t h, C01.IENAM_pack_eq a h]
  simp [MState.eq, Base.eq, C01.IENAM_base]

example : C01.IENAM_WF { MState.fresh with parameters := [⟨1, 2, [0xAA, 0xBB, 0xCC]⟩, ⟨3, 4, []⟩] } := by
  refine ⟨by simp [Lemmas.IENA.MParam_WF], ?_⟩
  simp [Lemmas.IENA.IENA_WF, C01.IENAM_base, MState.fresh, Base.fresh, IENA_DEFAULT_ENDFIELD, Lemmas.IENA.encMb, Lemmas.IENA.padM]

end Acra.Props.C14
