import Acra.Model.IENA
import Acra.Props.C01.IENA
namespace Acra.Props.C14
open Acra.Py Acra.Model.IENA Acra.Gen.IENA

/-- two IENA objects that compare equal encode to the same bytes (size is recomputed) -/
theorem IENA_eq_sound (a b : Base) (h : Base.eq a b = true) : (Base.pack a).2 = (Base.pack b).2 := by
  simp only [Base.eq, Bool.and_eq_true, beq_iff_eq] at h
  obtain ⟨⟨⟨⟨⟨⟨h1, h2⟩, h3⟩, h4⟩, h5⟩, h6⟩, h7⟩ := h
  simp only [Base.pack, h1, h2, h3, h4, h5, h6, h7]
  repeat' split
  all_goals simp_all

theorem IENA_eq_decode (a t : Base) (h : Lemmas.IENA.IENA_WF a) :
    ∃ b, (Base.pack a).2 = .ok b ∧ (Base.unpack t b).2 = .ok () ∧ Base.eq a (Base.unpack t b).1 = true := by
  obtain ⟨b, hp, hu, _⟩ := C01.IENA_roundtrip a t h
  exact ⟨b, hp, by rw [hu], by rw [hu]; simp [Base.eq]⟩

/-- IENA-M equality compares header fields, the cached payload and the parameter list; equal
    objects have equal parameters, hence equal encodings -/
theorem IENAM_eq_sound (a b : MState) (h : MState.eq a b = true) : (MState.pack a).2 = (MState.pack b).2 := by
  simp only [MState.eq, Bool.and_eq_true, beq_iff_eq] at h
  obtain ⟨hb, hp⟩ := h
  simp only [MState.pack, hp]
  cases encAllM b.parameters with
  | error e => rfl
  | ok pl =>
    simp only
    apply IENA_eq_sound
    simp only [Base.eq, Bool.and_eq_true, beq_iff_eq] at hb ⊢
    obtain ⟨⟨⟨⟨⟨⟨h1, h2⟩, h3⟩, h4⟩, h5⟩, h6⟩, h7⟩ := hb
    simp_all

end Acra.Props.C14
