/-
  C14 for the ch10 family: equality never equates objects that encode differently; an object decoded from
  another's encoding compares equal to it (where the format can express the object); the `isinstance`
  guard is the harness's business (`eq_foreign` in harness/generic.py) — the model's `eq` is `__eq__`
  restricted to operands of the class.

  Chapter11.eq_decode is FALSE in general (K5): `unpack` leaves the filler inside `payload` and an empty
  `filler`, so for |payload| % 4 ≠ 0 the decoded object differs from the packed one in `payload` and
  `filler`.  Proved: the aligned case, and the negation witness.
-/
import Acra.Lemmas.Ch11
import Acra.Lemmas.Ch10UDP
namespace Acra.Props.C14
open Acra.Py Acra.Lemmas.Ch10 Acra

/-! ### Chapter10UDP -/
/-- two Chapter10UDP objects that compare equal encode to the same bytes (or raise the same exception):
    whatever the format of `a`, every field `pack` reads in that format is in the compared list -/
theorem udp_eq_sound (a b : Model.Ch10UDP.State) (h : Model.Ch10UDP.eq a b = true) :
    (Model.Ch10UDP.pack a).2 = (Model.Ch10UDP.pack b).2 := Lemmas.Ch10UDP.udp_eq_sound a b h

/-- non-vacuity: two format-1 objects that differ only in stale format-3 attributes compare equal -/
example : Model.Ch10UDP.eq { Model.Ch10UDP.fresh with sequence := 0xABCDEF, payload := [1, 2, 3] }
    { Model.Ch10UDP.fresh with sequence := 0xABCDEF, payload := [1, 2, 3], sourceid := 5, offset_pkt_start := some 3 } = true := by
  decide

/-- decode(encode(a)) == a, formats 1 and 3: for every well-formed header, whatever state the decoding
    object was in -/
theorem udp_eq_decode_fmt1 (a t : Model.Ch10UDP.State) (h : Lemmas.Ch10UDP.WF1 a) :
    ∃ b, (Model.Ch10UDP.pack a).2 = .ok b ∧ (Model.Ch10UDP.unpack t b).2 = .ok () ∧
      Model.Ch10UDP.eq (Model.Ch10UDP.pack a).1 (Model.Ch10UDP.unpack t b).1 = true := by
  have hp := Lemmas.Ch10UDP.pack_fmt1 a h
  have hu := Lemmas.Ch10UDP.unpack_spec_fmt1 a t h
  obtain ⟨hv, ht, ht1, hs⟩ := h
  refine ⟨_, by rw [hp], by rw [hu], ?_⟩
  rw [hp, hu]
  simp [Model.Ch10UDP.eq, Lemmas.Ch10UDP.dec1, hv, Gen.Ch10UDP.TYPE_SEG, ht1]

example : Lemmas.Ch10UDP.WF1 { Model.Ch10UDP.fresh with sequence := 0xABCDEF, payload := [1, 2, 3] } := by
  simp [Lemmas.Ch10UDP.WF1, Model.Ch10UDP.fresh, Gen.Ch10UDP.DEFAULT_VERSION, Gen.Ch10UDP.TYPE_FULL]

theorem udp_eq_decode_fmt3 (a t : Model.Ch10UDP.State) (o : Nat) (h : Lemmas.Ch10UDP.WF3 a o) :
    ∃ b, (Model.Ch10UDP.pack a).2 = .ok b ∧ (Model.Ch10UDP.unpack t b).2 = .ok () ∧
      Model.Ch10UDP.eq (Model.Ch10UDP.pack a).1 (Model.Ch10UDP.unpack t b).1 = true := by
  have hp := Lemmas.Ch10UDP.pack_fmt3 a o h
  have hu := Lemmas.Ch10UDP.unpack_spec_fmt3 a t o h
  obtain ⟨hv, hl, hsid, hseq, ho, ho2⟩ := h
  refine ⟨_, by rw [hp], by rw [hu], ?_⟩
  rw [hp, hu]
  simp [Model.Ch10UDP.eq, Lemmas.Ch10UDP.dec3, hv, ho]

example : Lemmas.Ch10UDP.WF3 { Model.Ch10UDP.fresh with version := 3, sourceid_len := 3, sourceid := 0x5A5, sequence := 0xFFFFF,
                                                        offset_pkt_start := some 12 } 12 := by
  simp [Lemmas.Ch10UDP.WF3]

/-- format 2: under the K1 exclusion, and with `channelsequence` — which format 2 does not carry but
    `__eq__` compares — at its default 0 -/
theorem udp_eq_decode_fmt2_partial (a t : Model.Ch10UDP.State) (h : Lemmas.Ch10UDP.WF2 a)
    (hk : a.sequence / 65536 % 16 ≠ 1 ∧ a.sequence / 65536 % 16 ≠ 3) (hc : a.channelsequence = 0) :
    ∃ b, (Model.Ch10UDP.pack a).2 = .ok b ∧ (Model.Ch10UDP.unpack t b).2 = .ok () ∧
      Model.Ch10UDP.eq (Model.Ch10UDP.pack a).1 (Model.Ch10UDP.unpack t b).1 = true := by
  have hp := Lemmas.Ch10UDP.pack_fmt2 a h
  have hu := Lemmas.Ch10UDP.unpack_spec_fmt2 a t h hk
  obtain ⟨hv, ht, hs, hso, hch, hpl⟩ := h
  refine ⟨_, by rw [hp], by rw [hu], ?_⟩
  rw [hp, hu]
  simp [Model.Ch10UDP.eq, Lemmas.Ch10UDP.dec2, hv, hc, Gen.Ch10UDP.TYPE_SEG]

example : Lemmas.Ch10UDP.WF2 { Model.Ch10UDP.fresh with version := 2, type := 3, sequence := 0xA2CDEF, segmentoffset := 0x123456,
                                                        channelID := 7, payload := [1, 2, 3, 4, 5] } ∧
    (0xA2CDEF / 65536 % 16 ≠ 1 ∧ 0xA2CDEF / 65536 % 16 ≠ 3) ∧
    ({ Model.Ch10UDP.fresh with version := 2, type := 3, sequence := 0xA2CDEF, segmentoffset := 0x123456,
                                channelID := 7, payload := [1, 2, 3, 4, 5] } : Model.Ch10UDP.State).channelsequence = 0 := by
  simp [Lemmas.Ch10UDP.WF2, Model.Ch10UDP.fresh]

/-! ### Chapter11 / Chapter10 -/
/-- `__eq__` compares every attribute, so equal objects are the same object state and encode identically -/
theorem ch11_eq_sound (a b : Model.Ch11.State) (h : Model.Ch11.eq a b = true) : a = b := by
  simp only [Model.Ch11.eq, Bool.and_eq_true, beq_iff_eq] at h
  obtain ⟨⟨⟨⟨⟨⟨⟨⟨⟨⟨⟨⟨⟨⟨e1, e2⟩, e3⟩, e4⟩, e5⟩, e6⟩, e7⟩, e8⟩, e9⟩, ⟨e10, e11⟩⟩, e12⟩, e13⟩, e14⟩, e15⟩, e16⟩ := h
  cases a with
  | mk s1 c1 pl1 dl1 dv1 sq1 pf1 dt1 rt1 pt1 ts1 py1 dc1 fl1 hs1 =>
    cases b with
    | mk s2 c2 pl2 dl2 dv2 sq2 pf2 dt2 rt2 pt2 ts2 py2 dc2 fl2 hs2 =>
      cases pt1; cases pt2
      simp_all

theorem ch11_eq_sound_pack (a b : Model.Ch11.State) (h : Model.Ch11.eq a b = true) :
    Model.Ch11.pack a = Model.Ch11.pack b := by rw [ch11_eq_sound a b h]

example : Model.Ch11.eq { Model.Ch11.fresh with channelID := 0x1234, sequence := 3, payload := [1, 2, 3, 4] }
    { Model.Ch11.fresh with channelID := 0x1234, sequence := 3, payload := [1, 2, 3, 4] } = true := by decide

/-
  Full statement (FALSE, K5):
    theorem ch11_eq_decode (a t) (h : WFn a) : ∃ b, (pack a).2 = .ok b ∧ (unpack t b).2 = .ok () ∧ eq (pack a).1 (unpack t b).1 = true
  Proved: the case in which header + payload is already a multiple of four (no filler), the object's PTP time
  attribute is the default (there is no secondary header to carry it) and both objects have
  `data_checksum_size = 0`.
-/
theorem ch11_eq_decode_partial (a t : Model.Ch11.State) (h : Lemmas.Ch11.WFn a) (ha : a.payload.length % 4 = 0)
    (hp : a.ptptime = ⟨0, 0⟩) (ht : t.data_checksum_size = 0) :
    ∃ b, (Model.Ch11.pack a).2 = .ok b ∧ (Model.Ch11.unpack t b).2 = .ok () ∧
      Model.Ch11.eq (Model.Ch11.pack a).1 (Model.Ch11.unpack t b).1 = true := by
  obtain ⟨b, hpk, hu⟩ := Lemmas.Ch11.roundtrip_nosec a t h
  refine ⟨b, by rw [hpk], by rw [hu], ?_⟩
  rw [hpk, hu]
  obtain ⟨_, _, _, _, _, _, _, h8, _⟩ := h
  have hf : Spec.Ch11.fillLen (24 + 0 + a.payload.length) = 0 := by unfold Spec.Ch11.fillLen; omega
  simp [Model.Ch11.eq, Lemmas.Ch11.decoded, Lemmas.Ch11.packed, hf, hp, h8, ht]

/-- non-vacuity: an aligned 8-byte payload, every header field at its maximum -/
example :
    let a : Model.Ch11.State := { Model.Ch11.fresh with
      channelID := 0xFFFF, sequence := 0xFF, packetflag := 0x35, datatype := 0x50, relativetimecounter := 0xFFFFFFFFFFFF,
      payload := [1, 2, 3, 4, 5, 6, 7, 8] }
    Lemmas.Ch11.WFn a ∧ a.payload.length % 4 = 0 ∧ a.ptptime = ⟨0, 0⟩ ∧ Model.Ch11.fresh.data_checksum_size = 0 := by
  simp [Lemmas.Ch11.WFn, Model.Ch11.fresh, Gen.Ch11.DEFAULT_SYNCPATTERN, Gen.Ch11.DEFAULT_DATATYPEVERSION, Gen.Ch11.TS_RTC]

/-- K5, negation witness: a one-byte payload.  The packed object has `filler = FF FF FF`, `payload = 01`; the
    decoded one has `filler = ""`, `payload = 01 FF FF FF`: they do not compare equal. -/
theorem ch11_eq_decode_fails_unaligned :
    let a : Model.Ch11.State := { Model.Ch11.fresh with payload := [1] }
    Lemmas.Ch11.WFn a ∧ ∃ b, (Model.Ch11.pack a).2 = .ok b ∧ (Model.Ch11.unpack Model.Ch11.fresh b).2 = .ok () ∧
      (Model.Ch11.unpack Model.Ch11.fresh b).1.payload = [1, 0xFF, 0xFF, 0xFF] ∧
      Model.Ch11.eq (Model.Ch11.pack a).1 (Model.Ch11.unpack Model.Ch11.fresh b).1 = false := by
  refine ⟨by simp [Lemmas.Ch11.WFn, Model.Ch11.fresh, Gen.Ch11.DEFAULT_SYNCPATTERN, Gen.Ch11.DEFAULT_DATATYPEVERSION,
      Gen.Ch11.TS_RTC],
    [0x25, 0xEB, 0, 0, 28, 0, 0, 0, 1, 0, 0, 0, 5, 0, 0, 0, 0, 0, 0, 0, 0, 0, 0x47, 0xEB, 1, 0xFF, 0xFF, 0xFF],
    ?_, ?_, ?_, ?_⟩ <;> decide

/-! ### PTPTime / RTCTime -/
theorem ptp_eq_sound (a b : Model.Ch11.PTP)
    (h : Model.Ch11.ptpEq (a.seconds, a.nanoseconds) (b.seconds, b.nanoseconds) = true) : a.pack = b.pack := by
  simp [Model.Ch11.ptpEq] at h
  obtain ⟨h1, h2⟩ := h
  cases a; cases b
  simp only at h1 h2
  have e1 : _ = _ := Int.ofNat.inj h1
  have e2 : _ = _ := Int.ofNat.inj h2
  subst e1; subst e2; rfl

example : Model.Ch11.ptpEq (1700000000, 999999999) (1700000000, 999999999) = true := by decide

theorem ptp_eq_decode (a : Model.Ch11.PTP) (hs : a.seconds < 2 ^ 32) (hn : a.nanoseconds < 2 ^ 32) :
    ∃ b, a.pack = .ok b ∧ Model.Ch11.PTP.unpack b = .ok a := by
  have hf : Fits Gen.Ch11.PTP_pack_fmt0.codes [a.nanoseconds, a.seconds] := by
    simp only [Gen.Ch11.PTP_pack_fmt0, Fits, Code.bound, and_true]; omega
  refine ⟨_, structPack_eq _ _ hf, ?_⟩
  have hu := structUnpack_enc Gen.Ch11.PTP_unpack_fmt0 [a.nanoseconds, a.seconds] hf
  simp [Model.Ch11.PTP.unpack, show Gen.Ch11.PTP_pack_fmt0 = Gen.Ch11.PTP_unpack_fmt0 from rfl, hu]

example : (⟨1700000000, 999999999⟩ : Model.Ch11.PTP).seconds < 2 ^ 32 ∧ (⟨1700000000, 999999999⟩ : Model.Ch11.PTP).nanoseconds < 2 ^ 32 := by
  decide

end Acra.Props.C14
