import Acra.Lemmas.MPEGTS
import Acra.Model.PMT
import Acra.Model.PES
import Acra.Props.C06.MPEGTS
import Acra.Props.C06.PES
import Acra.Props.C06.STANAG
namespace Acra.Props.C14
open Acra.Py Acra.Model.MPEGTS Acra.Model.PMT Acra.Model.PES Acra.Lemmas.MPEGTS

/-! Equality soundness: two objects that compare equal encode to the same bytes.  For the classes
    whose `__eq__` walks every attribute the model's `eq` is structural equality, so equal objects
    are the same value; `MPEGPacketPMT.__eq__` omits `payload` and `_crc`, which `pack` does not read;
    `STANAG4609.__eq__` omits the private `_unknown`, `_unknown2`, which `pack` DOES encode. -/

theorem Ext_eq_sound (a b : Ext) (h : Ext.eq a b = true) : Ext.pack a = Ext.pack b := by
  simp only [Ext.eq, beq_iff_eq] at h; rw [h]

example : Ext.eq { Ext.fresh with ltw := [1, 2] } { Ext.fresh with ltw := [1, 2] } = true := by decide

theorem AF_eq_sound (a b : AF) (h : AF.eq a b = true) : AF.pack a = AF.pack b := by
  simp only [AF.eq, beq_iff_eq] at h; rw [h]

example : AF.eq { AF.fresh with pcr := [1, 2, 3, 4, 5, 6], length := 40 } { AF.fresh with pcr := [1, 2, 3, 4, 5, 6], length := 40 } = true := by
  decide

theorem Pkt_eq_iff (a b : Pkt) : Pkt.eq a b = true ↔ a = b := by
  constructor
  · intro h
    simp only [Pkt.eq, Bool.and_eq_true, beq_iff_eq] at h
    obtain ⟨⟨⟨⟨⟨⟨⟨⟨⟨h1, h2⟩, h3⟩, h4⟩, h5⟩, h6⟩, h7⟩, h8⟩, h9⟩, h10⟩ := h
    cases a; cases b; simp_all
  · rintro rfl; simp [Pkt.eq]

theorem Pkt_eq_sound (a b : Pkt) (ns : Bool) (h : Pkt.eq a b = true) : Pkt.pack a ns = Pkt.pack b ns := by
  rw [(Pkt_eq_iff a b).mp h]

example : Pkt.eq C06.examplePkt C06.examplePkt = true := by decide

theorem zipWith_eq_all (l1 l2 : List Pkt) (hl : l1.length = l2.length)
    (h : (List.zipWith Pkt.eq l1 l2).all id = true) : l1 = l2 := by
  induction l1 generalizing l2 with
  | nil => cases l2 <;> simp_all
  | cons x xs ih =>
    cases l2 with
    | nil => simp at hl
    | cons y ys =>
      simp only [List.zipWith_cons_cons, List.all_cons, id, Bool.and_eq_true] at h
      rw [(Pkt_eq_iff x y).mp h.1, ih ys (by simpa using hl) h.2]

theorem MPEGTS_eq_sound (a b : TS) (h : TS.eq a b = true) : TS.pack a = TS.pack b := by
  simp only [TS.eq, Bool.and_eq_true, beq_iff_eq] at h
  have := zipWith_eq_all a.blocks b.blocks h.1 h.2
  cases a; cases b; simp_all

example : TS.eq { blocks := [C06.examplePkt, C06.examplePktSplice] } { blocks := [C06.examplePkt, C06.examplePktSplice] } = true := by decide

/-- PMT equality ignores `payload` and `_crc`; `pack` rebuilds the payload from the compared fields
    and never reads `_crc`, so equal objects encode identically -/
theorem PMT_eq_sound (a b : PMT) (h : PMT.eq a b = true) : (PMT.pack a).2 = (PMT.pack b).2 := by
  simp only [PMT.eq, Bool.and_eq_true, beq_iff_eq] at h
  obtain ⟨⟨⟨⟨⟨⟨⟨⟨⟨⟨⟨⟨⟨⟨⟨⟨⟨⟨⟨h1, h2⟩, h3⟩, h4⟩, h5⟩, h6⟩, h7⟩, h8⟩, h9⟩, h10⟩, h11⟩, h12⟩, h13⟩, h14⟩, h15⟩, h16⟩, h17⟩, h18⟩, h19⟩, h20⟩ := h
  have hp : ∀ pl, ({ a.pkt with payload := pl } : Pkt) = { b.pkt with payload := pl } := by
    intro pl
    cases ha : a.pkt; cases hb : b.pkt
    simp_all
  simp only [PMT.pack, h10, h11, h12, h13, h14, h15, h16, h17, h19, h20, hp]
  repeat' split
  all_goals simp_all

/-- non-vacuity: two PMT objects that differ in the uncompared `payload` and `_crc` compare equal -/
example : PMT.eq { PMT.fresh with program_number := 1, pcr_pid := 0x100 }
    { PMT.fresh with program_number := 1, pcr_pid := 0x100, crc := some 5, pkt := { Pkt.fresh with payload := [1] } } = true := by
  decide

theorem PES_eq_iff (a b : PES) : PES.eq a b = true ↔ a = b := by
  constructor
  · intro h
    simp only [PES.eq, Bool.and_eq_true, beq_iff_eq] at h
    obtain ⟨⟨⟨⟨⟨h1, h2⟩, h3⟩, h4⟩, h5⟩, h6⟩ := h
    have := (Pkt_eq_iff _ _).mp h6
    cases a; cases b; simp_all
  · rintro rfl; simp [PES.eq, (Pkt_eq_iff _ _).mpr rfl]

theorem PES_eq_sound (a b : PES) (h : PES.eq a b = true) : PES.pack a = PES.pack b := by
  rw [(PES_eq_iff a b).mp h]

example : PES.eq C06.headerExample C06.headerExample = true := by decide

/-- full statement (`STANAG.eq a b → pack a = pack b`) is FALSE of the model and of the code:
    `__eq__` does not compare `_unknown` / `_unknown2`, which are encoded.  Proved for objects that
    agree on those two private fields (C14 quantifies over public fields); witness below. -/
theorem STANAG_eq_sound_partial (a b : STANAG) (h : STANAG.eq a b = true)
    (hu : a.unknown = b.unknown ∧ a.unknown2 = b.unknown2) : STANAG.pack a = STANAG.pack b := by
  simp only [STANAG.eq, Bool.and_eq_true, beq_iff_eq] at h
  obtain ⟨⟨h1, h2⟩, h3⟩ := h
  have := (PES_eq_iff _ _).mp h3
  cases a; cases b; simp_all

example : STANAG.eq C06.stanagExample C06.stanagExample = true ∧
    (C06.stanagExample.unknown = C06.stanagExample.unknown ∧ C06.stanagExample.unknown2 = C06.stanagExample.unknown2) :=
  ⟨by decide, rfl, rfl⟩

example : STANAG.eq STANAG.fresh { STANAG.fresh with unknown := 1 } = true ∧
    (STANAG.pack STANAG.fresh).2 ≠ (STANAG.pack { STANAG.fresh with unknown := 1 }).2 := by
  refine ⟨by decide, ?_⟩
  intro h
  have := congrArg (fun r : R Bytes => match r with | .ok b => b.getD 12 0 | .error _ => 0) h
  revert this
  decide +kernel

/-- the object decoded from a packet's encoding compares equal to the packet `pack` left behind
    (exactly filled packets: the format carries no payload length) -/
theorem Pkt_eq_decode (p t : Pkt) (h : Pkt_WF p) (hs : p.sync = 0x47) (hfull : Pkt_used p = 188)
    (h2af : p.adaption_ctrl = 2 → p.adaption_field.isSome = true)
    (hpl : (p.adaption_ctrl = 0 ∨ p.adaption_ctrl = 2) → p.payload = [])
    (hnoaf : ¬ hasAF p → p.adaption_field = none) :
    Pkt.eq (Pkt.pack p).1 (Pkt.unpack t (Pkt_bytes p)).1 = true := by
  rw [Pkt_pack_eq' p false h, Pkt_unpack_bytes p t h hs h2af, Pkt_eq_iff]
  by_cases haf : hasAF p
  · have hc : p.adaption_ctrl = 2 ∨ p.adaption_ctrl = 3 := haf
    simp only [Pkt_packed, Pkt_decoded, if_pos haf]
    rcases hc with hc | hc
    · have := hpl (Or.inr hc)
      simp [hc, this]
    · simp [hc, Pkt_stuffing, hfull]
  · have hx := hnoaf haf
    have hc : ¬ (p.adaption_ctrl = 2 ∨ p.adaption_ctrl = 3) := haf
    simp only [Pkt_packed, Pkt_decoded, if_neg haf]
    by_cases h1 : p.adaption_ctrl = 1
    · cases p; simp_all [Pkt_stuffing]
    · have h0 : p.adaption_ctrl = 0 := by have := h.2.2.2.2.1; omega
      have := hpl (Or.inl h0)
      cases p; simp_all

set_option maxRecDepth 20000 in
/-- non-vacuity of `Pkt_eq_decode`: a payload-only packet that fills its 188 bytes exactly -/
example :
    let p : Pkt := { Pkt.fresh with pid := 0x104, adaption_ctrl := 1, continuitycounter := 15, payload := List.replicate 184 0xAB }
    Pkt_WF p ∧ p.sync = 0x47 ∧ Pkt_used p = 188 ∧ (p.adaption_ctrl = 2 → p.adaption_field.isSome = true) ∧
    ((p.adaption_ctrl = 0 ∨ p.adaption_ctrl = 2) → p.payload = []) ∧ (¬ hasAF p → p.adaption_field = none) := by
  refine ⟨⟨by decide, by decide, by decide, by decide, by decide, by decide, ?_⟩, by decide, by decide, by decide, by decide, ?_⟩
  · intro a ha; simp [Pkt.fresh] at ha
  · intro _; rfl

/-- (added by the rev2 review) the extension decoded, into an object in any prior state and with anything following,
    from `e`'s encoding compares equal to `e` as `pack` left it -/
theorem Ext_eq_decode (e t : Ext) (rest : Bytes) (h : Ext_WF e) :
    ∃ b, (Ext.pack e).2 = .ok b ∧ (Ext.unpack t (b ++ rest)).2 = .ok b.length ∧
      Ext.eq (Ext.pack e).1 (Ext.unpack t (b ++ rest)).1 = true := by
  obtain ⟨b, hp, hu, _⟩ := C06.Ext_roundtrip e t rest h
  refine ⟨b, hp, by rw [hu], ?_⟩
  rw [hu, Ext_pack_eq e h]
  simp [Ext.eq]

example : Ext_WF { Ext.fresh with ltw := [1, 2], seamless_splice := [1, 2, 3, 4, 5] } := by decide

/-- (added by the rev2 review) the same for the adaptation field -/
theorem AF_eq_decode (a t : AF) (rest : Bytes) (h : AF_WF a) :
    ∃ b, (AF.pack a).2 = .ok b ∧ (AF.unpack t (b ++ rest)).2 = .ok () ∧
      AF.eq (AF.pack a).1 (AF.unpack t (b ++ rest)).1 = true := by
  obtain ⟨b, hp, hu, _⟩ := C06.AF_roundtrip a t rest h
  refine ⟨b, hp, by rw [hu], ?_⟩
  rw [hu, AF_pack_eq a h]
  simp [AF.eq]

example : AF_WF { AF.fresh with pcr := [1, 2, 3, 4, 5, 6], splice_countdown := 7, private_data := [0xAA], length := 40,
                                adaption_extension := some { Ext.fresh with piecewise := [1, 2, 3] } } := by
  refine ⟨by decide, by decide, by decide, by decide, ?_, by decide, by decide, by decide, by decide, by decide, by decide⟩
  intro x hx
  injection hx with hx
  subst hx
  decide


/- `eq_decode` for MPEGTS, MPEGPacketPMT, PES and STANAG4609 (open at the rev2 review) is in
   `Props/C14/MpegDecode.lean`.  `DescriptorTag` and `PMTStream` equality is structural in the model (`==` on the lists). -/

end Acra.Props.C14
