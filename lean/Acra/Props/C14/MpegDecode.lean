import Acra.Lemmas.MpegCanon
import Acra.Props.C06.MPEGTS
import Acra.Props.C06.PES
import Acra.Props.C06.STANAG
import Acra.Props.C06.PMT
import Acra.Props.C14.Mpeg
namespace Acra.Props.C14
open Acra.Py Acra.Model.MPEGTS Acra.Model.PMT Acra.Model.PES Acra.Lemmas.MPEGTS Acra.Lemmas.PES Acra.Lemmas.PMT
open Acra.Lemmas.MpegCanon

/-! C14 `eq_decode` for the composite MPEG classes (rev2 "not repaired" item 4): *an object decoded from another's
    encoding compares equal to it* — under the class's own `__eq__`, with the encoder as `pack` left it, the decoder
    starting from an ARBITRARY prior state `t`.  The quantifier is "objects the class can encode exactly", stated as the
    decidable canonical-form predicates of `Lemmas/MpegCanon.lean` (`Pkt_canon`, `PMT_canon`, `PES_canon`,
    `STANAG_canon`); each theorem is followed by witnesses, and by counter-examples showing which clause of the
    canonical form each excluded object violates. -/

/-! ### MPEGPacket (stronger form of `Pkt_eq_decode`) -/

/-- `Pkt_eq_decode` asks for an exactly filled packet in every adaptation-control mode; only packets that carry a
    payload need it (controls 0 and 2 may be followed by any amount of stuffing) -/
theorem Pkt_eq_decode_canon (p t : Pkt) (h : Pkt_canon p) :
    ∃ b, (Pkt.pack p).2 = .ok b ∧ (Pkt.unpack t b).2 = .ok () ∧ Pkt.eq (Pkt.pack p).1 (Pkt.unpack t b).1 = true := by
  have e := Pkt_canon_packed_eq_decoded p h
  obtain ⟨hw, hs, _, h2af, _, _⟩ := h
  refine ⟨Pkt_bytes p, by rw [Pkt_pack_eq' p false hw]; rfl, by rw [Pkt_unpack_bytes p t hw hs h2af], ?_⟩
  rw [Pkt_pack_eq' p false hw, Pkt_unpack_bytes p t hw hs h2af, Pkt_eq_iff]
  exact e

/-- witnesses: adaptation only (control 2) with stuffing after the adaptation field; adaptation + payload filling the
    packet; payload only -/
example : Pkt_canon { Pkt.fresh with pid := 0x1FFF, adaption_ctrl := 2,
                                     adaption_field := some { AF.fresh with pcr := [1, 2, 3, 4, 5, 6] } } ∧
    Pkt_canon { Pkt.fresh with pid := 5, adaption_ctrl := 3, payload := List.replicate 100 7,
                               adaption_field := some { AF.fresh with length := 83, splice_countdown := 3 } } ∧
    Pkt_canon { Pkt.fresh with adaption_ctrl := 1, payload := List.replicate 184 0xAB } := by decide +kernel

/-! ### MPEGTS -/

/-- a transport stream the class encodes exactly: every block canonical and not over-full (an over-full block is
    emitted longer than 188 bytes and shifts the framing of everything after it) -/
def TS_canon (s : TS) : Prop := ∀ p ∈ s.blocks, Pkt_canon p ∧ Pkt_used p ≤ 188

instance (s : TS) : Decidable (TS_canon s) := by unfold TS_canon; infer_instance

theorem MPEGTS_eq_decode (s t : TS) (h : TS_canon s) :
    ∃ b, (TS.pack s).2 = .ok b ∧ b.length = 188 * s.blocks.length ∧ (TS.unpack t b).2 = .ok true ∧
      TS.eq (TS.pack s).1 (TS.unpack t b).1 = true := by
  have hw : ∀ p ∈ s.blocks, Pkt_WF p := fun p hp => (h p hp).1.1
  obtain ⟨hu, hl⟩ := C06.MPEGTS_roundtrip t s.blocks
    (fun p hp => ⟨(h p hp).1.1, (h p hp).1.2.1, (h p hp).2, (h p hp).1.2.2.2.1⟩)
  have hp : TS.pack s = ({ blocks := s.blocks.map Pkt_packed }, .ok (s.blocks.flatMap Pkt_bytes)) := by
    simp only [TS.pack, packBlocks_eq s.blocks hw]
  have hm : s.blocks.map Pkt_packed = s.blocks.map Pkt_decoded :=
    List.map_congr_left (fun p hp => Pkt_canon_packed_eq_decoded p (h p hp).1)
  refine ⟨s.blocks.flatMap Pkt_bytes, by rw [hp], hl, by rw [hu], ?_⟩
  rw [hp, hu, hm]
  simp only [TS.eq, beq_self_eq_true, Bool.true_and]
  generalize s.blocks.map Pkt_decoded = l
  induction l with
  | nil => rfl
  | cons x xs ih =>
    simp only [List.zipWith_cons_cons, List.all_cons, id, Bool.and_eq_true]
    exact ⟨(Pkt_eq_iff x x).mpr rfl, ih⟩

/-- witness: a stream of three packets, one per payload-carrying / adaptation-only mode -/
example : TS_canon { blocks :=
    [ { Pkt.fresh with pid := 0x1FFF, adaption_ctrl := 2,
                       adaption_field := some { AF.fresh with pcr := [1, 2, 3, 4, 5, 6] } },
      { Pkt.fresh with pid := 5, adaption_ctrl := 3, payload := List.replicate 100 7,
                       adaption_field := some { AF.fresh with length := 83, splice_countdown := 3 } },
      { Pkt.fresh with adaption_ctrl := 1, payload := List.replicate 184 0xAB } ] } := by decide +kernel

/-- what the canonical form excludes, each a well-formed object whose own encoding decodes to an UNEQUAL object:
    (a) payload-only packet that does not fill 188 bytes (stuffing comes back as payload); (b) control 2 with a
    payload (dropped); (c) control 1 holding an adaptation-field object (never emitted) -/
example :
    let a : Pkt := { Pkt.fresh with adaption_ctrl := 1, payload := [1, 2, 3] }
    let b : Pkt := { Pkt.fresh with adaption_ctrl := 2, payload := [1], adaption_field := some AF.fresh }
    let c : Pkt := { Pkt.fresh with adaption_ctrl := 1, payload := List.replicate 184 0, adaption_field := some AF.fresh }
    (¬ Pkt_canon a ∧ Pkt.eq (Pkt.pack a).1 (Pkt.unpack Pkt.fresh (Pkt_bytes a)).1 = false) ∧
    (¬ Pkt_canon b ∧ Pkt.eq (Pkt.pack b).1 (Pkt.unpack Pkt.fresh (Pkt_bytes b)).1 = false) ∧
    (¬ Pkt_canon c ∧ Pkt.eq (Pkt.pack c).1 (Pkt.unpack Pkt.fresh (Pkt_bytes c)).1 = false) := by decide +kernel

/-! ### MPEGPacketPMT -/

/-- `MPEGPacketPMT.__eq__` does not look at `payload` and `_crc`, so no filling condition is needed: any well-formed
    PMT with adaptation control 1 or 3 decodes to an object equal to the encoder -/
theorem PMT_eq_decode (s t : PMT) (h : PMT_canon s) :
    ∃ b, (PMT.pack s).2 = .ok b ∧ (PMT.unpack t b).2 = .ok true ∧ PMT.eq (PMT.pack s).1 (PMT.unpack t b).1 = true := by
  obtain ⟨hw, hs, hafc, hnoaf⟩ := h
  have hu := PMT_unpack_bytes s t hw hs hafc
  refine ⟨Pkt_bytes (PMT_pkt s), by rw [PMT_pack_eq s hw], by rw [hu], ?_⟩
  rw [PMT_pack_eq s hw, hu]
  have haf : (Pkt_packed (PMT_pkt s)).adaption_field = (Pkt_decoded (PMT_pkt s)).adaption_field := by
    by_cases hh : hasAF (PMT_pkt s)
    · simp only [Pkt_packed, Pkt_decoded, if_pos hh]
    · have hc : ¬ (s.pkt.adaption_ctrl = 2 ∨ s.pkt.adaption_ctrl = 3) := hh
      have : (PMT_pkt s).adaption_field = none := hnoaf (by omega)
      simp only [Pkt_packed, Pkt_decoded, if_neg hh, this]
  have hf : ∀ q : Pkt, (Pkt_packed q).sync = q.sync ∧ (Pkt_packed q).pid = q.pid ∧
      (Pkt_packed q).transport_priority = q.transport_priority ∧ (Pkt_packed q).tei = q.tei ∧
      (Pkt_packed q).pusi = q.pusi ∧ (Pkt_packed q).continuitycounter = q.continuitycounter ∧
      (Pkt_packed q).tsc = q.tsc ∧ (Pkt_packed q).adaption_ctrl = q.adaption_ctrl := by
    intro q; unfold Pkt_packed; split <;> exact ⟨rfl, rfl, rfl, rfl, rfl, rfl, rfl, rfl⟩
  obtain ⟨f1, f2, f3, f4, f5, f6, f7, f8⟩ := hf (PMT_pkt s)
  simp only [PMT.eq, PMT_decoded, f1, f2, f3, f4, f5, f6, f7, f8, haf]
  simp [Pkt_decoded]

/-- witnesses: the C06 example (one descriptor, two streams, payload only), and an empty section behind an adaptation
    field; neither fills the packet -/
example : PMT_canon C06.pmtExample ∧
    PMT_canon { PMT.fresh with
      pkt := { Pkt.fresh with adaption_ctrl := 3, adaption_field := some { AF.fresh with length := 20 } } } := by
  decide +kernel

/-- excluded: a FRESH `MPEGPacketPMT()` (adaptation control 0, notes E6) cannot decode its own encoding at all -/
example : ¬ PMT_canon PMT.fresh := by decide +kernel

/-! ### PES -/

theorem PES_eq_decode (s t : PES) (h : PES_canon s) :
    ∃ b, (PES.pack s).2 = .ok b ∧ (PES.unpack t b).2 = .ok () ∧ PES.eq (PES.pack s).1 (PES.unpack t b).1 = true := by
  have hu := PES_canon_unpack s t h
  have hw := h.1
  refine ⟨Pkt_bytes (PES_pkt s), by rw [PES_pack_eq s hw], by rw [hu], ?_⟩
  rw [PES_pack_eq s hw, hu, PES_eq_iff]

/-- witnesses: with the optional header (payload only, and through adaptation stuffing), header-less through
    adaptation stuffing, and a header-less packet with only two data bytes -/
example : PES_canon C06.headerExample ∧ PES_canon C06.headerFill ∧ PES_canon C06.pesFill ∧
    PES_canon { PES.fresh with
      pkt := { Pkt.fresh with adaption_ctrl := 3, adaption_field := some { AF.fresh with length := 175 } },
      streamid := 224, pesdata := [1, 2] } := by decide +kernel

/-- what the canonical form excludes: (a) K2 — header-less, exactly filled, first data byte 0x8_: decodes to an
    object with an optional header; (b) data followed by stuffing (`pesPlain` of C06): the stuffing comes back as data;
    (c) only one of the three optional-header attributes set: it is not emitted and comes back `None` -/
example :
    let c : PES := { C06.pesFill with extension_w1 := some 0x80 }
    (¬ PES_canon C06.k2Witness ∧ PES.eq (PES.pack C06.k2Witness).1 (PES.unpack PES.fresh (Pkt_bytes (PES_pkt C06.k2Witness))).1 = false) ∧
    (¬ PES_canon C06.pesPlain ∧ PES.eq (PES.pack C06.pesPlain).1 (PES.unpack PES.fresh (Pkt_bytes (PES_pkt C06.pesPlain))).1 = false) ∧
    (¬ PES_canon c ∧ PES.eq (PES.pack c).1 (PES.unpack PES.fresh (Pkt_bytes (PES_pkt c))).1 = false) := by decide +kernel

/-! ### STANAG4609 -/

theorem STANAG_eq_decode (s t : STANAG) (h : STANAG_canon s) :
    ∃ b, (STANAG.pack s).2 = .ok b ∧ (STANAG.unpack t b).2 = .ok () ∧
      STANAG.eq (STANAG.pack s).1 (STANAG.unpack t b).1 = true := by
  obtain ⟨hwf, hc⟩ := h
  have hw := hc.1
  have hp := PES_canon_unpack (STANAG_pes s) t.pes hc
  have hu := STANAG_tail t (Pkt_bytes (PES_pkt (STANAG_pes s))) _ s.stanag_counter s.unknown s.unknown2 s.time_us
    hwf.1 hwf.2.1 hwf.2.2.1 hwf.2.2.2 hp
    (by show (Pkt_packed (PES_pkt (STANAG_pes s))).pid = 260; unfold Pkt_packed; split <;> rfl) rfl
  refine ⟨Pkt_bytes (PES_pkt (STANAG_pes s)), by rw [STANAG_pack_eq s hwf, PES_pack_eq _ hw], by rw [hu], ?_⟩
  rw [STANAG_pack_eq s hwf, PES_pack_eq _ hw, hu]
  simp [STANAG.eq, (PES_eq_iff _ _).mpr rfl]

/-- witnesses: the packet of the pinned `test_stanag_create` (optional PES header, adaptation stuffing) and the
    header-less packet with the largest 64-bit time -/
example : STANAG_canon C06.stanagExample ∧ STANAG_canon C06.stanagPlain := by decide +kernel

/-- excluded: (a) E3 — payload-only control, stuffing after the metadata: the decoder rejects the library's own
    encoding; (b) K2 through the subclass — header-less with `stanag_counter = 0x8000` -/
example :
    ¬ STANAG_canon { STANAG.fresh with pes := { PES.fresh with pkt := { Pkt.fresh with adaption_ctrl := 1 } } } ∧
    ¬ STANAG_canon { C06.stanagPlain with stanag_counter := 0x8000 } := by decide +kernel

end Acra.Props.C14
