import Acra.Model.NPD
import Acra.Props.C01.NPD
namespace Acra.Props.C14
open Acra.Py Acra.Model.NPD Acra.Gen.NPD Acra.Lemmas.NPD

theorem pack_nonrs232 (g : Seg) (hk : g.kind ≠ .rs232) : Seg.pack g = (g, g.packBase) := by
  cases hkk : g.kind <;> simp_all [Seg.pack]

/- Full statement (FALSE of the faithful model, hence of the code):
     Seg.eq l r = true → (Seg.pack l).2 = (Seg.pack r).2
   `NPDSegment.__eq__` is inherited by the ACQ / A429 / PCM-packetizer / 1553 segment classes and accepts a
   segment of ANY class, comparing the cached payload; an RS232Segment encodes from block status, sync bytes
   and data instead.  So an ACQ (…) segment can compare equal to an RS-232 segment that encodes differently. -/
theorem Segment_eq_sound_partial (l r : Seg) (h : Seg.eq l r = true)
    (hcls : r.kind = .rs232 → l.kind = .rs232) : (Seg.pack l).2 = (Seg.pack r).2 := by
  by_cases hl : l.kind = .rs232
  · by_cases hr : r.kind = .rs232
    · simp only [Seg.eq, hl, hr, Seg.eqRS232, Bool.and_eq_true, beq_iff_eq] at h
      obtain ⟨⟨⟨⟨⟨⟨h1, h2⟩, h3⟩, h4⟩, h5⟩, h6⟩, h7⟩ := h
      simp only [Seg.pack, hl, hr, Seg.packRS232, h5, h6, h7]
      cases hs : structPack RS232Segment_pack_fmt0 [(r.block_status &&& 0xFFF8) + r.sync_bytes.length] with
      | error e => rfl
      | ok hb =>
        cases hy : packSync r.sync_bytes with
        | error e => rfl
        | ok sb =>
          simp only [Seg.packBase, Seg.setPayload, h1, h3, h4]
          try rfl
    · simp only [Seg.eq, hl] at h
      cases hrk : r.kind <;> simp_all
  · have hr : r.kind ≠ .rs232 := fun hr => hl (hcls hr)
    have he : Seg.eqBase l r = true := by
      simp only [Seg.eq] at h
      cases hlk : l.kind <;> cases hrk : r.kind <;> simp_all
    simp only [Seg.eqBase, Bool.and_eq_true, beq_iff_eq] at he
    obtain ⟨⟨⟨⟨h1, h2⟩, h3⟩, h4⟩, h5⟩ := he
    rw [pack_nonrs232 l hl, pack_nonrs232 r hr]
    simp only [Seg.packBase, h1, h2, h3, h4, h5]

/-- witness that the full statement fails: an ACQ segment and an RS-232 segment that has never been
    packed (empty cached payload) compare equal, and encode differently -/
example : Seg.eq (Seg.fresh .acq) { Seg.fresh .rs232 with data := [1] } = true ∧
    (match (Seg.pack (Seg.fresh .acq)).2, (Seg.pack { Seg.fresh .rs232 with data := [1] }).2 with
     | .ok a, .ok b => a != b
     | _, _ => false) = true := by decide

/-- the bytes a segment list packs to depend only on what each segment packs to -/
theorem packSegs_snd_congr (ls rs : List Seg) (h : segsEq ls rs = true)
    (hcls : ∀ r ∈ rs, r.kind = .rs232 → ∀ l ∈ ls, l.kind = .rs232) :
    (packSegs ls).2 = (packSegs rs).2 := by
  induction ls generalizing rs with
  | nil => cases rs <;> simp_all [segsEq]
  | cons a as ih =>
    cases rs with
    | nil => simp [segsEq] at h
    | cons b bs =>
      simp only [segsEq, Bool.and_eq_true] at h
      have h1 := Segment_eq_sound_partial a b h.1 (fun hb => hcls b (by simp) hb a (by simp))
      have h2 := ih bs h.2 (fun r hr hk l hl => hcls r (by simp [hr]) hk l (by simp [hl]))
      simp only [packSegs]
      cases ha : a.pack with
      | mk a' ra =>
        cases hb : b.pack with
        | mk b' rb =>
          rw [ha, hb] at h1
          simp only at h1
          subst h1
          cases ra with
          | error e => rfl
          | ok x =>
            cases hpa : packSegs as with
            | mk as' r1 =>
              cases hpb : packSegs bs with
              | mk bs' r2 =>
                rw [hpa, hpb] at h2
                simp only at h2
                subst h2
                cases r1 <;> rfl

/- Full statement (FALSE, see `Segment_eq_sound_partial`):  eq a b = true → (pack a).2 = (pack b).2 -/
/-- two NPD objects that compare equal encode to the same bytes, provided an RS-232 segment is only
    ever compared with RS-232 segments -/
theorem NPD_eq_sound_partial (a b : State) (h : eq a b = true)
    (hcls : ∀ r ∈ a.segments, r.kind = .rs232 → ∀ l ∈ b.segments, l.kind = .rs232) :
    (pack a).2 = (pack b).2 := by
  simp only [eq, Bool.and_eq_true, beq_iff_eq] at h
  obtain ⟨⟨⟨⟨⟨⟨⟨⟨⟨⟨h1, h2⟩, h3⟩, h4⟩, h5⟩, h6⟩, h7⟩, h8⟩, h9⟩, h10⟩, h11⟩ := h
  have hs := packSegs_snd_congr b.segments a.segments h11 hcls
  simp only [pack, ← h1, ← h2, ← h3, ← h5, ← h6, ← h7, ← h8, ← h9, ← h10]
  cases b.mcastaddr with
  | none => rfl
  | some mc =>
    simp only
    cases hpa : packSegs a.segments with
    | mk ga ra =>
      cases hpb : packSegs b.segments with
      | mk gb rb =>
        rw [hpa, hpb] at hs
        simp only at hs
        subst hs
        cases rb with
        | error e => rfl
        | ok pl =>
          simp only
          cases b.datatype <;> cases b.timestamp <;> simp only
          split <;> rfl

/-- the object decoded from a's encoding compares equal to a as `pack` left it (data types whose segment
    class is not RS232Segment; no RS-232 segments in the packet) -/
theorem NPD_eq_decode (a t : State) (dt mc ts : Nat) (h : NPD_WF a dt mc ts)
    (hok : ∀ g ∈ a.segments, TypedOK (kindOf dt) g) (hk : kindOf dt ≠ .rs232)
    (hseg : ∀ g ∈ a.segments, g.kind ≠ .rs232) :
    ∃ b, (pack a).2 = .ok b ∧ (unpack t b).2 = .ok () ∧ eq (pack a).1 (unpack t b).1 = true := by
  obtain ⟨b, hp, hu, _⟩ := C01.NPD_roundtrip a t dt mc ts h hok (Or.inl hk)
  refine ⟨b, hp, by rw [hu], ?_⟩
  rw [hu, NPD_pack_eq a dt mc ts h]
  have hsegs : segsEq (a.segments.map (decodedSeg (kindOf dt))) (a.segments.map packedSeg) = true := by
    obtain ⟨_, _, _, _, _, _, _, _, _, _, _, _, h13, _⟩ := h
    generalize a.segments = gs at h13 hok hseg
    induction gs with
    | nil => rfl
    | cons g gs ih =>
      simp only [List.map_cons, segsEq, Bool.and_eq_true]
      refine ⟨?_, ih (fun x hx => h13 x (by simp [hx])) (fun x hx => hok x (by simp [hx])) (fun x hx => hseg x (by simp [hx]))⟩
      have hgk := hseg g (by simp)
      have hpk : packedSeg g = g := by cases hkk : g.kind <;> simp_all [packedSeg]
      have heff : effPayload g = g.payload := by cases hkk : g.kind <;> simp_all [effPayload]
      obtain ⟨_, _, _, _, _, h6⟩ := h13 g (by simp)
      have hb := typedUnpack_base (kindOf dt) (withBase (Seg.fresh (kindOf dt)) g.timedelta g.errorcode g.flags (effPayload g))
      obtain ⟨hb1, hb2, hb3, hb4, hb5, hb6⟩ := hb
      have hdk : (decodedSeg (kindOf dt) g).kind = kindOf dt := by simp only [decodedSeg]; rw [hb6]; rfl
      have he : Seg.eq (decodedSeg (kindOf dt) g) g = Seg.eqBase (decodedSeg (kindOf dt) g) g := by
        simp only [Seg.eq, hdk]
        cases hkd : kindOf dt <;> cases hkk : g.kind <;> simp_all
      rw [hpk, he]
      simp only [Seg.eqBase, Bool.and_eq_true, beq_iff_eq, decodedSeg]
      rw [hb1, hb2, hb3, hb4, hb5]
      simp [withBase, heff, h6 hgk, Nat.add_comm]
  simp [eq, decodedNPD, packedNPD, hsegs]

end Acra.Props.C14
