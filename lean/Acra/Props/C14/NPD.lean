import Acra.Model.NPD
import Acra.Props.C01.NPD
import Acra.Lemmas.NPDRS232
namespace Acra.Props.C14
open Acra.Py Acra.Model.NPD Acra.Gen.NPD Acra.Lemmas.NPD

theorem pack_nonrs232 (g : Seg) (hk : g.kind ≠ .rs232) : Seg.pack g = (g, g.packBase) := by
  cases hkk : g.kind <;> simp_all [Seg.pack]

/-- segments that compare equal are of the same class (`type(other) is type(self)`) -/
theorem Segment_eq_kind (l r : Seg) (h : Seg.eq l r = true) : l.kind = r.kind := by
  simp only [Seg.eq] at h
  split at h <;> simp_all

/-- two segments that compare equal encode to the same bytes (any pair of segment classes) -/
theorem Segment_eq_sound (l r : Seg) (h : Seg.eq l r = true) : (Seg.pack l).2 = (Seg.pack r).2 := by
  have hk := Segment_eq_kind l r h
  by_cases hl : l.kind = .rs232
  · have hr : r.kind = .rs232 := hk ▸ hl
    have h' : Seg.eqRS232 l r = true := by
      simp only [Seg.eq, hk, if_true, hr] at h
      exact h
    simp only [Seg.eqRS232, Bool.and_eq_true, beq_iff_eq] at h'
    obtain ⟨⟨⟨⟨⟨⟨h1, h2⟩, h3⟩, h4⟩, h5⟩, h6⟩, h7⟩ := h'
    simp only [Seg.pack, hl, hr, Seg.packRS232, h5, h6, h7]
    cases hs : structPack RS232Segment_pack_fmt0 [(r.block_status &&& 0xFFF8) + r.sync_bytes.length] with
    | error e => rfl
    | ok hb =>
      cases hy : packSync r.sync_bytes with
      | error e => rfl
      | ok sb =>
        simp only [Seg.packBase, Seg.setPayload, h1, h3, h4]
        try rfl
  · have hr : r.kind ≠ .rs232 := fun hr => hl (hk ▸ hr)
    have he : Seg.eqBase l r = true := by
      simp only [Seg.eq, hk, if_true] at h
      cases hrk : r.kind <;> simp_all
    simp only [Seg.eqBase, Bool.and_eq_true, beq_iff_eq] at he
    obtain ⟨⟨⟨⟨h1, h2⟩, h3⟩, h4⟩, h5⟩ := he
    rw [pack_nonrs232 l hl, pack_nonrs232 r hr]
    simp only [Seg.packBase, h1, h2, h3, h4, h5]

/-- non-vacuity: two RS-232 segments that differ in the (rebuilt, uncompared) `payload` compare equal -/
example : Seg.eq { Seg.fresh .rs232 with block_status := 0xFFFF, sync_bytes := [1, 2], data := [9] }
    { Seg.fresh .rs232 with block_status := 0xFFFF, sync_bytes := [1, 2], data := [9], payload := [7] } = true := by decide

/-- the counterexample that existed before the `fix:` commit (an ACQ segment comparing equal to a
    never-packed RS-232 segment) is now unequal -/
example : Seg.eq (Seg.fresh .acq) { Seg.fresh .rs232 with data := [1] } = false := by decide

/-- the bytes a segment list packs to depend only on what each segment packs to -/
theorem packSegs_snd_congr (ls rs : List Seg) (h : segsEq ls rs = true) :
    (packSegs ls).2 = (packSegs rs).2 := by
  induction ls generalizing rs with
  | nil => cases rs <;> simp_all [segsEq]
  | cons a as ih =>
    cases rs with
    | nil => simp [segsEq] at h
    | cons b bs =>
      simp only [segsEq, Bool.and_eq_true] at h
      have h1 := Segment_eq_sound a b h.1
      have h2 := ih bs h.2
      simp only [packSegs]
      cases ha : a.pack with
      | mk a' ra =>
        cases hb : b.pack with
        | mk b' rb =>
          rw [ha, hb] at h1
          simp only at h1
          subst h1
          cases ra with
          | error e => rfl
          | ok x =>
            cases hpa : packSegs as with
            | mk as' r1 =>
              cases hpb : packSegs bs with
              | mk bs' r2 =>
                rw [hpa, hpb] at h2
                simp only at h2
                subst h2
                cases r1 <;> rfl

/-- two NPD objects that compare equal encode to the same bytes -/
theorem NPD_eq_sound (a b : State) (h : eq a b = true) : (pack a).2 = (pack b).2 := by
  simp only [eq, Bool.and_eq_true, beq_iff_eq] at h
  obtain ⟨⟨⟨⟨⟨⟨⟨⟨⟨⟨h1, h2⟩, h3⟩, h4⟩, h5⟩, h6⟩, h7⟩, h8⟩, h9⟩, h10⟩, h11⟩ := h
  have hs := packSegs_snd_congr b.segments a.segments h11
  simp only [pack, ← h1, ← h2, ← h3, ← h5, ← h6, ← h7, ← h8, ← h9, ← h10]
  cases b.mcastaddr with
  | none => rfl
  | some mc =>
    simp only
    cases hpa : packSegs a.segments with
    | mk ga ra =>
      cases hpb : packSegs b.segments with
      | mk gb rb =>
        rw [hpa, hpb] at hs
        simp only at hs
        subst hs
        cases rb with
        | error e => rfl
        | ok pl =>
          simp only
          cases b.datatype <;> cases b.timestamp <;> simp only
          split <;> rfl

example : eq { fresh with datatype := some 0xD0, segments := [{ Seg.fresh .base with payload := [1, 2, 3, 4] }] }
    { fresh with datatype := some 0xD0, segments := [{ Seg.fresh .base with payload := [1, 2, 3, 4] }] } = true := by decide

/-- the object decoded from a's encoding compares equal to a as `pack` left it (data types whose segment
    class is not RS232Segment; the segments are of the class the data type dictates — equality is
    class-strict) -/
theorem NPD_eq_decode (a t : State) (dt mc ts : Nat) (h : NPD_WF a dt mc ts)
    (hok : ∀ g ∈ a.segments, TypedOK (kindOf dt) g) (hk : kindOf dt ≠ .rs232)
    (hseg : ∀ g ∈ a.segments, g.kind = kindOf dt) :
    ∃ b, (pack a).2 = .ok b ∧ (unpack t b).2 = .ok () ∧ eq (pack a).1 (unpack t b).1 = true := by
  obtain ⟨b, hp, hu, _⟩ := C01.NPD_roundtrip a t dt mc ts h hok (Or.inl hk)
  refine ⟨b, hp, by rw [hu], ?_⟩
  rw [hu, NPD_pack_eq a dt mc ts h]
  have hsegs : segsEq (a.segments.map (decodedSeg (kindOf dt))) (a.segments.map packedSeg) = true := by
    obtain ⟨_, _, _, _, _, _, _, _, _, _, _, _, h13, _⟩ := h
    generalize a.segments = gs at h13 hok hseg
    induction gs with
    | nil => rfl
    | cons g gs ih =>
      simp only [List.map_cons, segsEq, Bool.and_eq_true]
      refine ⟨?_, ih (fun x hx => h13 x (by simp [hx])) (fun x hx => hok x (by simp [hx])) (fun x hx => hseg x (by simp [hx]))⟩
      have hgk0 := hseg g (by simp)
      have hgk : g.kind ≠ .rs232 := by rw [hgk0]; exact hk
      have hpk : packedSeg g = g := by cases hkk : g.kind <;> simp_all [packedSeg]
      have heff : effPayload g = g.payload := by cases hkk : g.kind <;> simp_all [effPayload]
      obtain ⟨_, _, _, _, _, h6⟩ := h13 g (by simp)
      have hb := typedUnpack_base (kindOf dt) (withBase (Seg.fresh (kindOf dt)) g.timedelta g.errorcode g.flags (effPayload g))
      obtain ⟨hb1, hb2, hb3, hb4, hb5, hb6⟩ := hb
      have hdk : (decodedSeg (kindOf dt) g).kind = kindOf dt := by simp only [decodedSeg]; rw [hb6]; rfl
      have he : Seg.eq (decodedSeg (kindOf dt) g) g = Seg.eqBase (decodedSeg (kindOf dt) g) g := by
        simp only [Seg.eq, hdk, hgk0, if_true]
      rw [hpk, he]
      simp only [Seg.eqBase, Bool.and_eq_true, beq_iff_eq, decodedSeg]
      rw [hb1, hb2, hb3, hb4, hb5]
      simp [withBase, heff, h6 hgk, Nat.add_comm]
  simp [eq, decodedNPD, packedNPD, hsegs]

/-- the same for the RS-232 data type (0x50): the segments are RS232Segment objects (equality is class-strict and
    `NPD.unpack` builds RS232Segment objects); `RS232Segment.__eq__` compares the header fields, the status word,
    the sync bytes and the data — the decoded segment agrees with the segment as `pack` left it on all of them.
    No `TypedOK` hypothesis: the typed header of a well-formed RS-232 segment is always complete. -/
theorem NPD_eq_decode_rs232 (a t : State) (dt mc ts : Nat) (h : NPD_WF a dt mc ts)
    (hk : kindOf dt = .rs232) (hseg : ∀ g ∈ a.segments, g.kind = .rs232) :
    ∃ b, (pack a).2 = .ok b ∧ (unpack t b).2 = .ok () ∧ eq (pack a).1 (unpack t b).1 = true := by
  have h13 : ∀ g ∈ a.segments, Seg_WF g := h.2.2.2.2.2.2.2.2.2.2.2.2.1
  have hok : ∀ g ∈ a.segments, TypedOK (kindOf dt) g := by
    intro g hg; rw [hk]; exact typedOK_rs232 g (h13 g hg) (hseg g hg)
  obtain ⟨b, hp, hu, _⟩ := C01.NPD_roundtrip a t dt mc ts h hok (Or.inr hseg)
  refine ⟨b, hp, by rw [hu], ?_⟩
  rw [hu, NPD_pack_eq a dt mc ts h]
  have hsegs : segsEq (a.segments.map (decodedSeg (kindOf dt))) (a.segments.map packedSeg) = true := by
    rw [hk]
    generalize a.segments = gs at h13 hseg
    induction gs with
    | nil => rfl
    | cons g gs ih =>
      simp only [List.map_cons, segsEq, Bool.and_eq_true]
      exact ⟨Seg_eq_decoded_rs232 g (h13 g (by simp)) (hseg g (by simp)),
        ih (fun x hx => h13 x (by simp [hx])) (fun x hx => hseg x (by simp [hx]))⟩
  simp [eq, decodedNPD, packedNPD, hsegs]

/-- every data type at once: the segments are of the class the data type dictates -/
theorem NPD_eq_decode_any (a t : State) (dt mc ts : Nat) (h : NPD_WF a dt mc ts)
    (hok : ∀ g ∈ a.segments, TypedOK (kindOf dt) g) (hseg : ∀ g ∈ a.segments, g.kind = kindOf dt) :
    ∃ b, (pack a).2 = .ok b ∧ (unpack t b).2 = .ok () ∧ eq (pack a).1 (unpack t b).1 = true := by
  by_cases hk : kindOf dt = .rs232
  · exact NPD_eq_decode_rs232 a t dt mc ts h hk (fun g hg => (hseg g hg).trans hk)
  · exact NPD_eq_decode a t dt mc ts h hok hk hseg

/-- non-vacuity: an RS-232 packet with one segment carrying two sync bytes and three data bytes -/
example : NPD_WF { fresh with datatype := some 0x50, mcastaddr := some 0xEB000001, timestamp := some 7,
                              segments := [{ Seg.fresh .rs232 with sync_bytes := [0xAA, 0x55], data := [1, 2, 3] }] }
    0x50 0xEB000001 7 := by
  refine ⟨by simp [fresh, NPD_VERSION], rfl, rfl, by omega, by simp [fresh], by simp [fresh], by simp [fresh],
    by simp [fresh], rfl, by omega, rfl, by omega, ?_, ?_⟩
  · intro g hg
    simp only [List.mem_singleton] at hg
    subst hg
    refine ⟨by decide, by decide, by decide, by decide, fun _ => ⟨by decide, by decide⟩, fun h => absurd rfl h⟩
  · decide
example : kindOf 0x50 = .rs232 := rfl
/-- … and the third hypothesis of `NPD_eq_decode_rs232` (`hseg`) on the same object -/
example : ∀ g ∈ ({ fresh with datatype := some 0x50, mcastaddr := some 0xEB000001, timestamp := some 7,
                              segments := [{ Seg.fresh .rs232 with sync_bytes := [0xAA, 0x55], data := [1, 2, 3] }] } : State).segments,
    g.kind = .rs232 := by
  intro g hg; simp at hg; subst hg; rfl

/-- non-vacuity of `NPD_eq_decode`: data type 1 (plain `NPDSegment`), one raw segment of six bytes -/
example :
    let a : State := { fresh with datatype := some 0x01, mcastaddr := some 0xEB000001, timestamp := some 7,
                                  segments := [C01.rawSeg 1 2 3 [0, 5, 1, 2, 9, 9]] }
    NPD_WF a 0x01 0xEB000001 7 ∧ (∀ g ∈ a.segments, TypedOK (kindOf 0x01) g) ∧ kindOf 0x01 ≠ .rs232 ∧
    (∀ g ∈ a.segments, g.kind = kindOf 0x01) := by
  refine ⟨?_, ?_, by decide, ?_⟩
  · refine ⟨by simp [fresh, NPD_VERSION], rfl, rfl, by omega, by simp [fresh], by simp [fresh], by simp [fresh],
      by simp [fresh], rfl, by omega, rfl, by omega, ?_, ?_⟩
    · intro g hg; simp at hg; subst hg; exact C01.rawSeg_WF 1 2 3 _ (by omega) (by omega) (by omega) (by simp)
    · simp [segBytes_length, effPayload, C01.rawSeg, Seg.fresh]
  · intro g hg; simp at hg; subst hg; rfl
  · intro g hg; simp at hg; subst hg; rfl


end Acra.Props.C14
