import Acra.Model.iNetX
import Acra.Props.C01.iNetX
namespace Acra.Props.C14
open Acra.Py Acra.Model.iNetX Acra.Gen.iNetX

/-- two iNetX objects that compare equal encode to the same bytes (packetlen is recomputed) -/
theorem iNetX_eq_sound (a b : State) (h : eq a b = true) : (pack a).2 = (pack b).2 := by
  simp only [eq, Bool.and_eq_true, beq_iff_eq] at h
  obtain ⟨⟨⟨⟨⟨⟨h1, h2⟩, h3⟩, h4⟩, h5⟩, h6⟩, h7⟩ := h
  simp only [pack, h1, h2, h3, h4, h5, h6, h7]

/-- non-vacuity: equal although the (recomputed) `packetlen` differs -/
example : eq { fresh with streamid := 0xDC, payload := [5, 0] } { fresh with streamid := 0xDC, payload := [5, 0], packetlen := 77 } = true := by
  decide

/-- an object decoded (into an object in any prior state) from a's encoding compares equal to a -/
theorem iNetX_eq_decode (a t : State) (h : C01.iNetX_WF a) :
    ∃ b, (pack a).2 = .ok b ∧ (unpack t b).2 = .ok () ∧ eq a (unpack t b).1 = true := by
  obtain ⟨b, hp, hu, hs, _⟩ := C01.iNetX_roundtrip a t h
  exact ⟨b, hp, hu, by rw [hs]; simp [eq]⟩

example : C01.iNetX_WF { fresh with streamid := 0xDC, payload := [5, 0] } := by
  simp [C01.iNetX_WF, fresh, iNetX_DEF_CONTROL_WORD]

end Acra.Props.C14
