import Acra.Lemmas.Ch11ARINC
import Acra.Props.C04.ARINC
namespace Acra.Props.C14
open Acra.Py Acra.Model.Ch11Pay Acra.Model.Ch11Pay.ARINC Acra.Gen.Ch11ARINC Acra.Lemmas.Ch11ARINC

/-- word equality compares all six public fields: equal words encode identically -/
theorem ARINCWord_eq_sound (a b : Word) (h : Word.eq a b = true) : a.pack = b.pack := by
  rw [(Word_eq_iff a b).1 h]

example : Word.eq ⟨4110, true, false, 1, 200, [1, 2, 3, 4]⟩ ⟨4110, true, false, 1, 200, [1, 2, 3, 4]⟩ = true := by decide

theorem ARINC_eq_sound (a b : Packet) (h : Packet.eq a b = true) : a.pack.2 = b.pack.2 := by
  simp only [Packet.eq, Bool.and_eq_true, beq_iff_eq, wordsEq_iff] at h
  simp only [Packet.pack, h.2]
  repeat' split
  all_goals simp_all

example : Packet.eq ⟨2, [⟨4110, true, false, 1, 200, [1, 2, 3, 4]⟩, ⟨0, false, true, 0, 0, [0, 0, 0, 0]⟩]⟩
    ⟨2, [⟨4110, true, false, 1, 200, [1, 2, 3, 4]⟩, ⟨0, false, true, 0, 0, [0, 0, 0, 0]⟩]⟩ = true := by decide

/-- the object decoded from `a`'s encoding compares equal to `a` (after `pack` has set its count) -/
theorem ARINC_eq_decode (a t : Packet) (h : C04.ARINC_WF a) :
    ∃ b, a.pack.2 = .ok b ∧ (Packet.unpack t b).2 = .ok () ∧ Packet.eq a.pack.1 (Packet.unpack t b).1 = true := by
  obtain ⟨b, hp, hu, _⟩ := C04.ARINC_roundtrip a t h
  refine ⟨b, hp, by rw [hu], ?_⟩
  rw [hu, C13_aux a]
  simp [Packet.eq, wordsEq_iff]
where
  C13_aux (a : Packet) : a.pack.1 = { a with msgcount := a.arincwords.length } := by
    simp only [Packet.pack]; repeat' split
    all_goals rfl

/-- non-vacuity of `ARINC_eq_decode`: a two-word packet with a stale count is well formed -/
example : C04.ARINC_WF ⟨0, [⟨4110, true, false, 1, 200, [1, 2, 3, 4]⟩, ⟨0, false, true, 0, 0, [0, 0, 0, 0]⟩]⟩ := by
  refine ⟨?_, by simp⟩
  intro w hw
  simp only [List.mem_cons, List.mem_nil_iff, or_false] at hw
  rcases hw with h | h <;> subst h <;> simp [Word_WF]

end Acra.Props.C14
