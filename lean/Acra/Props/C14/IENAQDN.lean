import Acra.Model.IENAQDN
import Acra.Props.C14.IENA
import Acra.Props.C01.IENAQDN
namespace Acra.Props.C14
open Acra.Py Acra.Model.IENA Acra.Gen.IENA Acra.Lemmas.IENA

/-- IENA-Q equality compares header fields, the cached payload and the parameter list; equal
    objects have equal parameters, hence equal encodings -/
theorem IENAQ_eq_sound (a b : QState) (h : QState.eq a b = true) : (QState.pack a).2 = (QState.pack b).2 := by
  simp only [QState.eq, Bool.and_eq_true, beq_iff_eq] at h
  obtain ⟨hb, hp⟩ := h
  simp only [QState.pack, hp]
  cases encAllQ b.parameters with
  | error e => rfl
  | ok pl =>
    simp only
    apply IENA_eq_sound
    simp only [Base.eq, Bool.and_eq_true, beq_iff_eq] at hb ⊢
    obtain ⟨⟨⟨⟨⟨⟨h1, h2⟩, h3⟩, h4⟩, h5⟩, h6⟩, h7⟩ := hb
    simp_all

example : QState.eq { QState.fresh with parameters := [⟨1, [0xAA, 0xBB, 0xCC]⟩] }
    { base := { Base.fresh with size := 77 }, parameters := [⟨1, [0xAA, 0xBB, 0xCC]⟩] } = true := by decide

/-- an object decoded (into an object in any prior state) from a's encoding compares equal to a, once
    a's cached payload is the one its parameters encode to (which `pack` itself establishes) -/
theorem IENAQ_eq_decode (a t : QState) (h : C01.IENAQ_WF a) :
    ∃ b, (QState.pack a).2 = .ok b ∧ (QState.unpack t b).2 = .ok () ∧
      QState.eq (QState.pack a).1 (QState.unpack t b).1 = true := by
  refine ⟨IENA_bytes (C01.IENAQ_base a), by rw [C01.IENAQ_pack_eq a h], by rw [C01.IENAQ_unpack_eq a t h], ?_⟩
  rw [C01.IENAQ_unpack_eq a t h, C01.IENAQ_pack_eq a h]
  simp [QState.eq, Base.eq, C01.IENAQ_base]

example : C01.IENAQ_WF { QState.fresh with parameters := [⟨1, [0xAA, 0xBB, 0xCC]⟩, ⟨3, []⟩] } := by
  refine ⟨by simp [QParam_WF], ?_⟩
  simp [IENA_WF, C01.IENAQ_base, QState.fresh, Base.fresh, IENA_DEFAULT_ENDFIELD, encQb, padM]

/-- IENA-D/N equality compares header fields, payload and parameters; `pack` emits header and payload -/
theorem IENAD_eq_sound (a b : DState) (h : DState.eq a b = true) : (DState.pack a).2 = (DState.pack b).2 := by
  simp only [DState.eq, Bool.and_eq_true, beq_iff_eq] at h
  exact IENA_eq_sound _ _ h.1

example : DState.eq { DState.fresh with parameters := [⟨1, 2, [3, 4]⟩] }
    { base := { Base.fresh with size := 77 }, parameters := [⟨1, 2, [3, 4]⟩] } = true := by decide

/-- an IENA-D object whose parameters are what its payload decodes to (every object a decode
    produced is such) compares equal to the object decoded from its encoding -/
theorem IENAD_eq_decode (hd : Base) (ps : List DParam) (t : DState) (hwf : IENA_WF (C01.IENAD_packet hd ps))
    (hp : ∀ p ∈ ps, DParam_WF (hd.keystatus % 8) p) :
    let a : DState := { base := C01.IENAD_packet hd ps, parameters := ps }
    ∃ b, (DState.pack a).2 = .ok b ∧ (DState.unpack t b).2 = .ok () ∧ DState.eq a (DState.unpack t b).1 = true := by
  refine ⟨IENA_bytes (C01.IENAD_packet hd ps), ?_, by rw [C01.IENAD_unpack_eq hd ps t hwf hp], ?_⟩
  · simp only [DState.pack]; rw [IENA_pack_eq _ hwf]
  · rw [C01.IENAD_unpack_eq hd ps t hwf hp]
    simp [DState.eq, Base.eq, C01.IENAD_packet]

example : IENA_WF (C01.IENAD_packet { Base.fresh with keystatus := 0x1A } [⟨1, 2, [3, 4]⟩, ⟨5, 6, [7, 65535]⟩]) ∧
    ∀ p ∈ [(⟨1, 2, [3, 4]⟩ : DParam), ⟨5, 6, [7, 65535]⟩], DParam_WF (0x1A % 8) p := by
  refine ⟨?_, by simp [DParam_WF]⟩
  simp [IENA_WF, C01.IENAD_packet, Base.fresh, IENA_DEFAULT_ENDFIELD, encDb, words16]

theorem IENAN_eq_sound (a b : NState) (h : NState.eq a b = true) : (NState.pack a).2 = (NState.pack b).2 := by
  simp only [NState.eq, Bool.and_eq_true, beq_iff_eq] at h
  exact IENA_eq_sound _ _ h.1

example : NState.eq { NState.fresh with parameters := [⟨1, [2, 3, 4]⟩] }
    { base := { Base.fresh with size := 77 }, parameters := [⟨1, [2, 3, 4]⟩] } = true := by decide

theorem IENAN_eq_decode (hd : Base) (ps : List NParam) (t : NState) (hwf : IENA_WF (C01.IENAN_packet hd ps))
    (hp : ∀ p ∈ ps, NParam_WF (hd.keystatus % 8) p) :
    let a : NState := { base := C01.IENAN_packet hd ps, parameters := ps }
    ∃ b, (NState.pack a).2 = .ok b ∧ (NState.unpack t b).2 = .ok () ∧ NState.eq a (NState.unpack t b).1 = true := by
  refine ⟨IENA_bytes (C01.IENAN_packet hd ps), ?_, by rw [C01.IENAN_unpack_eq hd ps t hwf hp], ?_⟩
  · simp only [NState.pack]; rw [IENA_pack_eq _ hwf]
  · rw [C01.IENAN_unpack_eq hd ps t hwf hp]
    simp [NState.eq, Base.eq, C01.IENAN_packet]

example : IENA_WF (C01.IENAN_packet { Base.fresh with keystatus := 3 } [⟨1, [2, 3, 4]⟩]) ∧
    ∀ p ∈ [(⟨1, [2, 3, 4]⟩ : NParam)], NParam_WF (3 % 8) p := by
  refine ⟨?_, by simp [NParam_WF]⟩
  simp [IENA_WF, C01.IENAN_packet, Base.fresh, IENA_DEFAULT_ENDFIELD, encNb, words16]

end Acra.Props.C14
