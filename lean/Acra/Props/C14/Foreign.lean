import Acra.Model.Foreign
import Acra.Model.AFDX
namespace Acra.Props.C14
open Acra.Py Acra.Model

/-! C14, third clause: "Comparing a packet with an object of an unrelated type gives False instead of raising."

    For every class of the library that defines `__eq__`, `eqOp a x` models `a == x` for ANY right-hand operand
    (`Py.Operand`): the class's comparison of two instances behind the opening statement of `__eq__` as found in the
    source today (`Gen.EqGuard.guarded_<Class>`, regenerated from the AST on every run).  `<Class>_eq_foreign` says: for
    every object `a` (any field values, no well-formedness needed) and every kind of unrelated operand — `None`, an
    `int`, a `str`, a `bytes` object, a `list`, a plain `object()`, an instance of an unrelated class of the library —
    the answer is `False`, not an exception.  `<Class>_eqOp_same` ties `eqOp` to the comparison the other C14
    theorems (`…_eq_sound`, `…_eq_decode`) are about.  A guard removed from the source flips the regenerated constant
    and these proofs stop being `rfl`.  The correspondence compares `eqOp` with the real `==`, `!=` and the operands
    swapped (`E Class :: ops ## @kind`). -/

/-- every class whose body defines `__eq__` (found by walking the package) — each has its theorem below; a class added
    to the library makes this list, and so this proof, stale -/
theorem eq_foreign_covers_every_class :
    Acra.Gen.EqGuard.classesWithEq =
      ["AFDX", "ARINC429DataPacket", "ARINC429DataWord", "ARP", "Analog", "Chapter10UDP", "Chapter11", "DescriptorTag",
       "Ethernet", "IENA", "MILSTD1553DataPacket", "MILSTD1553Message", "MPEGAdaption", "MPEGAdaptionExtension",
       "MPEGPacket", "MPEGPacketPMT", "MPEGTS", "NPD", "NPDSegment", "PCMDataPacket", "PCMMinorFrame", "PES",
       "PMTStream", "PTDP", "PTFR", "PTPTime", "ParserAlignedBlock", "ParserAlignedPacket", "RS232Segment", "RTCTime",
       "STANAG4609", "TimeDataFormat1", "TimeDataFormat2", "UARTDataPacket", "UARTDataWord", "VideoFormat2", "iNET",
       "iNetX"] := rfl

/-- the operand kinds are exactly the seven the correspondence exercises -/
theorem foreign_kinds_complete (k : ForeignKind) : k ∈ ForeignKind.all := ForeignKind.mem_all k

theorem AFDX_eq_foreign (a : AFDX.AFDX) (k : ForeignKind) : AFDX.AFDX.eqOp a (.foreign k) = .ok false := rfl
theorem AFDX_eqOp_same (a b : AFDX.AFDX) : AFDX.AFDX.eqOp a (.same b) = AFDX.AFDX.eq a b := rfl

theorem iNetX_eq_foreign (a : iNetX.State) (k : ForeignKind) : iNetX.eqOp a (.foreign k) = .ok false := rfl
theorem iNetX_eqOp_same (a b : iNetX.State) : iNetX.eqOp a (.same b) = .ok (iNetX.eq a b) := rfl

theorem IENA_eq_foreign (a : IENA.Base) (k : ForeignKind) : IENA.Base.eqOp a (.foreign k) = .ok false := rfl
theorem IENA_eqOp_same (a b : IENA.Base) : IENA.Base.eqOp a (.same b) = .ok (IENA.Base.eq a b) := rfl

theorem IENAM_eq_foreign (a : IENA.MState) (k : ForeignKind) : IENA.MState.eqOp a (.foreign k) = .ok false := rfl
theorem IENAM_eqOp_same (a b : IENA.MState) : IENA.MState.eqOp a (.same b) = .ok (IENA.MState.eq a b) := rfl

theorem IENAQ_eq_foreign (a : IENA.QState) (k : ForeignKind) : IENA.QState.eqOp a (.foreign k) = .ok false := rfl
theorem IENAQ_eqOp_same (a b : IENA.QState) : IENA.QState.eqOp a (.same b) = .ok (IENA.QState.eq a b) := rfl

theorem IENAD_eq_foreign (a : IENA.DState) (k : ForeignKind) : IENA.DState.eqOp a (.foreign k) = .ok false := rfl
theorem IENAD_eqOp_same (a b : IENA.DState) : IENA.DState.eqOp a (.same b) = .ok (IENA.DState.eq a b) := rfl

theorem IENAN_eq_foreign (a : IENA.NState) (k : ForeignKind) : IENA.NState.eqOp a (.foreign k) = .ok false := rfl
theorem IENAN_eqOp_same (a b : IENA.NState) : IENA.NState.eqOp a (.same b) = .ok (IENA.NState.eq a b) := rfl

theorem iNET_eq_foreign (a : iNET.State) (k : ForeignKind) : iNET.eqOp a (.foreign k) = .ok false := rfl
theorem iNET_eqOp_same (a b : iNET.State) : iNET.eqOp a (.same b) = iNET.eq a b := rfl

theorem NPD_eq_foreign (a : NPD.State) (k : ForeignKind) : NPD.eqOp a (.foreign k) = .ok false := rfl
theorem NPD_eqOp_same (a b : NPD.State) : NPD.eqOp a (.same b) = .ok (NPD.eq a b) := rfl

theorem ParserAlignedBlock_eq_foreign (a : ParserAligned.Block) (k : ForeignKind) : ParserAligned.Block.eqOp a (.foreign k) = .ok false := rfl
theorem ParserAlignedBlock_eqOp_same (a b : ParserAligned.Block) : ParserAligned.Block.eqOp a (.same b) = .ok (ParserAligned.Block.eq a b) := rfl

theorem ParserAlignedPacket_eq_foreign (a : ParserAligned.Packet) (k : ForeignKind) : ParserAligned.Packet.eqOp a (.foreign k) = .ok false := rfl
theorem ParserAlignedPacket_eqOp_same (a b : ParserAligned.Packet) : ParserAligned.Packet.eqOp a (.same b) = .ok (ParserAligned.Packet.eq a b) := rfl

theorem PTDP_eq_foreign (a : Chapter7.PTDP.State) (k : ForeignKind) : Chapter7.PTDP.eqOp a (.foreign k) = .ok false := rfl
theorem PTDP_eqOp_same (a b : Chapter7.PTDP.State) : Chapter7.PTDP.eqOp a (.same b) = .ok (Chapter7.PTDP.eq a b) := rfl

theorem PTFR_eq_foreign (a : Chapter7.PTFR.State) (k : ForeignKind) : Chapter7.PTFR.eqOp a (.foreign k) = .ok false := rfl
theorem PTFR_eqOp_same (a b : Chapter7.PTFR.State) : Chapter7.PTFR.eqOp a (.same b) = .ok (Chapter7.PTFR.eq a b) := rfl

theorem MPEGAdaptionExtension_eq_foreign (a : MPEGTS.Ext) (k : ForeignKind) : MPEGTS.Ext.eqOp a (.foreign k) = .ok false := rfl
theorem MPEGAdaptionExtension_eqOp_same (a b : MPEGTS.Ext) : MPEGTS.Ext.eqOp a (.same b) = .ok (MPEGTS.Ext.eq a b) := rfl

theorem MPEGAdaption_eq_foreign (a : MPEGTS.AF) (k : ForeignKind) : MPEGTS.AF.eqOp a (.foreign k) = .ok false := rfl
theorem MPEGAdaption_eqOp_same (a b : MPEGTS.AF) : MPEGTS.AF.eqOp a (.same b) = .ok (MPEGTS.AF.eq a b) := rfl

theorem MPEGPacket_eq_foreign (a : MPEGTS.Pkt) (k : ForeignKind) : MPEGTS.Pkt.eqOp a (.foreign k) = .ok false := rfl
theorem MPEGPacket_eqOp_same (a b : MPEGTS.Pkt) : MPEGTS.Pkt.eqOp a (.same b) = .ok (MPEGTS.Pkt.eq a b) := rfl

theorem MPEGTS_eq_foreign (a : MPEGTS.TS) (k : ForeignKind) : MPEGTS.TS.eqOp a (.foreign k) = .ok false := rfl
theorem MPEGTS_eqOp_same (a b : MPEGTS.TS) : MPEGTS.TS.eqOp a (.same b) = .ok (MPEGTS.TS.eq a b) := rfl

theorem DescriptorTag_eq_foreign (a : PMT.Desc) (k : ForeignKind) : PMT.Desc.eqOp a (.foreign k) = .ok false := rfl
theorem DescriptorTag_eqOp_same (a b : PMT.Desc) : PMT.Desc.eqOp a (.same b) = .ok (a == b) := rfl

theorem PMTStream_eq_foreign (a : PMT.Stream) (k : ForeignKind) : PMT.Stream.eqOp a (.foreign k) = .ok false := rfl
theorem PMTStream_eqOp_same (a b : PMT.Stream) : PMT.Stream.eqOp a (.same b) = .ok (a == b) := rfl

theorem MPEGPacketPMT_eq_foreign (a : PMT.PMT) (k : ForeignKind) : PMT.PMT.eqOp a (.foreign k) = .ok false := rfl
theorem MPEGPacketPMT_eqOp_same (a b : PMT.PMT) : PMT.PMT.eqOp a (.same b) = .ok (PMT.PMT.eq a b) := rfl

theorem PES_eq_foreign (a : PES.PES) (k : ForeignKind) : PES.PES.eqOp a (.foreign k) = .ok false := rfl
theorem PES_eqOp_same (a b : PES.PES) : PES.PES.eqOp a (.same b) = .ok (PES.PES.eq a b) := rfl

theorem STANAG4609_eq_foreign (a : PES.STANAG) (k : ForeignKind) : PES.STANAG.eqOp a (.foreign k) = .ok false := rfl
theorem STANAG4609_eqOp_same (a b : PES.STANAG) : PES.STANAG.eqOp a (.same b) = .ok (PES.STANAG.eq a b) := rfl

theorem Ethernet_eq_foreign (a : Net.Eth) (k : ForeignKind) : Net.Eth.eqOp a (.foreign k) = .ok false := rfl
theorem Ethernet_eqOp_same (a b : Net.Eth) : Net.Eth.eqOp a (.same b) = .ok (Net.Eth.eq a b) := rfl

theorem ARP_eq_foreign (a : Net.ARP) (k : ForeignKind) : Net.ARP.eqOp a (.foreign k) = .ok false := rfl
theorem ARP_eqOp_same (a b : Net.ARP) : Net.ARP.eqOp a (.same b) = .ok (Net.ARP.eq a b) := rfl

theorem Chapter10UDP_eq_foreign (a : Ch10UDP.State) (k : ForeignKind) : Ch10UDP.eqOp a (.foreign k) = .ok false := rfl
theorem Chapter10UDP_eqOp_same (a b : Ch10UDP.State) : Ch10UDP.eqOp a (.same b) = .ok (Ch10UDP.eq a b) := rfl

theorem PTPTime_eq_foreign (a : Ch11.PTP) (k : ForeignKind) : Ch11.PTP.eqOp a (.foreign k) = .ok false := rfl
theorem PTPTime_eqOp_same (a b : Ch11.PTP) : Ch11.PTP.eqOp a (.same b) = .ok (Ch11.ptpEq (a.seconds, a.nanoseconds) (b.seconds, b.nanoseconds)) := rfl

theorem RTCTime_eq_foreign (a : Nat) (k : ForeignKind) : Ch11.RTC.eqOp a (.foreign k) = .ok false := rfl
theorem RTCTime_eqOp_same (a b : Nat) : Ch11.RTC.eqOp a (.same b) = .ok (a == b) := rfl

theorem Chapter11_eq_foreign (a : Ch11.State) (k : ForeignKind) : Ch11.eqOp a (.foreign k) = .ok false := rfl
theorem Chapter11_eqOp_same (a b : Ch11.State) : Ch11.eqOp a (.same b) = .ok (Ch11.eq a b) := rfl

theorem UARTDataWord_eq_foreign (a : Ch11Pay.UART.Word) (k : ForeignKind) : Ch11Pay.UART.Word.eqOp a (.foreign k) = .ok false := rfl
theorem UARTDataWord_eqOp_same (a b : Ch11Pay.UART.Word) : Ch11Pay.UART.Word.eqOp a (.same b) = .ok (Ch11Pay.UART.Word.eq a b) := rfl

theorem UARTDataPacket_eq_foreign (a : Ch11Pay.UART.Packet) (k : ForeignKind) : Ch11Pay.UART.Packet.eqOp a (.foreign k) = .ok false := rfl
theorem UARTDataPacket_eqOp_same (a b : Ch11Pay.UART.Packet) : Ch11Pay.UART.Packet.eqOp a (.same b) = .ok (Ch11Pay.UART.Packet.eq a b) := rfl

theorem MILSTD1553Message_eq_foreign (a : Ch11Pay.MIL1553.Msg) (k : ForeignKind) : Ch11Pay.MIL1553.Msg.eqOp a (.foreign k) = .ok false := rfl
theorem MILSTD1553Message_eqOp_same (a b : Ch11Pay.MIL1553.Msg) : Ch11Pay.MIL1553.Msg.eqOp a (.same b) = .ok (Ch11Pay.MIL1553.Msg.eq a b) := rfl

theorem MILSTD1553DataPacket_eq_foreign (a : Ch11Pay.MIL1553.Packet) (k : ForeignKind) : Ch11Pay.MIL1553.Packet.eqOp a (.foreign k) = .ok false := rfl
theorem MILSTD1553DataPacket_eqOp_same (a b : Ch11Pay.MIL1553.Packet) : Ch11Pay.MIL1553.Packet.eqOp a (.same b) = .ok (Ch11Pay.MIL1553.Packet.eq a b) := rfl

theorem ARINC429DataWord_eq_foreign (a : Ch11Pay.ARINC.Word) (k : ForeignKind) : Ch11Pay.ARINC.Word.eqOp a (.foreign k) = .ok false := rfl
theorem ARINC429DataWord_eqOp_same (a b : Ch11Pay.ARINC.Word) : Ch11Pay.ARINC.Word.eqOp a (.same b) = .ok (Ch11Pay.ARINC.Word.eq a b) := rfl

theorem ARINC429DataPacket_eq_foreign (a : Ch11Pay.ARINC.Packet) (k : ForeignKind) : Ch11Pay.ARINC.Packet.eqOp a (.foreign k) = .ok false := rfl
theorem ARINC429DataPacket_eqOp_same (a b : Ch11Pay.ARINC.Packet) : Ch11Pay.ARINC.Packet.eqOp a (.same b) = .ok (Ch11Pay.ARINC.Packet.eq a b) := rfl

theorem Analog_eq_foreign (a : Ch11Pay.Analog.State) (k : ForeignKind) : Ch11Pay.Analog.eqOp a (.foreign k) = .ok false := rfl
theorem Analog_eqOp_same (a b : Ch11Pay.Analog.State) : Ch11Pay.Analog.eqOp a (.same b) = .ok (Ch11Pay.Analog.eq a b) := rfl

theorem PCMMinorFrame_eq_foreign (a : Ch11Pay.PCM.Frame) (k : ForeignKind) : Ch11Pay.PCM.Frame.eqOp a (.foreign k) = .ok false := rfl
theorem PCMMinorFrame_eqOp_same (a b : Ch11Pay.PCM.Frame) : Ch11Pay.PCM.Frame.eqOp a (.same b) = .ok (Ch11Pay.PCM.Frame.eq a b) := rfl

theorem PCMDataPacket_eq_foreign (a : Ch11Pay.PCM.Packet) (k : ForeignKind) : Ch11Pay.PCM.Packet.eqOp a (.foreign k) = .ok false := rfl
theorem PCMDataPacket_eqOp_same (a b : Ch11Pay.PCM.Packet) : Ch11Pay.PCM.Packet.eqOp a (.same b) = .ok (Ch11Pay.PCM.Packet.eq a b) := rfl

theorem TimeDataFormat1_eq_foreign (a : Ch11Pay.TimeFmt.State1) (k : ForeignKind) : Ch11Pay.TimeFmt.State1.eqOp a (.foreign k) = .ok false := rfl
theorem TimeDataFormat1_eqOp_same (a b : Ch11Pay.TimeFmt.State1) : Ch11Pay.TimeFmt.State1.eqOp a (.same b) = .ok (Ch11Pay.TimeFmt.State1.eq a b) := rfl

theorem TimeDataFormat2_eq_foreign (a : Ch11Pay.TimeFmt.State2) (k : ForeignKind) : Ch11Pay.TimeFmt.State2.eqOp a (.foreign k) = .ok false := rfl
theorem TimeDataFormat2_eqOp_same (a b : Ch11Pay.TimeFmt.State2) : Ch11Pay.TimeFmt.State2.eqOp a (.same b) = .ok (Ch11Pay.TimeFmt.State2.eq a b) := rfl

theorem VideoFormat2_eq_foreign (a : Ch11Pay.Video.State) (k : ForeignKind) : Ch11Pay.Video.eqOp a (.foreign k) = .ok false := rfl
theorem VideoFormat2_eqOp_same (a b : Ch11Pay.Video.State) : Ch11Pay.Video.eqOp a (.same b) = .ok (Ch11Pay.Video.eq a b) := rfl

/-- the six NPD segment classes (one model type, the class is the `kind`): RS232Segment's own guard for an RS-232
    segment, NPDSegment's for the other five -/
theorem NPDSegment_eq_foreign (a : NPD.Seg) (k : ForeignKind) : NPD.Seg.eqOp a (.foreign k) = .ok false := by
  simp only [NPD.Seg.eqOp, Operand.opening]
  split <;> rfl
theorem RS232Segment_eq_foreign (a : NPD.Seg) (_h : a.kind = .rs232) (k : ForeignKind) :
    NPD.Seg.eqOp a (.foreign k) = .ok false := NPDSegment_eq_foreign a k
example : (NPD.Seg.fresh .rs232).kind = .rs232 := rfl
theorem NPDSegment_eqOp_same (a b : NPD.Seg) : NPD.Seg.eqOp a (.same b) = .ok (NPD.Seg.eq a b) := rfl

/-! ### Operands that are instances of a library subclass / base class of the class

    These are NOT unrelated types (they pass an `isinstance` guard somewhere in the family), so C14's clause does not
    speak of them; the model states what the code does, and the correspondence compares it (`E … ## @sub:Cls | ops`,
    `@base:Cls | ops`). -/

/-- MPEGPacket vs PES / STANAG4609 / MPEGPacketPMT, PES vs STANAG4609, and each the other way round: every class of
    the family has its own guarded `__eq__`, so the answer is `False` whatever the field values -/
theorem MPEGPacket_eq_subclass (a b : MPEGTS.Pkt) : MPEGTS.Pkt.eqSubclass a b = .ok false := rfl
theorem MPEGPacketPMT_eq_baseclass (a b : PMT.PMT) : PMT.PMT.eqBaseclass a b = .ok false := rfl
theorem PES_eq_subclass (a b : PES.PES) : PES.PES.eqSubclass a b = .ok false := rfl
theorem PES_eq_baseclass (a b : PES.PES) : PES.PES.eqBaseclass a b = .ok false := rfl
theorem STANAG4609_eq_baseclass (a b : PES.STANAG) : PES.STANAG.eqBaseclass a b = .ok false := rfl

/-- NPDSegment vs its five subclasses and back: `type(other) is not type(self)` (resp. RS232Segment's guard) -/
theorem NPDSegment_eq_subclass (a b : NPD.Seg) : NPD.Seg.eqSubclass a b = .ok false := rfl
theorem NPDSegment_eq_baseclass (a b : NPD.Seg) : NPD.Seg.eqBaseclass a b = .ok false := by
  simp only [NPD.Seg.eqBaseclass]; split <;> rfl

/-- Chapter11 vs the deprecated subclass Chapter10 (which adds nothing): the ordinary comparison, operands swapped -/
theorem Chapter11_eq_subclass (a b : Ch11.State) : Ch11.eqSubclass a b = .ok (Ch11.eq b a) := rfl
theorem Chapter10_eq_baseclass (a b : Ch11.State) : Ch11.eqBaseclass a b = .ok (Ch11.eq a b) := rfl

/-- OBSERVATION (recorded in notes/foreign.md; outside C14's "unrelated type" clause by the lead's decision):
    IENA vs IENAM / IENAQ / IENAD / IENAN.  The one inherited `__eq__` walks `self._req_attr`; the subclasses' list
    ends with "parameters", which a plain IENA object lacks.  The comparison answers `False` when one of the seven
    base attributes differs and raises AttributeError when all seven agree — in both operand orders. -/
theorem IENA_eq_subclass (a b : IENA.Base) :
    IENA.Base.eqSubclass a b = if IENA.Base.eq b a then .error .attribute else .ok false := rfl

theorem IENA_eq_subclass_differ (a b : IENA.Base) (h : IENA.Base.eq b a = false) :
    IENA.Base.eqSubclass a b = .ok false := by simp [IENA.Base.eqSubclass, h]

example : IENA.Base.eq { IENA.Base.fresh with key := 1 } IENA.Base.fresh = false := by decide

/-- witness: `IENA() == IENAM()` with the same (here: default) field values raises AttributeError -/
theorem IENA_eq_related_raises_witness :
    IENA.Base.eqSubclass IENA.Base.fresh IENA.Base.fresh = .error .attribute ∧
    IENA.MState.eqBaseclass IENA.MState.fresh IENA.MState.fresh = .error .attribute ∧
    IENA.QState.eqBaseclass IENA.QState.fresh IENA.QState.fresh = .error .attribute ∧
    IENA.DState.eqBaseclass IENA.DState.fresh IENA.DState.fresh = .error .attribute ∧
    IENA.NState.eqBaseclass IENA.NState.fresh IENA.NState.fresh = .error .attribute := by
  refine ⟨?_, ?_, ?_, ?_, ?_⟩ <;> rfl

theorem IENAM_eq_baseclass (a b : IENA.MState) :
    IENA.MState.eqBaseclass a b = if IENA.Base.eq a.base b.base then .error .attribute else .ok false := rfl
theorem IENAQ_eq_baseclass (a b : IENA.QState) :
    IENA.QState.eqBaseclass a b = if IENA.Base.eq a.base b.base then .error .attribute else .ok false := rfl
theorem IENAD_eq_baseclass (a b : IENA.DState) :
    IENA.DState.eqBaseclass a b = if IENA.Base.eq a.base b.base then .error .attribute else .ok false := rfl
theorem IENAN_eq_baseclass (a b : IENA.NState) :
    IENA.NState.eqBaseclass a b = if IENA.Base.eq a.base b.base then .error .attribute else .ok false := rfl

/-
  FULL STATEMENT one might want of the related operands (not demanded by C14, false of the code as it stands):
      ∀ a b : IENA.Base, ∃ r, IENA.Base.eqSubclass a b = .ok r
  refuted by `IENA_eq_related_raises_witness`.  A guard `type(other) is not type(self)` (as NPDSegment has) or
  `getattr(other, attr, <sentinel>)` in IENA.__eq__ would make it true.
-/

end Acra.Props.C14
