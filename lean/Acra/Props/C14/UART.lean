import Acra.Lemmas.Ch11UART
import Acra.Props.C04.UART
namespace Acra.Props.C14
open Acra.Py Acra.Model.Ch11Pay Acra.Model.Ch11Pay.UART Acra.Gen.Ch11UART Acra.Lemmas.Ch11UART Acra.Lemmas.Ch11Pay

/-- word equality compares time stamp, parity bit, sub-channel, data length and data; words of the
    same byte order (a codec option) that compare equal encode identically -/
theorem UARTWord_eq_sound (a b : Word) (he : a.data_endianness = b.data_endianness) (h : Word.eq a b = true) :
    a.pack = b.pack := by
  obtain ⟨h1, h2, h3, _, h5⟩ := (Word_eq_iff a b).1 h
  simp only [Word.pack, h1, h2, h3, h5, he]

/-- the hypothesis `he` cannot be dropped: `UARTDataWord.__eq__` does not look at `data_endianness` (a constructor
    option), and two words that differ only there compare equal and encode differently (bytes swapped in pairs) -/
example :
    let w0 : Word := Word.setPayload (Word.fresh (.rtc 1) 0) [1, 2, 3, 4]
    let w1 : Word := Word.setPayload (Word.fresh (.rtc 1) 1) [1, 2, 3, 4]
    Word.eq w0 w1 = true ∧
    (match w0.pack, w1.pack with | .ok x, .ok y => x != y | _, _ => false) = true := ⟨by decide, rfl⟩

example :
    let w : Word := Word.setPayload (Word.fresh (.ptp 5 999999999) 1) [1, 2, 3]
    w.data_endianness = w.data_endianness ∧ Word.eq w w = true := ⟨rfl, by decide⟩

theorem wordsEq_pack (as bs : List Word) (h : wordsEq as bs = true)
    (he : ∀ a ∈ as, ∀ b ∈ bs, a.data_endianness = b.data_endianness) :
    packList Word.pack as = packList Word.pack bs := by
  induction as generalizing bs with
  | nil => cases bs <;> simp_all [wordsEq]
  | cons a as ih =>
    cases bs with
    | nil => simp [wordsEq] at h
    | cons b bs =>
      simp only [wordsEq, Bool.and_eq_true] at h
      simp only [packList, UARTWord_eq_sound a b (he a (by simp) b (by simp)) h.1,
        ih bs h.2 (fun x hx y hy => he x (by simp [hx]) y (by simp [hy]))]

/-- packet equality compares the word lists; packets with the same options whose words all have
    the packet's byte order and that compare equal encode identically -/
theorem UART_eq_sound (a b : Packet) (ho : a.ipts_source = b.ipts_source)
    (he : ∀ x ∈ a.uartwords, ∀ y ∈ b.uartwords, x.data_endianness = y.data_endianness)
    (h : Packet.eq a b = true) : a.pack = b.pack := by
  simp only [Packet.eq] at h
  have hl : a.uartwords.length = b.uartwords.length := by
    have : ∀ (xs ys : List Word), wordsEq xs ys = true → xs.length = ys.length := by
      intro xs
      induction xs with
      | nil => intro ys h; cases ys <;> simp_all [wordsEq]
      | cons x xs ih =>
        intro ys h
        cases ys with
        | nil => simp [wordsEq] at h
        | cons y ys => simp only [wordsEq, Bool.and_eq_true] at h; simp [ih ys h.2]
    exact this _ _ h
  simp only [Packet.pack, hl, ho, wordsEq_pack _ _ h he]

example :
    let a : Packet := { uartwords := [Word.setPayload (Word.fresh (.ptp 5 999999999) 1) [1, 2, 3]], ipts_source := some 1,
                        data_endianness := 1 }
    a.ipts_source = a.ipts_source ∧ (∀ x ∈ a.uartwords, ∀ y ∈ a.uartwords, x.data_endianness = y.data_endianness) ∧
    Packet.eq a a = true := ⟨rfl, by decide, by decide⟩

/-- the object decoded from `a`'s encoding compares equal to `a`, provided each word's `datalength`
    is its data size (what the `payload` setter maintains) -/
theorem UART_eq_decode (a t : Packet) (h : C04.UART_WF a) (ho : t.ipts_source = a.ipts_source)
    (he : t.data_endianness = a.data_endianness) (hd : ∀ w ∈ a.uartwords, w.datalength = some w.payload.length) :
    ∃ b, a.pack = .ok b ∧ (Packet.unpack t b).2 = .ok () ∧ Packet.eq a (Packet.unpack t b).1 = true := by
  obtain ⟨b, hp, hu, _⟩ := C04.UART_roundtrip a t h ho he
  refine ⟨b, hp, by rw [hu], ?_⟩
  rw [hu]
  simp only [Packet.eq]
  have : ∀ (ws : List Word), (∀ w ∈ ws, w.datalength = some w.payload.length) → wordsEq ws (ws.map norm) = true := by
    intro ws
    induction ws with
    | nil => intro _; rfl
    | cons w ws ih =>
      intro hw
      simp only [List.map_cons, wordsEq, Bool.and_eq_true]
      refine ⟨?_, ih (fun x hx => hw x (by simp [hx]))⟩
      rw [Word_eq_iff]
      simp [norm, hw w (by simp)]
  exact this _ hd

/-- non-vacuity of `UART_eq_decode`: two words with PTP stamps, the second with parity flag and the largest sub-channel.
    (`UART_WF` demands a non-empty word list: `pack` of an empty packet raises.) -/
example :
    let a : Packet := { uartwords := [Word.setPayload (Word.fresh (.ptp 5 999999999) 1) [1, 2, 3],
                                      Word.setPayload { Word.fresh (.ptp 6 0) 1 with parity_error := true, subchannel := 0x1FFF } [7]],
                        ipts_source := some 1, data_endianness := 1 }
    let t : Packet := Packet.fresh (some 1) 1
    C04.UART_WF a ∧ t.ipts_source = a.ipts_source ∧ t.data_endianness = a.data_endianness ∧
    (∀ w ∈ a.uartwords, w.datalength = some w.payload.length) := by
  refine ⟨⟨?_, by simp, Or.inr ⟨1, .ptp 0 0, rfl, by simp [iptsOfSource, Gen.Ch11PayTs.TS_CH4, Gen.Ch11PayTs.TS_IEEE1558]⟩,
    by simp [Word.fresh, Word.setPayload]⟩, rfl, rfl, by simp [Word.setPayload]⟩
  intro w hw
  simp only [List.mem_cons, List.mem_nil_iff, or_false] at hw
  rcases hw with h | h <;> subst h <;>
    simp [Word_WF, Word_Fits, Ipts_WF, C04.uartProtoIpts, iptsOfSource, Gen.Ch11PayTs.TS_CH4, Gen.Ch11PayTs.TS_IEEE1558, sameKind,
      Word.fresh, Word.setPayload]

end Acra.Props.C14
