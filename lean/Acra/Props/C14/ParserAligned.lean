import Acra.Model.ParserAligned
import Acra.Props.C01.ParserAligned
namespace Acra.Props.C14
open Acra.Py Acra.Model.ParserAligned Acra.Gen.ParserAligned Acra.Lemmas.ParserAligned

/-- two blocks that compare equal encode to the same bytes (the count is recomputed from the payload) -/
theorem ParserAlignedBlock_eq_sound (a b : Block) (h : Block.eq a b = true) : (Block.pack a).2 = (Block.pack b).2 := by
  simp only [Block.eq, Bool.and_eq_true, beq_iff_eq] at h
  obtain ⟨⟨⟨⟨⟨⟨h1, h2⟩, h3⟩, h4⟩, h5⟩, h6⟩, h7⟩ := h
  simp only [Block.pack, h2, h3, h4, h5, h6, h7]
  repeat' split
  all_goals simp_all

example : Block.eq { Block.fresh with error := true, errorcode := 63, payload := [1, 2, 3, 4], quadbytes := 3 }
    { Block.fresh with error := true, errorcode := 63, payload := [1, 2, 3, 4], quadbytes := 3 } = true := by decide

/-- the object decoded from a's encoding compares equal to a as `pack` left it -/
theorem ParserAlignedBlock_eq_decode (a t : Block) (rest : Bytes) (h : Block_WF a) :
    ∃ b, (Block.pack a).2 = .ok b ∧ (∃ n, (Block.unpack t (b ++ rest)).2 = .ok n) ∧
      Block.eq (Block.pack a).1 (Block.unpack t (b ++ rest)).1 = true := by
  refine ⟨blockBytes a, by rw [Block_pack_eq a h], ⟨_, by rw [Block_unpack_eq a t rest h]⟩, ?_⟩
  rw [Block_pack_eq a h, Block_unpack_eq a t rest h]
  simp [Block.eq]

example : Block_WF { Block.fresh with error := true, errorcode := 63, payload := [1, 2, 3, 4] } := by
  simp [Block_WF, Block.fresh, PAB_DEFAULT_BUSID, PAB_DEFAULT_ELAPSEDTIME]

/-- the bytes a list of blocks packs to depend only on what each block packs to -/
theorem packBlocks_snd_congr (as bs : List Block) (h : blocksEq as bs = true) :
    (packBlocks as).2 = (packBlocks bs).2 := by
  induction as generalizing bs with
  | nil => cases bs <;> simp_all [blocksEq]
  | cons a as ih =>
    cases bs with
    | nil => simp [blocksEq] at h
    | cons b bs =>
      simp only [blocksEq, Bool.and_eq_true] at h
      have h1 := ParserAlignedBlock_eq_sound a b h.1
      have h2 := ih bs h.2
      simp only [packBlocks]
      cases ha : a.pack with
      | mk a' ra =>
        cases hb : b.pack with
        | mk b' rb =>
          rw [ha, hb] at h1
          simp only at h1
          subst h1
          cases ra with
          | error e => rfl
          | ok x =>
            cases hpa : packBlocks as with
            | mk as' r1 =>
              cases hpb : packBlocks bs with
              | mk bs' r2 =>
                rw [hpa, hpb] at h2
                simp only at h2
                subst h2
                cases r1 <;> rfl

/-- two packets that compare equal (same number of blocks, pairwise equal) encode to the same bytes -/
theorem ParserAlignedPacket_eq_sound (a b : Packet) (h : Packet.eq a b = true) :
    (Packet.pack a).2 = (Packet.pack b).2 := by
  simp only [Packet.eq] at h
  simp only [Packet.pack]
  exact (packBlocks_snd_congr _ _ h).symm

/-- non-vacuity: two packets that differ in the (uncompared, unencoded) `numberofblocks` compare equal -/
example : Packet.eq { Packet.fresh with parserblocks := [{ Block.fresh with payload := [1, 2, 3, 4] }] }
    { Packet.fresh with parserblocks := [{ Block.fresh with payload := [1, 2, 3, 4] }], numberofblocks := 7 } = true := by decide

theorem blocksEq_refl (bs : List Block) : blocksEq bs bs = true := by
  induction bs with
  | nil => rfl
  | cons b bs ih => simp [blocksEq, ih, Block.eq]

theorem ParserAlignedPacket_eq_decode (a t : Packet) (h : C01.Packet_WF a) :
    ∃ b, (Packet.pack a).2 = .ok b ∧ (Packet.unpack t b).2 = .ok () ∧
      Packet.eq (Packet.pack a).1 (Packet.unpack t b).1 = true := by
  obtain ⟨b, hp, hu, _⟩ := C01.ParserAlignedPacket_roundtrip a t h
  refine ⟨b, hp, by rw [hu], ?_⟩
  rw [hu]
  simp only [Packet.pack, packBlocks_eq _ h, Packet.eq, blocksEq_refl]

example : C01.Packet_WF { Packet.fresh with parserblocks := [{ Block.fresh with payload := [1, 2, 3, 4] }, Block.fresh] } := by
  intro b hb
  simp only [List.mem_cons, List.mem_nil_iff, or_false] at hb
  rcases hb with rfl | rfl <;> simp [Block_WF, Block.fresh, PAB_DEFAULT_BUSID, PAB_DEFAULT_ELAPSEDTIME]

end Acra.Props.C14
