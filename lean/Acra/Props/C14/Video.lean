/-
  C14 — VideoFormat2 equality (added by the rev2 review: the class defines `__eq__`, the model has `eq`, and there
  was no theorem).  `__eq__` compares the channel-specific word and, block by block, the four header bytes and the
  payload of the nested transport-stream packets; for blocks with an adaptation field the model (and the adapter)
  answer `NotImplementedError`, so `eq a b = .ok true` says that no such block was met.
-/
import Acra.Model.Ch11Video
import Acra.Props.C04.Video
namespace Acra.Props.C14
open Acra.Py Acra.Model.Ch11Pay Acra.Model.Ch11Pay.Video Acra.Gen.Ch11Video

/-- the adaptation control bits are read from the fourth header byte -/
theorem Video_ctrl_take4 (c : Bytes) : ctrl (c.take 4) = ctrl c := by
  simp [ctrl, byteAt, List.getD_eq_getElem?_getD]

/-- block lists that compare equal re-encode to the same bytes -/
theorem Video_blocks_eq_sound (as bs : List Bytes) (h : blocksEq as bs = .ok true) :
    packList chunkPack as = packList chunkPack bs := by
  induction as generalizing bs with
  | nil => cases bs <;> simp_all [blocksEq]
  | cons a as ih =>
    cases bs with
    | nil => simp [blocksEq] at h
    | cons b bs =>
      simp only [blocksEq] at h
      split at h
      · simp at h
      · rename_i hc
        split at h
        · rename_i he
          simp only [Bool.and_eq_true, beq_iff_eq] at he
          have hcab : ctrl a = ctrl b := by rw [← Video_ctrl_take4 a, ← Video_ctrl_take4 b, he.1]
          have hp : chunkPack a = chunkPack b := by
            simp only [chunkPack, hcab, he.1, he.2]
          simp only [packList, hp, ih bs h]
        · simp at h

/-- two VideoFormat2 objects that compare equal encode to the same bytes -/
theorem Video_eq_sound (a b : State) (h : eq a b = .ok true) : pack a = pack b := by
  simp only [eq] at h
  split at h
  · simp at h
  · rename_i hc
    split at h
    · simp at h
    · simp only [bne_iff_ne, ne_eq, Decidable.not_not] at hc
      simp only [pack, hc, Video_blocks_eq_sound _ _ h]

/-- non-vacuity: two objects that differ in the (unencoded, uncompared) `datastream` attribute compare equal -/
example : eq ⟨0x1000, 1, [[0x47, 0x01, 0x00, 0x10] ++ List.replicate 184 0xAB]⟩
    ⟨0x1000, 0, [[0x47, 0x01, 0x00, 0x10] ++ List.replicate 184 0xAB]⟩ = .ok true := rfl

/-- the object decoded from `a`'s encoding compares equal to `a` (clean 188-byte transport packets) -/
theorem Video_eq_decode (a t : State) (h : C04.Video_WF a) :
    ∃ b, pack a = .ok b ∧ (unpack t b).2 = .ok () ∧ eq a (unpack t b).1 = .ok true := by
  obtain ⟨b, hp, hu⟩ := C04.Video_roundtrip a t h
  refine ⟨b, hp, by rw [hu], ?_⟩
  rw [hu]
  obtain ⟨_, _, h3⟩ := h
  have hb : ∀ cs : List Bytes, (∀ c ∈ cs, C04.TsClean c) → blocksEq cs cs = .ok true := by
    intro cs
    induction cs with
    | nil => intro _; rfl
    | cons c cs ih =>
      intro hc
      have h1 := (hc c (by simp)).2.2
      simp only [blocksEq, h1]
      simp [ih (fun x hx => hc x (by simp [hx]))]
  simp [eq, hb _ h3]

example : C04.Video_WF ⟨0x1000, 1, [[0x47, 0x01, 0x00, 0x10] ++ List.replicate 184 0xAB]⟩ := by
  refine ⟨by decide, by decide, ?_⟩
  intro c hc
  have : c = [0x47, 0x01, 0x00, 0x10] ++ List.replicate 184 0xAB := by simpa using hc
  subst this
  exact ⟨by simp only [List.length_append, List.length_replicate, List.length_cons, List.length_nil], by rfl, by rfl⟩

end Acra.Props.C14
