/-
  C14 — VideoFormat2 equality.  `__eq__` compares the channel-specific word and the nested transport streams
  (`MPEGTS.__eq__`: same number of blocks, pairwise `MPEGPacket.__eq__` — header fields, payload AND adaptation field).
  Since the C04 extension the blocks are the MPEG family's packet model, so the theorems cover packets with adaptation
  fields (the former model answered `NotImplementedError` for them).
-/
import Acra.Model.Ch11Video
import Acra.Lemmas.Ch11Video
import Acra.Props.C04.Video
import Acra.Props.C14.Mpeg
import Acra.Props.C14.MpegDecode
namespace Acra.Props.C14
open Acra.Py Acra.Model.Ch11Pay.Video Acra.Model.MPEGTS Acra.Gen.Ch11Video Acra.Lemmas.MPEGTS Acra.Lemmas.Ch11Video

/-- two VideoFormat2 objects that compare equal encode to the same bytes (`datastream` is neither compared nor
    encoded; it is recomputed from the channel-specific word on decode) -/
theorem Video_eq_sound (a b : State) (h : eq a b = true) : (pack a).2 = (pack b).2 := by
  simp only [eq] at h
  split at h
  · simp at h
  · rename_i hc
    simp only [bne_iff_ne, ne_eq, Decidable.not_not] at hc
    have := MPEGTS_eq_sound a.mpegts b.mpegts h
    simp only [pack, hc, this]
    cases structPack VID_pack_fmt0 [b.channel_specific_word] with
    | error e => rfl
    | ok hb =>
      simp only
      cases TS.pack b.mpegts with
      | mk ts r => cases r <;> rfl

/-- non-vacuity: two objects that differ in the (unencoded, uncompared) `datastream` attribute compare equal -/
example : eq C04.videoExample { C04.videoExample with datastream := 0 } = true := by decide +kernel

/-- a video payload the class encodes exactly: 32-bit channel-specific word without the intra-packet-header bit, and
    a canonical transport stream (`TS_canon`, Props/C14/MpegDecode.lean) -/
def Video_canon (s : State) : Prop :=
  s.channel_specific_word < 2 ^ 32 ∧ (s.channel_specific_word / 2 ^ IPH_OFFSET) % 2 = 0 ∧ TS_canon s.mpegts

instance (s : State) : Decidable (Video_canon s) := by unfold Video_canon; infer_instance

/-- the object decoded — into any prior state — from `a`'s encoding compares equal to `a` as `pack` left it -/
theorem Video_eq_decode (a t : State) (h : Video_canon a) :
    ∃ b, (pack a).2 = .ok b ∧ (unpack t b).2 = .ok () ∧ eq (pack a).1 (unpack t b).1 = true := by
  obtain ⟨h1, h2, h3⟩ := h
  have hwf : C04.Video_WF a :=
    ⟨h1, h2, fun p hp => ⟨(h3 p hp).1.1, (h3 p hp).1.2.1, (h3 p hp).2, (h3 p hp).1.2.2.2.1⟩⟩
  obtain ⟨b, hp, hu⟩ := C04.Video_roundtrip_exact a t hwf (fun p hp => (h3 p hp).1)
  refine ⟨b, hp, by rw [hu], ?_⟩
  rw [hu]
  simp only [eq, bne_self_eq_false, Bool.false_eq_true, if_false]
  -- a transport stream compares equal to itself
  generalize (pack a).1.mpegts = ts
  simp only [TS.eq, beq_self_eq_true, Bool.true_and]
  generalize ts.blocks = l
  induction l with
  | nil => rfl
  | cons x xs ih =>
    simp only [List.zipWith_cons_cons, List.all_cons, id, Bool.and_eq_true]
    exact ⟨(Pkt_eq_iff x x).mpr rfl, ih⟩

/-- witness: the C04 example stream (adaptation only / adaptation + payload / payload only) -/
example : Video_canon C04.videoExample := by decide +kernel

/-- excluded: a payload-carrying packet that does not fill its 188 bytes (the stuffing comes back as payload) -/
example :
    let s : State := { C04.videoExample with mpegts := { blocks :=
      [ { Pkt.fresh with adaption_ctrl := 3, payload := [1, 2, 3], adaption_field := some { AF.fresh with pcr := [1, 2, 3, 4, 5, 6] } } ] } }
    ¬ Video_canon s ∧
    ((pack s).2.toOption.map fun b => eq (pack s).1 (unpack fresh b).1) = some false := by
  decide +kernel

end Acra.Props.C14
