import Acra.Gen.Src.Cls.iNetX
import Acra.Gen.Src.Cls.IENA
import Acra.Model.iNetX
import Acra.Model.IENA
import Acra.Lemmas.SrcTieCls
namespace Acra.Props.C14
open Acra Acra.Py Acra.Lemmas.SrcTieCls

/-! Method source ties (C14): `iNetX.__eq__` as written today (regenerated from the Python source on every run by
    `harness/translate_methods.py`; the loop over `REQ_ATTR` unrolled from the class constant) = the model's `eq`. -/

/-- `iNetX.__eq__` on two iNetX operands that are images of model states: the model's verdict, and `self` untouched -/
theorem src_iNetX_eq_of (a b : Model.iNetX.State) :
    Gen.Src.Cls.iNetX.__eq__ (iNetX.ofModel a) (iNetX.ofModel b) = (iNetX.ofModel a, .ok (Model.iNetX.eq a b)) := by
  unfold Gen.Src.Cls.iNetX.__eq__ Model.iNetX.eq
  simp only [iNetX.ofModel, ne_eq, Int.natCast_inj]
  repeat' split
  all_goals first | (by_cases hp : a.payload = b.payload <;> simp_all; done) | simp_all

/-- `iNetX.__eq__`, for every pair of objects in the model's domain (int attributes `≥ 0`) -/
theorem src_iNetX_eq (o p : Gen.Src.Cls.iNetX.Obj) (ho : iNetX.Dom o) (hp : iNetX.Dom p) :
    Gen.Src.Cls.iNetX.__eq__ o p = (o, .ok (Model.iNetX.eq (iNetX.toModel o) (iNetX.toModel p))) := by
  have := src_iNetX_eq_of (iNetX.toModel o) (iNetX.toModel p)
  rwa [iNetX.ofModel_toModel o ho, iNetX.ofModel_toModel p hp] at this

/-- without the domain restriction: `__eq__` is `True` exactly when the seven `REQ_ATTR` attributes agree
    (`packetlen` is not compared), it never raises and never changes `self` -/
theorem src_iNetX_eq_iff (o p : Gen.Src.Cls.iNetX.Obj) :
    Gen.Src.Cls.iNetX.__eq__ o p = (o, .ok (decide (o.inetxcontrol = p.inetxcontrol ∧ o.streamid = p.streamid ∧
      o.sequence = p.sequence ∧ o.ptptimeseconds = p.ptptimeseconds ∧ o.ptptimenanoseconds = p.ptptimenanoseconds ∧
      o.pif = p.pif ∧ o.payload = p.payload))) := by
  unfold Gen.Src.Cls.iNetX.__eq__
  repeat' split
  all_goals simp_all

example : iNetX.Dom (iNetX.ofModel { Model.iNetX.fresh with streamid := 0xDC, payload := [5, 0] }) :=
  iNetX.dom_ofModel _

/-! `IENA.__eq__` (base class): the loop over `self._req_attr` unrolled from `IENA.REQ_ATTR`; `key` through its property -/

theorem src_IENA_eq_of (a b : Model.IENA.Base) :
    Gen.Src.Cls.IENA.__eq__ (IENA.ofModel a) (IENA.ofModel b) = (IENA.ofModel a, .ok (Model.IENA.Base.eq a b)) := by
  unfold Gen.Src.Cls.IENA.__eq__ Model.IENA.Base.eq
  simp only [IENA.ofModel, ne_eq, Int.natCast_inj]
  repeat' split
  all_goals first | (by_cases hp : a.payload = b.payload <;> simp_all; done) | simp_all

/-- `IENA.__eq__`, for every pair of IENA objects in the model's domain (int attributes `≥ 0`): the model's verdict
    (`size` and `lengthError` are not compared), `self` untouched, never an exception -/
theorem src_IENA_eq (o p : Gen.Src.Cls.IENA.Obj) (ho : IENA.Dom o) (hp : IENA.Dom p) :
    Gen.Src.Cls.IENA.__eq__ o p = (o, .ok (Model.IENA.Base.eq (IENA.toModel o) (IENA.toModel p))) := by
  have := src_IENA_eq_of (IENA.toModel o) (IENA.toModel p)
  rwa [IENA.ofModel_toModel o ho, IENA.ofModel_toModel p hp] at this

example : IENA.Dom (IENA.ofModel { Model.IENA.Base.fresh with key := 0xDC, payload := [5, 0] }) := IENA.dom_ofModel _

end Acra.Props.C14
