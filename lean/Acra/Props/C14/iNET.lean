import Acra.Model.iNET
import Acra.Props.C01.iNET
namespace Acra.Props.C14
open Acra.Py Acra.Model.iNET Acra.Gen.iNET Acra.Lemmas.iNET

/-- two iNET objects that compare equal encode to the same bytes: `__eq__` compares every header
    field, the application fields, and what the packages encode to -/
theorem iNET_eq_sound (a b : State) (h : eq a b = .ok true) : (pack a).2 = (pack b).2 := by
  simp only [eq] at h
  repeat' split at h
  all_goals try (simp at h; done)
  rename_i h1 h2 h3 h4 h5 h6 h7 h8 _ pa hpa _ pb hpb
  simp only [ne_eq, Decidable.not_not] at h1 h2 h3 h4 h5 h6 h7 h8
  simp only [Except.ok.injEq, beq_iff_eq] at h
  subst h
  cases hqa : packPkgs a.packages with
  | mk pka ra =>
    cases hqb : packPkgs b.packages with
    | mk pkb rb =>
      rw [hqa] at hpa
      rw [hqb] at hpb
      simp only at hpa hpb
      subst hpa hpb
      simp only [pack, hqa, hqb, h1, h2, h3, h4, h5, h6, h7, h8]
      repeat' split
      all_goals simp_all

/-- non-vacuity: equal although the packages' private length fields differ -/
example : eq { fresh with type := 3, app_fields := [1, 2], packages := [{ Pkg.fresh with definitionID := 7, payload := [1, 2, 3, 4, 5] }] }
    { fresh with type := 3, app_fields := [1, 2],
                 packages := [{ Pkg.fresh with definitionID := 7, payload := [1, 2, 3, 4, 5], length := 99 }] } = .ok true := rfl

/-- the object decoded from a's encoding compares equal to a -/
theorem iNET_eq_decode (a t : State) (h : iNET_WF a) :
    ∃ b, (pack a).2 = .ok b ∧ (unpack t b).2 = .ok () ∧ eq a (unpack t b).1 = .ok true := by
  obtain ⟨b, hp, hu, _⟩ := C01.iNET_roundtrip a t h
  refine ⟨b, hp, by rw [hu], ?_⟩
  rw [hu]
  have h10 := h.2.2.2.2.2.2.2.2.2.1
  have hn : ∀ p ∈ a.packages.map norm, Pkg_WF p := by
    intro p hp
    simp only [List.mem_map] at hp
    obtain ⟨y, hy, rfl⟩ := hp
    exact Pkg_WF_norm y (h10 y hy)
  simp [eq, decoded, packed, packPkgs_eq _ h10, packPkgs_eq _ hn, flatMap_pkgBytes_norm]

example : iNET_WF { fresh with type := 3, app_fields := [1, 2],
                               packages := [{ Pkg.fresh with definitionID := 7, payload := [1, 2, 3, 4, 5] }, Pkg.fresh] } := by
  refine ⟨by simp [fresh], by simp, by simp [fresh, INET_DEFAULT_VERSION], by simp [fresh], by simp [fresh],
    by simp [fresh], by simp [fresh], by simp, by simp, ?_, ?_⟩
  · intro p hp; simp [fresh] at hp; rcases hp with rfl | rfl <;> simp [Pkg_WF, Pkg.fresh]
  · simp [fresh, pkgBytes, pkgHdr, pad4, Pkg.fresh]

/- `iNETPackage` defines no `__eq__` (equality is object identity), so there is nothing to state for it. -/

end Acra.Props.C14
