import Acra.Model.Ch11Misc
import Acra.Model.Ch11TimeFmt
import Acra.Props.C04.Misc
namespace Acra.Props.C14
open Acra.Py Acra.Model.Ch11Pay

/-- `Analog.__eq__` compares the channel-specific word and the data bytes: equal objects are the same object -/
theorem Analog_eq_sound (a b : Analog.State) (h : Analog.eq a b = true) : Analog.pack a = Analog.pack b := by
  simp only [Analog.eq, Bool.and_eq_true, beq_iff_eq] at h
  cases a; cases b; simp_all

example : Analog.eq ⟨0xDEADBEEF, [1, 2, 3]⟩ ⟨0xDEADBEEF, [1, 2, 3]⟩ = true := by decide

theorem Analog_eq_decode (a t : Analog.State) (h : C04.Analog_WF a) :
    ∃ b, Analog.pack a = .ok b ∧ (Analog.unpack t b).2 = .ok () ∧ Analog.eq a (Analog.unpack t b).1 = true := by
  obtain ⟨b, hp, hu, _⟩ := C04.Analog_roundtrip a t h
  exact ⟨b, hp, by rw [hu], by rw [hu]; simp [Analog.eq]⟩

example : C04.Analog_WF { channel_specific_word := 0xDEADBEEF, data := [1, 2, 3] } := by simp [C04.Analog_WF]

/-- the time formats compare the channel-specific word and the `PTPTime` (seconds, nanoseconds) -/
theorem TDF1_eq_sound (a b : TimeFmt.State1) (h : TimeFmt.State1.eq a b = true) : a.pack = b.pack := by
  simp only [TimeFmt.State1.eq, Bool.and_eq_true, beq_iff_eq] at h
  cases a; cases b; simp_all

example : TimeFmt.State1.eq ⟨0x251, 1709208000, 123456789⟩ ⟨0x251, 1709208000, 123456789⟩ = true := by decide

theorem TDF2_eq_sound (fl : Rat → Rat) (a b : TimeFmt.State2) (h : TimeFmt.State2.eq a b = true) :
    TimeFmt.State2.packWith fl a = TimeFmt.State2.packWith fl b := by
  simp only [TimeFmt.State2.eq, Bool.and_eq_true, beq_iff_eq] at h
  cases a; cases b; simp_all

example : TimeFmt.State2.eq ⟨0x21, 1709208000, 999999999⟩ ⟨0x21, 1709208000, 999999999⟩ = true := by decide

end Acra.Props.C14
