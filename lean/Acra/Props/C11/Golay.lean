/-
  C11 — Golay(24,12): systematic, corrects every ≤ 3-bit error, flags every 4-bit error.
  All statements are about the model of AcraNetwork/Golay.py with G_P / H_P regenerated from the
  source (Acra.Gen.Golay) and quantify over ALL 4096 data values and ALL error patterns of the stated
  weight (`wt e` = number of set bits among the 24 positions), not over samples.
-/
import Acra.Lemmas.Golay
namespace Acra.Props.C11
open Acra.Py Acra.Model.Golay Acra.Lemmas.Golay

/-- the code word carries the data value in its upper 12 bits -/
theorem Golay_systematic (x : Nat) (hx : x < 4096) : encode x >>> 12 = x := by
  unfold encode; rw [and_fff_of_lt x hx]; exact (syn_encode_all x hx).2

/-- values outside 12 bits are masked, not rejected (the range check in the source can never fire) -/
theorem Golay_encode_masks (raw : Nat) : encode raw = encode (raw % 4096) := by
  unfold encode
  rw [show (0xfff : Nat) = 2 ^ 12 - 1 from rfl, Nat.and_two_pow_sub_one_eq_mod, Nat.and_two_pow_sub_one_eq_mod]
  simp

/-- every code word fits 24 bits -/
theorem Golay_codeword_lt (raw : Nat) : encode raw < 2 ^ 24 :=
  encodeEntry_lt _ (and_fff_lt raw)

/-- the 3-byte string form is the big-endian image of the code word -/
theorem Golay_string_form (raw : Nat) : encodeStr raw = .ok (beBytes 3 (encode raw)) :=
  encodeStr_eq raw

/-- every code word has syndrome 0 (is in the kernel of the parity-check rows) -/
theorem Golay_codeword_syndrome (x : Nat) (hx : x < 4096) : syndrome (encode x) = 0 := by
  rw [syndrome_eq]; unfold encode; rw [and_fff_of_lt x hx]; exact (syn_encode_all x hx).1

/-- decode of any word within Hamming distance 3 of a code word returns the data value, and the
    error count is the distance: all 4096 values × all 2325 patterns -/
theorem Golay_corrects (x e : Nat) (hx : x < 4096) (he : e < 2 ^ 24) (hw : wt e ≤ 3) :
    decodeInt (encode x ^^^ e) = .ok x ∧ errors { inited := true } (encode x ^^^ e) = .ok (wt e) := by
  unfold encode; rw [and_fff_of_lt x hx]; exact decode_corrects x e hx he hw

/-- non-vacuity: a data value and a weight-3 pattern that touches the upper byte, the parity half and the data half -/
example : (0xABC : Nat) < 4096 ∧ (0x800101 : Nat) < 2 ^ 24 ∧ wt 0x800101 ≤ 3 := by decide
/-- … and the instance of the theorem for them -/
example : decodeInt (encode 0xABC ^^^ 0x800101) = .ok 0xABC ∧ errors { inited := true } (encode 0xABC ^^^ 0x800101) = .ok 3 :=
  Golay_corrects 0xABC 0x800101 (by decide) (by decide) (by decide)

/-- the state hypothesis `inited := true` of the error-count statements is NOT redundant: `_errors` does not build the
    tables, so on an instance that has never decoded it answers 0 for EVERY word (also for a weight-4 corruption).
    The property's "reported by the error count" therefore holds only after a `decode` on the same instance. -/
theorem Golay_errors_uninitialised (v : Nat) : errors fresh v = .ok 0 := by
  have h : (v >>> 12) &&& 0xfff < 4096 := and_fff_lt _
  simp [errors, fresh, syndrome2, Acra.Gen.Golay.GOLAY_SIZE, h]

/-- the 3-byte entry of `decode` is the integer entry on the big-endian value -/
theorem Golay_bytes_entry (b : Bytes) (h : b.length = 3) : decodeBytes b = decodeInt (beNat b) :=
  decodeBytes_eq b h

example : ([0xAB, 0xC1, 0x23] : Bytes).length = 3 := rfl

/-- any other length is refused with a bare `Exception` -/
theorem Golay_bytes_entry_rejects (b : Bytes) (h : b.length ≠ 3) : decodeBytes b = .error .generic :=
  decodeBytes_bad b h

example : ([0xAB, 0xC1] : Bytes).length ≠ 3 := by decide

/-- … so the 3-byte string form of a corrupted code word decodes to the value as well -/
theorem Golay_corrects_bytes (x e : Nat) (hx : x < 4096) (he : e < 2 ^ 24) (hw : wt e ≤ 3) :
    decodeBytes (beBytes 3 (encode x ^^^ e)) = .ok x := by
  have hlt : encode x ^^^ e < 256 ^ 3 := Nat.xor_lt_two_pow (n := 24) (Golay_codeword_lt x) he
  rw [decodeBytes_eq _ (by simp), beNat_beBytes_of_lt 3 _ hlt]
  exact (Golay_corrects x e hx he hw).1

example : decodeBytes (beBytes 3 (encode 0xABC ^^^ 0x800101)) = .ok 0xABC :=
  Golay_corrects_bytes 0xABC 0x800101 (by decide) (by decide) (by decide)

/-- every 4-bit error pattern is reported as uncorrectable: all 4096 values × all 10626 patterns -/
theorem Golay_flags4 (x e : Nat) (hx : x < 4096) (he : e < 2 ^ 24) (hw : wt e = 4) :
    errors { inited := true } (encode x ^^^ e) = .ok 4 := by
  unfold encode; rw [and_fff_of_lt x hx]; exact errors_flags4 x e hx he hw

example : (0xABC : Nat) < 4096 ∧ (0x810101 : Nat) < 2 ^ 24 ∧ wt 0x810101 = 4 := by decide

/-- `_onesincode` (string slicing of `bin()`) is the bit count on every pattern the table loop writes -/
theorem Golay_onesincode_patterns (i j k : Nat) (hi : i < 24) (hj : j < 24) (hk : k < 24) :
    onesincode (pat i j k) 24 = wt (pat i j k) := ones_all i j k hi hj hk

example : pat 23 8 0 = 0x800101 ∧ pat 5 5 5 = 0x20 := by decide

/-- the triple loop's "last write wins" is harmless: at the syndrome of each enumerated pattern the
    final tables hold that pattern's upper half and weight -/
theorem Golay_tables_last_write (i j k : Nat) (hi : i < 24) (hj : j < 24) (hk : k < 24) :
    corTable[syndrome (pat i j k)]? = some ((pat i j k >>> 12) &&& 0xfff) ∧
    errTable[syndrome (pat i j k)]? = some (wt (pat i j k)) := by
  rw [syndrome_eq, ← ones_all i j k hi hj hk]; exact tables_pat i j k hi hj hk

end Acra.Props.C11
