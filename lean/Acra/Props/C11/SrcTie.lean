import Acra.Gen.Src.Golay
import Acra.Model.Golay
import Acra.Lemmas.SrcTieGolay
import Acra.Lemmas.SrcTieNorm
namespace Acra.Props.C11
open Acra Acra.Py Acra.Lemmas.SrcTieGolay Acra.Lemmas.SrcTieNorm

/-! Source ties (C11): the Golay helpers, regenerated from the current Python source by `harness/translate.py` on
    every run (see `Props/C07/SrcTie.lean`). -/

/-- `Golay._init_Table()` as written today builds exactly the model's encode table: entry `x` is
    `Model.Golay.encodeEntry x`, for all 4096 entries (`lru_cache` treated as transparent) -/
theorem src_Golay_init_Table :
    Gen.Src.Golay.Golay._init_Table = (List.range 4096).map (fun x => (Model.Golay.encodeEntry x : Int)) := by
  unfold Gen.Src.Golay.Golay._init_Table
  show List.foldl _ (List.replicate 4096 0) (Py.range ((4096 : Nat) : Int)) = _
  apply foldl_table 4096 (fun x => (Model.Golay.encodeEntry x : Int))
  intro T x hx
  simp only [setAt_natCast, intAt_natCast]
  -- the bit test of the row loop, in whatever form it is written, is brought to `(x >> (11 - i)) & 1` for the twelve
  -- indices the loop visits
  rw [foldl_congr_mem _ (fun (T : List Int) (i : Int) =>
      if band (shr (x : Int) (11 - i)) 1 ≠ 0 then T.set x (bxor (T.getD x 0) (intAt Gen.Src.Golay.G_P i)) else T)
    (Py.range 12) _ (by
      intro T i hi
      obtain ⟨n, hn, rfl⟩ := mem_range_lit 12 12 _ rfl hi
      first
        | rfl
        | (simp only [bit_forms x n hn]))]
  rw [foldl_cell x (fun i => band (shr (x : Int) (11 - i)) 1 ≠ 0) (fun a i => bxor a (intAt Gen.Src.Golay.G_P i))
    _ _ (by simpa using hx)]
  simp only [List.getD_eq_getElem?_getD, List.getElem?_set_self hx, Option.getD_some, List.set_set,
    encode_entry_fold]

/-- `Golay._syndrome2` as written today = the model, on the instance's `SyndromeTable` (all zero before
    `_initgolaydecode`, the model's `synTable` after), for `v2` inside the table.
    (Outside: `v2 ≥ 4096` raises IndexError, see `src_Golay_syndrome2_out`; every caller passes `v & 0xfff`.) -/
theorem src_Golay_syndrome2 (s : Model.Golay.State) (v1 v2 : Nat) (h : v2 < 4096) :
    Gen.Src.Golay.Golay._syndrome2 (synList s) v1 v2 = .ok (Model.Golay.syndrome2 s v1 v2 : Int) := by
  unfold Gen.Src.Golay.Golay._syndrome2 Model.Golay.syndrome2
  rw [getItem_natCast _ _ (by rw [synList_length]; exact h), synList_getD s v2 h]
  simp only [bind, Except.bind, bxor_natCast]

theorem src_Golay_syndrome2_out (s : Model.Golay.State) (v1 v2 : Nat) (h : 4096 ≤ v2) :
    Gen.Src.Golay.Golay._syndrome2 (synList s) v1 v2 = .error .index := by
  unfold Gen.Src.Golay.Golay._syndrome2
  rw [getItem_natCast_out _ _ (by rw [synList_length]; exact h)]
  rfl

example := src_Golay_syndrome2 ⟨true⟩ 0xABC 0x123 (by decide)
example := src_Golay_syndrome2 ⟨false⟩ 0xABC 0xFFF (by decide)
example := src_Golay_syndrome2_out ⟨true⟩ 1 4096 (by decide)

/-- `Golay._decode2` as written today, on the tables `_initgolaydecode` leaves, = the model's table look-up:
    with `v1 = (v >> 12) & 0xfff`, `v2 = v & 0xfff` this is `Model.Golay.decodeInt v` (next theorem) -/
theorem src_Golay_decode2 (v1 v2 : Nat) (h : v2 < 4096) :
    Gen.Src.Golay.Golay._decode2 (synList ⟨true⟩) (pyList Model.Golay.corTable) v1 v2
      = (Model.Golay.lookup Model.Golay.corTable (Model.Golay.syndrome2 ⟨true⟩ v1 v2) (fun c => v1 ^^^ c)).map
          Int.ofNat := by
  exact decode2_abs _ _ _ _ _ (src_Golay_syndrome2 ⟨true⟩ v1 v2 h)

example := src_Golay_decode2 0xABC 0x123 (by decide)

theorem src_Golay_decode2_decodeInt (v : Nat) :
    Gen.Src.Golay.Golay._decode2 (synList ⟨true⟩) (pyList Model.Golay.corTable)
        (((v >>> 12) &&& 0xfff : Nat) : Int) ((v &&& 0xfff : Nat) : Int)
      = (Model.Golay.decodeInt v).map Int.ofNat := by
  rw [src_Golay_decode2 _ _ (by
    have : v &&& 0xfff ≤ 0xfff := Nat.and_le_right
    omega)]
  rfl

/-- `Golay._onesincode_old(code, size)` as written today counts the set bits of `code` below position `size`
    (non-negative arguments; `range(size)` is empty for a negative `size`) -/
theorem src_Golay_onesincode_old (code size : Nat) :
    Gen.Src.Golay.Golay._onesincode_old code size
      = ((((List.range size).filter (fun i => code.testBit i)).length : Nat) : Int) := by
  unfold Gen.Src.Golay.Golay._onesincode_old
  exact ones_fold code size

/-- … so on 24 positions it is the weight `wt` the C11 theorems speak about, and on every pattern the table loop
    writes it agrees with the string-slicing `_onesincode` that replaced it (`Golay_onesincode_patterns`) -/
theorem src_Golay_onesincode_old_wt (e : Nat) :
    Gen.Src.Golay.Golay._onesincode_old e 24 = (Lemmas.Golay.wt e : Int) :=
  src_Golay_onesincode_old e 24

theorem src_Golay_onesincode_old_eq_new (i j k : Nat) (hi : i < 24) (hj : j < 24) (hk : k < 24) :
    Gen.Src.Golay.Golay._onesincode_old (Model.Golay.pat i j k) 24
      = (Model.Golay.onesincode (Model.Golay.pat i j k) 24 : Int) := by
  rw [src_Golay_onesincode_old_wt, Lemmas.Golay.ones_all i j k hi hj hk]

example := src_Golay_onesincode_old_eq_new 23 12 0 (by decide) (by decide) (by decide)
example : Gen.Src.Golay.Golay._onesincode_old 0b1011 3 = 2 := by decide

end Acra.Props.C11
