import Acra.Gen.Src.Golay
import Acra.Model.Golay
import Acra.Lemmas.SrcTieGolay
import Acra.Lemmas.SrcTieGolayTables
import Acra.Props.C11.SrcTie
import Acra.Props.C11.Golay
import Acra.Lemmas.SrcTieNorm
namespace Acra.Props.C11
open Acra Acra.Py Acra.Lemmas.SrcTieGolay Acra.Lemmas.SrcTieGolayTables Acra.Lemmas.SrcTieNorm

/-! Source tie (C11 / C20): the decode tables.  `Golay._initgolaydecode` writes three instance tables in nested loops;
    the translator returns their final values (`mutates=` in the SRC table).  The theorems below show that, started on
    the tables the constructor leaves (`[0] * GOLAY_SIZE`), the source builds exactly the model's `synTable`, `corTable`,
    `errTable` — structurally, without evaluating the 4096 + 13824 writes. -/

/-- `Golay._onesincode` (the string idiom `bin(code)[2:size+2].count('1')`) as written today = the model's
    `onesincode`, for every `code ≥ 0` and `0 ≤ size ≤ 64` (the range is a hypothesis of the generated definition: the
    slice bound `size + 2` must be `≥ 0`; the only caller passes 24).  Negative `code`: Python counts the ones of
    `'b101…'` (the sign shifts the slice by one) — defined by the translation, outside the model. -/
theorem src_Golay_onesincode (code size : Nat) (h : 0 ≤ (size : Int) ∧ (size : Int) ≤ 64) :
    Gen.Src.Golay.Golay._onesincode code size h = (Model.Golay.onesincode code size : Int) := by
  unfold Gen.Src.Golay.Golay._onesincode
  exact onesincode_tie code size

example : (0 : Int) ≤ ((24 : Nat) : Int) ∧ ((24 : Nat) : Int) ≤ 64 := by decide
example : Gen.Src.Golay.Golay._onesincode 0x800003 24 (by decide) = 3 := by decide +kernel
example : Gen.Src.Golay.Golay._onesincode (-5) 24 (by decide) = 2 := by decide +kernel

/-- `Golay._syndrome` as written today = the model's syndrome of the two 12-bit halves, on the instance table -/
theorem src_Golay_syndrome (s : Model.Golay.State) (v : Nat) :
    Gen.Src.Golay.Golay._syndrome (synList s) v
      = .ok (Model.Golay.syndrome2 s ((v >>> 12) &&& 0xfff) (v &&& 0xfff) : Int) := by
  unfold Gen.Src.Golay.Golay._syndrome
  have h2 : v &&& 0xfff < 4096 := Nat.lt_of_le_of_lt Nat.and_le_right (by decide)
  simp only [shr_natCast, band_natCast_lit, toNat_lit]
  rw [src_Golay_syndrome2 s _ _ h2]; rfl

/-- the three cell values the first loop leaves at `x` (Python ints) -/
def cellS (x : Nat) : Int := ((Model.Golay.initEntry Gen.Golay.H_P x (0, 0, 0)).1 : Nat)
def cellE (x : Nat) : Int := ((Model.Golay.initEntry Gen.Golay.H_P x (0, 0, 0)).2.1 : Nat)
def cellC (x : Nat) : Int := ((Model.Golay.initEntry Gen.Golay.H_P x (0, 0, 0)).2.2 : Nat)

/-- the body of the innermost loop of `_initgolaydecode` (as the translator emits it), for the proof below -/
@[reducible] def stepK (val : Int → Int) (i j : Int) (st : List Int × List Int) (k : Int) : R (List Int × List Int) :=
  Gen.Src.Golay.Golay._syndrome (pyList Model.Golay.synTable) (bor (bor (shl 1 i) (shl 1 j)) (shl 1 k)) >>= fun t13 =>
  setItem st.1 t13 (val (bor (bor (shl 1 i) (shl 1 j)) (shl 1 k))) >>= fun t14 =>
  setItem st.2 t13 (Gen.Src.Golay.Golay._onesincode (bor (bor (shl 1 i) (shl 1 j)) (shl 1 k)) 24 (by decide)) >>= fun t15 =>
  (Except.ok (t14, t15) : R (List Int × List Int))

@[reducible] def stepJ (val : Int → Int) (i : Int) (st : List Int × List Int) (j : Int) : R (List Int × List Int) :=
  List.foldlM (stepK val i j) (st.1, st.2) (Py.range 24) >>= fun st17 => .ok (st17.1, st17.2)

@[reducible] def stepI (val : Int → Int) (st : List Int × List Int) (i : Int) : R (List Int × List Int) :=
  List.foldlM (stepJ val i) (st.1, st.2) (Py.range 24) >>= fun st19 => .ok (st19.1, st19.2)

set_option maxRecDepth 4000 in
theorem src_Golay_initgolaydecode :
    Gen.Src.Golay.Golay._initgolaydecode (List.replicate 4096 0) (List.replicate 4096 0) (List.replicate 4096 0) =
      .ok (pyList Model.Golay.synTable, pyList Model.Golay.corTable, pyList Model.Golay.errTable) := by
  unfold Gen.Src.Golay.Golay._initgolaydecode
  rw [show Gen.Src.Golay.GOLAY_SIZE = ((4096 : Nat) : Int) from rfl]
  rw [foldlM_table3 4096 cellS cellE cellC _ ?hstep]
  case hstep =>
    intro k hk
    simp only []
    rw [setItem_natCast _ _ _ (by rw [mk_length _ _ _ (by omega)]; exact hk), ok_bind]
    have hl : ∀ f, k < (mk 4096 f k).length := fun f => by rw [mk_length _ _ _ (by omega)]; exact hk
    -- the bit test of the row loop, in whatever form it is written, is brought to `(x >> (11 - i)) & 1` for the twelve
    -- indices the loop visits
    rw [foldlM_congr_mem _ (fun (st7 : List Int × List Int × List Int) (i : Int) =>
        (if band (shr (k : Int) (11 - i)) 1 ≠ 0 then
          (getItem st7.1 (k : Int) >>= fun t2 =>
            setItem st7.1 (k : Int) (bxor t2 (intAt Gen.Src.Golay.H_P i)) >>= fun t3 =>
            setItem st7.2.1 (k : Int) 4 >>= fun t4 =>
            setItem st7.2.2 (k : Int) 4095 >>= fun t5 =>
            (Except.ok (t3, t4, t5) : R (List Int × List Int × List Int)))
        else Except.ok (st7.1, st7.2.1, st7.2.2)) >>= fun st6 => Except.ok (st6.1, st6.2.1, st6.2.2))
      (Py.range 12) _ (by
        intro st7 i hi
        obtain ⟨n, hn, rfl⟩ := mem_range_lit 12 12 _ rfl hi
        first
          | rfl
          | (simp only [bit_forms k n hn]))]
    rw [foldlM_cell3 k (fun i t => if band (shr (k : Int) (11 - i)) 1 ≠ 0
        then (bxor t.1 (intAt Gen.Src.Golay.H_P i), 4, 4095) else t) _ ?hinner (Py.range 12) _ _ _
        (by simpa using hl cellS) (hl cellE) (hl cellC), ok_bind]
    case hinner =>
      intro S E C i hS hE hC
      simp only []
      by_cases hc : band (shr (k : Int) (11 - i)) 1 ≠ 0
      · simp only [if_pos hc]
        rw [getItem_natCast _ _ hS, ok_bind, setItem_natCast _ _ _ hS, ok_bind, setItem_natCast _ _ _ hE, ok_bind,
          setItem_natCast _ _ _ hC, ok_bind, ok_bind]
      · simp only [if_neg hc, ok_bind, set_getD_self]
    simp only [getD_set_self _ _ _ (hl cellS), mk_getD _ _ _ hk, List.set_set]
    rw [foldl_triple_split (fun i => band (shr (k : Int) (11 - i)) 1 ≠ 0)
      (fun a i => bxor a (intAt Gen.Src.Golay.H_P i)) 4 4095, syn_fold0, set_fold4, set_fold4095]
    simp only []
    rw [← mk_set 4096 cellS k hk, ← mk_set 4096 cellE k hk, ← mk_set 4096 cellC k hk]
    rfl
  have hlen : ∀ f : Nat → Int, 0 < (List.map f (List.range 4096)).length := fun f => by simp
  rw [ok_bind]
  simp only []
  rw [setItem_zero _ _ (hlen cellE), ok_bind, setItem_zero _ _ (hlen cellC), ok_bind]
  have hS : List.map cellS (List.range 4096) = pyList Model.Golay.synTable := by
    unfold Model.Golay.synTable
    exact (pyList_ofFn (fun x => (Model.Golay.initEntry Gen.Golay.H_P x (0, 0, 0)).1)).symm
  have hE : (List.map cellE (List.range 4096)).set 0 0 = pyList Model.Golay.errTable0 := by
    unfold Model.Golay.errTable0
    rw [pyList_set, pyList_ofFn (fun x => (Model.Golay.initEntry Gen.Golay.H_P x (0, 0, 0)).2.1)]; rfl
  have hC : (List.map cellC (List.range 4096)).set 0 0 = pyList Model.Golay.corTable0 := by
    unfold Model.Golay.corTable0
    rw [pyList_set, pyList_ofFn (fun x => (Model.Golay.initEntry Gen.Golay.H_P x (0, 0, 0)).2.2)]; rfl
  simp only [hS, hE, hC]
  -- the triple loop: every pass is one pair of in-range stores (`applyW`), under the invariant "both tables have 4096 cells"
  -- the value stored in CorrectTable: `(error >> 12) & 0xfff`, or any expression equal to it on 24-bit patterns
  suffices hval : ∀ (val : Int → Int), (∀ e : Nat, e < 2 ^ 24 → val (e : Int) = (((e >>> 12) &&& 0xfff : Nat) : Int)) →
      (List.foldlM (stepI val) (pyList Model.Golay.corTable0, pyList Model.Golay.errTable0) (Py.range 24) >>= fun st21 =>
        (Except.ok (pyList Model.Golay.synTable, st21.1, st21.2) : R (List Int × List Int × List Int))) =
      Except.ok (pyList Model.Golay.synTable, pyList Model.Golay.corTable, pyList Model.Golay.errTable) by
    have hv1 : ∀ e : Nat, e < 2 ^ 24 → band (shr (e : Int) 12) 4095 = (((e >>> 12) &&& 0xfff : Nat) : Int) := fun e _ => by
      simp only [shr_natCast, band_natCast_lit, toNat_lit]
    have hv2 : ∀ e : Nat, e < 2 ^ 24 → shr (e : Int) 12 = (((e >>> 12) &&& 0xfff : Nat) : Int) := fun e he => by
      simp only [shr_natCast, toNat_lit, Int.natCast_inj]
      have : e >>> 12 < 4096 := by rw [Nat.shiftRight_eq_div_pow]; omega
      rw [and_fff, Nat.mod_eq_of_lt this]
    -- (`with_reducible`: the shapes are compared without unfolding the prelude, so a shape that does not fit fails at once)
    first
      | with_reducible exact hval (fun e => band (shr e 12) 4095) hv1
      | with_reducible exact hval (fun e => shr e 12) hv2
  intro val hval
  have hk : ∀ (i j : Nat), i < 24 → j < 24 → ∀ (st : List Int × List Int) (k : Nat), k < 24 →
      (st.1.length = 4096 ∧ st.2.length = 4096) →
      stepK val i j st k = .ok (applyW st (i, j, k)) ∧
      ((applyW st (i, j, k)).1.length = 4096 ∧ (applyW st (i, j, k)).2.length = 4096) := by
    intro i j hi' hj' st k hk' hst
    unfold stepK
    have he : bor (bor (shl 1 (i : Int)) (shl 1 (j : Int))) (shl 1 (k : Int)) = ((Model.Golay.pat i j k : Nat) : Int) := by
      simp only [shl_lit, Int.toNat_natCast, bor_natCast]; rfl
    have hsyn : synList ⟨true⟩ = pyList Model.Golay.synTable := by unfold synList; exact if_pos rfl
    have hsy2 : Model.Golay.syndrome2 ⟨true⟩ ((Model.Golay.pat i j k >>> 12) &&& 0xfff) (Model.Golay.pat i j k &&& 0xfff)
        = Model.Golay.syndrome (Model.Golay.pat i j k) := by
      unfold Model.Golay.syndrome2 Model.Golay.syndrome; rw [if_pos rfl]
    have hlt := syndrome_lt (Model.Golay.pat i j k)
    rw [he, ← hsyn, src_Golay_syndrome ⟨true⟩, ok_bind, hsy2,
      setItem_natCast _ _ _ (by rw [hst.1]; exact hlt), ok_bind,
      setItem_natCast _ _ _ (by rw [hst.2]; exact hlt), ok_bind]
    refine ⟨?_, by simp [applyW, hst.1], by simp [applyW, hst.2]⟩
    have h24 : Gen.Src.Golay.Golay._onesincode ((Model.Golay.pat i j k : Nat) : Int) 24 (by decide) = ((Model.Golay.onesincode (Model.Golay.pat i j k) 24 : Nat) : Int) :=
      src_Golay_onesincode (Model.Golay.pat i j k) 24 (by decide)
    have hp24 : Model.Golay.pat i j k < 2 ^ 24 := by
      unfold Model.Golay.pat
      have h2 : ∀ n, n < 24 → 1 <<< n < 2 ^ 24 := by
        intro n hn; rw [Nat.one_shiftLeft]; exact Nat.pow_lt_pow_right (by decide) hn
      exact Nat.or_lt_two_pow (Nat.or_lt_two_pow (h2 i hi') (h2 j hj')) (h2 k hk')
    rw [hval _ hp24, h24]
    rfl
  let P : List Int × List Int → Prop := fun st => st.1.length = 4096 ∧ st.2.length = 4096
  have hj : ∀ (i : Nat), i < 24 → ∀ (st : List Int × List Int) (j : Nat), j < 24 → P st →
      stepJ val i st j = .ok ((List.range 24).foldl (fun st k => applyW st (i, j, k)) st) ∧
      P ((List.range 24).foldl (fun st k => applyW st (i, j, k)) st) := by
    intro i hi st j hj hP
    have := foldlM_range' 24 24 rfl P (stepK val i j) (fun st k => applyW st (i, j, k)) (hk i j hi hj) st hP
    unfold stepJ
    rw [pair_eta, this.1, ok_bind, pair_eta]
    exact ⟨Eq.refl _, this.2⟩
  have hi : ∀ (st : List Int × List Int) (i : Nat), i < 24 → P st →
      stepI val st i = .ok ((List.range 24).foldl (fun st j =>
        (List.range 24).foldl (fun st k => applyW st (i, j, k)) st) st) ∧
      P ((List.range 24).foldl (fun st j => (List.range 24).foldl (fun st k => applyW st (i, j, k)) st) st) := by
    intro st i hi' hP
    have := foldlM_range' 24 24 rfl P (stepJ val i) (fun st j => (List.range 24).foldl (fun st k => applyW st (i, j, k)) st)
      (hj i hi') st hP
    unfold stepI
    rw [pair_eta, this.1, ok_bind, pair_eta]
    exact ⟨Eq.refl _, this.2⟩
  have hP0 : P (pyList Model.Golay.corTable0, pyList Model.Golay.errTable0) := by
    constructor <;> simp [pyList_length, Model.Golay.corTable0, Model.Golay.errTable0, Gen.Golay.GOLAY_SIZE]
  have hall := foldlM_range' 24 24 rfl P (stepI val) _ hi _ hP0
  have hfl : (List.range 24).foldl (fun st i => (List.range 24).foldl (fun st j =>
        (List.range 24).foldl (fun st k => applyW st (i, j, k)) st) st)
        (pyList Model.Golay.corTable0, pyList Model.Golay.errTable0) =
      Model.Golay.triples.foldl applyW (pyList Model.Golay.corTable0, pyList Model.Golay.errTable0) := by
    unfold Model.Golay.triples
    simp only [List.foldl_flatMap, List.foldl_map]
  have hT : (pyList (Model.Golay.applyWrites (Model.Golay.triples.map Model.Golay.writeOf)
        (Model.Golay.corTable0, Model.Golay.errTable0)).1,
      pyList (Model.Golay.applyWrites (Model.Golay.triples.map Model.Golay.writeOf)
        (Model.Golay.corTable0, Model.Golay.errTable0)).2) = (pyList Model.Golay.corTable, pyList Model.Golay.errTable) := by
    unfold Model.Golay.corTable Model.Golay.errTable Model.Golay.tables Model.Golay.writes
    exact Eq.refl _
  have hX := hfl.trans ((pyList_applyWrites' Model.Golay.triples Model.Golay.corTable0 Model.Golay.errTable0).trans hT)
  rw [hX] at hall
  rw [hall.1, ok_bind]


/-- non-vacuity / shape: the tables the theorem starts from are the ones `Golay.__init__` creates (`[0] * GOLAY_SIZE`) -/
example : (List.replicate 4096 (0 : Int)).length = 4096 := List.length_replicate

/-- the instance tables after `_initgolaydecode`, read back cell by cell (beyond 4096 every `getD` is 0 on both sides) -/
theorem src_Golay_tables_cells (x : Nat) :
    ∃ S C E, Gen.Src.Golay.Golay._initgolaydecode (List.replicate 4096 0) (List.replicate 4096 0) (List.replicate 4096 0)
        = .ok (S, C, E) ∧
      S.getD x 0 = ((Model.Golay.synTable.getD x 0 : Nat) : Int) ∧
      C.getD x 0 = ((Model.Golay.corTable.getD x 0 : Nat) : Int) ∧
      E.getD x 0 = ((Model.Golay.errTable.getD x 0 : Nat) : Int) :=
  ⟨_, _, _, src_Golay_initgolaydecode, pyList_getD _ _, pyList_getD _ _, pyList_getD _ _⟩

/-- END TO END: `Golay.decode(v)` for an int `v`, as written today — `self._initgolaydecode()` on a fresh instance, then
    `self._decode2((v >> 12) & 0xfff, v & 0xfff)` on the tables it left — is the model's `decodeInt v`, for every `v`.
    (The C11 / C20 theorems about `decodeInt` — every error pattern of weight ≤ 3 is corrected — therefore hold for the
    source; see the corollary below.) -/
theorem src_Golay_decode (v : Nat) :
    (Gen.Src.Golay.Golay._initgolaydecode (List.replicate 4096 0) (List.replicate 4096 0) (List.replicate 4096 0)
      >>= fun T => Gen.Src.Golay.Golay._decode2 T.1 T.2.1 (((v >>> 12) &&& 0xfff : Nat) : Int) ((v &&& 0xfff : Nat) : Int))
      = (Model.Golay.decodeInt v).map Int.ofNat := by
  have hsyn : synList ⟨true⟩ = pyList Model.Golay.synTable := by unfold synList; exact if_pos rfl
  -- with the tables as opaque variables, so that nothing is evaluated
  have gen : ∀ (S C E : List Int) (X : R (List Int × List Int × List Int)) (a b : Int) (r : R Int), X = .ok (S, C, E) →
      Gen.Src.Golay.Golay._decode2 S C a b = r →
      (X >>= fun T => Gen.Src.Golay.Golay._decode2 T.1 T.2.1 a b) = r := by
    intro S C E X a b r hX hr; subst hX; subst hr; rfl
  exact gen _ _ _ _ _ _ _ src_Golay_initgolaydecode
    ((congrArg (fun S => Gen.Src.Golay.Golay._decode2 S (pyList Model.Golay.corTable)
      (((v >>> 12) &&& 0xfff : Nat) : Int) ((v &&& 0xfff : Nat) : Int)) hsyn).symm.trans (src_Golay_decode2_decodeInt v))

/-- hence the error-correction theorem of C11 holds for the SOURCE: decoding any word within Hamming distance 3 of a
    code word, with the tables the source builds, returns the data value -/
theorem src_Golay_decode_corrects (x e : Nat) (hx : x < 4096) (he : e < 2 ^ 24) (hw : Lemmas.Golay.wt e ≤ 3) :
    (Gen.Src.Golay.Golay._initgolaydecode (List.replicate 4096 0) (List.replicate 4096 0) (List.replicate 4096 0)
      >>= fun T => Gen.Src.Golay.Golay._decode2 T.1 T.2.1
        ((((Model.Golay.encode x ^^^ e) >>> 12) &&& 0xfff : Nat) : Int) (((Model.Golay.encode x ^^^ e) &&& 0xfff : Nat) : Int))
      = .ok (x : Int) := by
  rw [src_Golay_decode, (Golay_corrects x e hx he hw).1]; rfl

example : (0xABC : Nat) < 4096 ∧ (0x800101 : Nat) < 2 ^ 24 ∧ Lemmas.Golay.wt 0x800101 ≤ 3 := by decide

end Acra.Props.C11
