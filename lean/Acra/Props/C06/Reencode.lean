import Acra.Lemmas.MpegReencode
import Acra.Lemmas.ReviewC06
namespace Acra.Props.C06
open Acra.Py Acra.Model.MPEGTS Acra.Lemmas.MPEGTS Acra.Lemmas.MpegReencode

/-! Re-encoding what was decoded from ARBITRARY bytes (not only from the encoding of a well-formed
    object — that case is `TS_reencode_ok` / `TS_roundtrip`).  D07 was: `MPEGAdaption.unpack` stored a
    tuple in `splice_countdown`, so `pack` of a decoded field raised `TypeError`.  In the model a
    non-integer cannot be stored at all; what can still go wrong is a `struct.error` when a decoded
    value does not fit the field it is written to.  These theorems exclude that for every input. -/

/-- **TS.reencode_total**: for EVERY buffer of at most 188 bytes that `MPEGPacket.unpack` accepts —
    garbage included, decoded into an object in any prior state — `MPEGPacket.pack` of the decoded
    packet (with or without stuffing) either succeeds or raises the bare `Exception` of
    `MPEGAdaption.pack` / `MPEGAdaptionExtension.pack` ("PCR should be 6 bytes", "ltw should be 2
    bytes", …: a truncated adaptation field leaves a part of the wrong size).  It never raises
    `struct.error` (every decoded value fits its field: splice countdown, private-data length,
    adaptation length, flags, 13-bit PID, 2-bit controls, 4-bit counter) and never `TypeError`. -/
theorem TS_reencode_total (t q : Pkt) (buf : Bytes) (ns : Bool) (hlen : buf.length ≤ 188)
    (hq : Pkt.unpack t buf = (q, .ok ())) :
    (Pkt.pack q ns).2 = .error .generic ∨ ∃ b, (Pkt.pack q ns).2 = .ok b :=
  Pkt_pack_ok_or_generic q ns (Pkt_unpack_bounded t buf q hlen hq)

/-- the error alternative is real: a PCR flag with adaptation length 3 leaves a 2-byte PCR, which
    `pack` refuses -/
example : (Pkt.unpack Pkt.fresh [0x47, 0, 0, 0x30, 3, 0x10, 0xAA, 0xBB, 1, 2, 3]).2 = .ok () ∧
    (Pkt.pack (Pkt.unpack Pkt.fresh [0x47, 0, 0, 0x30, 3, 0x10, 0xAA, 0xBB, 1, 2, 3]).1).2 = .error .generic :=
  ⟨rfl, rfl⟩

/-- the same for a whole stream: whatever bytes `MPEGTS.unpack` accepts (any length, any content),
    `MPEGTS.pack` of the decoded blocks succeeds or raises that bare `Exception` -/
theorem MPEGTS_reencode_total (t ts : TS) (buf : Bytes) (r : Bool) (h : TS.unpack t buf = (ts, .ok r)) :
    (TS.pack ts).2 = .error .generic ∨ ∃ b, (TS.pack ts).2 = .ok b :=
  packBlocks_ok_or_generic ts.blocks (TS_unpack_bounded t buf ts r h)

/-- witness for the hypothesis of `MPEGTS_reencode_total` with two packets (and for its "succeeds" alternative):
    the stream of two well-formed packets is accepted and decodes to two blocks -/
example : ∃ ts, TS.unpack TS.fresh (Pkt_bytes { Pkt.fresh with adaption_ctrl := 1, payload := [1] } ++
      Pkt_bytes { Pkt.fresh with adaption_ctrl := 1, payload := [2] }) = (ts, .ok true) ∧ ts.blocks.length = 2 := by
  have h := TS_unpack_chunks TS.fresh
    [Pkt_bytes { Pkt.fresh with adaption_ctrl := 1, payload := [1] }, Pkt_bytes { Pkt.fresh with adaption_ctrl := 1, payload := [2] }]
    (by decide +kernel)
    (by
      intro c hc
      simp only [List.mem_cons, List.not_mem_nil, or_false] at hc
      rcases hc with rfl | rfl <;> rw [Pkt_unpack_bytes _ _ (by decide) (by decide) (by decide)])
  exact ⟨_, by simpa using h, by simp⟩

end Acra.Props.C06
