import Acra.Lemmas.MPEGTS
import Acra.Lemmas.ReviewC06
import Acra.Spec.MPEG
namespace Acra.Props.C06
open Acra.Py Acra.Model.MPEGTS Acra.Gen.MPEGTS Acra.Lemmas.MPEGTS

/-- an optional part as the Spec sees it: absent when empty -/
def part (b : Bytes) : Option Bytes := if b.length = 0 then none else some b

theorem part_optB (b : Bytes) : Spec.MPEG.optB (part b) = b := by
  unfold part; split
  · rename_i h; simp [Spec.MPEG.optB, List.eq_nil_of_length_eq_zero h]
  · rfl

theorem enc1 (n : Nat) : encInt true 1 n = [Spec.MPEG.byte n] := by
  simp [encInt, beBytes, leBytes, Spec.MPEG.byte]

/-! ### MPEGAdaptionExtension -/

/-- **Ext.pack_layout** (full strength, against the layout the code implements):
    `MPEGAdaptionExtension.pack` emits exactly `Spec.MPEG.extensionAsCoded` — length byte counting
    itself and everything after it, flags byte (ltw / piecewise / seamless, five reserved bits set),
    then the parts in ISO order — for every well-formed extension (each part absent or of its size). -/
theorem Ext_pack_layout (e : Ext) (h : Ext_WF e) :
    (Ext.pack e).2 = .ok (Spec.MPEG.extensionAsCoded (part e.ltw) (part e.piecewise) (part e.seamless_splice)) := by
  rw [Ext_pack_eq e h]
  obtain ⟨h1, h2, h3⟩ := h
  simp only [Spec.MPEG.extensionAsCoded, Spec.MPEG.afExtensionBody, Ext_bytes, enc1, part_optB, List.length_cons,
    List.length_append, Ext_len, Ext_flags, List.cons_append, List.nil_append]
  have e1 : (part e.ltw).isSome = (e.ltw.length == 2) := by
    unfold part; rcases h1 with h1 | h1 <;> simp [h1]
  have e2 : (part e.piecewise).isSome = (e.piecewise.length == 3) := by
    unfold part; rcases h2 with h2 | h2 <;> simp [h2]
  have e3 : (part e.seamless_splice).isSome = (e.seamless_splice.length == 5) := by
    unfold part; rcases h3 with h3 | h3 <;> simp [h3]
  simp only [e1, e2, e3, List.append_assoc]
  have a1 : 2 + e.ltw.length + e.piecewise.length + e.seamless_splice.length =
      e.ltw.length + e.piecewise.length + e.seamless_splice.length + 1 + 1 := by omega
  have a2 : 31 + (e.ltw.length == 2).toNat * 128 + (e.piecewise.length == 3).toNat * 64 +
      (e.seamless_splice.length == 5).toNat * 32 = (e.ltw.length == 2).toNat * 128 + (e.piecewise.length == 3).toNat * 64 +
      (e.seamless_splice.length == 5).toNat * 32 + 31 := by omega
  rw [a1, a2]

/-- **the deviation from ISO 13818-1, exactly** (observation E1): for all parts, the coded extension
    and the ISO extension have the same body (flags byte and parts); ISO's length byte is the number
    `n` of body bytes, the library's is `n + 1`.  (`byte` reduces mod 256, so this is literally
    "first byte + 1, rest identical" for every input.) -/
theorem Ext_asCoded_iso_plus_one (ltw pw ss : Option Bytes) :
    ∃ n body, n = body.length ∧
      Spec.MPEG.afExtension ltw pw ss = Spec.MPEG.byte n :: body ∧
      Spec.MPEG.extensionAsCoded ltw pw ss = Spec.MPEG.byte (n + 1) :: body :=
  ⟨_, _, rfl, rfl, rfl⟩

/-- … hence the two layouts are never equal: no extension the library emits is ISO-conformant -/
theorem Ext_asCoded_ne_iso (ltw pw ss : Option Bytes) :
    Spec.MPEG.extensionAsCoded ltw pw ss ≠ Spec.MPEG.afExtension ltw pw ss := by
  intro h
  simp only [Spec.MPEG.extensionAsCoded, Spec.MPEG.afExtension, List.cons.injEq, and_true, Spec.MPEG.byte] at h
  have := congrArg UInt8.toNat h
  simp only [UInt8.toNat_ofNat'] at this
  omega

/-- `pack` against the ISO layout: same body, length byte = ISO's value + 1 (corollary of
    `Ext_pack_layout` and `Ext_asCoded_iso_plus_one`; the statement `pack = Spec.afExtension` is false
    for every extension by `Ext_asCoded_ne_iso`) -/
theorem Ext_pack_vs_iso (e : Ext) (h : Ext_WF e) :
    ∃ body, Spec.MPEG.afExtension (part e.ltw) (part e.piecewise) (part e.seamless_splice)
        = Spec.MPEG.byte body.length :: body ∧
      (Ext.pack e).2 = .ok (Spec.MPEG.byte (body.length + 1) :: body) :=
  ⟨_, rfl, Ext_pack_layout e h⟩

/-- witness: an extension carrying only an LTW field is emitted as `04 9F l1 l2`, ISO 13818-1 says
    `03 9F l1 l2`; and the library's decoder, given the ISO-conformant bytes, truncates the part
    (`payload = buffer[:_len]` with ISO's smaller length) -/
example : (Ext.pack { Ext.fresh with ltw := [1, 2] }).2 = .ok [4, 0x9F, 1, 2] ∧
    Spec.MPEG.extensionAsCoded (some [1, 2]) none none = [4, 0x9F, 1, 2] ∧
    Spec.MPEG.afExtension (some [1, 2]) none none = [3, 0x9F, 1, 2] ∧
    (Ext.unpack Ext.fresh [3, 0x9F, 1, 2]).1.ltw = [1] := ⟨rfl, rfl, rfl, by decide⟩

/-- round trip into an object in ANY prior state, with anything after the extension: same parts,
    flags say which are present, all bytes of the extension consumed, re-encode reproduces the bytes -/
theorem Ext_roundtrip (e t : Ext) (rest : Bytes) (h : Ext_WF e) :
    ∃ b, (Ext.pack e).2 = .ok b ∧
      Ext.unpack t (b ++ rest) = (Ext_packed e, .ok b.length) ∧
      (Ext_packed e).ltw = e.ltw ∧ (Ext_packed e).piecewise = e.piecewise ∧
      (Ext_packed e).seamless_splice = e.seamless_splice ∧
      (Ext.pack (Ext_packed e)).2 = .ok b := by
  refine ⟨Ext_bytes e, by rw [Ext_pack_eq e h], ?_, rfl, rfl, rfl, ?_⟩
  · rw [Ext_unpack_bytes e t rest h, Ext_bytes_length]
  · rw [Ext_pack_eq _ (Ext_packed_WF e h)]; rfl

example : Ext_WF { Ext.fresh with ltw := [1, 2], seamless_splice := [1, 2, 3, 4, 5] } := by decide

/-- the error branch: a part of any other size makes `pack` raise -/
theorem Ext_pack_rejects (e : Ext) (h : ¬ Ext_WF e) : (Ext.pack e).2 = .error .generic := by
  unfold Ext_WF at h
  unfold Ext.pack
  by_cases c1 : e.ltw.length ≠ 2 ∧ e.ltw.length ≠ 0
  · rw [if_pos c1]
  · by_cases c2 : e.piecewise.length ≠ 3 ∧ e.piecewise.length ≠ 0
    · rw [if_neg c1, if_pos c2]
    · by_cases c3 : e.seamless_splice.length ≠ 5 ∧ e.seamless_splice.length ≠ 0
      · rw [if_neg c1, if_neg c2, if_pos c3]
      · exfalso; apply h; omega

/-! ### MPEGAdaption -/

/-- the splice countdown as the Spec sees it: present iff positive (the library cannot express a
    present countdown of 0: `> 0` decides presence) -/
def spliceOpt (n : Nat) : Option Nat := if 0 < n then some n else none

theorem part_isSome (b : Bytes) : (part b).isSome = decide (0 < b.length) := by
  by_cases h : b.length = 0
  · simp [part, h]
  · simp [part, h]; omega

theorem spl_eq (a : AF) : Spec.MPEG.spliceBytes (spliceOpt a.splice_countdown) = AF_spl a := by
  by_cases h : 0 < a.splice_countdown <;> simp [spliceOpt, AF_spl, h, enc1, Spec.MPEG.spliceBytes]

theorem priv_eq (a : AF) : Spec.MPEG.privBytes (part a.private_data) = AF_tl a ++ a.private_data := by
  by_cases h : a.private_data.length = 0
  · simp [part, AF_tl, List.eq_nil_of_length_eq_zero h, Spec.MPEG.privBytes]
  · have : 0 < a.private_data.length := by omega
    simp [part, AF_tl, h, this, enc1, Spec.MPEG.privBytes]

theorem ext_eq (a : AF) : Spec.MPEG.optB (a.adaption_extension.map Ext_bytes) = AF_extb a := by
  unfold AF_extb; cases a.adaption_extension <;> rfl

/-- the bytes after the length byte are the ISO 13818-1 adaptation field body -/
theorem AF_body_eq (a : AF) :
    Spec.MPEG.afBody a.discontinutiy a.random_access a.es_priority (part a.pcr) (part a.opcr)
      (spliceOpt a.splice_countdown) (part a.private_data) (a.adaption_extension.map Ext_bytes)
      (AF_lenByte a - AF_dataLen a) =
    encInt true 1 (AF_flagsByte a) ++ (a.pcr ++ (a.opcr ++ (AF_spl a ++ (AF_tl a ++ (a.private_data ++ (AF_extb a ++
      List.replicate (AF_lenByte a - AF_dataLen a) (0xFF : UInt8))))))) := by
  have hs : (spliceOpt a.splice_countdown).isSome = decide (0 < a.splice_countdown) := by
    unfold spliceOpt; split <;> simp_all
  simp only [Spec.MPEG.afBody, part_isSome, hs, part_optB, spl_eq, priv_eq, ext_eq, Option.isSome_map, enc1,
    List.append_assoc, List.cons_append, List.nil_append]
  rfl

/-- `MPEGAdaption.pack` emits the ISO 13818-1 adaptation field: length byte = number of bytes that
    follow it, flags byte, PCR, OPCR, splice countdown, private-data length + data, extension,
    0xFF stuffing (`max(length, data length) − data length` bytes) -/
theorem AF_pack_layout (a : AF) (h : AF_WF a) :
    (AF.pack a).2 = .ok (Spec.MPEG.adaptationField a.discontinutiy a.random_access a.es_priority (part a.pcr)
      (part a.opcr) (spliceOpt a.splice_countdown) (part a.private_data) (a.adaption_extension.map Ext_bytes)
      (AF_lenByte a - AF_dataLen a)) := by
  rw [AF_pack_eq a h]
  have hl := AF_bytes_length a
  simp only [Spec.MPEG.adaptationField, AF_body_eq]
  simp only [AF_bytes, List.length_append, encInt_length] at hl ⊢
  rw [enc1]
  have : (1 + (a.pcr.length + (a.opcr.length + ((AF_spl a).length + ((AF_tl a).length + (a.private_data.length +
      ((AF_extb a).length + (List.replicate (AF_lenByte a - AF_dataLen a) (0xFF : UInt8)).length))))))) = AF_lenByte a := by
    omega
  rw [this]; rfl

/-- the adaptation-field length byte equals the number of adaptation bytes that follow it -/
theorem AF_length_law (a : AF) (h : AF_WF a) :
    ∃ body, (AF.pack a).2 = .ok (UInt8.ofNat body.length :: body) ∧ body.length = AF_lenByte a ∧ body.length < 256 := by
  rw [AF_pack_eq a h]
  have hl := AF_bytes_length a
  have hlt : AF_lenByte a < 256 := h.2.2.2.2.2.2.2.2.2.2
  refine ⟨(AF_bytes a).drop 1, ?_, by simp [hl], by simp [hl]; exact hlt⟩
  have : (List.drop 1 (AF_bytes a)).length = AF_lenByte a := by simp [hl]
  rw [this]
  simp only [AF_bytes, enc1, Spec.MPEG.byte, List.cons_append, List.nil_append, List.drop_succ_cons, List.drop_zero,
    Nat.mod_eq_of_lt hlt]

/-- round trip into an object in ANY prior state, with anything after the field (the rest of a
    packet): same parts, flags say which are present, re-encode reproduces the bytes -/
theorem AF_roundtrip (a t : AF) (rest : Bytes) (h : AF_WF a) :
    ∃ b, (AF.pack a).2 = .ok b ∧
      AF.unpack t (b ++ rest) = (AF_packed a, .ok ()) ∧
      (AF_packed a).pcr = a.pcr ∧ (AF_packed a).opcr = a.opcr ∧
      (AF_packed a).splice_countdown = a.splice_countdown ∧ (AF_packed a).private_data = a.private_data ∧
      (AF_packed a).adaption_extension = a.adaption_extension.map Ext_packed ∧
      (AF_packed a).discontinutiy = a.discontinutiy ∧ (AF_packed a).random_access = a.random_access ∧
      (AF_packed a).es_priority = a.es_priority ∧
      (AF.pack (AF_packed a)).2 = .ok b := by
  refine ⟨AF_bytes a, by rw [AF_pack_eq a h], AF_unpack_bytes a t rest h, rfl, rfl, rfl, rfl, rfl, rfl, rfl, rfl, ?_⟩
  obtain ⟨hw, hb⟩ := AF_packed_WF a h
  rw [AF_pack_eq _ hw, hb]

example : AF_WF { AF.fresh with pcr := [1, 2, 3, 4, 5, 6], splice_countdown := 7, private_data := [0xAA],
                                length := 40,
                                adaption_extension := some { Ext.fresh with piecewise := [1, 2, 3] } } := by
  refine ⟨by decide, by decide, by decide, by decide, ?_, by decide, by decide, by decide, by decide, by decide, by decide⟩
  intro x hx
  injection hx with hx
  subst hx
  decide

/-- error branches: a PCR that is neither empty nor 6 bytes raises; a splice countdown or a private
    data length that does not fit one byte is a `struct.error` -/
theorem AF_pack_rejects_pcr (a : AF) (h : 0 < a.pcr.length ∧ a.pcr.length ≠ 6) : (AF.pack a).2 = .error .generic := by
  unfold AF.pack; rw [if_pos h]

/-! ### MPEGPacket -/

/-- `Fits`: header + adaptation bytes + payload occupy at most 188 bytes -/
def Fits188 (p : Pkt) : Prop := Pkt_used p ≤ 188
instance (p : Pkt) : Decidable (Fits188 p) := by unfold Fits188; infer_instance

/-- every packet whose parts fit is exactly 188 bytes long -/
theorem TS_pack_188 (p : Pkt) (h : Pkt_WF p) (hf : Fits188 p) :
    ∃ b, (Pkt.pack p).2 = .ok b ∧ b.length = 188 := by
  refine ⟨Pkt_bytes p, by rw [Pkt_pack_eq' p false h]; rfl, ?_⟩
  rw [Pkt_bytes_length]; unfold Fits188 at hf; omega

/-- the error branch of `Fits188`: parts that occupy more than 188 bytes are emitted as a LONGER
    packet (no exception; `b"\xff" * negative` is empty) -/
theorem TS_pack_overlong (p : Pkt) (h : Pkt_WF p) (hf : ¬ Fits188 p) :
    ∃ b, (Pkt.pack p).2 = .ok b ∧ b.length = Pkt_used p ∧ 188 < b.length := by
  refine ⟨Pkt_bytes p, by rw [Pkt_pack_eq' p false h]; rfl, ?_⟩
  rw [Pkt_bytes_length]; unfold Fits188 at hf; omega

/-- witness: a payload-only packet with a 185-byte payload packs to 189 bytes -/
example : (match (Pkt.pack { Pkt.fresh with adaption_ctrl := 1, payload := List.replicate 185 0 }).2 with
    | .ok b => b.length | .error _ => 0) = 189 := by decide +kernel

/-- with `nostuff=True` the header, adaptation bytes and payload are returned without stuffing -/
theorem TS_pack_nostuff (p : Pkt) (h : Pkt_WF p) :
    (Pkt.pack p true).2 = .ok (Pkt_hdr p ++ (Pkt_af p ++ p.payload)) := by
  rw [Pkt_pack_eq' p true h]; rfl

theorem Pkt_hdr_layout (p : Pkt) (h : Pkt_WF p) :
    Pkt_hdr p = Spec.MPEG.tsHeader p.sync p.tei p.pusi p.transport_priority p.pid p.tsc p.adaption_ctrl
      p.continuitycounter := by
  obtain ⟨h1, h2, h3, h4, h5, h6, _⟩ := h
  have e2 : encInt true 2 (Pkt_pidFull p) = [Spec.MPEG.byte (Pkt_pidFull p / 256), Spec.MPEG.byte (Pkt_pidFull p % 256)] := by
    have := beBytes_add 1 1 (Pkt_pidFull p)
    simp only [encInt, if_true]
    rw [show (2 : Nat) = 1 + 1 from rfl, this]
    simp [beBytes, leBytes, Spec.MPEG.byte]
  simp only [Pkt_hdr, enc1, e2, Spec.MPEG.tsHeader, List.cons_append, List.nil_append]
  have a1 : Pkt_pidFull p / 256 = p.tei.toNat * 128 + p.pusi.toNat * 64 + p.transport_priority * 32 + p.pid / 256 := by
    unfold Pkt_pidFull; cases p.pusi <;> cases p.tei <;> simp <;> omega
  have a2 : Pkt_pidFull p % 256 % 256 = p.pid % 256 % 256 := by
    unfold Pkt_pidFull; cases p.pusi <;> cases p.tei <;> simp <;> omega
  have a3 : Pkt_cont p = p.tsc * 64 + p.adaption_ctrl * 16 + p.continuitycounter := by unfold Pkt_cont; omega
  rw [a1, a3]
  simp only [Spec.MPEG.byte, a2]

/-- the first four bytes are the ISO 13818-1 header: sync byte, TEI/PUSI/priority/13-bit PID,
    scrambling control / adaptation-field control / continuity counter -/
theorem TS_header_layout (p : Pkt) (ns : Bool) (h : Pkt_WF p) :
    ∃ rest, (Pkt.pack p ns).2 = .ok (Spec.MPEG.tsHeader p.sync p.tei p.pusi p.transport_priority p.pid p.tsc
      p.adaption_ctrl p.continuitycounter ++ rest) := by
  rw [Pkt_pack_eq' p ns h, ← Pkt_hdr_layout p h]
  cases ns
  · exact ⟨_, rfl⟩
  · exact ⟨_, rfl⟩

/-- with adaptation control 2 or 3, byte 4 of the packet is the number of adaptation bytes that
    follow it and the payload starts at offset 5 + that number — for EVERY adaptation field value
    (every subset of the optional parts, every stuffing length) and also for `adaption_field = None`
    (a single 0 byte) -/
theorem TS_af_length (p : Pkt) (h : Pkt_WF p) (haf : hasAF p) :
    ∃ hdr body tail, hdr.length = 4 ∧ body.length < 256 ∧
      (Pkt.pack p).2 = .ok (hdr ++ (UInt8.ofNat body.length :: body) ++ (p.payload ++ tail)) := by
  rw [Pkt_pack_eq' p false h]
  cases hx : p.adaption_field with
  | none =>
    refine ⟨Pkt_hdr p, [], Pkt_stuffing p, by simp, by simp, ?_⟩
    simp [Pkt_bytes, Pkt_af, haf, hx, enc1, Spec.MPEG.byte, Pkt_stuffing]
  | some a =>
    have hwf := h.2.2.2.2.2.2 a hx
    have hlt : AF_lenByte a < 256 := hwf.2.2.2.2.2.2.2.2.2.2
    have hl := AF_bytes_length a
    refine ⟨Pkt_hdr p, (AF_bytes a).drop 1, Pkt_stuffing p, by simp, by simpa [hl] using hlt, ?_⟩
    have e : UInt8.ofNat (List.drop 1 (AF_bytes a)).length :: List.drop 1 (AF_bytes a) = AF_bytes a := by
      have : (List.drop 1 (AF_bytes a)).length = AF_lenByte a := by simp [hl]
      rw [this]
      simp only [AF_bytes, enc1, Spec.MPEG.byte, List.cons_append, List.nil_append, List.drop_succ_cons, List.drop_zero,
        Nat.mod_eq_of_lt hlt]
    rw [e]
    simp [Pkt_bytes, Pkt_af, haf, hx, Pkt_stuffing]

/-- round trip into an object in ANY prior state: the header fields and the adaptation field come
    back as encoded, the payload comes back followed by the 0xFF stuffing (the format carries no
    payload length; an exactly filled packet comes back identical), and re-encoding the decoded
    packet never fails and — when the format can express the packet (no payload with adaptation
    control 0 or 2) — reproduces the bytes.
    Preconditions: sync byte 0x47 (the decoder rejects any other), the parts fit, and with
    adaptation control 2 an adaptation-field object is present (with None a lone 0 byte is emitted
    and the 0xFF stuffing after it decodes as flags and parts). -/
theorem TS_roundtrip (p t : Pkt) (h : Pkt_WF p) (hs : p.sync = 0x47) (hf : Fits188 p)
    (h2af : p.adaption_ctrl = 2 → p.adaption_field.isSome = true) :
    ∃ b, (Pkt.pack p).2 = .ok b ∧ b.length = 188 ∧
      Pkt.unpack t b = (Pkt_decoded p, .ok ()) ∧
      (Pkt_decoded p).pid = p.pid ∧ (Pkt_decoded p).tei = p.tei ∧ (Pkt_decoded p).pusi = p.pusi ∧
      (Pkt_decoded p).transport_priority = p.transport_priority ∧ (Pkt_decoded p).tsc = p.tsc ∧
      (Pkt_decoded p).adaption_ctrl = p.adaption_ctrl ∧ (Pkt_decoded p).continuitycounter = p.continuitycounter ∧
      ((p.adaption_ctrl = 1 ∨ p.adaption_ctrl = 3) →
        (Pkt_decoded p).payload = p.payload ++ List.replicate (188 - Pkt_used p) 0xFF) ∧
      (hasAF p → (Pkt_decoded p).adaption_field = p.adaption_field.map AF_packed) ∧
      (∃ b', (Pkt.pack (Pkt_decoded p)).2 = .ok b') ∧
      (((p.adaption_ctrl = 0 ∨ p.adaption_ctrl = 2) → p.payload = []) → (Pkt.pack (Pkt_decoded p)).2 = .ok b) := by
  obtain ⟨hw, hb⟩ := Pkt_decoded_bytes p h hf
  refine ⟨Pkt_bytes p, by rw [Pkt_pack_eq' p false h]; rfl, ?_, Pkt_unpack_bytes p t h hs h2af,
    rfl, rfl, rfl, rfl, rfl, rfl, rfl, ?_, ?_, ?_, ?_⟩
  · rw [Pkt_bytes_length]; unfold Fits188 at hf; omega
  · intro hc; simp [Pkt_decoded, hc, Pkt_stuffing]
  · intro hc; simp [Pkt_decoded, hc]
  · exact ⟨_, by rw [Pkt_pack_eq' _ false hw]⟩
  · intro hpl; rw [Pkt_pack_eq' _ false hw, ← hb hpl]; rfl

/-- a non-trivial packet satisfying the hypotheses: adaptation and payload, PCR + private data, stuffing -/
def examplePkt : Pkt :=
  { Pkt.fresh with
    pid := 0x104, adaption_ctrl := 3, continuitycounter := 15, payload := [1, 2, 3],
    adaption_field := some { AF.fresh with pcr := [1, 2, 3, 4, 5, 6], private_data := [0xAA], length := 100 } }

example : Pkt_WF examplePkt ∧ Fits188 examplePkt ∧ examplePkt.sync = 0x47 := by
  refine ⟨⟨by decide, by decide, by decide, by decide, by decide, by decide, ?_⟩, by decide, by decide⟩
  intro a ha
  injection ha with ha
  subst ha
  refine ⟨by decide, by decide, by decide, by decide, ?_, by decide, by decide, by decide, by decide, by decide, by decide⟩
  intro x hx; simp [AF.fresh] at hx

/-! ### MPEGTS -/

/-- a buffer of N 188-byte chunks, each accepted by the packet decoder, decodes to N packets in
    order, each exactly as a fresh object decodes that chunk alone (whatever the object held before) -/
theorem MPEGTS_unpack_n (t : TS) (cs : List Bytes) (hlen : ∀ c ∈ cs, c.length = 188)
    (hok : ∀ c ∈ cs, (Pkt.unpack Pkt.fresh c).2 = .ok ()) :
    ∃ bs, TS.unpack t (cs.flatMap id) = ({ blocks := bs }, .ok true) ∧ bs.length = cs.length ∧
      bs = cs.map fun c => (Pkt.unpack Pkt.fresh c).1 := by
  exact ⟨_, TS_unpack_chunks t cs hlen hok, by simp, rfl⟩

/-- a stream of N well-formed packets packs to N·188 bytes and decodes to the N decoded packets in order -/
theorem MPEGTS_roundtrip (t : TS) (ps : List Pkt) (hwf : ∀ p ∈ ps, Pkt_WF p ∧ p.sync = 0x47 ∧ Fits188 p ∧
      (p.adaption_ctrl = 2 → p.adaption_field.isSome = true)) :
    TS.unpack t (ps.flatMap Pkt_bytes) = ({ blocks := ps.map Pkt_decoded }, .ok true) ∧
    (ps.flatMap Pkt_bytes).length = 188 * ps.length := by
  have h1 := TS_unpack_chunks t (ps.map Pkt_bytes)
    (fun c hc => by
      obtain ⟨p, hp, rfl⟩ := List.mem_map.mp hc
      obtain ⟨_, _, hf, _⟩ := hwf p hp
      rw [Pkt_bytes_length]; unfold Fits188 at hf; omega)
    (fun c hc => by
      obtain ⟨p, hp, rfl⟩ := List.mem_map.mp hc
      obtain ⟨hw, hs, hf, h2⟩ := hwf p hp
      rw [Pkt_unpack_bytes p Pkt.fresh hw hs h2])
  have e1 : (ps.map Pkt_bytes).flatMap id = ps.flatMap Pkt_bytes := by
    simp [List.flatMap_map]
  have e2 : ((ps.map Pkt_bytes).map fun c => (Pkt.unpack Pkt.fresh c).1) = ps.map Pkt_decoded := by
    rw [List.map_map]
    apply List.map_congr_left
    intro p hp
    obtain ⟨hw, hs, hf, h2⟩ := hwf p hp
    simp [Pkt_unpack_bytes p Pkt.fresh hw hs h2]
  rw [e1, e2] at h1
  refine ⟨h1, ?_⟩
  clear h1 e1 e2
  induction ps with
  | nil => rfl
  | cons p ps ih =>
    obtain ⟨_, _, hf, _⟩ := hwf p (by simp)
    have := ih (fun q hq => hwf q (by simp [hq]))
    simp only [List.flatMap_cons, List.length_append, List.length_cons, this, Pkt_bytes_length]
    unfold Fits188 at hf; omega

/-- **MPEGTS round trip for a stream of N packets, arbitrary N**: `MPEGTS.pack` of N well-formed packets
    emits N·188 bytes (the packets in order); `MPEGTS.unpack` of those bytes — into an object in any
    prior state — gives exactly N blocks, the k-th being the decoded k-th packet; re-encoding the
    decoded stream never fails, and reproduces the bytes when the format can express every packet
    (no payload with adaptation control 0 or 2) -/
theorem MPEGTS_roundtrip_n (t : TS) (ps : List Pkt) (hwf : ∀ p ∈ ps, Pkt_WF p ∧ p.sync = 0x47 ∧ Fits188 p ∧
      (p.adaption_ctrl = 2 → p.adaption_field.isSome = true)) :
    ∃ b, (TS.pack { blocks := ps }).2 = .ok b ∧ b.length = 188 * ps.length ∧
      TS.unpack t b = ({ blocks := ps.map Pkt_decoded }, .ok true) ∧
      (ps.map Pkt_decoded).length = ps.length ∧
      (∃ b', (TS.pack { blocks := ps.map Pkt_decoded }).2 = .ok b' ∧ b'.length = 188 * ps.length) ∧
      ((∀ p ∈ ps, (p.adaption_ctrl = 0 ∨ p.adaption_ctrl = 2) → p.payload = []) →
        (TS.pack { blocks := ps.map Pkt_decoded }).2 = .ok b) := by
  obtain ⟨hu, hl⟩ := MPEGTS_roundtrip t ps hwf
  have hw : ∀ p ∈ ps, Pkt_WF p := fun p hp => (hwf p hp).1
  have hwd : ∀ q ∈ ps.map Pkt_decoded, Pkt_WF q := by
    intro q hq
    obtain ⟨p, hp, rfl⟩ := List.mem_map.mp hq
    exact (Pkt_decoded_bytes p (hwf p hp).1 (hwf p hp).2.2.1).1
  have hlen : ∀ qs : List Pkt, (∀ q ∈ qs, Pkt_used q ≤ 188) → (qs.flatMap Pkt_bytes).length = 188 * qs.length := by
    intro qs hq
    induction qs with
    | nil => rfl
    | cons q qs ih =>
      have := hq q (by simp)
      simp only [List.flatMap_cons, List.length_append, List.length_cons, ih (fun x hx => hq x (by simp [hx])),
        Pkt_bytes_length]
      omega
  have hused : ∀ q ∈ ps.map Pkt_decoded, Pkt_used q ≤ 188 := by
    intro q hq
    obtain ⟨p, hp, rfl⟩ := List.mem_map.mp hq
    obtain ⟨hwp, _, hf, _⟩ := hwf p hp
    have haf := Pkt_af_decoded p hwp
    unfold Fits188 at hf
    unfold Pkt_used at hf ⊢
    rw [haf]
    by_cases hc : p.adaption_ctrl = 1 ∨ p.adaption_ctrl = 3
    · have : (Pkt_decoded p).payload = p.payload ++ Pkt_stuffing p := by simp [Pkt_decoded, hc]
      rw [this]; simp [Pkt_stuffing, Pkt_used]; omega
    · have : (Pkt_decoded p).payload = [] := by simp [Pkt_decoded, hc]
      rw [this]; simp; omega
  have hl' : ((ps.map Pkt_decoded).flatMap Pkt_bytes).length = 188 * ps.length := by
    rw [hlen _ hused, List.length_map]
  have hp1 : (TS.pack { blocks := ps }).2 = .ok (ps.flatMap Pkt_bytes) := by
    simp only [TS.pack, packBlocks_eq ps hw]
  have hp2 : (TS.pack { blocks := ps.map Pkt_decoded }).2 = .ok ((ps.map Pkt_decoded).flatMap Pkt_bytes) := by
    simp only [TS.pack, packBlocks_eq _ hwd]
  refine ⟨ps.flatMap Pkt_bytes, hp1, hl, hu, List.length_map _, ⟨_, hp2, hl'⟩, ?_⟩
  intro hpl
  rw [hp2, flatMap_decoded_bytes ps (fun p hp => ⟨(hwf p hp).1, (hwf p hp).2.2.1, hpl p hp⟩)]

/-- **TS.reencode_ok** (the splice-countdown fix, D07): whatever optional parts a well-formed packet
    carries — in particular a splice countdown, which the decoder stores as the integer read from the
    byte — `MPEGPacket.pack` of the DECODED packet does not raise, emits 188 bytes, and the decoded
    countdown is the encoded integer.  (For buffers that are not the encoding of a well-formed packet
    the decoded adaptation field can hold a truncated PCR or extension part, for which `pack` raises
    its own bare `Exception`; that is input validation, not the D07 `TypeError`.) -/
theorem TS_reencode_ok (p t q : Pkt) (b : Bytes) (h : Pkt_WF p) (hs : p.sync = 0x47) (hf : Fits188 p)
    (h2af : p.adaption_ctrl = 2 → p.adaption_field.isSome = true)
    (hb : (Pkt.pack p).2 = .ok b) (hq : Pkt.unpack t b = (q, .ok ())) :
    (∃ b', (Pkt.pack q).2 = .ok b' ∧ b'.length = 188) ∧
    (∀ a, hasAF p → p.adaption_field = some a →
      ∃ a', q.adaption_field = some a' ∧ a'.splice_countdown = a.splice_countdown) := by
  rw [Pkt_pack_eq' p false h] at hb
  simp only [Bool.false_eq_true, if_false, Except.ok.injEq] at hb
  subst hb
  rw [Pkt_unpack_bytes p t h hs h2af] at hq
  simp only [Prod.mk.injEq, and_true] at hq
  subst hq
  obtain ⟨hw, _⟩ := Pkt_decoded_bytes p h hf
  refine ⟨⟨Pkt_bytes (Pkt_decoded p), by rw [Pkt_pack_eq' _ false hw]; rfl, ?_⟩, ?_⟩
  · rw [Pkt_bytes_length]
    have haf := Pkt_af_decoded p h
    unfold Fits188 at hf
    unfold Pkt_used at hf ⊢
    rw [haf]
    by_cases hc : p.adaption_ctrl = 1 ∨ p.adaption_ctrl = 3
    · have : (Pkt_decoded p).payload = p.payload ++ Pkt_stuffing p := by simp [Pkt_decoded, hc]
      rw [this]; simp [Pkt_stuffing, Pkt_used]; omega
    · have : (Pkt_decoded p).payload = [] := by simp [Pkt_decoded, hc]
      rw [this]; simp; omega
  · intro a haf ha
    exact ⟨AF_packed a, by simp [Pkt_decoded, haf, ha], rfl⟩

/-- a packet with a splice countdown (and PCR, private data, stuffing) satisfying the hypotheses of
    `TS_reencode_ok`, and two of them those of `MPEGTS_roundtrip_n` -/
def examplePktSplice : Pkt :=
  { Pkt.fresh with
    pid := 0x104, adaption_ctrl := 3, continuitycounter := 3, payload := [1, 2, 3],
    adaption_field := some { AF.fresh with pcr := [1, 2, 3, 4, 5, 6], splice_countdown := 7,
                                           private_data := [0xAA], length := 100 } }

example : Pkt_WF examplePktSplice ∧ Fits188 examplePktSplice ∧ examplePktSplice.sync = 0x47 ∧
    (examplePktSplice.adaption_ctrl = 2 → examplePktSplice.adaption_field.isSome = true) := by
  refine ⟨⟨by decide, by decide, by decide, by decide, by decide, by decide, ?_⟩, by decide, by decide, by decide⟩
  intro a ha
  injection ha with ha
  subst ha
  refine ⟨by decide, by decide, by decide, by decide, ?_, by decide, by decide, by decide, by decide, by decide, by decide⟩
  intro x hx; simp [AF.fresh] at hx

/-! ### review additions: the length law without well-formedness, joint witnesses, excluded inputs -/

/-- **AF length law, total form**: whenever `MPEGAdaption.pack` succeeds — NO well-formedness assumed: flags left set
    without their part (E8), an OPCR of any size (only the PCR size is checked), any `length` — the first byte emitted
    is the number of bytes that follow it -/
theorem AF_length_law_total (a : AF) (b : Bytes) (h : (AF.pack a).2 = .ok b) :
    ∃ body, b = UInt8.ofNat body.length :: body ∧ body.length < 256 :=
  Acra.Lemmas.ReviewC06.AF_pack_length_total a b h

/-- **TS.af_length, total form**: whenever `MPEGPacket.pack` succeeds on a packet with adaptation control 2 or 3 —
    any header field values, any adaptation-field object (or None), over-full or not, with or without stuffing —
    byte 4 is the number of adaptation bytes that follow it and the payload starts at offset 5 + that number.
    (`TS_af_length` is the special case `Pkt_WF p`, `nostuff = False`.) -/
theorem TS_af_length_total (p : Pkt) (ns : Bool) (b : Bytes) (hb : (Pkt.pack p ns).2 = .ok b) (haf : hasAF p) :
    ∃ hdr body tail, hdr.length = 4 ∧ body.length < 256 ∧
      b = hdr ++ (UInt8.ofNat body.length :: body) ++ (p.payload ++ tail) :=
  Acra.Lemmas.ReviewC06.Pkt_pack_af_length_total p ns b hb haf

/-- witness for the total forms on an object OUTSIDE `AF_WF` / `Pkt_WF`: PCR flag set without PCR, a 3-byte OPCR,
    a 14-bit PID; `pack` succeeds and byte 4 (= 9) counts flags + 3 OPCR bytes + 5 stuffing bytes -/
def staleAF : AF := { AF.fresh with pcr_flag := true, opcr := [1, 2, 3], length := 9 }

example : ¬ AF_WF staleAF ∧
    (AF.pack staleAF).2.toOption = some [9, 24, 1, 2, 3, 255, 255, 255, 255, 255] ∧
    hasAF { Pkt.fresh with adaption_ctrl := 3, pid := 0x2000, payload := [5, 6], adaption_field := some staleAF } ∧
    (Pkt.pack { Pkt.fresh with adaption_ctrl := 3, pid := 0x2000, payload := [5, 6], adaption_field := some staleAF } true).2.toOption
      = some [71, 96, 0, 48, 9, 24, 1, 2, 3, 255, 255, 255, 255, 255, 5, 6] := by decide +kernel

def extOf (ltw pw ss : Bool) : Ext :=
  { Ext.fresh with
    ltw := if ltw then [1, 2] else [],
    piecewise := if pw then [3, 4, 5] else [],
    seamless_splice := if ss then [6, 7, 8, 9, 10] else [] }

/-- an adaptation field with the chosen subset of optional parts -/
def afOf (pcr opcr spl prv ext ltw pw ss : Bool) (len : Nat) : AF :=
  { AF.fresh with
    length := len,
    pcr := if pcr then [1, 2, 3, 4, 5, 6] else [],
    opcr := if opcr then [7, 8, 9, 10, 11, 12] else [],
    splice_countdown := if spl then 200 else 0,
    private_data := if prv then [0xAA, 0xBB, 0xCC] else [],
    adaption_extension := if ext then some (extOf ltw pw ss) else none }

def pktOf (afc : Nat) (pcr opcr spl prv ext ltw pw ss : Bool) (len : Nat) (pl : Bytes) : Pkt :=
  { Pkt.fresh with
    pid := 0x1FFF, adaption_ctrl := afc, continuitycounter := 9, payload := pl,
    adaption_field := some (afOf pcr opcr spl prv ext ltw pw ss len) }

/-- **every subset of the optional parts** (PCR, OPCR, splice countdown, private data, extension × {LTW, piecewise,
    seamless}: 256 combinations) satisfies the hypotheses of `Ext_*`, `AF_pack_layout`, `AF_length_law`, `AF_roundtrip`,
    `TS_pack_188`, `TS_af_length`, `TS_roundtrip`, `TS_reencode_ok` TOGETHER — without stuffing, with stuffing next to a
    payload (control 3) and as an adaptation-only packet filled exactly by stuffing (control 2) -/
example : ∀ pcr opcr spl prv ext ltw pw ss : Bool,
    Ext_WF (extOf ltw pw ss) ∧
    AF_WF (afOf pcr opcr spl prv ext ltw pw ss 0) ∧ AF_WF (afOf pcr opcr spl prv ext ltw pw ss 60) ∧
    Pkt_WF (pktOf 3 pcr opcr spl prv ext ltw pw ss 0 [1, 2, 3]) ∧ hasAF (pktOf 3 pcr opcr spl prv ext ltw pw ss 0 [1, 2, 3]) ∧
    Fits188 (pktOf 3 pcr opcr spl prv ext ltw pw ss 0 [1, 2, 3]) ∧ (pktOf 3 pcr opcr spl prv ext ltw pw ss 0 [1, 2, 3]).sync = 0x47 ∧
    Pkt_WF (pktOf 3 pcr opcr spl prv ext ltw pw ss 60 [1, 2, 3]) ∧ Fits188 (pktOf 3 pcr opcr spl prv ext ltw pw ss 60 [1, 2, 3]) ∧
    Pkt_WF (pktOf 2 pcr opcr spl prv ext ltw pw ss 183 []) ∧ hasAF (pktOf 2 pcr opcr spl prv ext ltw pw ss 183 []) ∧
    ((pktOf 2 pcr opcr spl prv ext ltw pw ss 183 []).adaption_ctrl = 2 →
      (pktOf 2 pcr opcr spl prv ext ltw pw ss 183 []).adaption_field.isSome = true) ∧
    Pkt_used (pktOf 2 pcr opcr spl prv ext ltw pw ss 183 []) = 188 := by
  decide +kernel

/-- joint witness for `TS_af_length` (and for `TS_header_layout`, `TS_pack_nostuff`): `examplePkt`; its byte 4 is 100 -/
example : Pkt_WF examplePkt ∧ hasAF examplePkt ∧
    ((Pkt.pack examplePkt).2.toOption.map fun b => (b.take 5, slice b 105 108)) = some ([0x47, 0x41, 0x04, 0x3F, 100], [1, 2, 3]) := by
  decide +kernel

/-- joint witness for `TS_pack_overlong` -/
example : Pkt_WF { Pkt.fresh with adaption_ctrl := 1, payload := List.replicate 185 0 } ∧
    ¬ Fits188 { Pkt.fresh with adaption_ctrl := 1, payload := List.replicate 185 0 } := by decide +kernel

/-- witnesses for the error-branch theorems `Ext_pack_rejects` and `AF_pack_rejects_pcr` -/
example : ¬ Ext_WF { Ext.fresh with ltw := [1] } := by decide
example : 0 < ({ AF.fresh with pcr := [1, 2] } : AF).pcr.length ∧ ({ AF.fresh with pcr := [1, 2] } : AF).pcr.length ≠ 6 := by
  decide

/-- the precondition `h2af` of `TS_roundtrip` is needed (E2): adaptation control 2 with `adaption_field = None` is well
    formed and fits, `pack` emits a lone 0 byte and 183 bytes of 0xFF, and the decoder reads those as an adaptation
    field of length 0 with every flag set — PCR FF…, countdown 255, 168 bytes of private data; re-encoding that gives a
    190-byte packet -/
example :
    let p : Pkt := { Pkt.fresh with adaption_ctrl := 2 }
    Pkt_WF p ∧ Fits188 p ∧ p.sync = 0x47 ∧ ¬ (p.adaption_ctrl = 2 → p.adaption_field.isSome = true) ∧
    ((Pkt.unpack Pkt.fresh (Pkt_bytes p)).1.adaption_field.map fun a => (a.length, a.pcr.length, a.splice_countdown,
        a.private_data.length)) = some (0, 6, 255, 168) ∧
    ((Pkt.pack (Pkt.unpack Pkt.fresh (Pkt_bytes p)).1).2.toOption.map List.length) = some 190 := by
  decide +kernel

/-- joint witness for `MPEGTS_unpack_n` with N = 2: two different 188-byte chunks, each accepted -/
example : (∀ c ∈ [Pkt_bytes examplePkt, Pkt_bytes examplePktSplice], c.length = 188) ∧
    (∀ c ∈ [Pkt_bytes examplePkt, Pkt_bytes examplePktSplice], (Pkt.unpack Pkt.fresh c).2 = .ok ()) := by
  refine ⟨?_, ?_⟩ <;> intro c hc <;> simp only [List.mem_cons, List.not_mem_nil, or_false] at hc <;>
    rcases hc with rfl | rfl
  · decide +kernel
  · decide +kernel
  · rw [Pkt_unpack_bytes _ _ (by decide) (by decide) (by decide)]
  · rw [Pkt_unpack_bytes _ _ (by decide) (by decide) (by decide)]

/-- joint witness for `MPEGTS_roundtrip` / `MPEGTS_roundtrip_n` with N = 3 (adaptation + payload twice, payload only) -/
example : ∀ p ∈ [examplePkt, examplePktSplice, { Pkt.fresh with adaption_ctrl := 1, payload := [9, 8, 7] }],
    Pkt_WF p ∧ p.sync = 0x47 ∧ Fits188 p ∧ (p.adaption_ctrl = 2 → p.adaption_field.isSome = true) := by
  decide +kernel

/-- joint witness for `TS_reencode_ok`, including `hb` and `hq` -/
example : Pkt_WF examplePktSplice ∧ examplePktSplice.sync = 0x47 ∧ Fits188 examplePktSplice ∧
    (examplePktSplice.adaption_ctrl = 2 → examplePktSplice.adaption_field.isSome = true) ∧
    (Pkt.pack examplePktSplice).2 = .ok (Pkt_bytes examplePktSplice) ∧
    Pkt.unpack Pkt.fresh (Pkt_bytes examplePktSplice) = (Pkt_decoded examplePktSplice, .ok ()) :=
  ⟨by decide, by decide, by decide, by decide, by rw [Pkt_pack_eq' _ false (by decide)]; rfl,
   Pkt_unpack_bytes _ _ (by decide) (by decide) (by decide)⟩

end Acra.Props.C06
