import Acra.Lemmas.PES
import Acra.Spec.MPEG
namespace Acra.Props.C06
open Acra.Py Acra.Model.MPEGTS Acra.Model.PES Acra.Gen.PES Acra.Lemmas.MPEGTS Acra.Lemmas.PES

/-- `PES.pack` puts the ISO 13818-1 PES packet into the TS payload: start-code prefix 000001,
    stream id, PES_packet_length = number of bytes that follow it, the optional header (two flag
    bytes, header-data length, header data) iff all three attributes are set, then the data -/
theorem PES_pack_layout (s : PES) (h : PES_WF s) :
    (PES.pack s).2 = .ok (Pkt_bytes (PES_pkt s)) ∧
    (PES_pkt s).payload = Spec.MPEG.pesPacket s.streamid (PES.ext s) s.pesdata := by
  refine ⟨by rw [PES_pack_eq s h], ?_⟩
  show PES_payload s = _
  unfold PES_payload PES_prefix PES_len PES_extBytes PES_ext Spec.MPEG.pesPacket
  have b1 : ∀ n, beBytes 1 n = [UInt8.ofNat (n % 256)] := fun n => by simp [beBytes, leBytes]
  have b21 : beBytes 2 1 = [0, 1] := by decide
  cases PES.ext s with
  | none => simp [encInt, Spec.MPEG.byte, b1, b21]
  | some x =>
    obtain ⟨w1, w2, hd⟩ := x
    simp [encInt, Spec.MPEG.byte, b1, b21]

/-- PES.roundtrip, header-less packets, into an object in ANY prior state: stream id and data come
    back (the data followed by the 0xFF stuffing: the decoder takes everything after the prefix), no
    optional header is reported.
    FULL statement (without `¬ looksLikeHeader`) is FALSE of the model and of the code — known
    finding K2, witness below: the decoder recognises the optional header heuristically. -/
theorem PES_roundtrip_partial (s t : PES) (h : PES_WF s) (hs : s.pkt.sync = 0x47)
    (hafc : s.pkt.adaption_ctrl = 1 ∨ s.pkt.adaption_ctrl = 3) (hne : PES.ext s = none)
    (hf : Pkt_used (PES_pkt s) ≤ 188) (h9 : 3 ≤ (PES_tail s).length) (hnl : ¬ looksLikeHeader s) :
    ∃ b, (PES.pack s).2 = .ok b ∧ b.length = 188 ∧
      (PES.unpack t b).2 = .ok () ∧
      (PES.unpack t b).1.streamid = s.streamid ∧
      (PES.unpack t b).1.pesdata = s.pesdata ++ List.replicate (188 - Pkt_used (PES_pkt s)) 0xFF ∧
      (PES.unpack t b).1.extension_w1 = none ∧ (PES.unpack t b).1.extension_w2 = none ∧
      (PES.unpack t b).1.header_data = none ∧
      (PES.unpack t b).1.pkt = Pkt_decoded (PES_pkt s) := by
  refine ⟨Pkt_bytes (PES_pkt s), by rw [PES_pack_eq s h], ?_, ?_⟩
  · rw [Pkt_bytes_length]; omega
  · rw [PES_unpack_headerless s t h hs hafc hne h9 hnl]
    exact ⟨rfl, rfl, rfl, rfl, rfl, rfl, rfl⟩

/-- K2 witness: payload-only packet, no optional header, 178 data bytes starting with 0x80 (the PES
    packet fills the TS packet exactly).  It is well formed, the heuristic fires, and the decoder
    reports an optional header (flags 0x80 0x00, header length 0) that was never encoded. -/
def k2Witness : PES :=
  { PES.fresh with pkt := { Pkt.fresh with adaption_ctrl := 1 }, streamid := 224,
                   pesdata := 0x80 :: List.replicate 177 0 }

example : looksLikeHeader k2Witness ∧ PES.ext k2Witness = none ∧
    (PES.unpack PES.fresh (Pkt_bytes (PES_pkt k2Witness))).1.extension_w1 = some 0x80 ∧
    (PES.unpack PES.fresh (Pkt_bytes (PES_pkt k2Witness))).1.pesdata.length = 175 := by
  decide +kernel

/-- PES.roundtrip with the optional header (first flag byte 0x8_, i.e. '10' marker and scrambling
    bits 00, PES packet filling the TS packet exactly — with or without adaptation stuffing): every
    field comes back and re-encoding the decoded object reproduces the bytes -/
theorem PES_roundtrip_header (s t : PES) (h : PES_WF s) (hs : s.pkt.sync = 0x47)
    (hafc : s.pkt.adaption_ctrl = 1 ∨ s.pkt.adaption_ctrl = 3) (w1 w2 : Nat) (hd : Bytes)
    (he : PES.ext s = some (w1, w2, hd)) (hw1 : w1 / 16 = 8) (hfull : Pkt_used (PES_pkt s) = 188) :
    ∃ b, (PES.pack s).2 = .ok b ∧ b.length = 188 ∧
      PES.unpack t b =
        ({ pkt := Pkt_decoded (PES_pkt s), streamid := s.streamid, pesdata := s.pesdata,
           extension_w1 := some w1, extension_w2 := some w2, header_data := some hd }, .ok ()) := by
  refine ⟨Pkt_bytes (PES_pkt s), by rw [PES_pack_eq s h], ?_, ?_⟩
  · rw [Pkt_bytes_length]; omega
  · exact PES_unpack_header s t h hs hafc w1 w2 hd he hw1 (by simp [Pkt_stuffing, hfull])

/-- an example satisfying the header-case hypotheses: flags 0x81 0x80, five bytes of header data
    (a PTS), 164 data bytes, payload only -/
def headerExample : PES :=
  { PES.fresh with pkt := { Pkt.fresh with adaption_ctrl := 1, pid := 0x104 }, streamid := 0xFC,
                   extension_w1 := some 0x81, extension_w2 := some 0x80, pesdata := List.replicate 170 7,
                   header_data := some [0x21, 0, 1, 0, 1] }

example : PES.ext headerExample = some (0x81, 0x80, [0x21, 0, 1, 0, 1]) ∧ Pkt_used (PES_pkt headerExample) = 188 ∧
    headerExample.pkt.sync = 0x47 := by decide +kernel

end Acra.Props.C06
