import Acra.Lemmas.PES
import Acra.Lemmas.ReviewC06
import Acra.Spec.MPEG
namespace Acra.Props.C06
open Acra.Py Acra.Model.MPEGTS Acra.Model.PES Acra.Gen.PES Acra.Lemmas.MPEGTS Acra.Lemmas.PES

/-- `PES.pack` puts the ISO 13818-1 PES packet into the TS payload: start-code prefix 000001,
    stream id, PES_packet_length = number of bytes that follow it, the optional header (two flag
    bytes, header-data length, header data) iff all three attributes are set, then the data -/
theorem PES_pack_layout (s : PES) (h : PES_WF s) :
    (PES.pack s).2 = .ok (Pkt_bytes (PES_pkt s)) ∧
    (PES_pkt s).payload = Spec.MPEG.pesPacket s.streamid (PES.ext s) s.pesdata := by
  refine ⟨by rw [PES_pack_eq s h], ?_⟩
  show PES_payload s = _
  unfold PES_payload PES_prefix PES_len PES_extBytes PES_ext Spec.MPEG.pesPacket
  have b1 : ∀ n, beBytes 1 n = [UInt8.ofNat (n % 256)] := fun n => by simp [beBytes, leBytes]
  have b21 : beBytes 2 1 = [0, 1] := by decide
  cases PES.ext s with
  | none => simp [encInt, Spec.MPEG.byte, b1, b21]
  | some x =>
    obtain ⟨w1, w2, hd⟩ := x
    simp [encInt, Spec.MPEG.byte, b1, b21]

/-- PES.roundtrip, header-less packets, into an object in ANY prior state: stream id and data come
    back (the data followed by the 0xFF stuffing: the decoder takes everything after the prefix), no
    optional header is reported.
    FULL statement (without `¬ looksLikeHeader`) is FALSE of the model and of the code — known
    finding K2, witness below: the decoder recognises the optional header heuristically. -/
theorem PES_roundtrip_partial (s t : PES) (h : PES_WF s) (hs : s.pkt.sync = 0x47)
    (hafc : s.pkt.adaption_ctrl = 1 ∨ s.pkt.adaption_ctrl = 3) (hne : PES.ext s = none)
    (hf : Pkt_used (PES_pkt s) ≤ 188) (hnl : 3 ≤ (PES_tail s).length → ¬ looksLikeHeader s) :
    ∃ b, (PES.pack s).2 = .ok b ∧ b.length = 188 ∧
      (PES.unpack t b).2 = .ok () ∧
      (PES.unpack t b).1.streamid = s.streamid ∧
      (PES.unpack t b).1.pesdata = s.pesdata ++ List.replicate (188 - Pkt_used (PES_pkt s)) 0xFF ∧
      (PES.unpack t b).1.extension_w1 = none ∧ (PES.unpack t b).1.extension_w2 = none ∧
      (PES.unpack t b).1.header_data = none ∧
      (PES.unpack t b).1.pkt = Pkt_decoded (PES_pkt s) := by
  refine ⟨Pkt_bytes (PES_pkt s), by rw [PES_pack_eq s h], ?_, ?_⟩
  · rw [Pkt_bytes_length]; omega
  · rw [PES_unpack_headerless_any s t h hs hafc hne hnl]
    exact ⟨rfl, rfl, rfl, rfl, rfl, rfl, rfl⟩

/-- K2 witness: payload-only packet, no optional header, 178 data bytes starting with 0x80 (the PES
    packet fills the TS packet exactly).  It is well formed, the heuristic fires, and the decoder
    reports an optional header (flags 0x80 0x00, header length 0) that was never encoded. -/
def k2Witness : PES :=
  { PES.fresh with pkt := { Pkt.fresh with adaption_ctrl := 1 }, streamid := 224,
                   pesdata := 0x80 :: List.replicate 177 0 }

example : looksLikeHeader k2Witness ∧ PES.ext k2Witness = none ∧
    (PES.unpack PES.fresh (Pkt_bytes (PES_pkt k2Witness))).1.extension_w1 = some 0x80 ∧
    (PES.unpack PES.fresh (Pkt_bytes (PES_pkt k2Witness))).1.pesdata.length = 175 := by
  decide +kernel

/-- PES.roundtrip with the optional header (first flag byte 0x8_, i.e. '10' marker and scrambling
    bits 00, PES packet filling the TS packet exactly — with or without adaptation stuffing): every
    field comes back and re-encoding the decoded object reproduces the bytes -/
theorem PES_roundtrip_header (s t : PES) (h : PES_WF s) (hs : s.pkt.sync = 0x47)
    (hafc : s.pkt.adaption_ctrl = 1 ∨ s.pkt.adaption_ctrl = 3) (w1 w2 : Nat) (hd : Bytes)
    (he : PES.ext s = some (w1, w2, hd)) (hw1 : w1 / 16 = 8) (hfull : Pkt_used (PES_pkt s) = 188) :
    ∃ b, (PES.pack s).2 = .ok b ∧ b.length = 188 ∧
      PES.unpack t b =
        ({ pkt := Pkt_decoded (PES_pkt s), streamid := s.streamid, pesdata := s.pesdata,
           extension_w1 := some w1, extension_w2 := some w2, header_data := some hd }, .ok ()) := by
  refine ⟨Pkt_bytes (PES_pkt s), by rw [PES_pack_eq s h], ?_, ?_⟩
  · rw [Pkt_bytes_length]; omega
  · exact PES_unpack_header s t h hs hafc w1 w2 hd he hw1 (by simp [Pkt_stuffing, hfull])

/-- an example satisfying the header-case hypotheses: flags 0x81 0x80, five bytes of header data
    (a PTS), 164 data bytes, payload only -/
def headerExample : PES :=
  { PES.fresh with pkt := { Pkt.fresh with adaption_ctrl := 1, pid := 0x104 }, streamid := 0xFC,
                   extension_w1 := some 0x81, extension_w2 := some 0x80, pesdata := List.replicate 170 7,
                   header_data := some [0x21, 0, 1, 0, 1] }

example : PES.ext headerExample = some (0x81, 0x80, [0x21, 0, 1, 0, 1]) ∧ Pkt_used (PES_pkt headerExample) = 188 ∧
    headerExample.pkt.sync = 0x47 := by decide +kernel

/-! ### review additions: joint witnesses and the excluded inputs -/

/-- header-less, payload only, three data bytes followed by stuffing (the first data byte is 0x80, but the packet is
    not exactly filled, so the heuristic does not fire) -/
def pesPlain : PES :=
  { PES.fresh with pkt := { Pkt.fresh with adaption_ctrl := 1 }, streamid := 224, pesdata := [0x80, 2, 3] }

/-- header-less, filled exactly through 167 bytes of adaptation stuffing -/
def pesFill : PES :=
  { PES.fresh with
    pkt := { Pkt.fresh with adaption_ctrl := 3, adaption_field := some { AF.fresh with length := 167 } },
    streamid := 224, pesdata := [0x47, 1, 2, 3, 4, 5, 6, 7, 8, 9] }

/-- joint witnesses for `PES_pack_layout` and `PES_roundtrip_partial` (all seven hypotheses), without and with
    adaptation stuffing -/
example : PES_WF pesPlain ∧ pesPlain.pkt.sync = 0x47 ∧ (pesPlain.pkt.adaption_ctrl = 1 ∨ pesPlain.pkt.adaption_ctrl = 3) ∧
    PES.ext pesPlain = none ∧ Pkt_used (PES_pkt pesPlain) ≤ 188 ∧ 3 ≤ (PES_tail pesPlain).length ∧ ¬ looksLikeHeader pesPlain := by
  decide +kernel
example : PES_WF pesFill ∧ pesFill.pkt.sync = 0x47 ∧ (pesFill.pkt.adaption_ctrl = 1 ∨ pesFill.pkt.adaption_ctrl = 3) ∧
    PES.ext pesFill = none ∧ Pkt_used (PES_pkt pesFill) = 188 ∧ 3 ≤ (PES_tail pesFill).length ∧ ¬ looksLikeHeader pesFill := by
  decide +kernel

/-- with the optional header, filled exactly through 100 bytes of adaptation stuffing -/
def headerFill : PES :=
  { headerExample with
    pkt := { Pkt.fresh with adaption_ctrl := 3, pid := 0x104, adaption_field := some { AF.fresh with length := 100 } },
    pesdata := List.replicate 69 7 }

/-- joint witnesses for `PES_roundtrip_header` (all hypotheses), without and with adaptation stuffing -/
example : PES_WF headerExample ∧ headerExample.pkt.sync = 0x47 ∧
    (headerExample.pkt.adaption_ctrl = 1 ∨ headerExample.pkt.adaption_ctrl = 3) ∧
    PES.ext headerExample = some (0x81, 0x80, [0x21, 0, 1, 0, 1]) ∧ 0x81 / 16 = 8 ∧ Pkt_used (PES_pkt headerExample) = 188 := by
  decide +kernel
example : PES_WF headerFill ∧ headerFill.pkt.sync = 0x47 ∧
    (headerFill.pkt.adaption_ctrl = 1 ∨ headerFill.pkt.adaption_ctrl = 3) ∧
    PES.ext headerFill = some (0x81, 0x80, [0x21, 0, 1, 0, 1]) ∧ 0x81 / 16 = 8 ∧ Pkt_used (PES_pkt headerFill) = 188 := by
  decide +kernel

/-- the former hypothesis `h9 : 3 ≤ |PES_tail s|` is gone (repaired by the `fix:` commit da005f6): a header-less PES
    packet with fewer than 3 bytes after the 6-byte prefix — here 2 data bytes, the packet filled exactly by 175
    bytes of adaptation stuffing — is well formed, packs to 188 bytes, and `PES.unpack` of its own encoding now
    returns the two bytes (it used to raise `struct.error` from the 3-byte peek at payload offset 6) -/
example :
    let s : PES :=
      { PES.fresh with
        pkt := { Pkt.fresh with adaption_ctrl := 3, adaption_field := some { AF.fresh with length := 175 } },
        streamid := 224, pesdata := [1, 2] }
    PES_WF s ∧ PES.ext s = none ∧ Pkt_used (PES_pkt s) = 188 ∧ (PES_tail s).length = 2 ∧
    (match (PES.unpack PES.fresh (Pkt_bytes (PES_pkt s))).2 with | .ok () => true | _ => false) = true ∧
    (PES.unpack PES.fresh (Pkt_bytes (PES_pkt s))).1.pesdata = [1, 2] := by
  decide +kernel

/-- what `hfull` of `PES_roundtrip_header` excludes (corollary of K2): a packet WITH the optional header that does not
    fill the TS packet is decoded as header-less, the header bytes turning up in `pesdata` -/
example :
    let s : PES := { headerExample with pesdata := [1, 2, 3] }
    PES_WF s ∧ PES.ext s = some (0x81, 0x80, [0x21, 0, 1, 0, 1]) ∧ Pkt_used (PES_pkt s) < 188 ∧
    (PES.unpack PES.fresh (Pkt_bytes (PES_pkt s))).1.extension_w1 = none ∧
    (PES.unpack PES.fresh (Pkt_bytes (PES_pkt s))).1.pesdata.take 11 = [0x81, 0x80, 5, 0x21, 0, 1, 0, 1, 1, 2, 3] := by
  decide +kernel

/-- **PES re-encode, with the optional header**: under the hypotheses of `PES_roundtrip_header`, `PES.pack` of the
    decoded object (the first component of that theorem's result) succeeds and reproduces the 188 bytes -/
theorem PES_reencode_header (s : PES) (h : PES_WF s) (w1 w2 : Nat) (hd : Bytes)
    (he : PES.ext s = some (w1, w2, hd)) (hfull : Pkt_used (PES_pkt s) = 188) :
    (PES.pack { pkt := Pkt_decoded (PES_pkt s), streamid := s.streamid, pesdata := s.pesdata,
                extension_w1 := some w1, extension_w2 := some w2, header_data := some hd }).2 =
      .ok (Pkt_bytes (PES_pkt s)) := by
  have hst : Pkt_stuffing (PES_pkt s) = [] := by simp [Pkt_stuffing, hfull]
  obtain ⟨b', hb', _, heq⟩ := Acra.Lemmas.ReviewC06.PES_reencode_gen s
    { pkt := Pkt_decoded (PES_pkt s), streamid := s.streamid, pesdata := s.pesdata,
      extension_w1 := some w1, extension_w2 := some w2, header_data := some hd }
    h (by omega) rfl rfl (by rw [hst, List.append_nil]) (by rw [he]; rfl)
  rw [hb', heq hst]

/-- **PES re-encode, header-less**: `PES.pack` of the object `PES_roundtrip_partial` decodes to (data followed by the
    stuffing) succeeds with 188 bytes, and reproduces the bytes when the packet was exactly filled -/
theorem PES_reencode_headerless (s : PES) (h : PES_WF s) (hne : PES.ext s = none) (hf : Pkt_used (PES_pkt s) ≤ 188) :
    ∃ b', (PES.pack { pkt := Pkt_decoded (PES_pkt s), streamid := s.streamid,
                      pesdata := s.pesdata ++ List.replicate (188 - Pkt_used (PES_pkt s)) 0xFF,
                      extension_w1 := none, extension_w2 := none, header_data := none }).2 = .ok b' ∧
      b'.length = 188 ∧ (Pkt_used (PES_pkt s) = 188 → b' = Pkt_bytes (PES_pkt s)) := by
  obtain ⟨b', hb', hl, heq⟩ := Acra.Lemmas.ReviewC06.PES_reencode_gen s
    { pkt := Pkt_decoded (PES_pkt s), streamid := s.streamid,
      pesdata := s.pesdata ++ List.replicate (188 - Pkt_used (PES_pkt s)) 0xFF,
      extension_w1 := none, extension_w2 := none, header_data := none }
    h hf rfl rfl rfl (by rw [hne]; rfl)
  exact ⟨b', hb', hl, fun hfull => heq (by simp [Pkt_stuffing, hfull])⟩

end Acra.Props.C06
