import Acra.Lemmas.PES
import Acra.Spec.MPEG
namespace Acra.Props.C06
open Acra.Py Acra.Model.MPEGTS Acra.Model.PES Acra.Gen.PES Acra.Lemmas.MPEGTS Acra.Lemmas.PES

/-- the metadata `STANAG4609.pack` builds is the MISB 0601 layout of the Spec: counter and the two
    undocumented fields, universal key, BER length 14, tag 2 / length 8 / 64-bit time, tag 1 /
    length 2 / MISB checksum over key … checksum-length byte -/
theorem STANAG_data_layout (c u1 u2 tm : Nat) :
    STANAG_data c u1 u2 tm = Spec.MPEG.stanagData c u1 u2 tm := by
  have hp : STANAG_prot tm = Spec.MPEG.uasKey ++ [14, 2, 8] ++ beBytes 8 tm ++ [1, 2] := by
    simp [STANAG_prot, STANAG4609_UNIVERSAL_KEY, Spec.MPEG.uasKey, STANAG4609_LEN, STANAG4609_DATA_TAG,
      STANAG4609_DTAG_LEN, STANAG4609_TIME_TAG, STANAG4609_TTAG_LEN, encInt, beBytes, leBytes]
  unfold STANAG_data Spec.MPEG.stanagData Spec.MPEG.uasLocalSet
  rw [Acra.Lemmas.CRCMpeg.checksum_eq_spec, hp]
  simp [encInt, Spec.MPEG.byte, beBytes, leBytes]

/-- `STANAG4609.pack` is `PES.pack` of the packet with the PID forced to 0x104 and that metadata -/
theorem STANAG_pack_layout (s : STANAG) (h : STANAG_WF s) (hw : PES_WF (STANAG_pes s)) :
    (STANAG.pack s).2 = .ok (Pkt_bytes (PES_pkt (STANAG_pes s))) ∧
    (STANAG_pes s).pesdata = Spec.MPEG.stanagData s.stanag_counter s.unknown s.unknown2 s.time_us ∧
    (STANAG_pes s).pkt.pid = 0x104 := by
  refine ⟨?_, STANAG_data_layout _ _ _ _, rfl⟩
  rw [STANAG_pack_eq s h, PES_pack_eq _ hw]

/-- STANAG.roundtrip without the optional PES header, for ALL 64-bit times, counters and undocumented
    field values, into an object in ANY prior state: every field comes back.
    Preconditions: the metadata ends exactly at byte 188 (the decoder's checksum range is
    `pesdata[5:-2]`, so 0xFF stuffing after the metadata is rejected — E3 in notes/mpeg.md; the
    library's own usage stuffs through the adaptation field) and the K2 heuristic does not fire
    (`¬ looksLikeHeader`: for a header-less packet that is `stanag_counter / 4096 ≠ 8`). -/
theorem STANAG_roundtrip_partial (s t : STANAG) (h : STANAG_WF s) (hw : PES_WF (STANAG_pes s))
    (hs : s.pes.pkt.sync = 0x47) (hafc : s.pes.pkt.adaption_ctrl = 1 ∨ s.pes.pkt.adaption_ctrl = 3)
    (hne : PES.ext s.pes = none) (hfull : Pkt_used (PES_pkt (STANAG_pes s)) = 188)
    (hnl : ¬ looksLikeHeader (STANAG_pes s)) :
    ∃ b, (STANAG.pack s).2 = .ok b ∧ b.length = 188 ∧
      STANAG.unpack t b = (STANAG_decoded s none, .ok ()) ∧
      (STANAG_decoded s none).time_us = s.time_us ∧ (STANAG_decoded s none).stanag_counter = s.stanag_counter ∧
      (STANAG_decoded s none).unknown = s.unknown ∧ (STANAG_decoded s none).unknown2 = s.unknown2 ∧
      (STANAG_decoded s none).pes.pkt.pid = 0x104 := by
  refine ⟨_, (STANAG_pack_layout s h hw).1, ?_, STANAG_unpack_headerless s t h hw hs hafc hne hfull hnl,
    rfl, rfl, rfl, rfl, rfl⟩
  rw [Pkt_bytes_length]; omega

/-- the K2 heuristic through the subclass: a header-less, exactly filled STANAG packet whose counter is
    0x8000 looks like it has an optional header -/
example : looksLikeHeader (STANAG_pes { STANAG.fresh with
    pes := { PES.fresh with pkt := { Pkt.fresh with adaption_ctrl := 3,
                                                    adaption_field := some { AF.fresh with length := 141 } } },
    stanag_counter := 0x8000 }) := by decide +kernel

/-- STANAG.roundtrip with the optional PES header (first flag byte 0x8_): every field comes back -/
theorem STANAG_roundtrip_header (s t : STANAG) (h : STANAG_WF s) (hw : PES_WF (STANAG_pes s))
    (hs : s.pes.pkt.sync = 0x47) (hafc : s.pes.pkt.adaption_ctrl = 1 ∨ s.pes.pkt.adaption_ctrl = 3)
    (w1 w2 : Nat) (hd : Bytes) (he : PES.ext s.pes = some (w1, w2, hd)) (hw1 : w1 / 16 = 8)
    (hfull : Pkt_used (PES_pkt (STANAG_pes s)) = 188) :
    ∃ b, (STANAG.pack s).2 = .ok b ∧ b.length = 188 ∧
      STANAG.unpack t b = (STANAG_decoded s (some (w1, w2, hd)), .ok ()) := by
  refine ⟨_, (STANAG_pack_layout s h hw).1, ?_, STANAG_unpack_header s t h hw hs hafc w1 w2 hd he hw1 hfull⟩
  rw [Pkt_bytes_length]; omega

/-- the packet of the pinned test `test_stanag_create` (adaptation length 133, PTS header, time
    2024-01-25 15:07:59.767139 UTC) satisfies the hypotheses of the header case -/
def stanagExample : STANAG :=
  { STANAG.fresh with
    pes := { PES.fresh with
             pkt := { Pkt.fresh with adaption_ctrl := 3, continuitycounter := 15,
                                     adaption_field := some { AF.fresh with length := 133 } },
             streamid := 0xFC, extension_w1 := some 0x81, extension_w2 := some 0x80,
             header_data := some [0x21, 0x04, 0x03, 0xFE, 0xD1] },
    stanag_counter := 15, time_us := 1706195279767139 }

example : STANAG_WF stanagExample ∧ Pkt_used (PES_pkt (STANAG_pes stanagExample)) = 188 ∧
    PES.ext stanagExample.pes = some (0x81, 0x80, [0x21, 0x04, 0x03, 0xFE, 0xD1]) := by decide +kernel

end Acra.Props.C06
