import Acra.Lemmas.PES
import Acra.Lemmas.ReviewC06
import Acra.Spec.MPEG
namespace Acra.Props.C06
open Acra.Py Acra.Model.MPEGTS Acra.Model.PES Acra.Gen.PES Acra.Lemmas.MPEGTS Acra.Lemmas.PES

/-- the metadata `STANAG4609.pack` builds is the MISB 0601 layout of the Spec: counter and the two
    undocumented fields, universal key, BER length 14, tag 2 / length 8 / 64-bit time, tag 1 /
    length 2 / MISB checksum over key … checksum-length byte -/
theorem STANAG_data_layout (c u1 u2 tm : Nat) :
    STANAG_data c u1 u2 tm = Spec.MPEG.stanagData c u1 u2 tm := by
  have hp : STANAG_prot tm = Spec.MPEG.uasKey ++ [14, 2, 8] ++ beBytes 8 tm ++ [1, 2] := by
    simp [STANAG_prot, STANAG4609_UNIVERSAL_KEY, Spec.MPEG.uasKey, STANAG4609_LEN, STANAG4609_DATA_TAG,
      STANAG4609_DTAG_LEN, STANAG4609_TIME_TAG, STANAG4609_TTAG_LEN, encInt, beBytes, leBytes]
  unfold STANAG_data Spec.MPEG.stanagData Spec.MPEG.uasLocalSet
  rw [Acra.Lemmas.CRCMpeg.checksum_eq_spec, hp]
  simp [encInt, Spec.MPEG.byte, beBytes, leBytes]

/-- `STANAG4609.pack` is `PES.pack` of the packet with the PID forced to 0x104 and that metadata -/
theorem STANAG_pack_layout (s : STANAG) (h : STANAG_WF s) (hw : PES_WF (STANAG_pes s)) :
    (STANAG.pack s).2 = .ok (Pkt_bytes (PES_pkt (STANAG_pes s))) ∧
    (STANAG_pes s).pesdata = Spec.MPEG.stanagData s.stanag_counter s.unknown s.unknown2 s.time_us ∧
    (STANAG_pes s).pkt.pid = 0x104 := by
  refine ⟨?_, STANAG_data_layout _ _ _ _, rfl⟩
  rw [STANAG_pack_eq s h, PES_pack_eq _ hw]

/-- STANAG.roundtrip without the optional PES header, for ALL 64-bit times, counters and undocumented
    field values, into an object in ANY prior state: every field comes back.
    Preconditions: the metadata ends exactly at byte 188 (the decoder's checksum range is
    `pesdata[5:-2]`, so 0xFF stuffing after the metadata is rejected — E3 in notes/mpeg.md; the
    library's own usage stuffs through the adaptation field) and the K2 heuristic does not fire
    (`¬ looksLikeHeader`: for a header-less packet that is `stanag_counter / 4096 ≠ 8`). -/
theorem STANAG_roundtrip_partial (s t : STANAG) (h : STANAG_WF s) (hw : PES_WF (STANAG_pes s))
    (hs : s.pes.pkt.sync = 0x47) (hafc : s.pes.pkt.adaption_ctrl = 1 ∨ s.pes.pkt.adaption_ctrl = 3)
    (hne : PES.ext s.pes = none) (hfull : Pkt_used (PES_pkt (STANAG_pes s)) = 188)
    (hnl : ¬ looksLikeHeader (STANAG_pes s)) :
    ∃ b, (STANAG.pack s).2 = .ok b ∧ b.length = 188 ∧
      STANAG.unpack t b = (STANAG_decoded s none, .ok ()) ∧
      (STANAG_decoded s none).time_us = s.time_us ∧ (STANAG_decoded s none).stanag_counter = s.stanag_counter ∧
      (STANAG_decoded s none).unknown = s.unknown ∧ (STANAG_decoded s none).unknown2 = s.unknown2 ∧
      (STANAG_decoded s none).pes.pkt.pid = 0x104 := by
  refine ⟨_, (STANAG_pack_layout s h hw).1, ?_, STANAG_unpack_headerless s t h hw hs hafc hne hfull hnl,
    rfl, rfl, rfl, rfl, rfl⟩
  rw [Pkt_bytes_length]; omega

/-- the K2 heuristic through the subclass: a header-less, exactly filled STANAG packet whose counter is
    0x8000 looks like it has an optional header -/
example : looksLikeHeader (STANAG_pes { STANAG.fresh with
    pes := { PES.fresh with pkt := { Pkt.fresh with adaption_ctrl := 3,
                                                    adaption_field := some { AF.fresh with length := 141 } } },
    stanag_counter := 0x8000 }) := by decide +kernel

/-- STANAG.roundtrip with the optional PES header (first flag byte 0x8_): every field comes back -/
theorem STANAG_roundtrip_header (s t : STANAG) (h : STANAG_WF s) (hw : PES_WF (STANAG_pes s))
    (hs : s.pes.pkt.sync = 0x47) (hafc : s.pes.pkt.adaption_ctrl = 1 ∨ s.pes.pkt.adaption_ctrl = 3)
    (w1 w2 : Nat) (hd : Bytes) (he : PES.ext s.pes = some (w1, w2, hd)) (hw1 : w1 / 16 = 8)
    (hfull : Pkt_used (PES_pkt (STANAG_pes s)) = 188) :
    ∃ b, (STANAG.pack s).2 = .ok b ∧ b.length = 188 ∧
      STANAG.unpack t b = (STANAG_decoded s (some (w1, w2, hd)), .ok ()) := by
  refine ⟨_, (STANAG_pack_layout s h hw).1, ?_, STANAG_unpack_header s t h hw hs hafc w1 w2 hd he hw1 hfull⟩
  rw [Pkt_bytes_length]; omega

/-- the packet of the pinned test `test_stanag_create` (adaptation length 133, PTS header, time
    2024-01-25 15:07:59.767139 UTC) satisfies the hypotheses of the header case -/
def stanagExample : STANAG :=
  { STANAG.fresh with
    pes := { PES.fresh with
             pkt := { Pkt.fresh with adaption_ctrl := 3, continuitycounter := 15,
                                     adaption_field := some { AF.fresh with length := 133 } },
             streamid := 0xFC, extension_w1 := some 0x81, extension_w2 := some 0x80,
             header_data := some [0x21, 0x04, 0x03, 0xFE, 0xD1] },
    stanag_counter := 15, time_us := 1706195279767139 }

example : STANAG_WF stanagExample ∧ Pkt_used (PES_pkt (STANAG_pes stanagExample)) = 188 ∧
    PES.ext stanagExample.pes = some (0x81, 0x80, [0x21, 0x04, 0x03, 0xFE, 0xD1]) := by decide +kernel

/-! ### review additions: joint witnesses, explicit fields, the excluded input E3 -/

/-- joint witness for `STANAG_pack_layout` and `STANAG_roundtrip_header` (all hypotheses) -/
example : STANAG_WF stanagExample ∧ PES_WF (STANAG_pes stanagExample) ∧ stanagExample.pes.pkt.sync = 0x47 ∧
    (stanagExample.pes.pkt.adaption_ctrl = 1 ∨ stanagExample.pes.pkt.adaption_ctrl = 3) ∧
    PES.ext stanagExample.pes = some (0x81, 0x80, [0x21, 0x04, 0x03, 0xFE, 0xD1]) ∧ 0x81 / 16 = 8 ∧
    Pkt_used (PES_pkt (STANAG_pes stanagExample)) = 188 := by decide +kernel

/-- header-less STANAG packet, the largest 64-bit time, filled exactly through 141 bytes of adaptation stuffing -/
def stanagPlain : STANAG :=
  { STANAG.fresh with
    pes := { PES.fresh with
             pkt := { Pkt.fresh with adaption_ctrl := 3, adaption_field := some { AF.fresh with length := 141 } },
             streamid := 0xFC },
    stanag_counter := 15, time_us := 0xFFFFFFFFFFFFFFFF }

/-- joint witness for `STANAG_roundtrip_partial` (all seven hypotheses) -/
example : STANAG_WF stanagPlain ∧ PES_WF (STANAG_pes stanagPlain) ∧ stanagPlain.pes.pkt.sync = 0x47 ∧
    (stanagPlain.pes.pkt.adaption_ctrl = 1 ∨ stanagPlain.pes.pkt.adaption_ctrl = 3) ∧ PES.ext stanagPlain.pes = none ∧
    Pkt_used (PES_pkt (STANAG_pes stanagPlain)) = 188 ∧ ¬ looksLikeHeader (STANAG_pes stanagPlain) := by decide +kernel

/-- `STANAG_roundtrip_header` states its result through `STANAG_decoded`; field by field: every encoded value comes
    back, the PID is the forced 0x104, the optional PES header comes back, `pesdata` is the 36 metadata bytes -/
theorem STANAG_roundtrip_header_fields (s : STANAG) (w1 w2 : Nat) (hd : Bytes) :
    (STANAG_decoded s (some (w1, w2, hd))).time_us = s.time_us ∧
    (STANAG_decoded s (some (w1, w2, hd))).stanag_counter = s.stanag_counter ∧
    (STANAG_decoded s (some (w1, w2, hd))).unknown = s.unknown ∧ (STANAG_decoded s (some (w1, w2, hd))).unknown2 = s.unknown2 ∧
    (STANAG_decoded s (some (w1, w2, hd))).pes.pkt.pid = 0x104 ∧
    (STANAG_decoded s (some (w1, w2, hd))).pes.streamid = s.pes.streamid ∧
    (STANAG_decoded s (some (w1, w2, hd))).pes.extension_w1 = some w1 ∧
    (STANAG_decoded s (some (w1, w2, hd))).pes.extension_w2 = some w2 ∧
    (STANAG_decoded s (some (w1, w2, hd))).pes.header_data = some hd ∧
    (STANAG_decoded s (some (w1, w2, hd))).pes.pesdata =
      Spec.MPEG.stanagData s.stanag_counter s.unknown s.unknown2 s.time_us :=
  ⟨rfl, rfl, rfl, rfl, rfl, rfl, rfl, rfl, rfl, STANAG_data_layout _ _ _ _⟩

/-- what `hfull` excludes (E3): a STANAG packet with payload-only control — 0xFF stuffing AFTER the metadata — is well
    formed and packs to 188 bytes, but the decoder (checksum range `pesdata[5:-2]`) rejects the library's own encoding -/
example :
    let s : STANAG := { STANAG.fresh with pes := { PES.fresh with pkt := { Pkt.fresh with adaption_ctrl := 1 } } }
    STANAG_WF s ∧ PES_WF (STANAG_pes s) ∧ Pkt_used (PES_pkt (STANAG_pes s)) < 188 ∧
    ((STANAG.pack s).2.toOption.map List.length) = some 188 ∧
    (match (STANAG.unpack STANAG.fresh (Pkt_bytes (PES_pkt (STANAG_pes s)))).2 with | .error .generic => true | _ => false) = true := by
  decide +kernel

/-- **STANAG re-encode**: under the hypotheses of `STANAG_roundtrip_partial` (`w = none`) or
    `STANAG_roundtrip_header` (`w = some (w1, w2, hd)`), `STANAG4609.pack` of the decoded object succeeds and
    reproduces the 188 bytes -/
theorem STANAG_reencode (s : STANAG) (w : Option (Nat × Nat × Bytes)) (h : STANAG_WF s) (hw : PES_WF (STANAG_pes s))
    (hew : PES.ext s.pes = w) (hfull : Pkt_used (PES_pkt (STANAG_pes s)) = 188) :
    (STANAG.pack (STANAG_decoded s w)).2 = .ok (Pkt_bytes (PES_pkt (STANAG_pes s))) :=
  Acra.Lemmas.ReviewC06.STANAG_reencode_gen s w h hw hew hfull

example : PES.ext stanagExample.pes = some (0x81, 0x80, [0x21, 0x04, 0x03, 0xFE, 0xD1]) ∧ PES.ext stanagPlain.pes = none := by
  decide

end Acra.Props.C06
