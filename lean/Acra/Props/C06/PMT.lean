import Acra.Lemmas.PMT
import Acra.Lemmas.ReviewC06
import Acra.Spec.MPEG
namespace Acra.Props.C06
open Acra.Py Acra.Model.MPEGTS Acra.Model.PMT Acra.Gen.PMT Acra.Lemmas.MPEGTS Acra.Lemmas.PMT

theorem Desc_bytes_spec (d : Desc) : Desc_bytes d = Spec.MPEG.descriptor (Desc_tag d) d.data := by
  simp [Desc_bytes, Spec.MPEG.descriptor, encInt, beBytes, leBytes, Spec.MPEG.byte]

theorem Stream_bytes_spec (x : Stream) :
    Stream_bytes x = Spec.MPEG.esEntry x.streamtype x.elementary_pid x.elementary_stream_descriptors := by
  simp [Stream_bytes, Spec.MPEG.esEntry, encInt, beBytes, leBytes, Spec.MPEG.byte, Nat.add_comm]

/-- PMT layout (0..k descriptors and streams): `MPEGPacketPMT.pack` puts pointer field 0 and the ISO
    13818-1 TS_program_map_section into the payload — table id, syntax indicator, '0', reserved 11,
    12-bit section_length = number of bytes after it INCLUDING the CRC, program number, version /
    current-next, section numbers, PCR PID, 12-bit program_info_length = size of the descriptor loop,
    descriptors, streams, and CRC-32/MPEG-2 of the section big-endian after it -/
theorem PMT_pack_layout (s : PMT) (h : PMT_WF s) :
    (PMT.pack s).2 = .ok (Pkt_bytes (PMT_pkt s)) ∧
    (PMT_pkt s).payload = Spec.MPEG.pmtPayload s.tableid s.syntax_indicator s.program_number s.version
      s.current_next_indicator s.sectionNo s.last_section s.pcr_pid
      (s.descriptor_tags.map fun d => (Desc_tag d, d.data))
      (s.streams.map fun x => (x.streamtype, x.elementary_pid, x.elementary_stream_descriptors)) ∧
    (PMT.pack s).1.program_info_len = (s.descriptor_tags.flatMap Desc_bytes).length := by
  refine ⟨by rw [PMT_pack_eq s h], ?_, by rw [PMT_pack_eq s h]; rfl⟩
  show PMT_payload s = _
  have hd : (s.descriptor_tags.map fun d => (Desc_tag d, d.data)).flatMap (fun x => Spec.MPEG.descriptor x.1 x.2)
      = PMT_dbytes s := by
    simp only [List.flatMap_map, PMT_dbytes]
    have : (fun a : Desc => Spec.MPEG.descriptor (Desc_tag a) a.data) = Desc_bytes := funext fun d => (Desc_bytes_spec d).symm
    rw [this]
  have hs : (s.streams.map fun x => (x.streamtype, x.elementary_pid, x.elementary_stream_descriptors)).flatMap
      (fun x => Spec.MPEG.esEntry x.1 x.2.1 x.2.2) = PMT_sbytes s := by
    simp only [List.flatMap_map, PMT_sbytes]
    have : (fun a : Stream => Spec.MPEG.esEntry a.streamtype a.elementary_pid a.elementary_stream_descriptors) = Stream_bytes :=
      funext fun d => (Stream_bytes_spec d).symm
    rw [this]
  unfold Spec.MPEG.pmtPayload Spec.MPEG.pmtSection
  simp only [hd, hs]
  have hlen : 9 + (PMT_dbytes s).length + (PMT_sbytes s).length + 4 = PMT_slen s := by unfold PMT_slen; omega
  rw [hlen, ← Acra.Lemmas.CRCMpeg.crc_eq_spec]
  have hbody : Spec.MPEG.byte s.tableid :: (beBytes 2 (s.syntax_indicator * 32768 + 0x3000 + PMT_slen s) ++ beBytes 2 s.program_number ++
      [Spec.MPEG.byte (0xC0 + s.version * 2 + s.current_next_indicator), Spec.MPEG.byte s.sectionNo, Spec.MPEG.byte s.last_section] ++
      beBytes 2 (0xE000 + s.pcr_pid) ++ beBytes 2 (0xF000 + (PMT_dbytes s).length) ++ PMT_dbytes s ++ PMT_sbytes s) = PMT_body s := by
    simp [PMT_body, PMT_hdr, encInt, beBytes, leBytes, Spec.MPEG.byte]
  rw [hbody]
  simp [PMT_payload, encInt, beBytes, leBytes]

/-- section_length law: the 12-bit field counts exactly the bytes after it, CRC included -/
theorem PMT_section_length_law (s : PMT) :
    (PMT_body s).length + 4 = 3 + PMT_slen s := by
  simp [PMT_body, PMT_hdr, PMT_slen]; omega

/-- PMT.roundtrip (0..k descriptors and streams), into an object in ANY prior state: the decoder
    returns True (CRC verified), every field, descriptor and stream comes back in order,
    `program_info_len` is the size of the descriptor loop, `_crc` is the stored CRC, and re-encoding
    the decoded object reproduces the bytes.  Preconditions: sync byte 0x47, adaptation control 1
    or 3 (a PMT packet needs a payload — a fresh object has control 0, see notes E6), the section
    fits the packet. -/
theorem PMT_roundtrip (s t : PMT) (h : PMT_WF s) (hs : s.pkt.sync = 0x47)
    (hafc : s.pkt.adaption_ctrl = 1 ∨ s.pkt.adaption_ctrl = 3) (hf : Pkt_used (PMT_pkt s) ≤ 188) :
    ∃ b, (PMT.pack s).2 = .ok b ∧ b.length = 188 ∧
      PMT.unpack t b = (PMT_decoded s, .ok true) ∧
      (PMT_decoded s).descriptor_tags = s.descriptor_tags ∧ (PMT_decoded s).streams = s.streams ∧
      (PMT_decoded s).tableid = s.tableid ∧ (PMT_decoded s).syntax_indicator = s.syntax_indicator ∧
      (PMT_decoded s).program_number = s.program_number ∧ (PMT_decoded s).version = s.version ∧
      (PMT_decoded s).current_next_indicator = s.current_next_indicator ∧ (PMT_decoded s).sectionNo = s.sectionNo ∧
      (PMT_decoded s).last_section = s.last_section ∧ (PMT_decoded s).pcr_pid = s.pcr_pid ∧
      (PMT_decoded s).program_info_len = (s.descriptor_tags.flatMap Desc_bytes).length ∧
      (PMT.pack (PMT_decoded s)).2 = .ok b := by
  obtain ⟨hwd, hbd⟩ := PMT_decoded_pack s h hf
  refine ⟨Pkt_bytes (PMT_pkt s), by rw [PMT_pack_eq s h], ?_, PMT_unpack_bytes s t h hs hafc,
    rfl, rfl, rfl, rfl, rfl, rfl, rfl, rfl, rfl, rfl, rfl, ?_⟩
  · rw [Pkt_bytes_length]; omega
  · rw [PMT_pack_eq _ hwd, hbd]

example : PMT_WF { PMT.fresh with
    pkt := { Pkt.fresh with adaption_ctrl := 1 }, program_number := 1, pcr_pid := 0x100,
    descriptor_tags := [{ tag := some 5, data := [1, 2] }],
    streams := [{ streamtype := 0x1B, elementary_pid := 0x100, elementary_stream_descriptors := [] },
                { streamtype := 0x0F, elementary_pid := 0x101, elementary_stream_descriptors := [9, 9, 9] }] } := by
  refine ⟨⟨by decide, by decide, by decide, by decide, by decide, by decide, ?_⟩, by decide, by decide, by decide,
    by decide, by decide, by decide, by decide, by decide, ?_, ?_, by decide⟩
  · intro a ha; simp [Pkt.fresh] at ha
  · intro d hd; simp at hd; subst hd; exact ⟨5, rfl, by decide, by decide⟩
  · intro x hx; simp at hx; rcases hx with rfl | rfl <;> exact ⟨by decide, by decide, by decide⟩

/-! ### review additions: joint witnesses -/

/-- one descriptor, two streams (one with ES descriptors), payload only -/
def pmtExample : PMT :=
  { PMT.fresh with
    pkt := { Pkt.fresh with adaption_ctrl := 1 }, program_number := 1, pcr_pid := 0x100,
    descriptor_tags := [{ tag := some 5, data := [1, 2] }],
    streams := [{ streamtype := 0x1B, elementary_pid := 0x100, elementary_stream_descriptors := [] },
                { streamtype := 0x0F, elementary_pid := 0x101, elementary_stream_descriptors := [9, 9, 9] }] }

/-- joint witness for `PMT_roundtrip` (all four hypotheses) … -/
example : PMT_WF pmtExample ∧ pmtExample.pkt.sync = 0x47 ∧
    (pmtExample.pkt.adaption_ctrl = 1 ∨ pmtExample.pkt.adaption_ctrl = 3) ∧ Pkt_used (PMT_pkt pmtExample) ≤ 188 := by
  decide +kernel

/-- … and for the boundary case of the quantifier: 0 descriptors and 0 streams, behind adaptation stuffing -/
example :
    let s : PMT :=
      { PMT.fresh with
        pkt := { Pkt.fresh with adaption_ctrl := 3, adaption_field := some { AF.fresh with length := 20 } } }
    s.descriptor_tags = [] ∧ s.streams = [] ∧ PMT_WF s ∧ s.pkt.sync = 0x47 ∧
    (s.pkt.adaption_ctrl = 1 ∨ s.pkt.adaption_ctrl = 3) ∧ Pkt_used (PMT_pkt s) ≤ 188 := by
  decide +kernel

/-- what `hafc` excludes (E6): a FRESH `MPEGPacketPMT()` has adaptation control 0; it is well formed and packs, but its
    own encoding cannot be decoded (`struct.error`: no payload is decoded with control 0) -/
example : PMT_WF PMT.fresh ∧ PMT.fresh.pkt.adaption_ctrl = 0 ∧
    (match (PMT.unpack PMT.fresh (Pkt_bytes (PMT_pkt PMT.fresh))).2 with | .error .struct => true | _ => false) = true := by
  decide +kernel

end Acra.Props.C06
