import Acra.Gen.Src.Cls.MPEGAdaptionExtension
import Acra.Model.MPEGTS
import Acra.Lemmas.SrcTieCls
namespace Acra.Props.C06
open Acra Acra.Py Acra.Lemmas.SrcTieCls

/-! Method source ties (C06): `MPEGAdaptionExtension.pack` and `.unpack` as they are written TODAY (regenerated from the
    Python source by `harness/translate_methods.py` on every run) equal the hand-written model `Model.MPEGTS.Ext`, for
    EVERY object and buffer (the class has no int attributes, so there is no domain restriction).  The model is written
    with guards (`if len ≠ 2 ∧ len ≠ 0 then error`), the source with `if / elif / else: raise`; the theorems show the
    two shapes agree, including the object at each of the three raises. -/

theorem src_MPEGAdaptionExtension_pack (o : Gen.Src.Cls.MPEGAdaptionExtension.Obj) :
    (MPEGAdaptionExtension.toModel (Gen.Src.Cls.MPEGAdaptionExtension.pack o).1,
      (Gen.Src.Cls.MPEGAdaptionExtension.pack o).2) = (MPEGAdaptionExtension.toModel o).pack := by
  obtain ⟨f1, f2, f3, l, p, q⟩ := o
  unfold Gen.Src.Cls.MPEGAdaptionExtension.pack Model.MPEGTS.Ext.pack
  simp only [MPEGAdaptionExtension.toModel, Py.len, Gen.MPEGTS.Ext_pack_fmt0, MPEGAdaptionExtension.ext_flags,
    MPEGAdaptionExtension.ext_len, MPEGAdaptionExtension.structPackI_two]
  have e1 : ((l.length : Int) = 2) ↔ (l.length = 2) := by omega
  have e2 : ((l.length : Int) = 0) ↔ (l.length = 0) := by omega
  have e3 : ((p.length : Int) = 3) ↔ (p.length = 3) := by omega
  have e4 : ((p.length : Int) = 0) ↔ (p.length = 0) := by omega
  have e5 : ((q.length : Int) = 5) ↔ (q.length = 5) := by omega
  have e6 : ((q.length : Int) = 0) ↔ (q.length = 0) := by omega
  simp only [e1, e2, e3, e4, e5, e6]
  have hl : l.length = 2 ∨ l.length = 0 ∨ (l.length ≠ 2 ∧ l.length ≠ 0) := by omega
  have hp : p.length = 3 ∨ p.length = 0 ∨ (p.length ≠ 3 ∧ p.length ≠ 0) := by omega
  have hq : q.length = 5 ∨ q.length = 0 ∨ (q.length ≠ 5 ∧ q.length ≠ 0) := by omega
  rcases hl with hl | hl | ⟨hl1, hl2⟩ <;> rcases hp with hp | hp | ⟨hp1, hp2⟩ <;> rcases hq with hq | hq | ⟨hq1, hq2⟩
  all_goals simp [*, MPEGAdaptionExtension.structPackI_lit2]
  all_goals (split <;> simp_all)

example : (Gen.Src.Cls.MPEGAdaptionExtension.pack
    { ltw_flag := false, piecewise_rate_flag := false, seamless_splice_flag := false,
      ltw := [1, 2], piecewise := [], seamless_splice := [1, 2, 3, 4, 5] }).2 = .ok [9, 0xBF, 1, 2, 1, 2, 3, 4, 5] := by
  rfl

/-- `MPEGAdaptionExtension.unpack`, for every prior object and every buffer: the object afterwards, the returned offset
    (as a Python int) and the exceptions are the model's -/
theorem src_MPEGAdaptionExtension_unpack (o : Gen.Src.Cls.MPEGAdaptionExtension.Obj) (buf : Bytes) :
    (MPEGAdaptionExtension.toModel (Gen.Src.Cls.MPEGAdaptionExtension.unpack o buf).1,
      (Gen.Src.Cls.MPEGAdaptionExtension.unpack o buf).2)
      = (((MPEGAdaptionExtension.toModel o).unpack buf).1,
         ((MPEGAdaptionExtension.toModel o).unpack buf).2.map Int.ofNat) := by
  unfold Gen.Src.Cls.MPEGAdaptionExtension.unpack Model.MPEGTS.Ext.unpack
  simp only [Gen.MPEGTS.Ext_unpack_fmt0, structUnpackFromI_eq, toNat_lit, Py.len]
  cases hs : structUnpackFrom ⟨true, [.u8, .u8]⟩ buf 0 with
  | error e => simp [Except.map]
  | ok vs =>
    have hl := structUnpackFrom_vals_length _ _ _ _ hs
    match vs, hl with
    | [len, flags], _ =>
      have g0 : Py.intAt [(len : Int), (flags : Int)] 0 = len := rfl
      have g1 : Py.intAt [(len : Int), (flags : Int)] 1 = flags := rfl
      simp only [Except.map, List.map, Int.ofNat_eq_natCast, g0, g1, MPEGAdaptionExtension.flag_bit7,
        MPEGAdaptionExtension.flag_bit6, MPEGAdaptionExtension.flag_bit5]
      by_cases hlen : buf.length < len
      · have : ((buf.length : Nat) : Int) < (len : Int) := by omega
        simp [hlen, this]
      · have : ¬ ((buf.length : Nat) : Int) < (len : Int) := by omega
        simp only [hlen, this, if_false]
        cases h1 : (flags / 128 % 2 == 1) <;> cases h2 : (flags / 64 % 2 == 1) <;> cases h3 : (flags / 32 % 2 == 1) <;>
          simp [MPEGAdaptionExtension.toModel, Py.sliceI, slice]

end Acra.Props.C06
