import Acra.Lemmas.CRCMpeg
import Acra.Lemmas.MPEGTS
import Acra.Lemmas.MpegFlip
import Acra.Lemmas.ReviewC06
import Acra.Lemmas.ReviewC07
import Acra.Props.C09.Mpeg
namespace Acra.Props.C07
open Acra.Py Acra.Model.MPEGTS Acra.Model.PMT Acra.Model.PES Acra.Lemmas.CRCMpeg

/-! Integrity fields of the MPEG family: the PMT CRC_32 is CRC-32/MPEG-2 and the STANAG 4609 checksum
    is the MISB 0601 running sum, both over the bytes actually emitted; any single-byte (hence any
    single-bit) corruption of the protected bytes changes the value the decoder compares. -/

/-- `crc32mpeg2` (unbounded Python int, masked at the end) is the bit-serial CRC-32/MPEG-2 of
    ISO 13818-1 Annex A: polynomial 0x04C11DB7, initial value 0xFFFFFFFF, MSB first, no reflection,
    no final XOR — for every message -/
theorem crc32mpeg2_std (msg : Bytes) : crc32mpeg2 msg = Spec.MPEG.crc32mpeg2 msg := crc_eq_spec msg

/-- flipping any one bit (indeed changing any one byte) of a message changes its CRC -/
theorem crc32mpeg2_detects_flip (pre suf : Bytes) (a a' : UInt8) (h : a ≠ a') :
    crc32mpeg2 (pre ++ a :: suf) ≠ crc32mpeg2 (pre ++ a' :: suf) := crc_detects_byte pre suf a a' h

/-- `checksum_stanag` is the MISB 0601 checksum (16-bit sum of big-endian 16-bit words, odd tail byte
    in the high half) — for every byte string, including those whose sum carries repeatedly -/
theorem checksum_stanag_std (bs : Bytes) : checksum_stanag bs = Spec.MPEG.misbChecksum bs := checksum_eq_spec bs

/-- changing any one byte of the summed bytes changes the 16-bit sum (a one-bit change alters it by
    ±2^k ≠ 0 mod 2^16) -/
theorem checksum_stanag_detects_flip (pre suf : Bytes) (a a' : UInt8) (h : a ≠ a') :
    checksum_stanag (pre ++ a :: suf) ≠ checksum_stanag (pre ++ a' :: suf) := checksum_detects_byte pre suf a a' h

theorem Pkt_pack_keeps (p : Pkt) (ns : Bool) :
    (Pkt.pack p ns).1.payload = p.payload ∧ (Pkt.pack p ns).1.pid = p.pid := by
  simp only [Pkt.pack]
  repeat' split
  all_goals simp_all

theorem PES_pack_keeps (x : PES) : (PES.pack x).1.pesdata = x.pesdata ∧ (PES.pack x).1.pkt.pid = x.pkt.pid := by
  simp only [PES.pack]
  repeat' split
  all_goals simp [(Pkt_pack_keeps _ _).2]

def STANAG_WF (s : STANAG) : Prop :=
  s.stanag_counter < 65536 ∧ s.unknown < 256 ∧ s.unknown2 < 65536 ∧ s.time_us < 18446744073709551616
instance (s : STANAG) : Decidable (STANAG_WF s) := by unfold STANAG_WF; infer_instance

theorem STANAG_pack_data (s : STANAG) (h : STANAG_WF s) :
    (STANAG.pack s).1.pes.pesdata = Spec.MPEG.stanagData s.stanag_counter s.unknown s.unknown2 s.time_us ∧
    (STANAG.pack s).1.pes.pkt.pid = 0x104 := by
  obtain ⟨h1, h2, h3, h4⟩ := h
  have f0 : Fits Acra.Gen.PES.STANAG_pack_fmt0.codes [s.stanag_counter, s.unknown, s.unknown2] := by
    simp [Fits, Acra.Gen.PES.STANAG_pack_fmt0, Code.bound]; omega
  have f1 : Fits Acra.Gen.PES.STANAG_pack_fmt1.codes [Acra.Gen.PES.STANAG4609_LEN, Acra.Gen.PES.STANAG4609_DATA_TAG, Acra.Gen.PES.STANAG4609_DTAG_LEN] := by
    decide
  have f2 : Fits Acra.Gen.PES.STANAG_pack_fmt2.codes [s.time_us] := by
    simp [Fits, Acra.Gen.PES.STANAG_pack_fmt2, Code.bound]; omega
  have f3 : Fits Acra.Gen.PES.STANAG_pack_fmt3.codes [Acra.Gen.PES.STANAG4609_TIME_TAG, Acra.Gen.PES.STANAG4609_TTAG_LEN] := by
    decide
  unfold STANAG.pack
  simp only [structPack_eq _ _ f0, structPack_eq _ _ f1, structPack_eq _ _ f2, structPack_eq _ _ f3]
  have hD : encCodes Acra.Gen.PES.STANAG_pack_fmt0.big Acra.Gen.PES.STANAG_pack_fmt0.codes [s.stanag_counter, s.unknown, s.unknown2] ++
      Acra.Gen.PES.STANAG4609_UNIVERSAL_KEY ++
      encCodes Acra.Gen.PES.STANAG_pack_fmt1.big Acra.Gen.PES.STANAG_pack_fmt1.codes
        [Acra.Gen.PES.STANAG4609_LEN, Acra.Gen.PES.STANAG4609_DATA_TAG, Acra.Gen.PES.STANAG4609_DTAG_LEN] ++
      encCodes Acra.Gen.PES.STANAG_pack_fmt2.big Acra.Gen.PES.STANAG_pack_fmt2.codes [s.time_us] ++
      encCodes Acra.Gen.PES.STANAG_pack_fmt3.big Acra.Gen.PES.STANAG_pack_fmt3.codes
        [Acra.Gen.PES.STANAG4609_TIME_TAG, Acra.Gen.PES.STANAG4609_TTAG_LEN] =
      (beBytes 2 s.stanag_counter ++ [Spec.MPEG.byte s.unknown] ++ beBytes 2 s.unknown2) ++
        (Spec.MPEG.uasKey ++ [14, 2, 8] ++ beBytes 8 s.time_us ++ [1, 2]) := by
    simp [encCodes, Acra.Gen.PES.STANAG_pack_fmt0, Acra.Gen.PES.STANAG_pack_fmt1, Acra.Gen.PES.STANAG_pack_fmt2,
      Acra.Gen.PES.STANAG_pack_fmt3, Code.size, encInt, Acra.Gen.PES.STANAG4609_UNIVERSAL_KEY, Spec.MPEG.uasKey,
      Acra.Gen.PES.STANAG4609_LEN, Acra.Gen.PES.STANAG4609_DATA_TAG, Acra.Gen.PES.STANAG4609_DTAG_LEN,
      Acra.Gen.PES.STANAG4609_TIME_TAG, Acra.Gen.PES.STANAG4609_TTAG_LEN, beBytes, leBytes, Spec.MPEG.byte]
  rw [hD]
  have hdrop : List.drop Acra.Gen.PES.STANAG4609_UNKNOWN_OFFSET
      ((beBytes 2 s.stanag_counter ++ [Spec.MPEG.byte s.unknown] ++ beBytes 2 s.unknown2) ++
        (Spec.MPEG.uasKey ++ [14, 2, 8] ++ beBytes 8 s.time_us ++ [1, 2])) =
      Spec.MPEG.uasKey ++ [14, 2, 8] ++ beBytes 8 s.time_us ++ [1, 2] :=
    drop_append_len _ _ _ (by simp [Acra.Gen.PES.STANAG4609_UNKNOWN_OFFSET])
  rw [hdrop, checksum_eq_spec]
  have hc : Spec.MPEG.misbChecksum (Spec.MPEG.uasKey ++ [14, 2, 8] ++ beBytes 8 s.time_us ++ [1, 2]) < 65536 := by
    unfold Spec.MPEG.misbChecksum; omega
  have f4 : Fits Acra.Gen.PES.STANAG_pack_fmt4.codes
      [Spec.MPEG.misbChecksum (Spec.MPEG.uasKey ++ [14, 2, 8] ++ beBytes 8 s.time_us ++ [1, 2])] := by
    simp only [Fits, Acra.Gen.PES.STANAG_pack_fmt4, Code.bound, and_true]; exact hc
  simp only [structPack_eq _ _ f4, (PES_pack_keeps _).1, (PES_pack_keeps _).2]
  constructor
  · simp [Spec.MPEG.stanagData, Spec.MPEG.uasLocalSet, encCodes, Acra.Gen.PES.STANAG_pack_fmt4, Code.size, encInt]
  · rfl


/-- **STANAG.checksum_std**: after `pack`, the PES data is the 5 bytes (counter, two undocumented
    fields) followed by the MISB 0601 local set — universal key, BER length 14, tag 2 / length 8 /
    64-bit time, tag 1 / length 2 / checksum — whose checksum is the MISB sum of exactly the bytes from
    the key up to and including the checksum's length byte; the PID is forced to 0x104 -/
theorem STANAG_checksum_std (s : STANAG) (h : STANAG_WF s) :
    ∃ prot, (STANAG.pack s).1.pes.pesdata =
        (beBytes 2 s.stanag_counter ++ [Spec.MPEG.byte s.unknown] ++ beBytes 2 s.unknown2) ++ prot ++
          beBytes 2 (Spec.MPEG.misbChecksum prot) ∧
      prot = Spec.MPEG.uasKey ++ [14, 2, 8] ++ beBytes 8 s.time_us ++ [1, 2] ∧ prot.length = 29 := by
  refine ⟨_, ?_, rfl, by simp [Spec.MPEG.uasKey]⟩
  rw [(STANAG_pack_data s h).1]
  simp [Spec.MPEG.stanagData, Spec.MPEG.uasLocalSet]

example : STANAG_WF { STANAG.fresh with stanag_counter := 15, time_us := 1706195279767139 } := by decide

/-- **PMT.crc_std**: whenever `MPEGPacketPMT.pack` succeeds, the payload it builds is the pointer
    field 0, the section, and the CRC-32/MPEG-2 of exactly the section bytes, big-endian -/
theorem PMT_crc_std (s : PMT) (b : Bytes) (h : (PMT.pack s).2 = .ok b) :
    ∃ sect, (PMT.pack s).1.pkt.payload = 0 :: (sect ++ beBytes 4 (Spec.MPEG.crc32mpeg2 sect)) := by
  have hp := Acra.Lemmas.MPEGTS.pack_u8 Acra.Gen.PMT.PMT_FMT_POINTER rfl 0 (by omega)
  revert h
  unfold PMT.pack
  simp only [hp]
  split
  next e he => simp
  next hdr hhdr =>
    split
    next e he => simp
    next db hdb =>
      split
      next e he => simp
      next sb hsb =>
        have hlt : crc32mpeg2 (hdr ++ db ++ sb) < 4294967296 := by unfold crc32mpeg2; omega
        have hfit : Fits Acra.Gen.PMT.PMT_pack_fmt0.codes [crc32mpeg2 (hdr ++ db ++ sb)] := by
          simp only [Fits, Acra.Gen.PMT.PMT_pack_fmt0, Code.bound, and_true]; exact hlt
        simp only [structPack_eq _ _ hfit]
        intro _
        refine ⟨hdr ++ db ++ sb, ?_⟩
        rw [(Pkt_pack_keeps _ _).1]
        simp [encCodes, Acra.Gen.PMT.PMT_pack_fmt0, Code.size, encInt, crc32mpeg2_std, beBytes, leBytes]

theorem slice_one_changed (pre suf : Bytes) (a : UInt8) (lo hi : Nat) (h1 : lo ≤ pre.length) (h2 : pre.length < hi) :
    slice (pre ++ a :: suf) lo hi = List.drop lo pre ++ a :: List.take (hi - pre.length - 1) suf := by
  obtain ⟨k, hk⟩ : ∃ k, hi - pre.length = k + 1 := ⟨hi - pre.length - 1, by omega⟩
  have hk' : hi - pre.length - 1 = k := by omega
  simp only [slice]
  rw [List.take_append, hk', hk]
  have : List.take hi pre = pre := List.take_of_length_le (by omega)
  rw [this, List.take_succ_cons, List.drop_append_of_le_length h1]

theorem slice_after_changed (pre suf : Bytes) (a : UInt8) (lo hi : Nat) (h : pre.length < lo) (hh : pre.length < hi) :
    slice (pre ++ a :: suf) lo hi = slice suf (lo - pre.length - 1) (hi - pre.length - 1) := by
  obtain ⟨k, hk⟩ : ∃ k, hi - pre.length = k + 1 := ⟨hi - pre.length - 1, by omega⟩
  have hk' : hi - pre.length - 1 = k := by omega
  obtain ⟨m, hm⟩ : ∃ m, lo - pre.length = m + 1 := ⟨lo - pre.length - 1, by omega⟩
  have hm' : lo - pre.length - 1 = m := by omega
  simp only [slice]
  rw [List.take_append, hk', hm', hk]
  have : List.take hi pre = pre := List.take_of_length_le (by omega)
  rw [this, List.take_succ_cons, List.drop_append]
  have : List.drop lo pre = [] := List.drop_eq_nil_of_le (by omega)
  rw [this, List.nil_append, hm, List.drop_succ_cons]

/-- STANAG.detects_flip at the level of the decoded PES data (stepping stone for
    `STANAG_detects_flip` in MpegFlip.lean, which is stated on the 188-byte buffer): if a 36-byte
    metadata block is accepted, the block that differs from it in exactly one byte of `[5, 36)` — the
    checksummed region (key, BER length, tags, lengths, time) or the stored checksum — is rejected -/
theorem STANAG_detects_flip_pesdata (t : STANAG) (buf buf' : Bytes) (p p' : PES) (pre suf : Bytes) (a a' : UInt8)
    (hp : PES.unpack t.pes buf = (p, .ok ())) (hp' : PES.unpack t.pes buf' = (p', .ok ()))
    (hd : p.pesdata = pre ++ a :: suf) (hd' : p'.pesdata = pre ++ a' :: suf) (hne : a ≠ a')
    (hlen : (pre ++ a :: suf).length = 36) (hpos : 5 ≤ pre.length ∧ pre.length < 36)
    (hok : (STANAG.unpack t buf).2 = .ok ()) : (STANAG.unpack t buf').2 ≠ .ok () := by
  intro hok'
  have h1 := (Acra.Props.C09.STANAG_accepts_iff t buf p hp).mp hok
  have h2 := (Acra.Props.C09.STANAG_accepts_iff t buf' p' hp').mp hok'
  rw [hd] at h1
  rw [hd'] at h2
  have hlen' : (pre ++ a' :: suf).length = 36 := by simpa using hlen
  obtain ⟨_, _, _, _, _, c1⟩ := h1
  obtain ⟨_, _, _, _, _, c2⟩ := h2
  rw [hlen] at c1
  rw [hlen'] at c2
  by_cases hin : pre.length < 34
  · rw [slice_one_changed pre suf a 5 (36 - 2) hpos.1 (by omega), slice_after_changed pre suf a 34 36 (by omega) (by omega)] at c1
    rw [slice_one_changed pre suf a' 5 (36 - 2) hpos.1 (by omega), slice_after_changed pre suf a' 34 36 (by omega) (by omega)] at c2
    exact checksum_detects_byte _ _ a a' hne (c1.trans c2.symm)
  · rw [slice_append_left pre (a :: suf) (by omega), slice_one_changed pre suf a 34 36 (by omega) hpos.2] at c1
    rw [slice_append_left pre (a' :: suf) (by omega), slice_one_changed pre suf a' 34 36 (by omega) hpos.2] at c2
    have e := c1.symm.trans c2
    simp only [decInt, if_true] at e
    have := Acra.Lemmas.MpegFlip.beNat_inj _ _ (by simp) e
    simp at this
    exact hne this

/-! ### review additions: the two integrity fields located in the BYTES `pack` emits; witnesses -/

/-- the Spec CRC at the catalogue's check value: CRC-32/MPEG-2 of "123456789" is 0x0376E6E7 -/
theorem crc32mpeg2_check_value :
    Spec.MPEG.crc32mpeg2 [0x31, 0x32, 0x33, 0x34, 0x35, 0x36, 0x37, 0x38, 0x39] = 0x0376E6E7 := by decide +kernel

/-- **PMT.crc_std on the emitted bytes**: the buffer `MPEGPacketPMT.pack` returns is `pre ++ sect ++ crc ++ post` with
    `pre` = TS header, adaptation bytes and pointer field 0 (`PMT_secOff s` bytes), `crc` = CRC-32/MPEG-2 of exactly
    `sect`, big-endian, `post` = 0xFF stuffing; and `sect` followed by the CRC is a whole section by its own
    `section_length` field (3 bytes up to and including the field + `section_length` bytes).
    (`PMT_crc_std` says this of the object's `payload` attribute after `pack`, not of the returned bytes.) -/
theorem PMT_crc_std_bytes (s : PMT) (h : Acra.Lemmas.PMT.PMT_WF s) :
    ∃ pre sect post, (PMT.pack s).2 = .ok (pre ++ (sect ++ (beBytes 4 (Spec.MPEG.crc32mpeg2 sect) ++ post))) ∧
      pre.length = Acra.Lemmas.MpegFlip.PMT_secOff s ∧ pre.getLast? = some 0 ∧
      ((sect.getD 1 0).toNat * 256 + (sect.getD 2 0).toNat) % 4096 + 3 = sect.length + 4 ∧
      post = List.replicate (188 - Acra.Lemmas.MPEGTS.Pkt_used (Acra.Lemmas.PMT.PMT_pkt s)) 0xFF :=
  ⟨_, _, _, Acra.Lemmas.ReviewC07.PMT_pack_bytes s h,
    by simp [Acra.Lemmas.MpegFlip.PMT_secOff]; omega, by simp,
    Acra.Lemmas.ReviewC07.PMT_body_section_length s h, rfl⟩

/-- one descriptor, two streams (one with ES descriptors) -/
def pmtCrcExample : PMT :=
  { PMT.fresh with
    pkt := { Pkt.fresh with pid := 0x100, adaption_ctrl := 1 }, tableid := 2, program_number := 1, pcr_pid := 0x101,
    descriptor_tags := [{ tag := some 5, data := [1, 2, 3] }],
    streams := [{ streamtype := 0x1B, elementary_pid := 0x101, elementary_stream_descriptors := [] },
                { streamtype := 0x06, elementary_pid := 0x104, elementary_stream_descriptors := [9, 9] }] }

/-- witness for `PMT_crc_std_bytes` and for the hypothesis of `PMT_crc_std` -/
example : Acra.Lemmas.PMT.PMT_WF pmtCrcExample ∧
    (PMT.pack pmtCrcExample).2 = .ok (Acra.Lemmas.MPEGTS.Pkt_bytes (Acra.Lemmas.PMT.PMT_pkt pmtCrcExample)) :=
  ⟨by decide +kernel, by rw [Acra.Lemmas.PMT.PMT_pack_eq _ (by decide +kernel)]⟩

/-- **STANAG.checksum_std on the emitted bytes**: the buffer `STANAG4609.pack` returns is
    `pre ++ prot ++ cks ++ post` with `prot` = the 29 bytes universal key, BER length 14, tag 2 / length 8 / 64-bit time,
    tag 1 / length 2; `cks` = the MISB 0601 sum of exactly `prot`, big-endian; `post` = 0xFF stuffing; `pre` ends 31 bytes
    before the end of the used part of the packet — offset 157 in an exactly filled packet, the only kind the decoder
    accepts.  (`STANAG_checksum_std` says this of the object's `pesdata` attribute after `pack`.) -/
theorem STANAG_checksum_std_bytes (s : STANAG) (h : STANAG_WF s) (hw : Acra.Lemmas.PES.PES_WF (Acra.Lemmas.PES.STANAG_pes s)) :
    ∃ pre prot post, (STANAG.pack s).2 = .ok (pre ++ (prot ++ (beBytes 2 (Spec.MPEG.misbChecksum prot) ++ post))) ∧
      prot = Spec.MPEG.uasKey ++ [14, 2, 8] ++ beBytes 8 s.time_us ++ [1, 2] ∧ prot.length = 29 ∧
      pre.length + 31 = Acra.Lemmas.MPEGTS.Pkt_used (Acra.Lemmas.PES.PES_pkt (Acra.Lemmas.PES.STANAG_pes s)) ∧
      (Acra.Lemmas.MPEGTS.Pkt_used (Acra.Lemmas.PES.PES_pkt (Acra.Lemmas.PES.STANAG_pes s)) = 188 → pre.length = 157 ∧ post = []) :=
  ⟨_, _, _, Acra.Lemmas.ReviewC07.STANAG_pack_bytes s h hw, rfl, Acra.Lemmas.ReviewC07.stanagProt_length _,
    Acra.Lemmas.ReviewC07.STANAG_front_length s,
    fun hfull => ⟨by have := Acra.Lemmas.ReviewC07.STANAG_front_length s; omega, by simp [hfull]⟩⟩

/-- witness: the packet of the pinned test, exactly filled -/
def stanagCksExample : STANAG :=
  { STANAG.fresh with
    pes := { PES.fresh with
             pkt := { Pkt.fresh with adaption_ctrl := 3, continuitycounter := 15,
                                     adaption_field := some { AF.fresh with length := 133 } },
             streamid := 0xFC, extension_w1 := some 0x81, extension_w2 := some 0x80,
             header_data := some [0x21, 0x04, 0x03, 0xFE, 0xD1] },
    stanag_counter := 15, time_us := 1706195279767139 }

example : STANAG_WF stanagCksExample ∧ Acra.Lemmas.PES.PES_WF (Acra.Lemmas.PES.STANAG_pes stanagCksExample) ∧
    Acra.Lemmas.MPEGTS.Pkt_used (Acra.Lemmas.PES.PES_pkt (Acra.Lemmas.PES.STANAG_pes stanagCksExample)) = 188 := by
  decide +kernel

end Acra.Props.C07
