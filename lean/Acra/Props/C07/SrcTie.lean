import Acra.Gen.Src.SimpleEthernet
import Acra.Gen.Src.PES
import Acra.Gen.Src.Chapter11
import Acra.Model.Net
import Acra.Model.PES
import Acra.Model.Ch11
import Acra.Lemmas.SrcTie
namespace Acra.Props.C07
open Acra Acra.Py Acra.Lemmas.SrcTie

/-! Source ties (C07): the definitions of `Acra.Gen.Src.*` are regenerated from the CURRENT Python source by
    `harness/translate.py` on every run; each theorem says that the regenerated definition equals the hand-written
    model function, for every input of the stated domain.  Results are compared as Python ints (`Int`). -/

/-- `ones_comp_add16` as written today = the model, for all non-negative operands.
    (For negative operands the Python function is also defined — `%` is the floor remainder — but the model, and
    every caller, only has 16-bit words.) -/
theorem src_ones_comp_add16 (a b : Nat) :
    Gen.Src.SimpleEthernet.ones_comp_add16 a b = (Model.Net.onesCompAdd16 a b : Int) := by
  unfold Gen.Src.SimpleEthernet.ones_comp_add16 Model.Net.onesCompAdd16
  have hM : Gen.Src.SimpleEthernet.MOD = 65536 := by decide
  have hm : Gen.Net.IGMP_MOD = 65536 := rfl
  simp only [hM, hm]
  rw [pymod_of_pos _ _ (by decide)]
  split <;> split <;> omega

end Acra.Props.C07
