import Acra.Gen.Src.SimpleEthernet
import Acra.Gen.Src.PES
import Acra.Gen.Src.Chapter11
import Acra.Gen.Src.PMT
import Acra.Model.PMT
import Acra.Model.Net
import Acra.Model.PES
import Acra.Model.Ch11
import Acra.Lemmas.SrcTie
import Acra.Lemmas.SrcTieNorm
set_option linter.unusedSimpArgs false
namespace Acra.Props.C07
open Acra Acra.Py Acra.Lemmas.SrcTie Acra.Lemmas.SrcTieNorm

/-! Source ties (C07): the definitions of `Acra.Gen.Src.*` are regenerated from the CURRENT Python source by
    `harness/translate.py` on every run; each theorem says that the regenerated definition equals the hand-written
    model function, for every input of the stated domain.  Results are compared as Python ints (`Int`). -/

/-- `ones_comp_add16` as written today = the model, for all non-negative operands.
    (For negative operands the Python function is also defined — `%` is the floor remainder — but the model, and
    every caller, only has 16-bit words.) -/
theorem src_ones_comp_add16 (a b : Nat) :
    Gen.Src.SimpleEthernet.ones_comp_add16 a b = (Model.Net.onesCompAdd16 a b : Int) := by
  unfold Gen.Src.SimpleEthernet.ones_comp_add16 Model.Net.onesCompAdd16
  have hM : Gen.Src.SimpleEthernet.MOD = 65536 := by decide
  have hm : Gen.Net.IGMP_MOD = 65536 := rfl
  simp only [hM, hm]
  rw [pymod_of_pos _ _ (by decide)]
  split <;> split <;> omega

/-- `checksum_stanag` as written today = the model, for every byte string -/
theorem src_checksum_stanag (buff : Bytes) :
    Gen.Src.PES.checksum_stanag buff = (Model.PES.checksum_stanag buff : Int) := by
  unfold Gen.Src.PES.checksum_stanag Model.PES.checksum_stanag
  have h := stanag_fold [] buff 0
  simp only [List.nil_append, List.length_nil, Int.zero_add] at h
  -- a `sum(… for i in range(len(buff)))` is the same fold as the accumulating `for` loop
  try simp only [Py.sum, List.foldl_map]
  simp only [Py.len, range_eq, h]
  exact pymod_natCast_lit _ _

/-- `ip_calc_checksum` as written today = the model, for every byte string (result and exception alike) -/
theorem src_ip_calc_checksum (pkt : Bytes) :
    Gen.Src.SimpleEthernet.ip_calc_checksum pkt = (Model.Net.ipCalcChecksum pkt).map Int.ofNat := by
  unfold Gen.Src.SimpleEthernet.ip_calc_checksum Model.Net.ipCalcChecksum
  -- the padding test, in whatever form it is written (`% 2 == 1`, `& 1`, …): decided from the parity of the length
  have hpad : ∀ (c : Prop) [Decidable c], (c ↔ pkt.length % 2 = 1) →
      (if c then pkt ++ ([0] : Bytes) else pkt) = (if (pkt.length % 2 == 1) = true then pkt ++ [0] else pkt) := by
    intro c _ h; exact ite_iff (h.trans (by simp)) _ _
  rw [hpad _ (by simp only [Py.len, pymod_natCast_lit, band_natCast_lit, and_1]; omega)]
  generalize (if (pkt.length % 2 == 1) = true then pkt ++ [0] else pkt) = p
  -- the word count (`// 2`, `>> 1`, …)
  simp only [Py.len, floordiv_natCast_lit, shr_natCast, toNat_lit, Int.toNat_natCast, shr_div, Nat.pow_one,
    structUnpackI_eq, Gen.Net.ipcs_fmt0]
  cases structUnpack ⟨false, List.replicate (p.length / 2) Code.u16⟩ p with
  | error e => rfl
  | ok ws =>
    -- the folding arithmetic: everything to `/` and `%` by literals, then linear arithmetic decides
    simp only [Except.map, bind, Except.bind, sum_natCast, shr_natCast, band_natCast_lit, toNat_lit]
    simp only [← Int.natCast_add, shr_natCast, band_natCast_lit, band_inv_natCast_lit, toNat_lit]
    refine congrArg Except.ok (congrArg Int.ofNat ?_)
    try simp only [and_ffff, shr_div, Nat.reducePow]
    all_goals omega

/-- `get_checksum_buf` (Chapter 10 header checksum) as written today = the model, for every byte string:
    the odd-length `Exception`, the `TypeError` of `reduce` on the empty buffer, and the sum -/
theorem src_get_checksum_buf (buf : Bytes) :
    Gen.Src.Chapter11.get_checksum_buf buf = (Model.Ch11.getChecksumBuf buf).map Int.ofNat := by
  unfold Gen.Src.Chapter11.get_checksum_buf Model.Ch11.getChecksumBuf
  unfold_src_helpers          -- a private helper the summation may have been moved into
  have hc : (pymod (Py.len buf) 2 ≠ 0) ↔ (buf.length % 2 ≠ 0) := by
    simp only [Py.len, pymod_natCast_lit]; omega
  have hn : Int.toNat (floordiv (Py.len buf) 2) = buf.length / 2 := by
    simp only [Py.len, floordiv_natCast_lit]; rfl
  simp only [hc, hn, structUnpackI_eq, Gen.Ch11.cksum_buf_fmt0]
  split
  · rfl
  · cases structUnpack ⟨false, List.replicate (buf.length / 2) Code.u16⟩ buf with
    | error e => rfl
    | ok ws =>
      cases ws with
      | nil => rfl
      | cons w ws =>
        simp only [Except.map, bind, Except.bind, reduce_add_natCast, pymod_natCast_lit]
        rfl

/-- `get_checksum_byte_buf` (secondary header checksum) as written today = the model, for every byte string -/
theorem src_get_checksum_byte_buf (buf : Bytes) :
    Gen.Src.Chapter11.get_checksum_byte_buf buf = (Model.Ch11.getChecksumByteBuf buf).map Int.ofNat := by
  unfold Gen.Src.Chapter11.get_checksum_byte_buf Model.Ch11.getChecksumByteBuf
  unfold_src_helpers
  have hn : Int.toNat (Py.len buf) = buf.length := rfl
  simp only [hn, structUnpackI_eq, Gen.Ch11.cksum_byte_buf_fmt0]
  cases structUnpack ⟨false, List.replicate buf.length Code.u8⟩ buf with
  | error e => rfl
  | ok ws =>
    cases ws with
    | nil => rfl
    | cons w ws =>
      simp only [Except.map, bind, Except.bind, reduce_add_natCast, pymod_natCast_lit]
      rfl

/-- `crc32mpeg2` (PMT section CRC) as written today = the model, for every byte string: the register is an
    unbounded Python int that is masked once at the end -/
theorem src_crc32mpeg2 (msg : Bytes) :
    Gen.Src.PMT.crc32mpeg2 msg = (Model.PMT.crc32mpeg2 msg : Int) := by
  unfold Gen.Src.PMT.crc32mpeg2 Model.PMT.crc32mpeg2 Py.bytesInts
  have h := foldl_natCast
    (fun (crc : Int) (b : Int) =>
      List.foldl (fun (crc : Int) (_ : Int) =>
        if band crc 2147483648 ≠ 0 then bxor (shl crc 1) 79764919 else shl crc 1) (bxor crc (shl b 24)) (Py.range 8))
    Model.PMT.crcByte (fun (x : UInt8) => ((x.toNat : Nat) : Int)) crcByte_tie msg 4294967295
  rw [show (((4294967295 : Nat) : Nat) : Int) = (4294967295 : Int) from rfl] at h
  simp only [h, band_natCast_lit]
  rw [and_low _ 4294967295 32 (by decide)]

end Acra.Props.C07
