import Acra.Props.C07.Net
namespace Acra.Props.C07
open Acra.Py Acra.Model.Net Acra.Gen.Net Acra.Lemmas.Net Acra.Lemmas.Sum16

/-! `IPv4_verify_zero` (Props/C07/Net.lean) runs the MODEL's `ip_calc_checksum` over the emitted header — model
    function on model output (rev1 C07 item 4 / B7).  Here the receiver's check is restated against the independent
    `Spec.rfc1071` (big-endian 16-bit words, end-around carry, complement): over the 20 header bytes `pack` emits,
    checksum field included, the one's-complement sum is 0xFFFF, i.e. `Spec.rfc1071` gives 0 — what RFC 1071 §1 / RFC 791
    ask a receiver to verify.  The bridge is byte-order independence (`Lemmas.Sum16.swap16_code_value`). -/

/-- for EVERY buffer shorter than 128 KiB the code's verifier (little-endian words, two folds, complement) answers 0
    exactly when the RFC 1071 checksum of the buffer is 0 -/
theorem verify_code_iff_std (bs : Bytes) (h : bs.length < 131072) :
    ipCalcChecksum bs = .ok 0 ↔ Spec.rfc1071 bs = 0 := by
  rw [ipCalcChecksum_eq, ← swap16_code_value bs h]
  have hle : 65535 - sumFold (wordsLE bs).sum ≤ 65535 := by omega
  generalize 65535 - sumFold (wordsLE bs).sum = v at hle
  constructor
  · intro e
    injection e with e
    subst e
    rfl
  · intro e
    have : v = 0 := by unfold swap16 at e; omega
    rw [this]

/-- non-vacuity, both directions: the 20-byte header of `ipExample` verifies, the same header with one bit of the TTL
    flipped does not -/
example :
    ((IP.pack ipExample).2.toOption.map fun b => (Spec.rfc1071 (b.take 20), (ipCalcChecksum (b.take 20)).toOption)) = some (0, some 0) ∧
    ((IP.pack ipExample).2.toOption.map fun b =>
      (Spec.rfc1071 ((b.take 20).set 8 0xFE), (ipCalcChecksum ((b.take 20).set 8 0xFE)).toOption)) = some (256, some 1) := by
  decide +kernel

/-- **IPv4 verification against the standard algorithm**: the RFC 1071 checksum of the 20 header bytes `pack` emits
    (checksum field in place) is 0; equivalently their one's-complement sum is 0xFFFF -/
theorem IPv4_verify_zero_std (s : IP) (src dst : Nat) (h : IP_WF s src dst) :
    ∃ b, (IP.pack s).2 = .ok b ∧ Spec.rfc1071 (b.take 20) = 0 ∧
      (Spec.wordsBE (b.take 20)).foldl Spec.onesAdd 0 = 0xFFFF := by
  obtain ⟨b, hb, hv⟩ := IPv4_verify_zero s src dst h
  have hlen : (b.take 20).length < 131072 := by
    have : (b.take 20).length ≤ 20 := List.length_take_le 20 b
    omega
  have h0 := (verify_code_iff_std _ hlen).mp hv
  refine ⟨b, hb, h0, ?_⟩
  have hfold : (Spec.wordsBE (b.take 20)).foldl Spec.onesAdd 0 ≤ 65535 := by
    rw [foldl_onesAdd _ 0 (by omega) (wordsBE_le _)]
    exact norm_le _
  unfold Spec.rfc1071 at h0
  omega

/-- witness: `ipExample` (identification 0xFFFF, TTL 255, flags 2: the word sum carries) is well formed -/
example : IP_WF ipExample 0xC0A80001 0xEFFFFFFF := by unfold IP_WF; decide

end Acra.Props.C07
