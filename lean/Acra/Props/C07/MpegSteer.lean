import Acra.Lemmas.MpegSteer
import Acra.Lemmas.ReviewC06
import Acra.Props.C07.MpegFlip
namespace Acra.Props.C07
open Acra.Py Acra.Model.MPEGTS Acra.Model.PMT Acra.Model.PES Acra.Lemmas.MPEGTS Acra.Lemmas.PMT
open Acra.Lemmas.MpegFlip Acra.Lemmas.MpegSteer

/-! The PMT steering bits (rev1 C07 item 1 / B2).  `PMT_detects_flip_partial` (Props/C07/MpegFlip.lean, kept) excludes
    the 12 bits of `section_length` and the 12 bits of `program_info_length`, because they steer the parse.  Here:

    * **`program_info_length` (12 bits): detection holds unconditionally** — `PMT_detects_pil_flip`.  With the
      existing theorem this leaves only the 12 `section_length` bits: `PMT_detects_flip_slen_partial`,
      `PMT_detects_bitflip_slen_partial`.
    * **`section_length` (12 bits): the FULL statement is false** of the model and of the code — kernel-checked witness
      `pmtSlenForged` below (one bit of `section_length` flipped, `unpack` returns True).  What holds, for EVERY
      corrupted value: if the decoder returns at all, it returns the comparison at the moved position,
      `steerCoincides` (Lemmas/MpegSteer.lean) — "the last four bytes of `payload[13+pil : L'+4]`, big-endian, equal
      CRC-32/MPEG-2 of `payload[1 : L']`" — so a flip is detected (False or an exception) unless that 32-bit
      coincidence holds: `PMT_slen_flip_unless`.  Decidable sufficient conditions: the coincidence itself is a Boolean
      function of the bytes (`PMT_slen_flip_detected`), and — CRC-free — every corrupted value below
      `13 + program_info_length` is detected (`PMT_slen_flip_short_detected`).
    * `PMT_steered_result`: the same for ANY section bytes in the packet frame (both fields arbitrary). -/

/-- whatever twelve-or-more section bytes `P` follow the header, adaptation bytes and pointer field of a packed PMT
    packet: if `MPEGPacketPMT.unpack` returns a value it is `steerCoincides P section_length program_info_length` -/
theorem PMT_steered_result (s t : PMT) (h : PMT_WF s) (hs : s.pkt.sync = 0x47)
    (hafc : s.pkt.adaption_ctrl = 1 ∨ s.pkt.adaption_ctrl = 3) (P : Bytes) (hP : 12 ≤ P.length) (b : Bool)
    (hb : (PMT.unpack t ((Pkt_hdr (PMT_pkt s) ++ Pkt_af (PMT_pkt s) ++ [0]) ++ P)).2 = .ok b) :
    b = steerCoincides P (fieldL P) (fieldPil P) :=
  PMT_any_section s t h hs hafc P hP b hb

/-- **PMT.detects_flip, `program_info_length`**: `buf` is what `pack` emits; `buf'` differs from it in section byte 10
    or 11 (ANY other value of that byte: all 12 length bits, and the reserved high nibble of byte 10).  The decoder —
    into an object in any prior state — accepts `buf` and does not return True on `buf'` (False, or an exception when
    the moved loop boundary mis-frames a loop). -/
theorem PMT_detects_pil_flip (s t : PMT) (h : PMT_WF s) (hs : s.pkt.sync = 0x47)
    (hafc : s.pkt.adaption_ctrl = 1 ∨ s.pkt.adaption_ctrl = 3)
    (pre suf : Bytes) (a a' : UInt8) (hbuf : Pkt_bytes (PMT_pkt s) = pre ++ a :: suf) (hne : a ≠ a')
    (hpos : pre.length = PMT_secOff s + 10 ∨ pre.length = PMT_secOff s + 11) :
    (PMT.pack s).2 = .ok (pre ++ a :: suf) ∧
    (PMT.unpack t (pre ++ a :: suf)).2 = .ok true ∧
    (PMT.unpack t (pre ++ a' :: suf)).2 ≠ .ok true ∧
    (∀ b, (PMT.unpack t (pre ++ a' :: suf)).2 = .ok b → b = false) := by
  have hr := PMT_pil_byte_rejected s t h hs hafc pre suf a a' hbuf hne hpos
  refine ⟨by rw [PMT_pack_eq s h, hbuf], by rw [← hbuf, PMT_unpack_bytes s t h hs hafc], ?_, hr⟩
  intro c
  exact absurd (hr true c) (by decide)

/-- witness (all hypotheses): the example packet cut at packet byte 16 = section byte 11 (`program_info_length` low
    byte, 5), replaced by 4 and by 0xFF -/
example :
    let buf := Pkt_bytes (PMT_pkt pmtFlipExample)
    let pre := buf.take 16; let suf := buf.drop 17
    PMT_WF pmtFlipExample ∧ pmtFlipExample.pkt.sync = 0x47 ∧
    (pmtFlipExample.pkt.adaption_ctrl = 1 ∨ pmtFlipExample.pkt.adaption_ctrl = 3) ∧
    buf = pre ++ (5 : UInt8) :: suf ∧ (5 : UInt8) ≠ 4 ∧ (5 : UInt8) ≠ 0xFF ∧
    (pre.length = PMT_secOff pmtFlipExample + 10 ∨ pre.length = PMT_secOff pmtFlipExample + 11) := by
  decide +kernel

/-- **PMT.detects_flip, everything but `section_length`** (partial: only the 12 bits of `section_length` — low
    nibble of section byte 1, section byte 2 — remain excluded; for them see `PMT_slen_flip_unless` and the witness
    `pmtSlenForged`).  One changed byte anywhere from `table_id` to the last CRC byte. -/
theorem PMT_detects_flip_slen_partial (s t : PMT) (h : PMT_WF s) (hs : s.pkt.sync = 0x47)
    (hafc : s.pkt.adaption_ctrl = 1 ∨ s.pkt.adaption_ctrl = 3)
    (pre suf : Bytes) (a a' : UInt8) (hbuf : Pkt_bytes (PMT_pkt s) = pre ++ a :: suf) (hne : a ≠ a')
    (hlo : PMT_secOff s ≤ pre.length) (hhi : pre.length < PMT_secOff s + PMT_slen s + 3)
    (h2 : pre.length ≠ PMT_secOff s + 2)
    (h1 : pre.length = PMT_secOff s + 1 → a.toNat % 16 = a'.toNat % 16) :
    (PMT.pack s).2 = .ok (pre ++ a :: suf) ∧
    (PMT.unpack t (pre ++ a :: suf)).2 = .ok true ∧
    (PMT.unpack t (pre ++ a' :: suf)).2 ≠ .ok true ∧
    (∀ b, (PMT.unpack t (pre ++ a' :: suf)).2 = .ok b → b = false) := by
  by_cases hpos : pre.length = PMT_secOff s + 10 ∨ pre.length = PMT_secOff s + 11
  · exact PMT_detects_pil_flip s t h hs hafc pre suf a a' hbuf hne hpos
  · exact PMT_detects_flip_partial s t h hs hafc pre suf a a' hbuf hne hlo hhi h2 (by omega) h1
      (fun e => absurd (Or.inl e) hpos)

/-- the same for literal single-BIT flips: every bit of the section except the 12 bits of `section_length` -/
theorem PMT_detects_bitflip_slen_partial (s t : PMT) (h : PMT_WF s) (hs : s.pkt.sync = 0x47)
    (hafc : s.pkt.adaption_ctrl = 1 ∨ s.pkt.adaption_ctrl = 3) (k : Nat)
    (hlo : PMT_secOff s ≤ k / 8) (hhi : k / 8 < PMT_secOff s + PMT_slen s + 3)
    (h2 : k / 8 ≠ PMT_secOff s + 2) (h1 : k / 8 = PMT_secOff s + 1 → 4 ≤ k % 8) :
    (PMT.unpack t (Acra.Lemmas.CRC.flipBit (Pkt_bytes (PMT_pkt s)) k)).2 ≠ .ok true := by
  have hlen : k / 8 < (Pkt_bytes (PMT_pkt s)).length := by
    rw [PMT_bytes_parts s]
    have := PMT_loops_length s
    simp [PMT_secOff, PMT_hdr_length, PMT_crc4] at hhi ⊢
    omega
  obtain ⟨pre, a, suf, hbuf, hpl, hflip⟩ := flipBit_split _ k hlen
  rw [hflip]
  have hk : k % 8 < 8 := Nat.mod_lt _ (by decide)
  exact (PMT_detects_flip_slen_partial s t h hs hafc pre suf a _ hbuf
    (fun e => Acra.Lemmas.CRC.flip_ne a (k % 8) hk e.symm)
    (by omega) (by omega) (by omega)
    (fun e => flip_nibble a _ hk (h1 (by omega)))).2.2.1

/-- witness: the 12 `program_info_length` bits of the example packet (bits 0..3 of packet byte 15, all of byte 16) and
    four other positions satisfy the hypotheses of `PMT_detects_bitflip_slen_partial` -/
example : ∀ k ∈ [120, 121, 122, 123, 128, 129, 130, 131, 132, 133, 134, 135, 40, 139, 52, 207],
    PMT_secOff pmtFlipExample ≤ k / 8 ∧ k / 8 < PMT_secOff pmtFlipExample + PMT_slen pmtFlipExample + 3 ∧
    k / 8 ≠ PMT_secOff pmtFlipExample + 2 ∧ (k / 8 = PMT_secOff pmtFlipExample + 1 → 4 ≤ k % 8) := by
  decide +kernel

/-! ### `section_length` -/

/-- **PMT, `section_length` corrupted: detected unless the CRC coincides at the moved position.**  `buf'` differs from
    the emitted `buf` in section byte 1 or 2 (any value).  If `unpack(buf')` returns a value `b` at all, then `b` is
    `steerCoincides` of the corrupted section (`buf'` from the section offset on) with the corrupted `section_length`
    `L'` and the intact `program_info_length`: at least four bytes lie between the end of the descriptor loop and the
    end `L'` designates (clamped to the packet), and the last four of them, big-endian, equal CRC-32/MPEG-2 of the
    section bytes `0 … L'−2` (clamped).  In particular True is returned only under that coincidence. -/
theorem PMT_slen_flip_unless (s t : PMT) (h : PMT_WF s) (hs : s.pkt.sync = 0x47)
    (hafc : s.pkt.adaption_ctrl = 1 ∨ s.pkt.adaption_ctrl = 3)
    (pre suf : Bytes) (a a' : UInt8) (hbuf : Pkt_bytes (PMT_pkt s) = pre ++ a :: suf)
    (hpos : pre.length = PMT_secOff s + 1 ∨ pre.length = PMT_secOff s + 2) :
    (∀ b, (PMT.unpack t (pre ++ a' :: suf)).2 = .ok b →
      b = steerCoincides ((pre ++ a' :: suf).drop (PMT_secOff s))
            (fieldL ((pre ++ a' :: suf).drop (PMT_secOff s))) (PMT_dbytes s).length) ∧
    ((PMT.unpack t (pre ++ a' :: suf)).2 = .ok true →
      steerCoincides ((pre ++ a' :: suf).drop (PMT_secOff s))
        (fieldL ((pre ++ a' :: suf).drop (PMT_secOff s))) (PMT_dbytes s).length = true) := by
  have hr := PMT_slen_byte_result s t h hs hafc pre suf a a' hbuf hpos
  exact ⟨hr, fun c => (hr true c).symm⟩

/-- decidable sufficient condition 1: the Boolean `steerCoincides` of the corrupted bytes is false ⇒ detected -/
theorem PMT_slen_flip_detected (s t : PMT) (h : PMT_WF s) (hs : s.pkt.sync = 0x47)
    (hafc : s.pkt.adaption_ctrl = 1 ∨ s.pkt.adaption_ctrl = 3)
    (pre suf : Bytes) (a a' : UInt8) (hbuf : Pkt_bytes (PMT_pkt s) = pre ++ a :: suf)
    (hpos : pre.length = PMT_secOff s + 1 ∨ pre.length = PMT_secOff s + 2)
    (hnc : steerCoincides ((pre ++ a' :: suf).drop (PMT_secOff s))
      (fieldL ((pre ++ a' :: suf).drop (PMT_secOff s))) (PMT_dbytes s).length = false) :
    (PMT.unpack t (pre ++ a' :: suf)).2 ≠ .ok true := by
  intro c
  have := (PMT_slen_flip_unless s t h hs hafc pre suf a a' hbuf hpos).2 c
  rw [hnc] at this
  exact absurd this (by decide)

/-- decidable sufficient condition 2, CRC-free: a corrupted `section_length` below `13 + program_info_length` (the
    section would end before the descriptor loop plus a CRC) is ALWAYS detected -/
theorem PMT_slen_flip_short_detected (s t : PMT) (h : PMT_WF s) (hs : s.pkt.sync = 0x47)
    (hafc : s.pkt.adaption_ctrl = 1 ∨ s.pkt.adaption_ctrl = 3)
    (pre suf : Bytes) (a a' : UInt8) (hbuf : Pkt_bytes (PMT_pkt s) = pre ++ a :: suf)
    (hpos : pre.length = PMT_secOff s + 1 ∨ pre.length = PMT_secOff s + 2)
    (hshort : fieldL ((pre ++ a' :: suf).drop (PMT_secOff s)) < 13 + (PMT_dbytes s).length) :
    (PMT.unpack t (pre ++ a' :: suf)).2 ≠ .ok true :=
  PMT_slen_flip_detected s t h hs hafc pre suf a a' hbuf hpos (steerCoincides_short _ _ _ hshort)

/-- literal single-BIT flips of `section_length` (bit `k % 8` of packet byte `k / 8`) -/
theorem PMT_slen_bitflip_unless (s t : PMT) (h : PMT_WF s) (hs : s.pkt.sync = 0x47)
    (hafc : s.pkt.adaption_ctrl = 1 ∨ s.pkt.adaption_ctrl = 3) (k : Nat)
    (hpos : k / 8 = PMT_secOff s + 1 ∨ k / 8 = PMT_secOff s + 2)
    (hc : (PMT.unpack t (Acra.Lemmas.CRC.flipBit (Pkt_bytes (PMT_pkt s)) k)).2 = .ok true) :
    steerCoincides ((Acra.Lemmas.CRC.flipBit (Pkt_bytes (PMT_pkt s)) k).drop (PMT_secOff s))
      (fieldL ((Acra.Lemmas.CRC.flipBit (Pkt_bytes (PMT_pkt s)) k).drop (PMT_secOff s))) (PMT_dbytes s).length = true := by
  have hlen : k / 8 < (Pkt_bytes (PMT_pkt s)).length := by
    rw [PMT_bytes_parts s]
    simp [PMT_secOff, PMT_hdr_length] at hpos ⊢
    omega
  obtain ⟨pre, a, suf, hbuf, hpl, hflip⟩ := flipBit_split _ k hlen
  rw [hflip] at hc ⊢
  exact (PMT_slen_flip_unless s t h hs hafc pre suf a _ hbuf (by omega)).2 hc

/-- witness for the hypotheses and for BOTH decidable conditions on the example packet (`section_length` 18 =
    0b000000010010, `program_info_length` 5): each of the 12 single-bit flips (packet bits 48..51, 56..63) gives
    `steerCoincides = false`; the two that clear a bit (18 → 16, 18 → 2) are below 13 + 5 -/
example :
    PMT_WF pmtFlipExample ∧ pmtFlipExample.pkt.sync = 0x47 ∧
    (pmtFlipExample.pkt.adaption_ctrl = 1 ∨ pmtFlipExample.pkt.adaption_ctrl = 3) ∧
    (∀ k ∈ [48, 49, 50, 51, 56, 57, 58, 59, 60, 61, 62, 63],
      (k / 8 = PMT_secOff pmtFlipExample + 1 ∨ k / 8 = PMT_secOff pmtFlipExample + 2) ∧
      steerCoincides ((Acra.Lemmas.CRC.flipBit (Pkt_bytes (PMT_pkt pmtFlipExample)) k).drop (PMT_secOff pmtFlipExample))
        (fieldL ((Acra.Lemmas.CRC.flipBit (Pkt_bytes (PMT_pkt pmtFlipExample)) k).drop (PMT_secOff pmtFlipExample)))
        (PMT_dbytes pmtFlipExample).length = false) ∧
    (∀ k ∈ [57, 60],
      fieldL ((Acra.Lemmas.CRC.flipBit (Pkt_bytes (PMT_pkt pmtFlipExample)) k).drop (PMT_secOff pmtFlipExample)) <
        13 + (PMT_dbytes pmtFlipExample).length) := by
  decide +kernel

/-- **the coincidence happens: the full statement is false.**  A well-formed PMT (two streams; the four ES-descriptor
    bytes `63 68 B3 F3` of the first are chosen so that CRC-32/MPEG-2 of "header with `section_length` 22 ‖ first
    stream" is `1B E1 01 F0`, the first four bytes of the second stream).  `section_length` is 30 = 0x1E; flipping
    ONE bit of it (bit 3 of packet byte 7: 0x1E → 0x16 = 22) gives a packet on which `MPEGPacketPMT.unpack` returns
    True with one stream.  Same on the real code (notes/mpegeq.md, replay `mpeg_pmt_slen_forged`). -/
def pmtSlenForged : PMT :=
  { PMT.fresh with
    pkt := { Pkt.fresh with pid := 0x100, adaption_ctrl := 1 }, tableid := 2, program_number := 1, pcr_pid := 0x101,
    streams := [{ streamtype := 0x1B, elementary_pid := 0x101, elementary_stream_descriptors := [0x63, 0x68, 0xB3, 0xF3] },
                { streamtype := 0x1B, elementary_pid := 0x101, elementary_stream_descriptors := [0xAA, 0xBB, 0xCC] }] }

example :
    let buf := Pkt_bytes (PMT_pkt pmtSlenForged)
    let buf' := Acra.Lemmas.CRC.flipBit buf (7 * 8 + 3)
    PMT_WF pmtSlenForged ∧ pmtSlenForged.pkt.sync = 0x47 ∧ pmtSlenForged.pkt.adaption_ctrl = 1 ∧
    PMT_secOff pmtSlenForged = 5 ∧ PMT_slen pmtSlenForged = 30 ∧
    (PMT.pack pmtSlenForged).2.toOption = some buf ∧ buf.length = 188 ∧ buf.getD 7 0 = 0x1E ∧ buf'.getD 7 0 = 0x16 ∧
    ((PMT.unpack PMT.fresh buf).2.toOption, (PMT.unpack PMT.fresh buf).1.streams.length) = (some true, 2) ∧
    ((PMT.unpack PMT.fresh buf').2.toOption, (PMT.unpack PMT.fresh buf').1.streams.length) = (some true, 1) ∧
    steerCoincides (buf'.drop 5) (fieldL (buf'.drop 5)) 0 = true := by
  decide +kernel

end Acra.Props.C07
