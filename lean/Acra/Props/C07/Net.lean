import Acra.Lemmas.Net
import Acra.Lemmas.CRC
import Acra.Props.C02.Net
namespace Acra.Props.C07
open Acra.Py Acra.Model.Net Acra.Gen.Net Acra.Lemmas.Net

/-! Spec algorithms: `Spec.rfc1071` (big-endian 16-bit words, end-around carry, complement) and `Spec.crc32`
    (reflected CRC-32, polynomial 0xEDB88320, init and final xor 0xFFFFFFFF).  Each theorem says: the field bytes
    inside what `pack` emits are the Spec algorithm of the protected bytes of what `pack` emits. -/

/-- the CRC-32 check value of the catalogue: "123456789" ↦ 0xCBF43926 -/
theorem crc32_check_value :
    Spec.crc32 [0x31, 0x32, 0x33, 0x34, 0x35, 0x36, 0x37, 0x38, 0x39] = 0xCBF43926 := Lemmas.CRC.crc32_check

/-- **IPv4**: bytes 10..11 of the emitted header are the RFC 1071 checksum, stored big-endian, of the emitted header
    with those two bytes zero — although the code sums little-endian words and stores with a native "H" -/
theorem IPv4_checksum_std (s : IP) (src dst : Nat) (h : IP_WF s src dst) :
    ∃ b, (IP.pack s).2 = .ok b ∧
      slice b 10 12 = beBytes 2 (Spec.rfc1071 (List.take 10 b ++ ([0, 0] ++ slice b 12 20))) := by
  refine ⟨_, by rw [IP_pack_eq s src dst h], ?_⟩
  have e1 : slice (ipHeader s (leBytes 2 (ipCksum s src dst)) src dst ++ s.payload) 10 12 = leBytes 2 (ipCksum s src dst) := by
    simp only [ipHeader, List.append_assoc]
    apply slice_mid
    · simp
    · simp
  have e2 : List.take 10 (ipHeader s (leBytes 2 (ipCksum s src dst)) src dst ++ s.payload) = ipFront s := by
    simp only [ipHeader, List.append_assoc]
    exact take_append_len _ _ _ (by simp)
  have e3 : slice (ipHeader s (leBytes 2 (ipCksum s src dst)) src dst ++ s.payload) 12 20 = ipBack src dst := by
    simp only [ipHeader, List.append_assoc]
    rw [← List.append_assoc (ipFront s)]
    apply slice_mid
    · simp
    · simp
  rw [e1, e2, e3]
  have : ipFront s ++ ([0, 0] ++ ipBack src dst) = ipHeader s [0, 0] src dst := rfl
  rw [this, ipCksum, Lemmas.Sum16.stored_bytes_eq _ (by rw [ipHeader_length _ _ _ _ rfl]; omega)]

/-- **verification**: the receiver's check — `ip_calc_checksum` over the 20 header bytes `pack` emitted — gives 0 -/
theorem IPv4_verify_zero (s : IP) (src dst : Nat) (h : IP_WF s src dst) :
    ∃ b, (IP.pack s).2 = .ok b ∧ ipCalcChecksum (b.take 20) = .ok 0 := by
  refine ⟨_, by rw [IP_pack_eq s src dst h], ?_⟩
  rw [take_append_len _ _ _ (ipHeader_length _ _ _ _ (by simp)).symm, ipCalcChecksum_eq]
  simp only [ipHeader, ipCksum]
  rw [Lemmas.Sum16.verify_zero (ipFront s) (ipBack src dst) (by simp) (by simp)]

/-- **ICMP**: the message is type, code, checksum, identifier, sequence number, payload, with the RFC 1071
    checksum of the whole message (checksum field zero) — odd and even payload lengths, up to 128 KiB -/
theorem ICMP_checksum_std (s : ICMP) (h : ICMP_WF s) :
    (ICMP.pack s).2 = .ok (Spec.ICMP.encode s.type s.code s.request_id s.request_sequence s.payload) := by
  rw [ICMP_pack_eq s h]
  have e0 : icmpBytes s [0, 0] = Spec.ICMP.message s.type s.code 0 s.request_id s.request_sequence s.payload := by
    simp [icmpBytes, Spec.ICMP.message, encInt, show beBytes 2 0 = [0, 0] by decide]
  have e1 : ∀ c, icmpBytes s (beBytes 2 c) = Spec.ICMP.message s.type s.code c s.request_id s.request_sequence s.payload := by
    intro c; simp [icmpBytes, Spec.ICMP.message, encInt]
  obtain ⟨_, _, _, _, h5⟩ := h
  rw [Lemmas.Sum16.stored_bytes_eq _ (by simp [icmpBytes]; omega), e1, e0]
  rfl

example : ICMP_WF { ICMP.fresh with type := 8, payload := [1, 2, 3] } := by simp [ICMP_WF, ICMP.fresh]

/-- **IGMPv3 membership query**: the bytes the function returns are the general query with its RFC 1071 checksum -/
theorem IGMP_query_checksum_std : membershipQuery = Spec.IGMP.query := by decide +kernel

/-- **IGMPv3 join**: for every group list the report is laid out as RFC 3376 says and carries the RFC 1071
    checksum of the report -/
theorem IGMP_join_checksum_std (gs : List Nat) (hn : gs.length < 65536) :
    joinGroups (gs.map some) = .ok (Spec.IGMP.report gs) := by
  have hmode : (if gs.length == 1 then IGMP_TYPE_REC_CHG_TO_EXCL_MODE else IGMP_TYPE_REC_MODE_IS_EXCLUDE) =
      (if gs.length = 1 then 4 else 2) := by
    simp [IGMP_TYPE_REC_CHG_TO_EXCL_MODE, IGMP_TYPE_REC_MODE_IS_EXCLUDE]
  generalize hm : (if gs.length = 1 then 4 else 2) = mode at hmode
  have hml : mode < 256 := by rw [← hm]; split <;> omega
  have hf : Fits IGMP_join_fmt0.codes [IGMP_TYPE_MEMBERSHIP_REPORT, 0, 0, 0, gs.length] := by
    simp [Fits, IGMP_join_fmt0, Code.bound, IGMP_TYPE_MEMBERSHIP_REPORT]; omega
  -- the report with a zero checksum field
  have hnc : encCodes IGMP_join_fmt0.big IGMP_join_fmt0.codes [IGMP_TYPE_MEMBERSHIP_REPORT, 0, 0, 0, gs.length] ++
      joinRecords mode gs = Spec.IGMP.reportWith 0 gs := by
    simp only [Spec.IGMP.reportWith, hm]
    simp [IGMP_join_fmt0, encCodes, Code.size, IGMP_TYPE_MEMBERSHIP_REPORT, encInt, joinRecords, Spec.IGMP.groupRecord]
  have hlen : (Spec.IGMP.reportWith 0 gs).length = 2 * (4 + 4 * gs.length) := by
    rw [← hnc]; simp [joinRecords_length, IGMP_join_fmt0, encCodes, Code.size]; omega
  have hwords : structUnpack (IGMP_join_fmt2 ((Spec.IGMP.reportWith 0 gs).length / 2)) (Spec.IGMP.reportWith 0 gs) =
      .ok (Spec.wordsBE (Spec.IGMP.reportWith 0 gs)) := by
    have e : (Spec.IGMP.reportWith 0 gs).length / 2 = 4 + 4 * gs.length := by omega
    simp only [structUnpack, IGMP_join_fmt2, Fmt.size, codesSize_replicate_u16, e]
    rw [if_pos hlen, unpackCodes_u16_be _ _ hlen]
  simp only [joinGroups, hmode, List.length_map, structPack_eq _ _ hf, joinBody_eq mode gs hml, hnc, hwords]
  -- the word list is not empty; its one's-complement sum
  cases hws : Spec.wordsBE (Spec.IGMP.reportWith 0 gs) with
  | nil =>
    exfalso
    have : (Spec.IGMP.reportWith 0 gs) = 0x22 :: 0 :: (Spec.IGMP.reportWith 0 gs).drop 2 := by
      simp [Spec.IGMP.reportWith, beBytes, leBytes]
    rw [this] at hws; simp [Spec.wordsBE] at hws
  | cons w ws =>
    have hall : ∀ x ∈ w :: ws, x ≤ 65535 := by rw [← hws]; exact Lemmas.Sum16.wordsBE_le _
    have hw := hall w (by simp)
    obtain ⟨e1, e2⟩ := foldl_onesCompAdd16 ws w hw (fun x hx => hall x (by simp [hx]))
    have hx : 65535 - (List.foldl onesCompAdd16 w ws &&& 0xFFFF) = Spec.rfc1071 (Spec.IGMP.reportWith 0 gs) := by
      have e3 : Spec.onesAdd 0 w = w := by simp [Spec.onesAdd]; omega
      rw [e1, and_mask16, Nat.mod_eq_of_lt (by omega), Spec.rfc1071, hws, List.foldl_cons, e3]
    have hc : Fits IGMP_join_fmt3.codes [Spec.rfc1071 (Spec.IGMP.reportWith 0 gs)] := by
      simp [Fits, IGMP_join_fmt3, Code.bound, Spec.rfc1071]; omega
    simp only [hx, structPack_eq _ _ hc]
    simp only [Spec.IGMP.report]
    congr 1

/-- **Ethernet FCS**: with `fcs=True` the frame is the header and payload followed by the CRC-32 (IEEE 802.3) of
    everything before it, least significant byte first -/
theorem Eth_fcs_std (s : Eth) (h : Eth_WF s) :
    (Eth.pack s true).2 = .ok (Spec.Ethernet.body s.dstmac s.srcmac (if s.vlan then some s.vlantag else none) s.type s.payload ++
      leBytes 4 (Spec.crc32 (Spec.Ethernet.body s.dstmac s.srcmac (if s.vlan then some s.vlantag else none) s.type s.payload))) := by
  rw [C02.Ethernet_pack_layout s true h]
  simp [Spec.Ethernet.encode]

/-- **detection**: `unpack(fcs=True)` raises on every frame that differs from an emitted frame in exactly one byte —
    wherever the byte is (addresses, tag, type, payload or the FCS itself), in particular for every single-bit flip -/
theorem Eth_detects_byte (s t : Eth) (h : Eth_WF s) (i : Nat) (v : UInt8)
    (hi : i < (ethFrame s true).length) (hv : (ethFrame s true)[i]? ≠ some v) :
    (Eth.pack s true).2 = .ok (ethFrame s true) ∧
    (Eth.unpack t ((ethFrame s true).set i v) true).2 = .error .generic := by
  refine ⟨by rw [Eth_pack_eq s true h], ?_⟩
  have hlen := ethFrame_length s true
  have hl18 : 18 ≤ (ethFrame s true).length := by rw [hlen]; split <;> simp <;> omega
  have hsl : ((ethFrame s true).set i v).length = (ethFrame s true).length := List.length_set
  -- the frame as body ++ fcs
  have hbody : ethFrame s true = (ethHdr s ++ s.payload) ++ leBytes 4 (Spec.crc32 (ethHdr s ++ s.payload)) := by
    simp [ethFrame, ethFcs]
  have hbl : (ethHdr s ++ s.payload).length = (ethFrame s true).length - 4 := by rw [hbody]; simp; omega
  -- in every branch of the decoder the FCS comparison is reached and fails
  have key : crc32 (((ethFrame s true).set i v).take (((ethFrame s true).set i v).length - 4)) ≠
      leNat (((ethFrame s true).set i v).drop (((ethFrame s true).set i v).length - 4)) := by
    rw [hsl]
    generalize hB : ethHdr s ++ s.payload = B at hbody hbl
    rw [hbody] at hi hv ⊢
    have hcrcB : leNat (leBytes 4 (Spec.crc32 B)) = crc32 B := by rw [leNat_leBytes, crc32, and_mask32]
    have hm : ∀ x, crc32 x = Spec.crc32 x := by
      intro x; rw [crc32, and_mask32]; exact Nat.mod_eq_of_lt (Lemmas.CRC.crc32_lt x)
    simp only [List.length_append, leBytes_length, Nat.add_sub_cancel]
    by_cases hib : i < B.length
    · -- a byte of the protected part changed: the CRC changes, the stored FCS does not
      have hset : (B ++ leBytes 4 (Spec.crc32 B)).set i v = B.set i v ++ leBytes 4 (Spec.crc32 B) :=
        List.set_append_left _ _ hib
      rw [hset, take_append_len _ _ _ (by simp), drop_append_len _ _ _ (by simp), hcrcB, hm, hm]
      have hbi : B[i]? ≠ some v := by
        intro hh; apply hv; rw [List.getElem?_append_left hib]; exact hh
      have hsplit : B = B.take i ++ B[i] :: B.drop (i + 1) := by
        rw [List.getElem_cons_drop_succ_eq_drop hib, List.take_append_drop]
      have hset2 : B.set i v = B.take i ++ v :: B.drop (i + 1) := by
        rw [List.set_eq_take_append_cons_drop, if_pos hib]
      rw [hset2]
      conv => rhs; rw [hsplit]
      apply Lemmas.CRC.crc32_detects_byte
      intro hvb
      apply hbi
      rw [List.getElem?_eq_getElem hib, hvb]
    · -- a byte of the FCS changed: the stored value changes, the CRC of the protected part does not
      have hset : (B ++ leBytes 4 (Spec.crc32 B)).set i v = B ++ (leBytes 4 (Spec.crc32 B)).set (i - B.length) v :=
        List.set_append_right _ _ (by omega)
      rw [hset, take_append_len _ _ _ rfl, drop_append_len _ _ _ rfl]
      intro heq
      have a1 := leBytes_leNat ((leBytes 4 (Spec.crc32 B)).set (i - B.length) v)
      have a2 := leBytes_leNat (leBytes 4 (Spec.crc32 B))
      rw [List.length_set, leBytes_length] at a1
      rw [leBytes_length] at a2
      rw [← heq, ← hcrcB, a2] at a1
      -- the set changed nothing: contradiction with hv
      apply hv
      rw [List.getElem?_append_right (by omega)]
      have : ((leBytes 4 (Spec.crc32 B)).set (i - B.length) v)[i - B.length]? = (leBytes 4 (Spec.crc32 B))[i - B.length]? :=
        congrArg (fun l => l[i - B.length]?) a1.symm
      rw [List.getElem?_set_self (by have := hi; simp at this ⊢; omega)] at this
      exact this.symm
  rw [hsl] at key
  rw [Eth_unpack_eq _ _ _ (by omega)]
  have key' : ¬ (crc32 (List.take ((ethFrame s true).length - 4) ((ethFrame s true).set i v)) =
      leNat (List.drop ((ethFrame s true).length - 4) ((ethFrame s true).set i v))) := key
  simp only [hsl, hl18, if_true, ethFinish, ne_eq, key', not_false_eq_true]
  split <;> rfl

/-- **every single-bit flip** of an emitted frame (header, tag, type, payload or FCS) is reported -/
theorem Eth_detects_flip (s t : Eth) (h : Eth_WF s) (k : Nat) (hk : k < 8 * (ethFrame s true).length) :
    (Eth.unpack t (Lemmas.CRC.flipBit (ethFrame s true) k) true).2 = .error .generic := by
  have hi : k / 8 < (ethFrame s true).length := by omega
  apply (Eth_detects_byte s t h (k / 8) _ hi ?_).2
  rw [List.getElem?_eq_getElem hi, List.getD_eq_getElem?_getD, List.getElem?_eq_getElem hi]
  simp only [Option.getD_some, ne_eq, Option.some.injEq]
  exact fun e => Lemmas.CRC.flip_ne _ (k % 8) (by omega) e.symm

example : Eth_WF { Eth.fresh with dstmac := 1, srcmac := 2, payload := [0xAA] } := by
  simp [Eth_WF, Eth.fresh, ETH_TYPE_IP, ETH_TYPE_VLAN]

/-! ### review additions: joint witnesses -/

/-- identification 0xFFFF, TTL 255, don't-fragment, odd payload length -/
def ipExample : IP :=
  { IP.fresh with
    srcip := some 0xC0A80001, dstip := some 0xEFFFFFFF, ident := 0xFFFF, ttl := 255, protocol := 17, flags := 2,
    payload := [1, 2, 3] }

/-- witness for `IPv4_checksum_std` / `IPv4_verify_zero`; the emitted checksum bytes are CB 2C -/
example : IP_WF ipExample 0xC0A80001 0xEFFFFFFF ∧
    ((IP.pack ipExample).2.toOption.map fun b => slice b 10 12) = some [0xCB, 0x2C] := by
  refine ⟨by unfold IP_WF; decide, by decide +kernel⟩

/-- witnesses for `IGMP_join_checksum_std`: the empty list, one group (record type 4), several groups (type 2) -/
example : ([] : List Nat).length < 65536 ∧ [0xE0000001].length < 65536 ∧ [0xE0000001, 0xEFFFFFFF, 0xE00000FB].length < 65536 := by
  decide

def ethExample : Eth := { Eth.fresh with dstmac := 1, srcmac := 2, payload := [0xAA] }

/-- joint witness for `Eth_detects_byte` (a byte of the header, a payload byte, a byte of the FCS) and
    `Eth_detects_flip` (first and last bit of the 19-byte frame) -/
example : Eth_WF ethExample ∧ (ethFrame ethExample true).length = 19 ∧
    (0 < (ethFrame ethExample true).length ∧ (ethFrame ethExample true)[0]? ≠ some 0xFF) ∧
    (14 < (ethFrame ethExample true).length ∧ (ethFrame ethExample true)[14]? ≠ some 0xAB) ∧
    (18 < (ethFrame ethExample true).length ∧ (ethFrame ethExample true)[18]? ≠ some 0) ∧
    0 < 8 * (ethFrame ethExample true).length ∧ 151 < 8 * (ethFrame ethExample true).length := by
  refine ⟨by simp [Eth_WF, ethExample, Eth.fresh, ETH_TYPE_IP, ETH_TYPE_VLAN], ?_, ?_, ?_, ?_, ?_, ?_⟩ <;> decide +kernel

end Acra.Props.C07
