/-
  C07, Chapter 11 part: the header checksum inside `pack` is the 16-bit arithmetic sum of the eleven
  little-endian 16-bit words that precede it, the secondary-header checksum is the 16-bit arithmetic sum
  of the ten BYTES that precede it (the library's docstring / decoder convention, see Acra.Spec.Ch10),
  both stored little-endian; and the two helper functions are those sums on every buffer.
  (`Chapter11.unpack` only logs a mismatch, so there is no detection statement for Chapter 11.)
-/
import Acra.Lemmas.Ch11
namespace Acra.Props.C07
open Acra.Py Acra.Model.Ch11 Acra.Gen.Ch11 Acra.Lemmas.Ch11 Acra.Lemmas.Ch10 Acra

/-- `get_checksum_buf` = 16-bit sum of the little-endian words, for every non-empty buffer of even length -/
theorem get_checksum_buf_std (buf : Bytes) (he : buf.length % 2 = 0) (hn : 0 < buf.length) :
    getChecksumBuf buf = .ok (Spec.Ch11.hdrChecksum buf) := getChecksumBuf_eq buf he hn

/-- … and raises for an odd length ("buffer needs to be 16-bit aligned") -/
theorem get_checksum_buf_odd (buf : Bytes) (ho : buf.length % 2 = 1) : getChecksumBuf buf = .error .generic := by
  simp [getChecksumBuf, ho]

/-- `get_checksum_byte_buf` = 16-bit sum of the bytes, for every non-empty buffer -/
theorem get_checksum_byte_buf_std (buf : Bytes) (hn : 0 < buf.length) :
    getChecksumByteBuf buf = .ok (Spec.Ch11.secChecksum buf) := getChecksumByteBuf_eq buf hn

example : getChecksumBuf [0xFF, 0xFF, 0x02, 0x00] = .ok 1 := by decide
example : getChecksumByteBuf [0xFF, 0xFF, 0x02] = .ok 0x200 := by decide

/-- header checksum: bytes 22..23 of every encoded packet (with or without secondary header) are the
    little-endian image of the standard sum over bytes 0..21 of the bytes actually emitted -/
theorem ch11_hdr_checksum_std (s : State) (h : WFn s ∨ WFs s) :
    ∃ b, (pack s).2 = .ok b ∧ slice b 22 24 = leBytes 2 (Spec.Ch11.hdrChecksum (b.take 22)) := by
  have key : ∀ ptp, slice (Spec.Ch11.encode s.syncpattern s.channelID s.datatypeversion s.sequence s.packetflag
      s.datatype s.relativetimecounter ptp s.payload) 22 24 =
      leBytes 2 (Spec.Ch11.hdrChecksum ((Spec.Ch11.encode s.syncpattern s.channelID s.datatypeversion s.sequence
        s.packetflag s.datatype s.relativetimecounter ptp s.payload).take 22)) := by
    intro ptp
    simp only [Spec.Ch11.encode, Spec.Ch11.header, List.append_assoc]
    rw [take_append_len _ _ _ (by simp [Spec.Ch11.header22])]
    exact slice_mid _ _ _ _ _ (by simp [Spec.Ch11.header22]) (by simp [Spec.Ch11.header22])
  rcases h with h | h
  · exact ⟨_, by rw [pack_nosec s h], key _⟩
  · exact ⟨_, by rw [pack_sec s h], key _⟩

/-- secondary-header checksum: bytes 34..35 are the little-endian image of the byte sum of bytes 24..33 -/
theorem ch11_sec_checksum_std (s : State) (h : WFs s) :
    ∃ b, (pack s).2 = .ok b ∧ slice b 34 36 = leBytes 2 (Spec.Ch11.secChecksum (slice b 24 34)) := by
  refine ⟨_, by rw [pack_sec s h], ?_⟩
  simp only [Spec.Ch11.encode, Spec.Ch11.secHeader, List.append_assoc]
  have h24 : ∀ p d, (Spec.Ch11.header s.syncpattern s.channelID p d s.datatypeversion s.sequence s.packetflag
      s.datatype s.relativetimecounter).length = 24 := by
    intro p d; simp [Spec.Ch11.header, Spec.Ch11.header22]
  have e1 : ∀ (H A B C rest : Bytes), H.length = 24 → A.length = 4 → B.length = 4 → C.length = 2 →
      slice (H ++ (A ++ (B ++ ([0, 0] ++ (C ++ rest))))) 24 34 = A ++ (B ++ [0, 0]) := by
    intro H A B C rest hH hA hB hC
    have : H ++ (A ++ (B ++ ([0, 0] ++ (C ++ rest)))) = H ++ ((A ++ (B ++ [0, 0])) ++ (C ++ rest)) := by simp
    rw [this]
    exact slice_mid _ _ _ _ _ hH.symm (by simp [hH, hA, hB])
  have e2 : ∀ (H A B C rest : Bytes), H.length = 24 → A.length = 4 → B.length = 4 → C.length = 2 →
      slice (H ++ (A ++ (B ++ ([0, 0] ++ (C ++ rest))))) 34 36 = C := by
    intro H A B C rest hH hA hB hC
    have : H ++ (A ++ (B ++ ([0, 0] ++ (C ++ rest)))) = (H ++ (A ++ (B ++ [0, 0]))) ++ (C ++ rest) := by simp
    rw [this]
    exact slice_mid _ _ _ _ _ (by simp [hH, hA, hB]) (by simp [hH, hA, hB, hC])
  rw [e1 _ _ _ _ _ (h24 _ _) (by simp) (by simp) (by simp), e2 _ _ _ _ _ (h24 _ _) (by simp) (by simp) (by simp)]

/-! ### review additions: joint witnesses for `WFn` / `WFs` -/

/-- no secondary header; header words 0xEB25, 0xFFFF, …, 0xFFFF, 0xFFFF, 0xFFFF: the 16-bit sum carries repeatedly -/
def ch11ExampleN : State :=
  { fresh with
    channelID := 0xFFFF, sequence := 255, datatype := 0x40, relativetimecounter := 2 ^ 48 - 1, payload := [1, 2, 3] }

/-- IEEE-1588 secondary header with the largest seconds value -/
def ch11ExampleS : State :=
  { fresh with
    channelID := 7, packetflag := 0x84, has_secondary_header := true, ts_source := TS_IEEE1558,
    ptptime := ⟨0xFFFFFFFF, 999999999⟩, payload := [0xFF, 0xFF, 0xFF, 0xFF, 0xFF] }

/-- witnesses for `ch11_hdr_checksum_std` (both disjuncts) and `ch11_sec_checksum_std`, with the emitted checksum
    bytes: header checksum 0x2A45 at 22..23, resp. 0xEBE6; secondary-header checksum 0x0699 at 34..35 -/
example : WFn ch11ExampleN ∧ (WFn ch11ExampleS ∨ WFs ch11ExampleS) ∧ WFs ch11ExampleS ∧
    ((pack ch11ExampleN).2.toOption.map fun b => slice b 22 24) = some [0x45, 0x2A] ∧
    ((pack ch11ExampleS).2.toOption.map fun b => (slice b 22 24, slice b 34 36)) = some ([0xE6, 0xEB], [0x99, 0x06]) := by
  refine ⟨by unfold WFn; decide, Or.inr (by unfold WFs; decide), by unfold WFs; decide, by decide +kernel, by decide +kernel⟩

/-- witnesses for the hypotheses of the two function-level theorems, and the remaining branch (empty buffer) -/
example : ([0xFF, 0xFF, 0x02, 0x00] : Bytes).length % 2 = 0 ∧ 0 < ([0xFF, 0xFF, 0x02, 0x00] : Bytes).length ∧
    ([0xFF, 0xFF, 0x02] : Bytes).length % 2 = 1 ∧
    (match getChecksumBuf [] with | .error .type => true | _ => false) = true := by decide

end Acra.Props.C07
