import Acra.Lemmas.MpegFlip
import Acra.Props.C07.Mpeg
namespace Acra.Props.C07
open Acra.Py Acra.Model.MPEGTS Acra.Model.PMT Acra.Model.PES Acra.Lemmas.MPEGTS Acra.Lemmas.PMT
open Acra.Lemmas.MpegFlip Acra.Lemmas.PES

/-! Corruption of the 188-byte buffer, lifted through the decoders.

    PMT: the section starts at `PMT_secOff s` = 4 header bytes + adaptation bytes + pointer field
    (5 with adaptation control 1) and is `PMT_slen s + 3` bytes long, CRC included.  Section offsets
    1–2 carry `section_length` (low 12 bits), 10–11 `program_info_length` (low 12 bits). -/

/-- **PMT.detects_flip** (partial: the fields that steer the parse are excluded).
    `buf` is what `MPEGPacketPMT.pack` emits for a well-formed object; `buf'` differs from it in
    exactly ONE byte of the section — anywhere from `table_id` to the last CRC byte — such that the
    12 bits of `section_length` and the 12 bits of `program_info_length` are unchanged (the four
    high bits of section bytes 1 and 10 MAY change; the pointer byte lies before the section).
    Then `MPEGPacketPMT.unpack` — into an object in any prior state — does not return True: it
    returns False, or raises (a changed descriptor length / ES_info_length can mis-frame a loop and
    end in `struct.error`; see `PMT_flip_false_partial` for where False is guaranteed).
    Missing for the full statement: changes of the three steering fields move the range the CRC is
    computed over and the position the stored CRC is read from, so no CRC argument applies; they are
    tested exhaustively on generated packets by the oracle `mpeg_pmt_flip`. -/
theorem PMT_detects_flip_partial (s t : PMT) (h : PMT_WF s) (hs : s.pkt.sync = 0x47)
    (hafc : s.pkt.adaption_ctrl = 1 ∨ s.pkt.adaption_ctrl = 3)
    (pre suf : Bytes) (a a' : UInt8) (hbuf : Pkt_bytes (PMT_pkt s) = pre ++ a :: suf) (hne : a ≠ a')
    (hlo : PMT_secOff s ≤ pre.length) (hhi : pre.length < PMT_secOff s + PMT_slen s + 3)
    (h2 : pre.length ≠ PMT_secOff s + 2) (h11 : pre.length ≠ PMT_secOff s + 11)
    (h1 : pre.length = PMT_secOff s + 1 → a.toNat % 16 = a'.toNat % 16)
    (h10 : pre.length = PMT_secOff s + 10 → a.toNat % 16 = a'.toNat % 16) :
    (PMT.pack s).2 = .ok (pre ++ a :: suf) ∧
    (PMT.unpack t (pre ++ a :: suf)).2 = .ok true ∧
    (PMT.unpack t (pre ++ a' :: suf)).2 ≠ .ok true ∧
    (∀ b, (PMT.unpack t (pre ++ a' :: suf)).2 = .ok b → b = false) := by
  have hr := PMT_flip_rejected s t h hs hafc pre suf a a' hbuf hne hlo hhi h2 h11 h1 h10
  refine ⟨by rw [PMT_pack_eq s h, hbuf], by rw [← hbuf, PMT_unpack_bytes s t h hs hafc], ?_, hr⟩
  intro c
  exact absurd (hr true c) (by decide)

/-- where False (not an exception) is guaranteed: the changed byte lies in the 12 fixed bytes of the
    section (table_id, the four non-length bits of byte 1, program_number, version / current_next,
    section numbers, PCR_PID, the four non-length bits of byte 10) or in the CRC_32 itself.
    (Partial for the same reason as `PMT_detects_flip_partial`.) -/
theorem PMT_flip_false_partial (s t : PMT) (h : PMT_WF s) (hs : s.pkt.sync = 0x47)
    (hafc : s.pkt.adaption_ctrl = 1 ∨ s.pkt.adaption_ctrl = 3)
    (pre suf : Bytes) (a a' : UInt8) (hbuf : Pkt_bytes (PMT_pkt s) = pre ++ a :: suf) (hne : a ≠ a')
    (hlo : PMT_secOff s ≤ pre.length) (hhi : pre.length < PMT_secOff s + PMT_slen s + 3)
    (hwhere : pre.length < PMT_secOff s + 12 ∨ PMT_secOff s + PMT_slen s - 1 ≤ pre.length)
    (h2 : pre.length ≠ PMT_secOff s + 2) (h11 : pre.length ≠ PMT_secOff s + 11)
    (h1 : pre.length = PMT_secOff s + 1 → a.toNat % 16 = a'.toNat % 16)
    (h10 : pre.length = PMT_secOff s + 10 → a.toNat % 16 = a'.toNat % 16) :
    (PMT.unpack t (pre ++ a' :: suf)).2 = .ok false := by
  obtain ⟨b, hb⟩ := PMT_flip_returns s t h hs hafc pre suf a a' hbuf hlo hhi hwhere h2 h11 h1 h10
  rw [hb, PMT_flip_rejected s t h hs hafc pre suf a a' hbuf hne hlo hhi h2 h11 h1 h10 b hb]

/-- the same for literal single-BIT flips: bit `k % 8` (least significant = 0) of byte `k / 8` of the
    packet, for every bit of the section except the 12 + 12 length bits -/
theorem PMT_detects_bitflip_partial (s t : PMT) (h : PMT_WF s) (hs : s.pkt.sync = 0x47)
    (hafc : s.pkt.adaption_ctrl = 1 ∨ s.pkt.adaption_ctrl = 3) (k : Nat)
    (hlo : PMT_secOff s ≤ k / 8) (hhi : k / 8 < PMT_secOff s + PMT_slen s + 3)
    (h2 : k / 8 ≠ PMT_secOff s + 2) (h11 : k / 8 ≠ PMT_secOff s + 11)
    (h1 : k / 8 = PMT_secOff s + 1 → 4 ≤ k % 8) (h10 : k / 8 = PMT_secOff s + 10 → 4 ≤ k % 8) :
    (PMT.unpack t (Acra.Lemmas.CRC.flipBit (Pkt_bytes (PMT_pkt s)) k)).2 ≠ .ok true := by
  have hlen : k / 8 < (Pkt_bytes (PMT_pkt s)).length := by
    rw [PMT_bytes_parts s]
    have := PMT_loops_length s
    simp [PMT_secOff, PMT_hdr_length, PMT_crc4] at hhi ⊢
    omega
  obtain ⟨pre, a, suf, hbuf, hpl, hflip⟩ := flipBit_split _ k hlen
  rw [hflip]
  have hk : k % 8 < 8 := Nat.mod_lt _ (by decide)
  exact (PMT_detects_flip_partial s t h hs hafc pre suf a _ hbuf
    (fun e => Acra.Lemmas.CRC.flip_ne a (k % 8) hk e.symm)
    (by omega) (by omega) (by omega) (by omega)
    (fun e => flip_nibble a _ hk (h1 (by omega))) (fun e => flip_nibble a _ hk (h10 (by omega)))).2.2.1

/-- a non-trivial object satisfying the hypotheses: one descriptor, two streams -/
example : PMT_WF { PMT.fresh with
    pkt := { Pkt.fresh with pid := 0x100, adaption_ctrl := 1 }, tableid := 2, program_number := 1, pcr_pid := 0x101,
    descriptor_tags := [{ tag := some 5, data := [1, 2, 3] }],
    streams := [{ streamtype := 0x1B, elementary_pid := 0x101, elementary_stream_descriptors := [] },
                { streamtype := 0x06, elementary_pid := 0x104, elementary_stream_descriptors := [9, 9] }] } := by
  refine ⟨⟨by decide, by decide, by decide, by decide, by decide, by decide, by simp [Pkt.fresh]⟩,
    by decide, by decide, by decide, by decide, by decide, by decide, by decide, by decide, ?_, ?_, by decide⟩
  · intro d hd
    simp only [List.mem_singleton] at hd
    subst hd
    exact ⟨5, rfl, by decide, by decide⟩
  · intro x hx
    simp only [List.mem_cons, List.not_mem_nil, or_false] at hx
    rcases hx with rfl | rfl <;> exact ⟨by decide, by decide, by decide⟩

end Acra.Props.C07
