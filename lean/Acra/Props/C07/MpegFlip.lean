import Acra.Lemmas.MpegFlip
import Acra.Props.C07.Mpeg
namespace Acra.Props.C07
open Acra.Py Acra.Model.MPEGTS Acra.Model.PMT Acra.Model.PES Acra.Lemmas.MPEGTS Acra.Lemmas.PMT
open Acra.Lemmas.MpegFlip Acra.Lemmas.PES

/-! Corruption of the 188-byte buffer, lifted through the decoders.

    PMT: the section starts at `PMT_secOff s` = 4 header bytes + adaptation bytes + pointer field
    (5 with adaptation control 1) and is `PMT_slen s + 3` bytes long, CRC included.  Section offsets
    1–2 carry `section_length` (low 12 bits), 10–11 `program_info_length` (low 12 bits). -/

/-- **PMT.detects_flip** (partial: the fields that steer the parse are excluded).
    `buf` is what `MPEGPacketPMT.pack` emits for a well-formed object; `buf'` differs from it in
    exactly ONE byte of the section — anywhere from `table_id` to the last CRC byte — such that the
    12 bits of `section_length` and the 12 bits of `program_info_length` are unchanged (the four
    high bits of section bytes 1 and 10 MAY change; the pointer byte lies before the section).
    Then `MPEGPacketPMT.unpack` — into an object in any prior state — does not return True: it
    returns False, or raises (a changed descriptor length / ES_info_length can mis-frame a loop and
    end in `struct.error`; see `PMT_flip_false_partial` for where False is guaranteed).
    Missing for the full statement: changes of the three steering fields move the range the CRC is
    computed over and the position the stored CRC is read from, so no CRC argument applies; they are
    tested exhaustively on generated packets by the oracle `mpeg_pmt_flip`. -/
theorem PMT_detects_flip_partial (s t : PMT) (h : PMT_WF s) (hs : s.pkt.sync = 0x47)
    (hafc : s.pkt.adaption_ctrl = 1 ∨ s.pkt.adaption_ctrl = 3)
    (pre suf : Bytes) (a a' : UInt8) (hbuf : Pkt_bytes (PMT_pkt s) = pre ++ a :: suf) (hne : a ≠ a')
    (hlo : PMT_secOff s ≤ pre.length) (hhi : pre.length < PMT_secOff s + PMT_slen s + 3)
    (h2 : pre.length ≠ PMT_secOff s + 2) (h11 : pre.length ≠ PMT_secOff s + 11)
    (h1 : pre.length = PMT_secOff s + 1 → a.toNat % 16 = a'.toNat % 16)
    (h10 : pre.length = PMT_secOff s + 10 → a.toNat % 16 = a'.toNat % 16) :
    (PMT.pack s).2 = .ok (pre ++ a :: suf) ∧
    (PMT.unpack t (pre ++ a :: suf)).2 = .ok true ∧
    (PMT.unpack t (pre ++ a' :: suf)).2 ≠ .ok true ∧
    (∀ b, (PMT.unpack t (pre ++ a' :: suf)).2 = .ok b → b = false) := by
  have hr := PMT_flip_rejected s t h hs hafc pre suf a a' hbuf hne hlo hhi h2 h11 h1 h10
  refine ⟨by rw [PMT_pack_eq s h, hbuf], by rw [← hbuf, PMT_unpack_bytes s t h hs hafc], ?_, hr⟩
  intro c
  exact absurd (hr true c) (by decide)

/-- where False (not an exception) is guaranteed: the changed byte lies in the 12 fixed bytes of the
    section (table_id, the four non-length bits of byte 1, program_number, version / current_next,
    section numbers, PCR_PID, the four non-length bits of byte 10) or in the CRC_32 itself.
    (Partial for the same reason as `PMT_detects_flip_partial`.) -/
theorem PMT_flip_false_partial (s t : PMT) (h : PMT_WF s) (hs : s.pkt.sync = 0x47)
    (hafc : s.pkt.adaption_ctrl = 1 ∨ s.pkt.adaption_ctrl = 3)
    (pre suf : Bytes) (a a' : UInt8) (hbuf : Pkt_bytes (PMT_pkt s) = pre ++ a :: suf) (hne : a ≠ a')
    (hlo : PMT_secOff s ≤ pre.length) (hhi : pre.length < PMT_secOff s + PMT_slen s + 3)
    (hwhere : pre.length < PMT_secOff s + 12 ∨ PMT_secOff s + PMT_slen s - 1 ≤ pre.length)
    (h2 : pre.length ≠ PMT_secOff s + 2) (h11 : pre.length ≠ PMT_secOff s + 11)
    (h1 : pre.length = PMT_secOff s + 1 → a.toNat % 16 = a'.toNat % 16)
    (h10 : pre.length = PMT_secOff s + 10 → a.toNat % 16 = a'.toNat % 16) :
    (PMT.unpack t (pre ++ a' :: suf)).2 = .ok false := by
  obtain ⟨b, hb⟩ := PMT_flip_returns s t h hs hafc pre suf a a' hbuf hlo hhi hwhere h2 h11 h1 h10
  rw [hb, PMT_flip_rejected s t h hs hafc pre suf a a' hbuf hne hlo hhi h2 h11 h1 h10 b hb]

/-- the same for literal single-BIT flips: bit `k % 8` (least significant = 0) of byte `k / 8` of the
    packet, for every bit of the section except the 12 + 12 length bits -/
theorem PMT_detects_bitflip_partial (s t : PMT) (h : PMT_WF s) (hs : s.pkt.sync = 0x47)
    (hafc : s.pkt.adaption_ctrl = 1 ∨ s.pkt.adaption_ctrl = 3) (k : Nat)
    (hlo : PMT_secOff s ≤ k / 8) (hhi : k / 8 < PMT_secOff s + PMT_slen s + 3)
    (h2 : k / 8 ≠ PMT_secOff s + 2) (h11 : k / 8 ≠ PMT_secOff s + 11)
    (h1 : k / 8 = PMT_secOff s + 1 → 4 ≤ k % 8) (h10 : k / 8 = PMT_secOff s + 10 → 4 ≤ k % 8) :
    (PMT.unpack t (Acra.Lemmas.CRC.flipBit (Pkt_bytes (PMT_pkt s)) k)).2 ≠ .ok true := by
  have hlen : k / 8 < (Pkt_bytes (PMT_pkt s)).length := by
    rw [PMT_bytes_parts s]
    have := PMT_loops_length s
    simp [PMT_secOff, PMT_hdr_length, PMT_crc4] at hhi ⊢
    omega
  obtain ⟨pre, a, suf, hbuf, hpl, hflip⟩ := flipBit_split _ k hlen
  rw [hflip]
  have hk : k % 8 < 8 := Nat.mod_lt _ (by decide)
  exact (PMT_detects_flip_partial s t h hs hafc pre suf a _ hbuf
    (fun e => Acra.Lemmas.CRC.flip_ne a (k % 8) hk e.symm)
    (by omega) (by omega) (by omega) (by omega)
    (fun e => flip_nibble a _ hk (h1 (by omega))) (fun e => flip_nibble a _ hk (h10 (by omega)))).2.2.1

/-- a non-trivial object satisfying the hypotheses: one descriptor, two streams -/
example : PMT_WF { PMT.fresh with
    pkt := { Pkt.fresh with pid := 0x100, adaption_ctrl := 1 }, tableid := 2, program_number := 1, pcr_pid := 0x101,
    descriptor_tags := [{ tag := some 5, data := [1, 2, 3] }],
    streams := [{ streamtype := 0x1B, elementary_pid := 0x101, elementary_stream_descriptors := [] },
                { streamtype := 0x06, elementary_pid := 0x104, elementary_stream_descriptors := [9, 9] }] } := by
  refine ⟨⟨by decide, by decide, by decide, by decide, by decide, by decide, by simp [Pkt.fresh]⟩,
    by decide, by decide, by decide, by decide, by decide, by decide, by decide, by decide, ?_, ?_, by decide⟩
  · intro d hd
    simp only [List.mem_singleton] at hd
    subst hd
    exact ⟨5, rfl, by decide, by decide⟩
  · intro x hx
    simp only [List.mem_cons, List.not_mem_nil, or_false] at hx
    rcases hx with rfl | rfl <;> exact ⟨by decide, by decide, by decide⟩

/-- why `PMT_detects_flip_partial` says "not True" rather than "False" for the descriptor / stream
    bytes: a one-bit change of a descriptor LENGTH byte (3 → 2, packet offset 18) mis-frames the
    descriptor loop, which ends on a single left-over byte: `struct.error`, not False.  The same change
    of the descriptor's tag byte (offset 17) gives False. -/
def pmtFlipExample : PMT :=
  { PMT.fresh with pkt := { Pkt.fresh with pid := 0x100, adaption_ctrl := 1 }, tableid := 2, program_number := 1,
                   descriptor_tags := [{ tag := some 5, data := [1, 2, 3] }] }

example : (match (PMT.pack pmtFlipExample).2 with
    | .ok b => (match (PMT.unpack PMT.fresh b).2, (PMT.unpack PMT.fresh (b.set 18 2)).2,
                      (PMT.unpack PMT.fresh (b.set 17 4)).2 with
                | .ok true, .error .struct, .ok false => b.length == 188 && b.getD 17 0 == 5 && b.getD 18 0 == 3
                | _, _, _ => false)
    | .error _ => false) = true := by decide +kernel

/-- **False, not an exception, whenever the corrupted section still parses as well-formed fields.**
    `buf'` differs from `buf = pack s` in exactly one byte and is: the packet header, adaptation bytes
    and pointer field of `s`, the section fields of some well-formed `s'` (same packet frame), and the
    CRC + stuffing of `s` — i.e. only the CRC is stale.  Then `unpack(buf')` returns False.  Covers every
    one-byte change of a descriptor tag / data byte, a stream type, elementary PID, ES descriptor byte and
    of the non-length bits of the fixed part (complements `PMT_detects_flip_partial`, whose "or raises"
    alternative can then only occur when the change breaks the framing of a loop). -/
theorem PMT_flip_false_wellformed (s s' t : PMT) (h : PMT_WF s) (h' : PMT_WF s') (hpkt : s'.pkt = s.pkt)
    (hs : s.pkt.sync = 0x47) (hafc : s.pkt.adaption_ctrl = 1 ∨ s.pkt.adaption_ctrl = 3)
    (pre suf : Bytes) (a a' : UInt8) (hbuf : Pkt_bytes (PMT_pkt s) = pre ++ a :: suf) (hne : a ≠ a')
    (hbuf' : pre ++ a' :: suf = (Pkt_hdr (PMT_pkt s) ++ Pkt_af (PMT_pkt s) ++ [0]) ++
      (PMT_hdr s' ++ (PMT_loops s' ++ (PMT_crc4 s ++ Pkt_stuffing (PMT_pkt s))))) :
    (PMT.pack s).2 = .ok (pre ++ a :: suf) ∧ (PMT.unpack t (pre ++ a' :: suf)).2 = .ok false :=
  ⟨by rw [PMT_pack_eq s h, hbuf], PMT_stale_crc_false s s' t h' hpkt hs hafc pre suf a a' hbuf hne hbuf'⟩

/-- instance: `pmtFlipExample` with descriptor tag 5 → 4 (`s'`), byte 17 of the packet -/
example : (match (PMT.pack pmtFlipExample).2 with
    | .ok b => b.set 17 4 == (Pkt_hdr (PMT_pkt pmtFlipExample) ++ Pkt_af (PMT_pkt pmtFlipExample) ++ [0]) ++
        (PMT_hdr { pmtFlipExample with descriptor_tags := [{ tag := some 4, data := [1, 2, 3] }] } ++
          (PMT_loops { pmtFlipExample with descriptor_tags := [{ tag := some 4, data := [1, 2, 3] }] } ++
            (PMT_crc4 pmtFlipExample ++ Pkt_stuffing (PMT_pkt pmtFlipExample))))
    | .error _ => false) = true := by decide +kernel

/-! STANAG 4609: an exactly filled packet (the decoder handles no other, notes E3) carries the 36
    metadata bytes in its last 36 bytes: `pesdata[5:-2]` is bytes 157..185 of the packet, the stored
    checksum bytes 186..187. -/

/-- **STANAG.detects_flip** on the raw 188-byte packet: `buf` is what `STANAG4609.pack` emits (exactly
    filled; with the optional PES header, or without it when the header heuristic K2 does not fire);
    `buf'` differs from it in exactly ONE byte at packet offset 157..187 — the universal key, BER length,
    tags, lengths, the 64-bit time (`pesdata[5:-2]`, the checksummed region) or the stored checksum.
    Then `buf` is accepted and `buf'` is rejected by `STANAG4609.unpack`, whatever the prior state:
    key mismatch, tag / length check, or checksum (a one-byte change alters the 16-bit sum by
    `±d·256^j ≠ 0 mod 2^16`). -/
theorem STANAG_detects_flip (s t : STANAG) (h : STANAG_WF s) (hw : PES_WF (STANAG_pes s))
    (hs : s.pes.pkt.sync = 0x47) (hafc : s.pes.pkt.adaption_ctrl = 1 ∨ s.pes.pkt.adaption_ctrl = 3)
    (hfull : Pkt_used (PES_pkt (STANAG_pes s)) = 188)
    (hhdr : (PES.ext s.pes = none ∧ ¬ looksLikeHeader (STANAG_pes s)) ∨
      (∃ w1 w2 hd, PES.ext s.pes = some (w1, w2, hd) ∧ w1 / 16 = 8))
    (pre suf : Bytes) (a a' : UInt8) (hbuf : Pkt_bytes (PES_pkt (STANAG_pes s)) = pre ++ a :: suf) (hne : a ≠ a')
    (hlo : 157 ≤ pre.length) :
    (STANAG.pack s).2 = .ok (pre ++ a :: suf) ∧ (pre ++ a :: suf).length = 188 ∧
    (STANAG.unpack t (pre ++ a :: suf)).2 = .ok () ∧
    (STANAG.unpack t (pre ++ a' :: suf)).2 ≠ .ok () := by
  have hdl : (STANAG_pes s).pesdata.length = 36 := STANAG_data_length _ _ _ _
  have hst : Pkt_stuffing (PES_pkt (STANAG_pes s)) = [] := by simp [Pkt_stuffing, hfull]
  have hparts : Pkt_bytes (PES_pkt (STANAG_pes s)) = PES_front (STANAG_pes s) ++ (STANAG_pes s).pesdata := by
    have := PES_bytes_withData (STANAG_pes s) (STANAG_pes s).pesdata rfl
    rwa [withData_self, hst, List.append_nil] at this
  have h188 : (Pkt_bytes (PES_pkt (STANAG_pes s))).length = 188 := by rw [Pkt_bytes_length, hfull]; rfl
  have hfl : (PES_front (STANAG_pes s)).length = 152 := by
    have := congrArg List.length hparts
    rw [h188, List.length_append, hdl] at this; omega
  have hok : (STANAG.unpack t (Pkt_bytes (PES_pkt (STANAG_pes s)))).2 = .ok () := by
    rcases hhdr with ⟨hne', hnl⟩ | ⟨w1, w2, hd, he, hw1⟩
    · rw [STANAG_unpack_headerless s t h hw hs hafc hne' hfull hnl]
    · rw [STANAG_unpack_header s t h hw hs hafc w1 w2 hd he hw1 hfull]
  have hpack : (STANAG.pack s).2 = .ok (Pkt_bytes (PES_pkt (STANAG_pes s))) := by
    rw [STANAG_pack_eq s h, PES_pack_eq _ hw]
  refine ⟨by rw [hpack, hbuf], by rw [← hbuf, h188], by rw [← hbuf]; exact hok, ?_⟩
  rw [hparts] at hbuf
  obtain ⟨pre2, rfl, hdata⟩ := split_right _ _ pre suf a hbuf (by omega)
  have hhdr' : (PES.ext (STANAG_pes s) = none ∧ ¬ looksLikeHeader (STANAG_pes s)) ∨
      (∃ w1 w2 hd, PES.ext (STANAG_pes s) = some (w1, w2, hd) ∧ w1 / 16 = 8) := hhdr
  have hl1 : (pre2 ++ a :: suf).length = 36 := by rw [← hdata, hdl]
  have hl2 : (pre2 ++ a' :: suf).length = (STANAG_pes s).pesdata.length := by
    rw [hdata]; simp
  simp only [List.length_append, hfl] at hlo
  have ht : ∀ x : UInt8, List.take 1 (pre2 ++ x :: suf) = List.take 1 pre2 := fun x =>
    List.take_append_of_le_length (by omega)
  obtain ⟨p, hp, hpd, _⟩ := PES_unpack_withData (STANAG_pes s) t.pes (pre2 ++ a :: suf) (by rw [hdata])
    hw hs hafc hfull (by omega) (by rw [hdata]) hhdr'
  obtain ⟨p', hp', hpd', _⟩ := PES_unpack_withData (STANAG_pes s) t.pes (pre2 ++ a' :: suf) hl2
    hw hs hafc hfull (by rw [hl2, hdl]; decide) (by rw [hdata, ht, ht]) hhdr'
  rw [List.append_assoc]
  have hok' : (STANAG.unpack t (PES_front (STANAG_pes s) ++ (pre2 ++ a :: suf))).2 = .ok () := by
    rw [← hdata, ← hparts]; exact hok
  have hpos : pre2.length < 36 := by
    have := hl1; simp at this; omega
  exact STANAG_detects_flip_pesdata t _ _ p p' pre2 suf a a' hp hp' hpd hpd' hne hl1 ⟨by omega, hpos⟩ hok'

/-- the packet of the pinned test `test_stanag_create` (adaptation length 133, PTS header, time
    2024-01-25 15:07:59.767139 UTC) satisfies the hypotheses (header case) -/
def stanagFlipExample : STANAG :=
  { STANAG.fresh with
    pes := { PES.fresh with
             pkt := { Pkt.fresh with adaption_ctrl := 3, continuitycounter := 15,
                                     adaption_field := some { AF.fresh with length := 133 } },
             streamid := 0xFC, extension_w1 := some 0x81, extension_w2 := some 0x80,
             header_data := some [0x21, 0x04, 0x03, 0xFE, 0xD1] },
    stanag_counter := 15, time_us := 1706195279767139 }

example : STANAG_WF stanagFlipExample ∧ Pkt_used (PES_pkt (STANAG_pes stanagFlipExample)) = 188 ∧
    stanagFlipExample.pes.pkt.sync = 0x47 ∧ stanagFlipExample.pes.pkt.adaption_ctrl = 3 ∧
    PES.ext stanagFlipExample.pes = some (0x81, 0x80, [0x21, 0x04, 0x03, 0xFE, 0xD1]) ∧ 0x81 / 16 = 8 := by
  decide +kernel

/-- literal single-BIT flips: bit `k % 8` of byte `k / 8`, for every bit of the last 31 bytes -/
theorem STANAG_detects_bitflip (s t : STANAG) (h : STANAG_WF s) (hw : PES_WF (STANAG_pes s))
    (hs : s.pes.pkt.sync = 0x47) (hafc : s.pes.pkt.adaption_ctrl = 1 ∨ s.pes.pkt.adaption_ctrl = 3)
    (hfull : Pkt_used (PES_pkt (STANAG_pes s)) = 188)
    (hhdr : (PES.ext s.pes = none ∧ ¬ looksLikeHeader (STANAG_pes s)) ∨
      (∃ w1 w2 hd, PES.ext s.pes = some (w1, w2, hd) ∧ w1 / 16 = 8))
    (k : Nat) (hlo : 157 * 8 ≤ k) (hhi : k < 188 * 8) :
    (STANAG.unpack t (Acra.Lemmas.CRC.flipBit (Pkt_bytes (PES_pkt (STANAG_pes s))) k)).2 ≠ .ok () := by
  have h188 : (Pkt_bytes (PES_pkt (STANAG_pes s))).length = 188 := by rw [Pkt_bytes_length, hfull]; rfl
  obtain ⟨pre, a, suf, hbuf, hpl, hflip⟩ := flipBit_split (Pkt_bytes (PES_pkt (STANAG_pes s))) k (by omega)
  rw [hflip]
  exact (STANAG_detects_flip s t h hw hs hafc hfull hhdr pre suf a _ hbuf
    (fun e => Acra.Lemmas.CRC.flip_ne a (k % 8) (Nat.mod_lt _ (by decide)) e.symm) (by omega)).2.2.2

/-! ### review additions: joint witnesses; the excluded bits on an example -/

/-- the example packet: section at offset 5, `section_length` 18 (section = packet bytes 5..25, CRC at 22..25) -/
example : PMT_secOff pmtFlipExample = 5 ∧ PMT_slen pmtFlipExample = 18 ∧ PMT_WF pmtFlipExample := by decide +kernel

/-- joint witness for ALL hypotheses of `PMT_detects_flip_partial` and `PMT_flip_false_partial`: the packet cut at
    byte 9 (low byte of program_number, one of the 12 fixed bytes), 1 → 0xFF -/
example :
    let buf := Pkt_bytes (PMT_pkt pmtFlipExample)
    let pre := buf.take 9; let suf := buf.drop 10
    PMT_WF pmtFlipExample ∧ pmtFlipExample.pkt.sync = 0x47 ∧
    (pmtFlipExample.pkt.adaption_ctrl = 1 ∨ pmtFlipExample.pkt.adaption_ctrl = 3) ∧
    buf = pre ++ (1 : UInt8) :: suf ∧ (1 : UInt8) ≠ 0xFF ∧
    PMT_secOff pmtFlipExample ≤ pre.length ∧ pre.length < PMT_secOff pmtFlipExample + PMT_slen pmtFlipExample + 3 ∧
    (pre.length < PMT_secOff pmtFlipExample + 12 ∨ PMT_secOff pmtFlipExample + PMT_slen pmtFlipExample - 1 ≤ pre.length) ∧
    pre.length ≠ PMT_secOff pmtFlipExample + 2 ∧ pre.length ≠ PMT_secOff pmtFlipExample + 11 ∧
    (pre.length = PMT_secOff pmtFlipExample + 1 → (1 : UInt8).toNat % 16 = (0xFF : UInt8).toNat % 16) ∧
    (pre.length = PMT_secOff pmtFlipExample + 10 → (1 : UInt8).toNat % 16 = (0xFF : UInt8).toNat % 16) := by
  decide +kernel

/-- joint witness for `PMT_detects_bitflip_partial`: the first bit of the section (k = 40), a bit of the descriptor
    (k = 17·8+3), the HIGH nibble of section byte 1 (k = 6·8+4), the last bit of the CRC (k = 25·8+7) -/
example : ∀ k ∈ [40, 139, 52, 207],
    PMT_secOff pmtFlipExample ≤ k / 8 ∧ k / 8 < PMT_secOff pmtFlipExample + PMT_slen pmtFlipExample + 3 ∧
    k / 8 ≠ PMT_secOff pmtFlipExample + 2 ∧ k / 8 ≠ PMT_secOff pmtFlipExample + 11 ∧
    (k / 8 = PMT_secOff pmtFlipExample + 1 → 4 ≤ k % 8) ∧ (k / 8 = PMT_secOff pmtFlipExample + 10 → 4 ≤ k % 8) := by
  decide +kernel

/-- joint witness for ALL hypotheses of `PMT_flip_false_wellformed`: descriptor tag 5 → 4 at packet byte 17 -/
example :
    let s' : PMT := { pmtFlipExample with descriptor_tags := [{ tag := some 4, data := [1, 2, 3] }] }
    let buf := Pkt_bytes (PMT_pkt pmtFlipExample)
    let pre := buf.take 17; let suf := buf.drop 18
    PMT_WF pmtFlipExample ∧ PMT_WF s' ∧ s'.pkt = pmtFlipExample.pkt ∧ pmtFlipExample.pkt.sync = 0x47 ∧
    (pmtFlipExample.pkt.adaption_ctrl = 1 ∨ pmtFlipExample.pkt.adaption_ctrl = 3) ∧
    buf = pre ++ (5 : UInt8) :: suf ∧ (5 : UInt8) ≠ 4 ∧
    pre ++ (4 : UInt8) :: suf = (Pkt_hdr (PMT_pkt pmtFlipExample) ++ Pkt_af (PMT_pkt pmtFlipExample) ++ [0]) ++
      (PMT_hdr s' ++ (PMT_loops s' ++ (PMT_crc4 pmtFlipExample ++ Pkt_stuffing (PMT_pkt pmtFlipExample)))) := by
  decide +kernel

/-- **the bits the `_partial` theorems exclude, on the example**: flipping any of the 8 bits of the pointer field
    (packet byte 4), of the 12 `section_length` bits (low nibble of byte 6, byte 7) or of the 12 `program_info_length`
    bits (low nibble of byte 15, byte 16) is ALSO reported — `unpack` does not return True (it raises `struct.error` /
    `IndexError`); no general CRC argument covers these positions, this is a check of one packet -/
example : ∀ k ∈ [32, 33, 34, 35, 36, 37, 38, 39, 48, 49, 50, 51, 56, 57, 58, 59, 60, 61, 62, 63,
                  120, 121, 122, 123, 128, 129, 130, 131, 132, 133, 134, 135],
    (match (PMT.unpack PMT.fresh (Acra.Lemmas.CRC.flipBit (Pkt_bytes (PMT_pkt pmtFlipExample)) k)).2 with
     | .ok true => false | _ => true) = true := by
  decide +kernel

/-- joint witness for ALL hypotheses of `STANAG_detects_flip` (header case): the packet cut at byte 160 (inside the
    universal key); `STANAG_detects_bitflip`: the first and the last bit of the region -/
example :
    let buf := Pkt_bytes (PES_pkt (STANAG_pes stanagFlipExample))
    let pre := buf.take 160; let suf := buf.drop 161
    STANAG_WF stanagFlipExample ∧ PES_WF (STANAG_pes stanagFlipExample) ∧ stanagFlipExample.pes.pkt.sync = 0x47 ∧
    (stanagFlipExample.pes.pkt.adaption_ctrl = 1 ∨ stanagFlipExample.pes.pkt.adaption_ctrl = 3) ∧
    Pkt_used (PES_pkt (STANAG_pes stanagFlipExample)) = 188 ∧
    (∃ w1 w2 hd, PES.ext stanagFlipExample.pes = some (w1, w2, hd) ∧ w1 / 16 = 8) ∧
    buf = pre ++ (0x34 : UInt8) :: suf ∧ (0x34 : UInt8) ≠ 0x35 ∧ 157 ≤ pre.length ∧
    157 * 8 ≤ 157 * 8 ∧ 157 * 8 < 188 * 8 ∧ 157 * 8 ≤ 188 * 8 - 1 ∧ 188 * 8 - 1 < 188 * 8 := by
  refine ⟨by decide, by decide +kernel, by decide, by decide, by decide +kernel,
    ⟨0x81, 0x80, [0x21, 0x04, 0x03, 0xFE, 0xD1], by decide, by decide⟩, by decide +kernel, by decide, by decide +kernel,
    by decide, by decide, by decide, by decide⟩

/-- … and for the header-less alternative of `hhdr`: counter 15, largest time, filled through the adaptation field -/
example :
    let s : STANAG :=
      { STANAG.fresh with
        pes := { PES.fresh with
                 pkt := { Pkt.fresh with adaption_ctrl := 3, adaption_field := some { AF.fresh with length := 141 } },
                 streamid := 0xFC },
        stanag_counter := 15, time_us := 0xFFFFFFFFFFFFFFFF }
    STANAG_WF s ∧ PES_WF (STANAG_pes s) ∧ s.pes.pkt.sync = 0x47 ∧ Pkt_used (PES_pkt (STANAG_pes s)) = 188 ∧
    PES.ext s.pes = none ∧ ¬ looksLikeHeader (STANAG_pes s) := by
  decide +kernel

end Acra.Props.C07
