/-
  C12, Chapter 10 file: write, iterate, resynchronise, survive truncation.

  A file is a `Bytes` value; `iterate data` is `for p in FileParser(…)` from offset 0 (result: the
  packets and the final `_offset`).  `fileOf [(j₁,p₁),…,(jₙ,pₙ)] tail = j₁ ++ p₁ ++ … ++ jₙ ++ pₙ ++ tail`.
  `Seg (j, p)` := `j` contains no sync pattern 25 EB (`syncFree`) and `p` is a packet in the reader's
  sense (`IsPacket`: starts 25 EB, carries its own length ≥ 8 little-endian at bytes 4..7).
-/
import Acra.Lemmas.Ch10File
namespace Acra.Props.C12
open Acra.Py Acra.Model.Ch10File Acra.Lemmas.Ch10File Acra.Gen.Ch11 Acra

example : IsPacket [0x25, 0xEB, 7, 0, 9, 0, 0, 0, 0xAA] := ⟨7, 0, 9, 0, 0, 0, [0xAA], rfl, by decide⟩
example : Seg ([0x00, 0x25, 0x25, 0xEC, 0xEB, 0x25], [0x25, 0xEB, 7, 0, 8, 0, 0, 0]) :=
  ⟨by decide, ⟨7, 0, 8, 0, 0, 0, [], rfl, by decide⟩⟩

/-- resynchronisation: iterating `junk p₁ junk p₂ … pₙ junk` returns exactly `[p₁,…,pₙ]`, in order, for all
    placements and lengths of sync-free junk (a junk byte 0x25 directly before a packet included) -/
theorem iterate_resync (segs : List (Bytes × Bytes)) (tail : Bytes) (hs : ∀ jp ∈ segs, Seg jp)
    (ht : syncFree tail = true) :
    ∃ o, iterate (fileOf segs tail) = .ok (segs.map (·.2), o) := by
  have hl := fileOf_length segs tail hs
  have := iter_file segs tail hs ht [] ((fileOf segs tail).length + 1) (by omega)
  simpa [iterate] using this

/-- write then iterate: well-formed Chapter 11 objects (standard sync word; with or without secondary header,
    payload lengths in every residue) written in one "wb" session are returned by iteration as the very byte
    strings `pack` produced, in the same order -/
theorem write_then_iterate (old : Bytes) (ss : List Acra.Model.Ch11.State)
    (hw : ∀ s ∈ ss, (Acra.Lemmas.Ch11.WFn s ∨ Acra.Lemmas.Ch11.WFs s) ∧ s.syncpattern = SYNC_WORD) :
    ∃ bs data o, writeAll old "wb" (ss.map fun s => Item.packed (Acra.Model.Ch11.pack s).2) = (data, .ok ()) ∧
      ss.map (fun s => (Acra.Model.Ch11.pack s).2) = bs.map .ok ∧ data = bs.flatten ∧
      iterate data = .ok (bs, o) := by
  obtain ⟨bs, h1, h2⟩ := packAll_ok ss hw
  have hitems : (ss.map fun s => Item.packed (Acra.Model.Ch11.pack s).2) = bs.map fun b => Item.packed (.ok b) := by
    have := congrArg (List.map Item.packed) h1
    simpa [List.map_map, Function.comp_def] using this
  have hseg : ∀ jp ∈ bs.map (fun p => (([] : Bytes), p)), Seg jp := by
    intro jp hjp
    simp only [List.mem_map] at hjp
    obtain ⟨p, hp, rfl⟩ := hjp
    exact ⟨rfl, h2 p hp⟩
  obtain ⟨o, ho⟩ := iterate_resync _ [] hseg rfl
  rw [fileOf_nojunk] at ho
  refine ⟨bs, bs.flatten, o, ?_, h1, rfl, by simpa [List.map_map, Function.comp_def] using ho⟩
  simp only [writeAll, if_true, hitems, writeItems_packed]
  simp

/-- truncation (crash = prefix): for the file cut at ANY byte `t`, iteration returns exactly the packets that
    are completely present in the first `t` bytes (`completeIn t segs`), unchanged and in order, then stops -/
theorem truncation (segs : List (Bytes × Bytes)) (tail : Bytes) (hs : ∀ jp ∈ segs, Seg jp)
    (ht : syncFree tail = true) (t : Nat) :
    ∃ o, iterate ((fileOf segs tail).take t) = .ok (completeIn t segs, o) := by
  have hl := fileOf_length segs tail hs
  have hc := completeIn_length segs hs t
  have := iter_truncated segs tail hs ht t [] (((fileOf segs tail).take t).length + 1)
    (by simp only [List.length_take]; omega)
  simpa [iterate] using this

/-- `completeIn` is what the statement says: a packet is listed iff it ends at or before the cut -/
theorem completeIn_spec (j p : Bytes) (segs : List (Bytes × Bytes)) (t : Nat) :
    completeIn t ((j, p) :: segs) =
      if j.length + p.length ≤ t then p :: completeIn (t - (j.length + p.length)) segs else [] := rfl

/-- for every file contents whatsoever: iteration stops, and yields no more items than the file has bytes,
    none of them empty -/
theorem items_le_bytes (data : Bytes) :
    ∃ ps o, iterate data = .ok (ps, o) ∧ ps.length ≤ data.length ∧ ∀ p ∈ ps, 0 < p.length := by
  have := iterFuel_total data (data.length + 1) 0 (by omega)
  simpa [iterate] using this

/-- `write` outside a "wb" session raises ("File name not defined"), and leaves the file as it was -/
theorem write_needs_wb (old : Bytes) (mode : String) (i : Item) (items : List Item) (h : mode ≠ "wb") :
    writeAll old mode (i :: items) = (old, .error .generic) := by
  simp [writeAll, h]

/-- `write` of something that is neither a Chapter 11 object nor `bytes` raises; what was written before stays -/
theorem write_other_raises (old : Bytes) (bs : List Bytes) (items : List Item) :
    writeAll old "wb" (bs.map Item.raw ++ Item.other :: items) = (bs.flatten, .error .generic) := by
  simp only [writeAll, if_true]
  suffices ∀ acc, writeItems acc (bs.map Item.raw ++ Item.other :: items) = (acc ++ bs.flatten, .error .generic) by
    simpa using this []
  induction bs with
  | nil => intro acc; simp [writeItems]
  | cons b bs ih => intro acc; simp [writeItems, ih (acc ++ b)]

end Acra.Props.C12
