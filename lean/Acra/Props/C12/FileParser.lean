/-
  C12, Chapter 10 file: write, iterate, resynchronise, survive truncation.

  A file is a `Bytes` value; `iterate data` is `for p in FileParser(…)` from offset 0 (result: the
  packets and the final `_offset`).  `fileOf [(j₁,p₁),…,(jₙ,pₙ)] tail = j₁ ++ p₁ ++ … ++ jₙ ++ pₙ ++ tail`.
  `Seg (j, p)` := `j` contains no sync pattern 25 EB (`syncFree`) and `p` is a packet in the reader's
  sense (`IsPacket`: starts 25 EB, carries its own length ≥ 8 little-endian at bytes 4..7).
-/
import Acra.Lemmas.Ch10File
import Acra.Lemmas.Ch11Cksum
namespace Acra.Props.C12
open Acra.Py Acra.Model.Ch10File Acra.Lemmas.Ch10File Acra.Gen.Ch11 Acra

example : IsPacket [0x25, 0xEB, 7, 0, 9, 0, 0, 0, 0xAA] := ⟨7, 0, 9, 0, 0, 0, [0xAA], rfl, by decide⟩
example : Seg ([0x00, 0x25, 0x25, 0xEC, 0xEB, 0x25], [0x25, 0xEB, 7, 0, 8, 0, 0, 0]) :=
  ⟨by decide, ⟨7, 0, 8, 0, 0, 0, [], rfl, by decide⟩⟩

/-- resynchronisation: iterating `junk p₁ junk p₂ … pₙ junk` returns exactly `[p₁,…,pₙ]`, in order, for all
    placements and lengths of sync-free junk (a junk byte 0x25 directly before a packet included) -/
theorem iterate_resync (segs : List (Bytes × Bytes)) (tail : Bytes) (hs : ∀ jp ∈ segs, Seg jp)
    (ht : syncFree tail = true) :
    ∃ o, iterate (fileOf segs tail) = .ok (segs.map (·.2), o) := by
  have hl := fileOf_length segs tail hs
  have := iter_file segs tail hs ht [] ((fileOf segs tail).length + 1) (by omega)
  simpa [iterate] using this

/-- non-vacuity: junk that ends in 0x25 before a 9-byte packet, empty junk before an 8-byte packet, a sync-free tail
    ending in 0x25 -/
example : (∀ jp ∈ [(([0x00, 0x25, 0x25, 0xEC, 0xEB, 0x25] : Bytes), ([0x25, 0xEB, 7, 0, 9, 0, 0, 0, 0xAA] : Bytes)),
                    ([], [0x25, 0xEB, 7, 0, 8, 0, 0, 0])], Seg jp) ∧ syncFree [0xEB, 0x25] = true := by
  refine ⟨?_, by decide⟩
  intro jp hjp
  simp only [List.mem_cons, List.not_mem_nil, or_false] at hjp
  rcases hjp with rfl | rfl
  · exact ⟨by decide, ⟨7, 0, 9, 0, 0, 0, [0xAA], rfl, by decide⟩⟩
  · exact ⟨by decide, ⟨7, 0, 8, 0, 0, 0, [], rfl, by decide⟩⟩

/-- write then iterate: well-formed Chapter 11 objects (standard sync word; with or without secondary header,
    payload lengths in every residue) written in one "wb" session are returned by iteration as the very byte
    strings `pack` produced, in the same order -/
theorem write_then_iterate (old : Bytes) (ss : List Acra.Model.Ch11.State)
    (hw : ∀ s ∈ ss, (Acra.Lemmas.Ch11.WFn s ∨ Acra.Lemmas.Ch11.WFs s) ∧ s.syncpattern = SYNC_WORD) :
    ∃ bs data o, writeAll old "wb" (ss.map fun s => Item.packed (Acra.Model.Ch11.pack s).2) = (data, .ok ()) ∧
      ss.map (fun s => (Acra.Model.Ch11.pack s).2) = bs.map .ok ∧ data = bs.flatten ∧
      iterate data = .ok (bs, o) := by
  obtain ⟨bs, h1, h2⟩ := packAll_ok ss hw
  have hitems : (ss.map fun s => Item.packed (Acra.Model.Ch11.pack s).2) = bs.map fun b => Item.packed (.ok b) := by
    have := congrArg (List.map Item.packed) h1
    simpa [List.map_map, Function.comp_def] using this
  have hseg : ∀ jp ∈ bs.map (fun p => (([] : Bytes), p)), Seg jp := by
    intro jp hjp
    simp only [List.mem_map] at hjp
    obtain ⟨p, hp, rfl⟩ := hjp
    exact ⟨rfl, h2 p hp⟩
  obtain ⟨o, ho⟩ := iterate_resync _ [] hseg rfl
  rw [fileOf_nojunk] at ho
  refine ⟨bs, bs.flatten, o, ?_, h1, rfl, by simpa [List.map_map, Function.comp_def] using ho⟩
  simp only [writeAll, if_true, hitems, writeItems_packed]
  simp

/-- non-vacuity: one object without and one with secondary header (payload lengths 5 and 3: both need filler).
    Excluded by `WFn`/`WFs`: objects with `data_checksum_size ≠ 0` and a non-standard sync pattern. -/
example : ∀ s ∈ [({ Acra.Model.Ch11.fresh with
      channelID := 0x1234, sequence := 3, packetflag := 0x35, datatype := 0x50, relativetimecounter := 0xFFFFFFFFFFFF,
      payload := [1, 2, 3, 4, 5] } : Acra.Model.Ch11.State),
    { Acra.Model.Ch11.fresh with
      channelID := 7, packetflag := 0xF7, has_secondary_header := true, ts_source := TS_IEEE1558,
      ptptime := ⟨1700000000, 999999999⟩, payload := [9, 8, 7] }],
    (Acra.Lemmas.Ch11.WFn s ∨ Acra.Lemmas.Ch11.WFs s) ∧ s.syncpattern = SYNC_WORD := by
  intro s hs
  simp only [List.mem_cons, List.not_mem_nil, or_false] at hs
  rcases hs with rfl | rfl
  · exact ⟨Or.inl (by simp [Acra.Lemmas.Ch11.WFn, Acra.Model.Ch11.fresh, DEFAULT_SYNCPATTERN, DEFAULT_DATATYPEVERSION, TS_RTC]), rfl⟩
  · exact ⟨Or.inr (by simp [Acra.Lemmas.Ch11.WFs, Acra.Model.Ch11.fresh, DEFAULT_SYNCPATTERN, DEFAULT_DATATYPEVERSION]), rfl⟩

/-- write then iterate for ANY mix of Chapter 11 objects (`true`: the successful `pack()` result of the object is written)
    and raw `bytes` items (`false`), each byte string being a packet in the reader's sense: the file is their
    concatenation and iteration returns the very byte strings, in order -/
theorem write_mixed_then_iterate (old : Bytes) (its : List (Bool × Bytes)) (h : ∀ it ∈ its, IsPacket it.2) :
    ∃ o, writeAll old "wb" (its.map fun it => if it.1 then Item.packed (.ok it.2) else Item.raw it.2) =
        ((its.map (·.2)).flatten, .ok ()) ∧
      iterate (its.map (·.2)).flatten = .ok (its.map (·.2), o) := by
  have hw : ∀ acc, writeItems acc (its.map fun it => if it.1 then Item.packed (.ok it.2) else Item.raw it.2) =
      (acc ++ (its.map (·.2)).flatten, .ok ()) := by
    induction its with
    | nil => intro acc; simp [writeItems]
    | cons it its ih =>
      intro acc
      have ih := ih (fun x hx => h x (by simp [hx]))
      obtain ⟨k, b⟩ := it
      cases k <;> simp [writeItems, ih]
  have hseg : ∀ jp ∈ (its.map (·.2)).map (fun p => (([] : Bytes), p)), Seg jp := by
    intro jp hjp
    simp only [List.mem_map] at hjp
    obtain ⟨p, ⟨it, hit, rfl⟩, rfl⟩ := hjp
    exact ⟨rfl, h it hit⟩
  obtain ⟨o, ho⟩ := iterate_resync _ [] hseg rfl
  rw [fileOf_nojunk] at ho
  refine ⟨o, ?_, by simpa [List.map_map, Function.comp_def] using ho⟩
  simp only [writeAll, if_true]
  simpa using hw []

example : ∀ it ∈ [(false, ([0x25, 0xEB, 7, 0, 9, 0, 0, 0, 0xAA] : Bytes)), (true, [0x25, 0xEB, 7, 0, 8, 0, 0, 0])], IsPacket it.2 := by
  intro it hit
  simp only [List.mem_cons, List.not_mem_nil, or_false] at hit
  rcases hit with rfl | rfl
  · exact ⟨7, 0, 9, 0, 0, 0, [0xAA], rfl, by decide⟩
  · exact ⟨7, 0, 8, 0, 0, 0, [], rfl, by decide⟩

/-- truncation (crash = prefix): for the file cut at ANY byte `t`, iteration returns exactly the packets that
    are completely present in the first `t` bytes (`completeIn t segs`), unchanged and in order, then stops -/
theorem truncation (segs : List (Bytes × Bytes)) (tail : Bytes) (hs : ∀ jp ∈ segs, Seg jp)
    (ht : syncFree tail = true) (t : Nat) :
    ∃ o, iterate ((fileOf segs tail).take t) = .ok (completeIn t segs, o) := by
  have hl := fileOf_length segs tail hs
  have hc := completeIn_length segs hs t
  have := iter_truncated segs tail hs ht t [] (((fileOf segs tail).take t).length + 1)
    (by simp only [List.length_take]; omega)
  simpa [iterate] using this

/-- `completeIn` is what the statement says: a packet is listed iff it ends at or before the cut -/
theorem completeIn_spec (j p : Bytes) (segs : List (Bytes × Bytes)) (t : Nat) :
    completeIn t ((j, p) :: segs) =
      if j.length + p.length ≤ t then p :: completeIn (t - (j.length + p.length)) segs else [] := rfl

/-- the hypotheses of `truncation` are those of `iterate_resync` (witness above); what `completeIn` says on that file:
    cut one byte short of the end of the first packet nothing is returned, cut exactly there the first packet is -/
example :
    let segs : List (Bytes × Bytes) := [([0x00, 0x25, 0x25, 0xEC, 0xEB, 0x25], [0x25, 0xEB, 7, 0, 9, 0, 0, 0, 0xAA]),
                                         ([], [0x25, 0xEB, 7, 0, 8, 0, 0, 0])]
    completeIn 14 segs = [] ∧ completeIn 15 segs = [[0x25, 0xEB, 7, 0, 9, 0, 0, 0, 0xAA]] ∧
    completeIn 22 segs = [[0x25, 0xEB, 7, 0, 9, 0, 0, 0, 0xAA]] ∧ (completeIn 23 segs).length = 2 := by decide

/-- for every file contents whatsoever: iteration stops, and yields no more items than the file has bytes,
    none of them empty -/
theorem items_le_bytes (data : Bytes) :
    ∃ ps o, iterate data = .ok (ps, o) ∧ ps.length ≤ data.length ∧ ∀ p ∈ ps, 0 < p.length := by
  have := iterFuel_total data (data.length + 1) 0 (by omega)
  simpa [iterate] using this

/-- `write` outside a "wb" session raises ("File name not defined"), and leaves the file as it was -/
theorem write_needs_wb (old : Bytes) (mode : String) (i : Item) (items : List Item) (h : mode ≠ "wb") :
    writeAll old mode (i :: items) = (old, .error .generic) := by
  simp [writeAll, h]

example : ("ab" : String) ≠ "wb" := by decide

/-- `write` of something that is neither a Chapter 11 object nor `bytes` raises; what was written before stays -/
theorem write_other_raises (old : Bytes) (bs : List Bytes) (items : List Item) :
    writeAll old "wb" (bs.map Item.raw ++ Item.other :: items) = (bs.flatten, .error .generic) := by
  simp only [writeAll, if_true]
  suffices ∀ acc, writeItems acc (bs.map Item.raw ++ Item.other :: items) = (acc ++ bs.flatten, .error .generic) by
    simpa using this []
  induction bs with
  | nil => intro acc; simp [writeItems]
  | cons b bs ih => intro acc; simp [writeItems, ih (acc ++ b)]

/-! ### objects with `data_checksum_size = k > 0` (outside `WFn` / `WFs`, hence outside `write_then_iterate`)

  For such an object `pack` declares `k` bytes more than it emits (`C03.ch11_pack_shape_datacksum`), and the file reader
  reads by the declared length.  So the clause "objects written are returned as the same byte strings" is FALSE for
  them, for every `k > 0` — precisely: -/

/-- the full statement would be `write_then_iterate` with `WFnK ∨ WFsK` in place of `WFn ∨ WFs`; it fails already for
    one object: written alone (or last) it is NOT returned at all — the reader asks for `|b| + k` bytes, gets `|b|`, and
    stops with nothing -/
theorem datacksum_last_packet_lost (old : Bytes) (s : Acra.Model.Ch11.State)
    (h : Acra.Lemmas.Ch11.WFnK s ∨ Acra.Lemmas.Ch11.WFsK s) (hs : s.syncpattern = SYNC_WORD)
    (hk : 0 < s.data_checksum_size) :
    ∃ b, (Acra.Model.Ch11.pack s).2 = .ok b ∧
      writeAll old "wb" [Item.packed (Acra.Model.Ch11.pack s).2] = (b, .ok ()) ∧
      iterate b = .ok ([], b.length + s.data_checksum_size) := by
  have key : ∀ sec : Bytes, Acra.Lemmas.Ch11.totalK s sec.length + Spec.Ch11.fillLen (Acra.Lemmas.Ch11.totalK s sec.length) < 2 ^ 32 →
      (Acra.Model.Ch11.pack s).2 = .ok (Acra.Lemmas.Ch11.bytesK s sec) →
      ∃ b, (Acra.Model.Ch11.pack s).2 = .ok b ∧
        writeAll old "wb" [Item.packed (Acra.Model.Ch11.pack s).2] = (b, .ok ()) ∧
        iterate b = .ok ([], b.length + s.data_checksum_size) := by
    intro sec hlt hp
    exact ⟨_, hp, by rw [hp]; simp [writeAll, writeItems], iterate_none _ _ (next_bytesK_alone s sec hs hk hlt)⟩
  rcases h with h | h
  · have hfl := Acra.Lemmas.Ch11.fillLen_lt (Acra.Lemmas.Ch11.totalK s 0)
    have := h.2.2.2.2.2.2.2.2.2
    exact key [] (by simp only [Acra.Lemmas.Ch11.totalK, List.length_nil] at hfl ⊢; omega)
      (by rw [Acra.Lemmas.Ch11.pack_nosecK s h])
  · have hl : (Spec.Ch11.secHeader s.ptptime.seconds s.ptptime.nanoseconds).length = 12 := by
      simp [Spec.Ch11.secHeader]
    have hfl := Acra.Lemmas.Ch11.fillLen_lt (Acra.Lemmas.Ch11.totalK s 12)
    have := h.2.2.2.2.2.2.2.2.2.2.2
    exact key _ (by rw [hl]; simp only [Acra.Lemmas.Ch11.totalK] at hfl ⊢; omega)
      (by rw [Acra.Lemmas.Ch11.pack_secK s h])

/-- … and followed by anything of at least `k` bytes (for instance the next packet) the first item returned is the
    object's bytes WITH the first `k` bytes of what follows glued on — never the byte string `pack` produced -/
theorem datacksum_packet_swallows_next (s : Acra.Model.Ch11.State) (more : Bytes)
    (h : Acra.Lemmas.Ch11.WFnK s ∨ Acra.Lemmas.Ch11.WFsK s) (hs : s.syncpattern = SYNC_WORD)
    (hm : s.data_checksum_size ≤ more.length) :
    ∃ b ps o, (Acra.Model.Ch11.pack s).2 = .ok b ∧
      iterate (b ++ more) = .ok ((b ++ more.take s.data_checksum_size) :: ps, o) ∧
      (0 < s.data_checksum_size → b ++ more.take s.data_checksum_size ≠ b) := by
  have key : ∀ sec : Bytes, Acra.Lemmas.Ch11.totalK s sec.length + Spec.Ch11.fillLen (Acra.Lemmas.Ch11.totalK s sec.length) < 2 ^ 32 →
      (Acra.Model.Ch11.pack s).2 = .ok (Acra.Lemmas.Ch11.bytesK s sec) →
      ∃ b ps o, (Acra.Model.Ch11.pack s).2 = .ok b ∧
        iterate (b ++ more) = .ok ((b ++ more.take s.data_checksum_size) :: ps, o) ∧
        (0 < s.data_checksum_size → b ++ more.take s.data_checksum_size ≠ b) := by
    intro sec hlt hp
    obtain ⟨ps, o, hit⟩ := iterate_some _ _ _ (next_bytesK_more s sec more hs hm hlt)
    refine ⟨_, ps, o, hp, hit, ?_⟩
    intro hk heq
    have := congrArg List.length heq
    simp only [List.length_append, List.length_take] at this
    omega
  rcases h with h | h
  · have hfl := Acra.Lemmas.Ch11.fillLen_lt (Acra.Lemmas.Ch11.totalK s 0)
    have := h.2.2.2.2.2.2.2.2.2
    exact key [] (by simp only [Acra.Lemmas.Ch11.totalK, List.length_nil] at hfl ⊢; omega)
      (by rw [Acra.Lemmas.Ch11.pack_nosecK s h])
  · have hl : (Spec.Ch11.secHeader s.ptptime.seconds s.ptptime.nanoseconds).length = 12 := by
      simp [Spec.Ch11.secHeader]
    have hfl := Acra.Lemmas.Ch11.fillLen_lt (Acra.Lemmas.Ch11.totalK s 12)
    have := h.2.2.2.2.2.2.2.2.2.2.2
    exact key _ (by rw [hl]; simp only [Acra.Lemmas.Ch11.totalK] at hfl ⊢; omega)
      (by rw [Acra.Lemmas.Ch11.pack_secK s h])

/-- joint witness of the hypotheses (k = 2, standard sync word), and the two failures evaluated on it: written alone the
    26-byte packet is lost; written before an ordinary 28-byte packet `c` the reader returns 28 bytes (the packet plus
    the sync word of `c`) and then, resynchronising inside `c`, nothing more -/
example : (Acra.Lemmas.Ch11.WFnK { Acra.Model.Ch11.fresh with data_checksum_size := 2, payload := [1, 2] } ∨
      Acra.Lemmas.Ch11.WFsK { Acra.Model.Ch11.fresh with data_checksum_size := 2, payload := [1, 2] }) ∧
    ({ Acra.Model.Ch11.fresh with data_checksum_size := 2, payload := [1, 2] } : Acra.Model.Ch11.State).syncpattern = SYNC_WORD ∧
    0 < ({ Acra.Model.Ch11.fresh with data_checksum_size := 2, payload := [1, 2] } : Acra.Model.Ch11.State).data_checksum_size :=
  ⟨Or.inl (by simp [Acra.Lemmas.Ch11.WFnK, Acra.Model.Ch11.fresh, DEFAULT_SYNCPATTERN, DEFAULT_DATATYPEVERSION, TS_RTC]), rfl,
   by decide⟩
example : (iterate (Acra.Lemmas.Ch11.bytesK { Acra.Model.Ch11.fresh with data_checksum_size := 2, payload := [1, 2] } [])).toOption =
    some ([], 28) := by decide +kernel
example : ((iterate (Acra.Lemmas.Ch11.bytesK { Acra.Model.Ch11.fresh with data_checksum_size := 2, payload := [1, 2] } [] ++
      Acra.Lemmas.Ch11.bytesK { Acra.Model.Ch11.fresh with payload := [3, 4, 5, 6] } [])).toOption.map
        (fun r => r.1.map List.length)) = some [28] := by decide +kernel

end Acra.Props.C12
