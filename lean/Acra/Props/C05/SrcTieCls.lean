import Acra.Gen.Src.Cls.PcapRecord
import Acra.Model.Pcap
import Acra.Lemmas.SrcTieCls
namespace Acra.Props.C05
open Acra Acra.Py Acra.Lemmas.SrcTieCls

/-! Method source ties (C05): `PcapRecord.pack` and `PcapRecord.unpack` as they are written TODAY (regenerated from the
    Python source by `harness/translate_methods.py` on every run; `self.packet` resolved through its property to
    `self._payload`, `Pcap.RECORD_HEADER_FORMAT` evaluated from the class `Pcap`) equal the model `Acra.Model.Pcap.Rec`. -/

theorem src_PcapRecord_pack_of (s : Model.Pcap.Rec) :
    Gen.Src.Cls.PcapRecord.pack (PcapRecord.ofModel s) = (PcapRecord.ofModel s.pack.1, s.pack.2) := by
  unfold Gen.Src.Cls.PcapRecord.pack Model.Pcap.Rec.pack
  simp only [PcapRecord.ofModel, Gen.Pcap.RECORD_HEADER_FORMAT]
  rw [structPackI_cast _ [s.sec, s.usec, s.incl_len, s.orig_len] _ (by simp)]
  cases structPack ⟨false, [.u32, .u32, .u32, .u32]⟩ [s.sec, s.usec, s.incl_len, s.orig_len] <;> simp

/-- `PcapRecord.pack`, for every object in the model's domain (int attributes `≥ 0`) -/
theorem src_PcapRecord_pack (o : Gen.Src.Cls.PcapRecord.Obj) (h : PcapRecord.Dom o) :
    (PcapRecord.toModel (Gen.Src.Cls.PcapRecord.pack o).1, (Gen.Src.Cls.PcapRecord.pack o).2)
      = (PcapRecord.toModel o).pack := by
  have := src_PcapRecord_pack_of (PcapRecord.toModel o)
  rw [PcapRecord.ofModel_toModel o h] at this
  rw [this]; simp

example : PcapRecord.Dom { sec := 1700000000, usec := 999999, incl_len := 2, orig_len := 2, _payload := [1, 2] } := by
  decide

/-- `PcapRecord.unpack`, on the image of a model state and for every buffer.  (In the source `_payload` is cleared
    BEFORE `struct.unpack` runs, in the model after; the proof shows the difference is unobservable: once the length
    check has passed `struct.unpack` cannot raise.) -/
theorem src_PcapRecord_unpack_of (s : Model.Pcap.Rec) (buf : Bytes) :
    Gen.Src.Cls.PcapRecord.unpack (PcapRecord.ofModel s) buf
      = (PcapRecord.ofModel (s.unpack buf).1, (s.unpack buf).2) := by
  unfold Gen.Src.Cls.PcapRecord.unpack Model.Pcap.Rec.unpack
  simp only [Gen.Pcap.RECORD_HEADER_FORMAT, Py.len, structUnpackI_eq, Fmt.size, codesSize, Code.size, Nat.add_zero,
    Nat.reduceAdd]
  by_cases hlen : 16 = buf.length
  · have : (16 : Int) = ((buf.length : Nat) : Int) := by omega
    simp only [ne_eq, hlen, this, not_true_eq_false, if_false]
    cases hs : structUnpack ⟨false, [.u32, .u32, .u32, .u32]⟩ buf with
    | error e =>
      exfalso
      unfold structUnpack at hs
      simp [← hlen, Fmt.size, codesSize, Code.size] at hs
    | ok vs =>
      have hl := structUnpack_vals_length' _ _ _ hs
      match vs, hl with
      | [a, b, c, d], _ => simp [Py.intAt, PcapRecord.ofModel, Except.map]
  · have : ¬ (16 : Int) = ((buf.length : Nat) : Int) := by omega
    simp [hlen, this]

/-- `PcapRecord.unpack`, for every prior object in the model's domain and every buffer -/
theorem src_PcapRecord_unpack (o : Gen.Src.Cls.PcapRecord.Obj) (h : PcapRecord.Dom o) (buf : Bytes) :
    (PcapRecord.toModel (Gen.Src.Cls.PcapRecord.unpack o buf).1, (Gen.Src.Cls.PcapRecord.unpack o buf).2)
      = (PcapRecord.toModel o).unpack buf := by
  have := src_PcapRecord_unpack_of (PcapRecord.toModel o) buf
  rw [PcapRecord.ofModel_toModel o h] at this
  rw [this]; simp

end Acra.Props.C05
