import Acra.Lemmas.Pcap
import Acra.Lemmas.ReviewC05Pcap
import Acra.Lemmas.PcapNeg
import Acra.Spec.Net
namespace Acra.Props.C05
open Acra.Py Acra.Model.Pcap Acra.Gen.Pcap Acra.Lemmas.Pcap

/-- the bytes written on opening in mode "w" are the standard little-endian libpcap 2.4 global header
    d4 c3 b2 a1  02 00  04 00  00000000  00000000  ffff0000  01000000 -/
theorem header_std (fs : FS) :
    (openFile fs .w).2 = .ok () ∧ (openFile fs .w).1.file = some Spec.Pcap.globalHeader ∧
    Spec.Pcap.globalHeader =
      [0xd4, 0xc3, 0xb2, 0xa1, 0x02, 0x00, 0x04, 0x00, 0, 0, 0, 0, 0, 0, 0, 0, 0xff, 0xff, 0, 0, 0x01, 0, 0, 0] := by
  have hw := open_w_writable fs
  refine ⟨hw.1, ?_, by decide⟩
  rw [hw.2.1]
  congr 1

/-- a capture file as the format describes it: the global header followed by the records, each with both length
    fields equal to its payload length -/
theorem fileOf_eq_spec (rs : List Rec) (hwf : ∀ r ∈ rs, Rec_WF r) :
    fileOf rs = Spec.Pcap.file (rs.map fun r => (r.sec, r.usec, r.payload)) := by
  have hg : G = Spec.Pcap.globalHeader := by decide
  simp only [fileOf, Spec.Pcap.file, hg]
  congr 1
  induction rs with
  | nil => rfl
  | cons r rs ih =>
    obtain ⟨_, _, h3, h4, _⟩ := hwf r (by simp)
    simp only [List.flatMap_cons, List.map_cons, ih (fun x hx => hwf x (by simp [hx]))]
    simp [recBytes, recHdr, Spec.Pcap.record, encInt, h3, h4]

/-- the sessions of a capture: the first opens in mode "w", every later one in mode "a" -/
def runSessions (first : List Rec) (more : List (List Rec)) : FS :=
  more.foldl (fun fs rs => session fs .a rs) (session FS.fresh .w first)

/-- **every split of the record sequence into write sessions gives the same file**: header ++ records -/
theorem sessions_irrelevant (first : List Rec) (more : List (List Rec))
    (hf : ∀ r ∈ first, Rec_fits r) (hm : ∀ rs ∈ more, ∀ r ∈ rs, Rec_fits r) :
    (runSessions first more).file = some (fileOf (first ++ more.flatten)) := by
  unfold runSessions
  have h0 := session_w FS.fresh first hf
  generalize session FS.fresh .w first = fs0 at h0
  induction more generalizing fs0 first with
  | nil => simpa using h0
  | cons rs more ih =>
    simp only [List.foldl_cons, List.flatten_cons]
    have h1 := session_a fs0 _ rs h0 (hm rs (by simp))
    have := ih (first ++ rs) (fun r hr => by
      rcases List.mem_append.1 hr with h | h
      · exact hf r h
      · exact hm rs (by simp) r h) (fun x hx => hm x (by simp [hx])) _ (by
        rw [h1]; simp [fileOf, List.flatMap_append])
    simpa [List.append_assoc] using this

example : ∀ r ∈ [Rec.fresh.setPayload [1, 2, 3], { Rec.fresh with sec := 7 }], Rec_WF r := by
  intro r hr; simp at hr; rcases hr with h | h <;> subst h <;> simp [Rec_WF, Rec.fresh, Rec.setPayload]

/-- **read = write**: opening the file for reading and iterating returns the records written — same time stamps,
    lengths and payload bytes, same order -/
theorem read_write (fs : FS) (rs : List Rec) (hwf : ∀ r ∈ rs, Rec_WF r) (hf : fs.file = some (fileOf rs)) :
    (openFile fs .r).2 = .ok () ∧
    (readAll (fuelFor (openFile fs .r).1) (openFile fs .r).1).2 = .ok rs := by
  have ho := open_r_readable fs _ hf
  refine ⟨ho.1, ?_⟩
  rw [readAll_readable _ _ _ _ ho.2]
  have hd : List.drop 24 (G ++ rs.flatMap recBytes) = rs.flatMap recBytes := drop_append_len _ _ _ G_length.symm
  rw [hd]
  apply readRecs_all _ _ hwf
  have := fileOf_length_ge rs
  simp only [fuelFor, ho.2.1, Option.getD_some]
  simp only [fileOf] at this
  omega

/-- index access: `pcap[i]` is the i-th record written, `None` beyond the end — from any reading position -/
theorem getitem_eq (fs : FS) (rs : List Rec) (pos i : Nat) (hwf : ∀ r ∈ rs, Rec_WF r)
    (hr : Readable fs (fileOf rs) pos) : (getitem fs i).2 = .ok rs[i]? :=
  getitem_readable fs rs pos i hwf hr

/-- after opening for reading, index access works -/
theorem getitem_after_open (fs : FS) (rs : List Rec) (i : Nat) (hwf : ∀ r ∈ rs, Rec_WF r)
    (hf : fs.file = some (fileOf rs)) : (getitem (openFile fs .r).1 i).2 = .ok rs[i]? :=
  getitem_readable _ rs 24 i hwf (open_r_readable fs _ hf).2

/-- **truncation**: a file cut at any byte `t` at or after the global header reads as `truncSpec`: every record
    completely present, unchanged and in order, then — if the next 16-byte header is complete — that record with
    the part of its payload that is there and both lengths set to it; then iteration stops -/
theorem truncation (fs : FS) (rs : List Rec) (t : Nat) (hwf : ∀ r ∈ rs, Rec_WF r) (h24 : 24 ≤ t)
    (hf : fs.file = some ((fileOf rs).take t)) :
    (openFile fs .r).2 = .ok () ∧
    (readAll (fuelFor (openFile fs .r).1) (openFile fs .r).1).2 = .ok (truncSpec rs (t - 24)) := by
  have hcut : (fileOf rs).take t = G ++ (rs.flatMap recBytes).take (t - 24) := by
    simp only [fileOf]
    rw [List.take_append, List.take_of_length_le (by rw [G_length]; omega), G_length]
  rw [hcut] at hf
  have ho := open_r_readable fs _ hf
  refine ⟨ho.1, ?_⟩
  rw [readAll_readable _ _ _ _ ho.2]
  have hd : List.drop 24 (G ++ (rs.flatMap recBytes).take (t - 24)) = (rs.flatMap recBytes).take (t - 24) :=
    drop_append_len _ _ _ G_length.symm
  rw [hd]
  apply readRecs_truncated' _ _ _ hwf
  simp only [fuelFor, ho.2.1, Option.getD_some, List.length_append, G_length]
  omega

/-- shape of the result (the property's wording): `k` complete records — all those that end at or before the cut —
    unchanged and in order, then nothing or one record whose payload is a proper prefix of the next record's, with
    both length fields equal to that prefix's length -/
theorem truncation_shape (rs : List Rec) (n : Nat) :
    ∃ k tail, truncSpec rs n = rs.take k ++ tail ∧ k ≤ rs.length ∧ bytesOf (rs.take k) ≤ n ∧
      (k < rs.length → n < bytesOf (rs.take (k + 1))) ∧
      (tail = [] ∨ ∃ r m, rs[k]? = some r ∧ m < r.payload.length ∧ tail = [shorten r m] ∧
                         bytesOf (rs.take k) + 16 + m = n) :=
  truncSpec_shape rs n

/-- the shortened record: same time stamps, payload = the prefix, both lengths = the prefix length -/
theorem shorten_fields (r : Rec) (m : Nat) (h : m ≤ r.payload.length) :
    (shorten r m).sec = r.sec ∧ (shorten r m).usec = r.usec ∧ (shorten r m).payload = r.payload.take m ∧
    (shorten r m).incl_len = m ∧ (shorten r m).orig_len = m := by
  simp [shorten, Rec.setPayload]; omega

/-- for ARBITRARY file contents: iteration yields at most one record per 16 bytes of file (used by C08) -/
theorem items_le_bytes (fuel : Nat) (fs : FS) (rs : List Rec) (h : (readAll fuel fs).2 = .ok rs) :
    16 * rs.length ≤ (fs.file.getD []).length := by
  cases fuel with
  | zero => simp [readAll] at h
  | succ fuel =>
    cases hh : fs.h with
    | none => simp [readAll, next, hh] at h
    | some hd =>
      by_cases hrd : hd.closed = false ∧ hd.mode = .r
      · cases hfile : fs.file with
        | none =>
          have : rs = [] := by
            simpa [readAll, next, hh, hrd.1, hrd.2, hfile, nextRec_short] using h.symm
          simp [this]
        | some f =>
          have hR : Readable fs f hd.pos := ⟨hfile, hd, hh, hrd.2, hrd.1, rfl⟩
          rw [readAll_readable _ _ _ _ hR] at h
          have := readRecs_items_le _ _ _ h
          simp only [List.length_drop, Option.getD_some] at this ⊢
          omega
      · have : rs = [] := by
          have hc : (hd.closed || hd.mode != .r) = true := by
            cases hcl : hd.closed <;> cases hm : hd.mode <;> simp_all
          simpa [readAll, next, hh, hc] using h.symm
        simp [this]

/-! ### review additions: joint witnesses, end-to-end statements, exact case split of the truncation result -/

/-- three records used as joint witnesses: extreme 32-bit time stamps, an EMPTY payload, a one-byte payload -/
def wRecs : List Rec :=
  [ { sec := 0xFFFFFFFF, usec := 0xFFFFFFFF, incl_len := 3, orig_len := 3, payload := [1, 2, 3] },
    { sec := 5, usec := 0, incl_len := 0, orig_len := 0, payload := [] },
    { sec := 6, usec := 999999, incl_len := 1, orig_len := 1, payload := [9] } ]

theorem wRecs_WF : ∀ r ∈ wRecs, Rec_WF r := by
  intro r hr
  simp only [wRecs, List.mem_cons, List.not_mem_nil, or_false] at hr
  rcases hr with h | h | h <;> subst h <;> simp [Rec_WF]

/-- joint witness for `fileOf_eq_spec`, `sessions_irrelevant` (a split with an EMPTY session), `read_write`,
    `getitem_eq`, `getitem_after_open`, `truncation`: the hypotheses hold together for `wRecs` … -/
example : (∀ r ∈ wRecs, Rec_WF r) ∧ (∀ r ∈ [wRecs[0]], Rec_fits r) ∧
    (∀ rs ∈ [[], [wRecs[1], wRecs[2]]], ∀ r ∈ rs, Rec_fits r) ∧
    (⟨some (fileOf wRecs), none⟩ : FS).file = some (fileOf wRecs) ∧
    (24 ≤ 60 ∧ (⟨some ((fileOf wRecs).take 60), none⟩ : FS).file = some ((fileOf wRecs).take 60)) ∧
    Readable (openFile ⟨some (fileOf wRecs), none⟩ .r).1 (fileOf wRecs) 24 :=
  ⟨wRecs_WF, fun r hr => (wRecs_WF r (by simp only [List.mem_singleton] at hr; subst hr; decide)).fits,
   fun rs hrs r hr => (wRecs_WF r (by
      simp only [List.mem_cons, List.not_mem_nil, or_false] at hrs
      rcases hrs with h | h <;> subst h
      · simp at hr
      · simp only [List.mem_cons, List.not_mem_nil, or_false] at hr
        rcases hr with h | h <;> subst h <;> decide)).fits,
   rfl, ⟨by decide, rfl⟩, (open_r_readable _ _ rfl).2⟩

/-- … and the model, run on them, gives the stated results (the file is 24 + 19 + 16 + 17 = 76 bytes) -/
example : (fileOf wRecs).length = 76 := by decide
example : (readAll 200 (openFile (runSessions [wRecs[0]] [[], [wRecs[1], wRecs[2]]]) .r).1).2.toOption = some wRecs := by
  decide +kernel
example : (getitem (openFile (runSessions [wRecs[0]] [[], [wRecs[1], wRecs[2]]]) .r).1 1).2.toOption = some wRecs[1]? := by
  decide +kernel

/-- the truncation result at the interesting offsets of that file (n = offset − 24): a 16-byte header alone gives the
    record with an empty payload; the EMPTY-payload record is complete as soon as its header is; one byte short of a
    header gives nothing -/
example : truncSpec wRecs 15 = [] ∧ truncSpec wRecs 16 = [shorten wRecs[0] 0] ∧
    truncSpec wRecs 18 = [shorten wRecs[0] 2] ∧ truncSpec wRecs 19 = [wRecs[0]] ∧
    truncSpec wRecs 34 = [wRecs[0]] ∧ truncSpec wRecs 35 = [wRecs[0], wRecs[1]] ∧
    truncSpec wRecs 51 = [wRecs[0], wRecs[1], shorten wRecs[2] 0] ∧ truncSpec wRecs 52 = wRecs ∧
    truncSpec wRecs 1000 = wRecs := by decide
example : (shorten wRecs[0] 2) = { sec := 0xFFFFFFFF, usec := 0xFFFFFFFF, incl_len := 2, orig_len := 2, payload := [1, 2] } := by
  decide

/-- **end to end, write then read**: the records written in ANY split into sessions (w, a, a, …; empty sessions
    and empty record lists included) are read back after close — by iteration and by index -/
theorem sessions_then_read (first : List Rec) (more : List (List Rec))
    (hf : ∀ r ∈ first, Rec_WF r) (hm : ∀ rs ∈ more, ∀ r ∈ rs, Rec_WF r) :
    (openFile (runSessions first more) .r).2 = .ok () ∧
    (readAll (fuelFor (openFile (runSessions first more) .r).1) (openFile (runSessions first more) .r).1).2 =
      .ok (first ++ more.flatten) ∧
    ∀ i : Nat, (getitem (openFile (runSessions first more) .r).1 i).2 = .ok (first ++ more.flatten)[i]? := by
  have hfile := sessions_irrelevant first more (fun r hr => (hf r hr).fits) (fun rs hrs r hr => (hm rs hrs r hr).fits)
  have hwf : ∀ r ∈ first ++ more.flatten, Rec_WF r := by
    intro r hr
    rcases List.mem_append.1 hr with h | h
    · exact hf r h
    · obtain ⟨rs, hrs, hr'⟩ := List.mem_flatten.1 h
      exact hm rs hrs r hr'
  have := read_write (runSessions first more) _ hwf hfile
  exact ⟨this.1, this.2, fun i => getitem_after_open _ _ i hwf hfile⟩

example : (∀ r ∈ ([] : List Rec), Rec_WF r) ∧ ∀ rs ∈ [[], wRecs], ∀ r ∈ rs, Rec_WF r :=
  ⟨by simp, fun rs hrs r hr => by
    simp only [List.mem_cons, List.not_mem_nil, or_false] at hrs
    rcases hrs with h | h <;> subst h
    · simp at hr
    · exact wRecs_WF r hr⟩

/-- **end to end, crash**: the file left by any split into sessions, cut by the crash model `truncate` at any
    byte `t` from the end of the global header to the end of the file, reads as `truncSpec` -/
theorem sessions_then_truncate (first : List Rec) (more : List (List Rec)) (t : Nat)
    (hf : ∀ r ∈ first, Rec_WF r) (hm : ∀ rs ∈ more, ∀ r ∈ rs, Rec_WF r)
    (h24 : 24 ≤ t) (hle : t ≤ (fileOf (first ++ more.flatten)).length) :
    (truncate (runSessions first more) t).2 = .ok () ∧
    (openFile (truncate (runSessions first more) t).1 .r).2 = .ok () ∧
    (readAll (fuelFor (openFile (truncate (runSessions first more) t).1 .r).1)
        (openFile (truncate (runSessions first more) t).1 .r).1).2 =
      .ok (truncSpec (first ++ more.flatten) (t - 24)) := by
  have hfile := sessions_irrelevant first more (fun r hr => (hf r hr).fits) (fun rs hrs r hr => (hm rs hrs r hr).fits)
  have hwf : ∀ r ∈ first ++ more.flatten, Rec_WF r := by
    intro r hr
    rcases List.mem_append.1 hr with h | h
    · exact hf r h
    · obtain ⟨rs, hrs, hr'⟩ := List.mem_flatten.1 h
      exact hm rs hrs r hr'
  have hz : t - (fileOf (first ++ more.flatten)).length = 0 := by omega
  have htr : (truncate (runSessions first more) t).2 = .ok () ∧
      (truncate (runSessions first more) t).1.file = some ((fileOf (first ++ more.flatten)).take t) := by
    simp [truncate, closeIfOpen, hfile, hz]
  have := truncation _ _ t hwf h24 htr.2
  exact ⟨htr.1, this.1, this.2⟩

example : (∀ r ∈ [wRecs[0]], Rec_WF r) ∧ (∀ rs ∈ [[wRecs[1], wRecs[2]]], ∀ r ∈ rs, Rec_WF r) ∧ 24 ≤ 60 ∧
    60 ≤ (fileOf ([wRecs[0]] ++ [[wRecs[1], wRecs[2]]].flatten)).length :=
  ⟨fun r hr => wRecs_WF r (by simp only [List.mem_singleton] at hr; subst hr; decide),
   fun rs hrs r hr => wRecs_WF r (by
      simp only [List.mem_singleton] at hrs; subst hrs
      simp only [List.mem_cons, List.not_mem_nil, or_false] at hr
      rcases hr with h | h <;> subst h <;> decide), by decide, by decide⟩
example : (readAll 200 (openFile (truncate (runSessions [wRecs[0]] [[wRecs[1], wRecs[2]]]) 60).1 .r).1).2.toOption =
    some [wRecs[0], wRecs[1]] := by decide +kernel

/-- `truncation_shape` with the case split made exact: the result ends after the `k` complete records exactly when
    all records are complete or fewer than 16 bytes of the next one are present; otherwise the next header is complete
    and that record follows with the `m` payload bytes that are there (`m` may be 0), both lengths = `m` -/
theorem truncation_shape_exact (rs : List Rec) (n : Nat) :
    ∃ k tail, truncSpec rs n = rs.take k ++ tail ∧ k ≤ rs.length ∧ bytesOf (rs.take k) ≤ n ∧
      (k < rs.length → n < bytesOf (rs.take (k + 1))) ∧
      ((tail = [] ∧ (k = rs.length ∨ n < bytesOf (rs.take k) + 16)) ∨
        ∃ r m, rs[k]? = some r ∧ m < r.payload.length ∧ tail = [shorten r m] ∧
               bytesOf (rs.take k) + 16 + m = n) :=
  Acra.Lemmas.ReviewC05Pcap.truncSpec_shape_exact rs n

/-- a cut beyond the end of the file changes nothing (`List.take` past the end is the whole list): the result is `rs` -/
theorem truncation_past_end (rs : List Rec) (n : Nat) (h : bytesOf rs ≤ n) : truncSpec rs n = rs :=
  truncSpec_all rs n h

example : bytesOf wRecs ≤ 52 := by decide

/-- what `Rec_WF` excludes (documented exclusion, notes/net.md O5): a record whose `orig_len` was assigned
    directly and differs from the payload length (a snap-length-truncated capture) is written as is, but the
    reader puts the payload in through the `packet` setter, so it comes back with `orig_len = incl_len` -/
example :
    let r : Rec := { sec := 1, usec := 2, incl_len := 2, orig_len := 1500, payload := [7, 8] }
    Rec_fits r ∧ ¬ Rec_WF r ∧
    nextRec (recBytes r) = some ({ r with orig_len := 2 }, 18) := by
  refine ⟨by simp [Rec_fits], by simp [Rec_WF], by decide⟩

/-! ### review B8: negative and out-of-range indices; the sessions with their results -/

/-- **negative index**: `pcap[item]` with `item < 0` is `None` — NOT the record counted from the end, as Python's
    sequence convention would have it.  (`__getitem__` compares the running index 0, 1, 2, … of `enumerate(self)` with
    `item`; a negative `item` is never met, so the whole file is scanned.)  For ANY object state and ANY file
    contents; the two exceptions are those of every index access: no object (`AttributeError`), closed object
    (`ValueError`). -/
theorem getitem_negative (fs : FS) (item : Int) (hneg : item < 0) :
    (getitem fs item).2 =
      match fs.h with
      | none => .error .attribute
      | some h => if h.closed then .error .value else .ok none :=
  getitem_negative' fs item hneg

/-- … and on a file of records written by the library the scan leaves the read cursor at the END of the file: the
    next `next()` raises `StopIteration`, while index access (which rewinds) still returns every record -/
theorem getitem_negative_exhausts (fs : FS) (rs : List Rec) (pos : Nat) (item : Int) (hneg : item < 0)
    (hwf : ∀ r ∈ rs, Rec_WF r) (hr : Readable fs (fileOf rs) pos) :
    (getitem fs item).2 = .ok none ∧
    (next (getitem fs item).1).2 = .error .stopIteration ∧
    (readAll (fuelFor (getitem fs item).1) (getitem fs item).1).2 = .ok [] ∧
    ∀ i : Nat, (getitem (getitem fs item).1 i).2 = .ok rs[i]? := by
  obtain ⟨h1, h2⟩ := getitem_negative_readable fs rs pos item hneg hwf hr
  refine ⟨h1, next_at_end _ _ h2, ?_, fun i => getitem_readable _ rs _ i hwf h2⟩
  rw [readAll_readable _ _ _ _ h2, List.drop_length]
  exact readRecs_nil _ (by simp [fuelFor])

/-- **index beyond the end**: `None` (a corollary of `getitem_eq`, spelled out) -/
theorem getitem_beyond (fs : FS) (rs : List Rec) (pos i : Nat) (hi : rs.length ≤ i) (hwf : ∀ r ∈ rs, Rec_WF r)
    (hr : Readable fs (fileOf rs) pos) : (getitem fs i).2 = .ok none := by
  rw [getitem_eq fs rs pos i hwf hr, List.getElem?_eq_none hi]

/-- index access over ALL integers in one statement: the record with that number for `0 ≤ item < len`, `None`
    everywhere else -/
theorem getitem_int (fs : FS) (rs : List Rec) (pos : Nat) (item : Int) (hwf : ∀ r ∈ rs, Rec_WF r)
    (hr : Readable fs (fileOf rs) pos) :
    (getitem fs item).2 = .ok (if item < 0 then none else rs[item.toNat]?) := by
  by_cases hneg : item < 0
  · rw [if_pos hneg]
    exact (getitem_negative_readable fs rs pos item hneg hwf hr).1
  · rw [if_neg hneg]
    obtain ⟨n, rfl⟩ : ∃ n : Nat, item = n := ⟨item.toNat, by omega⟩
    simpa using getitem_eq fs rs pos n hwf hr

/-- witnesses on `wRecs` (three records): `pcap[-1]`, `pcap[-3]` and `pcap[3]` are `None`, `pcap[2]` is the last record;
    after `pcap[-1]` iteration yields nothing -/
example : (getitem (openFile ⟨some (fileOf wRecs), none⟩ .r).1 (-1)).2.toOption = some none := by decide +kernel
example : (getitem (openFile ⟨some (fileOf wRecs), none⟩ .r).1 (-3)).2.toOption = some none := by decide +kernel
example : (getitem (openFile ⟨some (fileOf wRecs), none⟩ .r).1 3).2.toOption = some none := by decide +kernel
example : (getitem (openFile ⟨some (fileOf wRecs), none⟩ .r).1 2).2.toOption = some wRecs[2]? := by decide +kernel
example : (readAll 200 (getitem (openFile ⟨some (fileOf wRecs), none⟩ .r).1 (-1)).1).2.toOption = some [] := by
  decide +kernel
/-- joint witness of the hypotheses of `getitem_negative_exhausts` / `getitem_beyond` / `getitem_int` -/
example : (-1 : Int) < 0 ∧ (∀ r ∈ wRecs, Rec_WF r) ∧
    Readable (openFile ⟨some (fileOf wRecs), none⟩ .r).1 (fileOf wRecs) 24 :=
  ⟨by decide, wRecs_WF, (open_r_readable _ _ rfl).2⟩
/-- `getitem_negative` on the other object states: no object, closed object, an object open for WRITING (the scan
    ends at once; `None`) -/
example : (getitem FS.fresh (-1)).2 = .error .attribute := getitem_negative FS.fresh (-1) (by decide)
example : (getitem (close (openFile FS.fresh .w).1).1 (-1)).2 = .error .value :=
  getitem_negative (close (openFile FS.fresh .w).1).1 (-1) (by decide)
example : (getitem (openFile FS.fresh .w).1 (-1)).2 = .ok none := getitem_negative (openFile FS.fresh .w).1 (-1) (by decide)

/-- **every operation of the write sessions succeeds** (what `sessions_irrelevant` left implicit): running the
    sessions with all results threaded (`runSessionsR`: the result of each `open`, `write`, `close`, in order) ends in
    the same state as `runSessions`, every one of the `Σ (|session| + 2)` results is `.ok ()`, and the file is the
    header followed by the records -/
theorem sessions_all_ok (first : List Rec) (more : List (List Rec))
    (hf : ∀ r ∈ first, Rec_fits r) (hm : ∀ rs ∈ more, ∀ r ∈ rs, Rec_fits r) :
    (runSessionsR first more).1 = runSessions first more ∧
    (∀ x ∈ (runSessionsR first more).2, x = .ok ()) ∧
    (runSessionsR first more).2.length = (first.length + 2) + (more.map (fun rs => rs.length + 2)).sum ∧
    (runSessionsR first more).1.file = some (fileOf (first ++ more.flatten)) := by
  have h0 := sessionR_ok FS.fresh .w G first (open_w_writable FS.fresh) hf
  have hfile := session_w FS.fresh first hf
  rw [← sessionR_fst] at hfile
  have := runSessionsR_fold more (sessionR FS.fresh .w first).1 (sessionR FS.fresh .w first).2 _ hfile hm
  have hfst : (runSessionsR first more).1 = runSessions first more := by
    simp only [runSessionsR, runSessions]
    rw [this.1, sessionR_fst]
  refine ⟨hfst, ?_, ?_, ?_⟩
  · intro x hx
    rcases this.2.1 x hx with h | h
    · exact h0.1 x h
    · exact h
  · simp only [runSessionsR]
    rw [this.2.2, h0.2]
  · rw [hfst]
    exact sessions_irrelevant first more hf hm

/-- witness: the three sessions `[r0] | [] | [r1, r2]` of `wRecs`: 3 + 2 + 4 = 9 operations, all `.ok ()` -/
example : (runSessionsR [wRecs[0]] [[], [wRecs[1], wRecs[2]]]).2.map (·.toOption) = List.replicate 9 (some ()) := by
  decide +kernel

end Acra.Props.C05
