/-
  C18, SAM/DEC pcap decommutation: reading a capture of iNET-X packets on the SAM/DEC stream, each
  carrying the 10-byte SAM/DEC header followed by a whole number of equal-length PCM frames that start
  with the sync word, yields exactly those frames, byte-identical and in order, and ignores packets
  that are not UDP, too short, not iNET-X or on another stream.

  Model: Acra.Model.SamDec.decom (= `list(SamDecPcap(file).frames())` with the exception, if any).
  Spec:  Acra.Spec.SamDec (capture / record / packet layouts), Acra.Spec.occ.
  Items, well-formedness, `FirstSync'` (in the first SAM/DEC packet the first two occurrences of the sync
  word are the first two frame starts), its list-free form `FirstClean`, the exact condition `FirstLen` and
  the earlier, stronger `FirstSync` (occurrences at the frame starts only) are defined in Acra.Lemmas.SamDec.
  The sync pattern may occur as data in any frame but the first of the first SAM/DEC packet.

  Outside the statement (DESIGN §8), shown by the examples at the end: a first SAM/DEC packet without a
  sync word raises `Exception`; a frame that does not start with the sync word raises `TypeError`
  (`frame_length = None`, then `int + None`) after the frames before it have been yielded.
-/
import Acra.Lemmas.SamDec
import Acra.Lemmas.SamDecConverse
namespace Acra.Props.C18
open Acra.Py Acra.Model.SamDec Acra.Model.Search Acra.Gen.SamDec Acra.Spec Acra.Spec.SamDec Acra.Lemmas.SamDec

/-- the exact form: for a capture built from records (time stamp, item), every item well formed for the
    common frame length `L`, and the first SAM/DEC packet one on which the code infers the frame length `L`
    (`FirstLen`), the decommutator returns the concatenation of all frames in order and ends without an
    exception.  Nothing is asked of the data of any frame. -/
theorem frames_exact_of_inferred (ghdr : Bytes) (L : Nat) (recs : List (Nat × Nat × Item))
    (hg : ghdr.length = 24)
    (hwf : ∀ r ∈ recs, r.2.2.WF L)
    (hfirst : FirstLen L (recs.map (·.2.2))) :
    decom (capture ghdr (recs.map fun r => record r.1 r.2.1 r.2.2.bytes)) =
      ((recs.map (·.2.2)).flatMap Item.frames, none) := by
  have hrd := pcapRecords_capture ghdr hg (recs.map fun r => (r.1, r.2.1, r.2.2.bytes))
    (by intro r hr
        simp only [List.mem_map] at hr
        obtain ⟨r', hr', rfl⟩ := hr
        exact (hwf r' hr').length_lt)
  simp only [List.map_map, Function.comp_def] at hrd
  have hgh : List.take SamDec_PCAP_GLOBAL_HEADER_SIZE
      (capture ghdr (recs.map fun r => record r.1 r.2.1 r.2.2.bytes)) = ghdr := by
    rw [capture, List.take_left' (by rw [hg]; rfl)]
  have hhdr : ∃ v, structUnpack SamDec_PCAP_GLOBAL_HEADER_FORMAT ghdr = .ok v := by
    simp [structUnpack, hg, SamDec_PCAP_GLOBAL_HEADER_FORMAT, Fmt.size, codesSize, Code.size]
  obtain ⟨v, hv⟩ := hhdr
  unfold decom getData
  rw [hgh, hv]
  simp only [hrd]
  unfold frames
  rw [sync_packed]
  have := framesLoop_items_len L (recs.map (·.2.2))
    (by intro it hit
        simp only [List.mem_map] at hit
        obtain ⟨r, hr, rfl⟩ := hit
        exact hwf r hr)
    none (Or.inr ⟨rfl, hfirst⟩)
  simp only [List.map_map, Function.comp_def] at this
  exact this

/-- the hypothesis of `frames_exact_of_inferred` is not only sufficient but NECESSARY: for a capture of well-formed
    items the decommutator returns exactly the frames carried (and ends without an exception) if and only if the
    frame length the code infers from the first SAM/DEC packet is `L`.  (Otherwise every frame it yields has the
    inferred length, or it raises.) -/
theorem frames_exact_iff (ghdr : Bytes) (L : Nat) (recs : List (Nat × Nat × Item))
    (hg : ghdr.length = 24)
    (hwf : ∀ r ∈ recs, r.2.2.WF L) :
    decom (capture ghdr (recs.map fun r => record r.1 r.2.1 r.2.2.bytes)) =
      ((recs.map (·.2.2)).flatMap Item.frames, none) ↔ FirstLen L (recs.map (·.2.2)) := by
  refine ⟨?_, frames_exact_of_inferred ghdr L recs hg hwf⟩
  intro h
  apply Classical.byContradiction
  intro hbad
  have hrd := pcapRecords_capture ghdr hg (recs.map fun r => (r.1, r.2.1, r.2.2.bytes))
    (by intro r hr
        simp only [List.mem_map] at hr
        obtain ⟨r', hr', rfl⟩ := hr
        exact (hwf r' hr').length_lt)
  simp only [List.map_map, Function.comp_def] at hrd
  have hgh : List.take SamDec_PCAP_GLOBAL_HEADER_SIZE
      (capture ghdr (recs.map fun r => record r.1 r.2.1 r.2.2.bytes)) = ghdr := by
    rw [capture, List.take_left' (by rw [hg]; rfl)]
  have hhdr : ∃ v, structUnpack SamDec_PCAP_GLOBAL_HEADER_FORMAT ghdr = .ok v := by
    simp [structUnpack, hg, SamDec_PCAP_GLOBAL_HEADER_FORMAT, Fmt.size, codesSize, Code.size]
  obtain ⟨v, hv⟩ := hhdr
  unfold decom getData at h
  rw [hgh, hv] at h
  simp only [hrd] at h
  unfold frames at h
  rw [sync_packed] at h
  have := framesLoop_items_conv L (recs.map (·.2.2)) (items_WF_of_recs hwf) hbad
  simp only [List.map_map, Function.comp_def] at this
  exact this h

/-- `frames_exact`: for a capture built from records (time stamp, item), every item well formed for the
    common frame length `L`, the decommutator returns the concatenation of all frames in order and ends
    without an exception.  `FirstSync'` asks only what the code needs of the first SAM/DEC packet: its first
    two occurrences of the sync word are the first two frame starts (or its single frame's start is the only
    occurrence).  The sync pattern may occur as data from the second frame of that packet on, and anywhere
    in the later packets, as C18 allows. -/
theorem frames_exact (ghdr : Bytes) (L : Nat) (recs : List (Nat × Nat × Item))
    (hg : ghdr.length = 24)
    (hwf : ∀ r ∈ recs, r.2.2.WF L)
    (hfirst : FirstSync' L (recs.map (·.2.2))) :
    decom (capture ghdr (recs.map fun r => record r.1 r.2.1 r.2.2.bytes)) =
      ((recs.map (·.2.2)).flatMap Item.frames, none) :=
  frames_exact_of_inferred ghdr L recs hg hwf (hfirst.firstLen (items_WF_of_recs hwf))

/-- the same theorem with the hypothesis said without lists: in the first SAM/DEC packet no occurrence of the
    sync word begins inside the 10-byte header or inside the first frame's data -/
theorem frames_exact_clean (ghdr : Bytes) (L : Nat) (recs : List (Nat × Nat × Item))
    (hg : ghdr.length = 24)
    (hwf : ∀ r ∈ recs, r.2.2.WF L)
    (hfirst : FirstClean L (recs.map (·.2.2))) :
    decom (capture ghdr (recs.map fun r => record r.1 r.2.1 r.2.2.bytes)) =
      ((recs.map (·.2.2)).flatMap Item.frames, none) :=
  frames_exact ghdr L recs hg hwf ((firstSync'_iff_clean (items_WF_of_recs hwf)).mpr hfirst)

/-- for well-formed items the two ways of saying the hypothesis agree -/
theorem FirstSync'_iff_FirstClean (L : Nat) (items : List Item) (hwf : ∀ it ∈ items, it.WF L) :
    FirstSync' L items ↔ FirstClean L items :=
  firstSync'_iff_clean hwf

/-- the earlier statement (the sync word occurs in the first SAM/DEC packet at the frame starts ONLY) is a
    corollary -/
theorem frames_exact_sync_only_at_starts (ghdr : Bytes) (L : Nat) (recs : List (Nat × Nat × Item))
    (hg : ghdr.length = 24)
    (hwf : ∀ r ∈ recs, r.2.2.WF L)
    (hfirst : FirstSync L (recs.map (·.2.2))) :
    decom (capture ghdr (recs.map fun r => record r.1 r.2.1 r.2.2.bytes)) =
      ((recs.map (·.2.2)).flatMap Item.frames, none) :=
  frames_exact ghdr L recs hg hwf (hfirst.firstSync' (items_WF_of_recs hwf))

/-- frame-length inference: one sync word (`k = 1`) gives `len(payload) − 10`, several give
    `offset[1] − offset[0]`; both are the frame length when the sync words are the `k` frame starts -/
theorem inferLength_exact (L k : Nat) (hk : 1 ≤ k) (payload : Bytes) (hlen : payload.length = 10 + k * L)
    (hocc : occ payload syncWord = (List.range k).map (fun j => 10 + L * j)) :
    inferLength syncWord payload = .ok (L : Int) :=
  inferLength_frames L k hk payload hlen hocc

/-- foreign traffic is ignored whatever the state: a packet that is too short, not UDP, not iNET-X or on
    another stream contributes no datagram, or a datagram that yields nothing and leaves `frame_length` alone -/
theorem foreign_ignored (pkt : Bytes) (h : Foreign pkt) (fl : Option Int) :
    udpData pkt = none ∨ ∃ d, udpData pkt = some d ∧ onPacket syncWord d fl = ([], fl, none) :=
  onPacket_foreign pkt h fl

/-- the fixed-offset UDP filter, exactly (C09-style): a record passes iff it is longer than 0x46 bytes and
    byte 0x17 is 17, and the datagram is everything from offset 0x2A -/
theorem udp_filter_iff (pkt : Bytes) :
    udpData pkt = if 0x46 < pkt.length ∧ pkt[0x17]? = some 17 then some (pkt.drop 0x2A) else none :=
  udpData_eq pkt

/-- reading the records of any file terminates (C08): the fuel `len(file) + 1` never runs out -/
theorem pcapRecords_fuel_sufficient (file : Bytes) : pcapRecords file ≠ .error .fuel :=
  decOff_fuel_sufficient pcapRec pcapMore file pcapRec_progress _ _ (by omega)

/-! Non-vacuity: a capture with a foreign (TCP) packet and two SAM/DEC packets of two and one 6-byte frames. -/

def exL234 : Bytes := List.replicate 23 0 ++ [17] ++ List.replicate 18 0
def exF (a b : UInt8) : Bytes := syncWord ++ [a, b]
def exItems : List (Nat × Nat × Item) :=
  [(1, 2, .foreign (List.replicate 23 0 ++ [6] ++ List.replicate 60 0)),
   (3, 4, .samdec exL234 0x11000000 7 8 9 0 (List.replicate 10 0) [exF 1 2, exF 3 4]),
   (5, 6, .samdec exL234 0x11000000 8 8 9 0 (List.replicate 10 1) [exF 5 6])]

example : ∀ r ∈ exItems, r.2.2.WF 6 := by
  intro r hr
  simp only [exItems, List.mem_cons, List.not_mem_nil, or_false] at hr
  rcases hr with rfl | rfl | rfl
  · exact ⟨Or.inr (Or.inl (by decide)), by decide⟩
  · refine ⟨by decide, by decide, by decide, by decide, by decide, by decide, by decide, by decide, by decide, ?_, by decide⟩
    intro f hf
    simp only [List.mem_cons, List.not_mem_nil, or_false] at hf
    rcases hf with rfl | rfl <;> exact ⟨by decide, by decide⟩
  · refine ⟨by decide, by decide, by decide, by decide, by decide, by decide, by decide, by decide, by decide, ?_, by decide⟩
    intro f hf
    simp only [List.mem_cons, List.not_mem_nil, or_false] at hf
    rcases hf with rfl <;> exact ⟨by decide, by decide⟩

example : FirstSync 6 (exItems.map (·.2.2)) := by
  simp only [exItems, List.map_cons, FirstSync]
  decide

example : FirstSync' 6 (exItems.map (·.2.2)) := by
  simp only [exItems, List.map_cons, FirstSync']
  exact Or.inl ⟨[], by decide⟩

example : decom (capture (List.replicate 24 0) (exItems.map fun r => record r.1 r.2.1 r.2.2.bytes)) =
    ([exF 1 2, exF 3 4, exF 5 6], none) := by decide +kernel

/-! The sync pattern as DATA: 10-byte frames; the second frame of the first SAM/DEC packet and the frame of the
    second packet carry the sync word again in their data (`occ = [10, 20, 25]` in the first packet).  The old
    hypothesis `FirstSync` fails, `FirstSync'` / `FirstClean` hold, and the frames come back intact. -/

def exG (a : UInt8) (d : Bytes) : Bytes := syncWord ++ [a] ++ d
def exPlanted : List (Nat × Nat × Item) :=
  [(1, 2, .foreign (List.replicate 23 0 ++ [6] ++ List.replicate 60 0)),
   (3, 4, .samdec exL234 0x11000000 7 8 9 0 (List.replicate 10 0)
      [exG 1 [2, 3, 4, 5, 6], exG 9 (syncWord ++ [9])]),
   (5, 6, .samdec exL234 0x11000000 8 8 9 0 (List.replicate 10 1) [exG 7 (syncWord ++ [8])])]

example : ∀ r ∈ exPlanted, r.2.2.WF 10 := by
  intro r hr
  simp only [exPlanted, List.mem_cons, List.not_mem_nil, or_false] at hr
  rcases hr with rfl | rfl | rfl
  · exact ⟨Or.inr (Or.inl (by decide)), by decide⟩
  · refine ⟨by decide, by decide, by decide, by decide, by decide, by decide, by decide, by decide, by decide, ?_, by decide⟩
    intro f hf
    simp only [List.mem_cons, List.not_mem_nil, or_false] at hf
    rcases hf with rfl | rfl <;> exact ⟨by decide, by decide⟩
  · refine ⟨by decide, by decide, by decide, by decide, by decide, by decide, by decide, by decide, by decide, ?_, by decide⟩
    intro f hf
    simp only [List.mem_cons, List.not_mem_nil, or_false] at hf
    rcases hf with rfl <;> exact ⟨by decide, by decide⟩

example : occ (List.replicate 10 0 ++ [exG 1 [2, 3, 4, 5, 6], exG 9 (syncWord ++ [9])].flatten) syncWord = [10, 20, 25] := by
  decide

example : FirstSync' 10 (exPlanted.map (·.2.2)) := by
  simp only [exPlanted, List.map_cons, FirstSync']
  exact Or.inl ⟨[25], by decide⟩

example : FirstClean 10 (exPlanted.map (·.2.2)) := by
  simp only [exPlanted, List.map_cons, FirstClean]
  decide

example : ¬ FirstSync 10 (exPlanted.map (·.2.2)) := by
  simp only [exPlanted, List.map_cons, FirstSync]
  decide

example : decom (capture (List.replicate 24 0) (exPlanted.map fun r => record r.1 r.2.1 r.2.2.bytes)) =
    ([exG 1 [2, 3, 4, 5, 6], exG 9 (syncWord ++ [9]), exG 7 (syncWord ++ [8])], none) := by decide +kernel

/-! `FirstLen` is strictly weaker than `FirstSync'`: with 8-byte frames and the sync word at offset 2 of the
    SAM/DEC header the occurrences are `[2, 10, 18]`, the code infers 10 − 2 = 8, and the frames come back. -/
def exHdrSync : List (Nat × Nat × Item) :=
  [(3, 4, .samdec exL234 0x11000000 7 8 9 0 ([0, 0] ++ syncWord ++ [0, 0, 0, 0])
      [syncWord ++ [1, 2, 3, 4], syncWord ++ [5, 6, 7, 8]])]
example : FirstLen 8 (exHdrSync.map (·.2.2)) := by
  simp only [exHdrSync, List.map_cons, FirstLen]
  have : occ ([0, 0] ++ syncWord ++ [0, 0, 0, 0] ++ [syncWord ++ [1, 2, 3, 4], syncWord ++ [5, 6, 7, 8]].flatten) syncWord =
      [2, 10, 18] := by decide
  unfold inferLength
  rw [Acra.Lemmas.Search.bmh_eq_occ _ syncWord (by decide), this]
  rfl
example : ¬ FirstSync' 8 (exHdrSync.map (·.2.2)) := by
  simp only [exHdrSync, List.map_cons, FirstSync']
  rintro (⟨rest, h⟩ | ⟨h, _⟩)
  · have : (occ ([0, 0] ++ syncWord ++ [0, 0, 0, 0] ++ [syncWord ++ [1, 2, 3, 4], syncWord ++ [5, 6, 7, 8]].flatten) syncWord).head? = some 2 := by
      decide
    rw [h] at this
    cases this
  · revert h; decide

example : decom (capture (List.replicate 24 0) (exHdrSync.map fun r => record r.1 r.2.1 r.2.2.bytes)) =
    ([syncWord ++ [1, 2, 3, 4], syncWord ++ [5, 6, 7, 8]], none) := by decide +kernel

/-! `FirstSync'` is what the code needs of the frame STARTS; the sync pattern inside the first frame's data
    (here at offset 15 of the payload) makes the code infer the frame length 5 instead of 10: three 5-byte
    "frames", then `TypeError`. -/
example : decom (capture (List.replicate 24 0)
    [record 0 0 (packet exL234 0 0 0 0 0 (List.replicate 10 0) [exG 1 (syncWord ++ [2]), exG 3 [4, 5, 6, 7, 8]])]) =
    ([syncWord ++ [1], syncWord ++ [2], syncWord ++ [3]], some .type) := by decide +kernel

/-- non-vacuity of `inferLength_exact`: a 10-byte header and two 6-byte frames, sync words at 10 and 16 -/
example : (1 : Nat) ≤ 2 ∧ (List.replicate 10 0 ++ exF 1 2 ++ exF 3 4 : Bytes).length = 10 + 2 * 6 ∧
    occ (List.replicate 10 0 ++ exF 1 2 ++ exF 3 4) syncWord = (List.range 2).map (fun j => 10 + 6 * j) := by decide

/-- non-vacuity of `foreign_ignored`, one witness per kind of foreign traffic the property names: too short; not UDP
    (protocol byte 6); UDP but not iNET-X (the length field does not match); well-formed iNET-X on another stream
    (stream id 1; the last one is longer than 0x46 bytes and says UDP, so only the stream clause applies) -/
example : Foreign (List.replicate 10 0) ∧
    Foreign (List.replicate 23 0 ++ [6] ++ List.replicate 60 0) ∧
    Foreign (exL234 ++ List.replicate 30 0) ∧
    Foreign (exL234 ++ [0, 0, 0, 0, 0, 0, 0, 1, 0, 0, 0, 0, 0, 0, 0, 32] ++ List.replicate 16 0) ∧
    ¬ ((exL234 ++ [0, 0, 0, 0, 0, 0, 0, 1, 0, 0, 0, 0, 0, 0, 0, 32] ++ List.replicate 16 0 : Bytes).length ≤ 0x46) ∧
    (exL234 ++ [0, 0, 0, 0, 0, 0, 0, 1, 0, 0, 0, 0, 0, 0, 0, 32] ++ List.replicate 16 0 : Bytes)[0x17]? = some 17 := by
  refine ⟨Or.inl (by decide), Or.inr (Or.inl (by decide)), Or.inr (Or.inr (Or.inl (by decide))),
    Or.inr (Or.inr (Or.inr (by decide))), by decide, by decide⟩

/-! Outside the hypotheses: no sync word in the first SAM/DEC packet → `Exception`;
    a later frame without sync → the frames before it, then `TypeError`. -/
example : decom (capture (List.replicate 24 0)
    [record 0 0 (packet exL234 0 0 0 0 0 (List.replicate 10 0) [[1, 2, 3, 4, 5, 6]])]) = ([], some .generic) := by decide +kernel
example : decom (capture (List.replicate 24 0)
    [record 0 0 (packet exL234 0 0 0 0 0 (List.replicate 10 0) [exF 1 2, exF 3 4]),
     record 0 0 (packet exL234 0 0 0 0 0 (List.replicate 10 0) [exF 5 6, [9, 9, 9, 9, 9, 9]])]) =
    ([exF 1 2, exF 3 4, exF 5 6], some .type) := by decide +kernel

end Acra.Props.C18
