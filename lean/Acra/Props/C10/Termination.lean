/-
  C10, part 5 — termination and frame length of the encapsulator on ARBITRARY traffic.

  For EVERY packet sequence with ANY low-latency marking — the K3 region (a low-latency PTDP that does not fit
  the free space of the frame under construction) included — and EVERY frame length L ≥ 1:
  * `datapktsToPtfr_fuel_sufficient_any` — `datapkts_to_ptfr` terminates: the model, which runs the two `while`
    loops with the fuel `|remainder| + 1` (inner) and `|remainder| + 2` (outer), never answers `.error .fuel`
    nor any other error;
  * `frames_len_any` — … and every frame it yields has exactly L payload bytes and packs to 4 + L bytes.
    (`Stream.frames_len` is the same conclusion under the hypothesis `h : datapktsToPtfr … = .ok …`, which was
    proved only for normal traffic and under `NoLLPOverflow`; this discharges `h` unconditionally.)
  * `spillFull_fuel_sufficient_any`, `spill_fuel_sufficient_any` — the two loops separately, from ANY loop state
    (no layout invariant): the inner loop drops L ≥ 1 bytes per iteration and leaves ≤ L bytes; the outer loop's
    body runs at most once;
  * `spillFull_fuel_irrelevant_any`, `spill_fuel_irrelevant_any` — the fuel the model chose is not part of the
    result: any larger fuel gives the same answer.
  * `encap_byte_count_any` — byte accounting on any traffic: frames × L + pending = Σ (6 + payload + continuation byte).
  L = 0 is excluded and must be: the library does not terminate there (example at the end).
-/
import Acra.Lemmas.Chapter7Term
namespace Acra.Props.C10
open Acra.Py Acra.Model.Chapter7 Acra.Lemmas.Chapter7 Acra.Gen.Chapter7

/-- the inner loop `while len(remainder) > ptfr_len`, from any loop state, with the fuel `spill` gives it
    (`|remainder| + 1`): it returns, leaves at most L bytes, and every iteration emitted one frame and consumed
    exactly L bytes of the remainder (so it ran `(|o'| − |out|) ≤ |remainder| / L` times) -/
theorem spillFull_fuel_sufficient_any (L sid : Nat) (hL : 0 < L) (a : Bool) (cur : PTFR.State) (rem : Bytes)
    (out : List PTFR.State) :
    ∃ a' c' r' o', spillFull L sid (rem.length + 1) a cur rem out = .ok (a', c', r', o') ∧ r'.length ≤ L ∧
      out.length ≤ o'.length ∧ (o'.length - out.length) * L + r'.length = rem.length := by
  obtain ⟨a', c', r', o', h, hr, _, hlen, hsum⟩ := spillFull_ok_any L sid hL (rem.length + 1) a cur rem out (by omega)
  refine ⟨a', c', r', o', h, hr, hlen, ?_⟩
  rw [Nat.sub_mul]
  have := Nat.mul_le_mul_right L hlen
  omega

/-- the outer loop `while remainder != bytes()`, from any loop state, with the fuel `encStep` gives it -/
theorem spill_fuel_sufficient_any (L sid : Nat) (hL : 0 < L) (a : Bool) (cur : PTFR.State) (rem : Bytes)
    (out : List PTFR.State) : ∃ c' o', spill L sid (rem.length + 2) a cur rem out = .ok (c', o') :=
  spill_ok L sid hL _ (by omega) a cur rem out

/-- more fuel never changes the inner loop's answer -/
theorem spillFull_fuel_irrelevant_any (L sid : Nat) (hL : 0 < L) (fuel : Nat) (a : Bool) (cur : PTFR.State)
    (rem : Bytes) (out : List PTFR.State) (hf : rem.length + 1 ≤ fuel) :
    spillFull L sid fuel a cur rem out = spillFull L sid (rem.length + 1) a cur rem out :=
  spillFull_fuel_irrelevant L sid hL _ _ a cur rem out (by omega) (by omega)

/-- more fuel never changes the outer loop's answer -/
theorem spill_fuel_irrelevant_any (L sid : Nat) (hL : 0 < L) (fuel : Nat) (a : Bool) (cur : PTFR.State)
    (rem : Bytes) (out : List PTFR.State) (hf : rem.length + 2 ≤ fuel) :
    spill L sid fuel a cur rem out = spill L sid (rem.length + 2) a cur rem out :=
  spill_fuel_irrelevant L sid hL _ _ (by omega) (by omega) a cur rem out

/-- `datapkts_to_ptfr` terminates (and raises nothing) on EVERY input, for every frame length ≥ 1 -/
theorem datapktsToPtfr_fuel_sufficient_any (pkts : List (Bytes × Bool)) (L sid : Nat) (hL : 0 < L) :
    ∃ cur out, datapktsToPtfr pkts L sid = .ok (cur, out) :=
  datapktsToPtfr_ok pkts L sid hL

/-- frames_len, unconditional: ANY traffic, any frame length ≥ 1 — the encapsulator returns, and every frame it
    yields has a payload of exactly L bytes (and the length attribute L) and packs to 4 + L bytes; the frame
    under construction holds at most L bytes -/
theorem frames_len_any (pkts : List (Bytes × Bool)) (L sid : Nat) (hL : 0 < L) (hs : sid < 16) :
    ∃ cur out, datapktsToPtfr pkts L sid = .ok (cur, out) ∧ cur.payload.length ≤ L ∧
      ∀ f ∈ out, f.payload.length = L ∧ f.length = L ∧ ∃ b, (PTFR.pack f).2 = .ok b ∧ b.length = 4 + L := by
  obtain ⟨cur, out, h⟩ := datapktsToPtfr_ok pkts L sid hL
  obtain ⟨hopen, hfull⟩ := encFold_full L sid (datapktsToPtdp pkts) (newPtfr L sid) [] cur out
    (newPtfr_open L sid) (by simp) h
  exact ⟨cur, out, h, hopen.2.1, fun f hf => ⟨(hfull f hf).2.1, (hfull f hf).1, fullFrame_pack L sid hs f (hfull f hf)⟩⟩

/-- the payload half needs no bound on the stream id -/
theorem frames_len_any_payload (pkts : List (Bytes × Bool)) (L sid : Nat) (hL : 0 < L) :
    ∃ cur out, datapktsToPtfr pkts L sid = .ok (cur, out) ∧ ∀ f ∈ out, f.payload.length = L := by
  obtain ⟨cur, out, h⟩ := datapktsToPtfr_ok pkts L sid hL
  obtain ⟨_, hfull⟩ := encFold_full L sid (datapktsToPtdp pkts) (newPtfr L sid) [] cur out
    (newPtfr_open L sid) (by simp) h
  exact ⟨cur, out, h, fun f hf => (hfull f hf).2.1⟩

/-- work bound / byte accounting, ANY traffic: the encapsulator neither loses nor invents a byte — not even in the K3
    region (there bytes end up in the WRONG place, not nowhere).  Frames yielded × L + bytes pending = the sum over the
    PTDPs of `datapkts_to_ptdp` of 6 header bytes + payload + 1 continuation byte if low-latency (`ptdpCost`); hence the
    number of frames yielded is at most that sum / L. -/
theorem encap_byte_count_any (pkts : List (Bytes × Bool)) (L sid : Nat) (hL : 0 < L) :
    ∃ cur out, datapktsToPtfr pkts L sid = .ok (cur, out) ∧
      out.length * L + cur.payload.length = ((datapktsToPtdp pkts).map ptdpCost).sum ∧
      out.length ≤ ((datapktsToPtdp pkts).map ptdpCost).sum / L := by
  obtain ⟨cur, out, h⟩ := datapktsToPtfr_ok pkts L sid hL
  have hc := datapktsToPtfr_conserve pkts L sid hL cur out h
  refine ⟨cur, out, h, hc, ?_⟩
  rw [Nat.le_div_iff_mul_le hL, ← hc]
  omega

/-! ### witnesses -/

/-- the hypotheses (`0 < L`, `sid < 16`) on a sequence in the K3 region: for L = 24 the low-latency insertions of this
    sequence overflow the frame (`¬ NoLLPOverflow`, LowLatency.lean) … -/
example : (0 : Nat) < 24 ∧ (1 : Nat) < 16 ∧ ¬ NoLLPOverflow
    [([1, 2, 3], false), ([9, 9], true), (List.replicate 40 7, false), ([], true), ([5], true), ([4, 4], false)]
    24 1 := by decide +kernel
/-- … and the encapsulator returns three full frames for it, as `frames_len_any` says -/
example : ((datapktsToPtfr
    [([1, 2, 3], false), ([9, 9], true), (List.replicate 40 7, false), ([], true), ([5], true), ([4, 4], false)]
    24 1).toOption.map fun r => (r.2.map (·.payload.length), r.1.payload.length)) = some ([24, 24, 24], 15) := by
  decide +kernel
/-- … 87 = 9 + 9 + 46 + 7 + 8 + 8 bytes = 3 × 24 + 15, as `encap_byte_count_any` says -/
example : ((datapktsToPtdp
    [([1, 2, 3], false), ([9, 9], true), (List.replicate 40 7, false), ([], true), ([5], true), ([4, 4], false)]).map
    ptdpCost).sum = 3 * 24 + 15 := by decide +kernel
/-- a low-latency packet LONGER than the frame (L = 5 < 6 + 3 + 1): four full frames -/
example : ((datapktsToPtfr [([1], false), ([7, 7, 7], true), ([2], false)] 5 1).toOption.map fun r =>
    (r.2.map (·.payload.length), r.1.payload.length)) = some ([5, 5, 5, 5], 4) := by decide +kernel
/-- a loop state with no layout invariant at all (the frame in hand is over-full, the flags arbitrary): 7 bytes, L = 3 -/
example : (spillFull 3 1 (7 + 1) true { newPtfr 3 1 with payload := [9, 9, 9, 9, 9] } [1, 2, 3, 4, 5, 6, 7] []).toOption.map
    (fun r => (r.2.2.1, r.2.2.2.length)) = some ([7], 2) := by decide +kernel
example : (spill 3 1 (7 + 2) true { newPtfr 3 1 with payload := [9, 9, 9, 9, 9] } [1, 2, 3, 4, 5, 6, 7] []).toOption.map
    (fun r => (r.1.payload, r.2.length)) = some ([7], 3) := by decide +kernel
/-- the excluded frame length: for L = 0 the library's generator never finishes (model: `.error .fuel`) -/
example : (match datapktsToPtfr [([1], false)] 0 1 with | .error .fuel => true | _ => false) = true := by decide +kernel

end Acra.Props.C10
