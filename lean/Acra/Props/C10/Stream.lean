/-
  C10, part 2 — the encapsulator on normal (non-low-latency) traffic, for ALL packet sequences and
  ALL frame lengths L ≥ 1.

  Notation: `ptdps pkts` = datapkts_to_ptdp of the packets (none low-latency), `encB p` = the bytes
  PTDP.pack returns for a well-formed PTDP (= Spec.PTDP.encode, `encB_spec`), `S` = their
  concatenation, `starts` = the positions in `S` at which a PTDP header begins.
  `datapktsToPtfr` returns the frames yielded so far AND the frame under construction (which the
  library never yields): "packets whose last byte has been emitted" is the completeness notion.
-/
import Acra.Lemmas.Chapter7Enc
import Acra.Lemmas.Chapter7Len
import Acra.Lemmas.Chapter7Spec
namespace Acra.Props.C10
open Acra.Py Acra.Model.Chapter7 Acra.Lemmas.Chapter7 Acra.Gen.Chapter7
open Acra.Spec.Ch7 (offset startsAux)

/- `normal pkts` = the packets, none marked low-latency; `ptdps pkts` = datapkts_to_ptdp of them;
   `encs pkts` = their encodings in order; `stream pkts` = the concatenation (Lemmas.Chapter7Enc). -/

theorem ptdps_wf (pkts : List Bytes) : ∀ p ∈ ptdps pkts, PTDP_WF p ∧ p.low_latency = false :=
  ptdps_wf' pkts

/-- every PTDP the library builds packs to the Chapter 7 layout -/
theorem ptdps_pack_layout (pkts : List Bytes) (p : PTDP.State) (hp : p ∈ ptdps pkts) :
    (PTDP.pack p).2 = .ok (Spec.PTDP.encode p.fragment p.content p.payload) := by
  rw [pack_encB p (ptdps_wf pkts p hp).1, encB_spec p (ptdps_wf pkts p hp).1]

/-- the encapsulator terminates (for L ≥ 1) and its state is the stream cut into L-byte frames -/
theorem encap_invariant (pkts : List Bytes) (L sid : Nat) (hL : 0 < L) :
    ∃ cur out, datapktsToPtfr (normal pkts) L sid = .ok (cur, out) ∧
      EncInv L sid (encs pkts) cur out := encap_inv pkts L sid hL

/-- frames_len — ANY traffic (low-latency packets, overflowing insertions included), any frame length:
    every frame the encapsulator yields has a payload of exactly L bytes and packs to 4 + L bytes -/
theorem frames_len (pkts : List (Bytes × Bool)) (L sid : Nat) (hs : sid < 16)
    (cur : PTFR.State) (out : List PTFR.State) (h : datapktsToPtfr pkts L sid = .ok (cur, out)) :
    ∀ f ∈ out, f.payload.length = L ∧ ∃ b, (PTFR.pack f).2 = .ok b ∧ b.length = 4 + L := by
  obtain ⟨_, hfull⟩ := encFold_full L sid (datapktsToPtdp pkts) (newPtfr L sid) [] cur out
    (newPtfr_open L sid) (by simp) h
  intro f hf
  exact ⟨(hfull f hf).2.1, fullFrame_pack L sid hs f (hfull f hf)⟩

/-- payload_stream (prefix law): the emitted payloads followed by the pending frame are the stream,
    and every emitted payload is a full frame -/
theorem payload_stream (pkts : List Bytes) (L sid : Nat) (hL : 0 < L)
    (cur : PTFR.State) (out : List PTFR.State) (h : datapktsToPtfr (normal pkts) L sid = .ok (cur, out)) :
    (out.map (·.payload)).flatten ++ cur.payload = stream pkts ∧
    (∀ f ∈ out, f.payload.length = L) ∧ cur.payload.length ≤ L ∧
    out.length = (stream pkts).length.pred / L := by
  obtain ⟨cur', out', h', inv⟩ := encap_invariant pkts L sid hL
  rw [h] at h'; injection h' with h'; injection h' with h1 h2; subst h1 h2
  have hlo := inv.lo
  have hhi := inv.hi
  rw [succ_mul'] at hhi
  refine ⟨?_, ?_, ?_, ?_⟩
  · conv => lhs; rw [inv.out_eq, inv.cur_eq]
    simp only [List.map_map, Function.comp_def, frameOf_payload]
    rw [pieces_concat]
    exact List.take_append_drop _ _
  · intro f hf
    rw [inv.out_eq, List.mem_map] at hf
    obtain ⟨k, hk, rfl⟩ := hf
    have hk' : k < out.length := List.mem_range.1 hk
    have hkl : (k + 1) * L ≤ out.length * L := Nat.mul_le_mul_right L hk'
    simp only [frameOf, slice_length]
    rw [succ_mul'] at hkl ⊢; omega
  · rw [inv.cur_eq]; simp only [List.length_drop]; unfold stream at *; omega
  · unfold stream
    by_cases h0 : (encs pkts).flatten.length = 0
    · rw [h0]
      have : out.length * L = 0 := by omega
      rcases Nat.mul_eq_zero.1 this with h | h
      · simp [h]
      · omega
    · -- a frame is emitted only when it overflows: the pending frame is never empty
      have hpos := inv.pos (by omega)
      symm
      apply Nat.div_eq_of_lt_le
      · simp only [Nat.pred_eq_sub_one]; omega
      · simp only [Nat.pred_eq_sub_one]; rw [succ_mul']; omega

/-- offset_correct: each emitted frame's offset field is the position, relative to the frame, of the
    first PTDP header that begins in it, or the reserved 0x7FF if none does; the LLP flag is clear -/
theorem offset_correct (pkts : List Bytes) (L sid : Nat) (hL : 0 < L)
    (cur : PTFR.State) (out : List PTFR.State) (h : datapktsToPtfr (normal pkts) L sid = .ok (cur, out))
    (k : Nat) (hk : k < out.length) :
    out[k].ptdp_offset = offset L (startsAux 0 (encs pkts)) k ∧ out[k].llp = false ∧
    out[k].streamid = sid ∧ out[k].version = 0 ∧ out[k].length = L := by
  obtain ⟨cur', out', h', inv⟩ := encap_invariant pkts L sid hL
  rw [h] at h'; injection h' with h'; injection h' with h1 h2; subst h1 h2
  have : out[k] = frameOf L sid (encs pkts).flatten (startsAux 0 (encs pkts)) k := by
    have := inv.out_eq
    conv => lhs; rw [List.getElem_of_eq this hk]
    simp
  rw [this]
  exact ⟨rfl, rfl, rfl, rfl, rfl⟩

/-- fragmentation, short packets: one COMPLETE PTDP carrying the packet -/
theorem fragmentation_small (b : Bytes) (llp : Bool) (h : b.length ≤ 2048) :
    ptdpsOf b llp = [mkPtdp llp PTDP_FRAGMENT_COMPLETE b] := by
  simp [ptdpsOf, PTDP_MAX_LEN, h]

/-- fragmentation, long packets: n = ⌈len/2048⌉ ≥ 2 PTDPs — FIRST, MIDDLE…, LAST (`fragOf`) — whose
    payloads are the consecutive 2048-byte pieces of the packet (the last one 1..2048 bytes), all
    carrying the packet's low-latency marking and content = Ethernet MAC -/
theorem fragmentation_large (b : Bytes) (llp : Bool) (h : 2048 < b.length) :
    ptdpsOf b llp = (List.range ((b.length + 2047) / 2048)).map (fragOf b llp ((b.length + 2047) / 2048)) ∧
    ((List.range ((b.length + 2047) / 2048)).map
      (fun i => (fragOf b llp ((b.length + 2047) / 2048) i).payload)).flatten = b ∧
    2 ≤ (b.length + 2047) / 2048 ∧
    (∀ i, i + 1 < (b.length + 2047) / 2048 → (fragOf b llp ((b.length + 2047) / 2048) i).payload.length = 2048) ∧
    (∀ i, i < (b.length + 2047) / 2048 →
      0 < (fragOf b llp ((b.length + 2047) / 2048) i).payload.length ∧
      (fragOf b llp ((b.length + 2047) / 2048) i).payload.length ≤ 2048) := by
  have hn : b.length ≤ 2048 * ((b.length + 2047) / 2048) := by omega
  have hn2 : 2048 * ((b.length + 2047) / 2048) < b.length + 2048 := by omega
  refine ⟨?_, ?_, by omega, ?_, ?_⟩
  · have hgt : ¬ b.length ≤ PTDP_MAX_LEN := by simp only [PTDP_MAX_LEN]; omega
    unfold ptdpsOf
    rw [if_neg hgt]
    simp only [PTDP_MAX_LEN]
    rw [show b.length + 2048 - 1 = b.length + 2047 by omega,
      fragmentsFrom_eq b llp _ hn _ 0 (by omega), List.range_eq_range']
  · have := frag_concat b ((b.length + 2047) / 2048) 0
    rw [List.range_eq_range']
    simp only [fragOf, mkPtdp] at this ⊢
    rw [this]
    simp [slice, List.take_of_length_le hn]
  · intro i hi
    simp only [fragOf, mkPtdp, slice_length]; omega
  · intro i hi
    simp only [fragOf, mkPtdp, slice_length]; omega

example : (2048 : Nat) < (List.replicate 5000 (0 : UInt8)).length := by
  rw [List.length_replicate]; decide

/-- frames = Spec: the frames the encapsulator has yielded, as `PTFR.pack` returns them, are exactly the Spec's frames -/
theorem frames_eq_spec (pkts : List Bytes) (L sid : Nat) (hL : 0 < L) (hL2 : L ≤ 2047) (hs : sid < 16)
    (cur : PTFR.State) (out : List PTFR.State) (h : datapktsToPtfr (normal pkts) L sid = .ok (cur, out)) :
    out.map (fun f => (PTFR.pack f).2) = (Spec.Ch7.frames L sid pkts).map .ok := by
  obtain ⟨cur', out', h', inv⟩ := encap_invariant pkts L sid hL
  rw [h] at h'; injection h' with h'; injection h' with h1 h2; subst h1 h2
  have hlen : out.length = ((stream pkts).length - 1) / L := (payload_stream pkts L sid hL cur out h).2.2.2
  have hout := inv.out_eq
  rw [hlen] at hout
  rw [hout, List.map_map]
  exact frames_wire_spec pkts L sid hL2 hs

/-! ### review additions: the clause-level statements against the Spec (not only `stream`/`encs` of the model's own
    PTDPs), and joint witnesses for the hypothesis `h` -/

/-- payload_stream against the Spec: the emitted payloads followed by the pending frame are the Spec's PTDP stream
    (`Spec.Ch7.stream`: Golay-protected PTDP encodings of the packets in order, long packets fragmented) -/
theorem payload_stream_spec (pkts : List Bytes) (L sid : Nat) (hL : 0 < L)
    (cur : PTFR.State) (out : List PTFR.State) (h : datapktsToPtfr (normal pkts) L sid = .ok (cur, out)) :
    (out.map (·.payload)).flatten ++ cur.payload = Spec.Ch7.stream pkts ∧
    (∀ f ∈ out, f.payload.length = L) ∧ cur.payload.length ≤ L ∧
    out.length = ((Spec.Ch7.stream pkts).length - 1) / L := by
  have := payload_stream pkts L sid hL cur out h
  rwa [stream_eq_spec] at this

/-- offset_correct against the Spec, with the payload of each frame: frame `k` carries bytes `[kL, (k+1)L)` of the
    Spec's stream and its offset field is `Spec.Ch7.offset` on the Spec's PTDP start positions -/
theorem offset_correct_spec (pkts : List Bytes) (L sid : Nat) (hL : 0 < L)
    (cur : PTFR.State) (out : List PTFR.State) (h : datapktsToPtfr (normal pkts) L sid = .ok (cur, out))
    (k : Nat) (hk : k < out.length) :
    out[k].payload = slice (Spec.Ch7.stream pkts) (k * L) ((k + 1) * L) ∧
    out[k].ptdp_offset = offset L (Spec.Ch7.starts pkts) k ∧ out[k].llp = false := by
  obtain ⟨cur', out', h', inv⟩ := encap_invariant pkts L sid hL
  rw [h] at h'; injection h' with h'; injection h' with h1 h2; subst h1 h2
  have : out[k] = frameOf L sid (encs pkts).flatten (startsAux 0 (encs pkts)) k := by
    have := inv.out_eq
    conv => lhs; rw [List.getElem_of_eq this hk]
    simp
  rw [this, ← stream_eq_spec, ← starts_eq_spec]
  exact ⟨rfl, rfl, rfl⟩

/-- fragmentation against the Spec: the encodings of the PTDPs the library builds for one packet are the Spec's
    (`chunks` of 2048 bytes with codes complete / first, middle…, last) -/
theorem fragmentation_spec (b : Bytes) :
    (ptdpsOf b false).map (fun p => (PTDP.pack p).2) = (Spec.Ch7.ptdpsOf b).map .ok := by
  rw [← ptdpsOf_encB_spec, List.map_map]
  apply List.map_congr_left
  intro p hp
  exact pack_encB p (ptdpsOf_wf b false p hp).1

/-- joint witness for the hypothesis `h` shared by `frames_len`, `payload_stream`, `offset_correct`, `frames_eq_spec`:
    packets `[1,2,3]`, `[4,5]`, frame length 4, stream id 1 — 17 stream bytes, 4 frames yielded (a PTDP header split
    after 1 byte across frames 2/3, a frame wholly inside a PTDP), offsets 0, none, 1, none; 1 byte pending -/
example : ((datapktsToPtfr (normal [[1, 2, 3], [4, 5]]) 4 1).toOption.map fun r =>
    (r.2.length, r.2.map (·.ptdp_offset), r.2.map (·.payload.length), r.1.payload.length)) =
    some (4, [0, 2047, 1, 2047], [4, 4, 4, 4], 1) := by decide +kernel
example : (0 : Nat) < 4 ∧ 4 ≤ 2047 ∧ (1 : Nat) < 16 := by decide
/-- … and the yielded frames, packed, are the Spec's frames, concretely -/
example : ((datapktsToPtfr (normal [[1, 2, 3], [4, 5]]) 4 1).toOption.map fun r => r.2.map fun f => (PTFR.pack f).2.toOption) =
    some ((Spec.Ch7.frames 4 1 [[1, 2, 3], [4, 5]]).map some) := by decide +kernel
/-- a PTDP ending exactly on a frame boundary (9 bytes, L = 9): next frame's offset is 0 -/
example : ((datapktsToPtfr (normal [[1, 2, 3], [4, 5, 6], [7]]) 9 1).toOption.map fun r =>
    (r.2.map (·.ptdp_offset), r.1.ptdp_offset)) = some ([0, 0], 0) := by decide +kernel
/-- joint witness for `frames_len` on mixed traffic (low-latency insertions, one of them overflowing for L = 24) -/
example : ((datapktsToPtfr
    [([1, 2, 3], false), ([9, 9], true), (List.replicate 40 7, false), ([], true), ([5], true), ([4, 4], false)]
    24 1).toOption.map fun r => r.2.map (·.payload.length)) = some [24, 24, 24] := by decide +kernel

end Acra.Props.C10
