/-
  C10, part 7 — `reassemble` (Model.Chapter7: FIRST / MIDDLE… / LAST reassembly per low-latency flag) is NOT library
  code: the library has no reassembler, `reassemble` is vocabulary of the `decap_encap…` statements.  So that it need
  not be trusted by reading its definition, it is characterised here by what it does:

  * `reassemble_spec` — it is a left inverse of the library's own fragmenter: for EVERY packet list (lengths 0 …
    any multiple of 2048, any low-latency marking) `reassemble (datapkts_to_ptdp pkts) = pkts`: every packet once,
    byte-identical, in order, with its flag;
  * `reassemble_channels` — the normal and the low-latency PTDPs are reassembled independently: the packets returned
    with flag `f` are exactly what is returned for the PTDPs flagged `f` alone (so interleaving the two kinds of PTDP —
    a low-latency PTDP inserted between the fragments of a normal packet — changes nothing within a kind);
  * `reassemble_spec_interleaved` — both together: if the normal PTDPs of `ps`, in order, are the PTDPs of the packets
    `npkts` and its low-latency PTDPs those of `lpkts`, then `reassemble ps` returns `npkts` (unflagged) and `lpkts`
    (flagged), each list complete and in order, whatever the interleaving;
  * `reassemble_prefix` — a packet is emitted at its completing PTDP and never retracted: the output for a prefix of
    the PTDPs is a prefix of the output.
  On PTDP sequences that are not of this form (a MIDDLE / LAST without a FIRST) `asmStep` drops the orphan; no C10
  statement applies `reassemble` to such a sequence (the encoder does not produce one).
-/
import Acra.Lemmas.Chapter7AsmSpec
namespace Acra.Props.C10
open Acra.Py Acra.Model.Chapter7 Acra.Lemmas.Chapter7 Acra.Gen.Chapter7

/-- left inverse of `datapkts_to_ptdp` -/
theorem reassemble_spec (pkts : List (Bytes × Bool)) : reassemble (datapktsToPtdp pkts) = pkts := by
  unfold reassemble
  rw [asm_datapkts pkts _ rfl rfl]
  simp

/-- the two kinds of PTDP are reassembled independently -/
theorem reassemble_channels (ps : List PTDP.State) (f : Bool) :
    (reassemble ps).filter (fun q => q.2 == f) = reassemble (ps.filter fun p => p.low_latency == f) := by
  unfold reassemble
  have := asmFold_chan f ps { normal := none, low := none, done := [] } { normal := none, low := none, done := [] }
    ⟨rfl, rfl⟩
  exact this.1.symm

/-- any interleaving of the PTDPs of normal packets `npkts` with those of low-latency packets `lpkts` -/
theorem reassemble_spec_interleaved (ps : List PTDP.State) (npkts lpkts : List Bytes)
    (hn : (ps.filter fun p => p.low_latency == false) = datapktsToPtdp (npkts.map fun b => (b, false)))
    (hl : (ps.filter fun p => p.low_latency == true) = datapktsToPtdp (lpkts.map fun b => (b, true))) :
    (reassemble ps).filter (fun q => q.2 == false) = npkts.map (fun b => (b, false)) ∧
    (reassemble ps).filter (fun q => q.2 == true) = lpkts.map (fun b => (b, true)) := by
  rw [reassemble_channels, reassemble_channels, hn, hl, reassemble_spec, reassemble_spec]
  exact ⟨rfl, rfl⟩

/-- witness: a 2049-byte normal packet (FIRST, LAST) with a low-latency packet inserted between its two fragments -/
example :
    let F := fragOf (List.replicate 2049 7) false 2 0
    let La := fragOf (List.replicate 2049 7) false 2 1
    (([F, mkPtdp true PTDP_FRAGMENT_COMPLETE [9], La].filter fun p => p.low_latency == false) =
        datapktsToPtdp ([List.replicate 2049 7].map fun b => (b, false))) ∧
    (([F, mkPtdp true PTDP_FRAGMENT_COMPLETE [9], La].filter fun p => p.low_latency == true) =
        datapktsToPtdp ([[9]].map fun b => (b, true))) ∧
    reassemble [F, mkPtdp true PTDP_FRAGMENT_COMPLETE [9], La] = [([9], true), (List.replicate 2049 7, false)] := by
  decide +kernel

/-- outputs are emitted at the completing PTDP and never retracted -/
theorem reassemble_prefix (ps qs : List PTDP.State) : ∃ more, reassemble (ps ++ qs) = reassemble ps ++ more := by
  unfold reassemble
  rw [List.foldl_append]
  exact asmFold_done qs _

/-- outside the characterised domain: an orphan LAST is dropped, a FIRST restarts the packet of its kind -/
example : reassemble [mkPtdp false PTDP_FRAGMENT_LAST [1], mkPtdp false PTDP_FRAGMENT_FIRST [2],
    mkPtdp false PTDP_FRAGMENT_FIRST [3], mkPtdp false PTDP_FRAGMENT_LAST [4]] = [([3, 4], false)] := by decide

end Acra.Props.C10
