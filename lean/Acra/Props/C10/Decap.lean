/-
  C10, part 3 — decapsulate ∘ encapsulate for normal traffic, ALL packet sequences, ALL frame
  lengths 1..2047: feeding the frames the encapsulator has emitted (as `PTFR.pack` returns them) to
  the documented consumer loop (first frame `get_aligned_payload(True, b"")`, then
  `get_aligned_payload(False, leftover)`) returns exactly the PTDPs whose last byte has been emitted,
  once each, identical, in order, no exception; the carried remainder is the emitted part of the next PTDP.
  `doneCount encs c` = number of leading PTDP encodings that fit completely into the first c bytes.
-/
import Acra.Lemmas.Chapter7Asm
import Acra.Props.C10.Stream
namespace Acra.Props.C10
open Acra.Py Acra.Model.Chapter7 Acra.Lemmas.Chapter7 Acra.Gen.Chapter7
open Acra.Spec.Ch7 (offset startsAux)

theorem ptdps_canon (pkts : List Bytes) : ∀ p ∈ ptdps pkts, Canon p := by
  intro p hp
  simp only [ptdps, datapktsToPtdp, normal, List.flatMap_map, List.mem_flatMap] at hp
  obtain ⟨b, _, hb⟩ := hp
  exact ptdpsOf_canon b p hb

theorem decap_encap_ptdps (pkts : List Bytes) (L sid : Nat) (hL : 0 < L) (hL2 : L ≤ 2047) (hs : sid < 16)
    (cur : PTFR.State) (out : List PTFR.State) (h : datapktsToPtfr (normal pkts) L sid = .ok (cur, out)) :
    (∀ f ∈ out, (PTFR.pack f).2 = .ok (wire f)) ∧
    decap L (out.map wire) =
      ({ ptdps := (ptdps pkts).take (doneCount (encs pkts) (out.length * L)),
         rem := some (((stream pkts).take (out.length * L)).drop
                  (((encs pkts).take (doneCount (encs pkts) (out.length * L))).flatten).length),
         first := decide (out.length = 0) }, none) := by
  obtain ⟨cur', out', h', inv⟩ := encap_inv pkts L sid hL
  rw [h] at h'; injection h' with h'; injection h' with h1 h2; subst h1 h2
  have hlo := inv.lo
  have hout := inv.out_eq
  constructor
  · intro f hf
    rw [hout, List.mem_map] at hf
    obtain ⟨k, hk, rfl⟩ := hf
    have hk' : k < out.length := List.mem_range.1 hk
    have hkl : (k + 1) * L ≤ out.length * L := Nat.mul_le_mul_right L hk'
    exact pack_wire _ (frameOf_facts L sid hL2 hs _ _ k (by omega)).1
  · by_cases hn : out.length = 0
    · have : out = [] := List.eq_nil_of_length_eq_zero hn
      subst this
      have hne : ∀ b ∈ encs pkts, b ≠ [] := by
        intro b hb; simp only [encs, List.mem_map] at hb; obtain ⟨p, _, rfl⟩ := hb; exact encB_ne p
      have hd0 : doneCount (encs pkts) 0 = 0 := by
        cases he : encs pkts with
        | nil => rfl
        | cons b bs =>
          have : 0 < b.length := List.length_pos_iff.2 (hne b (by rw [he]; simp))
          simp only [doneCount]
          have : ¬ b.length ≤ 0 := by omega
          simp [this]
      simp [decap, decFold, hd0]
    · have hpos : 0 < (encs pkts).flatten.length := by
        have : L ≤ out.length * L := Nat.le_mul_of_pos_left L (by omega)
        omega
      have hlt := inv.pos hpos
      have hfr := decFold_frames L sid hL hL2 hs (ptdps pkts) (ptdps_canon pkts) out.length
        (by simpa [encs] using hlt) out.length 0 true (by omega)
      have h0 : parseB ([] : Bytes) = ([], [], false) :=
        parseB_remaining [] (by rw [ptdp_unpack_short _ _ (by simp)])
      have hk := parseB_stream (ptdps pkts) (ptdps_canon pkts) (out.length * L) (by simpa [encs] using hlt)
      simp only [Nat.zero_mul, List.take_zero, h0, hk, hn, if_false] at hfr
      have hw : out.map wire = (List.range' 0 out.length).map
          (fun i => wire (frameOf L sid ((ptdps pkts).map encB).flatten (startsAux 0 ((ptdps pkts).map encB)) i)) := by
        conv => lhs; rw [hout]
        rw [List.map_map, List.range_eq_range']
        rfl
      unfold decap
      rw [hw, hfr]
      simp [hn, stream, encs]


theorem stream_cons (b : Bytes) (rest : List Bytes) :
    stream (b :: rest) = (pktEnc b).flatten ++ stream rest := by
  simp [stream, encs, ptdps, normal, datapktsToPtdp, pktEnc]

/-- `pktDone pkts c` is the number of leading packets whose complete encoding (all their PTDPs) lies
    within the first `c` bytes of the stream: those, and no more -/
theorem pktDone_spec (pkts : List Bytes) (c : Nat) :
    (stream (pkts.take (pktDone pkts c))).length ≤ c ∧
    (pktDone pkts c < pkts.length → c < (stream (pkts.take (pktDone pkts c + 1))).length) := by
  induction pkts generalizing c with
  | nil => simp [pktDone, stream, encs, ptdps, normal, datapktsToPtdp]
  | cons b rest ih =>
    simp only [pktDone]
    by_cases hfit : (pktEnc b).flatten.length ≤ c
    · simp only [hfit, if_true]
      obtain ⟨h1, h2⟩ := ih (c - (pktEnc b).flatten.length)
      rw [Nat.add_comm 1, List.take_succ_cons, List.take_succ_cons, stream_cons, stream_cons]
      simp only [List.length_append, List.length_cons]
      exact ⟨by omega, fun h => by have := h2 (by omega); omega⟩
    · simp only [hfit, if_false, List.take_zero, Nat.zero_add]
      refine ⟨by simp [stream, encs, ptdps, normal, datapktsToPtdp], fun _ => ?_⟩
      rw [List.take_succ_cons, stream_cons]
      simp only [List.length_append]; omega

/-- decap ∘ encap, normal traffic: the consumer loop, fed the frames emitted so far, returns — after
    fragment reassembly — every packet whose last byte has been emitted (`pktDone_spec`), exactly
    once, byte-identical, in the original order, none flagged low-latency, and raises nothing -/
theorem decap_encap (pkts : List Bytes) (L sid : Nat) (hL : 0 < L) (hL2 : L ≤ 2047) (hs : sid < 16)
    (cur : PTFR.State) (out : List PTFR.State) (h : datapktsToPtfr (normal pkts) L sid = .ok (cur, out)) :
    (decap L (out.map wire)).2 = none ∧
    reassemble (decap L (out.map wire)).1.ptdps = normal (pkts.take (pktDone pkts (out.length * L))) := by
  obtain ⟨_, hd⟩ := decap_encap_ptdps pkts L sid hL hL2 hs cur out h
  rw [hd]
  refine ⟨rfl, ?_⟩
  simp only [reassemble, ptdps, encs, normal]
  have := asm_stream pkts (out.length * L) { normal := none, low := none, done := [] } rfl
  simpa using this

example : normal [[1, 2, 3], []] = [([1, 2, 3], false), ([], false)] := rfl

/-! ### review additions: the decapsulator on the Spec's frames (end to end), `pktDone` against the Spec, witnesses -/

/-- `pktDone` against the Spec's stream: the first `pktDone pkts c` packets are exactly those whose complete
    encoding lies within the first `c` bytes of `Spec.Ch7.stream` -/
theorem pktDone_spec_stream (pkts : List Bytes) (c : Nat) :
    (Spec.Ch7.stream (pkts.take (pktDone pkts c))).length ≤ c ∧
    (pktDone pkts c < pkts.length → c < (Spec.Ch7.stream (pkts.take (pktDone pkts c + 1))).length) := by
  have := pktDone_spec pkts c
  rwa [stream_eq_spec, stream_eq_spec] at this

/-- end to end, with no reference to the model's encoder: the library's decapsulator (the documented consumer loop),
    fed the Spec's frames for ANY packet sequence and ANY frame length 1..2047, raises nothing and returns — after
    reassembly — exactly the packets whose last byte lies in those frames: each once, byte-identical, in the
    original order, none flagged low-latency -/
theorem decap_spec_frames (pkts : List Bytes) (L sid : Nat) (hL : 0 < L) (hL2 : L ≤ 2047) (hs : sid < 16) :
    (decap L (Spec.Ch7.frames L sid pkts)).2 = none ∧
    reassemble (decap L (Spec.Ch7.frames L sid pkts)).1.ptdps =
      normal (pkts.take (pktDone pkts (((Spec.Ch7.stream pkts).length - 1) / L * L))) := by
  obtain ⟨cur, out, h, _⟩ := encap_invariant pkts L sid hL
  have hpack := (decap_encap_ptdps pkts L sid hL hL2 hs cur out h).1
  have hspec := frames_eq_spec pkts L sid hL hL2 hs cur out h
  have hlen := (payload_stream_spec pkts L sid hL cur out h).2.2.2
  have hw : out.map wire = Spec.Ch7.frames L sid pkts := by
    have e : out.map (fun f => (PTFR.pack f).2) = (out.map wire).map .ok := by
      rw [List.map_map]; exact List.map_congr_left hpack
    rw [e] at hspec
    exact (List.map_inj_right (fun a b hab => Except.ok.inj hab)).1 hspec
  have := decap_encap pkts L sid hL hL2 hs cur out h
  rwa [hw, hlen] at this

/-- joint witness for the hypotheses of `decap_encap_ptdps` / `decap_encap` (`h`, 0 < L ≤ 2047, sid < 16), with a
    non-trivial result: packets `[1,2,3]`, `[4,5]`, L = 4 — 16 of the 17 stream bytes are in yielded frames, so the
    first packet is returned and the second (its last byte still pending) is not -/
example : (datapktsToPtfr (normal [[1, 2, 3], [4, 5]]) 4 1).isOk = true ∧ (0 : Nat) < 4 ∧ 4 ≤ 2047 ∧ (1 : Nat) < 16 ∧
    pktDone [[1, 2, 3], [4, 5]] 16 = 1 ∧ ((Spec.Ch7.stream [[1, 2, 3], [4, 5]]).length - 1) / 4 * 4 = 16 := by
  decide +kernel
example : reassemble (decap 4 (Spec.Ch7.frames 4 1 [[1, 2, 3], [4, 5]])).1.ptdps = [([1, 2, 3], false)] := by
  have h := (decap_spec_frames [[1, 2, 3], [4, 5]] 4 1 (by decide) (by decide) (by decide)).2
  rw [h]
  have e : pktDone [[1, 2, 3], [4, 5]] (((Spec.Ch7.stream [[1, 2, 3], [4, 5]]).length - 1) / 4 * 4) = 1 := by
    decide +kernel
  rw [e]; rfl
/-- a 5000-byte packet (FIRST / MIDDLE / LAST fragments) followed by a short one, L = 100: the long packet comes back -/
example : pktDone [List.replicate 5000 7, List.replicate 100 1] (((Spec.Ch7.stream [List.replicate 5000 7, List.replicate 100 1]).length - 1) / 100 * 100) = 1 := by
  decide +kernel

end Acra.Props.C10
