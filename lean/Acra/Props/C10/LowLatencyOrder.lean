/-
  C10, part 6 — low-latency traffic: WHICH frame a low-latency packet is in is determined by the frames, and the
  order in which the decapsulator returns the low-latency packets of one frame is the REVERSE of the order in which
  they were handed to the encapsulator (most recent first), stated directly.

  * `llp_frames_injective` — `mixFrames` is injective in the per-frame lists of low-latency PTDPs (`lls`): two
    assignments that give the same frames are the same assignment.  `LlpCanon q` = q is well-formed and its two
    attributes that are not on the wire (`low_latency`, `length`) have the values the encapsulator gives them.
  * `llp_assignment_unique` — the `∃ lls ll` of `decap_encap_llp` / `llp_encap_invariant` is unique: any other
    assignment producing the yielded frames equals `lls`, and, with the insertion-order equation, `ll` as well.
  * `llp_insertion_order` — one frame: low-latency PTDPs p₁ … pₙ inserted in this order, all fitting, are held by
    the frame as pₙ … p₁ and `get_aligned_payload` returns them in that order (flagged), ahead of the normal data.
  * `llp_return_order` — end to end under `NoLLPOverflow`: the input's low-latency packets, in input order, are
    `groups.flatten ++ pending` (one group per yielded frame, `pending` = those in the frame not yet yielded), and
    the decapsulator returns, in this order, group₁ reversed, group₂ reversed, ….
  * `llp_return_order_pair` — the pairwise reading: of two low-latency packets in the same frame, the one
    inserted LATER is returned FIRST; packets of an earlier frame are returned before those of a later frame.
-/
import Acra.Lemmas.Chapter7Uniq
import Acra.Props.C10.LowLatency
namespace Acra.Props.C10
open Acra.Py Acra.Model.Chapter7 Acra.Lemmas.Chapter7 Acra.Gen.Chapter7

/-- the frames determine, frame by frame, the low-latency PTDPs they hold -/
theorem llp_frames_injective (L sid : Nat) (S : Bytes) (st : List Nat) (c : Nat) (lls lls' : List (List PTDP.State))
    (h : ∀ l ∈ lls, ∀ q ∈ l, LlpCanon q) (h' : ∀ l ∈ lls', ∀ q ∈ l, LlpCanon q)
    (e : mixFrames L sid S st c lls = mixFrames L sid S st c lls') : lls = lls' :=
  mixFrames_inj L sid S st lls lls' c h h' e

/-- two different assignments of canonical low-latency PTDPs (one frame empty in the first, holding `[9, 9]` in the second) -/
example : (∀ l ∈ [[], [llpPtdp [5]]], ∀ q ∈ l, LlpCanon q) ∧ (∀ l ∈ [[llpPtdp [9, 9]], [llpPtdp [5]]], ∀ q ∈ l, LlpCanon q) := by
  constructor <;> intro l hl q hq <;> simp only [List.mem_cons, List.not_mem_nil, or_false] at hl <;>
    rcases hl with rfl | rfl <;> simp only [List.mem_cons, List.not_mem_nil, or_false] at hq <;> subst hq <;>
    exact llpPtdp_canon _ (by decide)

/-- without canonicity it is false, and must be: `low_latency` and `length` of a PTDP are not on the wire -/
example : mixFrames 40 1 [] [] 0 [[llpPtdp [5]]] = mixFrames 40 1 [] [] 0 [[{ llpPtdp [5] with length := 77 }]] ∧
    [[llpPtdp [5]]] ≠ [[{ llpPtdp [5] with length := 77 }]] := by decide +kernel

/-- the assignment of low-latency packets to frames in `decap_encap_llp` is unique -/
theorem llp_assignment_unique (pkts : List (Bytes × Bool)) (L sid : Nat) (hL : 0 < L) (hL2 : L ≤ 2047) (hs : sid < 16)
    (hno : NoLLPOverflow pkts L sid) :
    ∃ cur out lls ll, datapktsToPtfr pkts L sid = .ok (cur, out) ∧
      out = mixFrames L sid (stream (normalPkts pkts)) (Acra.Spec.Ch7.startsAux 0 (encs (normalPkts pkts))) 0 lls ∧
      llpOrder lls ll = (llpPkts pkts).map llpPtdp ∧
      (∀ l ∈ lls, ∀ q ∈ l, LlpCanon q) ∧
      ∀ lls' ll', (∀ l ∈ lls', ∀ q ∈ l, LlpCanon q) →
        out = mixFrames L sid (stream (normalPkts pkts)) (Acra.Spec.Ch7.startsAux 0 (encs (normalPkts pkts))) 0 lls' →
        lls' = lls ∧ (llpOrder lls' ll' = (llpPkts pkts).map llpPtdp → ll' = ll) := by
  obtain ⟨cur, out, lls, ll, h, inv, hord, hsz⟩ := llp_encap_invariant pkts L sid hL hL2 hs hno
  have hcanon : ∀ l ∈ lls, ∀ q ∈ l, LlpCanon q := by
    intro l hl q hq
    have := mem_llpOrder lls ll l q hl hq
    rw [hord, List.mem_map] at this
    obtain ⟨b, hb, rfl⟩ := this
    exact llpPtdp_canon b (by have := hsz b hb; omega)
  refine ⟨cur, out, lls, ll, h, inv.out_eq, hord, hcanon, ?_⟩
  intro lls' ll' hc' ho'
  have e : lls' = lls := by
    have := inv.out_eq
    rw [ho'] at this
    exact mixFrames_inj L sid _ _ lls' lls 0 hc' hcanon this
  subst e
  exact ⟨rfl, fun hord' => llpOrder_inj_right lls' ll' ll (by rw [hord', hord])⟩

/-- insertion order → return order, ONE frame: the low-latency PTDPs `ins = [p₁, …, pₙ]` are handed to
    `add_payload(…, is_llp=True)` in this order, into a frame that holds only normal data `N` (or nothing), all of
    them fitting with their continuation bytes.  Nothing is returned as "did not fit"; the frame then holds
    pₙ … p₁ (`ins.reverse`) in front of `N`; and `get_aligned_payload` returns pₙ, …, p₁ — most recent first —
    flagged low-latency, then the normal PTDPs of (carried remainder ++ N). -/
theorem llp_insertion_order (s : PTFR.State) (N : Bytes) (ins : List PTDP.State) (hne : ins ≠ [])
    (h : LlpLayout s [] N) (hwf : ∀ p ∈ ins, PTDP_WF p)
    (hfit : (ins.map fun p => (encB p).length + 1).sum + s.payload.length ≤ s.length)
    (first : Bool) (r : Bytes) (hjump : first = true → r = []) :
    (insertLlps s ins).2 = [] ∧
    LlpLayout (insertLlps s ins).1 ins.reverse N ∧
    (getAlignedPayload (insertLlps s ins).1 first (some r)).items =
      ins.reverse.map (fun p => Item.pkt (asLlp p)) ++ (parseB (r ++ N)).1.map Item.pkt ++ [lastItem (parseB (r ++ N))] ∧
    (getAlignedPayload (insertLlps s ins).1 first (some r)).raised = none := by
  obtain ⟨h1, _, h3⟩ := insertLlps_layout s [] N ins h hfit
  rw [List.append_nil] at h3
  have hg := gap_llp_frame (insertLlps s ins).1 ins.reverse N (by simpa using hne) h3
    (fun p hp => hwf p (by simpa using hp)) first r hjump
  exact ⟨h1, h3, hg.1, hg.2⟩

/-- witness: `[]`, then `[5]`, then `[9, 9]` into a 40-byte frame holding 3 bytes of normal data (7 + 8 + 9 + 3 ≤ 40) -/
example : [llpPtdp [], llpPtdp [5], llpPtdp [9, 9]] ≠ [] ∧
    LlpLayout { newPtfr 40 1 with payload := [1, 2, 3] } [] [1, 2, 3] ∧
    (∀ p ∈ [llpPtdp [], llpPtdp [5], llpPtdp [9, 9]], PTDP_WF p) ∧
    (([llpPtdp [], llpPtdp [5], llpPtdp [9, 9]].map fun p => (encB p).length + 1).sum +
      ({ newPtfr 40 1 with payload := [1, 2, 3] } : PTFR.State).payload.length ≤
      ({ newPtfr 40 1 with payload := [1, 2, 3] } : PTFR.State).length) ∧ ((true : Bool) = true → ([] : Bytes) = []) := by
  refine ⟨by simp, ⟨rfl, rfl, fun h => absurd rfl h⟩, ?_, ?_, fun _ => rfl⟩
  · intro p hp
    simp only [List.mem_cons, List.not_mem_nil, or_false] at hp
    rcases hp with rfl | rfl | rfl <;> exact (llpPtdp_canon _ (by decide)).1
  · simp only [List.map_cons, List.map_nil, encB_length, List.sum_cons, List.sum_nil]
    decide
/-- … and what the frame holds afterwards, concretely: offset 24 = (8+1) + (7+1) + (6+1), LLP flag, payload length 27 -/
example : (let f := (insertLlps { newPtfr 40 1 with payload := [1, 2, 3] } [llpPtdp [], llpPtdp [5], llpPtdp [9, 9]]).1
    (f.llp, f.ptdp_offset, f.payload.length, f.payload.drop 24)) = (true, 24, 27, [1, 2, 3]) := by decide +kernel

/-- insertion order → return order, END TO END (hypotheses of `decap_encap_llp`): there are `groups` (one list of
    low-latency packets per yielded frame, each in INPUT order) and `pending` with
        input's low-latency packets, in input order  =  groups.flatten ++ pending,
    and the low-latency packets the decapsulator returns are, in this order, group₁ reversed, group₂ reversed, … —
    frames in order, within a frame most recent first -/
theorem llp_return_order (pkts : List (Bytes × Bool)) (L sid : Nat) (hL : 0 < L) (hL2 : L ≤ 2047) (hs : sid < 16)
    (hno : NoLLPOverflow pkts L sid) :
    ∃ (cur : PTFR.State) (out : List PTFR.State) (groups : List (List Bytes)) (pending : List Bytes),
      datapktsToPtfr pkts L sid = .ok (cur, out) ∧ groups.length = out.length ∧
      llpPkts pkts = groups.flatten ++ pending ∧
      (decap L (out.map wire)).2 = none ∧
      (reassemble (decap L (out.map wire)).1.ptdps).filter (fun q => q.2) =
        ((groups.map List.reverse).flatten).map (fun b => (b, true)) ∧
      -- frame k holds exactly group k: its low-latency prefix is the encodings of group k, latest first
      ∀ k (hk : k < out.length) (hg : k < groups.length),
        out[k].llp = !groups[k].isEmpty ∧
        out[k].payload.take (llpBytes (groups[k].reverse.map llpPtdp)).length = llpBytes (groups[k].reverse.map llpPtdp) := by
  obtain ⟨cur, out, lls, ll, h, ho, hord, _, hnone, _, _, hl⟩ := decap_encap_llp pkts L sid hL hL2 hs hno
  have epl : ((fun q : PTDP.State => q.payload) ∘ llpPtdp) = id := by funext b; simp [llpPtdp, mkPtdp]
  have hpay : ∀ l : List PTDP.State, (∀ q ∈ l, ∃ b, q = llpPtdp b) → (l.map (·.payload)).map llpPtdp = l := by
    intro l hq
    rw [List.map_map]
    conv => rhs; rw [← List.map_id l]
    apply List.map_congr_left
    intro q hqm
    obtain ⟨b, rfl⟩ := hq q hqm
    simp [llpPtdp, mkPtdp]
  have hqs : ∀ l ∈ lls, ∀ q ∈ l, ∃ b, q = llpPtdp b := by
    intro l hl q hq
    have := mem_llpOrder lls ll l q hl hq
    rw [hord, List.mem_map] at this
    obtain ⟨b, _, rfl⟩ := this
    exact ⟨b, rfl⟩
  have hlen : out.length = lls.length := by rw [ho, mixFrames_length]
  refine ⟨cur, out, lls.map (fun l => l.reverse.map (·.payload)), ll.reverse.map (·.payload), h, by simp [hlen], ?_,
    hnone, ?_, ?_⟩
  · have := congrArg (List.map (·.payload)) hord
    rw [List.map_map, epl, List.map_id] at this
    rw [← this]
    simp only [llpOrder, List.map_append, List.map_flatten, List.map_map]
    rfl
  · rw [hl]
    simp only [List.map_map, List.map_flatten]
    congr 2
    funext l
    simp [Function.comp_def]
  · intro k hk hg
    have hkl : k < lls.length := by rw [← hlen]; exact hk
    have hgk : (lls.map (fun l => l.reverse.map (·.payload)))[k] = lls[k].reverse.map (·.payload) := by simp
    rw [hgk]
    have hback : (lls[k].reverse.map (·.payload)).reverse.map llpPtdp = lls[k] := by
      rw [← List.map_reverse, List.reverse_reverse]
      exact hpay lls[k] (hqs lls[k] (List.getElem_mem hkl))
    rw [hback]
    -- out[k] is a mixFrame holding lls[k]
    have hframe : ∀ (lls : List (List PTDP.State)) (c k : Nat) (hk : k < lls.length)
        (hk' : k < (mixFrames L sid (stream (normalPkts pkts))
          (Acra.Spec.Ch7.startsAux 0 (encs (normalPkts pkts))) c lls).length),
        ∃ c', (mixFrames L sid (stream (normalPkts pkts))
          (Acra.Spec.Ch7.startsAux 0 (encs (normalPkts pkts))) c lls)[k] =
          mixFrame L sid (stream (normalPkts pkts)) (Acra.Spec.Ch7.startsAux 0 (encs (normalPkts pkts))) c' lls[k] := by
      intro lls
      induction lls with
      | nil => intro c k hk; cases hk
      | cons l r ih =>
        intro c k hk hk'
        cases k with
        | zero => exact ⟨c, rfl⟩
        | succ k =>
          simp only [mixFrames, List.getElem_cons_succ]
          exact ih (c + cap L l) k (by simpa using hk) _
    obtain ⟨c', hc'⟩ := hframe lls 0 k hkl (by rw [mixFrames_length]; exact hkl)
    have hout : out[k] = mixFrame L sid (stream (normalPkts pkts))
        (Acra.Spec.Ch7.startsAux 0 (encs (normalPkts pkts))) c' lls[k] := by
      rw [← hc']; exact List.getElem_of_eq ho hk
    rw [hout]
    refine ⟨?_, ?_⟩
    · show (!lls[k].isEmpty) = _
      simp
    · show (llpBytes lls[k] ++ _).take _ = _
      rw [List.take_left']
      rfl

/-- the pairwise reading of `llp_return_order` on the returned list: within a group the later-inserted packet comes
    first; a packet of an earlier group comes before every packet of a later group.  Pure list fact about
    `(groups.map reverse).flatten` versus `groups.flatten`, stated on positions. -/
theorem llp_return_order_pair (groups : List (List Bytes)) (g : Nat) (hg : g < groups.length) (i j : Nat)
    (hij : i < j) (hj : j < groups[g].length) :
    ∃ (pre post : List Bytes) (mid : List Bytes),
      (groups.map List.reverse).flatten = pre ++ groups[g][j] :: mid ++ groups[g][i] :: post ∧
      pre.length = ((groups.take g).map List.length).sum + (groups[g].length - 1 - j) := by
  have hsplit : groups = groups.take g ++ groups[g] :: groups.drop (g + 1) := by
    rw [List.getElem_cons_drop, List.take_append_drop]
  obtain ⟨a, m, b, hr, ha⟩ := reverse_split groups[g] i j hij hj
  refine ⟨((groups.take g).map List.reverse).flatten ++ a, b ++ ((groups.drop (g + 1)).map List.reverse).flatten, m, ?_, ?_⟩
  · conv => lhs; rw [hsplit]
    simp only [List.map_append, List.map_cons, List.flatten_append, List.flatten_cons, hr, List.append_assoc,
      List.cons_append]
  · simp only [List.length_append, List.length_flatten, List.map_map, ha]
    congr 2
    apply List.map_congr_left
    intro l _; simp

/-- witnesses for `llp_return_order` (the mixed sequence of LowLatency.lean, L = 40: frames hold `[[9,9]]` and
    `[[], [5]]` in input order) and for `llp_return_order_pair` -/
example : (0 : Nat) < 40 ∧ 40 ≤ 2047 ∧ (1 : Nat) < 16 ∧ NoLLPOverflow
    [([1, 2, 3], false), ([9, 9], true), (List.replicate 40 7, false), ([], true), ([5], true), ([4, 4], false)]
    40 1 := by decide +kernel
example : (1 : Nat) < [[[9, 9]], [[], [5]]].length ∧ (0 : Nat) < 1 ∧ 1 < ([[[9, 9]], [[], [5]]] : List (List Bytes))[1].length ∧
    ([[[9, 9]], [[], [5]]].map List.reverse).flatten = ([[9, 9], [5], []] : List Bytes) := by decide

end Acra.Props.C10
