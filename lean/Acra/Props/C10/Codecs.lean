/-
  C10, part 1 — the two Chapter 7 codecs: PTDP.pack / PTFR.pack emit the Chapter 7 layout (Spec,
  written from the standard, Golay words from the generator polynomial) and unpack inverts them,
  into an object in ANY prior state and with any bytes following a PTDP.
-/
import Acra.Lemmas.Chapter7
namespace Acra.Props.C10
open Acra.Py Acra.Model.Chapter7 Acra.Lemmas.Chapter7 Acra.Lemmas.Golay

theorem PTDP_pack_layout (s : PTDP.State) (h : PTDP_WF s) :
    (PTDP.pack s).2 = .ok (Spec.PTDP.encode s.fragment s.content s.payload) := by
  rw [ptdp_pack_eq s h]
  obtain ⟨_, _, hp⟩ := h
  simp only [Spec.PTDP.encode, noisyWord_zero_spec, lswOf]
  rw [show s.payload.length / 4096 = 0 by omega, show s.payload.length % 4096 = s.payload.length by omega]
  rfl

example : PTDP_WF { PTDP.fresh with payload := [1, 2, 3], fragment := 1, content := 4 } := by
  simp [PTDP_WF]

/-- round trip: the decoder returns the encoder's fields and exactly the bytes that follow; the
    `low_latency` attribute is not on the wire: the decoder clears it (the frame decoder sets it) -/
theorem PTDP_roundtrip (s t : PTDP.State) (h : PTDP_WF s) (rest : Bytes) :
    ∃ b, (PTDP.pack s).2 = .ok b ∧ b.length = 6 + s.payload.length ∧
      PTDP.unpack t (b ++ rest) =
        ({ s with length := s.payload.length, low_latency := false }, .ok rest) := by
  refine ⟨_, by rw [ptdp_pack_eq s h], by simp; omega, ?_⟩
  have b := ptdp_unpack_noisy s t h 0 0 (by decide) (by decide) wt_zero_le wt_zero_le rest
  simp only [List.append_assoc] at b ⊢
  exact b

theorem PTFR_pack_layout (s : PTFR.State) (h : PTFR_WF s) :
    (PTFR.pack s).2 = .ok (Spec.PTFR.encode s.version s.streamid s.llp s.ptdp_offset s.payload) := by
  rw [ptfr_pack_eq s h]
  simp only [Spec.PTFR.encode, noisyWord_zero_spec, protOf, Nat.add_comm]

example : PTFR_WF { PTFR.fresh with streamid := 1, ptdp_offset := 3, length := 2, payload := [9, 9] } := by
  simp [PTFR_WF, PTFR.fresh]

/-- a frame packs to exactly 4 + L bytes -/
theorem PTFR_pack_length (s : PTFR.State) (h : PTFR_WF s) :
    ∃ b, (PTFR.pack s).2 = .ok b ∧ b.length = 4 + s.length := ptfr_pack_length s h

theorem PTFR_roundtrip (s t : PTFR.State) (h : PTFR_WF s) (hL : s.payload.length ≤ t.length) :
    ∃ b, (PTFR.pack s).2 = .ok b ∧ PTFR.unpack t b = ({ s with length := t.length }, .ok ()) :=
  ⟨_, by rw [ptfr_pack_eq s h], ptfr_unpack_noisy s t h 0 (by decide) wt_zero_le hL⟩

/-- review: joint witness for `PTFR_roundtrip` (well-formed frame AND a receiving object whose `length` allows the
    payload), and for `PTDP_roundtrip` with a non-empty tail and a receiver in another state -/
example : PTFR_WF { PTFR.fresh with streamid := 1, ptdp_offset := 3, length := 2, payload := [9, 9] } ∧
    ({ PTFR.fresh with streamid := 1, ptdp_offset := 3, length := 2, payload := [9, 9] } : PTFR.State).payload.length ≤
      ({ PTFR.fresh with length := 5, payload := [1], llp := true } : PTFR.State).length := by
  simp [PTFR_WF, PTFR.fresh]
/-- the receiver's `length` option decides acceptance: a 2-byte payload does not go into a frame object of length 1
    (`PTFR_ok_iff` in C09 is the exact boundary) -/
example : ¬ (({ PTFR.fresh with streamid := 1, ptdp_offset := 3, length := 2, payload := [9, 9] } : PTFR.State).payload.length ≤
      ({ PTFR.fresh with length := 1 } : PTFR.State).length) := by
  simp

end Acra.Props.C10
