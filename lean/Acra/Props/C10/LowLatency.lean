/-
  C10, part 4 — low-latency (mixed) traffic under `NoLLPOverflow`.

  `NoLLPOverflow pkts L sid` (decidable; computed along the encapsulation fold): whenever
  `datapkts_to_ptfr` reaches a low-latency PTDP, its 6 + len bytes plus the 1-byte continuation marker
  fit in the free space of the frame under construction.  Without it the statement is false on the
  real code (known finding K3).

  For EVERY packet sequence with ANY low-latency marking that satisfies `NoLLPOverflow`, every frame
  length 1..2047:
  * `llp_encap_invariant` — the encapsulator terminates and its state is `MixInv`: frame k is
        llpBytes ll_k ++ S[c_k, c_{k+1})      (`mixFrame`; S = stream of the normal PTDPs)
    = LLP₁ FF LLP₂ FF … LLPₙ 00 normal…, LLP flag = (ll_k ≠ []), offset field = length of the low-latency
    prefix if there is one, else the position of the first normal PTDP header beginning in the frame (0x7FF if
    none); the cuts are c_{k+1} = c_k + (L − |prefix_k|); the low-latency PTDPs of the frames, read in insertion
    order (`llpOrder`), are exactly the low-latency packets of the input, each ONE complete PTDP, each once.
  * `llp_frame_layout` — what `mixFrame` means, field by field.
  * `decap_encap_llp` — feeding the emitted frames (as `PTFR.pack` returns them) to the documented consumer
    loop (first frame `get_aligned_payload(True, b"")`, then `(False, leftover)`) raises nothing and returns,
    after FIRST/MIDDLE/LAST reassembly, frame by frame: the low-latency packets the frame holds, flagged,
    AHEAD of the normal packets whose last byte lies in that frame (`mixPkts`); hence
    every normal packet whose last byte has been emitted exactly once, byte-identical, in the original
    order, unflagged; every low-latency packet of an emitted frame exactly once, byte-identical, flagged.
  * `llp_insert_layout`, `llp_frame_decode` — the one-insertion / one-frame facts the above is built on.
-/
import Acra.Lemmas.Chapter7Llp4
namespace Acra.Props.C10
open Acra.Py Acra.Model.Chapter7 Acra.Lemmas.Chapter7 Acra.Gen.Chapter7

/-- one low-latency insertion that fits keeps the frame layout (and returns no remainder) -/
theorem llp_insert_layout (s : PTFR.State) (llps : List PTDP.State) (N : Bytes) (p : PTDP.State)
    (h : LlpLayout s llps N) (hfit : (encB p).length + 1 + s.payload.length ≤ s.length) :
    (PTFR.addPayload s (encB p) true).2 = [] ∧
    (PTFR.addPayload s (encB p) true).1.length = s.length ∧
    LlpLayout (PTFR.addPayload s (encB p) true).1 (p :: llps) N :=
  addPayload_llp_layout s llps N p h hfit

/-- an empty frame and a frame holding only normal data have the layout with no low-latency PTDPs -/
example (L : Nat) : LlpLayout (newPtfr L 1) [] [] := ⟨rfl, rfl, fun h => absurd rfl h⟩

/-- a frame with the low-latency layout decapsulates to its low-latency PTDPs, flagged, ahead of the
    normal data; the normal data is parsed with the carried remainder in front, as usual.
    `first = true → r = []` is the documented consumer loop (first frame: `remainder = b""`). -/
theorem llp_frame_decode (self : PTFR.State) (llps : List PTDP.State) (N : Bytes) (hne : llps ≠ [])
    (h : LlpLayout self llps N) (hwf : ∀ p ∈ llps, PTDP_WF p) (first : Bool) (r : Bytes)
    (hjump : first = true → r = []) :
    (getAlignedPayload self first (some r)).items =
      llps.map (fun p => Item.pkt (asLlp p)) ++ (parseB (r ++ N)).1.map Item.pkt ++ [lastItem (parseB (r ++ N))] ∧
    (getAlignedPayload self first (some r)).raised = none :=
  gap_llp_frame self llps N hne h hwf first r hjump

/-- a mixed sequence satisfying `NoLLPOverflow`: normal, low-latency on a partly filled frame, a normal
    packet that overflows the frame, two low-latency packets into the same frame, normal -/
example : NoLLPOverflow
    [([1, 2, 3], false), ([9, 9], true), (List.replicate 40 7, false), ([], true), ([5], true), ([4, 4], false)]
    40 1 := by decide +kernel

/-- … and the same sequence violates it for a frame length that leaves no room for the insertion -/
example : ¬ NoLLPOverflow
    [([1, 2, 3], false), ([9, 9], true), (List.replicate 40 7, false), ([], true), ([5], true), ([4, 4], false)]
    24 1 := by decide +kernel

/-- the encapsulator on mixed traffic: terminates; frame layout, offsets and cuts (`MixInv`); every
    low-latency packet is one COMPLETE PTDP shorter than the frame, inserted exactly once -/
theorem llp_encap_invariant (pkts : List (Bytes × Bool)) (L sid : Nat) (hL : 0 < L) (hL2 : L ≤ 2047) (hs : sid < 16)
    (hno : NoLLPOverflow pkts L sid) :
    ∃ cur out lls ll, datapktsToPtfr pkts L sid = .ok (cur, out) ∧
      MixInv L sid (encs (normalPkts pkts)) lls ll cur out ∧
      llpOrder lls ll = (llpPkts pkts).map llpPtdp ∧
      (∀ b ∈ llpPkts pkts, b.length + 7 ≤ L) := by
  obtain ⟨cur, out, lls, ll, h, inv, hord, hsz, _⟩ := decap_encap_mix pkts L sid hL hL2 hs hno
  exact ⟨cur, out, lls, ll, h, inv, hord, hsz⟩

/-- the frame `MixInv` speaks of, field by field: low-latency PTDPs first (most recently inserted first, each
    followed by 0xFF, the last by 0x00), then `cap L ll = L − |prefix|` bytes of the normal stream from `c`;
    LLP flag iff there is a low-latency PTDP; offset = |prefix| then, else the first normal PTDP start in the frame -/
theorem llp_frame_layout (L sid : Nat) (S : Bytes) (st : List Nat) (c : Nat) (ll : List PTDP.State) :
    LlpLayout (mixFrame L sid S st c ll) ll (slice S c (c + cap L ll)) ∧
    (mixFrame L sid S st c ll).llp = !ll.isEmpty ∧
    (mixFrame L sid S st c ll).payload = llpBytes ll ++ slice S c (c + (L - (llpBytes ll).length)) ∧
    (ll ≠ [] → (mixFrame L sid S st c ll).ptdp_offset = (llpBytes ll).length) ∧
    (ll = [] → (mixFrame L sid S st c ll).ptdp_offset = offAt st c (c + L)) ∧
    (mixFrame L sid S st c ll).length = L ∧ (mixFrame L sid S st c ll).streamid = sid ∧
    (mixFrame L sid S st c ll).version = 0 := by
  have hoff : ll ≠ [] → (mixFrame L sid S st c ll).ptdp_offset = (llpBytes ll).length := by
    intro hne
    show (if ll.isEmpty then _ else (llpBytes ll).length) = _
    cases ll with
    | nil => exact absurd rfl hne
    | cons q r => simp
  refine ⟨⟨rfl, rfl, hoff⟩, rfl, rfl, hoff, ?_, rfl, rfl, rfl⟩
  intro h; subst h; rfl

/-- decap ∘ encap, low-latency traffic under `NoLLPOverflow` (see the file header) -/
theorem decap_encap_llp (pkts : List (Bytes × Bool)) (L sid : Nat) (hL : 0 < L) (hL2 : L ≤ 2047) (hs : sid < 16)
    (hno : NoLLPOverflow pkts L sid) :
    ∃ cur out lls ll, datapktsToPtfr pkts L sid = .ok (cur, out) ∧
      -- the frames are the mixed layout, the low-latency PTDPs in them are the input's, each once
      out = mixFrames L sid (stream (normalPkts pkts)) (Acra.Spec.Ch7.startsAux 0 (encs (normalPkts pkts))) 0 lls ∧
      llpOrder lls ll = (llpPkts pkts).map llpPtdp ∧
      (∀ f ∈ out, (PTFR.pack f).2 = .ok (wire f) ∧ f.payload.length = L) ∧
      -- the consumer loop raises nothing
      (decap L (out.map wire)).2 = none ∧
      -- frame by frame: the low-latency packets of the frame, flagged, then the normal packets it completes
      reassemble (decap L (out.map wire)).1.ptdps = mixPkts L (normalPkts pkts) 0 lls ∧
      -- normal packets: every one whose last byte has been emitted, once, identical, in order, unflagged
      (reassemble (decap L (out.map wire)).1.ptdps).filter (fun q => !q.2) =
        normal ((normalPkts pkts).take (pktDone (normalPkts pkts) (cutAfter L 0 lls))) ∧
      -- low-latency packets: those of the emitted frames, once, identical, flagged
      (reassemble (decap L (out.map wire)).1.ptdps).filter (fun q => q.2) =
        lls.flatten.map (fun q => (q.payload, true)) := by
  obtain ⟨cur, out, lls, ll, h, inv, hord, _, hpack, hdec, hasm⟩ := decap_encap_mix pkts L sid hL hL2 hs hno
  refine ⟨cur, out, lls, ll, h, inv.out_eq, hord, hpack, by rw [hdec], by rw [hdec]; exact hasm, ?_, ?_⟩
  · rw [hdec]; simp only; rw [hasm, mixPkts_normal, pktDone_zero]; rfl
  · rw [hdec]; simp only; rw [hasm, mixPkts_llp]

/-- the normal bytes emitted: the cuts add up to the frames minus their low-latency prefixes -/
theorem llp_cut_total (L : Nat) (lls : List (List PTDP.State)) (c : Nat) (hfit : ∀ l ∈ lls, (llpBytes l).length ≤ L) :
    cutAfter L c lls + (lls.map fun l => (llpBytes l).length).sum = c + lls.length * L := by
  induction lls generalizing c with
  | nil => simp [cutAfter]
  | cons l r ih =>
    have := ih (c + cap L l) (fun x hx => hfit x (by simp [hx]))
    have hl := hfit l (by simp)
    simp only [cutAfter, List.map_cons, List.sum_cons, List.length_cons, cap] at this ⊢
    rw [Nat.add_mul]; omega

/-! ### review additions: "exactly once" as a permutation, joint witnesses -/

/-- "exactly once" for low-latency traffic, stated as a multiset equality: under the hypotheses of `decap_encap_llp`
    the low-latency PTDPs sitting in the yielded frames (`lls`, the ones the decapsulator returns) together with those
    in the frame not yet yielded (`ll`) are a permutation of the input's low-latency packets — none lost, none doubled -/
theorem llp_each_once (pkts : List (Bytes × Bool)) (L sid : Nat) (hL : 0 < L) (hL2 : L ≤ 2047) (hs : sid < 16)
    (hno : NoLLPOverflow pkts L sid) :
    ∃ cur out lls ll, datapktsToPtfr pkts L sid = .ok (cur, out) ∧
      out = mixFrames L sid (stream (normalPkts pkts)) (Acra.Spec.Ch7.startsAux 0 (encs (normalPkts pkts))) 0 lls ∧
      (reassemble (decap L (out.map wire)).1.ptdps).filter (fun q => q.2) =
        lls.flatten.map (fun q => (q.payload, true)) ∧
      ((lls.flatten ++ ll).map (·.payload)).Perm (llpPkts pkts) := by
  obtain ⟨cur, out, lls, ll, h, ho, hord, _, _, _, _, hl⟩ := decap_encap_llp pkts L sid hL hL2 hs hno
  refine ⟨cur, out, lls, ll, h, ho, hl, ?_⟩
  have hfl : ∀ xs : List (List PTDP.State), xs.flatten.Perm (xs.map List.reverse).flatten := by
    intro xs
    induction xs with
    | nil => simp
    | cons l r ih =>
      simp only [List.flatten_cons, List.map_cons]
      exact List.Perm.append (List.reverse_perm l).symm ih
  have hp : (lls.flatten ++ ll).Perm (llpOrder lls ll) := by
    unfold llpOrder
    exact List.Perm.append (hfl lls) (List.reverse_perm ll).symm
  have := hp.map (·.payload)
  rw [hord, List.map_map] at this
  have e : ((fun q : PTDP.State => q.payload) ∘ llpPtdp) = id := by
    funext b; simp [llpPtdp, mkPtdp]
  rwa [e, List.map_id] at this

/-- joint witnesses for the one-insertion / one-frame / cut lemmas: the low-latency PTDP of the packet `[9, 9]`
    (8 bytes + continuation byte) into an empty 40-byte frame; the frame holding it -/
example : LlpLayout (newPtfr 40 1) [] [] ∧
    (encB (llpPtdp [9, 9])).length + 1 + (newPtfr 40 1).payload.length ≤ (newPtfr 40 1).length :=
  ⟨⟨rfl, rfl, fun h => absurd rfl h⟩, by rw [encB_length]; decide⟩
example : [llpPtdp [9, 9]] ≠ [] ∧
    LlpLayout (mixFrame 40 1 [] [] 0 [llpPtdp [9, 9]]) [llpPtdp [9, 9]] (slice [] 0 (0 + cap 40 [llpPtdp [9, 9]])) ∧
    (∀ p ∈ [llpPtdp [9, 9]], PTDP_WF p) ∧ ((true : Bool) = true → ([] : Bytes) = []) :=
  ⟨by simp, (llp_frame_layout 40 1 [] [] 0 [llpPtdp [9, 9]]).1, by simp [PTDP_WF, llpPtdp, mkPtdp, PTDP_FRAGMENT_COMPLETE, PTDP_CONTENT_MAC], fun _ => rfl⟩
example : ∀ l ∈ [[llpPtdp [9, 9]]], (llpBytes l).length ≤ 40 := by
  intro l hl; simp only [List.mem_singleton] at hl; subst hl
  simp [llpBytes, encB_length, llpPtdp, mkPtdp]
/-- the hypotheses of `decap_encap_llp` / `llp_encap_invariant` / `llp_each_once` together, on the mixed sequence above -/
example : (0 : Nat) < 40 ∧ 40 ≤ 2047 ∧ (1 : Nat) < 16 ∧ NoLLPOverflow
    [([1, 2, 3], false), ([9, 9], true), (List.replicate 40 7, false), ([], true), ([5], true), ([4, 4], false)]
    40 1 := by decide +kernel
/-- … two frames are yielded for it, the first flagged LLP with offset 9 (= one 8-byte low-latency PTDP + 0x00), the
    second flagged with offset 15 (= `[5]` 7+1 and `[]` 6+1, the later insertion in front) -/
example : ((datapktsToPtfr
    [([1, 2, 3], false), ([9, 9], true), (List.replicate 40 7, false), ([], true), ([5], true), ([4, 4], false)]
    40 1).toOption.map fun r => r.2.map fun f => (f.llp, f.ptdp_offset, f.payload.length)) =
    some [(true, 9, 40), (true, 15, 40)] := by decide +kernel
/-- low-latency packet arriving on an EMPTY frame and on an exactly-LLP-holding frame also satisfy the hypothesis -/
example : NoLLPOverflow [([9, 9], true), ([5], true), ([1, 2, 3], false)] 30 1 := by decide +kernel

end Acra.Props.C10
