/-
  C10, part 4 — low-latency traffic.

  Full statement (NOT proved):  decap_encap_llp — for every packet sequence (any low-latency marking)
  and frame length satisfying `NoLLPOverflow` (each low-latency PTDP, with its continuation byte, fits
  in the free space of the frame it is inserted into) the consumer loop returns every packet whose
  last byte has been emitted exactly once, byte-identical, low-latency ones flagged and ahead of the
  normal data of their frame, normal ones in order.  Without `NoLLPOverflow` the statement is false
  on the real code (known finding K3).

  What is proved here (`_partial`) is the statement ONE FRAME / ONE INSERTION at a time:
  the frame layout  enc p₁ ++ [0xFF] ++ … ++ enc pₙ ++ [0x00] ++ normal data, offset = length of that
  prefix (`LlpLayout`), is preserved by a non-overflowing low-latency insertion, and a frame with that
  layout decapsulates to p₁ … pₙ flagged low-latency, in front of exactly what a frame without
  low-latency data would give for (carried remainder ++ normal data).  Missing: the invariant over
  the whole `datapkts_to_ptfr` fold for mixed traffic (which frame each normal byte lands in once
  insertions shift it) and its composition with the consumer loop.  The correspondence check and the
  oracle cover the whole statement on generated sequences (both with and without overflow).
-/
import Acra.Lemmas.Chapter7Llp
namespace Acra.Props.C10
open Acra.Py Acra.Model.Chapter7 Acra.Lemmas.Chapter7 Acra.Gen.Chapter7

/-- one low-latency insertion that fits keeps the frame layout (and returns no remainder) -/
theorem llp_insert_layout_partial (s : PTFR.State) (llps : List PTDP.State) (N : Bytes) (p : PTDP.State)
    (h : LlpLayout s llps N) (hfit : (encB p).length + 1 + s.payload.length ≤ s.length) :
    (PTFR.addPayload s (encB p) true).2 = [] ∧
    (PTFR.addPayload s (encB p) true).1.length = s.length ∧
    LlpLayout (PTFR.addPayload s (encB p) true).1 (p :: llps) N :=
  addPayload_llp_layout s llps N p h hfit

/-- an empty frame and a frame holding only normal data have the layout with no low-latency PTDPs -/
example (L : Nat) : LlpLayout (newPtfr L 1) [] [] := ⟨rfl, rfl, fun h => absurd rfl h⟩

/-- a frame with the low-latency layout decapsulates to its low-latency PTDPs, flagged, ahead of the
    normal data; the normal data is parsed with the carried remainder in front, as usual.
    `first = true → r = []` is the documented consumer loop (first frame: `remainder = b""`). -/
theorem llp_frame_decode_partial (self : PTFR.State) (llps : List PTDP.State) (N : Bytes) (hne : llps ≠ [])
    (h : LlpLayout self llps N) (hwf : ∀ p ∈ llps, PTDP_WF p) (first : Bool) (r : Bytes)
    (hjump : first = true → r = []) :
    (getAlignedPayload self first (some r)).items =
      llps.map (fun p => Item.pkt (asLlp p)) ++ (parseB (r ++ N)).1.map Item.pkt ++ [lastItem (parseB (r ++ N))] ∧
    (getAlignedPayload self first (some r)).raised = none :=
  gap_llp_frame self llps N hne h hwf first r hjump

end Acra.Props.C10
