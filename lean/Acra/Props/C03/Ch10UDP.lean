/-
  C03, Chapter 10 UDP transfer header: layout against the IRIG 106 Spec and round trip, per format.
  Format 1 segmented is encode-only (the library's decoder raises).  Format 2 round trip is FALSE in
  general (known finding K1): `unpack` decides the format from the low nibble of byte 0, which in the
  big-endian format 2 holds bits 19..16 of the sequence number; the theorem is proved under the
  exclusion and the two negation witnesses are proved by `decide`.
-/
import Acra.Lemmas.Ch10UDP
namespace Acra.Props.C03
open Acra.Py Acra.Model.Ch10UDP Acra.Gen.Ch10UDP Acra.Lemmas.Ch10UDP Acra.Lemmas.Ch10 Acra

/-! Well-formedness = every field fits the width the format allots (`Lemmas.Ch10UDP`):
  `WF1`  version 1, type < 16 and ≠ 1 (full packet), sequence < 2^24
  `WF1seg` version 1, type = 1, sequence < 2^24, channel id < 2^16, channel sequence < 2^8, offset < 2^32
  `WF2`  version 2, type < 16, sequence < 2^24, segment offset < 2^24, channel id < 2^16, |payload|/4 < 2^24
  `WF3 o` version 3, source-id length n ≤ 4, source id < 2^(4n), sequence < 2^(32−4n), offset o < 2^16 -/

example : WF1 { fresh with sequence := 0xABCDEF, payload := [1, 2, 3] } := by
  simp [WF1, fresh, DEFAULT_VERSION, TYPE_FULL]
example : WF1seg { fresh with type := 1, sequence := 5, channelID := 0x1234, channelsequence := 9, segmentoffset := 70000 } := by
  simp [WF1seg, fresh, DEFAULT_VERSION]
example : WF2 { fresh with version := 2, type := 3, sequence := 0xA2CDEF, segmentoffset := 0x123456, channelID := 7,
                           payload := [1, 2, 3, 4, 5] } := by
  simp [WF2]
example : WF3 { fresh with version := 3, sourceid_len := 3, sourceid := 0x5A5, sequence := 0xFFFFF,
                           offset_pkt_start := some 12 } 12 := by
  simp [WF3]

/-- format 1, full packet: `pack` emits the Spec layout and changes no field -/
theorem udp_fmt1_pack_layout (s : State) (h : WF1 s) :
    pack s = (s, .ok (Spec.Ch10UDP.fmt1 s.type s.sequence s.payload)) := pack_fmt1 s h

/-- format 1, segmented packet (encode side only) -/
theorem udp_fmt1seg_pack_layout (s : State) (h : WF1seg s) :
    pack s = (s, .ok (Spec.Ch10UDP.fmt1seg s.sequence s.channelID s.channelsequence s.segmentoffset s.payload)) :=
  pack_fmt1seg s h

/-- format 2: `pack` emits the Spec layout and sets `packetsize` to the payload length in 32-bit words -/
theorem udp_fmt2_pack_layout (s : State) (h : WF2 s) :
    pack s = ({ s with packetsize := some (s.payload.length / 4) },
      .ok (Spec.Ch10UDP.fmt2 s.type s.sequence s.segmentoffset s.channelID s.payload)) := pack_fmt2 s h

/-- format 3, every source-id length 0..4 -/
theorem udp_fmt3_pack_layout (s : State) (o : Nat) (h : WF3 s o) :
    pack s = (s, .ok (Spec.Ch10UDP.fmt3 s.sourceid_len s.sourceid s.sequence o s.payload)) := pack_fmt3 s o h

/-- decode-side layout, format 1: for ARBITRARY bytes whose first byte has low nibble 1 and high nibble ≠ 1,
    whatever state the object was in -/
theorem udp_fmt1_decode_layout (t : State) (b0 b1 b2 b3 : UInt8) (rest : Bytes)
    (h1 : b0.toNat % 16 = 1) (h2 : b0.toNat / 16 ≠ 1) :
    unpack t (b0 :: b1 :: b2 :: b3 :: rest) =
      (dec1 (b0.toNat / 16) (b1.toNat + (b2.toNat + 256 * b3.toNat) * 256) rest, .ok ()) :=
  unpack_bytes_fmt1 t b0 b1 b2 b3 rest h1 h2

/-- decode-side layout, format 2 (any first-byte low nibble other than 1 and 3) -/
theorem udp_fmt2_decode_layout (t : State) (b0 b1 b2 b3 b4 b5 b6 b7 b8 b9 b10 b11 : UInt8) (rest : Bytes)
    (h1 : b0.toNat % 16 ≠ 1) (h2 : b0.toNat % 16 ≠ 3) :
    unpack t (b0 :: b1 :: b2 :: b3 :: b4 :: b5 :: b6 :: b7 :: b8 :: b9 :: b10 :: b11 :: rest) =
      ({ version := 2, type := b3.toNat / 16, channelID := b11.toNat + 256 * b10.toNat, channelsequence := 0,
         sequence := b2.toNat + (b1.toNat + 256 * b0.toNat) * 256,
         segmentoffset := (b9.toNat + 256 * b8.toNat) + b4.toNat * 65536,
         packetsize := some ((b7.toNat + 256 * b6.toNat) + b5.toNat * 65536),
         sourceid_len := 0, sourceid := 0, offset_pkt_start := none, payload := rest }, .ok ()) :=
  unpack_bytes_fmt2 t b0 b1 b2 b3 b4 b5 b6 b7 b8 b9 b10 b11 rest h1 h2

/-- decode-side layout, format 3: the 32-bit word is split `source id ‖ sequence` at bit `32 − 4·len` -/
theorem udp_fmt3_decode_layout (t : State) (b0 b1 b2 b3 b4 b5 b6 b7 : UInt8) (rest : Bytes)
    (h1 : b0.toNat % 16 = 3) (h2 : b0.toNat / 16 ≤ 4) :
    unpack t (b0 :: b1 :: b2 :: b3 :: b4 :: b5 :: b6 :: b7 :: rest) =
      ({ version := 3, type := b0.toNat / 16, channelID := 0, channelsequence := 0,
         sequence := (b4.toNat + 256 * (b5.toNat + 256 * (b6.toNat + 256 * b7.toNat))) % 2 ^ (32 - 4 * (b0.toNat / 16)),
         segmentoffset := 0, packetsize := none,
         sourceid_len := b0.toNat / 16,
         sourceid := if b0.toNat / 16 = 0 then 0 else
            (b4.toNat + 256 * (b5.toNat + 256 * (b6.toNat + 256 * b7.toNat))) / 2 ^ (32 - 4 * (b0.toNat / 16)),
         offset_pkt_start := some (b2.toNat + 256 * b3.toNat), payload := rest }, .ok ()) :=
  unpack_bytes_fmt3 t b0 b1 b2 b3 b4 b5 b6 b7 rest h1 h2

/-- the byte-level hypotheses of the three decode-side layouts are inhabited (first bytes 0x21, 0x02 / 0x52, 0x33) -/
example : ((0x21 : UInt8).toNat % 16 = 1 ∧ (0x21 : UInt8).toNat / 16 ≠ 1) ∧
    ((0x52 : UInt8).toNat % 16 ≠ 1 ∧ (0x52 : UInt8).toNat % 16 ≠ 3) ∧
    ((0x33 : UInt8).toNat % 16 = 3 ∧ (0x33 : UInt8).toNat / 16 ≤ 4) := by decide
/-- format 3 from the wire: `33 00 0C 00 | FF FF 5F 5A` is source-id length 3, offset 12, source id 0x5A5,
    sequence 0xFFFFF -/
example : (unpack fresh [0x33, 0, 0x0C, 0, 0xFF, 0xFF, 0x5F, 0x5A, 9, 9]).1.sourceid = 0x5A5 ∧
    (unpack fresh [0x33, 0, 0x0C, 0, 0xFF, 0xFF, 0x5F, 0x5A, 9, 9]).1.sequence = 0xFFFFF ∧
    (unpack fresh [0x33, 0, 0x0C, 0, 0xFF, 0xFF, 0x5F, 0x5A, 9, 9]).1.payload = [9, 9] := by decide

/-- format 1 round trip: decoding the encoding (into an object in ANY prior state `t`) gives the same
    type, sequence and payload, every other field at its default, and re-encoding reproduces the bytes -/
theorem udp_fmt1_roundtrip (s t : State) (h : WF1 s) :
    ∃ b, (pack s).2 = .ok b ∧ unpack t b = (dec1 s.type s.sequence s.payload, .ok ()) ∧
      (pack (unpack t b).1).2 = .ok b := by
  refine ⟨_, by rw [pack_fmt1 s h], unpack_spec_fmt1 s t h, ?_⟩
  rw [unpack_spec_fmt1 s t h]
  obtain ⟨hv, ht, ht1, hs⟩ := h
  rw [pack_fmt1 (dec1 s.type s.sequence s.payload) ⟨rfl, ht, ht1, hs⟩]
  rfl

/-- format 3 round trip, for every source-id length 0..4, source id and sequence over their widths -/
theorem udp_fmt3_roundtrip (s t : State) (o : Nat) (h : WF3 s o) :
    ∃ b, (pack s).2 = .ok b ∧ unpack t b = (dec3 s.sourceid_len s.sourceid s.sequence o s.payload, .ok ()) ∧
      (pack (unpack t b).1).2 = .ok b := by
  refine ⟨_, by rw [pack_fmt3 s o h], unpack_spec_fmt3 s t o h, ?_⟩
  rw [unpack_spec_fmt3 s t o h]
  obtain ⟨hv, hl, hsid, hseq, ho, ho2⟩ := h
  rw [pack_fmt3 (dec3 s.sourceid_len s.sourceid s.sequence o s.payload) o ⟨rfl, hl, hsid, hseq, rfl, ho2⟩]
  rfl

/-- "the same field values", spelled out for format 3 (the object `dec3` of `udp_fmt3_roundtrip`): source-id
    length, source id, sequence, offset to packet start and payload come back.  Format 3 has NO message-type
    field on the wire: the decoder stores the high nibble of byte 0 — the source-id length — in `type`, so the
    encoder-side `type` is not preserved (nor used by `pack`); every field the format does not carry is at its
    default. -/
theorem udp_fmt3_roundtrip_fields (s t : State) (o : Nat) (h : WF3 s o) :
    ∃ b, (pack s).2 = .ok b ∧ (unpack t b).2 = .ok () ∧
      (unpack t b).1.version = 3 ∧ (unpack t b).1.sourceid_len = s.sourceid_len ∧
      (unpack t b).1.sourceid = s.sourceid ∧ (unpack t b).1.sequence = s.sequence ∧
      (unpack t b).1.offset_pkt_start = some o ∧ (unpack t b).1.payload = s.payload ∧
      (unpack t b).1.type = s.sourceid_len ∧
      (unpack t b).1.channelID = 0 ∧ (unpack t b).1.channelsequence = 0 ∧ (unpack t b).1.segmentoffset = 0 ∧
      (unpack t b).1.packetsize = none := by
  obtain ⟨b, hp, hu, _⟩ := udp_fmt3_roundtrip s t o h
  exact ⟨b, hp, by rw [hu], by rw [hu]; rfl, by rw [hu]; rfl, by rw [hu]; rfl, by rw [hu]; rfl, by rw [hu]; rfl,
    by rw [hu]; rfl, by rw [hu]; rfl, by rw [hu]; rfl, by rw [hu]; rfl, by rw [hu]; rfl, by rw [hu]; rfl⟩

/-- … and for format 1 (object `dec1`): type, sequence, payload -/
theorem udp_fmt1_roundtrip_fields (s t : State) (h : WF1 s) :
    ∃ b, (pack s).2 = .ok b ∧ (unpack t b).2 = .ok () ∧ (unpack t b).1.version = 1 ∧
      (unpack t b).1.type = s.type ∧ (unpack t b).1.sequence = s.sequence ∧ (unpack t b).1.payload = s.payload := by
  obtain ⟨b, hp, hu, _⟩ := udp_fmt1_roundtrip s t h
  exact ⟨b, hp, by rw [hu], by rw [hu]; rfl, by rw [hu]; rfl, by rw [hu]; rfl, by rw [hu]; rfl⟩

/-- a format-3 object whose `type` differs from its source-id length: well-formed, and `type` comes back as 3 -/
example :
    let s0 : State := { fresh with version := 3, type := 0, sourceid_len := 3, sourceid := 0x5A5, sequence := 0xFFFFF, offset_pkt_start := some 12 }
    WF3 s0 12 ∧ (unpack fresh (match (pack s0).2 with | .ok b => b | .error _ => [])).1.type = 3 := by
  refine ⟨by simp [WF3], by decide⟩

/-
  Full statement (FALSE, known finding K1):
    theorem udp_fmt2_roundtrip (s t) (h : WF2 s) : ∃ b, (pack s).2 = .ok b ∧ unpack t b = (dec2 …, .ok ()) ∧ …
  Proved: the same under the exclusion "bits 19..16 of the sequence are neither 1 nor 3".
-/
theorem udp_fmt2_roundtrip_partial (s t : State) (h : WF2 s)
    (hk : s.sequence / 65536 % 16 ≠ 1 ∧ s.sequence / 65536 % 16 ≠ 3) :
    ∃ b, (pack s).2 = .ok b ∧
      unpack t b = (dec2 s.type s.sequence s.segmentoffset s.channelID s.payload, .ok ()) ∧
      (pack (unpack t b).1).2 = .ok b := by
  refine ⟨_, by rw [pack_fmt2 s h], unpack_spec_fmt2 s t h hk, ?_⟩
  rw [unpack_spec_fmt2 s t h hk]
  obtain ⟨hv, ht, hs, hso, hc, hp⟩ := h
  rw [pack_fmt2 (dec2 s.type s.sequence s.segmentoffset s.channelID s.payload) ⟨rfl, ht, hs, hso, hc, hp⟩]
  rfl

example : WF2 { fresh with version := 2, sequence := 0x020000 } ∧
    (0x020000 / 65536 % 16 ≠ 1 ∧ 0x020000 / 65536 % 16 ≠ 3) := by
  simp [WF2, fresh, TYPE_FULL]
/-- … and a richer joint witness (sequence with all three bytes non-zero, payload, offset, channel) -/
example : WF2 { fresh with version := 2, type := 3, sequence := 0xA2CDEF, segmentoffset := 0x123456, channelID := 7,
                           payload := [1, 2, 3, 4, 5] } ∧
    (0xA2CDEF / 65536 % 16 ≠ 1 ∧ 0xA2CDEF / 65536 % 16 ≠ 3) := by
  simp [WF2]

/-- the fields format 2 carries come back (object `dec2`); `packetsize` is the payload length in 32-bit words,
    rounded DOWN (`//`): a payload that is not a whole number of words is under-declared by `pack` -/
theorem udp_fmt2_roundtrip_fields_partial (s t : State) (h : WF2 s)
    (hk : s.sequence / 65536 % 16 ≠ 1 ∧ s.sequence / 65536 % 16 ≠ 3) :
    ∃ b, (pack s).2 = .ok b ∧ (unpack t b).2 = .ok () ∧ (unpack t b).1.version = 2 ∧
      (unpack t b).1.type = s.type ∧ (unpack t b).1.sequence = s.sequence ∧
      (unpack t b).1.segmentoffset = s.segmentoffset ∧ (unpack t b).1.channelID = s.channelID ∧
      (unpack t b).1.payload = s.payload ∧ (unpack t b).1.packetsize = some (s.payload.length / 4) := by
  obtain ⟨b, hp, hu, _⟩ := udp_fmt2_roundtrip_partial s t h hk
  exact ⟨b, hp, by rw [hu], by rw [hu]; rfl, by rw [hu]; rfl, by rw [hu]; rfl, by rw [hu]; rfl, by rw [hu]; rfl,
    by rw [hu]; rfl, by rw [hu]; rfl⟩

/-- K1, negation witness: the well-formed format-2 header with sequence 0x010000 is decoded as FORMAT 1
    with sequence 131072 -/
theorem udp_fmt2_roundtrip_fails_nibble1 :
    let s : State := { fresh with version := 2, sequence := 0x010000 }
    WF2 s ∧ ∃ b, (pack s).2 = .ok b ∧ (unpack fresh b).2 = .ok () ∧
      (unpack fresh b).1.version = 1 ∧ (unpack fresh b).1.sequence = 131072 := by
  refine ⟨by simp [WF2, fresh, TYPE_FULL], [1, 0, 0, 2, 0, 0, 0, 0, 0, 0, 0, 0], ?_, ?_, ?_, ?_⟩ <;> decide

/-- K1, negation witness: the well-formed format-2 header with sequence 0x030000 is decoded as FORMAT 3 -/
theorem udp_fmt2_roundtrip_fails_nibble3 :
    let s : State := { fresh with version := 2, sequence := 0x030000 }
    WF2 s ∧ ∃ b, (pack s).2 = .ok b ∧ (unpack fresh b).2 = .ok () ∧ (unpack fresh b).1.version = 3 := by
  refine ⟨by simp [WF2, fresh, TYPE_FULL], [3, 0, 0, 2, 0, 0, 0, 0, 0, 0, 0, 0], ?_, ?_, ?_⟩ <;> decide

/-- the library cannot decode what it encodes for segmented format 1: `unpack` raises a bare Exception
    for every buffer whose first byte is 0x11 -/
theorem udp_fmt1seg_unpack_raises (t : State) (b1 b2 b3 : UInt8) (rest : Bytes) :
    (unpack t (0x11 :: b1 :: b2 :: b3 :: rest)).2 = .error .generic := by
  simp [unpack, structUnpackFrom, CH10_UDP_HEADER_FORMAT1, Fmt.size, codesSize, Code.size, unpackCodes, decInt,
    leNat, TYPE_SEG, Acra.Lemmas.Ch10.and_15, Acra.Lemmas.Ch10.shr]

end Acra.Props.C03
