/-
  C03, Chapter 11 packet header: layout against the Spec, the shape laws (multiple of four,
  packet length, data length, filler), the round trip with and without the IEEE-1588 secondary
  header, and the illegal packet flags as error branches.

  `data_checksum_size` is held at 0 (hypothesis of both WF predicates): the code adds it to
  `packetlen` but emits no checksum bytes (DESIGN §5 C03, §8).
  K5: `unpack` never uses `datalen`, so the decoded payload is the payload FOLLOWED BY the filler.
-/
import Acra.Lemmas.Ch11
import Acra.Lemmas.ReviewC03
import Acra.Lemmas.Ch11Cksum
namespace Acra.Props.C03
open Acra.Py Acra.Model.Ch11 Acra.Gen.Ch11 Acra.Lemmas.Ch11 Acra.Lemmas.Ch10 Acra

/-! `WFn s` (no secondary header): every header field fits its width, flag < 128, `has_secondary_header = false`,
    `ts_source = TS_RTC` (what the flag setter leaves), `data_checksum_size = 0`, |payload| + 28 < 2^32.
    `WFs s` (IEEE-1588 secondary header): flag bit 7 set with time-format bits 01, `has_secondary_header = true`,
    `ts_source = TS_IEEE1558`, PTP seconds / nanoseconds < 2^32, |payload| + 40 < 2^32. -/

example : WFn { fresh with channelID := 0x1234, sequence := 3, packetflag := 0x35, datatype := 0x50,
                           relativetimecounter := 0xFFFFFFFFFFFF, payload := [1, 2, 3, 4, 5] } := by
  simp [WFn, fresh, DEFAULT_SYNCPATTERN, DEFAULT_DATATYPEVERSION, TS_RTC]
example : WFs { fresh with channelID := 7, packetflag := 0xF7, has_secondary_header := true, ts_source := TS_IEEE1558,
                           ptptime := ⟨1700000000, 999999999⟩, payload := [9, 8, 7] } := by
  simp [WFs, fresh, DEFAULT_SYNCPATTERN, DEFAULT_DATATYPEVERSION]

/-- the flag setter leaves exactly the derived fields the WF predicates ask for: legal flags without / with
    the secondary header -/
theorem ch11_setter_legal (s : State) (v : Nat) (h : v < 128 ∨ (v < 256 ∧ v / 128 = 1 ∧ v / 4 % 4 = 1)) :
    setPacketflag s v = ({ s with packetflag := v, has_secondary_header := decide (128 ≤ v),
                                  ts_source := if 128 ≤ v then TS_IEEE1558 else TS_RTC }, .ok ()) := by
  simp only [setPacketflag]
  bits_simp
  rcases h with h | ⟨h1, h2, h3⟩
  · have a : ¬ v > 255 := by omega
    have b : ¬ v / 128 = 1 := by omega
    have c : ¬ 128 ≤ v := by omega
    simp [a, b, c]
  · have a : ¬ v > 255 := by omega
    have c : 128 ≤ v := by omega
    simp [a, h2, h3, c]

/-- both disjuncts of the hypothesis are inhabited by non-trivial flags: 0x35 (no secondary header, RTC,
    checksum/overflow bits set) and 0xF7 (secondary header, time format 01 = IEEE-1588) -/
example : (0x35 < 128 ∨ (0x35 < 256 ∧ 0x35 / 128 = 1 ∧ 0x35 / 4 % 4 = 1)) ∧
    (0xF7 < 128 ∨ (0xF7 < 256 ∧ 0xF7 / 128 = 1 ∧ 0xF7 / 4 % 4 = 1)) ∧
    (setPacketflag fresh 0xF7).1.has_secondary_header = true ∧ (setPacketflag fresh 0xF7).1.ts_source = TS_IEEE1558 := by
  decide

/-- the error branches: a flag that does not fit a byte, or bit 7 with time-format bits 10 / 11, is rejected
    by the setter (bare Exception) -/
theorem ch11_setter_illegal (s : State) (v : Nat) (h : 255 < v ∨ (v / 128 = 1 ∧ 2 ≤ v / 4 % 4)) :
    (setPacketflag s v).2 = .error .generic := by
  simp only [setPacketflag]
  bits_simp
  rcases h with h | ⟨h2, h3⟩
  · simp [h]
  · by_cases a : v > 255
    · simp [a]
    · have b : ¬ v / 4 % 4 = 0 := by omega
      have c : ¬ v / 4 % 4 = 1 := by omega
      simp [a, h2, b, c]

/-- inhabited: 0x1F7 does not fit a byte; 0x88 and 0x8C have bit 7 with time-format bits 10 and 11 -/
example : (255 < 0x1F7 ∨ (0x1F7 / 128 = 1 ∧ 2 ≤ 0x1F7 / 4 % 4)) ∧ (255 < 0x88 ∨ (0x88 / 128 = 1 ∧ 2 ≤ 0x88 / 4 % 4)) ∧
    (255 < 0x8C ∨ (0x8C / 128 = 1 ∧ 2 ≤ 0x8C / 4 % 4)) ∧ (setPacketflag fresh 0x88).2 = .error .generic := by
  decide

/-- … and a secondary header with the Chapter 4 time format (what flag 0x80 selects) is rejected by `pack` -/
theorem ch11_pack_ch4_rejected (s : State) (h : s.has_secondary_header = true) (ht : s.ts_source = TS_CH4) :
    (pack s).2 = .error .generic := by
  simp [pack, secHdr, h, ht]

/-- inhabited (an object with a payload, the secondary-header switch on and the time source left at Chapter 4 /
    RTC — the two constants are both 0 in the library): `pack` raises -/
example : ({ fresh with has_secondary_header := true, payload := [1, 2, 3] } : State).has_secondary_header = true ∧
    ({ fresh with has_secondary_header := true, payload := [1, 2, 3] } : State).ts_source = TS_CH4 ∧
    (pack { fresh with has_secondary_header := true, payload := [1, 2, 3] }).2 = .error .generic := by
  decide

/-- layout, no secondary header: `pack` emits `Spec.Ch11.encode … none payload` and leaves the computed
    lengths and the filler in the object -/
theorem ch11_pack_layout (s : State) (h : WFn s) :
    pack s = (packed s 0, .ok (Spec.Ch11.encode s.syncpattern s.channelID s.datatypeversion s.sequence
      s.packetflag s.datatype s.relativetimecounter none s.payload)) := pack_nosec s h

/-- layout with the IEEE-1588 secondary header -/
theorem ch11_pack_layout_sec (s : State) (h : WFs s) :
    pack s = (packed s 12, .ok (Spec.Ch11.encode s.syncpattern s.channelID s.datatypeversion s.sequence
      s.packetflag s.datatype s.relativetimecounter (some (s.ptptime.seconds, s.ptptime.nanoseconds)) s.payload)) :=
  pack_sec s h

/-- shape: |pack c| % 4 = 0 ∧ packetlen = |pack c| ∧ datalen = |payload| ∧
    pack c = hdr ++ sec ++ payload ++ replicate k 0xFF ∧ k < 4 (|hdr| = 24, |sec| ∈ {0, 12}) -/
theorem ch11_pack_shape (s : State) (h : WFn s ∨ WFs s) :
    ∃ b hdr sec k, (pack s).2 = .ok b ∧ b.length % 4 = 0 ∧ (pack s).1.packetlen = b.length ∧
      (pack s).1.datalen = s.payload.length ∧ (pack s).1.filler = List.replicate k 0xFF ∧
      b = hdr ++ sec ++ s.payload ++ List.replicate k 0xFF ∧ k < 4 ∧ hdr.length = 24 ∧
      (sec.length = 0 ∨ sec.length = 12) := by
  rcases h with h | h
  · have hm := fillLen_mod (24 + 0 + s.payload.length)
    refine ⟨_, Spec.Ch11.header s.syncpattern s.channelID
      (24 + 0 + s.payload.length + Spec.Ch11.fillLen (24 + 0 + s.payload.length)) s.payload.length s.datatypeversion
      s.sequence s.packetflag s.datatype s.relativetimecounter, [], Spec.Ch11.fillLen (24 + 0 + s.payload.length),
      by rw [pack_nosec s h], ?_, ?_, ?_, ?_, ?_, fillLen_lt _, ?_, Or.inl rfl⟩
    · simp [Spec.Ch11.encode, Spec.Ch11.header, Spec.Ch11.header22, Spec.Ch11.fillLen]; omega
    · rw [pack_nosec s h]; simp [packed, Spec.Ch11.encode, Spec.Ch11.header, Spec.Ch11.header22]; omega
    · rw [pack_nosec s h]; rfl
    · rw [pack_nosec s h]; rfl
    · simp [Spec.Ch11.encode]
    · simp [Spec.Ch11.header, Spec.Ch11.header22]
  · have hm := fillLen_mod (24 + 12 + s.payload.length)
    have hl : (Spec.Ch11.secHeader s.ptptime.seconds s.ptptime.nanoseconds).length = 12 := by
      simp [Spec.Ch11.secHeader]
    refine ⟨_, Spec.Ch11.header s.syncpattern s.channelID
      (24 + 12 + s.payload.length + Spec.Ch11.fillLen (24 + 12 + s.payload.length)) s.payload.length s.datatypeversion
      s.sequence s.packetflag s.datatype s.relativetimecounter, Spec.Ch11.secHeader s.ptptime.seconds s.ptptime.nanoseconds,
      Spec.Ch11.fillLen (24 + 12 + s.payload.length),
      by rw [pack_sec s h], ?_, ?_, ?_, ?_, ?_, fillLen_lt _, ?_, Or.inr hl⟩
    · simp [Spec.Ch11.encode, Spec.Ch11.header, Spec.Ch11.header22, hl, Spec.Ch11.fillLen]; omega
    · rw [pack_sec s h]; simp [packed, Spec.Ch11.encode, Spec.Ch11.header, Spec.Ch11.header22, hl]; omega
    · rw [pack_sec s h]; rfl
    · rw [pack_sec s h]; rfl
    · simp [Spec.Ch11.encode, hl]
    · simp [Spec.Ch11.header, Spec.Ch11.header22]

/-- the two computed length fields AS THEY STAND IN THE EMITTED BYTES (little-endian 32-bit words at offsets 4
    and 8): the packet-length field equals the real length of the packet, the data-length field the length of
    the payload without filler -/
theorem ch11_length_fields_on_wire (s : State) (h : WFn s ∨ WFs s) :
    ∃ b, (pack s).2 = .ok b ∧ leNat (slice b 4 8) = b.length ∧ leNat (slice b 8 12) = s.payload.length := by
  rcases h with h | h
  · refine ⟨_, by rw [pack_nosec s h], ?_⟩
    exact Lemmas.ReviewC03.encode_length_fields _ _ _ _ _ _ _ none s.payload (by have := h.2.2.2.2.2.2.2.2.2.2; simp; omega)
  · refine ⟨_, by rw [pack_sec s h], ?_⟩
    exact Lemmas.ReviewC03.encode_length_fields _ _ _ _ _ _ _ (some _) s.payload (by have := h.2.2.2.2.2.2.2.2.2.2.2.2; simp; omega)

/-- `data_checksum_size = 0` is a hypothesis of both WF predicates.  What the code does otherwise (outside the
    property's quantifier: the library has no data-checksum support): it adds the size to `packetlen` but emits
    no checksum bytes, so the packet-length law is false — here 2 is added to the field and nothing to the bytes -/
example : (pack { fresh with data_checksum_size := 2, payload := [1, 2] }).1.packetlen = 28 ∧
    (match (pack { fresh with data_checksum_size := 2, payload := [1, 2] }).2 with
     | .ok b => b.length | .error _ => 0) = 26 := by decide

/-- round trip without secondary header, into an object in ANY prior state `t`: every header field comes
    back, `packetlen` / `datalen` are the computed ones, and the decoded payload is the original payload
    followed only by the `k < 4` filler bytes 0xFF (K5: `payload q = payload p ++ filler`) -/
theorem ch11_roundtrip (s t : State) (h : WFn s) :
    ∃ b, (pack s).2 = .ok b ∧ unpack t b = (decoded s t 0, .ok ()) ∧
      (decoded s t 0).payload = s.payload ++ List.replicate (Spec.Ch11.fillLen (24 + 0 + s.payload.length)) 0xFF ∧
      (decoded s t 0).channelID = s.channelID ∧ (decoded s t 0).sequence = s.sequence ∧
      (decoded s t 0).packetflag = s.packetflag ∧ (decoded s t 0).datatype = s.datatype ∧
      (decoded s t 0).datatypeversion = s.datatypeversion ∧ (decoded s t 0).syncpattern = s.syncpattern ∧
      (decoded s t 0).relativetimecounter = s.relativetimecounter ∧ (decoded s t 0).datalen = s.payload.length ∧
      (decoded s t 0).packetlen = b.length := by
  obtain ⟨b, hp, hu⟩ := roundtrip_nosec s t h
  refine ⟨b, by rw [hp], hu, rfl, rfl, rfl, rfl, rfl, rfl, rfl, rfl, rfl, ?_⟩
  have := pack_nosec s h
  rw [hp] at this
  injection this with _ h2
  injection h2 with h2
  subst h2
  simp [decoded, packed, Spec.Ch11.encode, Spec.Ch11.header, Spec.Ch11.header22]; omega

/-- round trip with the IEEE-1588 secondary header: additionally the PTP time comes back -/
theorem ch11_roundtrip_sec (s t : State) (h : WFs s) :
    ∃ b, (pack s).2 = .ok b ∧ unpack t b = (decoded s t 12, .ok ()) ∧
      (decoded s t 12).payload = s.payload ++ List.replicate (Spec.Ch11.fillLen (24 + 12 + s.payload.length)) 0xFF ∧
      (decoded s t 12).ptptime = s.ptptime ∧ (decoded s t 12).has_secondary_header = true ∧
      (decoded s t 12).channelID = s.channelID ∧ (decoded s t 12).sequence = s.sequence ∧
      (decoded s t 12).packetflag = s.packetflag ∧ (decoded s t 12).datatype = s.datatype ∧
      (decoded s t 12).datatypeversion = s.datatypeversion ∧ (decoded s t 12).syncpattern = s.syncpattern ∧
      (decoded s t 12).relativetimecounter = s.relativetimecounter ∧ (decoded s t 12).datalen = s.payload.length := by
  obtain ⟨b, hp, hu⟩ := roundtrip_sec s t h
  obtain ⟨_, _, _, _, _, _, _, _, h9, _⟩ := h
  exact ⟨b, by rw [hp], hu, rfl, rfl, by simp [decoded, packed, h9], rfl, rfl, rfl, rfl, rfl, rfl, rfl, rfl⟩

/-- when header + payload is already a multiple of four there is no filler and the payload is returned exactly -/
theorem ch11_roundtrip_aligned (s t : State) (h : WFn s) (ha : s.payload.length % 4 = 0) :
    ∃ b, (pack s).2 = .ok b ∧ (unpack t b).2 = .ok () ∧ (unpack t b).1.payload = s.payload := by
  obtain ⟨b, hp, hu⟩ := roundtrip_nosec s t h
  refine ⟨b, by rw [hp], by rw [hu], ?_⟩
  rw [hu]
  have : Spec.Ch11.fillLen (24 + 0 + s.payload.length) = 0 := by unfold Spec.Ch11.fillLen; omega
  simp [decoded, this]

/-- joint witness for `ch11_roundtrip_aligned`: well-formed, non-empty payload of a whole number of words -/
example : WFn { fresh with channelID := 0x1234, sequence := 3, packetflag := 0x35, datatype := 0x50,
                           relativetimecounter := 0xFFFFFFFFFFFF, payload := [1, 2, 3, 4, 5, 6, 7, 8] } ∧
    ({ fresh with channelID := 0x1234, sequence := 3, packetflag := 0x35, datatype := 0x50,
                  relativetimecounter := 0xFFFFFFFFFFFF, payload := [1, 2, 3, 4, 5, 6, 7, 8] } : State).payload.length % 4 = 0 := by
  simp [WFn, fresh, DEFAULT_SYNCPATTERN, DEFAULT_DATATYPEVERSION, TS_RTC]

/-! ### packets with `data_checksum_size = k ≠ 0` (outside `WFn` / `WFs`)

  What `pack` does with the attribute (Chapter11/__init__.py): `k` enters `total_len_excl_filler`, hence the filler length
  and the packet-length field — and nothing else.  No checksum bytes are emitted, the checksum bits of the packet flags are
  not set, `unpack` never reads the attribute.  `WFnK` / `WFsK` (Lemmas/Ch11Cksum) are `WFn` / `WFs` without the clause
  `data_checksum_size = 0` (`WFn s ↔ WFnK s ∧ k = 0`).  The theorems below give, for EVERY `k`, the exact bytes, the length
  laws as they really are, and the object round trip; `Props/C12` shows what the file reader does with such a packet. -/

/-- layout for every checksum size: header (declaring `24 + |sec| + |payload| + k + filler` bytes), secondary header,
    payload, filler computed from the length INCLUDING `k` — and no checksum bytes -/
theorem ch11_pack_layout_datacksum (s : State) (h : WFnK s) : pack s = (packedK s 0, .ok (bytesK s [])) := pack_nosecK s h

theorem ch11_pack_layout_datacksum_sec (s : State) (h : WFsK s) :
    pack s = (packedK s 12, .ok (bytesK s (Spec.Ch11.secHeader s.ptptime.seconds s.ptptime.nanoseconds))) := pack_secK s h

/-- for `k = 0` this is the standard layout of `ch11_pack_layout` -/
theorem ch11_bytesK_zero (s : State) (hk : s.data_checksum_size = 0) :
    bytesK s [] = Spec.Ch11.encode s.syncpattern s.channelID s.datatypeversion s.sequence s.packetflag s.datatype
      s.relativetimecounter none s.payload ∧
    bytesK s (Spec.Ch11.secHeader s.ptptime.seconds s.ptptime.nanoseconds) =
      Spec.Ch11.encode s.syncpattern s.channelID s.datatypeversion s.sequence s.packetflag s.datatype
        s.relativetimecounter (some (s.ptptime.seconds, s.ptptime.nanoseconds)) s.payload := by
  simp [bytesK, totalK, hk, Spec.Ch11.encode]

/-- the length laws as they really are: the packet-length FIELD (bytes 4..8 of what was emitted, and the attribute) is
    the real length PLUS `k`; that sum is a multiple of four, so the real length is one exactly when `k` is; the
    data-length field is the payload length; the filler has fewer than four bytes -/
theorem ch11_pack_shape_datacksum (s : State) (h : WFnK s ∨ WFsK s) :
    ∃ b, (pack s).2 = .ok b ∧
      leNat (slice b 4 8) = b.length + s.data_checksum_size ∧
      (pack s).1.packetlen = b.length + s.data_checksum_size ∧
      (b.length + s.data_checksum_size) % 4 = 0 ∧
      (b.length % 4 = 0 ↔ s.data_checksum_size % 4 = 0) ∧
      leNat (slice b 8 12) = s.payload.length ∧ (pack s).1.datalen = s.payload.length ∧
      (pack s).1.filler.length < 4 := by
  have key : ∀ sec : Bytes, totalK s sec.length + Spec.Ch11.fillLen (totalK s sec.length) < 2 ^ 32 →
      s.payload.length < 2 ^ 32 →
      pack s = (packedK s sec.length, .ok (bytesK s sec)) →
      ∃ b, (pack s).2 = .ok b ∧
        leNat (slice b 4 8) = b.length + s.data_checksum_size ∧
        (pack s).1.packetlen = b.length + s.data_checksum_size ∧
        (b.length + s.data_checksum_size) % 4 = 0 ∧
        (b.length % 4 = 0 ↔ s.data_checksum_size % 4 = 0) ∧
        leNat (slice b 8 12) = s.payload.length ∧ (pack s).1.datalen = s.payload.length ∧
        (pack s).1.filler.length < 4 := by
    intro sec hlt hpl hp
    have hlen := bytesK_length s sec
    have hmod := fillLen_mod (totalK s sec.length)
    have hfl := fillLen_lt (totalK s sec.length)
    obtain ⟨h1, h2⟩ := Lemmas.ReviewC03.header_len_fields s.syncpattern s.channelID
      (totalK s sec.length + Spec.Ch11.fillLen (totalK s sec.length)) s.payload.length s.datatypeversion s.sequence
      s.packetflag s.datatype s.relativetimecounter
      (sec ++ (s.payload ++ List.replicate (Spec.Ch11.fillLen (totalK s sec.length)) 0xFF))
    have hb : bytesK s sec = Spec.Ch11.header s.syncpattern s.channelID
        (totalK s sec.length + Spec.Ch11.fillLen (totalK s sec.length)) s.payload.length s.datatypeversion s.sequence
        s.packetflag s.datatype s.relativetimecounter ++
        (sec ++ (s.payload ++ List.replicate (Spec.Ch11.fillLen (totalK s sec.length)) 0xFF)) := by
      simp [bytesK, List.append_assoc]
    refine ⟨bytesK s sec, by rw [hp], ?_, by rw [hp]; simp only [packedK]; omega, by omega, by omega, ?_, by rw [hp]; rfl,
      by rw [hp]; simp [packedK]; omega⟩
    · rw [hb, h1, leNat_leBytes_of_lt _ _ (by omega), ← hb]; omega
    · rw [hb, h2, leNat_leBytes_of_lt _ _ (by omega)]
  rcases h with h | h
  · have hfl := fillLen_lt (totalK s ([] : Bytes).length)
    have := h.2.2.2.2.2.2.2.2.2
    exact key [] (by simp only [totalK, List.length_nil] at hfl ⊢; omega) (by omega) (pack_nosecK s h)
  · have hl : (Spec.Ch11.secHeader s.ptptime.seconds s.ptptime.nanoseconds).length = 12 := by
      simp [Spec.Ch11.secHeader]
    have hfl := fillLen_lt (totalK s 12)
    have := h.2.2.2.2.2.2.2.2.2.2.2
    have hp := pack_secK s h
    rw [← hl] at hp
    exact key _ (by rw [hl]; simp only [totalK] at hfl ⊢; omega) (by omega) hp

/-- object round trip for every checksum size: decoding the emitted bytes into an object in ANY prior state gives back
    every header field, the data length, the payload followed by the filler (K5) — and a packet length that is `k` MORE
    than the bytes decoded; `data_checksum_size` itself is not carried by the bytes (the decoder keeps its own) -/
theorem ch11_roundtrip_datacksum (s t : State) (h : WFnK s) :
    ∃ b, (pack s).2 = .ok b ∧ unpack t b = (decodedK s t 0, .ok ()) ∧
      (decodedK s t 0).payload = s.payload ++ List.replicate (Spec.Ch11.fillLen (totalK s 0)) 0xFF ∧
      (decodedK s t 0).channelID = s.channelID ∧ (decodedK s t 0).sequence = s.sequence ∧
      (decodedK s t 0).packetflag = s.packetflag ∧ (decodedK s t 0).datatype = s.datatype ∧
      (decodedK s t 0).datatypeversion = s.datatypeversion ∧ (decodedK s t 0).syncpattern = s.syncpattern ∧
      (decodedK s t 0).relativetimecounter = s.relativetimecounter ∧ (decodedK s t 0).datalen = s.payload.length ∧
      (decodedK s t 0).packetlen = b.length + s.data_checksum_size ∧
      (decodedK s t 0).data_checksum_size = t.data_checksum_size := by
  refine ⟨bytesK s [], by rw [pack_nosecK s h], roundtrip_nosecK s t h, rfl, rfl, rfl, rfl, rfl, rfl, rfl, rfl, rfl, ?_, rfl⟩
  have := bytesK_length s []
  simp only [decodedK, packedK]
  simp only [List.length_nil] at this
  omega

theorem ch11_roundtrip_datacksum_sec (s t : State) (h : WFsK s) :
    ∃ b, (pack s).2 = .ok b ∧ unpack t b = (decodedK s t 12, .ok ()) ∧
      (decodedK s t 12).payload = s.payload ++ List.replicate (Spec.Ch11.fillLen (totalK s 12)) 0xFF ∧
      (decodedK s t 12).ptptime = s.ptptime ∧ (decodedK s t 12).has_secondary_header = true ∧
      (decodedK s t 12).channelID = s.channelID ∧ (decodedK s t 12).sequence = s.sequence ∧
      (decodedK s t 12).packetflag = s.packetflag ∧ (decodedK s t 12).datatype = s.datatype ∧
      (decodedK s t 12).datalen = s.payload.length ∧
      (decodedK s t 12).packetlen = b.length + s.data_checksum_size := by
  have hl : (Spec.Ch11.secHeader s.ptptime.seconds s.ptptime.nanoseconds).length = 12 := by
    simp [Spec.Ch11.secHeader]
  refine ⟨_, by rw [pack_secK s h], roundtrip_secK s t h, rfl, rfl, ?_, rfl, rfl, rfl, rfl, rfl, ?_⟩
  · have := h.2.2.2.2.2.2.2.1
    simp [decodedK, packedK, this]
  · have := bytesK_length s (Spec.Ch11.secHeader s.ptptime.seconds s.ptptime.nanoseconds)
    rw [hl] at this
    simp only [decodedK, packedK]
    omega

/-- witnesses: `k = 2` without and `k = 1` with secondary header; the hypotheses hold and the laws evaluate as stated
    (26 bytes emitted, 28 declared; 26 % 4 ≠ 0) -/
example : WFnK { fresh with channelID := 0x1234, sequence := 3, packetflag := 0x35, datatype := 0x50,
                            relativetimecounter := 0xFFFFFFFFFFFF, data_checksum_size := 2, payload := [1, 2] } := by
  simp [WFnK, fresh, DEFAULT_SYNCPATTERN, DEFAULT_DATATYPEVERSION, TS_RTC]
example : WFsK { fresh with channelID := 7, packetflag := 0xF7, has_secondary_header := true, ts_source := TS_IEEE1558,
                            ptptime := ⟨1700000000, 999999999⟩, data_checksum_size := 1, payload := [9, 8, 7] } := by
  simp [WFsK, fresh, DEFAULT_SYNCPATTERN, DEFAULT_DATATYPEVERSION]
example : (bytesK { fresh with data_checksum_size := 2, payload := [1, 2] } []).length = 26 ∧
    leNat (slice (bytesK { fresh with data_checksum_size := 2, payload := [1, 2] } []) 4 8) = 28 := by decide
/-- and a `k` that is a multiple of four keeps the emitted length a multiple of four (24 + 4 payload bytes, 32 declared) -/
example : (bytesK { fresh with data_checksum_size := 4, payload := [1, 2, 3, 4] } []).length = 28 ∧
    leNat (slice (bytesK { fresh with data_checksum_size := 4, payload := [1, 2, 3, 4] } []) 4 8) = 32 := by decide

/-- `ch11_bytesK_zero`: its hypothesis holds for every object the constructor makes -/
example : ({ fresh with payload := [1, 2, 3] } : State).data_checksum_size = 0 := rfl

end Acra.Props.C03
