import Acra.Model.Container
import Acra.Props.C04.ARINC
import Acra.Props.C04.MIL1553
import Acra.Props.C04.UART
import Acra.Props.C04.PCM
import Acra.Props.C04.TimeFmt1
import Acra.Props.C04.TimeFmt2
/-!
  C04 for the container protocol of the Chapter 11 payload classes ("decodes back to the same messages in the same
  order" as seen through `len` / `[i]`): `unpack (pack p)` then `[i]` is the i-th message of `p`, `IndexError` exactly
  outside `-n ≤ i < n`, `len` is the number of messages.  `PCMDataPacket` has `[i]` but no `len`.
  The two time formats define `__len__` by constants: for format 2 it is the length of the encoding, for format 1 it is
  NOT (`TDF1_len_is_not_pack_length`, an observation outside the property: C04 does not speak of `len`).
-/
namespace Acra.Props.C04
open Acra.Py

open Acra.Model.Ch11Pay.ARINC Acra.Lemmas.Ch11ARINC in
theorem ARINC_getitem_roundtrip (p t : Packet) (h : ARINC_WF p) :
    ∃ b, p.pack.2 = .ok b ∧ (Packet.unpack t b).2 = .ok () ∧
      (Packet.unpack t b).1.len = p.arincwords.length ∧
      (∀ i, (Packet.unpack t b).1.getitem i = listGet p.arincwords i) ∧
      (∀ k (hk : k < p.arincwords.length), (Packet.unpack t b).1.getitem k = .ok p.arincwords[k]) ∧
      (∀ i : Int, (Packet.unpack t b).1.getitem i = .error .index ↔
        ¬ (-(p.arincwords.length : Int) ≤ i ∧ i < p.arincwords.length)) := by
  obtain ⟨b, h1, h2, _⟩ := ARINC_roundtrip p t h
  refine ⟨b, h1, by rw [h2], by rw [h2]; rfl, fun i => by rw [h2]; rfl, ?_, ?_⟩
  · intro k hk; rw [h2]; exact listGet_nonneg _ k hk
  · intro i; rw [h2]; exact listGet_error_iff _ i

open Acra.Model.Ch11Pay.MIL1553 Acra.Lemmas.Ch11MIL1553 in
/-- 1553: `[i]` of the decoded packet is message `i` of `p` with its computed length field (`norm`) -/
theorem MIL_getitem_roundtrip (p t : Packet) (h : MIL_WF p) (ho : t.ipts_source = p.ipts_source) :
    ∃ b, p.pack.2 = .ok b ∧ (Packet.unpack t b).2 = .ok () ∧
      (Packet.unpack t b).1.len = p.messages.length ∧
      (∀ i, (Packet.unpack t b).1.getitem i = (listGet p.messages i).map norm) ∧
      (∀ i : Int, (Packet.unpack t b).1.getitem i = .error .index ↔
        ¬ (-(p.messages.length : Int) ≤ i ∧ i < p.messages.length)) := by
  obtain ⟨b, h1, h2, _⟩ := MIL_roundtrip p t h ho
  refine ⟨b, h1, by rw [h2], by rw [h2]; simp [Packet.len], fun i => by rw [h2]; exact listGet_map _ _ i, ?_⟩
  intro i; rw [h2]
  have := listGet_error_iff (p.messages.map norm) i
  simpa [Packet.getitem] using this

open Acra.Model.Ch11Pay.UART Acra.Lemmas.Ch11UART in
theorem UART_getitem_roundtrip (p t : Packet) (h : UART_WF p) (ho : t.ipts_source = p.ipts_source)
    (he : t.data_endianness = p.data_endianness) :
    ∃ b, p.pack = .ok b ∧ (Packet.unpack t b).2 = .ok () ∧
      (Packet.unpack t b).1.len = p.uartwords.length ∧
      (∀ i, (Packet.unpack t b).1.getitem i = (listGet p.uartwords i).map norm) ∧
      (∀ i : Int, (Packet.unpack t b).1.getitem i = .error .index ↔
        ¬ (-(p.uartwords.length : Int) ≤ i ∧ i < p.uartwords.length)) := by
  obtain ⟨b, h1, h2, _⟩ := UART_roundtrip p t h ho he
  refine ⟨b, h1, by rw [h2], by rw [h2]; simp [Packet.len], fun i => by rw [h2]; exact listGet_map _ _ i, ?_⟩
  intro i; rw [h2]
  have := listGet_error_iff (p.uartwords.map norm) i
  simpa [Packet.getitem] using this

open Acra.Model.Ch11Pay.PCM Acra.Lemmas.Ch11PCM in
theorem PCM_getitem_roundtrip (p t : Packet) (n : Nat) (h : PCM_WF p n) (ho : t.ipts_source = p.ipts_source)
    (hs : t.assigned = some n) :
    ∃ b, p.pack = .ok b ∧ (Packet.unpack t b false).2 = .ok () ∧
      (∀ i, (Packet.unpack t b false).1.getitem i = listGet p.minor_frames i) ∧
      (∀ i : Int, (Packet.unpack t b false).1.getitem i = .error .index ↔
        ¬ (-(p.minor_frames.length : Int) ≤ i ∧ i < p.minor_frames.length)) ∧
      (Packet.unpack t b false).1.len = .error .type := by
  obtain ⟨b, h1, h2, h3, _⟩ := PCM_roundtrip_fields p t n h ho hs
  refine ⟨b, h1, h2, fun i => by simp only [Packet.getitem, h3], ?_, rfl⟩
  intro i; simp only [Packet.getitem, h3]; exact listGet_error_iff _ i

/-! ### the time formats -/
section time
open Acra.Model.Ch11Pay.TimeFmt Acra.Gen.Ch11TimeFmt Acra.Lemmas.Ch11TimeFmt Acra.Lemmas.Ch11Calendar

/-- the test `(csd & DATE_FMT_YEAR_AVAIL) >> 9 == 1` of `__len__` is the test `pack` makes -/
theorem TDF1_len_test (csd : Nat) : ((csd &&& DATE_FMT_YEAR_AVAIL) >>> 9 == 1) = yearAvail csd := by
  have h : (csd &&& 512) >>> 9 = csd / 512 % 2 := by
    apply Nat.eq_of_testBit_eq
    intro i
    simp only [Nat.testBit_shiftRight, Nat.testBit_and]
    have h512 : (512 : Nat) = 2 ^ 9 := rfl
    rw [h512, Nat.testBit_two_pow]
    by_cases hi : i = 0
    · subst hi
      simp [Nat.testBit, Nat.shiftRight_eq_div_pow]
    · have hlt : csd / 2 ^ 9 % 2 < 2 ^ i := by
        have : 2 ≤ 2 ^ i := by
          calc 2 = 2 ^ 1 := rfl
            _ ≤ 2 ^ i := Nat.pow_le_pow_right (by omega) (by omega)
        omega
      rw [Nat.testBit_lt_two_pow hlt]
      simp [hi]
  simp only [DATE_FMT_YEAR_AVAIL, yearAvail, h]

theorem TDF1_len_values (s : State1) :
    s.len = if yearAvail s.channel_specific_data then 20 else 16 := by
  simp only [State1.len, TDF1_len_test]

/-- OBSERVATION (outside C04, which does not mention `len`): `len(TimeDataFormat1)` is 4·(words+1) = 20 / 16, while
    `pack()` emits 12 / 10 bytes — for every encodable time.  `__len__` is not the length of the encoding. -/
theorem TDF1_len_is_not_pack_length (st : State1) (n : Nat) (h : TDF1_WF st n) :
    ∃ b, st.pack = .ok b ∧ b.length = (if yearAvail st.channel_specific_data then 12 else 10) ∧
      st.len = b.length + (if yearAvail st.channel_specific_data then 8 else 6) := by
  cases hy : yearAvail st.channel_specific_data
  · refine ⟨doyBytes st n, TDF1_pack_doy st n h hy, ?_, ?_⟩
    · simp [doyBytes, bytes6]
    · rw [TDF1_len_values, hy]; simp [doyBytes, bytes6]
  · refine ⟨dmyBytes st n, TDF1_pack_dmy st n h hy, ?_, ?_⟩
    · simp [dmyBytes, bytes8]
    · rw [TDF1_len_values, hy]; simp [dmyBytes, bytes8]

example : TDF1_WF ⟨0x251, 1709208000, 123456789⟩ 1709208000 ∧ (⟨0x251, 1709208000, 123456789⟩ : State1).len = 20 ∧
    TDF1_WF ⟨0x51, 1709208000, 999999999⟩ 1709208000 ∧ (⟨0x51, 1709208000, 999999999⟩ : State1).len = 16 := by
  refine ⟨⟨rfl, by simp, by simp [DAYS], by simp⟩, by decide, ⟨rfl, by simp, by simp [DAYS], by simp⟩, by decide⟩

open Acra.Lemmas.Float in
/-- time format 2: `len` (the constant 12) IS the length of the encoding, for every rounding function -/
theorem TDF2_len_eq_pack_length (fl : ℚ → ℚ) (F : FloatSem fl) (s : State2) (h : TDF2_WF s) :
    ∃ b, State2.packWith fl s = .ok b ∧ s.len = b.length := by
  refine ⟨_, TDF2_pack_layout fl F s h, ?_⟩
  simp [State2.len, Spec.Ch11.time2]

example : TDF2_WF ⟨0x11, 1700000000, 999999999⟩ := by simp [TDF2_WF]

end time

/-! ### witnesses -/
section witnesses
open Acra.Model.Ch11Pay

example : ARINC.Packet.getitem { msgcount := 2, arincwords := [ARINC.Word.fresh, { ARINC.Word.fresh with bus := 7 }] } (-1)
    = .ok { ARINC.Word.fresh with bus := 7 } := rfl

open Acra.Model.Ch11Pay.ARINC Acra.Lemmas.Ch11ARINC in
example := ARINC_getitem_roundtrip ⟨0, [⟨4110, true, false, 1, 200, [1, 2, 3, 4]⟩, ⟨0, false, true, 0, 0, [0, 0, 0, 0]⟩]⟩
  ⟨7, [Word.fresh]⟩ (by
    refine ⟨?_, by simp⟩
    intro w hw
    simp only [List.mem_cons, List.mem_nil_iff, or_false] at hw
    rcases hw with h | h <;> subst h <;> simp [Word_WF])

open Acra.Model.Ch11Pay Acra.Model.Ch11Pay.MIL1553 Acra.Lemmas.Ch11MIL1553 Acra.Lemmas.Ch11Pay Acra.Gen.Ch11PayTs in
example := MIL_getitem_roundtrip
  { messages := [⟨.rtc 1, 0, 0, 0, []⟩, ⟨.rtc 77, 0xFFFF, 3, 0, [1, 2, 3]⟩], msgcount := 2, ttb := 3, ipts_source := some 0 }
  { messages := [⟨.rtc 9, 0, 0, 0, []⟩], msgcount := 5, ttb := 1, ipts_source := some 0 } (by
    refine ⟨?_, by simp, by simp, by simp, by simp⟩
    intro m hm
    simp only [List.mem_cons, List.mem_nil_iff, or_false] at hm
    rcases hm with h | h <;> subst h <;>
      simp [Msg_WF, Ipts_WF, protoIpts, iptsOfSource, TS_CH4, sameKind]) rfl

open Acra.Model.Ch11Pay Acra.Model.Ch11Pay.UART Acra.Lemmas.Ch11UART Acra.Lemmas.Ch11Pay Acra.Gen.Ch11PayTs in
example := UART_getitem_roundtrip
  { uartwords := [Word.setPayload (Word.fresh (.ptp 5 999999999) 1) [1, 2, 3],
                  { Word.fresh (.ptp 6 0) 1 with parity_error := true, subchannel := 0x1FFF }],
    ipts_source := some 1, data_endianness := 1 }
  { uartwords := [Word.fresh (.ptp 1 1) 1], ipts_source := some 1, data_endianness := 1 } (by
    refine ⟨?_, by simp, Or.inr ⟨1, .ptp 0 0, rfl, by simp [iptsOfSource, TS_CH4, TS_IEEE1558]⟩, by simp [Word.fresh]⟩
    intro w hw
    simp only [List.mem_cons, List.mem_nil_iff, or_false] at hw
    rcases hw with h | h <;> subst h <;>
      simp [Word_WF, Word_Fits, Ipts_WF, uartProtoIpts, iptsOfSource, TS_CH4, TS_IEEE1558, sameKind, Word.fresh, Word.setPayload])
  rfl rfl

open Acra.Model.Ch11Pay Acra.Model.Ch11Pay.PCM Acra.Lemmas.Ch11PCM Acra.Lemmas.Ch11Pay Acra.Gen.Ch11PayTs Acra.Gen.Ch11PCM in
example := PCM_getitem_roundtrip
  ⟨0x200000, some 1, some 3, Option.none, Option.none, [⟨.ptp 7 8, false, some 0xFFFFFFFF, [1, 2, 3], 1, Option.none, Option.none⟩]⟩
  ⟨0, some 1, some 3, Option.none, Option.none, []⟩ 3 (by
    refine ⟨by simp, by simp [MODE_THROUGHPUT], ?_⟩
    intro f hf
    simp only [List.mem_cons, List.mem_nil_iff, or_false] at hf
    subst hf
    simp [Frame_WF, Frame.fresh, Ipts_WF, hdrLen, MODE_ALIGNMENT, pcmProto, sameKind, TS_CH4]) rfl rfl

end witnesses

end Acra.Props.C04
