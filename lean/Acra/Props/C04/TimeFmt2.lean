import Acra.Lemmas.Float
import Acra.Model.Ch11TimeFmt
import Acra.Spec.Ch11
namespace Acra.Props.C04
open Acra.Py Acra.Model.Ch11Pay.TimeFmt Acra.Gen.Ch11TimeFmt Acra.Lemmas.Float

/-- seconds and the fraction field fit 32 bits -/
def TDF2_WF (s : State2) : Prop := s.channel_specific_data < 2 ^ 32 ∧ s.seconds < 2 ^ 32 ∧ s.nanoseconds < 10 ^ 9

/-- the NTP fraction, for every rounding function with the two binary64 facts: for every nanosecond
    count below 10^9, `int(ns * (2**32/1e9))` fits the 32-bit field, and converting it back with
    `int(fs / (2**32/1e9))` returns `ns` or `ns − 1` — never more, never 2 less -/
theorem ntp_within_1ns (fl : ℚ → ℚ) (F : FloatSem fl) (ns : ℕ) (hns : ns < 1000000000) :
    fracToNs fl (nsToFrac fl ns) ≤ ns ∧ ns ≤ fracToNs fl (nsToFrac fl ns) + 1 ∧ nsToFrac fl ns < 2 ^ 32 := by
  -- the scale constant
  set C : ℚ := (4294967296 : ℚ) / 1000000000 with hC
  have hCpos : (0 : ℚ) < C := by norm_num [hC]
  set c : ℚ := fl C with hc
  have hcerr : -(C * (1 / 2 ^ 53)) ≤ c - C ∧ c - C ≤ C * (1 / 2 ^ 53) := abs_le.mp (F.err C (le_of_lt hCpos))
  have hu : (1 : ℚ) / 2 ^ 53 ≤ 1 / 2 ^ 52 := by norm_num
  have hc_lo : (429 : ℚ) / 100 ≤ c := by
    have : C * (1 / 2 ^ 53) ≤ 1 / 1000 := by norm_num [hC]
    have hC' : (4294 : ℚ) / 1000 ≤ C := by norm_num [hC]
    linarith [hcerr.1]
  have hc_hi : c ≤ C * (1 + 1 / 2 ^ 53) := by linarith [hcerr.2]
  have hc_lo' : C * (1 - 1 / 2 ^ 53) ≤ c := by linarith [hcerr.1]
  have hcpos : (0 : ℚ) < c := by linarith
  have hnsq : (ns : ℚ) ≤ 999999999 := by
    have : ns ≤ 999999999 := by omega
    exact_mod_cast this
  have hns0 : (0 : ℚ) ≤ ns := by positivity
  -- first product
  unfold nsToFrac fracToNs ntpScale
  rw [F.exact ns (by norm_num; omega)]
  set x1 : ℚ := (ns : ℚ) * c with hx1
  have hx1_0 : 0 ≤ x1 := by positivity
  set y1 : ℚ := fl x1 with hy1
  have hy1err : -(x1 * (1 / 2 ^ 53)) ≤ y1 - x1 ∧ y1 - x1 ≤ x1 * (1 / 2 ^ 53) := abs_le.mp (F.err x1 hx1_0)
  have hy1_0 : 0 ≤ y1 := by
    have : x1 * (1 / 2 ^ 53) ≤ x1 := by
      have : (1 : ℚ) / 2 ^ 53 ≤ 1 := by norm_num
      calc x1 * (1 / 2 ^ 53) ≤ x1 * 1 := mul_le_mul_of_nonneg_left this hx1_0
        _ = x1 := by ring
    linarith [hy1err.1]
  set frac : ℕ := Float.floorNat y1 with hfrac
  have hf_le := floorNat_le y1 hy1_0
  have hf_lt := lt_floorNat_add_one y1 hy1_0
  -- bounds on x1, y1
  have hx1_hi : x1 ≤ 999999999 * (C * (1 + 1 / 2 ^ 53)) := by
    calc x1 = (ns : ℚ) * c := rfl
      _ ≤ 999999999 * c := mul_le_mul_of_nonneg_right hnsq (le_of_lt hcpos)
      _ ≤ 999999999 * (C * (1 + 1 / 2 ^ 53)) := mul_le_mul_of_nonneg_left hc_hi (by norm_num)
  have hy1_hi : y1 < 4294967296 := by
    have h1 : y1 ≤ x1 * (1 + 1 / 2 ^ 53) := by linarith [hy1err.2]
    have h2 : x1 * (1 + 1 / 2 ^ 53) ≤ 999999999 * (C * (1 + 1 / 2 ^ 53)) * (1 + 1 / 2 ^ 53) :=
      mul_le_mul_of_nonneg_right hx1_hi (by norm_num)
    have h3 : 999999999 * (C * (1 + 1 / 2 ^ 53)) * (1 + 1 / 2 ^ 53) < 4294967296 := by norm_num [hC]
    linarith
  have hfrac_lt : frac < 2 ^ 32 := by
    have : (frac : ℚ) < 4294967296 := lt_of_le_of_lt hf_le hy1_hi
    have : frac < 4294967296 := by exact_mod_cast this
    norm_num; exact this
  rw [F.exact frac (by have : (2:ℕ)^32 < 2^53 := by norm_num
                       omega)]
  set x2 : ℚ := (frac : ℚ) / c with hx2
  have hfrac0 : (0 : ℚ) ≤ frac := by positivity
  have hx2_0 : 0 ≤ x2 := by positivity
  set y2 : ℚ := fl x2 with hy2
  have hy2err : -(x2 * (1 / 2 ^ 53)) ≤ y2 - x2 ∧ y2 - x2 ≤ x2 * (1 / 2 ^ 53) := abs_le.mp (F.err x2 hx2_0)
  have hy2_0 : 0 ≤ y2 := by
    have : x2 * (1 / 2 ^ 53) ≤ x2 := by
      have : (1 : ℚ) / 2 ^ 53 ≤ 1 := by norm_num
      calc x2 * (1 / 2 ^ 53) ≤ x2 * 1 := mul_le_mul_of_nonneg_left this hx2_0
        _ = x2 := by ring
    linarith [hy2err.1]
  have hb_le := floorNat_le y2 hy2_0
  have hb_lt := lt_floorNat_add_one y2 hy2_0
  -- x2 in terms of ns
  have hx2_hi : x2 ≤ (ns : ℚ) * (1 + 1 / 2 ^ 53) := by
    rw [hx2, div_le_iff₀ hcpos]
    have : y1 ≤ x1 * (1 + 1 / 2 ^ 53) := by linarith [hy1err.2]
    calc (frac : ℚ) ≤ y1 := hf_le
      _ ≤ x1 * (1 + 1 / 2 ^ 53) := this
      _ = (ns : ℚ) * (1 + 1 / 2 ^ 53) * c := by rw [hx1]; ring
  have hx2_lo : (ns : ℚ) * (1 - 1 / 2 ^ 53) - 100 / 429 ≤ x2 := by
    have h1 : x1 * (1 - 1 / 2 ^ 53) - 1 ≤ (frac : ℚ) := by linarith [hy1err.1]
    have h2 : ((ns : ℚ) * (1 - 1 / 2 ^ 53) - 1 / c) * c = x1 * (1 - 1 / 2 ^ 53) - 1 := by
      rw [hx1]; field_simp
    have h3 : (ns : ℚ) * (1 - 1 / 2 ^ 53) - 1 / c ≤ x2 := by
      rw [hx2, le_div_iff₀ hcpos, h2]; exact h1
    have h4 : 1 / c ≤ (100 : ℚ) / 429 := by
      rw [div_le_div_iff₀ hcpos (by norm_num)]; linarith
    linarith
  have hsmall : (ns : ℚ) * (1 / 2 ^ 53) ≤ 1 / 2 ^ 23 := by
    calc (ns : ℚ) * (1 / 2 ^ 53) ≤ 999999999 * (1 / 2 ^ 53) := mul_le_mul_of_nonneg_right hnsq (by norm_num)
      _ ≤ 1 / 2 ^ 23 := by norm_num
  have hx2_small : x2 * (1 / 2 ^ 53) ≤ 1 / 2 ^ 22 := by
    have : x2 ≤ 2 ^ 30 := by
      have : (ns : ℚ) * (1 + 1 / 2 ^ 53) ≤ 999999999 * (1 + 1 / 2 ^ 53) := mul_le_mul_of_nonneg_right hnsq (by norm_num)
      have : (999999999 : ℚ) * (1 + 1 / 2 ^ 53) ≤ 2 ^ 30 := by norm_num
      linarith
    calc x2 * (1 / 2 ^ 53) ≤ 2 ^ 30 * (1 / 2 ^ 53) := mul_le_mul_of_nonneg_right this (by norm_num)
      _ ≤ 1 / 2 ^ 22 := by norm_num
  have hy2_hi : y2 < (ns : ℚ) + 1 := by
    have : (1 : ℚ) / 2 ^ 23 + 1 / 2 ^ 22 < 1 := by norm_num
    linarith [hy2err.2]
  have hy2_lo : (ns : ℚ) - 1 ≤ y2 := by
    have : (1 : ℚ) / 2 ^ 23 + 1 / 2 ^ 22 + 100 / 429 < 1 := by norm_num
    linarith [hy2err.1]
  refine ⟨?_, ?_, hfrac_lt⟩
  · have : ((Float.floorNat y2 : ℕ) : ℚ) < (ns : ℚ) + 1 := lt_of_le_of_lt hb_le hy2_hi
    have : Float.floorNat y2 < ns + 1 := by exact_mod_cast this
    omega
  · have : (ns : ℚ) - 1 < ((Float.floorNat y2 : ℕ) : ℚ) + 1 := lt_of_le_of_lt hy2_lo hb_lt
    have : (ns : ℚ) < ((Float.floorNat y2 + 2 : ℕ) : ℚ) := by push_cast; linarith
    have : ns < Float.floorNat y2 + 2 := by exact_mod_cast this
    omega


/-- the same for the executable model (binary64 round to nearest even), which the correspondence check
    compares with CPython on every run -/
theorem ntp_within_1ns_exec (ns : ℕ) (hns : ns < 1000000000) :
    fracToNs Float.rne (nsToFrac Float.rne ns) ≤ ns ∧ ns ≤ fracToNs Float.rne (nsToFrac Float.rne ns) + 1 :=
  let h := ntp_within_1ns Float.rne rne_floatSem ns hns
  ⟨h.1, h.2.1⟩

/-- the truncation is real: 123456789 ns comes back as 123456788 ns -/
example : fracToNs Float.rne (nsToFrac Float.rne 123456789) = 123456788 := by decide +kernel

/-- `pack()`: channel-specific word, seconds, fraction — three little-endian 32-bit words; the fraction
    is the nanosecond count for the IEEE-1588 codes and the NTP fraction otherwise -/
theorem TDF2_pack_layout (fl : ℚ → ℚ) (F : FloatSem fl) (s : State2) (h : TDF2_WF s) :
    State2.packWith fl s = .ok (Spec.Ch11.time2 s.channel_specific_data s.seconds
      (if isPTP s.channel_specific_data then s.nanoseconds else nsToFrac fl s.nanoseconds)) := by
  obtain ⟨h1, h2, h3⟩ := h
  have hfr : (if isPTP s.channel_specific_data then s.nanoseconds else nsToFrac fl s.nanoseconds) < 2 ^ 32 := by
    split
    · omega
    · exact (ntp_within_1ns fl F s.nanoseconds (by omega)).2.2
  have hf : Fits TDF2_pack_fmt0.codes [s.channel_specific_data, s.seconds,
      if isPTP s.channel_specific_data then s.nanoseconds else nsToFrac fl s.nanoseconds] := by
    simp only [Fits, TDF2_pack_fmt0, Code.bound, and_true]
    exact ⟨by omega, by omega, by omega⟩
  simp only [State2.packWith, structPack_eq _ _ hf]
  simp [TDF2_pack_fmt0, encCodes, Code.size, Spec.Ch11.time2, encInt]

theorem TDF2_unpack_bytes (fl : ℚ → ℚ) (t : State2) (csd sec fr : ℕ) (h1 : csd < 2 ^ 32) (h2 : sec < 2 ^ 32) (h3 : fr < 2 ^ 32) :
    State2.unpackWith fl t (Spec.Ch11.time2 csd sec fr) =
      ({ channel_specific_data := csd, seconds := sec, nanoseconds := if isPTP csd then fr else fracToNs fl fr }, .ok ()) := by
  have e : Spec.Ch11.time2 csd sec fr = encInt false 4 csd ++ (encInt false 4 sec ++ encInt false 4 fr) := by
    simp [Spec.Ch11.time2, encInt]
  rw [e]
  simp only [State2.unpackWith, structUnpack, TDF2_unpack_fmt0, Fmt.size, codesSize, Code.size, List.length_append,
    encInt_length, unpackCodes, if_true, take_encInt_append, drop_encInt_append, take_encInt]
  rw [decInt_encInt4 _ _ (by omega), decInt_encInt4 _ _ (by omega), decInt_encInt4 _ _ (by omega)]

/-- round trip with an IEEE-1588 time code (2002 or 2008 — any non-zero code): exact, all three fields,
    into an object in any prior state -/
theorem TDF2_roundtrip_ptp (fl : ℚ → ℚ) (F : FloatSem fl) (s t : State2) (h : TDF2_WF s)
    (hp : isPTP s.channel_specific_data = true) :
    ∃ b, State2.packWith fl s = .ok b ∧ State2.unpackWith fl t b = (s, .ok ()) := by
  refine ⟨_, TDF2_pack_layout fl F s h, ?_⟩
  obtain ⟨h1, h2, h3⟩ := h
  simp only [hp, if_true]
  rw [TDF2_unpack_bytes fl t _ _ _ h1 h2 (by omega)]
  simp [hp]

/-- round trip with the NTP code (time-code bits 0): seconds and channel-specific word exact, the
    nanoseconds come back as `ns` or `ns − 1` -/
theorem TDF2_roundtrip_ntp (fl : ℚ → ℚ) (F : FloatSem fl) (s t : State2) (h : TDF2_WF s)
    (hp : isPTP s.channel_specific_data = false) :
    ∃ b, State2.packWith fl s = .ok b ∧ (State2.unpackWith fl t b).2 = .ok () ∧
      (State2.unpackWith fl t b).1.channel_specific_data = s.channel_specific_data ∧
      (State2.unpackWith fl t b).1.seconds = s.seconds ∧
      (State2.unpackWith fl t b).1.nanoseconds ≤ s.nanoseconds ∧
      s.nanoseconds ≤ (State2.unpackWith fl t b).1.nanoseconds + 1 := by
  refine ⟨_, TDF2_pack_layout fl F s h, ?_⟩
  obtain ⟨h1, h2, h3⟩ := h
  have hn := ntp_within_1ns fl F s.nanoseconds (by omega)
  simp only [hp, Bool.false_eq_true, if_false]
  rw [TDF2_unpack_bytes fl t _ _ _ h1 h2 hn.2.2]
  simp [hp, hn.1, hn.2.1]

/-- the executable model (what the driver runs) is the instance `fl = rne` -/
theorem TDF2_roundtrip_ptp_exec (s t : State2) (h : TDF2_WF s) (hp : isPTP s.channel_specific_data = true) :
    ∃ b, s.pack = .ok b ∧ State2.unpack t b = (s, .ok ()) :=
  TDF2_roundtrip_ptp Float.rne rne_floatSem s t h hp

example : TDF2_WF { channel_specific_data := 0x21, seconds := 1709208000, nanoseconds := 999999999 } ∧
    isPTP 0x21 = true ∧ isPTP 0x11 = true ∧ isPTP 0x01 = false := by
  refine ⟨by simp [TDF2_WF], by decide, by decide, by decide⟩

/-! ### review additions (rev1-C04) -/

/-- the NTP round trip for the executable model (`fl = rne`, what the driver runs and the
    correspondence check compares with CPython); `TDF2_roundtrip_ntp` had no `_exec` instance -/
theorem TDF2_roundtrip_ntp_exec (s t : State2) (h : TDF2_WF s) (hp : isPTP s.channel_specific_data = false) :
    ∃ b, s.pack = .ok b ∧ (State2.unpack t b).2 = .ok () ∧
      (State2.unpack t b).1.channel_specific_data = s.channel_specific_data ∧
      (State2.unpack t b).1.seconds = s.seconds ∧
      (State2.unpack t b).1.nanoseconds ≤ s.nanoseconds ∧
      s.nanoseconds ≤ (State2.unpack t b).1.nanoseconds + 1 :=
  TDF2_roundtrip_ntp Float.rne rne_floatSem s t h hp

/-- the hypothesis `FloatSem fl` of the `fl`-generic theorems is satisfiable: binary64
    round-to-nearest-even is an instance (so none of them is vacuous) -/
example : ∃ fl : ℚ → ℚ, FloatSem fl := ⟨Float.rne, rne_floatSem⟩

/-- joint witness for `TDF2_roundtrip_ntp` / `_ntp_exec` (`h` and `hp` on the SAME object): NTP code
    (time-code bits 0, other CSW bits set), largest seconds and nanoseconds -/
example : TDF2_WF { channel_specific_data := 0xFFFFFF0F, seconds := 0xFFFFFFFF, nanoseconds := 999999999 } ∧
    isPTP 0xFFFFFF0F = false := by
  refine ⟨by simp [TDF2_WF], by decide⟩

/-- joint witness for `TDF2_roundtrip_ptp` with the IEEE-1588-2008 code (time-code bits = 2) -/
example : TDF2_WF { channel_specific_data := 0x20, seconds := 1, nanoseconds := 123456789 } ∧ isPTP 0x20 = true := by
  refine ⟨by simp [TDF2_WF], by decide⟩

/-- the two IEEE-1588 time codes on the executable decoder, concretely: 2002 (0x10) and 2008 (0x20) both
    read the fraction field as nanoseconds (for NTP see the `123456789 → 123456788` example above) -/
example : (State2.unpack State2.fresh (encInt false 4 0x10 ++ encInt false 4 5 ++ encInt false 4 123456789)).1.nanoseconds = 123456789 ∧
    (State2.unpack State2.fresh (encInt false 4 0x20 ++ encInt false 4 5 ++ encInt false 4 123456789)).1.nanoseconds = 123456789 := by
  refine ⟨by decide +kernel, by decide +kernel⟩

end Acra.Props.C04
