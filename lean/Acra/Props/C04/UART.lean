import Acra.Lemmas.Ch11UART
import Acra.Spec.Ch11
namespace Acra.Props.C04
open Acra.Py Acra.Model.Ch11Pay Acra.Model.Ch11Pay.UART Acra.Gen.Ch11UART Acra.Gen.Ch11PayTs
open Acra.Lemmas.Ch11UART Acra.Lemmas.Ch11Pay

theorem endianSwap_eq_swapPairs (x : Bytes) (h : x.length % 2 = 0) : endianSwap x = Spec.Ch11.swapPairs x := by
  induction x using endianSwap.induct with
  | case1 a b rest ih =>
    simp only [List.length_cons] at h
    simp only [endianSwap, Spec.Ch11.swapPairs, ih (by omega)]
  | case2 x hx =>
    match x with
    | [] => simp [endianSwap, Spec.Ch11.swapPairs]
    | [a] => simp at h
    | a :: b :: rest => exact absurd rfl (hx a b rest)

/-- UART data word: [time stamp] · data length · parity-error bit 15 | sub-channel · data, filled
    with 0xFF to a 16-bit boundary, byte-swapped per word when the object is little-endian -/
theorem UARTWord_pack_layout (w : Word) (h : Word_Fits w) :
    w.pack = .ok (Spec.Ch11.uartWord (toSpec w.ipts) w.parity_error w.subchannel w.payload
      (decide (w.data_endianness = ENDIAN_LITTLE))) := by
  rw [Word_pack_eq w h]
  have he := padded_even w.payload.length w.payload rfl
  have hh : wordHdr w = leBytes 2 w.payload.length ++ leBytes 2 (Spec.Ch11.bit w.parity_error 15 + w.subchannel) := by
    simp only [wordHdr, encInt, Bool.false_eq_true, if_false, Spec.Ch11.bit]
    cases w.parity_error <;> simp [Nat.add_comm]
  have hb : body w = (if decide (w.data_endianness = ENDIAN_LITTLE) = true then
      Spec.Ch11.swapPairs (w.payload ++ (if w.payload.length % 2 = 1 then [0xFF] else []))
      else w.payload ++ (if w.payload.length % 2 = 1 then [0xFF] else [])) := by
    simp only [pad] at he
    by_cases hle : w.data_endianness = ENDIAN_LITTLE
    · simp only [body, pad, hle, if_true, decide_true]
      exact endianSwap_eq_swapPairs _ he
    · simp [body, pad, hle]
  simp only [wordBytes, hh, hb, Spec.Ch11.uartWord, iptsBytes_spec _ h.1, List.append_assoc]

/-- padding rule, every residue: a packed word occupies an even number of bytes after its time stamp -/
theorem UARTWord_even (w : Word) : (wordBytes w).length % 2 = 0 := by
  rw [wordBytes_length]; split <;> omega

/-- word round trip (sub-channel below 2^13): the time stamp, the parity bit, the sub-channel and the
    data come back, `datalength` is the data size, the returned byte count is the size of the word
    (fill byte included) — into an object of the same time-stamp kind and byte order, in any prior state -/
theorem UARTWord_roundtrip (w t : Word) (rest : Bytes) (h : Word_WF w) (hk : sameKind t.ipts w.ipts)
    (he : t.data_endianness = w.data_endianness) :
    ∃ b, w.pack = .ok b ∧ Word.unpack t (b ++ rest) = (norm w, .ok b.length) ∧ (Word.unpack t (b ++ rest)).1.pack = .ok b := by
  refine ⟨wordBytes w, Word_pack_eq w h.1, Word_unpack_bytes w t rest h hk he, ?_⟩
  rw [Word_unpack_bytes w t rest h hk he]
  exact Word_pack_eq (norm w) h.1

/-- K4: the decoder masks the sub-channel with 0x1FFF although the field is 14 bits wide: a word with
    sub-channel 0x2000 is laid out correctly but comes back with sub-channel 0 -/
example : let w : Word := { Word.fresh (.rtc 0) 0 with subchannel := 0x2000, payload := [1, 2] }
    Word_Fits w ∧ ∃ b, w.pack = .ok b ∧ (Word.unpack (Word.fresh (.rtc 0) 0) b).1.subchannel = 0 := by
  refine ⟨by simp [Word_Fits, Word.fresh, Ipts_WF], _, rfl, ?_⟩
  decide

/-- the time stamp object the packet decoder creates for its `ipts_source` option -/
def uartProtoIpts (p : Packet) : Ipts :=
  match p.ipts_source with
  | some s => (iptsOfSource s).getD .none
  | Option.none => .none

/-- every word is well formed, of the packet's time-stamp kind and byte order; at least one word;
    the last word has a time stamp or at least one data byte (the loop test `abs(offset-len) > 4`
    cannot see a trailing 4-byte word) -/
def UART_WF (p : Packet) : Prop :=
  (∀ w ∈ p.uartwords, Word_WF w ∧ sameKind (uartProtoIpts p) w.ipts ∧ w.data_endianness = p.data_endianness) ∧
  p.uartwords ≠ [] ∧ (p.ipts_source = Option.none ∨ ∃ s i, p.ipts_source = some s ∧ iptsOfSource s = some i) ∧
  (∀ w, p.uartwords.getLast? = some w → w.ipts ≠ .none ∨ 1 ≤ w.payload.length)

def UART_bytes (p : Packet) : Bytes :=
  encInt false 4 (if p.ipts_source.isSome then 0x80000000 else 0) ++ p.uartwords.flatMap wordBytes

theorem UART_pack_eq (p : Packet) (h : UART_WF p) : p.pack = .ok (UART_bytes p) := by
  obtain ⟨hw, hne, _, _⟩ := h
  have hlen : p.uartwords.length ≠ 0 := by
    intro h0; exact hne (List.length_eq_zero_iff.mp h0)
  have hf0 : Fits UP_pack_fmt0.codes [0x80000000] := by simp [Fits, UP_pack_fmt0, Code.bound]
  have hf1 : Fits UP_pack_fmt1.codes [0] := by simp [Fits, UP_pack_fmt1, Code.bound]
  simp only [Packet.pack, hlen, if_false, structPack_eq _ _ hf0, structPack_eq _ _ hf1,
    packList_eq Word.pack wordBytes p.uartwords (fun w hx => Word_pack_eq w (hw w hx).1.1)]
  cases hs : p.ipts_source <;> simp [hs, UART_bytes, UP_pack_fmt0, UP_pack_fmt1, encCodes, Code.size]

/-- `pack()`: channel-specific word with bit 31 = time stamps present, then the words in order -/
theorem UART_pack_layout (p : Packet) (h : UART_WF p) :
    p.pack = .ok (Spec.Ch11.uartPacket p.ipts_source.isSome (p.uartwords.map wordBytes)) := by
  rw [UART_pack_eq p h]
  cases hs : p.ipts_source <;> simp [hs, UART_bytes, Spec.Ch11.uartPacket, Spec.Ch11.bit, encInt, List.flatMap_def]

theorem UART_proto (p : Packet) (h : UART_WF p) :
    p.proto = some (Word.fresh (uartProtoIpts p) p.data_endianness) := by
  obtain ⟨_, _, hs, _⟩ := h
  rcases hs with hs | ⟨s, i, hs, hi⟩
  · simp [Packet.proto, uartProtoIpts, hs]
  · simp [Packet.proto, uartProtoIpts, hs, hi]

theorem flatMap_wordBytes_norm (ws : List Word) : (ws.map norm).flatMap wordBytes = ws.flatMap wordBytes := by
  induction ws with
  | nil => rfl
  | cons w ws ih => simp only [List.map_cons, List.flatMap_cons, ih]; rfl

theorem UART_unpack_bytes (p t : Packet) (h : UART_WF p) (ho : t.ipts_source = p.ipts_source)
    (he : t.data_endianness = p.data_endianness) :
    Packet.unpack t (UART_bytes p) = ({ t with uartwords := p.uartwords.map norm }, .ok ()) := by
  have hproto := UART_proto p h
  obtain ⟨hw, hne, hs, hlast⟩ := h
  have hproto' : t.proto = some (Word.fresh (uartProtoIpts p) p.data_endianness) := by
    simpa [Packet.proto, ho, he] using hproto
  have hcsw : ∃ v, structUnpackFrom UP_unpack_fmt0 (UART_bytes p) 0 = .ok v := by
    simp [UART_bytes, structUnpackFrom, UP_unpack_fmt0, Fmt.size, codesSize, Code.size]
  obtain ⟨v, hcsw⟩ := hcsw
  have hge : ∀ x ∈ p.uartwords.map norm, 1 ≤ (wordBytes x).length := by
    intro x _
    rw [wordBytes_length]; omega
  have hdec := decOff_encAll_last (decWord (Word.fresh (uartProtoIpts p) p.data_endianness)) moreUART wordBytes
    (fun x => x.ipts ≠ .none ∨ 1 ≤ x.payload.length)
    (p.uartwords.map norm) (encInt false 4 (if p.ipts_source.isSome then 0x80000000 else 0))
    ((UART_bytes p).length + 1)
    (by
      have := flatMap_length_ge wordBytes (p.uartwords.map norm) hge
      simp only [UART_bytes, List.length_append, encInt_length, ← flatMap_wordBytes_norm p.uartwords]
      omega)
    (by
      intro x hx rest
      obtain ⟨w, hwm, rfl⟩ := List.mem_map.mp hx
      have := hw w hwm
      simp only [decWord]
      have hu := Word_unpack_bytes w (Word.fresh (uartProtoIpts p) p.data_endianness) rest this.1
        (by simpa [Word.fresh] using this.2.1) (by simpa [Word.fresh] using this.2.2.symm)
      have e : wordBytes (norm w) = wordBytes w := rfl
      rw [e, hu])
    (by
      intro x hx hnil
      have := hge x hx
      rw [hnil] at this; simp at this)
    (by
      intro x hx a q hq
      have hlen := wordBytes_length x
      simp only [moreUART, List.length_append, decide_eq_true_eq]
      right
      rcases hq with hq | hq | hq
      · have : 1 ≤ q.length := by
          cases q with
          | nil => exact absurd rfl hq
          | cons _ _ => simp
        omega
      · rw [hlen, if_neg hq]; omega
      · omega)
    (by
      intro x hx
      rw [List.getLast?_map] at hx
      cases hg : p.uartwords.getLast? with
      | none => simp [hg] at hx
      | some w =>
        simp only [hg, Option.map_some, Option.some.injEq] at hx
        subst hx
        exact hlast w hg)
    (by intro n; simp [moreUART])
  rw [flatMap_wordBytes_norm] at hdec
  have hdec' : decOff (decWord (Word.fresh (uartProtoIpts p) p.data_endianness)) moreUART (UART_bytes p)
      ((UART_bytes p).length + 1) 4 = .ok (p.uartwords.map norm) := by
    simpa [UART_bytes] using hdec
  simp only [Packet.unpack, hcsw, hproto', hdec']

/-- packet round trip: the same words in the same order with the same time stamps, parity bits,
    sub-channels and data; decoding does not depend on what the receiving object held -/
theorem UART_roundtrip (p t : Packet) (h : UART_WF p) (ho : t.ipts_source = p.ipts_source)
    (he : t.data_endianness = p.data_endianness) :
    ∃ b, p.pack = .ok b ∧ Packet.unpack t b = ({ t with uartwords := p.uartwords.map norm }, .ok ()) ∧
      (Packet.unpack t b).1.pack = .ok b := by
  refine ⟨UART_bytes p, UART_pack_eq p h, UART_unpack_bytes p t h ho he, ?_⟩
  rw [UART_unpack_bytes p t h ho he]
  have h' : UART_WF { t with uartwords := p.uartwords.map norm } := by
    obtain ⟨hw, hne, hs, hlast⟩ := h
    refine ⟨?_, by simpa using hne, by simpa [ho] using hs, ?_⟩
    · intro x hx
      obtain ⟨w, hwm, rfl⟩ := List.mem_map.mp hx
      have := hw w hwm
      exact ⟨this.1, by simpa [uartProtoIpts, ho, norm] using this.2.1, by simpa [norm, he] using this.2.2⟩
    · intro x hx
      simp only [List.getLast?_map] at hx
      cases hg : p.uartwords.getLast? with
      | none => simp [hg] at hx
      | some w =>
        simp only [hg, Option.map_some, Option.some.injEq] at hx
        subst hx
        exact hlast w hg
  rw [UART_pack_eq _ h']
  simp [UART_bytes, flatMap_wordBytes_norm, ho]

/-- a payload assembled through `append()` is accepted by the decoder and returned unchanged -/
theorem UART_append_accepted (src : Option Nat) (en : Nat) (ws : List Word) (t : Packet)
    (h : UART_WF { Packet.fresh src en with uartwords := ws }) (ho : t.ipts_source = src) (he : t.data_endianness = en) :
    ∃ b, (ws.foldl Packet.append (Packet.fresh src en)).pack = .ok b ∧
      (Packet.unpack t b).2 = .ok () ∧ (Packet.unpack t b).1.uartwords = ws.map norm := by
  have hfold : ∀ (ws : List Word) (q : Packet), (ws.foldl Packet.append q) = { q with uartwords := q.uartwords ++ ws } := by
    intro ws
    induction ws with
    | nil => intro q; simp
    | cons w ws ih =>
      intro q
      simp only [List.foldl_cons]
      rw [ih (q.append w)]
      simp [Packet.append]
  have e : ws.foldl Packet.append (Packet.fresh src en) = { Packet.fresh src en with uartwords := ws } := by
    rw [hfold]; simp [Packet.fresh]
  rw [e]
  obtain ⟨b, h1, h2, _⟩ := UART_roundtrip _ t h (by simpa [Packet.fresh] using ho) (by simpa [Packet.fresh] using he)
  exact ⟨b, h1, by rw [h2], by rw [h2]⟩

/-- without time stamps a trailing word that carries no data is not seen by the decoder's loop test -/
example : let p : Packet := { uartwords := [Word.setPayload (Word.fresh .none 0) [7], Word.fresh .none 0],
                              ipts_source := Option.none, data_endianness := 0 }
    ∃ b, p.pack = .ok b ∧ (Packet.unpack (Packet.fresh Option.none 0) b).1.uartwords.length = 1 := by
  refine ⟨_, rfl, ?_⟩
  decide

example : UART_WF { uartwords := [Word.setPayload (Word.fresh (.ptp 5 999999999) 1) [1, 2, 3],
                                  { Word.fresh (.ptp 6 0) 1 with parity_error := true, subchannel := 0x1FFF }],
                    ipts_source := some 1, data_endianness := 1 } := by
  refine ⟨?_, by simp, Or.inr ⟨1, .ptp 0 0, rfl, by simp [iptsOfSource, TS_CH4, TS_IEEE1558]⟩, by simp [Word.fresh]⟩
  intro w hw
  simp only [List.mem_cons, List.mem_nil_iff, or_false] at hw
  rcases hw with h | h <;> subst h <;>
    simp [Word_WF, Word_Fits, Ipts_WF, uartProtoIpts, iptsOfSource, TS_CH4, TS_IEEE1558, sameKind, Word.fresh, Word.setPayload]

/-! ### review additions (rev1-C04) -/

/-- `UARTWord_roundtrip` with the helper `norm` unfolded: time stamp, parity-error bit, sub-channel and
    data bytes come back, `datalength` is the number of data bytes (whatever the caller had stored in
    that attribute), the byte-order option is the decoder's own -/
theorem UARTWord_roundtrip_fields (w t : Word) (rest : Bytes) (h : Word_WF w) (hk : sameKind t.ipts w.ipts)
    (he : t.data_endianness = w.data_endianness) :
    ∃ b, w.pack = .ok b ∧ (Word.unpack t (b ++ rest)).2 = .ok b.length ∧
      (Word.unpack t (b ++ rest)).1.ipts = w.ipts ∧ (Word.unpack t (b ++ rest)).1.parity_error = w.parity_error ∧
      (Word.unpack t (b ++ rest)).1.subchannel = w.subchannel ∧ (Word.unpack t (b ++ rest)).1.payload = w.payload ∧
      (Word.unpack t (b ++ rest)).1.datalength = some w.payload.length ∧
      (Word.unpack t (b ++ rest)).1.data_endianness = t.data_endianness := by
  obtain ⟨b, h1, h2, _⟩ := UARTWord_roundtrip w t rest h hk he
  exact ⟨b, h1, by rw [h2], by rw [h2]; rfl, by rw [h2]; rfl, by rw [h2]; rfl, by rw [h2]; rfl, by rw [h2]; rfl,
    by rw [h2]; exact he.symm⟩

/-- the packet layout with every word in its declarative form (`UART_pack_layout` is phrased with the
    helper `wordBytes`; composing with `UARTWord_pack_layout` removes it from the statement) -/
theorem UART_pack_layout_spec (p : Packet) (h : UART_WF p) :
    p.pack = .ok (Spec.Ch11.uartPacket p.ipts_source.isSome (p.uartwords.map fun w =>
      Spec.Ch11.uartWord (toSpec w.ipts) w.parity_error w.subchannel w.payload
        (decide (p.data_endianness = ENDIAN_LITTLE)))) := by
  have e : p.uartwords.map wordBytes = p.uartwords.map (fun w =>
      Spec.Ch11.uartWord (toSpec w.ipts) w.parity_error w.subchannel w.payload
        (decide (p.data_endianness = ENDIAN_LITTLE))) := by
    apply List.map_congr_left
    intro w hw
    have h1 := Word_pack_eq w (h.1 w hw).1.1
    have h2 := UARTWord_pack_layout w (h.1 w hw).1.1
    rw [h1, (h.1 w hw).2.2] at h2
    exact Except.ok.inj h2
  rw [← e]
  exact UART_pack_layout p h

/-- `UART_roundtrip` with `norm` unfolded: word by word and in order the same time stamps, parity
    bits, sub-channels and data bytes; every decoded `datalength` is the size of its data; the two
    codec options are the decoder's own -/
theorem UART_roundtrip_fields (p t : Packet) (h : UART_WF p) (ho : t.ipts_source = p.ipts_source)
    (he : t.data_endianness = p.data_endianness) :
    ∃ b, p.pack = .ok b ∧ (Packet.unpack t b).2 = .ok () ∧
      (Packet.unpack t b).1.uartwords.map (fun w => (w.ipts, w.parity_error, w.subchannel, w.payload)) =
        p.uartwords.map (fun w => (w.ipts, w.parity_error, w.subchannel, w.payload)) ∧
      (∀ w ∈ (Packet.unpack t b).1.uartwords, w.datalength = some w.payload.length) ∧
      (Packet.unpack t b).1.ipts_source = t.ipts_source ∧ (Packet.unpack t b).1.data_endianness = t.data_endianness := by
  obtain ⟨b, h1, h2, _⟩ := UART_roundtrip p t h ho he
  refine ⟨b, h1, by rw [h2], ?_, ?_, by rw [h2], by rw [h2]⟩
  · rw [h2]
    simp [List.map_map, Function.comp_def, norm]
  · rw [h2]
    intro w hw
    obtain ⟨x, _, rfl⟩ := List.mem_map.mp hw
    rfl

/-- joint witness for `UARTWord_roundtrip` (`h`, `hk`, `he` together): little-endian word with an odd
    number of data bytes, parity error, the largest sub-channel the decoder keeps, into an object
    holding another RTC time and other data -/
example : let w : Word := ⟨.rtc 0xFFFFFFFFFFFF, true, 0x1FFF, some 3, [1, 2, 3], 1⟩
    let t : Word := ⟨.rtc 4, false, 9, some 1, [7], 1⟩
    Word_WF w ∧ sameKind t.ipts w.ipts ∧ t.data_endianness = w.data_endianness := by
  simp [Word_WF, Word_Fits, Ipts_WF, sameKind]

/-- joint witness for `UART_roundtrip` (`h`, `ho`, `he` together), decoder in a non-trivial prior state:
    the theorem instantiated on the packet of the `UART_WF` example above -/
example : ∃ b, (⟨[Word.setPayload (Word.fresh (.ptp 5 999999999) 1) [1, 2, 3],
                  { Word.fresh (.ptp 6 0) 1 with parity_error := true, subchannel := 0x1FFF }], some 1, 1⟩ : Packet).pack = .ok b ∧
    (Packet.unpack ⟨[Word.fresh (.ptp 0 0) 1], some 1, 1⟩ b).2 = .ok () ∧
    (Packet.unpack ⟨[Word.fresh (.ptp 0 0) 1], some 1, 1⟩ b).1.uartwords.map (fun w => (w.ipts, w.parity_error, w.subchannel, w.payload)) =
      [(.ptp 5 999999999, false, 0, [1, 2, 3]), (.ptp 6 0, true, 0x1FFF, [])] := by
  obtain ⟨b, h1, h2, h3, _⟩ := UART_roundtrip_fields
    (⟨[Word.setPayload (Word.fresh (.ptp 5 999999999) 1) [1, 2, 3],
       { Word.fresh (.ptp 6 0) 1 with parity_error := true, subchannel := 0x1FFF }], some 1, 1⟩ : Packet)
    ⟨[Word.fresh (.ptp 0 0) 1], some 1, 1⟩
    (by
      refine ⟨?_, by simp, Or.inr ⟨1, .ptp 0 0, rfl, by simp [iptsOfSource, TS_CH4, TS_IEEE1558]⟩, by simp [Word.fresh]⟩
      intro w hw
      simp only [List.mem_cons, List.mem_nil_iff, or_false] at hw
      rcases hw with h | h <;> subst h <;>
        simp [Word_WF, Word_Fits, Ipts_WF, uartProtoIpts, iptsOfSource, TS_CH4, TS_IEEE1558, sameKind, Word.fresh, Word.setPayload])
    rfl rfl
  exact ⟨b, h1, h2, by rw [h3]; rfl⟩

/-- joint witness for `UART_append_accepted` (`h` on the `fresh`-shaped packet, `ho`, `he` together):
    no intra-packet time stamps, big-endian, odd then even data sizes; the last word has data -/
example : ∃ b, (([Word.setPayload (Word.fresh .none 0) [7], Word.setPayload { Word.fresh .none 0 with subchannel := 5 } [8, 9]] : List Word).foldl
      Packet.append (Packet.fresh Option.none 0)).pack = .ok b ∧
    (Packet.unpack ⟨[Word.fresh .none 0], Option.none, 0⟩ b).2 = .ok () ∧
    (Packet.unpack ⟨[Word.fresh .none 0], Option.none, 0⟩ b).1.uartwords =
      [Word.setPayload (Word.fresh .none 0) [7], Word.setPayload { Word.fresh .none 0 with subchannel := 5 } [8, 9]] := by
  obtain ⟨b, h1, h2, h3⟩ := UART_append_accepted Option.none 0
    [Word.setPayload (Word.fresh .none 0) [7], Word.setPayload { Word.fresh .none 0 with subchannel := 5 } [8, 9]]
    ⟨[Word.fresh .none 0], Option.none, 0⟩
    (by
      refine ⟨?_, by simp, Or.inl rfl, by simp [Word.fresh, Word.setPayload]⟩
      intro w hw
      simp only [List.mem_cons, List.mem_nil_iff, or_false] at hw
      rcases hw with h | h <;> subst h <;>
        simp [Word_WF, Word_Fits, Ipts_WF, uartProtoIpts, sameKind, Word.fresh, Word.setPayload, Packet.fresh])
    rfl rfl
  exact ⟨b, h1, h2, by rw [h3]; rfl⟩

/-- `UARTWord_even` is a statement about the helper `wordBytes`; this is the same fact about what
    `UARTDataWord.pack` returns (time stamp included), for every word the layout can carry -/
theorem UARTWord_even_model (w : Word) (h : Word_Fits w) (b : Bytes) (hb : w.pack = .ok b) : b.length % 2 = 0 := by
  rw [Word_pack_eq w h] at hb
  rw [← Except.ok.inj hb]
  exact UARTWord_even w

/-- why `UART_WF` excludes the empty list (the quantifier says counts 1..N): the encoder refuses it -/
example : (Packet.fresh (some 0) 0).pack = .error .generic := rfl

end Acra.Props.C04
