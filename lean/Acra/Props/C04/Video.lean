import Acra.Model.Ch11Video
import Acra.Lemmas.Ch11Pay
import Acra.Spec.Ch11
namespace Acra.Props.C04
open Acra.Py Acra.Model.Ch11Pay Acra.Model.Ch11Pay.Video Acra.Gen.Ch11Video Acra.Lemmas.Ch11Pay

/-- a whole transport-stream packet without adaptation field: 188 bytes, sync byte 0x47,
    adaptation-field control 01 (payload only) -/
def TsClean (c : Bytes) : Prop := c.length = 188 ∧ byteAt c 0 = 0x47 ∧ ctrl c = 1

/-- video format 2 without intra-packet headers (bit 19 clear), carrying whole clean TS packets -/
def Video_WF (s : State) : Prop :=
  s.channel_specific_word < 2 ^ 32 ∧ (s.channel_specific_word / 2 ^ IPH_OFFSET) % 2 = 0 ∧ ∀ c ∈ s.blocks, TsClean c

theorem chunkPack_clean (c : Bytes) (h : TsClean c) : chunkPack c = .ok c := by
  obtain ⟨h1, _, h3⟩ := h
  simp [chunkPack, chunkPayload, h3, h1]

theorem chunkOk_clean (c : Bytes) (h : TsClean c) : chunkOk c = true := by
  obtain ⟨h1, h2, h3⟩ := h
  simp [chunkOk, h1, h2, h3]

/-- `pack()`: the channel-specific word, then the transport-stream packets in order -/
theorem Video_pack_layout (s : State) (h : Video_WF s) :
    pack s = .ok (Spec.Ch11.video2 s.channel_specific_word s.blocks) := by
  obtain ⟨h1, _, h3⟩ := h
  have hf : Fits VID_pack_fmt0.codes [s.channel_specific_word] := by
    simp [Fits, VID_pack_fmt0, Code.bound]; omega
  simp only [pack, structPack_eq _ _ hf, packList_eq chunkPack id s.blocks (fun c hc => chunkPack_clean c (h3 c hc))]
  simp [VID_pack_fmt0, encCodes, Code.size, Spec.Ch11.video2, encInt, List.flatMap_def]

theorem splitTS_clean (cs : List Bytes) (pre : Bytes) (fuel : Nat) (hf : cs.length < fuel) (h : ∀ c ∈ cs, TsClean c) :
    splitTS (pre ++ cs.flatten) fuel pre.length = .ok cs := by
  induction cs generalizing pre fuel with
  | nil =>
    cases fuel with
    | zero => omega
    | succ fuel => simp [splitTS]
  | cons c cs ih =>
    cases fuel with
    | zero => omega
    | succ fuel =>
      have hc := h c (by simp)
      have hlt : pre.length < (pre ++ (c :: cs).flatten).length := by simp [hc.1]; omega
      have hsl : slice (pre ++ (c :: cs).flatten) pre.length (pre.length + 188) = c := by
        simp only [List.flatten_cons]
        exact slice_mid _ _ _ _ _ rfl (by rw [hc.1])
      unfold splitTS
      simp only [hlt, if_true, hsl, chunkOk_clean c hc]
      have := ih (pre ++ c) fuel (by simp at hf; omega) (fun x hx => h x (by simp [hx]))
      simp only [List.length_append, hc.1, List.append_assoc] at this
      simp only [List.flatten_cons]
      rw [this]

/-- round trip: N transport-stream packets in, the same N packets out in the same order; the data
    stream bit is read from the channel-specific word; the prior contents of the decoder do not matter -/
theorem Video_roundtrip (s t : State) (h : Video_WF s) :
    ∃ b, pack s = .ok b ∧
      unpack t b = ({ channel_specific_word := s.channel_specific_word,
                      datastream := (s.channel_specific_word / 2 ^ TP_OFFSET) % 2, blocks := s.blocks }, .ok ()) := by
  refine ⟨_, Video_pack_layout s h, ?_⟩
  obtain ⟨h1, h2, h3⟩ := h
  have e : Spec.Ch11.video2 s.channel_specific_word s.blocks = encInt false 4 s.channel_specific_word ++ s.blocks.flatten := by
    simp [Spec.Ch11.video2, encInt]
  rw [e]
  have hcsw : structUnpackFrom VID_unpack_fmt0 (encInt false 4 s.channel_specific_word ++ s.blocks.flatten) 0 =
      .ok [s.channel_specific_word] := by
    simp only [structUnpackFrom, VID_unpack_fmt0, Fmt.size, codesSize, Code.size, List.length_append,
      encInt_length, unpackCodes, List.drop_zero, take_encInt_append]
    rw [decInt_encInt4 _ _ (by omega)]
    simp
  have hge : s.blocks.length ≤ s.blocks.flatten.length := by
    have : ∀ (cs : List Bytes), (∀ c ∈ cs, TsClean c) → cs.length ≤ cs.flatten.length := by
      intro cs
      induction cs with
      | nil => intro _; simp
      | cons c cs ih =>
        intro hc
        have := (hc c (by simp)).1
        have := ih (fun x hx => hc x (by simp [hx]))
        simp only [List.length_cons, List.flatten_cons, List.length_append]; omega
    exact this _ h3
  have hsp := splitTS_clean s.blocks [] (s.blocks.flatten.length + 1) (by omega) h3
  simp only [List.nil_append, List.length_nil] at hsp
  have hiph : ¬ (s.channel_specific_word / 2 ^ IPH_OFFSET % 2 = 1) := by omega
  simp only [unpack, hcsw, hiph, if_false, drop_encInt_append, hsp]

example : TsClean ([0x47, 0x01, 0x00, 0x10] ++ List.replicate 184 0xAB) := ⟨by simp only [List.length_append, List.length_replicate, List.length_cons, List.length_nil], by rfl, by rfl⟩

example : Video_WF ⟨0x1000, 1, [[0x47, 0x01, 0x00, 0x10] ++ List.replicate 184 0xAB]⟩ := by
  refine ⟨by decide, by decide, ?_⟩
  intro c hc
  have : c = [0x47, 0x01, 0x00, 0x10] ++ List.replicate 184 0xAB := by simpa using hc
  subst this
  exact ⟨by simp only [List.length_append, List.length_replicate, List.length_cons, List.length_nil], by rfl, by rfl⟩

end Acra.Props.C04
