import Acra.Model.Ch11Video
import Acra.Lemmas.Ch11Video
import Acra.Lemmas.MpegCanon
import Acra.Lemmas.ReviewC06
import Acra.Props.C06.MPEGTS
import Acra.Spec.Ch11
namespace Acra.Props.C04
open Acra.Py Acra.Model.Ch11Pay.Video Acra.Model.MPEGTS Acra.Gen.Ch11Video Acra.Lemmas.MPEGTS Acra.Lemmas.Ch11Video

/-! Video format 2 (C04), transport-stream packets WITH OR WITHOUT adaptation fields (rev1 B5: the model used to
    answer `NotImplementedError` for every TS packet carrying an adaptation field, and the theorems spoke of
    payload-only packets).  The nested `MPEGTS` object is now the MPEG family's model, so the statements range over
    every adaptation-control mode and every combination of adaptation parts the C06 theorems cover.

    `TsWhole p` (Lemmas/Ch11Video.lean): every field of the packet fits its width, sync 0x47, the parts fit 188 bytes,
    control 2 has its adaptation-field object.  A payload-only 188-byte packet — the former `TsClean` — is the case
    `adaption_ctrl = 1`, 184 payload bytes. -/

/-- video format 2 without intra-packet headers (bit 19 clear), carrying whole transport-stream packets -/
def Video_WF (s : State) : Prop :=
  s.channel_specific_word < 2 ^ 32 ∧ (s.channel_specific_word / 2 ^ IPH_OFFSET) % 2 = 0 ∧
  ∀ p ∈ s.mpegts.blocks, TsWhole p

instance (p : Pkt) : Decidable (TsWhole p) := by unfold TsWhole; infer_instance
instance (s : State) : Decidable (Video_WF s) := by unfold Video_WF; infer_instance

/-- `pack()`: the channel-specific word, then the transport-stream packets in order, each exactly 188 bytes
    (`Pkt_bytes p` is the ISO 13818-1 packet of C06: `TS_header_layout`, `TS_af_length`, `AF_pack_layout`) -/
theorem Video_pack_layout (s : State) (h : Video_WF s) :
    (pack s).2 = .ok (Spec.Ch11.video2 s.channel_specific_word (s.mpegts.blocks.map Pkt_bytes)) ∧
    ∀ c ∈ s.mpegts.blocks.map Pkt_bytes, c.length = 188 := by
  obtain ⟨h1, _, h3⟩ := h
  refine ⟨?_, ?_⟩
  · rw [Video_pack_eq s h1 (fun p hp => (h3 p hp).1)]
    simp [Video_bytes, Spec.Ch11.video2, encInt, List.flatMap_def]
  · intro c hc
    obtain ⟨p, hp, rfl⟩ := List.mem_map.mp hc
    have := (h3 p hp).2.2.1
    rw [Pkt_bytes_length]; omega

/-- round trip, into an object in ANY prior state: N transport-stream packets in, N packets out in the same order,
    each the decoded form of the one that went in (C06 `TS_roundtrip`: all header fields, the adaptation field as
    `pack` normalised it, the payload followed by the 0xFF stuffing — the format has no payload length); the data
    stream bit is read from the channel-specific word -/
theorem Video_roundtrip (s t : State) (h : Video_WF s) :
    ∃ b, (pack s).2 = .ok b ∧ b.length = 4 + 188 * s.mpegts.blocks.length ∧
      unpack t b = ({ channel_specific_word := s.channel_specific_word,
                      datastream := (s.channel_specific_word / 2 ^ TP_OFFSET) % 2,
                      mpegts := { blocks := s.mpegts.blocks.map Pkt_decoded } }, .ok ()) ∧
      (s.mpegts.blocks.map Pkt_decoded).length = s.mpegts.blocks.length := by
  obtain ⟨h1, h2, h3⟩ := h
  refine ⟨Video_bytes s, by rw [Video_pack_eq s h1 (fun p hp => (h3 p hp).1)], ?_,
    Video_unpack_bytes s t h1 h2 h3, by simp⟩
  simp only [Video_bytes, List.length_append, encInt_length,
    flatMap_bytes_length _ (fun p hp => (h3 p hp).2.2.1)]

/-- re-encoding the decoded object never fails, gives the same number of bytes, and reproduces the bytes when the
    format can express every packet (no payload with adaptation control 0 or 2) -/
theorem Video_reencode (s : State) (h : Video_WF s) :
    (∃ b', (pack (Video_decoded s)).2 = .ok b' ∧ b'.length = 4 + 188 * s.mpegts.blocks.length) ∧
    ((∀ p ∈ s.mpegts.blocks, (p.adaption_ctrl = 0 ∨ p.adaption_ctrl = 2) → p.payload = []) →
      (pack (Video_decoded s)).2 = (pack s).2) := by
  obtain ⟨h1, h2, h3⟩ := h
  have hwd : ∀ q ∈ (Video_decoded s).mpegts.blocks, Pkt_WF q := by
    intro q hq
    obtain ⟨p, hp, rfl⟩ := List.mem_map.mp hq
    exact (Pkt_decoded_bytes p (h3 p hp).1 (h3 p hp).2.2.1).1
  have hused : ∀ q ∈ (Video_decoded s).mpegts.blocks, Pkt_used q ≤ 188 := by
    intro q hq
    obtain ⟨p, hp, rfl⟩ := List.mem_map.mp hq
    obtain ⟨hwp, _, hf, _⟩ := h3 p hp
    have haf := Pkt_af_decoded p hwp
    unfold Pkt_used at hf ⊢
    rw [haf]
    by_cases hc : p.adaption_ctrl = 1 ∨ p.adaption_ctrl = 3
    · have : (Pkt_decoded p).payload = p.payload ++ Pkt_stuffing p := by simp [Pkt_decoded, hc]
      rw [this]; simp [Pkt_stuffing, Pkt_used]; omega
    · have : (Pkt_decoded p).payload = [] := by simp [Pkt_decoded, hc]
      rw [this]; simp; omega
  have hcd : (Video_decoded s).channel_specific_word < 2 ^ 32 := h1
  rw [Video_pack_eq _ hcd hwd, Video_pack_eq s h1 (fun p hp => (h3 p hp).1)]
  refine ⟨⟨_, rfl, ?_⟩, ?_⟩
  · have hl : (Video_decoded s).mpegts.blocks.length = s.mpegts.blocks.length := by simp [Video_decoded]
    simp only [Video_bytes, List.length_append, encInt_length, flatMap_bytes_length _ hused, hl]
  · intro hpl
    have := flatMap_decoded_bytes s.mpegts.blocks (fun p hp => ⟨(h3 p hp).1, (h3 p hp).2.2.1, hpl p hp⟩)
    simp only [Video_bytes]
    show Except.ok (encInt false 4 s.channel_specific_word ++ (s.mpegts.blocks.map Pkt_decoded).flatMap Pkt_bytes) = _
    rw [this]

/-- **the same packets back**: when every packet is one the class encodes exactly (`Pkt_canon`: a packet that carries
    a payload fills its 188 bytes; controls 0 and 2 carry none; no stray adaptation-field object), the decoded blocks
    ARE the blocks as `pack` left them — field for field, adaptation fields included -/
theorem Video_roundtrip_exact (s t : State) (h : Video_WF s)
    (hc : ∀ p ∈ s.mpegts.blocks, Acra.Lemmas.MpegCanon.Pkt_canon p) :
    ∃ b, (pack s).2 = .ok b ∧
      unpack t b = ({ (pack s).1 with datastream := (s.channel_specific_word / 2 ^ TP_OFFSET) % 2 }, .ok ()) := by
  obtain ⟨b, hp, _, hu, _⟩ := Video_roundtrip s t h
  refine ⟨b, hp, ?_⟩
  rw [hu, Video_pack_eq s h.1 (fun p hp => (h.2.2 p hp).1)]
  have hm : s.mpegts.blocks.map Pkt_packed = s.mpegts.blocks.map Pkt_decoded :=
    List.map_congr_left (fun p hp => Acra.Lemmas.MpegCanon.Pkt_canon_packed_eq_decoded p (hc p hp))
  simp [Video_packed, hm]

/-- witness: a stream of three whole packets — adaptation field only (PCR, with stuffing after it), adaptation field
    (splice countdown, stuffed length) followed by 100 payload bytes, payload only — data-stream bit set; all three are
    also canonical -/
def videoExample : State :=
  { channel_specific_word := 0x1000, datastream := 1,
    mpegts := { blocks :=
      [ { Pkt.fresh with pid := 0x1FFF, adaption_ctrl := 2,
                         adaption_field := some { AF.fresh with pcr := [1, 2, 3, 4, 5, 6] } },
        { Pkt.fresh with pid := 5, adaption_ctrl := 3, payload := List.replicate 100 7,
                         adaption_field := some { AF.fresh with length := 83, splice_countdown := 3 } },
        { Pkt.fresh with pid := 0x100, adaption_ctrl := 1, continuitycounter := 15,
                         payload := List.replicate 184 0xAB } ] } }

example : Video_WF videoExample ∧ (∀ p ∈ videoExample.mpegts.blocks, Acra.Lemmas.MpegCanon.Pkt_canon p) ∧
    (∀ p ∈ videoExample.mpegts.blocks, (p.adaption_ctrl = 0 ∨ p.adaption_ctrl = 2) → p.payload = []) := by
  decide +kernel

/-- the model evaluated on the witness: 4 + 3·188 bytes, three blocks back, the second with its adaptation field
    (length 83, splicing flag set by `pack`, countdown 3); the first keeps its 7-byte adaptation field, the 0xFF stuffing after it is outside the field -/
example :
    ((pack videoExample).2.toOption.map List.length) = some 568 ∧
    ((pack videoExample).2.toOption.map fun b => ((unpack fresh b).1.mpegts.blocks.map fun p => p.adaption_ctrl)) = some [2, 3, 1] ∧
    ((pack videoExample).2.toOption.map fun b =>
      ((unpack fresh b).1.mpegts.blocks.map fun p => p.adaption_field.map fun a => (a.length, a.splicing_flag, a.splice_countdown))) =
      some [some (7, false, 0), some (83, true, 3), none] := by
  decide +kernel

/-- a packet with an adaptation field that is NOT exactly filled still round-trips in the sense of `Video_roundtrip`
    (the stuffing comes back as payload) but not in the sense of `Video_roundtrip_exact` -/
example :
    let s : State := { videoExample with mpegts := { blocks :=
      [ { Pkt.fresh with adaption_ctrl := 3, payload := [1, 2, 3], adaption_field := some { AF.fresh with pcr := [1, 2, 3, 4, 5, 6] } } ] } }
    Video_WF s ∧ ¬ (∀ p ∈ s.mpegts.blocks, Acra.Lemmas.MpegCanon.Pkt_canon p) := by
  decide +kernel

end Acra.Props.C04
