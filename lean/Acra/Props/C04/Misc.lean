import Acra.Model.Ch11Misc
import Acra.Spec.Ch11
namespace Acra.Props.C04
open Acra.Py Acra.Model.Ch11Pay Acra.Gen.Ch11Analog Acra.Gen.Ch11Computer

/-! ### Analog -/

def Analog_WF (s : Analog.State) : Prop := s.channel_specific_word < 2 ^ 32

/-- `Analog.pack()` emits the channel-specific word (little-endian 32 bits) followed by the data -/
theorem Analog_pack_layout (s : Analog.State) (h : Analog_WF s) :
    Analog.pack s = .ok (Spec.Ch11.cswData s.channel_specific_word s.data) := by
  have hf : Fits AN_pack_fmt0.codes [s.channel_specific_word] := by
    simp [Fits, AN_pack_fmt0, Code.bound]; unfold Analog_WF at h; omega
  simp only [Analog.pack, structPack_eq _ _ hf]
  simp [AN_pack_fmt0, encCodes, Code.size, Spec.Ch11.cswData, encInt]

/-- decoding the packed bytes into an object in any prior state returns exactly the fields, and
    re-encoding reproduces the bytes -/
theorem Analog_roundtrip (s t : Analog.State) (h : Analog_WF s) :
    ∃ b, Analog.pack s = .ok b ∧ Analog.unpack t b = (s, .ok ()) ∧ Analog.pack (Analog.unpack t b).1 = .ok b := by
  have hf : Fits AN_pack_fmt0.codes [s.channel_specific_word] := by
    simp [Fits, AN_pack_fmt0, Code.bound]; unfold Analog_WF at h; omega
  have hp : Analog.pack s = .ok (encInt false 4 s.channel_specific_word ++ s.data) := by
    simp only [Analog.pack, structPack_eq _ _ hf]
    simp [AN_pack_fmt0, encCodes, Code.size]
  have hu : Analog.unpack t (encInt false 4 s.channel_specific_word ++ s.data) = (s, .ok ()) := by
    unfold Analog_WF at h
    simp only [Analog.unpack, structUnpackFrom, AN_unpack_fmt0, Fmt.size, codesSize, Code.size, List.length_append,
      encInt_length, unpackCodes, List.drop_zero, take_encInt_append, drop_encInt_append]
    rw [decInt_encInt4 _ _ (by omega)]
    simp
  exact ⟨_, hp, hu, by rw [hu]; exact hp⟩

example : Analog_WF { channel_specific_word := 0xDEADBEEF, data := [1, 2, 3] } := by simp [Analog_WF]

/-! ### computer-generated data, format 0 -/

def CG0_WF (s : Computer.State0) : Prop := s.csdw < 2 ^ 32

theorem CG0_pack_layout (s : Computer.State0) (h : CG0_WF s) :
    s.pack = .ok (Spec.Ch11.cswData s.csdw s.payload) := by
  have hf : Fits CG_pack_fmt0.codes [s.csdw] := by
    simp [Fits, CG_pack_fmt0, Code.bound]; unfold CG0_WF at h; omega
  simp only [Computer.State0.pack, structPack_eq _ _ hf]
  simp [CG_pack_fmt0, encCodes, Code.size, Spec.Ch11.cswData, encInt]

theorem CG0_unpack_bytes (t : Computer.State0) (v : Nat) (p : Bytes) (h : v < 2 ^ 32) :
    Computer.State0.unpack t (encInt false 4 v ++ p) = ({ csdw := v, payload := p }, .ok ()) := by
  simp only [Computer.State0.unpack, structUnpackFrom, CG_unpack_fmt0, Fmt.size, codesSize, Code.size, List.length_append,
    encInt_length, unpackCodes, List.drop_zero, take_encInt_append, drop_encInt_append]
  rw [decInt_encInt4 _ _ (by omega)]
  simp

theorem CG0_roundtrip (s t : Computer.State0) (h : CG0_WF s) :
    ∃ b, s.pack = .ok b ∧ Computer.State0.unpack t b = (s, .ok ()) ∧ (Computer.State0.unpack t b).1.pack = .ok b := by
  have hf : Fits CG_pack_fmt0.codes [s.csdw] := by
    simp [Fits, CG_pack_fmt0, Code.bound]; unfold CG0_WF at h; omega
  have hp : s.pack = .ok (encInt false 4 s.csdw ++ s.payload) := by
    simp only [Computer.State0.pack, structPack_eq _ _ hf]
    simp [CG_pack_fmt0, encCodes, Code.size]
  have hu := CG0_unpack_bytes t s.csdw s.payload h
  exact ⟨_, hp, hu, by rw [hu]; exact hp⟩

example : CG0_WF { csdw := 7, payload := [0x41] } := by simp [CG0_WF]

/-! ### computer-generated data, format 1 (setup record) -/

/-- one-bit format and change flags, an RCC version the enum knows (other values decode as IRIG 106-07) -/
def CG1_WF (s : Computer.State1) : Prop := s.frmt < 2 ∧ s.srcc < 2 ∧ 7 ≤ s.rccver ∧ s.rccver ≤ 14

/-- `pack()` emits CSW = frmt<<9 | srcc<<8 | rccver, then the setup record -/
theorem CG1_pack_layout (s : Computer.State1) (h : CG1_WF s) :
    s.pack.2 = .ok (Spec.Ch11.setupRecord s.frmt s.srcc s.rccver s.base.payload) := by
  obtain ⟨h1, h2, h3, h4⟩ := h
  have hf : Fits CG1_pack_fmt0.codes [512 * s.frmt + 256 * s.srcc + s.rccver] := by
    simp [Fits, CG1_pack_fmt0, Code.bound]; omega
  simp only [Computer.State1.pack, structPack_eq _ _ hf]
  simp [CG1_pack_fmt0, encCodes, Code.size, Spec.Ch11.setupRecord, encInt, Nat.mul_comm]

theorem rccverOf_known (v : Nat) (h1 : 7 ≤ v) (h2 : v ≤ 14) : Computer.rccverOf v = v := by
  have : v = 7 ∨ v = 8 ∨ v = 9 ∨ v = 10 ∨ v = 11 ∨ v = 12 ∨ v = 13 ∨ v = 14 := by omega
  rcases this with h | h | h | h | h | h | h | h <;> subst h <;> decide

/-- the enum's `_missing_`: every value that is not a member decodes as IRIG_106_07 -/
theorem rccverOf_missing (v : Nat) (h : v < 7 ∨ 14 < v) : Computer.rccverOf v = 7 := by
  simp only [Computer.rccverOf, RCCVER_VALUES, RCCVER_MISSING]
  by_cases hc : [7, 8, 9, 10, 11, 12, 13, 14].contains v = true
  · simp only [List.contains_cons, List.contains_nil, Bool.or_false, Bool.or_eq_true, beq_iff_eq] at hc
    omega
  · simp; omega

/-- round trip: same three fields and payload back; the decoded `_csdw` is the packed word -/
theorem CG1_roundtrip (s t : Computer.State1) (h : CG1_WF s) :
    ∃ b, s.pack.2 = .ok b ∧
      Computer.State1.unpack t b =
        ({ s with base := { s.base with csdw := 512 * s.frmt + 256 * s.srcc + s.rccver } }, .ok ()) ∧
      (Computer.State1.unpack t b).1.pack.2 = .ok b := by
  obtain ⟨h1, h2, h3, h4⟩ := h
  have hf : Fits CG1_pack_fmt0.codes [512 * s.frmt + 256 * s.srcc + s.rccver] := by
    simp [Fits, CG1_pack_fmt0, Code.bound]; omega
  have hp : ∀ u : Computer.State1, u.frmt = s.frmt → u.srcc = s.srcc → u.rccver = s.rccver → u.base.payload = s.base.payload →
      u.pack.2 = .ok (encInt false 4 (512 * s.frmt + 256 * s.srcc + s.rccver) ++ s.base.payload) := by
    intro u e1 e2 e3 e4
    simp only [Computer.State1.pack, e1, e2, e3, e4, structPack_eq _ _ hf]
    simp [CG1_pack_fmt0, encCodes, Code.size]
  have hu : Computer.State1.unpack t (encInt false 4 (512 * s.frmt + 256 * s.srcc + s.rccver) ++ s.base.payload) =
      ({ s with base := { s.base with csdw := 512 * s.frmt + 256 * s.srcc + s.rccver } }, .ok ()) := by
    have hlt : 512 * s.frmt + 256 * s.srcc + s.rccver < 2 ^ 32 := by omega
    simp only [Computer.State1.unpack, CG0_unpack_bytes t.base _ s.base.payload hlt]
    have e1 : (512 * s.frmt + 256 * s.srcc + s.rccver) / 512 % 2 = s.frmt := by omega
    have e2 : (512 * s.frmt + 256 * s.srcc + s.rccver) / 256 % 2 = s.srcc := by omega
    have e3 : (512 * s.frmt + 256 * s.srcc + s.rccver) % 256 = s.rccver := by omega
    simp only [e1, e2, e3, rccverOf_known _ h3 h4]
  refine ⟨_, hp s rfl rfl rfl rfl, hu, ?_⟩
  rw [hu]
  exact hp _ rfl rfl rfl rfl

example : CG1_WF { base := { csdw := 0, payload := [1, 2] }, frmt := 1, srcc := 0, rccver := 0xE } := by
  simp [CG1_WF]

/-! ### review additions (rev1-C04) -/

/-- outside `CG1_WF` (why it demands `7 ≤ rccver ≤ 14`): `pack` writes any 8-bit version, the decoder's
    enum turns a value it does not know into IRIG 106-07 (7) — version 3 comes back as 7; and a `frmt`
    of 2 is ADDED into bit 10, outside the field, and comes back as 0 -/
example : ∃ b, (⟨⟨0, [1]⟩, 1, 1, 3⟩ : Computer.State1).pack.2 = .ok b ∧
    (Computer.State1.unpack Computer.State1.fresh b).1.rccver = 7 ∧
    (Computer.State1.unpack Computer.State1.fresh b).1.frmt = 1 := by
  refine ⟨_, rfl, by decide, by decide⟩

example : ∃ b, (⟨⟨0, [1]⟩, 2, 0, 7⟩ : Computer.State1).pack.2 = .ok b ∧
    (Computer.State1.unpack Computer.State1.fresh b).1.frmt = 0 := by
  refine ⟨_, rfl, by decide⟩

end Acra.Props.C04
