import Acra.Lemmas.Ch11ARINC
import Acra.Spec.Ch11
namespace Acra.Props.C04
open Acra.Py Acra.Model.Ch11Pay Acra.Model.Ch11Pay.ARINC Acra.Gen.Ch11ARINC Acra.Lemmas.Ch11ARINC Acra.Lemmas.Ch11Pay

/-- ARINC-429 word header: `bus<<24 | FE<<23 | PE<<22 | speed<<21 | gap[20]`, then the data -/
theorem ARINCWord_pack_layout (w : Word) (h : Word_WF w) :
    w.pack = .ok (Spec.Ch11.arincWord w.bus w.format_error w.parity_error w.bus_speed w.gaptime w.payload) := by
  rw [Word_pack_eq w h]
  simp only [wordBytes, Spec.Ch11.arincWord, Spec.Ch11.bit, encInt, Word.ipdh, Bool.false_eq_true, if_false]
  congr 3
  cases w.format_error <;> cases w.parity_error <;> simp <;> omega

/-- word round trip: every status bit, the bus number, the speed, the gap time and the data come back,
    whatever the receiving object held -/
theorem ARINCWord_roundtrip (w t : Word) (h : Word_WF w) :
    ∃ b, w.pack = .ok b ∧ Word.unpack t b = (w, .ok ()) ∧ (Word.unpack t b).1.pack = .ok b :=
  ⟨wordBytes w, Word_pack_eq w h, Word_unpack_bytes w t h, by rw [Word_unpack_bytes w t h]; exact Word_pack_eq w h⟩

/-- the packet format carries 8-byte words (header + one 32-bit ARINC word) and a 16-bit count -/
def ARINC_WF (p : Packet) : Prop :=
  (∀ w ∈ p.arincwords, Word_WF w ∧ w.payload.length = 4) ∧ p.arincwords.length < 2 ^ 16

def ARINC_bytes (p : Packet) : Bytes :=
  encInt false 2 p.arincwords.length ++ (encInt false 2 0 ++ p.arincwords.flatMap wordBytes)

theorem ARINC_pack_eq (p : Packet) (h : ARINC_WF p) :
    p.pack = ({ p with msgcount := p.arincwords.length }, .ok (ARINC_bytes p)) := by
  obtain ⟨hw, hl⟩ := h
  have hf : Fits PKT_pack_fmt0.codes [p.arincwords.length, 0] := by
    simp [Fits, PKT_pack_fmt0, Code.bound]; omega
  simp only [Packet.pack, structPack_eq _ _ hf,
    packList_eq Word.pack wordBytes p.arincwords (fun w hx => Word_pack_eq w (hw w hx).1)]
  simp [ARINC_bytes, PKT_pack_fmt0, encCodes, Code.size]

/-- `pack()` writes the word count (and stores it in `msgcount`), a reserved zero, then the words in order -/
theorem ARINC_pack_layout (p : Packet) (h : ARINC_WF p) :
    p.pack.2 = .ok (Spec.Ch11.arincPacket (p.arincwords.map wordBytes)) ∧ p.pack.1.msgcount = p.arincwords.length := by
  rw [ARINC_pack_eq p h]
  simp [ARINC_bytes, Spec.Ch11.arincPacket, encInt, List.flatMap_def]

theorem ARINC_unpack_bytes (p t : Packet) (h : ARINC_WF p) :
    Packet.unpack t (ARINC_bytes p) = ({ msgcount := p.arincwords.length, arincwords := p.arincwords }, .ok ()) := by
  obtain ⟨hw, hl⟩ := h
  have hlen : (ARINC_bytes p).length = 4 + 8 * p.arincwords.length := by
    simp [ARINC_bytes, flatMap_wordBytes_length _ (fun w hx => (hw w hx).2)]; omega
  have hdec := decWords_enc (encInt false 2 p.arincwords.length ++ encInt false 2 0) p.arincwords 0 (by simp) hw
  simp only [List.append_assoc] at hdec
  have hexp : (4 + 8 * p.arincwords.length - 4) / 8 = p.arincwords.length := by omega
  simp only [Packet.unpack, structUnpackFrom, PKT_unpack_fmt0, Fmt.size, codesSize, Code.size, hlen, hexp]
  simp only [ARINC_bytes, unpackCodes, Code.size, List.drop_zero, take_encInt_append, drop_encInt_append]
  rw [decInt_encInt2 _ _ (by omega), decInt_encInt2 _ _ (by omega)]
  simp [hdec]

/-- packet round trip: the same words in the same order, the count equal to their number; the bytes
    are accepted by the decoder whatever the receiving object held, and re-encode identically -/
theorem ARINC_roundtrip (p t : Packet) (h : ARINC_WF p) :
    ∃ b, p.pack.2 = .ok b ∧
      Packet.unpack t b = ({ msgcount := p.arincwords.length, arincwords := p.arincwords }, .ok ()) ∧
      (Packet.unpack t b).1.pack.2 = .ok b := by
  refine ⟨ARINC_bytes p, by rw [ARINC_pack_eq p h], ARINC_unpack_bytes p t h, ?_⟩
  rw [ARINC_unpack_bytes p t h]
  have h' : ARINC_WF { msgcount := p.arincwords.length, arincwords := p.arincwords } := h
  rw [ARINC_pack_eq _ h']
  rfl

/-- a payload assembled through `append()` (which leaves `msgcount` alone) is accepted by the decoder -/
theorem ARINC_append_accepted (ws : List Word) (t : Packet) (hw : ∀ w ∈ ws, Word_WF w ∧ w.payload.length = 4)
    (hl : ws.length < 2 ^ 16) :
    ∃ b, (ws.foldl Packet.append Packet.fresh).pack.2 = .ok b ∧
      Packet.unpack t b = ({ msgcount := ws.length, arincwords := ws }, .ok ()) := by
  have hfold : ∀ (q : Packet), (ws.foldl Packet.append q) = { q with arincwords := q.arincwords ++ ws } := by
    induction ws with
    | nil => intro q; simp
    | cons w ws ih =>
      intro q
      simp only [List.foldl_cons]
      rw [ih (fun x hx => hw x (by simp [hx])) (by simp at hl; omega)]
      simp [Packet.append]
  have hp : ARINC_WF (ws.foldl Packet.append Packet.fresh) := by
    rw [hfold]; simpa [ARINC_WF, Packet.fresh] using ⟨hw, hl⟩
  obtain ⟨b, h1, h2, _⟩ := ARINC_roundtrip _ t hp
  refine ⟨b, h1, ?_⟩
  rw [h2, hfold]
  simp [Packet.fresh]

example : ARINC_WF ⟨0, [⟨4110, true, false, 1, 200, [1, 2, 3, 4]⟩, ⟨0, false, true, 0, 0, [0, 0, 0, 0]⟩]⟩ := by
  refine ⟨?_, by simp⟩
  intro w hw
  simp only [List.mem_cons, List.mem_nil_iff, or_false] at hw
  rcases hw with h | h <;> subst h <;> simp [Word_WF]

/-! ### review additions (rev1-C04) -/

/-- the packet layout with every word in its declarative form: `ARINC_pack_layout` is phrased with the
    helper `wordBytes`; composing it with `ARINCWord_pack_layout` removes the helper from the statement -/
theorem ARINC_pack_layout_spec (p : Packet) (h : ARINC_WF p) :
    p.pack.2 = .ok (Spec.Ch11.arincPacket (p.arincwords.map fun w =>
      Spec.Ch11.arincWord w.bus w.format_error w.parity_error w.bus_speed w.gaptime w.payload)) := by
  have e : p.arincwords.map wordBytes = p.arincwords.map (fun w =>
      Spec.Ch11.arincWord w.bus w.format_error w.parity_error w.bus_speed w.gaptime w.payload) := by
    apply List.map_congr_left
    intro w hw
    have h1 := Word_pack_eq w (h.1 w hw).1
    have h2 := ARINCWord_pack_layout w (h.1 w hw).1
    rw [h1] at h2
    exact Except.ok.inj h2
  rw [← e]
  exact (ARINC_pack_layout p h).1

/-- the empty packet is inside `ARINC_WF` (the quantifier says 1..N; count 0 is legal for this format
    and is accepted too): four bytes, count 0 -/
example : ARINC_WF Packet.fresh ∧ Packet.fresh.pack.2 = .ok [0, 0, 0, 0] ∧
    Packet.unpack ⟨7, [Word.fresh]⟩ [0, 0, 0, 0] = (Packet.fresh, .ok ()) := by
  refine ⟨⟨by simp [Packet.fresh], by simp [Packet.fresh]⟩, rfl, rfl⟩

/-- joint witness for the hypotheses of `ARINC_append_accepted` (`hw` and `hl` together), with every
    status bit, the widest gap time and bus number: the theorem instantiated -/
example : ∃ b, (([⟨4110, true, false, 1, 200, [1, 2, 3, 4]⟩, ⟨0xFFFFF, false, true, 0, 255, [9, 8, 7, 6]⟩] : List Word).foldl
      Packet.append Packet.fresh).pack.2 = .ok b ∧
    Packet.unpack ⟨5, [Word.fresh]⟩ b =
      ({ msgcount := 2, arincwords := [⟨4110, true, false, 1, 200, [1, 2, 3, 4]⟩, ⟨0xFFFFF, false, true, 0, 255, [9, 8, 7, 6]⟩] },
       .ok ()) :=
  ARINC_append_accepted _ _
    (by
      intro w hw
      simp only [List.mem_cons, List.mem_nil_iff, or_false] at hw
      rcases hw with h | h <;> subst h <;> simp [Word_WF])
    (by simp)

/-- joint witness for `ARINCWord_roundtrip` / `ARINCWord_pack_layout`: all three header fields at their maxima -/
example : Word_WF ⟨0xFFFFF, true, true, 1, 255, [0xDE, 0xAD, 0xBE, 0xEF]⟩ := by simp [Word_WF]

/-- outside `Word_WF`: `pack` does not mask the gap time — 2^20 lands in the reserved bit 20 and is lost
    on decode (gap 0), 2^21 is ADDED into the bus-speed bit and encodes exactly like speed 1, gap 0;
    this is why the hypothesis `gaptime < 2^20` is needed -/
example : ∃ b, (⟨0x100000, false, false, 0, 0, [1, 2, 3, 4]⟩ : Word).pack = .ok b ∧
    (Word.unpack Word.fresh b).1 = ⟨0, false, false, 0, 0, [1, 2, 3, 4]⟩ ∧
    (⟨0x200000, false, false, 0, 0, [1, 2, 3, 4]⟩ : Word).pack = (⟨0, false, false, 1, 0, [1, 2, 3, 4]⟩ : Word).pack := by
  refine ⟨_, rfl, by decide, rfl⟩

end Acra.Props.C04
