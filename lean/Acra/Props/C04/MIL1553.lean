import Acra.Lemmas.Ch11MIL1553
import Acra.Spec.Ch11
namespace Acra.Props.C04
open Acra.Py Acra.Model.Ch11Pay Acra.Model.Ch11Pay.MIL1553 Acra.Gen.Ch11MIL1553 Acra.Gen.Ch11PayTs
open Acra.Lemmas.Ch11MIL1553 Acra.Lemmas.Ch11Pay

/-- one 1553 message: time stamp, block status word, gap times word, length word, data -/
theorem MILMsg_pack_layout (m : Msg) (h : Msg_WF m) :
    m.pack.2 = .ok (Spec.Ch11.milMessage (toSpec m.ipts) m.blockstatus m.gaptimes m.message) ∧
    m.pack.1.length = m.message.length := by
  rw [Msg_pack_eq m h]
  simp [msgBytes, msgHdr, Spec.Ch11.milMessage, iptsBytes_spec _ h.1, encInt, norm]

/-- message round trip into an object of the same time-stamp kind, in any prior state -/
theorem MILMsg_roundtrip (m t : Msg) (h : Msg_WF m) (hk : sameKind t.ipts m.ipts) :
    ∃ b, m.pack.2 = .ok b ∧ Msg.unpack t b = (norm m, .ok b.length) ∧ (Msg.unpack t b).1.pack.2 = .ok b := by
  have hu := Msg_unpack_bytes m t [] h hk
  simp only [List.append_nil] at hu
  refine ⟨msgBytes m, by rw [Msg_pack_eq m h], hu, ?_⟩
  rw [hu, Msg_pack_eq _ (norm_WF m h)]
  rfl

/-- the time-stamp object the packet decoder creates for its `ipts_source` option -/
def protoIpts (p : Packet) : Ipts :=
  match p.ipts_source with
  | some s => (iptsOfSource s).getD .none
  | Option.none => .none

/-- every message fits its fields and carries the kind of time stamp the packet is configured for;
    at least one message (the encoder refuses an empty packet); the count fits 24 bits, the time-tag
    bits 2; the last message has data (the decoder's loop test `offset + 14 < len` cannot see a
    trailing header-only message) -/
def MIL_WF (p : Packet) : Prop :=
  (∀ m ∈ p.messages, Msg_WF m ∧ sameKind (protoIpts p) m.ipts) ∧ p.messages ≠ [] ∧
  p.messages.length < 2 ^ 24 ∧ p.ttb < 4 ∧ (∀ m, p.messages.getLast? = some m → 1 ≤ m.message.length)

def MIL_bytes (p : Packet) : Bytes :=
  encInt false 4 (1073741824 * p.ttb + p.messages.length) ++ p.messages.flatMap msgBytes

theorem MIL_pack_eq (p : Packet) (h : MIL_WF p) :
    p.pack = ({ p with messages := p.messages.map norm }, .ok (MIL_bytes p)) := by
  obtain ⟨hm, hne, hl, ht, _⟩ := h
  have hlen : p.messages.length ≠ 0 := by
    intro h0; exact hne (List.length_eq_zero_iff.mp h0)
  have hf : Fits PKT_pack_fmt0.codes [1073741824 * p.ttb + p.messages.length] := by
    simp [Fits, PKT_pack_fmt0, Code.bound]; omega
  simp only [Packet.pack, hlen, if_false, packMsgs_eq _ (fun m hx => (hm m hx).1), structPack_eq _ _ hf]
  simp [MIL_bytes, PKT_pack_fmt0, encCodes, Code.size]

/-- `pack()`: CSW = ttb<<30 | message count, then the messages in order -/
theorem MIL_pack_layout (p : Packet) (h : MIL_WF p) :
    p.pack.2 = .ok (Spec.Ch11.milPacket p.ttb (p.messages.map msgBytes)) := by
  rw [MIL_pack_eq p h]
  simp [MIL_bytes, Spec.Ch11.milPacket, encInt, List.flatMap_def, Nat.mul_comm]

theorem decMsg_bytes (m m0 : Msg) (rest : Bytes) (h : Msg_WF m) (hk : sameKind m0.ipts m.ipts) :
    decMsg (.ok m0) (msgBytes (norm m) ++ rest) = .ok (norm m, (msgBytes (norm m)).length) := by
  simp only [decMsg, msgBytes_norm, Msg_unpack_bytes m m0 rest h hk]

theorem MIL_proto (p : Packet) (h : MIL_WF p) : ∃ m0, p.proto = .ok m0 ∧ m0.ipts = protoIpts p := by
  obtain ⟨hm, hne, _⟩ := h
  obtain ⟨m, ms, hms⟩ := List.exists_cons_of_ne_nil hne
  have := (hm m (by simp [hms])).2
  have hn := (hm m (by simp [hms])).1.2.1
  unfold protoIpts at this ⊢
  unfold Packet.proto
  cases hs : p.ipts_source with
  | none => simp only [hs] at this; cases hi : m.ipts <;> simp_all [sameKind]
  | some s =>
    simp only [hs] at this ⊢
    cases hi : iptsOfSource s with
    | none => simp only [hi, Option.getD_none] at this; cases hi2 : m.ipts <;> simp_all [sameKind]
    | some i => exact ⟨Msg.fresh i, rfl, by simp [Msg.fresh]⟩

theorem MIL_unpack_bytes (p t : Packet) (h : MIL_WF p) (ho : t.ipts_source = p.ipts_source) :
    Packet.unpack t (MIL_bytes p) =
      ({ t with messages := p.messages.map norm, msgcount := p.messages.length, ttb := p.ttb }, .ok ()) := by
  obtain ⟨m0, hproto, hm0⟩ := MIL_proto p h
  obtain ⟨hm, hne, hl, ht, hlast⟩ := h
  have hproto' : t.proto = .ok m0 := by simpa [Packet.proto, ho] using hproto
  have hcsw : structUnpackFrom PKT_unpack_fmt0 (MIL_bytes p) 0 = .ok [1073741824 * p.ttb + p.messages.length] := by
    simp only [MIL_bytes, structUnpackFrom, PKT_unpack_fmt0, Fmt.size, codesSize, Code.size, List.length_append,
      encInt_length, unpackCodes, List.drop_zero, take_encInt_append]
    rw [decInt_encInt4 _ _ (by omega)]
    simp
  have hge : ∀ x ∈ p.messages.map norm, 1 ≤ (msgBytes x).length := by
    intro x hx
    obtain ⟨m, hmm, rfl⟩ := List.mem_map.mp hx
    rw [msgBytes_norm, msgBytes_length _ (hm m hmm).1.2.1]; omega
  have hdec := decOff_encAll_last (decMsg (.ok m0)) more1553 msgBytes (fun x => 1 ≤ x.message.length)
    (p.messages.map norm) (encInt false 4 (1073741824 * p.ttb + p.messages.length))
    ((MIL_bytes p).length + 1)
    (by
      have := flatMap_length_ge msgBytes (p.messages.map norm) hge
      simp only [MIL_bytes, List.length_append, encInt_length, ← flatMap_msgBytes_norm p.messages]
      omega)
    (by
      intro x hx rest
      obtain ⟨m, hmm, rfl⟩ := List.mem_map.mp hx
      exact decMsg_bytes m m0 rest (hm m hmm).1 (by rw [hm0]; exact (hm m hmm).2))
    (by
      intro x hx hnil
      have := hge x hx
      rw [hnil] at this; simp at this)
    (by
      intro x hx a q hq
      obtain ⟨m, hmm, rfl⟩ := List.mem_map.mp hx
      have hlen := msgBytes_length m (hm m hmm).1.2.1
      simp only [more1553, List.length_append, msgBytes_norm, hlen, decide_eq_true_eq]
      rcases hq with hq | hq
      · have : 1 ≤ q.length := by
          cases q with
          | nil => exact absurd rfl hq
          | cons _ _ => simp
        omega
      · simp only [norm] at hq; omega)
    (by
      intro x hx
      rw [List.getLast?_map] at hx
      cases hg : p.messages.getLast? with
      | none => simp [hg] at hx
      | some m =>
        simp only [hg, Option.map_some, Option.some.injEq] at hx
        subst hx
        exact hlast m hg)
    (by intro n; simp [more1553])
  rw [flatMap_msgBytes_norm] at hdec
  have hdec' : decOff (decMsg t.proto) more1553 (MIL_bytes p) ((MIL_bytes p).length + 1) 4 = .ok (p.messages.map norm) := by
    rw [hproto']
    simpa [MIL_bytes] using hdec
  simp only [Packet.unpack, hcsw, hdec']
  have e1 : (1073741824 * p.ttb + p.messages.length) % 16777216 = p.messages.length := by omega
  have e2 : (1073741824 * p.ttb + p.messages.length) / 1073741824 % 4 = p.ttb := by omega
  simp only [e1, e2]

/-- packet round trip: the same messages in the same order with the same time stamps, status words
    and data (each `length` field equal to its data size), the count and the time-tag bits; decoding
    does not depend on what the receiving object held; re-encoding gives the same bytes -/
theorem MIL_roundtrip (p t : Packet) (h : MIL_WF p) (ho : t.ipts_source = p.ipts_source) :
    ∃ b, p.pack.2 = .ok b ∧
      Packet.unpack t b =
        ({ t with messages := p.messages.map norm, msgcount := p.messages.length, ttb := p.ttb }, .ok ()) ∧
      (Packet.unpack t b).1.pack.2 = .ok b := by
  refine ⟨MIL_bytes p, by rw [MIL_pack_eq p h], MIL_unpack_bytes p t h ho, ?_⟩
  rw [MIL_unpack_bytes p t h ho]
  have h' : MIL_WF { t with messages := p.messages.map norm, msgcount := p.messages.length, ttb := p.ttb } := by
    obtain ⟨hm, hne, hl, ht, hlast⟩ := h
    refine ⟨?_, by simpa using hne, by simpa using hl, ht, ?_⟩
    · intro x hx
      obtain ⟨m, hmm, rfl⟩ := List.mem_map.mp hx
      have := hm m hmm
      exact ⟨norm_WF m this.1, by simpa [protoIpts, ho, norm] using this.2⟩
    · intro x hx
      simp only [List.getLast?_map] at hx
      cases hg : p.messages.getLast? with
      | none => simp [hg] at hx
      | some m =>
        simp only [hg, Option.map_some, Option.some.injEq] at hx
        subst hx
        exact hlast m hg
  rw [MIL_pack_eq _ h']
  simp [MIL_bytes, flatMap_msgBytes_norm]

/-- a payload assembled through `append()` (which counts the messages) is accepted by the decoder and
    returned unchanged, with the count the object already showed -/
theorem MIL_append_accepted (src : Option Nat) (ms : List Msg) (t : Packet)
    (h : MIL_WF { Packet.fresh src with messages := ms, msgcount := ms.length }) (ho : t.ipts_source = src) :
    ∃ b, (ms.foldl Packet.append (Packet.fresh src)).pack.2 = .ok b ∧
      (Packet.unpack t b).2 = .ok () ∧ (Packet.unpack t b).1.messages = ms.map norm ∧
      (Packet.unpack t b).1.msgcount = (ms.foldl Packet.append (Packet.fresh src)).msgcount := by
  have hfold : ∀ (ms : List Msg) (q : Packet), (ms.foldl Packet.append q) =
      { q with messages := q.messages ++ ms, msgcount := q.msgcount + ms.length } := by
    intro ms
    induction ms with
    | nil => intro q; simp
    | cons m ms ih =>
      intro q
      simp only [List.foldl_cons]
      rw [ih (q.append m)]
      simp [Packet.append, Nat.add_assoc, Nat.add_comm 1]
  have e : ms.foldl Packet.append (Packet.fresh src) = { Packet.fresh src with messages := ms, msgcount := ms.length } := by
    rw [hfold]; simp [Packet.fresh]
  rw [e]
  obtain ⟨b, h1, h2, _⟩ := MIL_roundtrip _ t h (by simpa [Packet.fresh] using ho)
  exact ⟨b, h1, by rw [h2], by rw [h2], by rw [h2]⟩

/-- the decoder's loop test cannot see a trailing message without data: what `pack` emits for
    [one data word; no data] decodes to a single message -/
example : let p : Packet := { messages := [⟨.rtc 1, 0, 0, 0, [1, 2]⟩, ⟨.rtc 2, 0, 0, 0, []⟩], msgcount := 2, ttb := 0,
                              ipts_source := some 0 }
    ∃ b, p.pack.2 = .ok b ∧ (Packet.unpack (Packet.fresh (some 0)) b).1.messages.length = 1 := by
  refine ⟨_, rfl, ?_⟩
  decide

example : MIL_WF { messages := [⟨.rtc 1, 0, 0, 0, []⟩, ⟨.rtc 77, 0xFFFF, 3, 0, [1, 2, 3]⟩], msgcount := 2, ttb := 3,
                   ipts_source := some 0 } := by
  refine ⟨?_, by simp, by simp, by simp, by simp⟩
  intro m hm
  simp only [List.mem_cons, List.mem_nil_iff, or_false] at hm
  rcases hm with h | h <;> subst h <;>
    simp [Msg_WF, Ipts_WF, protoIpts, iptsOfSource, TS_CH4, sameKind]

/-! ### review additions (rev1-C04) -/

/-- `MILMsg_roundtrip` with the helper `norm` unfolded: the time stamp, both status words and the data
    bytes come back; the `length` attribute comes back as the size of the data (NOT as the value the
    caller may have assigned — `pack` overwrites it) -/
theorem MILMsg_roundtrip_fields (m t : Msg) (h : Msg_WF m) (hk : sameKind t.ipts m.ipts) :
    ∃ b, m.pack.2 = .ok b ∧ (Msg.unpack t b).2 = .ok b.length ∧
      (Msg.unpack t b).1.ipts = m.ipts ∧ (Msg.unpack t b).1.blockstatus = m.blockstatus ∧
      (Msg.unpack t b).1.gaptimes = m.gaptimes ∧ (Msg.unpack t b).1.message = m.message ∧
      (Msg.unpack t b).1.length = m.message.length := by
  obtain ⟨b, h1, h2, _⟩ := MILMsg_roundtrip m t h hk
  exact ⟨b, h1, by rw [h2], by rw [h2]; rfl, by rw [h2]; rfl, by rw [h2]; rfl, by rw [h2]; rfl, by rw [h2]; rfl⟩

/-- the packet layout with every message in its declarative form (`MIL_pack_layout` is phrased with
    the helper `msgBytes`; composing with `MILMsg_pack_layout` removes it from the statement) -/
theorem MIL_pack_layout_spec (p : Packet) (h : MIL_WF p) :
    p.pack.2 = .ok (Spec.Ch11.milPacket p.ttb (p.messages.map fun m =>
      Spec.Ch11.milMessage (toSpec m.ipts) m.blockstatus m.gaptimes m.message)) := by
  have e : p.messages.map msgBytes = p.messages.map (fun m =>
      Spec.Ch11.milMessage (toSpec m.ipts) m.blockstatus m.gaptimes m.message) := by
    apply List.map_congr_left
    intro m hm
    have h1 := Msg_pack_eq m (h.1 m hm).1
    have h2 := (MILMsg_pack_layout m (h.1 m hm).1).1
    rw [h1] at h2
    exact Except.ok.inj h2
  rw [← e]
  exact MIL_pack_layout p h

/-- `MIL_roundtrip` with `norm` unfolded: the decoded list carries, message by message and in order,
    the same time stamps, block status words, gap-time words and data bytes; every decoded `length`
    is the size of its data; count and time-tag bits are the encoder's; the codec option is kept -/
theorem MIL_roundtrip_fields (p t : Packet) (h : MIL_WF p) (ho : t.ipts_source = p.ipts_source) :
    ∃ b, p.pack.2 = .ok b ∧ (Packet.unpack t b).2 = .ok () ∧
      (Packet.unpack t b).1.messages.map (fun m => (m.ipts, m.blockstatus, m.gaptimes, m.message)) =
        p.messages.map (fun m => (m.ipts, m.blockstatus, m.gaptimes, m.message)) ∧
      (∀ m ∈ (Packet.unpack t b).1.messages, m.length = m.message.length) ∧
      (Packet.unpack t b).1.msgcount = p.messages.length ∧ (Packet.unpack t b).1.ttb = p.ttb ∧
      (Packet.unpack t b).1.ipts_source = t.ipts_source := by
  obtain ⟨b, h1, h2, _⟩ := MIL_roundtrip p t h ho
  refine ⟨b, h1, by rw [h2], ?_, ?_, by rw [h2], by rw [h2], by rw [h2]⟩
  · rw [h2]
    simp [List.map_map, Function.comp_def, norm]
  · rw [h2]
    intro m hm
    obtain ⟨x, _, rfl⟩ := List.mem_map.mp hm
    rfl

/-- joint witness for `MILMsg_roundtrip` (`h` and `hk` together): a PTP-stamped message decoded into
    an object that held another PTP time and other data -/
example : Msg_WF ⟨.ptp 0xFFFFFFFF 999999999, 0xFFFF, 0xFFFF, 7, [1, 2, 3]⟩ ∧
    sameKind (⟨.ptp 1 2, 5, 6, 7, [9]⟩ : Msg).ipts (⟨.ptp 0xFFFFFFFF 999999999, 0xFFFF, 0xFFFF, 7, [1, 2, 3]⟩ : Msg).ipts := by
  simp [Msg_WF, Ipts_WF, sameKind]

/-- joint witness for `MIL_roundtrip` (`h` and `ho` together), decoder in a non-trivial prior state:
    the theorem instantiated on the packet of the `MIL_WF` example above -/
example : ∃ b, (⟨[⟨.rtc 1, 0, 0, 0, []⟩, ⟨.rtc 77, 0xFFFF, 3, 0, [1, 2, 3]⟩], 2, 3, some 0⟩ : Packet).pack.2 = .ok b ∧
    Packet.unpack ⟨[⟨.rtc 5, 1, 1, 1, [4]⟩], 99, 1, some 0⟩ b =
      (⟨[⟨.rtc 1, 0, 0, 0, []⟩, ⟨.rtc 77, 0xFFFF, 3, 3, [1, 2, 3]⟩], 2, 3, some 0⟩, .ok ()) := by
  obtain ⟨b, h1, h2, _⟩ := MIL_roundtrip
    (⟨[⟨.rtc 1, 0, 0, 0, []⟩, ⟨.rtc 77, 0xFFFF, 3, 0, [1, 2, 3]⟩], 2, 3, some 0⟩ : Packet)
    ⟨[⟨.rtc 5, 1, 1, 1, [4]⟩], 99, 1, some 0⟩
    (by
      refine ⟨?_, by simp, by simp, by simp, by simp⟩
      intro m hm
      simp only [List.mem_cons, List.mem_nil_iff, or_false] at hm
      rcases hm with h | h <;> subst h <;>
        simp [Msg_WF, Ipts_WF, protoIpts, iptsOfSource, TS_CH4, sameKind])
    rfl
  exact ⟨b, h1, by rw [h2]; rfl⟩

/-- joint witness for `MIL_append_accepted` (`h` on the `fresh`-shaped packet and `ho` together): two
    PTP-stamped messages, odd and even data sizes -/
example : ∃ b, (([⟨.ptp 1 2, 0x8000, 1, 0, [1, 2, 3]⟩, ⟨.ptp 1 500, 0, 0xFFFF, 0, [4, 5]⟩] : List Msg).foldl Packet.append
      (Packet.fresh (some 1))).pack.2 = .ok b ∧
    (Packet.unpack ⟨[], 9, 2, some 1⟩ b).2 = .ok () ∧
    (Packet.unpack ⟨[], 9, 2, some 1⟩ b).1.messages =
      [⟨.ptp 1 2, 0x8000, 1, 3, [1, 2, 3]⟩, ⟨.ptp 1 500, 0, 0xFFFF, 2, [4, 5]⟩] := by
  obtain ⟨b, h1, h2, h3, _⟩ := MIL_append_accepted (some 1)
    [⟨.ptp 1 2, 0x8000, 1, 0, [1, 2, 3]⟩, ⟨.ptp 1 500, 0, 0xFFFF, 0, [4, 5]⟩] ⟨[], 9, 2, some 1⟩
    (by
      refine ⟨?_, by simp, by simp, by simp [Packet.fresh], by simp⟩
      intro m hm
      simp only [List.mem_cons, List.mem_nil_iff, or_false] at hm
      rcases hm with h | h <;> subst h <;>
        simp [Msg_WF, Ipts_WF, protoIpts, iptsOfSource, TS_CH4, TS_IEEE1558, sameKind, Packet.fresh])
    rfl
  exact ⟨b, h1, h2, by rw [h3]; rfl⟩

/-- why `MIL_WF` excludes the empty list (the quantifier says counts 1..N): the encoder refuses it -/
example : (Packet.fresh (some 0)).pack.2 = .error .generic := rfl

end Acra.Props.C04
