import Acra.Lemmas.Ch11PCM
import Acra.Spec.Ch11
namespace Acra.Props.C04
open Acra.Py Acra.Model.Ch11Pay Acra.Model.Ch11Pay.PCM Acra.Gen.Ch11PCM Acra.Gen.Ch11PayTs
open Acra.Lemmas.Ch11PCM Acra.Lemmas.Ch11Pay

/-- a packed-mode minor frame with its fill byte is the Chapter 11 layout: time stamp, 16- or 32-bit
    intra-packet data header, data, one zero byte when the total is odd -/
theorem PCMFrame_pack_layout (f : Frame) (h : Frame_WF f) :
    packFrame f = .ok (Spec.Ch11.pcmFrame (toSpec f.ipts) (decide (f.alignment = 1)) (f.hdr.getD 0) f.data) := by
  rw [packFrame_eq f h]
  obtain ⟨_, _, h3, h4, _⟩ := h
  have : f.alignment = 0 ∨ f.alignment = 1 := by omega
  rcases this with ha | ha <;>
    simp [slotBytes, frameBytes, fill, Spec.Ch11.pcmFrame, iptsBytes_spec _ h3, encInt, hdrLen, ha]

/-- fill rule, every residue: a frame slot occupies an even number of bytes -/
theorem PCMFrame_slot_even (f : Frame) : (slotBytes f).length % 2 = 0 := by
  rw [slotBytes_length]; omega

/-- frame round trip into a packed-mode object of the same time-stamp kind and alignment, whatever
    its time stamp, data header, data and sync-word / sub-frame attributes were (the latter are cleared) -/
theorem PCMFrame_roundtrip (f t : Frame) (h : Frame_WF f) (ht : t.throughput = false)
    (hk : sameKind t.ipts f.ipts) (ha : t.alignment = f.alignment) :
    ∃ b, f.pack = .ok b ∧
      Frame.unpack t b false =
        ({ t with ipts := f.ipts, hdr := f.hdr, data := f.data, syncword := Option.none, sfid := Option.none }, .ok ()) :=
  ⟨frameBytes f, Frame_pack_eq f h, Frame_unpack_bytes f t h ht hk ha⟩

/-- the frame object the packet decoder creates in packed mode for its `ipts_source` option -/
def pcmProto (src : Option Nat) (align : Nat) : Frame := Frame.fresh src false align

/-- packed mode with a given minor-frame size `n`: the throughput bit of the channel-specific word is
    clear, its alignment bit selects the data-header width, every frame is well formed, of that
    alignment, of the decoder's time-stamp kind, and holds exactly `n` data bytes -/
def PCM_WF (p : Packet) (n : Nat) : Prop :=
  p.channel_specific_word < 2 ^ 32 ∧ (p.channel_specific_word / MODE_THROUGHPUT) % 2 = 0 ∧
  ∀ f ∈ p.minor_frames, Frame_WF f ∧ f.alignment = (p.channel_specific_word / MODE_ALIGNMENT) % 2 ∧ f.data.length = n ∧
    sameKind (pcmProto p.ipts_source f.alignment).ipts f.ipts

def PCM_bytes (p : Packet) : Bytes := encInt false 4 p.channel_specific_word ++ p.minor_frames.flatMap slotBytes

/-- the state of a decoder `t` after decoding `p`'s bytes: `p`'s channel-specific word and frames, no detected size -/
def PCM_decoded (t p : Packet) : Packet :=
  { t with channel_specific_word := p.channel_specific_word, minor_frames := p.minor_frames, detected := Option.none }

theorem PCM_pack_eq (p : Packet) (n : Nat) (h : PCM_WF p n) : p.pack = .ok (PCM_bytes p) := by
  obtain ⟨h1, _, hf⟩ := h
  have hc : Fits PCM_pack_fmt0.codes [p.channel_specific_word] := by
    simp [Fits, PCM_pack_fmt0, Code.bound]; omega
  simp only [Packet.pack, structPack_eq _ _ hc,
    packList_eq packFrame slotBytes p.minor_frames (fun f hx => packFrame_eq f (hf f hx).1)]
  simp [PCM_bytes, PCM_pack_fmt0, encCodes, Code.size]

/-- `pack()`: the channel-specific word, then every frame with its fill byte, in order -/
theorem PCM_pack_layout (p : Packet) (n : Nat) (h : PCM_WF p n) :
    p.pack = .ok (Spec.Ch11.pcmPacket p.channel_specific_word (p.minor_frames.map slotBytes)) := by
  rw [PCM_pack_eq p n h]
  simp [PCM_bytes, Spec.Ch11.pcmPacket, encInt, List.flatMap_def]

theorem fresh_eq_frame (src : Option Nat) (f : Frame) (h : Frame_WF f) :
    { pcmProto src f.alignment with ipts := f.ipts, hdr := f.hdr, data := f.data } = f := by
  obtain ⟨h1, _, _, _, _, h7, h8⟩ := h
  cases f
  simp_all [pcmProto, Frame.fresh]

/-- what decoding the packed bytes gives, for a decoder configured with the frame size -/
theorem PCM_unpack_bytes (p t : Packet) (n : Nat) (h : PCM_WF p n) (ho : t.ipts_source = p.ipts_source)
    (hs : t.assigned = some n) :
    Packet.unpack t (PCM_bytes p) false =
      (PCM_decoded t p, .ok ()) := by
  obtain ⟨h1, h2, hf⟩ := h
  have hcsw : structUnpackFrom PCM_unpack_fmt0 (PCM_bytes p) 0 = .ok [p.channel_specific_word] := by
    simp only [PCM_bytes, structUnpackFrom, PCM_unpack_fmt0, Fmt.size, codesSize, Code.size, List.length_append,
      encInt_length, unpackCodes, List.drop_zero, take_encInt_append]
    rw [decInt_encInt4 _ _ (by omega)]
    simp
  have hthr : decide (p.channel_specific_word / MODE_THROUGHPUT % 2 = 1) = false := by simp [h2]
  generalize hal : p.channel_specific_word / MODE_ALIGNMENT % 2 = align at hf
  have hal2 : align < 2 := by omega
  have hhl : (if align = ALIGN_16b then DATA_HEADER_LEN_16 else DATA_HEADER_LEN_32) = hdrLen align := by
    have : align = 0 ∨ align = 1 := by omega
    rcases this with h | h <;> subst h <;> rfl
  have hreq : ((n : Int) + TS_LEN + hdrLen align).toNat = n + 8 + hdrLen align := by
    simp [TS_LEN]; omega
  have hdec := decFrames_enc (pcmProto p.ipts_source align) p.minor_frames (encInt false 4 p.channel_specific_word)
    (n + 8 + hdrLen align) ((PCM_bytes p).length + 1)
    (by
      have := flatMap_length_ge slotBytes p.minor_frames (by
        intro f hx
        rw [slotBytes_length, frameBytes_length f (hf f hx).1.2.1]; omega)
      simp only [PCM_bytes, List.length_append, encInt_length]; omega)
    (by omega)
    (by
      intro f hx
      obtain ⟨hw, ha, hn, hk⟩ := hf f hx
      refine ⟨hw, by rw [frameBytes_length f hw.2.1, hn, ha], by rw [← ha]; exact hk, by simp [pcmProto, Frame.fresh, ha], ?_⟩
      rw [← ha]; exact fresh_eq_frame _ f hw)
    (by simp [pcmProto, Frame.fresh])
  have hdec' : decFrames (Frame.fresh t.ipts_source false align) false (n + 8 + hdrLen align) (PCM_bytes p)
      ((PCM_bytes p).length + 1) 4 = .ok p.minor_frames := by
    rw [ho]; simpa [PCM_bytes, pcmProto] using hdec
  simp only [Packet.unpack, hcsw, hthr, hal, Bool.false_eq_true, if_false, hs, hhl, hreq, hdec', PCM_decoded]

/-- packed-mode round trip: the same minor frames in the same order with the same time stamps, data
    headers and data bytes, for both alignments and every frame size (the fill byte after odd
    frames is skipped); the decoder's prior contents do not matter; re-encoding gives the same bytes -/
theorem PCM_roundtrip (p t : Packet) (n : Nat) (h : PCM_WF p n) (ho : t.ipts_source = p.ipts_source)
    (hs : t.assigned = some n) :
    ∃ b, p.pack = .ok b ∧
      Packet.unpack t b false = (PCM_decoded t p, .ok ()) ∧
      (Packet.unpack t b false).1.pack = .ok b := by
  refine ⟨PCM_bytes p, PCM_pack_eq p n h, PCM_unpack_bytes p t n h ho hs, ?_⟩
  rw [PCM_unpack_bytes p t n h ho hs]
  have h' : PCM_WF (PCM_decoded t p) n := by
    obtain ⟨h1, h2, hf⟩ := h
    exact ⟨h1, h2, fun f hx => by simpa [PCM_decoded, ho] using hf f hx⟩
  rw [PCM_pack_eq _ n h']
  rfl

/-- a payload assembled through `append()` is accepted by a decoder that knows the frame size -/
theorem PCM_append_accepted (src : Option Nat) (n csw : Nat) (fs : List Frame) (t : Packet)
    (h : PCM_WF { Packet.fresh src Option.none (some n) with channel_specific_word := csw, minor_frames := fs } n)
    (ho : t.ipts_source = src) (hs : t.assigned = some n) :
    ∃ b, (fs.foldl Packet.append { Packet.fresh src Option.none (some n) with channel_specific_word := csw }).pack = .ok b ∧
      (Packet.unpack t b false).2 = .ok () ∧ (Packet.unpack t b false).1.minor_frames = fs := by
  have hfold : ∀ (fs : List Frame) (q : Packet), (fs.foldl Packet.append q) = { q with minor_frames := q.minor_frames ++ fs } := by
    intro fs
    induction fs with
    | nil => intro q; simp
    | cons f fs ih =>
      intro q
      simp only [List.foldl_cons]
      rw [ih (q.append f)]
      simp [Packet.append]
  rw [hfold]
  obtain ⟨b, h1, h2, _⟩ := PCM_roundtrip _ t n h (by simpa [Packet.fresh] using ho) hs
  refine ⟨b, by simpa [Packet.fresh] using h1, by rw [h2], by rw [h2]; rfl⟩

/-! ### throughput mode -/

/-- throughput mode: bit 20 of the channel-specific word set, one frame object holding the raw data
    (an even number of bytes: the stream is 16-bit aligned and an odd frame would get a fill byte) -/
def PCMT_WF (p : Packet) : Prop :=
  p.channel_specific_word < 2 ^ 32 ∧ (p.channel_specific_word / MODE_THROUGHPUT) % 2 = 1 ∧
  ∃ f, p.minor_frames = [f] ∧ f = { Frame.fresh (some 0) true ((p.channel_specific_word / MODE_ALIGNMENT) % 2) with data := f.data } ∧
    f.data.length % 2 = 0

/-- throughput round trip: channel-specific word then the data; decoded as one throughput frame with
    exactly the data -/
theorem PCMT_roundtrip (p t : Packet) (h : PCMT_WF p) :
    ∃ b d, p.minor_frames.map (·.data) = [d] ∧ p.pack = .ok b ∧
      b = Spec.Ch11.pcmPacket p.channel_specific_word [d] ∧
      Packet.unpack t b false = (PCM_decoded t p, .ok ()) := by
  obtain ⟨h1, h2, f, hfs, hf, hev⟩ := h
  have hc : Fits PCM_pack_fmt0.codes [p.channel_specific_word] := by
    simp [Fits, PCM_pack_fmt0, Code.bound]; omega
  have hfp : packFrame f = .ok f.data := by
    rw [hf]
    simp [packFrame, Frame.pack, Frame.fresh, hev]
  have hp : p.pack = .ok (encInt false 4 p.channel_specific_word ++ f.data) := by
    simp only [Packet.pack, structPack_eq _ _ hc, hfs, packList, hfp]
    simp [PCM_pack_fmt0, encCodes, Code.size]
  refine ⟨_, f.data, by simp [hfs], hp, by simp [Spec.Ch11.pcmPacket, encInt], ?_⟩
  have hcsw : structUnpackFrom PCM_unpack_fmt0 (encInt false 4 p.channel_specific_word ++ f.data) 0 =
      .ok [p.channel_specific_word] := by
    simp only [structUnpackFrom, PCM_unpack_fmt0, Fmt.size, codesSize, Code.size, List.length_append,
      encInt_length, unpackCodes, List.drop_zero, take_encInt_append]
    rw [decInt_encInt4 _ _ (by omega)]
    simp
  have hthr : decide (p.channel_specific_word / MODE_THROUGHPUT % 2 = 1) = true := by simp [h2]
  simp only [Packet.unpack, hcsw, hthr, if_true, drop_encInt_append]
  simp only [Frame.unpack, Frame.fresh, if_true, DEFAULT_IPTS_SOURCE]
  simp only [PCM_decoded, hfs]
  rw [hf]
  simp [Frame.fresh]

example : PCM_WF ⟨0x200000, some 1, some 3, Option.none, Option.none,
    [⟨.ptp 7 8, false, some 0xFFFFFFFF, [1, 2, 3], 1, Option.none, Option.none⟩]⟩ 3 := by
  refine ⟨by simp, by simp [MODE_THROUGHPUT], ?_⟩
  intro f hf
  simp only [List.mem_cons, List.mem_nil_iff, or_false] at hf
  subst hf
  simp [Frame_WF, Frame.fresh, Ipts_WF, hdrLen, MODE_ALIGNMENT, pcmProto, sameKind, TS_CH4]

example : PCMT_WF ⟨0x100000, some 0, Option.none, Option.none, Option.none,
    [⟨.none, true, Option.none, [0x6B, 0xFE, 0x40, 0x28], 0, Option.none, Option.none⟩]⟩ := by
  refine ⟨by simp, by simp [MODE_THROUGHPUT], _, rfl, ?_, by simp⟩
  simp [Frame.fresh, MODE_ALIGNMENT]

/-! ### review additions (rev1-C04) -/

/-- the packet layout with every frame in its declarative form (`PCM_pack_layout` is phrased with the
    helper `slotBytes`; composing with `PCMFrame_pack_layout` removes it from the statement); the
    data-header width is the one selected by bit 21 of the channel-specific word.
    (`f.hdr.getD 0`: `PCM_WF` demands `f.hdr = some _`, the default is never used.) -/
theorem PCM_pack_layout_spec (p : Packet) (n : Nat) (h : PCM_WF p n) :
    p.pack = .ok (Spec.Ch11.pcmPacket p.channel_specific_word (p.minor_frames.map fun f =>
      Spec.Ch11.pcmFrame (toSpec f.ipts) (decide ((p.channel_specific_word / MODE_ALIGNMENT) % 2 = 1))
        (f.hdr.getD 0) f.data)) := by
  have e : p.minor_frames.map slotBytes = p.minor_frames.map (fun f =>
      Spec.Ch11.pcmFrame (toSpec f.ipts) (decide ((p.channel_specific_word / MODE_ALIGNMENT) % 2 = 1))
        (f.hdr.getD 0) f.data) := by
    apply List.map_congr_left
    intro f hf
    have h1 := packFrame_eq f (h.2.2 f hf).1
    have h2 := PCMFrame_pack_layout f (h.2.2 f hf).1
    rw [h1, (h.2.2 f hf).2.1] at h2
    exact Except.ok.inj h2
  rw [← e]
  exact PCM_pack_layout p n h

/-- `PCM_roundtrip` with the helper `PCM_decoded` unfolded: accepted; the decoded frame list IS the
    encoder's (same frames, same order: time stamps, data headers, data bytes, no sync word / SFID);
    the channel-specific word is the encoder's; the three codec options of the decoder are untouched
    and the detected size is reset -/
theorem PCM_roundtrip_fields (p t : Packet) (n : Nat) (h : PCM_WF p n) (ho : t.ipts_source = p.ipts_source)
    (hs : t.assigned = some n) :
    ∃ b, p.pack = .ok b ∧ (Packet.unpack t b false).2 = .ok () ∧
      (Packet.unpack t b false).1.minor_frames = p.minor_frames ∧
      (Packet.unpack t b false).1.channel_specific_word = p.channel_specific_word ∧
      (Packet.unpack t b false).1.ipts_source = t.ipts_source ∧ (Packet.unpack t b false).1.assigned = t.assigned ∧
      (Packet.unpack t b false).1.syncword = t.syncword ∧ (Packet.unpack t b false).1.detected = Option.none := by
  obtain ⟨b, h1, h2, _⟩ := PCM_roundtrip p t n h ho hs
  exact ⟨b, h1, by rw [h2], by rw [h2]; rfl, by rw [h2]; rfl, by rw [h2]; rfl, by rw [h2]; rfl, by rw [h2]; rfl,
    by rw [h2]; rfl⟩

/-- `PCM_append_accepted` for a builder created with ANY sync-word / size options (the encoder never
    looks at them; only the decoder needs the frame size) -/
theorem PCM_append_accepted_anyopts (src : Option Nat) (sw sz : Option Nat) (n csw : Nat) (fs : List Frame) (t : Packet)
    (h : PCM_WF { Packet.fresh src sw sz with channel_specific_word := csw, minor_frames := fs } n)
    (ho : t.ipts_source = src) (hs : t.assigned = some n) :
    ∃ b, (fs.foldl Packet.append { Packet.fresh src sw sz with channel_specific_word := csw }).pack = .ok b ∧
      (Packet.unpack t b false).2 = .ok () ∧ (Packet.unpack t b false).1.minor_frames = fs := by
  have hfold : ∀ (fs : List Frame) (q : Packet), (fs.foldl Packet.append q) = { q with minor_frames := q.minor_frames ++ fs } := by
    intro fs
    induction fs with
    | nil => intro q; simp
    | cons f fs ih =>
      intro q
      simp only [List.foldl_cons]
      rw [ih (q.append f)]
      simp [Packet.append]
  rw [hfold]
  obtain ⟨b, h1, h2, _⟩ := PCM_roundtrip _ t n h (by simpa [Packet.fresh] using ho) hs
  refine ⟨b, by simpa [Packet.fresh] using h1, by rw [h2], by rw [h2]; rfl⟩

/-- joint witness for `PCMFrame_roundtrip` (`h`, `ht`, `hk`, `ha` together): 32-bit alignment, widest
    data header, odd data, decoded into an object that held a sync word and other data -/
example : let f : Frame := ⟨.ptp 7 8, false, some 0xFFFFFFFF, [1, 2, 3], 1, Option.none, Option.none⟩
    let t : Frame := ⟨.ptp 0 1, false, some 5, [9], 1, some 0xFE6B2840, some 2⟩
    Frame_WF f ∧ t.throughput = false ∧ sameKind t.ipts f.ipts ∧ t.alignment = f.alignment := by
  simp [Frame_WF, Ipts_WF, hdrLen, sameKind]

/-- joint witness for `PCM_roundtrip` (`h`, `ho`, `hs` together): two RTC-stamped 16-bit-aligned frames
    of 3 data bytes (odd: each is followed by a fill byte), decoder in a non-trivial prior state;
    the theorem instantiated -/
example : ∃ b, (⟨0x7, some 0, Option.none, Option.none, Option.none,
      [⟨.rtc 1, false, some 0xFFFF, [1, 2, 3], 0, Option.none, Option.none⟩,
       ⟨.rtc 0xFFFFFFFFFFFF, false, some 0, [4, 5, 6], 0, Option.none, Option.none⟩]⟩ : Packet).pack = .ok b ∧
    (Packet.unpack ⟨0x300000, some 0, some 3, some 44, some 5, [Frame.fresh Option.none true 1]⟩ b false).2 = .ok () ∧
    (Packet.unpack ⟨0x300000, some 0, some 3, some 44, some 5, [Frame.fresh Option.none true 1]⟩ b false).1.minor_frames =
      [⟨.rtc 1, false, some 0xFFFF, [1, 2, 3], 0, Option.none, Option.none⟩,
       ⟨.rtc 0xFFFFFFFFFFFF, false, some 0, [4, 5, 6], 0, Option.none, Option.none⟩] := by
  obtain ⟨b, h1, h2, h3, _⟩ := PCM_roundtrip_fields
    (⟨0x7, some 0, Option.none, Option.none, Option.none,
      [⟨.rtc 1, false, some 0xFFFF, [1, 2, 3], 0, Option.none, Option.none⟩,
       ⟨.rtc 0xFFFFFFFFFFFF, false, some 0, [4, 5, 6], 0, Option.none, Option.none⟩]⟩ : Packet)
    ⟨0x300000, some 0, some 3, some 44, some 5, [Frame.fresh Option.none true 1]⟩ 3
    (by
      refine ⟨by simp, by simp [MODE_THROUGHPUT], ?_⟩
      intro f hf
      simp only [List.mem_cons, List.mem_nil_iff, or_false] at hf
      rcases hf with h | h <;> subst h <;>
        simp [Frame_WF, Frame.fresh, Ipts_WF, hdrLen, MODE_ALIGNMENT, pcmProto, sameKind, TS_CH4])
    rfl rfl
  exact ⟨b, h1, h2, h3⟩

/-- joint witness for `PCM_append_accepted` (`h` on the `fresh`-shaped packet, `ho`, `hs` together): the
    theorem instantiated -/
example : ∃ b, (([⟨.ptp 7 8, false, some 0xFFFFFFFF, [1, 2, 3], 1, Option.none, Option.none⟩,
                  ⟨.ptp 7 9, false, some 1, [4, 5, 6], 1, Option.none, Option.none⟩] : List Frame).foldl Packet.append
      { Packet.fresh (some 1) Option.none (some 3) with channel_specific_word := 0x200000 }).pack = .ok b ∧
    (Packet.unpack (Packet.fresh (some 1) Option.none (some 3)) b false).2 = .ok () ∧
    (Packet.unpack (Packet.fresh (some 1) Option.none (some 3)) b false).1.minor_frames =
      [⟨.ptp 7 8, false, some 0xFFFFFFFF, [1, 2, 3], 1, Option.none, Option.none⟩,
       ⟨.ptp 7 9, false, some 1, [4, 5, 6], 1, Option.none, Option.none⟩] :=
  PCM_append_accepted (some 1) 3 0x200000 _ (Packet.fresh (some 1) Option.none (some 3))
    (by
      refine ⟨by simp, by simp [MODE_THROUGHPUT], ?_⟩
      intro f hf
      simp only [List.mem_cons, List.mem_nil_iff, or_false] at hf
      rcases hf with h | h <;> subst h <;>
        simp [Frame_WF, Frame.fresh, Ipts_WF, hdrLen, MODE_ALIGNMENT, pcmProto, sameKind, TS_CH4, Packet.fresh])
    rfl rfl

/-- outside `PCMT_WF` (why it demands an even number of data bytes): throughput mode has no length
    field, so the fill byte `pack` appends after an odd frame comes back as data -/
example : ∃ b, (⟨0x100000, some 0, Option.none, Option.none, Option.none,
      [⟨.none, true, Option.none, [1, 2, 3], 0, Option.none, Option.none⟩]⟩ : Packet).pack = .ok b ∧
    (Packet.unpack (Packet.fresh (some 0) Option.none Option.none) b false).1.minor_frames.map (·.data) = [[1, 2, 3, 0]] := by
  refine ⟨_, rfl, ?_⟩
  decide

/-- outside `PCM_roundtrip` (why the decoder must be told the frame size, hypothesis `hs`): without a
    size and without a sync word the decoder takes the whole payload as ONE frame — two frames of
    2 data bytes come back as one frame of 14 -/
example : ∃ b, (⟨0, some 0, Option.none, Option.none, Option.none,
      [⟨.rtc 1, false, some 0, [1, 2], 0, Option.none, Option.none⟩,
       ⟨.rtc 2, false, some 0, [3, 4], 0, Option.none, Option.none⟩]⟩ : Packet).pack = .ok b ∧
    (Packet.unpack (Packet.fresh (some 0) Option.none Option.none) b false).1.minor_frames.map (·.data.length) = [14] := by
  refine ⟨_, rfl, ?_⟩
  decide

/-- `PCMFrame_slot_even` is a statement about the helper `slotBytes`; this is the same fact about the
    code's own `packFrame` (frame + fill byte), for EVERY frame it manages to encode — no `Frame_WF`,
    sync word / SFID attributes and throughput frames included -/
theorem PCMFrame_slot_even_model (f : Frame) (b : Bytes) (h : packFrame f = .ok b) : b.length % 2 = 0 := by
  have hz : structPack PCM_pack_fmt1 [PCM_DATA_FRAME_FILL] = .ok [0] := rfl
  unfold packFrame at h
  cases hp : f.pack with
  | error e => simp [hp] at h
  | ok x =>
    simp only [hp, hz] at h
    by_cases hodd : x.length % 2 = 1
    · simp [hodd] at h
      subst h; simp; omega
    · simp [hodd] at h
      subst h; omega

/-- the decoder as the class constructs it by default (NO frame size, no sync word): a packed-mode
    packet holding ONE minor frame whose size needs no fill byte is decoded to exactly that frame, and
    `minor_frame_size_bytes` reports its data size.  (`PCM_roundtrip` needs the size hint `hs`; with
    several frames, or an odd frame, the hint-less decoder returns something else — examples above
    and in notes/ch11.md.) -/
theorem PCM_roundtrip_single_nohint (p t : Packet) (f : Frame) (n : Nat) (h : PCM_WF p n) (hone : p.minor_frames = [f])
    (heven : (n + hdrLen ((p.channel_specific_word / MODE_ALIGNMENT) % 2)) % 2 = 0)
    (ho : t.ipts_source = p.ipts_source) (hs : t.assigned = Option.none) (hsync : t.syncword = Option.none) :
    ∃ b, p.pack = .ok b ∧ (Packet.unpack t b false).2 = .ok () ∧
      (Packet.unpack t b false).1.minor_frames = [f] ∧
      (Packet.unpack t b false).1.channel_specific_word = p.channel_specific_word ∧
      (Packet.unpack t b false).1.mfsb = some (n : Int) := by
  refine ⟨PCM_bytes p, PCM_pack_eq p n h, ?_⟩
  have hgiven := PCM_unpack_bytes p { t with assigned := some n } n h ho rfl
  obtain ⟨h1, h2, hf⟩ := h
  have hcsw : structUnpackFrom PCM_unpack_fmt0 (PCM_bytes p) 0 = .ok [p.channel_specific_word] := by
    simp only [PCM_bytes, structUnpackFrom, PCM_unpack_fmt0, Fmt.size, codesSize, Code.size, List.length_append,
      encInt_length, unpackCodes, List.drop_zero, take_encInt_append]
    rw [decInt_encInt4 _ _ (by omega)]
    simp
  have hthr : decide (p.channel_specific_word / MODE_THROUGHPUT % 2 = 1) = false := by simp [h2]
  have hfw := hf f (by simp [hone])
  generalize hal : p.channel_specific_word / MODE_ALIGNMENT % 2 = align at hf heven hgiven hfw
  have hal2 : align < 2 := by omega
  have hhl : (if align = ALIGN_16b then DATA_HEADER_LEN_16 else DATA_HEADER_LEN_32) = hdrLen align := by
    have : align = 0 ∨ align = 1 := by omega
    rcases this with h | h <;> subst h <;> rfl
  have hlen : (PCM_bytes p).length = 4 + (n + 8 + hdrLen align) := by
    simp only [PCM_bytes, hone, List.flatMap_cons, List.flatMap_nil, List.append_nil, List.length_append, encInt_length,
      slotBytes_length, frameBytes_length f hfw.1.2.1, hfw.2.1, hfw.2.2.1]
    omega
  have hdet : detect t (PCM_bytes p) (hdrLen align) = .ok (n : Int) := by
    simp only [detect, hsync, hlen, TS_LEN]
    congr 1
    omega
  simp only [Packet.unpack, hcsw, hthr, hal, Bool.false_eq_true, if_false, hhl] at hgiven ⊢
  simp only [hs, hdet]
  revert hgiven
  cases hd : decFrames (Frame.fresh t.ipts_source false align) false ((n : Int) + TS_LEN + hdrLen align).toNat (PCM_bytes p)
      ((PCM_bytes p).length + 1) 4 with
  | error e => simp [PCM_decoded]
  | ok fs =>
    intro hg
    simp only [Prod.mk.injEq, and_true] at hg
    have : fs = p.minor_frames := by
      have := congrArg Packet.minor_frames hg
      simpa [PCM_decoded] using this
    simp [Packet.mfsb, this, hone]

/-- joint witness for `PCM_roundtrip_single_nohint`, decoder = `PCMDataPacket()` as constructed -/
example : ∃ b, (⟨0, some 0, Option.none, Option.none, Option.none,
      [⟨.rtc 1, false, some 7, [1, 2, 3, 4], 0, Option.none, Option.none⟩]⟩ : Packet).pack = .ok b ∧
    (Packet.unpack (Packet.fresh (some 0) Option.none Option.none) b false).2 = .ok () ∧
    (Packet.unpack (Packet.fresh (some 0) Option.none Option.none) b false).1.minor_frames =
      [⟨.rtc 1, false, some 7, [1, 2, 3, 4], 0, Option.none, Option.none⟩] := by
  obtain ⟨b, h1, h2, h3, _⟩ := PCM_roundtrip_single_nohint
    (⟨0, some 0, Option.none, Option.none, Option.none,
      [⟨.rtc 1, false, some 7, [1, 2, 3, 4], 0, Option.none, Option.none⟩]⟩ : Packet)
    (Packet.fresh (some 0) Option.none Option.none) _ 4
    (by
      refine ⟨by simp, by simp [MODE_THROUGHPUT], ?_⟩
      intro f hf
      simp only [List.mem_cons, List.mem_nil_iff, or_false] at hf
      subst hf
      simp [Frame_WF, Frame.fresh, Ipts_WF, hdrLen, MODE_ALIGNMENT, pcmProto, sameKind, TS_CH4])
    rfl (by decide) rfl rfl rfl
  exact ⟨b, h1, h2, h3⟩

end Acra.Props.C04
