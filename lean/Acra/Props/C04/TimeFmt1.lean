import Acra.Lemmas.Ch11TimeFmt
import Acra.Lemmas.ReviewC04Calendar
import Acra.Spec.Ch11
namespace Acra.Props.C04
open Acra.Py Acra.Model.Ch11Pay.TimeFmt Acra.Gen.Ch11TimeFmt Acra.Lemmas.Ch11Calendar Acra.Lemmas.Ch11TimeFmt
open Acra.Props.C15 (bcd_inverse bcd_byte bcd_year)

/-- the civil date of second `n` of the Unix era, as the model computes it -/
def civil (n : Nat) : Nat × Nat × Nat := civilFromDays (n / 86400 + EPOCH)

/-- the first second of the year that contains second `n` -/
def startOfYear (n : Nat) : Nat := 86400 * (daysFromCivil (civil n).1 1 1 - EPOCH)

/-- the object holds second `n` of 1970-01-01 00:00:00 … 2099-12-31 23:59:59, nanoseconds below 10^9 and
    a 32-bit channel-specific word -/
def TDF1_WF (st : State1) (n : Nat) : Prop :=
  st.seconds = (n : Int) ∧ st.channel_specific_data < 2 ^ 32 ∧ n < 86400 * DAYS ∧ st.nanoseconds < 10 ^ 9

theorem spec_byte (v : Nat) : UInt8.ofNat (Spec.Ch11.bcdByte v) = UInt8.ofNat (bcd2 v % 256) := by
  have := bcd_byte v
  rw [Nat.mod_eq_of_lt this]
  simp [Spec.Ch11.bcdByte, bcd2, Nat.add_comm]

/-- what `pack()` emits, day-month-year variant -/
def dmyBytes (st : State1) (n : Nat) : Bytes :=
  encInt false 4 st.channel_specific_data ++ bytes8 (bcd2 (st.nanoseconds / 10000000)) (bcd2 (n % 86400 % 60))
    (bcd2 (n % 86400 / 60 % 60)) (bcd2 (n % 86400 / 3600)) (bcd2 (civil n).2.2) (bcd2 (civil n).2.1)
    (bcd2 ((civil n).1 % 100)) (bcd2 ((civil n).1 / 100))

/-- what `pack()` emits, day-of-year variant -/
def doyBytes (st : State1) (n : Nat) : Bytes :=
  encInt false 4 st.channel_specific_data ++ bytes6 (bcd2 (st.nanoseconds / 10000000)) (bcd2 (n % 86400 % 60))
    (bcd2 (n % 86400 / 60 % 60)) (bcd2 (n % 86400 / 3600))
    (bcd2 (dayOfYear (civil n).1 (civil n).2.1 (civil n).2.2 % 100)) (bcd2 (dayOfYear (civil n).1 (civil n).2.1 (civil n).2.2 / 100))

theorem TDF1_fromTimestamp (st : State1) (n : Nat) (h : TDF1_WF st n) :
    fromTimestamp st.seconds =
      .ok ((civil n).1, (civil n).2.1, (civil n).2.2, n % 86400 / 3600, n % 86400 / 60 % 60, n % 86400 % 60) := by
  obtain ⟨hs, _, h2, _⟩ := h
  have := fromTimestamp_eq n h2
  rw [hs]
  exact this

theorem TDF1_pack_dmy (st : State1) (n : Nat) (h : TDF1_WF st n) (hy : yearAvail st.channel_specific_data = true) :
    st.pack = .ok (dmyBytes st n) := by
  have hft := TDF1_fromTimestamp st n h
  obtain ⟨_, h1, _, _⟩ := h
  simp only [State1.pack, timeBytes, hft, hy, if_true, List.cons_append, List.nil_append]
  exact pack8 _ _ _ _ _ _ _ _ _ h1 (bcd_byte _) (bcd_byte _) (bcd_byte _) (bcd_byte _) (bcd_byte _) (bcd_byte _)
    (bcd_byte _) (bcd_byte _)

theorem TDF1_pack_doy (st : State1) (n : Nat) (h : TDF1_WF st n) (hy : yearAvail st.channel_specific_data = false) :
    st.pack = .ok (doyBytes st n) := by
  have hft := TDF1_fromTimestamp st n h
  obtain ⟨_, h1, _, _⟩ := h
  simp only [State1.pack, timeBytes, hft, hy, Bool.false_eq_true, if_false, List.cons_append, List.nil_append]
  exact pack6 _ _ _ _ _ _ _ h1 (bcd_byte _) (bcd_byte _) (bcd_byte _) (bcd_byte _) (bcd_byte _) (bcd_byte _)

/-- day-month-year variant (bit 9 of the channel-specific word set): `pack()` emits the CSW and the
    eight BCD bytes hundredths, seconds, minutes, hours, day, month, year (low pair, high pair) of the
    civil time of `seconds` -/
theorem TDF1_pack_layout_dmy (st : State1) (n : Nat) (h : TDF1_WF st n) (hy : yearAvail st.channel_specific_data = true) :
    st.pack = .ok (Spec.Ch11.time1DMY st.channel_specific_data (st.nanoseconds / 10000000) (n % 86400 % 60)
      (n % 86400 / 60 % 60) (n % 86400 / 3600) (civil n).2.2 (civil n).2.1 (civil n).1) := by
  rw [TDF1_pack_dmy st n h hy]
  simp [dmyBytes, Spec.Ch11.time1DMY, bytes8, encInt, leBytes, spec_byte]

/-- day-of-year variant (bit 9 clear): CSW and six BCD bytes, the last two carrying the day of the year -/
theorem TDF1_pack_layout_doy (st : State1) (n : Nat) (h : TDF1_WF st n) (hy : yearAvail st.channel_specific_data = false) :
    st.pack = .ok (Spec.Ch11.time1DOY st.channel_specific_data (st.nanoseconds / 10000000) (n % 86400 % 60)
      (n % 86400 / 60 % 60) (n % 86400 / 3600) (dayOfYear (civil n).1 (civil n).2.1 (civil n).2.2)) := by
  rw [TDF1_pack_doy st n h hy]
  simp [doyBytes, Spec.Ch11.time1DOY, bytes6, encInt, leBytes, spec_byte]

/-- time format 1 round trip, day-month-year variant: for every second of 1970-01-01 … 2099-12-31 and
    every nanosecond count, decoding what `pack()` emits — into an object in any prior state — gives
    the same channel-specific word, the same second, and the nanoseconds rounded down to 10 ms -/
theorem TDF1_roundtrip_dmy (st t : State1) (n : Nat) (h : TDF1_WF st n) (hy : yearAvail st.channel_specific_data = true) :
    ∃ b, st.pack = .ok b ∧
      State1.unpack t b = ({ st with nanoseconds := st.nanoseconds - st.nanoseconds % 10000000 }, .ok ()) := by
  refine ⟨dmyBytes st n, TDF1_pack_dmy st n h hy, ?_⟩
  obtain ⟨hs, h1, h2, h3⟩ := h
  have hf := day_facts n h2
  simp only at hf
  unfold dmyBytes civil
  generalize civilFromDays (n / 86400 + EPOCH) = c at hf ⊢
  obtain ⟨f1, f2, f3, f4, f5, f6, f7, f8, f9, f10⟩ := hf
  have hdim := daysInMonth_le c.1 c.2.1
  simp only [State1.unpack,
    unpack8_head _ _ _ _ _ _ _ _ _ h1 (bcd_byte _) (bcd_byte _) (bcd_byte _) (bcd_byte _),
    unpack8_tail _ _ _ _ _ _ _ _ _ (bcd_byte _) (bcd_byte _) (bcd_byte _) (bcd_byte _), hy, if_true]
  rw [bcd_inverse _ (show st.nanoseconds / 10000000 < 100 by omega), bcd_inverse _ (show n % 86400 % 60 < 100 by omega),
    bcd_inverse _ (show n % 86400 / 60 % 60 < 100 by omega), bcd_inverse _ (show n % 86400 / 3600 < 100 by omega),
    bcd_inverse _ (show c.2.2 < 100 by omega), bcd_inverse _ (show c.2.1 < 100 by omega)]
  have hyear : bcdToInt (bcd2 (c.1 % 100) + 256 * bcd2 (c.1 / 100)) = c.1 := by
    have := bcd_year (c.1 - 1970) (by omega)
    have e : 1970 + (c.1 - 1970) = c.1 := by omega
    rw [e] at this; exact this
  rw [hyear]
  have hvalid : validDate c.1 c.2.1 c.2.2 (n % 86400 / 3600) (n % 86400 / 60 % 60) (n % 86400 % 60) = true := by
    simp only [validDate, Bool.and_eq_true, decide_eq_true_eq]
    refine ⟨⟨⟨⟨⟨⟨⟨⟨?_, ?_⟩, ?_⟩, ?_⟩, ?_⟩, ?_⟩, ?_⟩, ?_⟩, ?_⟩ <;> omega
  simp only [hvalid, if_true, toTimestamp, f1]
  cases st
  simp only at hs ⊢
  subst hs
  simp only [Prod.mk.injEq, State1.mk.injEq, true_and, and_true]
  constructor
  · unfold EPOCH; omega
  · omega

/-- day-of-year variant: the format carries no year, so the decoded second is relative to the start
    of the year that contains the encoded second (the decoder's base year is 1970) -/
theorem TDF1_roundtrip_doy (st t : State1) (n : Nat) (h : TDF1_WF st n) (hy : yearAvail st.channel_specific_data = false) :
    ∃ b, st.pack = .ok b ∧
      State1.unpack t b = ({ st with seconds := ((n - startOfYear n : Nat) : Int),
                                     nanoseconds := st.nanoseconds - st.nanoseconds % 10000000 }, .ok ()) ∧
      startOfYear n ≤ n := by
  refine ⟨doyBytes st n, TDF1_pack_doy st n h hy, ?_⟩
  obtain ⟨hs, h1, h2, h3⟩ := h
  have hf := day_facts n h2
  simp only at hf
  unfold doyBytes startOfYear civil
  generalize civilFromDays (n / 86400 + EPOCH) = c at hf ⊢
  obtain ⟨f1, f2, f3, f4, f5, f6, f7, f8, f9, f10⟩ := hf
  have hdoy : dayOfYear c.1 c.2.1 c.2.2 = n / 86400 + EPOCH - daysFromCivil c.1 1 1 + 1 := by
    simp only [dayOfYear, f1]
  rw [hdoy]
  generalize hJ : daysFromCivil c.1 1 1 = J at *
  generalize hD : n / 86400 + EPOCH - J + 1 = D
  have hD1 : 1 ≤ D := by omega
  have hD2 : D ≤ 366 := by omega
  refine ⟨?_, by unfold EPOCH at *; omega⟩
  simp only [State1.unpack,
    unpack6_head _ _ _ _ _ _ _ h1 (bcd_byte _) (bcd_byte _) (bcd_byte _) (bcd_byte _),
    unpack6_tail _ _ _ _ _ _ _ (bcd_byte _) (bcd_byte _), hy, Bool.false_eq_true, if_false]
  rw [bcd_inverse _ (show st.nanoseconds / 10000000 < 100 by omega), bcd_inverse _ (show n % 86400 % 60 < 100 by omega),
    bcd_inverse _ (show n % 86400 / 60 % 60 < 100 by omega), bcd_inverse _ (show n % 86400 / 3600 < 100 by omega),
    bcd_inverse _ (show D % 100 < 100 by omega), bcd_inverse _ (show D / 100 < 100 by omega)]
  have hcond : (decide (n % 86400 / 3600 < 24) && decide (n % 86400 / 60 % 60 < 60) && decide (n % 86400 % 60 < 60) &&
      decide (1 ≤ D % 100 + 100 * (D / 100)) && decide (D % 100 + 100 * (D / 100) ≤ 366)) = true := by
    simp only [Bool.and_eq_true, decide_eq_true_eq]
    refine ⟨⟨⟨⟨?_, ?_⟩, ?_⟩, ?_⟩, ?_⟩ <;> omega
  simp only [hcond, if_true]
  cases st
  simp only [Prod.mk.injEq, State1.mk.injEq, true_and, and_true]
  constructor
  · unfold EPOCH at *; omega
  · omega

/-- the hypotheses are satisfiable: 2024-02-29 12:00:00 UTC, 123 456 789 ns, both variants -/
example : TDF1_WF ⟨0x251, 1709208000, 123456789⟩ 1709208000 ∧ yearAvail 0x251 = true ∧ yearAvail 0x51 = false ∧
    civil 1709208000 = (2024, 2, 29) := by
  refine ⟨⟨rfl, by simp, by simp [DAYS], by simp⟩, by decide, by decide, by decide⟩

/-- outside the statement: second 4102444800 is 2100-01-01 (still encodable — the model and the code
    agree on it — but beyond the range the calendar lemma was checked for) -/
example : civil 4102444800 = (2100, 1, 1) := by decide

/-! ### review additions (rev1-C04) -/
open Acra.Lemmas.ReviewC04Calendar

/-- joint witness for the day-of-year theorems (`h` and `hy` on the SAME object; the example above pairs
    `yearAvail 0x51 = false` with a state whose word is 0x251): 2024-02-29 12:00:00, day 60 of a leap year -/
example : TDF1_WF ⟨0x51, 1709208000, 999999999⟩ 1709208000 ∧ yearAvail (⟨0x51, 1709208000, 999999999⟩ : State1).channel_specific_data = false ∧
    dayOfYear 2024 2 29 = 60 := by
  refine ⟨⟨rfl, by simp, by simp [DAYS], by simp⟩, by decide, by decide⟩

/-- anchors of `civil` at both ends of the range and on the leap days the Gregorian exceptions decide -/
example : civil 0 = (1970, 1, 1) ∧ civil 86399 = (1970, 1, 1) ∧ civil 86400 = (1970, 1, 2) ∧
    civil 951782400 = (2000, 2, 29) ∧ civil 4102444799 = (2099, 12, 31) ∧ civil 68169600 = (1972, 2, 29) ∧
    civil 68256000 = (1972, 3, 1) := by decide

/-- the layout and round-trip theorems above speak of `civil n`, the MODEL's date of second `n`.  This
    ties it to the calendar itself: for every second of 1970-01-01 … 2099-12-31 the date is valid
    (month 1…12, day 1…length of that month under the Gregorian leap rule) and its textbook day count
    — 365 per year passed since 1970, one more per leap year passed, the days of the months passed,
    the day of the month — is `n / 86400`.  (The textbook count is strictly increasing on valid dates,
    so this determines `civil n`.) -/
theorem TDF1_civil_gregorian (n : Nat) (h : n < 86400 * DAYS) :
    1970 ≤ (civil n).1 ∧ (civil n).1 ≤ 2099 ∧ 1 ≤ (civil n).2.1 ∧ (civil n).2.1 ≤ 12 ∧ 1 ≤ (civil n).2.2 ∧
    (civil n).2.2 ≤ daysInMonth (civil n).1 (civil n).2.1 ∧
    n / 86400 = 365 * ((civil n).1 - 1970) + leapsBefore ((civil n).1 - 1970) +
      cumDays (isLeap (civil n).1) (civil n).2.1 + ((civil n).2.2 - 1) := by
  have hf := day_facts n h
  have hg := civil_gregorian n h
  simp only at hf hg
  unfold civil
  exact ⟨hf.2.1, hf.2.2.1, hf.2.2.2.1, hf.2.2.2.2.1, hf.2.2.2.2.2.1, hf.2.2.2.2.2.2.1, hg.1⟩

/-- what `TDF1_roundtrip_doy` subtracts: `startOfYear n` is second 0 of 1 January of the year that
    contains `n` (textbook count), it is not after `n` and less than 366 days before it — so the
    decoded value is the time elapsed since the start of the year, below 366 days -/
theorem TDF1_startOfYear (n : Nat) (h : n < 86400 * DAYS) :
    startOfYear n = 86400 * (365 * ((civil n).1 - 1970) + leapsBefore ((civil n).1 - 1970)) ∧
    startOfYear n ≤ n ∧ n < startOfYear n + 366 * 86400 := by
  unfold startOfYear civil
  exact yearStart_facts n h

/-- day-of-year variant, year 1970 (the decoder's base year): a true round trip — the same second
    comes back, nanoseconds to 10 ms.  For later years the format has lost the year
    (`TDF1_roundtrip_doy`, `TDF1_startOfYear`). -/
theorem TDF1_roundtrip_doy_1970 (st t : State1) (n : Nat) (h : TDF1_WF st n)
    (hy : yearAvail st.channel_specific_data = false) (h70 : n < 365 * 86400) :
    ∃ b, st.pack = .ok b ∧
      State1.unpack t b = ({ st with nanoseconds := st.nanoseconds - st.nanoseconds % 10000000 }, .ok ()) := by
  obtain ⟨b, h1, h2, _⟩ := TDF1_roundtrip_doy st t n h hy
  refine ⟨b, h1, ?_⟩
  rw [h2]
  have e : startOfYear n = 0 := by
    unfold startOfYear civil
    rw [yearStart_1970 n h70, Nat.sub_self]
  rw [e, Nat.sub_zero, ← h.1]

/-- joint witness for `TDF1_roundtrip_doy_1970`: 1970-12-31 23:59:59.99 -/
example : TDF1_WF ⟨0x51, 31535999, 999999999⟩ 31535999 ∧ yearAvail (⟨0x51, 31535999, 999999999⟩ : State1).channel_specific_data = false ∧
    31535999 < 365 * 86400 := by
  refine ⟨⟨rfl, by simp, by simp [DAYS], by simp⟩, by decide, by decide⟩

/-- the year IS lost after 1970: second 31536000 (1971-01-01 00:00:00) is in range and its start of year is itself -/
example : startOfYear 31536000 = 31536000 := by decide

end Acra.Props.C04
