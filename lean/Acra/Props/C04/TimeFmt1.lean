import Acra.Lemmas.Ch11TimeFmt
import Acra.Spec.Ch11
namespace Acra.Props.C04
open Acra.Py Acra.Model.Ch11Pay.TimeFmt Acra.Gen.Ch11TimeFmt Acra.Lemmas.Ch11Calendar Acra.Lemmas.Ch11TimeFmt
open Acra.Props.C15 (bcd_inverse bcd_byte bcd_year)

/-- the civil date of second `n` of the Unix era, as the model computes it -/
def civil (n : Nat) : Nat × Nat × Nat := civilFromDays (n / 86400 + EPOCH)

/-- the first second of the year that contains second `n` -/
def startOfYear (n : Nat) : Nat := 86400 * (daysFromCivil (civil n).1 1 1 - EPOCH)

/-- the object holds second `n` of 1970-01-01 00:00:00 … 2099-12-31 23:59:59, nanoseconds below 10^9 and
    a 32-bit channel-specific word -/
def TDF1_WF (st : State1) (n : Nat) : Prop :=
  st.seconds = (n : Int) ∧ st.channel_specific_data < 2 ^ 32 ∧ n < 86400 * DAYS ∧ st.nanoseconds < 10 ^ 9

theorem spec_byte (v : Nat) : UInt8.ofNat (Spec.Ch11.bcdByte v) = UInt8.ofNat (bcd2 v % 256) := by
  have := bcd_byte v
  rw [Nat.mod_eq_of_lt this]
  simp [Spec.Ch11.bcdByte, bcd2, Nat.add_comm]

/-- what `pack()` emits, day-month-year variant -/
def dmyBytes (st : State1) (n : Nat) : Bytes :=
  encInt false 4 st.channel_specific_data ++ bytes8 (bcd2 (st.nanoseconds / 10000000)) (bcd2 (n % 86400 % 60))
    (bcd2 (n % 86400 / 60 % 60)) (bcd2 (n % 86400 / 3600)) (bcd2 (civil n).2.2) (bcd2 (civil n).2.1)
    (bcd2 ((civil n).1 % 100)) (bcd2 ((civil n).1 / 100))

/-- what `pack()` emits, day-of-year variant -/
def doyBytes (st : State1) (n : Nat) : Bytes :=
  encInt false 4 st.channel_specific_data ++ bytes6 (bcd2 (st.nanoseconds / 10000000)) (bcd2 (n % 86400 % 60))
    (bcd2 (n % 86400 / 60 % 60)) (bcd2 (n % 86400 / 3600))
    (bcd2 (dayOfYear (civil n).1 (civil n).2.1 (civil n).2.2 % 100)) (bcd2 (dayOfYear (civil n).1 (civil n).2.1 (civil n).2.2 / 100))

theorem TDF1_fromTimestamp (st : State1) (n : Nat) (h : TDF1_WF st n) :
    fromTimestamp st.seconds =
      .ok ((civil n).1, (civil n).2.1, (civil n).2.2, n % 86400 / 3600, n % 86400 / 60 % 60, n % 86400 % 60) := by
  obtain ⟨hs, _, h2, _⟩ := h
  have := fromTimestamp_eq n h2
  rw [hs]
  exact this

theorem TDF1_pack_dmy (st : State1) (n : Nat) (h : TDF1_WF st n) (hy : yearAvail st.channel_specific_data = true) :
    st.pack = .ok (dmyBytes st n) := by
  have hft := TDF1_fromTimestamp st n h
  obtain ⟨_, h1, _, _⟩ := h
  simp only [State1.pack, timeBytes, hft, hy, if_true, List.cons_append, List.nil_append]
  exact pack8 _ _ _ _ _ _ _ _ _ h1 (bcd_byte _) (bcd_byte _) (bcd_byte _) (bcd_byte _) (bcd_byte _) (bcd_byte _)
    (bcd_byte _) (bcd_byte _)

theorem TDF1_pack_doy (st : State1) (n : Nat) (h : TDF1_WF st n) (hy : yearAvail st.channel_specific_data = false) :
    st.pack = .ok (doyBytes st n) := by
  have hft := TDF1_fromTimestamp st n h
  obtain ⟨_, h1, _, _⟩ := h
  simp only [State1.pack, timeBytes, hft, hy, Bool.false_eq_true, if_false, List.cons_append, List.nil_append]
  exact pack6 _ _ _ _ _ _ _ h1 (bcd_byte _) (bcd_byte _) (bcd_byte _) (bcd_byte _) (bcd_byte _) (bcd_byte _)

/-- day-month-year variant (bit 9 of the channel-specific word set): `pack()` emits the CSW and the
    eight BCD bytes hundredths, seconds, minutes, hours, day, month, year (low pair, high pair) of the
    civil time of `seconds` -/
theorem TDF1_pack_layout_dmy (st : State1) (n : Nat) (h : TDF1_WF st n) (hy : yearAvail st.channel_specific_data = true) :
    st.pack = .ok (Spec.Ch11.time1DMY st.channel_specific_data (st.nanoseconds / 10000000) (n % 86400 % 60)
      (n % 86400 / 60 % 60) (n % 86400 / 3600) (civil n).2.2 (civil n).2.1 (civil n).1) := by
  rw [TDF1_pack_dmy st n h hy]
  simp [dmyBytes, Spec.Ch11.time1DMY, bytes8, encInt, leBytes, spec_byte]

/-- day-of-year variant (bit 9 clear): CSW and six BCD bytes, the last two carrying the day of the year -/
theorem TDF1_pack_layout_doy (st : State1) (n : Nat) (h : TDF1_WF st n) (hy : yearAvail st.channel_specific_data = false) :
    st.pack = .ok (Spec.Ch11.time1DOY st.channel_specific_data (st.nanoseconds / 10000000) (n % 86400 % 60)
      (n % 86400 / 60 % 60) (n % 86400 / 3600) (dayOfYear (civil n).1 (civil n).2.1 (civil n).2.2)) := by
  rw [TDF1_pack_doy st n h hy]
  simp [doyBytes, Spec.Ch11.time1DOY, bytes6, encInt, leBytes, spec_byte]

/-- time format 1 round trip, day-month-year variant: for every second of 1970-01-01 … 2099-12-31 and
    every nanosecond count, decoding what `pack()` emits — into an object in any prior state — gives
    the same channel-specific word, the same second, and the nanoseconds rounded down to 10 ms -/
theorem TDF1_roundtrip_dmy (st t : State1) (n : Nat) (h : TDF1_WF st n) (hy : yearAvail st.channel_specific_data = true) :
    ∃ b, st.pack = .ok b ∧
      State1.unpack t b = ({ st with nanoseconds := st.nanoseconds - st.nanoseconds % 10000000 }, .ok ()) := by
  refine ⟨dmyBytes st n, TDF1_pack_dmy st n h hy, ?_⟩
  obtain ⟨hs, h1, h2, h3⟩ := h
  have hf := day_facts n h2
  simp only at hf
  unfold dmyBytes civil
  generalize civilFromDays (n / 86400 + EPOCH) = c at hf ⊢
  obtain ⟨f1, f2, f3, f4, f5, f6, f7, f8, f9, f10⟩ := hf
  have hdim := daysInMonth_le c.1 c.2.1
  simp only [State1.unpack,
    unpack8_head _ _ _ _ _ _ _ _ _ h1 (bcd_byte _) (bcd_byte _) (bcd_byte _) (bcd_byte _),
    unpack8_tail _ _ _ _ _ _ _ _ _ (bcd_byte _) (bcd_byte _) (bcd_byte _) (bcd_byte _), hy, if_true]
  rw [bcd_inverse _ (show st.nanoseconds / 10000000 < 100 by omega), bcd_inverse _ (show n % 86400 % 60 < 100 by omega),
    bcd_inverse _ (show n % 86400 / 60 % 60 < 100 by omega), bcd_inverse _ (show n % 86400 / 3600 < 100 by omega),
    bcd_inverse _ (show c.2.2 < 100 by omega), bcd_inverse _ (show c.2.1 < 100 by omega)]
  have hyear : bcdToInt (bcd2 (c.1 % 100) + 256 * bcd2 (c.1 / 100)) = c.1 := by
    have := bcd_year (c.1 - 1970) (by omega)
    have e : 1970 + (c.1 - 1970) = c.1 := by omega
    rw [e] at this; exact this
  rw [hyear]
  have hvalid : validDate c.1 c.2.1 c.2.2 (n % 86400 / 3600) (n % 86400 / 60 % 60) (n % 86400 % 60) = true := by
    simp only [validDate, Bool.and_eq_true, decide_eq_true_eq]
    refine ⟨⟨⟨⟨⟨⟨⟨⟨?_, ?_⟩, ?_⟩, ?_⟩, ?_⟩, ?_⟩, ?_⟩, ?_⟩, ?_⟩ <;> omega
  simp only [hvalid, if_true, toTimestamp, f1]
  cases st
  simp only at hs ⊢
  subst hs
  simp only [Prod.mk.injEq, State1.mk.injEq, true_and, and_true]
  constructor
  · unfold EPOCH; omega
  · omega

/-- day-of-year variant: the format carries no year, so the decoded second is relative to the start
    of the year that contains the encoded second (the decoder's base year is 1970) -/
theorem TDF1_roundtrip_doy (st t : State1) (n : Nat) (h : TDF1_WF st n) (hy : yearAvail st.channel_specific_data = false) :
    ∃ b, st.pack = .ok b ∧
      State1.unpack t b = ({ st with seconds := ((n - startOfYear n : Nat) : Int),
                                     nanoseconds := st.nanoseconds - st.nanoseconds % 10000000 }, .ok ()) ∧
      startOfYear n ≤ n := by
  refine ⟨doyBytes st n, TDF1_pack_doy st n h hy, ?_⟩
  obtain ⟨hs, h1, h2, h3⟩ := h
  have hf := day_facts n h2
  simp only at hf
  unfold doyBytes startOfYear civil
  generalize civilFromDays (n / 86400 + EPOCH) = c at hf ⊢
  obtain ⟨f1, f2, f3, f4, f5, f6, f7, f8, f9, f10⟩ := hf
  have hdoy : dayOfYear c.1 c.2.1 c.2.2 = n / 86400 + EPOCH - daysFromCivil c.1 1 1 + 1 := by
    simp only [dayOfYear, f1]
  rw [hdoy]
  generalize hJ : daysFromCivil c.1 1 1 = J at *
  generalize hD : n / 86400 + EPOCH - J + 1 = D
  have hD1 : 1 ≤ D := by omega
  have hD2 : D ≤ 366 := by omega
  refine ⟨?_, by unfold EPOCH at *; omega⟩
  simp only [State1.unpack,
    unpack6_head _ _ _ _ _ _ _ h1 (bcd_byte _) (bcd_byte _) (bcd_byte _) (bcd_byte _),
    unpack6_tail _ _ _ _ _ _ _ (bcd_byte _) (bcd_byte _), hy, Bool.false_eq_true, if_false]
  rw [bcd_inverse _ (show st.nanoseconds / 10000000 < 100 by omega), bcd_inverse _ (show n % 86400 % 60 < 100 by omega),
    bcd_inverse _ (show n % 86400 / 60 % 60 < 100 by omega), bcd_inverse _ (show n % 86400 / 3600 < 100 by omega),
    bcd_inverse _ (show D % 100 < 100 by omega), bcd_inverse _ (show D / 100 < 100 by omega)]
  have hcond : (decide (n % 86400 / 3600 < 24) && decide (n % 86400 / 60 % 60 < 60) && decide (n % 86400 % 60 < 60) &&
      decide (1 ≤ D % 100 + 100 * (D / 100)) && decide (D % 100 + 100 * (D / 100) ≤ 366)) = true := by
    simp only [Bool.and_eq_true, decide_eq_true_eq]
    refine ⟨⟨⟨⟨?_, ?_⟩, ?_⟩, ?_⟩, ?_⟩ <;> omega
  simp only [hcond, if_true]
  cases st
  simp only [Prod.mk.injEq, State1.mk.injEq, true_and, and_true]
  constructor
  · unfold EPOCH at *; omega
  · omega

/-- the hypotheses are satisfiable: 2024-02-29 12:00:00 UTC, 123 456 789 ns, both variants -/
example : TDF1_WF ⟨0x251, 1709208000, 123456789⟩ 1709208000 ∧ yearAvail 0x251 = true ∧ yearAvail 0x51 = false ∧
    civil 1709208000 = (2024, 2, 29) := by
  refine ⟨⟨rfl, by simp, by simp [DAYS], by simp⟩, by decide, by decide, by decide⟩

/-- outside the statement: second 4102444800 is 2100-01-01 (still encodable — the model and the code
    agree on it — but beyond the range the calendar lemma was checked for) -/
example : civil 4102444800 = (2100, 1, 1) := by decide

end Acra.Props.C04
