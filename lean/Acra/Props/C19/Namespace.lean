/-
  C19: the deprecated `AcraNetwork.Chapter10` package is the same code as `AcraNetwork.IRIG106`.
  The "code" is the binding structure, which harness/extract.py reads from the SOURCE TEXT of the legacy
  modules with `ast` on every run and emits as the finite tables of `Acra.Gen.Namespace`; the
  quantifier "all legacy module paths × all public names" IS that finite table, so the statements are
  decided by evaluation.  (The runtime half — `getattr(legacy, n) is getattr(new, n)` in a fresh
  interpreter, DeprecationWarning only — is the correspondence check.)
-/
import Acra.Gen.Namespace
import Acra.Spec.Ch10
namespace Acra.Props.C19
open Acra.Gen.Namespace Acra

def lookup {β} (k : String) (l : List (String × β)) : Option β := (l.find? (fun p => p.1 == k)).map (·.2)

/-- one top-level statement of legacy module `L` is of an allowed kind -/
def stmtAllowed (L : String) (st : String × String × List String) : Bool :=
  let (k, m, ns) := st
  if k == "star" || k == "names" then Spec.Namespace.expectedTarget L == some m
  else if k == "import" then m == "warnings" || (m == "struct" && L == "AcraNetwork.Chapter10.Chapter10")
  else if k == "warn" then m == "DeprecationWarning"
  else if k == "class" then L == "AcraNetwork.Chapter10.Chapter10" && m == "Chapter10" && ns == ["Chapter11"]
  else false

/-- every top-level statement of every legacy module is `from <its IRIG106 counterpart> import …`,
    `import warnings` (`struct` in Chapter10.py), the single `warnings.warn(<str>, DeprecationWarning)`, or
    — in Chapter10.py only — `class Chapter10(Chapter11)` -/
theorem only_deprecation : legacy.all (fun (L, stmts) => stmts.all (stmtAllowed L)) = true := by decide

/-- every legacy module has a counterpart, re-exports from it exactly once and warns exactly once -/
theorem one_reexport_one_warning :
    legacy.all (fun (L, stmts) =>
      (Spec.Namespace.expectedTarget L).isSome &&
      (stmts.filter (fun st => st.1 == "star" || st.1 == "names")).length == 1 &&
      (stmts.filter (fun st => st.1 == "warn")).length == 1) = true := by decide

/-- the public names a legacy module binds, with the module each comes from (`none` = bound locally) -/
def bindings (stmts : List (String × String × List String)) : List (String × Option String) :=
  stmts.flatMap fun (k, m, ns) =>
    if k == "star" then ((lookup m targetPublic).getD []).map (fun n => (n, some m))
    else if k == "names" then ns.map (fun n => (n, some m))
    else if k == "import" then ns.map (fun n => (n, none))
    else if k == "class" then [(m, none)]
    else []

/-- same objects: every public name of every legacy module is bound by an import from the module's IRIG106
    counterpart and is a public name of that counterpart — except `warnings` (and `struct`, itself a public
    name of the counterpart, in Chapter10.py) and the class `Chapter10` -/
theorem same_objects :
    legacy.all (fun (L, stmts) => (bindings stmts).all (fun (n, origin) =>
      match origin with
      | some m => Spec.Namespace.expectedTarget L == some m && ((lookup m targetPublic).getD []).contains n
      | none => Spec.Namespace.allowedExtra.contains n ||
                (L == "AcraNetwork.Chapter10.Chapter10" &&
                  (n == "Chapter10" || ((lookup "AcraNetwork.IRIG106.Chapter11" targetPublic).getD []).contains n)))) = true := by
  decide

/-- a star import of a module that could not be read would make the statement above vacuous: every module a
    legacy module imports from has a non-empty table of public names -/
theorem targets_known :
    legacy.all (fun (_, stmts) => stmts.all (fun (k, m, _) =>
      !(k == "star" || k == "names") || !((lookup m targetPublic).getD []).isEmpty)) = true := by decide

/-- the module paths of the deprecated package are exactly the ones the mapping names (both directions) -/
theorem modules_complete :
    (legacy.map (·.1)).all (fun L => (Spec.Namespace.expectedTarget L).isSome) = true ∧
    Spec.Namespace.targets.all (fun p => (legacy.map (·.1)).contains p.1) = true := by decide

/-- `class Chapter10(Chapter11)`: every constant it restates has the same source text as in `Chapter11` -/
theorem chapter10_constants :
    chapter10Assigns.all (fun (n, v) => lookup n chapter11Assigns == some v) = true := by decide

/-- … it has `Chapter11` as its only base and defines nothing but those constants (no method overrides) -/
theorem no_overrides : chapter10Bases = ["Chapter11"] ∧ chapter10Others = [] := by decide

/-- (added by the rev2 review) non-vacuity of the `List.all` statements above: the generated tables are not empty — a
    translator that silently read nothing would make every one of them true.  There are as many legacy modules as the
    (hand-written) mapping names, every one binds at least one name from its counterpart, and `Chapter10` restates at
    least one constant -/
theorem tables_nonempty :
    legacy.length = Spec.Namespace.targets.length ∧ 0 < legacy.length ∧
    legacy.all (fun (_, stmts) => (bindings stmts).any (fun b => b.2.isSome)) = true ∧
    0 < chapter10Assigns.length := by decide

end Acra.Props.C19
