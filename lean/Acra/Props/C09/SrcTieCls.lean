import Acra.Gen.Src.Cls.iNetX
import Acra.Model.iNetX
import Acra.Lemmas.SrcTieCls
import Acra.Props.C09.iNetX
import Acra.Props.C01.SrcTieCls
namespace Acra.Props.C09
open Acra Acra.Py Acra.Lemmas.SrcTieCls

/-! Method source ties (C09): the acceptance check of `iNetX.unpack` AS WRITTEN TODAY (regenerated from the Python
    source by `harness/translate_methods.py` on every run) is exact. -/

/-- the result of `iNetX.unpack` (accepted / which exception) does not depend on the object it is called on, and is
    the model's for every buffer -/
theorem src_iNetX_unpack_result (o : Gen.Src.Cls.iNetX.Obj) (t : Model.iNetX.State) (buf : Bytes) :
    (Gen.Src.Cls.iNetX.unpack o buf).2 = (Model.iNetX.unpack t buf).2.map (fun _ => true) := by
  have h1 : (Gen.Src.Cls.iNetX.unpack o buf).2 = (Gen.Src.Cls.iNetX.unpack (iNetX.ofModel t) buf).2 := by
    unfold Gen.Src.Cls.iNetX.unpack
    split
    · rfl
    · split
      · rfl
      · dsimp only; split <;> rfl
  rw [h1, C01.src_iNetX_unpack_of]

/-- the source accepts a buffer exactly when it holds a whole header and the big-endian length word at bytes 12..15
    equals the real buffer length (every object, every buffer) -/
theorem src_iNetX_accepts_iff (o : Gen.Src.Cls.iNetX.Obj) (buf : Bytes) :
    (Gen.Src.Cls.iNetX.unpack o buf).2 = .ok true ↔ 28 ≤ buf.length ∧ beNat (slice buf 12 16) = buf.length := by
  rw [src_iNetX_unpack_result o Model.iNetX.fresh buf, ← iNetX_accepts_iff Model.iNetX.fresh buf]
  cases (Model.iNetX.unpack Model.iNetX.fresh buf).2 <;> simp [Except.map]

/-- and a buffer it does not accept is rejected with an exception (never `False`, never a silent truncation) -/
theorem src_iNetX_rejects (o : Gen.Src.Cls.iNetX.Obj) (buf : Bytes)
    (h : ¬ (28 ≤ buf.length ∧ beNat (slice buf 12 16) = buf.length)) :
    ∃ e, (Gen.Src.Cls.iNetX.unpack o buf).2 = .error e := by
  have h2 := mt (src_iNetX_accepts_iff o buf).1 h
  rw [src_iNetX_unpack_result o Model.iNetX.fresh buf] at h2 ⊢
  cases hr : (Model.iNetX.unpack Model.iNetX.fresh buf).2 with
  | error e => exact ⟨e, rfl⟩
  | ok u => rw [hr] at h2; simp [Except.map] at h2

example : ¬ (28 ≤ ([1, 2, 3] : Bytes).length ∧ beNat (slice ([1, 2, 3] : Bytes) 12 16) = ([1, 2, 3] : Bytes).length) := by
  decide

end Acra.Props.C09
