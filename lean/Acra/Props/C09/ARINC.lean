import Acra.Lemmas.Ch11ARINC
namespace Acra.Props.C09
open Acra.Py Acra.Model.Ch11Pay Acra.Model.Ch11Pay.ARINC Acra.Gen.Ch11ARINC Acra.Lemmas.Ch11ARINC

/-- ARINC-429 format 0: a buffer is accepted exactly when it holds the 4-byte channel-specific word
    and the declared message count (bytes 0..1, little-endian) equals the number of whole 8-byte
    words that follow — for every buffer and every prior state of the receiving object -/
theorem ARINC_accepts_iff (t : Packet) (buf : Bytes) :
    (Packet.unpack t buf).2 = .ok () ↔ 4 ≤ buf.length ∧ leNat (buf.take 2) = (buf.length - 4) / 8 := by
  by_cases h4 : 4 ≤ buf.length
  · obtain ⟨ws, hws, hl, _⟩ := decWords_ok buf ((buf.length - 4) / 8) 0 (by omega)
    simp only [Packet.unpack, structUnpackFrom, PKT_unpack_fmt0, Fmt.size, codesSize, Code.size, Nat.zero_add,
      Nat.add_zero, h4, if_true, unpackCodes, List.drop_zero, decInt, Bool.false_eq_true, if_false, hws, hl, true_and]
    split <;> simp_all
  · simp only [Packet.unpack, structUnpackFrom, PKT_unpack_fmt0, Fmt.size, codesSize, Code.size, Nat.zero_add,
      Nat.add_zero, h4, if_false, false_and]
    simp

/-- accepted ⇒ nothing truncated or padded: as many words as declared, each with its full 4 data bytes -/
theorem ARINC_accepted_exact (t : Packet) (buf : Bytes) (h : (Packet.unpack t buf).2 = .ok ()) :
    (Packet.unpack t buf).1.arincwords.length = (Packet.unpack t buf).1.msgcount ∧
    (Packet.unpack t buf).1.msgcount = (buf.length - 4) / 8 ∧
    ∀ w ∈ (Packet.unpack t buf).1.arincwords, w.payload.length = 4 := by
  have h4 : 4 ≤ buf.length := ((ARINC_accepts_iff t buf).1 h).1
  obtain ⟨ws, hws, hl, hp⟩ := decWords_ok buf ((buf.length - 4) / 8) 0 (by omega)
  revert h
  simp only [Packet.unpack, structUnpackFrom, PKT_unpack_fmt0, Fmt.size, codesSize, Code.size, Nat.zero_add,
    Nat.add_zero, h4, if_true, unpackCodes, List.drop_zero, hws]
  split
  · simp
  · rename_i hc
    intro _
    simp only [ne_eq, Decidable.not_not] at hc
    exact ⟨hc.symm, by dsimp only; omega, hp⟩

/-- rejection is an exception (`struct.error` for a missing header, `Exception` for a count mismatch) -/
example : (Packet.unpack Packet.fresh [2, 0, 0, 0, 0, 0, 0, 0, 0, 0, 0, 0]).2 = .error .generic := by rfl

/-- review witnesses: one declared word with its 8 bytes present (and two declared, 16 present) accepted with as many
    words returned; one declared with 16 present, one declared with 7 present, a 3-byte buffer: rejected -/
example : (Packet.unpack Packet.fresh [1, 0, 0, 0, 1, 2, 3, 4, 5, 6, 7, 8]).2 = .ok () ∧
    (Packet.unpack Packet.fresh [1, 0, 0, 0, 1, 2, 3, 4, 5, 6, 7, 8]).1.arincwords.length = 1 := ⟨rfl, rfl⟩
example : (Packet.unpack Packet.fresh [2, 0, 0, 0, 1, 2, 3, 4, 5, 6, 7, 8, 9, 10, 11, 12, 13, 14, 15, 16]).2 = .ok () ∧
    (Packet.unpack Packet.fresh [2, 0, 0, 0, 1, 2, 3, 4, 5, 6, 7, 8, 9, 10, 11, 12, 13, 14, 15, 16]).1.arincwords.length = 2 :=
  ⟨rfl, rfl⟩
example : (Packet.unpack Packet.fresh [1, 0, 0, 0, 1, 2, 3, 4, 5, 6, 7, 8, 9, 10, 11, 12, 13, 14, 15, 16]).2 =
    .error .generic := by rfl
example : (Packet.unpack Packet.fresh [1, 0, 0, 0, 1, 2, 3, 4, 5, 6, 7]).2 = .error .generic := by rfl
example : (Packet.unpack Packet.fresh [1, 0, 0]).2 = .error .struct := by rfl
/-- observation: up to 7 stray bytes after the last whole word are accepted and ignored (the count compared is
    `(len − 4) / 8`, rounded down) -/
example : (Packet.unpack Packet.fresh [1, 0, 0, 0, 1, 2, 3, 4, 5, 6, 7, 8, 9, 9, 9]).2 = .ok () := by rfl

end Acra.Props.C09
