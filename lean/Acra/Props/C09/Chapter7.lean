/-
  C09 — accept / reject boundaries of the golay7 family, exact over ALL buffers:
  Golay.decode(bytes) wants exactly 3 bytes; PTDP.unpack wants 6 header bytes, a declared length
  ≤ 2048 and the declared body present (three distinct rejections, in that order); PTFR.unpack wants
  the 4 header bytes and a payload no longer than the object's `length`.
  `ptdpDeclared b` is the length the (Golay-corrected) header words of `b` declare.
-/
import Acra.Lemmas.Chapter7
namespace Acra.Props.C09
open Acra.Py Acra.Model Acra.Model.Chapter7 Acra.Lemmas.Chapter7 Acra.Lemmas.Golay

theorem Golay_bytes3_iff (b : Bytes) : (Golay.decodeBytes b).isOk = true ↔ b.length = 3 := by
  by_cases h : b.length = 3
  · simp [decodeBytes_gval b h, h, R.isOk]
  · simp [decodeBytes_bad b h, h, R.isOk]

/-- the rejection is the bare `Exception`, never a truncated or padded decode -/
theorem Golay_bytes3_reject (b : Bytes) (h : b.length ≠ 3) : Golay.decodeBytes b = .error .generic :=
  decodeBytes_bad b h

/-- rejection 1: fewer than 6 bytes → PTDPRemainingData -/
theorem PTDP_short_header (t : PTDP.State) (b : Bytes) (h : b.length < 6) :
    (PTDP.unpack t b).2 = .error .ptdpRemaining := by
  rw [ptdp_unpack_short t b h]

/-- rejection 2: declared length above 2048 → PTDPLengthError (whatever follows) -/
theorem PTDP_length_error (t : PTDP.State) (b : Bytes) (h : 6 ≤ b.length) (hd : 2048 < ptdpDeclared b) :
    (PTDP.unpack t b).2 = .error .ptdpLength := by
  rw [ptdp_unpack_any t b h]
  unfold ptdpCore ptdpDeclared at *
  simp only [Acra.Gen.Chapter7.PTDP_MAX_LEN, gt_iff_lt, hd, if_true]

/-- rejection 3: body shorter than declared → PTDPRemainingData -/
theorem PTDP_short_body (t : PTDP.State) (b : Bytes) (h : 6 ≤ b.length) (hd : ptdpDeclared b ≤ 2048)
    (hb : b.length - 6 < ptdpDeclared b) : (PTDP.unpack t b).2 = .error .ptdpRemaining := by
  rw [ptdp_unpack_any t b h]
  unfold ptdpCore ptdpDeclared at *
  have h1 : ¬ (2048 < gval (slice b 3 6) + ((gval (slice b 0 3) &&& 0xF) <<< 12)) := by omega
  simp only [Acra.Gen.Chapter7.PTDP_MAX_LEN, gt_iff_lt, h1, if_false, List.length_drop, hb, if_true]

/-- acceptance, exactly -/
theorem PTDP_ok_iff (t : PTDP.State) (b : Bytes) :
    (PTDP.unpack t b).2.isOk = true ↔
      6 ≤ b.length ∧ ptdpDeclared b ≤ 2048 ∧ ptdpDeclared b ≤ b.length - 6 := by
  by_cases h : b.length < 6
  · rw [PTDP_short_header t b h]; simp only [R.isOk]; constructor
    · intro hh; cases hh
    · omega
  · by_cases hd : 2048 < ptdpDeclared b
    · rw [PTDP_length_error t b (by omega) hd]; simp only [R.isOk]; constructor
      · intro hh; cases hh
      · omega
    · by_cases hb : b.length - 6 < ptdpDeclared b
      · rw [PTDP_short_body t b (by omega) (by omega) hb]; simp only [R.isOk]; constructor
        · intro hh; cases hh
        · omega
      · rw [ptdp_unpack_any t b (by omega)]
        have hd' : ¬ (2048 < gval (slice b 3 6) + ((gval (slice b 0 3) &&& 0xF) <<< 12)) := hd
        have hb' : ¬ (b.length - 6 < gval (slice b 3 6) + ((gval (slice b 0 3) &&& 0xF) <<< 12)) := hb
        unfold ptdpCore
        simp only [Acra.Gen.Chapter7.PTDP_MAX_LEN, gt_iff_lt, hd', if_false, List.length_drop, hb', R.isOk,
          true_iff]
        exact ⟨by omega, by omega, by omega⟩

/-- an accepted PTDP is never truncated or padded: payload and remainder are exactly the declared bytes -/
theorem PTDP_accepted_exact (t : PTDP.State) (b rest : Bytes) (h : (PTDP.unpack t b).2 = .ok rest) :
    (PTDP.unpack t b).1.payload = slice b 6 (6 + ptdpDeclared b) ∧ rest = b.drop (6 + ptdpDeclared b) ∧
    (PTDP.unpack t b).1.length = ptdpDeclared b ∧ (PTDP.unpack t b).1.payload.length = ptdpDeclared b := by
  have hok := (PTDP_ok_iff t b).1 (by rw [h]; rfl)
  obtain ⟨h6, hd, hb⟩ := hok
  rw [ptdp_unpack_any t b h6] at h ⊢
  unfold ptdpCore ptdpDeclared at *
  have h1 : ¬ (2048 < gval (slice b 3 6) + ((gval (slice b 0 3) &&& 0xF) <<< 12)) := by omega
  have h2 : ¬ (b.length - 6 < gval (slice b 3 6) + ((gval (slice b 0 3) &&& 0xF) <<< 12)) := by omega
  simp only [Acra.Gen.Chapter7.PTDP_MAX_LEN, gt_iff_lt, h1, if_false, List.length_drop, h2,
    Except.ok.injEq] at h ⊢
  refine ⟨?_, ?_, ?_⟩
  · simp only [slice, List.take_drop]
  · rw [← h, List.drop_drop, Nat.add_comm]
  · refine ⟨trivial, ?_⟩
    rw [List.length_take, List.length_drop]
    exact Nat.min_eq_left hb

/-- PTFR.unpack accepts exactly the buffers with the 4 header bytes and a payload that fits `length` -/
theorem PTFR_ok_iff (t : PTFR.State) (b : Bytes) :
    (PTFR.unpack t b).2 = .ok () ↔ 4 ≤ b.length ∧ b.length - 4 ≤ t.length := by
  by_cases h0 : b.length = 0
  · have : b = [] := List.eq_nil_of_length_eq_zero h0
    subst this
    simp [PTFR.unpack, structUnpackFrom, Acra.Gen.Chapter7.PTFR_unpack_fmt0, Fmt.size, codesSize, Code.size]
  · by_cases h4 : b.length < 4
    · have hs : (slice b 1 4).length ≠ 3 := by simp; omega
      simp only [PTFR.unpack, structUnpackFrom, Acra.Gen.Chapter7.PTFR_unpack_fmt0, Fmt.size, codesSize,
        Code.size, unpackCodes, decodeBytes_bad _ hs]
      have : 0 + (1 + 0) ≤ b.length := by omega
      simp [this]; omega
    · have hb : b = beBytes 1 (decInt true (b.take 1)) ++ slice b 1 4 ++ b.drop 4 := by
        have e := encInt_decInt true (b.take 1)
        have l1 : (b.take 1).length = 1 := by simp; omega
        rw [l1] at e
        simp only [encInt, if_true] at e
        rw [e]
        simp only [slice]
        have h1 : List.take 1 b ++ List.drop 1 (List.take 4 b) = List.take 4 b := by
          have := List.take_append_drop 1 (List.take 4 b)
          rw [List.take_take] at this
          simpa using this
        rw [h1, List.take_append_drop]
      have hlt : decInt true (b.take 1) < 256 := by
        have := decInt_lt true (b.take 1)
        have l1 : (b.take 1).length = 1 := by simp; omega
        rw [l1] at this; simpa using this
      have hw : (slice b 1 4).length = 3 := by simp; omega
      rw [hb, ptfr_unpack_words t _ _ _ _ hlt hw (decodeBytes_gval _ hw), ← hb]
      simp only [ptfrCore, PTFR.setPayload, List.length_nil, Nat.add_zero, List.length_drop]
      by_cases hL : b.length - 4 > t.length
      · simp [hL]; omega
      · simp [hL]; omega

end Acra.Props.C09
