/-
  C09 — accept / reject boundaries of the golay7 family, exact over ALL buffers:
  Golay.decode(bytes) wants exactly 3 bytes; PTDP.unpack wants 6 header bytes, a declared length
  ≤ 2048 and the declared body present (three distinct rejections, in that order); PTFR.unpack wants
  the 4 header bytes and a payload no longer than the object's `length`.
  `ptdpDeclared b` is the length the (Golay-corrected) header words of `b` declare.
-/
import Acra.Lemmas.Chapter7
namespace Acra.Props.C09
open Acra.Py Acra.Model Acra.Model.Chapter7 Acra.Lemmas.Chapter7 Acra.Lemmas.Golay

theorem Golay_bytes3_iff (b : Bytes) : (Golay.decodeBytes b).isOk = true ↔ b.length = 3 := by
  by_cases h : b.length = 3
  · simp [decodeBytes_gval b h, h, R.isOk]
  · simp [decodeBytes_bad b h, h, R.isOk]

/-- the rejection is the bare `Exception`, never a truncated or padded decode -/
theorem Golay_bytes3_reject (b : Bytes) (h : b.length ≠ 3) : Golay.decodeBytes b = .error .generic :=
  decodeBytes_bad b h

/-- rejection 1: fewer than 6 bytes → PTDPRemainingData -/
theorem PTDP_short_header (t : PTDP.State) (b : Bytes) (h : b.length < 6) :
    (PTDP.unpack t b).2 = .error .ptdpRemaining := by
  rw [ptdp_unpack_short t b h]

/-- rejection 2: declared length above 2048 → PTDPLengthError (whatever follows) -/
theorem PTDP_length_error (t : PTDP.State) (b : Bytes) (h : 6 ≤ b.length) (hd : 2048 < ptdpDeclared b) :
    (PTDP.unpack t b).2 = .error .ptdpLength := by
  rw [ptdp_unpack_any t b h]
  unfold ptdpCore ptdpDeclared at *
  simp only [Acra.Gen.Chapter7.PTDP_MAX_LEN, gt_iff_lt, hd, if_true]

/-- rejection 3: body shorter than declared → PTDPRemainingData -/
theorem PTDP_short_body (t : PTDP.State) (b : Bytes) (h : 6 ≤ b.length) (hd : ptdpDeclared b ≤ 2048)
    (hb : b.length - 6 < ptdpDeclared b) : (PTDP.unpack t b).2 = .error .ptdpRemaining := by
  rw [ptdp_unpack_any t b h]
  unfold ptdpCore ptdpDeclared at *
  have h1 : ¬ (2048 < gval (slice b 3 6) + ((gval (slice b 0 3) &&& 0xF) <<< 12)) := by omega
  simp only [Acra.Gen.Chapter7.PTDP_MAX_LEN, gt_iff_lt, h1, if_false, List.length_drop, hb, if_true]

/-- acceptance, exactly -/
theorem PTDP_ok_iff (t : PTDP.State) (b : Bytes) :
    (PTDP.unpack t b).2.isOk = true ↔
      6 ≤ b.length ∧ ptdpDeclared b ≤ 2048 ∧ ptdpDeclared b ≤ b.length - 6 := by
  by_cases h : b.length < 6
  · rw [PTDP_short_header t b h]; simp only [R.isOk]; constructor
    · intro hh; cases hh
    · omega
  · by_cases hd : 2048 < ptdpDeclared b
    · rw [PTDP_length_error t b (by omega) hd]; simp only [R.isOk]; constructor
      · intro hh; cases hh
      · omega
    · by_cases hb : b.length - 6 < ptdpDeclared b
      · rw [PTDP_short_body t b (by omega) (by omega) hb]; simp only [R.isOk]; constructor
        · intro hh; cases hh
        · omega
      · rw [ptdp_unpack_any t b (by omega)]
        have hd' : ¬ (2048 < gval (slice b 3 6) + ((gval (slice b 0 3) &&& 0xF) <<< 12)) := hd
        have hb' : ¬ (b.length - 6 < gval (slice b 3 6) + ((gval (slice b 0 3) &&& 0xF) <<< 12)) := hb
        unfold ptdpCore
        simp only [Acra.Gen.Chapter7.PTDP_MAX_LEN, gt_iff_lt, hd', if_false, List.length_drop, hb', R.isOk,
          true_iff]
        exact ⟨by omega, by omega, by omega⟩

/-- an accepted PTDP is never truncated or padded: payload and remainder are exactly the declared bytes -/
theorem PTDP_accepted_exact (t : PTDP.State) (b rest : Bytes) (h : (PTDP.unpack t b).2 = .ok rest) :
    (PTDP.unpack t b).1.payload = slice b 6 (6 + ptdpDeclared b) ∧ rest = b.drop (6 + ptdpDeclared b) ∧
    (PTDP.unpack t b).1.length = ptdpDeclared b ∧ (PTDP.unpack t b).1.payload.length = ptdpDeclared b := by
  have hok := (PTDP_ok_iff t b).1 (by rw [h]; rfl)
  obtain ⟨h6, hd, hb⟩ := hok
  rw [ptdp_unpack_any t b h6] at h ⊢
  unfold ptdpCore ptdpDeclared at *
  have h1 : ¬ (2048 < gval (slice b 3 6) + ((gval (slice b 0 3) &&& 0xF) <<< 12)) := by omega
  have h2 : ¬ (b.length - 6 < gval (slice b 3 6) + ((gval (slice b 0 3) &&& 0xF) <<< 12)) := by omega
  simp only [Acra.Gen.Chapter7.PTDP_MAX_LEN, gt_iff_lt, h1, if_false, List.length_drop, h2,
    Except.ok.injEq] at h ⊢
  refine ⟨?_, ?_, ?_⟩
  · simp only [slice, List.take_drop]
  · rw [← h, List.drop_drop, Nat.add_comm]
  · refine ⟨trivial, ?_⟩
    rw [List.length_take, List.length_drop]
    exact Nat.min_eq_left hb

/-- PTFR.unpack accepts exactly the buffers with the 4 header bytes and a payload that fits `length` -/
theorem PTFR_ok_iff (t : PTFR.State) (b : Bytes) :
    (PTFR.unpack t b).2 = .ok () ↔ 4 ≤ b.length ∧ b.length - 4 ≤ t.length := by
  by_cases h0 : b.length = 0
  · have : b = [] := List.eq_nil_of_length_eq_zero h0
    subst this
    simp [PTFR.unpack, structUnpackFrom, Acra.Gen.Chapter7.PTFR_unpack_fmt0, Fmt.size, codesSize, Code.size]
  · by_cases h4 : b.length < 4
    · have hs : (slice b 1 4).length ≠ 3 := by simp; omega
      simp only [PTFR.unpack, structUnpackFrom, Acra.Gen.Chapter7.PTFR_unpack_fmt0, Fmt.size, codesSize,
        Code.size, unpackCodes, decodeBytes_bad _ hs]
      have : 0 + (1 + 0) ≤ b.length := by omega
      simp [this]; omega
    · have hb : b = beBytes 1 (decInt true (b.take 1)) ++ slice b 1 4 ++ b.drop 4 := by
        have e := encInt_decInt true (b.take 1)
        have l1 : (b.take 1).length = 1 := by simp; omega
        rw [l1] at e
        simp only [encInt, if_true] at e
        rw [e]
        simp only [slice]
        have h1 : List.take 1 b ++ List.drop 1 (List.take 4 b) = List.take 4 b := by
          have := List.take_append_drop 1 (List.take 4 b)
          rw [List.take_take] at this
          simpa using this
        rw [h1, List.take_append_drop]
      have hlt : decInt true (b.take 1) < 256 := by
        have := decInt_lt true (b.take 1)
        have l1 : (b.take 1).length = 1 := by simp; omega
        rw [l1] at this; simpa using this
      have hw : (slice b 1 4).length = 3 := by simp; omega
      rw [hb, ptfr_unpack_words t _ _ _ _ hlt hw (decodeBytes_gval _ hw), ← hb]
      simp only [ptfrCore, PTFR.setPayload, List.length_nil, Nat.add_zero, List.length_drop]
      by_cases hL : b.length - 4 > t.length
      · simp [hL]; omega
      · simp [hL]; omega

/-! ### review additions: `ptdpDeclared` tied to the wire layout; joint witnesses (kernel evaluation of the decode
    tables is too deep, so the witnesses are derived from the theorems above and the Golay correction lemma) -/

/-- `ptdpDeclared` (phrased with the model's Golay decoder) is the length field of the Chapter 7 layout: for a header
    whose two words carry `l` and `m` — each with up to three bit errors — it is `m + (l mod 16)·4096` -/
theorem ptdpDeclared_words (l m e1 e2 : Nat) (hl : l < 4096) (hm : m < 4096) (he1 : e1 < 2 ^ 24) (he2 : e2 < 2 ^ 24)
    (hw1 : wt e1 ≤ 3) (hw2 : wt e2 ≤ 3) (body : Bytes) :
    ptdpDeclared (noisyWord l e1 ++ noisyWord m e2 ++ body) = m + (l % 16) * 4096 := by
  have h1 : slice (noisyWord l e1 ++ noisyWord m e2 ++ body) 0 3 = noisyWord l e1 := by
    rw [List.append_assoc]; exact slice_front _ _ 3 (by simp)
  have h2 : slice (noisyWord l e1 ++ noisyWord m e2 ++ body) 3 6 = noisyWord m e2 := by
    rw [List.append_assoc, show (6 : Nat) = 3 + 3 from rfl, slice_after _ _ 3 3 (by simp)]
    simp
  have g1 : gval (noisyWord l e1) = l := by
    have h := decodeBytes_gval (noisyWord l e1) (by simp)
    rw [decode_noisyWord l e1 hl he1 hw1] at h
    exact (Except.ok.inj h).symm
  have g2 : gval (noisyWord m e2) = m := by
    have h := decodeBytes_gval (noisyWord m e2) (by simp)
    rw [decode_noisyWord m e2 hm he2 hw2] at h
    exact (Except.ok.inj h).symm
  unfold ptdpDeclared
  rw [h1, h2, g1, g2, and_f, shl]

example : ptdpDeclared (Spec.Golay.word 256 ++ Spec.Golay.word 3 ++ [1, 2, 3, 9]) = 3 := by
  rw [← noisyWord_zero_spec, ← noisyWord_zero_spec]
  exact ptdpDeclared_words 256 3 0 0 (by decide) (by decide) (by decide) (by decide) wt_zero_le wt_zero_le _

/-- the Spec's Golay words for 256 (content 4, fragment 0, length bits 15..12 = 0), 3, 2049, 2048 -/
theorem PTDP_witness_words (m : Nat) (w : Bytes) (hm : m < 4096) (hw : w = Spec.Golay.word m) (body : Bytes) :
    ptdpDeclared ([16, 7, 180] ++ w ++ body) = m := by
  have e : ([16, 7, 180] : Bytes) = noisyWord 256 0 := by rw [noisyWord_zero_spec]; decide
  rw [e, hw, ← noisyWord_zero_spec,
    ptdpDeclared_words 256 m 0 0 (by decide) hm (by decide) (by decide) wt_zero_le wt_zero_le]
  omega

/-- joint witnesses for the acceptance and the three rejections (header words from the Spec's Golay code):
    declared 3 with 4 body bytes → accepted, payload = exactly the 3 bytes, 1 byte left over;
    declared 3 with 2 body bytes → PTDPRemainingData; declared 2049 → PTDPLengthError; 5 bytes → PTDPRemainingData;
    declared 2048 does not trip the length check -/
theorem PTDP_witness_accept :
    (PTDP.unpack PTDP.fresh [16, 7, 180, 0, 49, 213, 1, 2, 3, 9]).2 = .ok [9] ∧
    (PTDP.unpack PTDP.fresh [16, 7, 180, 0, 49, 213, 1, 2, 3, 9]).1.payload = [1, 2, 3] := by
  have hd : ptdpDeclared [16, 7, 180, 0, 49, 213, 1, 2, 3, 9] = 3 :=
    PTDP_witness_words 3 [0, 49, 213] (by decide) (by decide) [1, 2, 3, 9]
  have hok := (PTDP_ok_iff PTDP.fresh [16, 7, 180, 0, 49, 213, 1, 2, 3, 9]).2
    ⟨by decide, by rw [hd]; decide, by rw [hd]; decide⟩
  cases hr : (PTDP.unpack PTDP.fresh [16, 7, 180, 0, 49, 213, 1, 2, 3, 9]).2 with
  | error e => rw [hr] at hok; cases hok
  | ok rest =>
    have hx := PTDP_accepted_exact PTDP.fresh _ rest hr
    rw [hd] at hx
    exact ⟨by rw [hx.2.1]; rfl, by rw [hx.1]; rfl⟩

theorem PTDP_witness_reject :
    (PTDP.unpack PTDP.fresh [16, 7, 180, 0, 49, 213, 1, 2]).2 = .error .ptdpRemaining ∧
    (PTDP.unpack PTDP.fresh ([16, 7, 180, 128, 20, 158] ++ List.replicate 2049 7)).2 = .error .ptdpLength ∧
    (PTDP.unpack PTDP.fresh [16, 7, 180, 0, 49]).2 = .error .ptdpRemaining ∧
    ptdpDeclared ([16, 7, 180, 128, 12, 117] ++ List.replicate 2048 7) = 2048 := by
  refine ⟨?_, ?_, ?_, ?_⟩
  · have hd : ptdpDeclared [16, 7, 180, 0, 49, 213, 1, 2] = 3 :=
      PTDP_witness_words 3 [0, 49, 213] (by decide) (by decide) [1, 2]
    exact PTDP_short_body _ _ (by decide) (by rw [hd]; decide) (by rw [hd]; decide)
  · have hd : ptdpDeclared ([16, 7, 180, 128, 20, 158] ++ List.replicate 2049 7) = 2049 :=
      PTDP_witness_words 2049 [128, 20, 158] (by decide) (by decide) _
    exact PTDP_length_error _ _ (by rw [List.length_append, List.length_replicate]; decide) (by rw [hd]; decide)
  · exact PTDP_short_header _ _ (by decide)
  · exact PTDP_witness_words 2048 [128, 12, 117] (by decide) (by decide) _

/-- PTFR / Golay-bytes witnesses through the iff theorems: a 4-byte payload into a frame object of length 4 accepted,
    a 5-byte payload rejected, a 3-byte buffer rejected; `Golay.decode` takes 3 bytes, not 2 or 4 -/
example : (PTFR.unpack { PTFR.fresh with length := 4 } [0x10, 0, 49, 213, 1, 2, 3, 4]).2 = .ok () :=
  (PTFR_ok_iff _ _).2 (by decide)
example : (PTFR.unpack { PTFR.fresh with length := 4 } [0x10, 0, 49, 213, 1, 2, 3, 4, 5]).2 ≠ .ok () :=
  fun h => absurd ((PTFR_ok_iff _ _).1 h) (by decide)
example : (PTFR.unpack { PTFR.fresh with length := 4 } [0x10, 0, 49]).2 ≠ .ok () :=
  fun h => absurd ((PTFR_ok_iff _ _).1 h) (by decide)
example : (Golay.decodeBytes [0, 49, 213]).isOk = true := (Golay_bytes3_iff _).2 rfl
example : Golay.decodeBytes [0, 49] = .error .generic ∧ Golay.decodeBytes [0, 49, 213, 0] = .error .generic :=
  ⟨Golay_bytes3_reject _ (by decide), Golay_bytes3_reject _ (by decide)⟩

end Acra.Props.C09
