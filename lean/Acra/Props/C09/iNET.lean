/-
  C09 for iNET and iNETPackage.  `iNET.unpack` checks "short buffer" (C09's list); `iNETPackage.unpack` checks
  that the declared package length is not below the 12-byte header but NOT that it lies inside the buffer
  (outside C09's list, DESIGN §12.4, notes/fti.md §4 F2).  What is proved about a package is therefore the exact
  closed form of what the code does with any declared length (`iNETPackage_unpack_payload`), the corollary
  "declared length within the buffer ⇒ payload of exactly the declared length" (`iNETPackage_exact`), and the
  exact acceptance condition of the whole message as a walk over the bytes (`iNET_accepts_iff`).
  `pkgDeclared`, `pkgAdvance`, `PkgOk`, `PkgWalk` are defined in Acra.Lemmas.iNETWalk.
-/
import Acra.Model.iNET
import Acra.Lemmas.Bits
import Acra.Lemmas.iNET
import Acra.Lemmas.iNETWalk
import Acra.Lemmas.iNETFits
import Acra.Lemmas.ReviewC09Loop
namespace Acra.Props.C09
open Acra.Py Acra.Model.iNET Acra.Gen.iNET Acra.Lemmas.Bits Acra.Lemmas.iNET Acra.Lemmas.Walk

/-- short buffer: anything shorter than the 24-byte header is rejected with ValueError and the object is untouched -/
theorem iNET_short_rejected (t : State) (buf : Bytes) (h : buf.length < 24) :
    unpack t buf = (t, .error .value) := by
  simp [unpack, INET_HEADER_LENGTH, h]

/-- the option word count the first byte declares -/
def declaredWc (buf : Bytes) : Nat := beNat (buf.take 1) % 16

/-- short buffer, the other direction: an accepted buffer holds the header and all the option words its
    first byte declares -/
theorem iNET_accepted_not_short (t : State) (buf : Bytes) (h : (unpack t buf).2 = .ok ()) :
    24 + 4 * declaredWc buf ≤ buf.length := by
  by_cases h24 : buf.length < 24
  · rw [iNET_short_rejected t buf h24] at h; simp at h
  · revert h
    have hh : ∃ ty fl di sq ln ps pn, structUnpackFrom INET_HEADER_FORMAT buf 0 =
        .ok [beNat (buf.take 1), ty, fl, di, sq, ln, ps, pn] := by
      simp only [structUnpackFrom, INET_HEADER_FORMAT, Fmt.size, codesSize, Code.size, unpackCodes, decInt, List.drop_zero]
      have : 0 + (1 + (1 + (2 + (4 + (4 + (4 + (4 + (4 + 0)))))))) ≤ buf.length := by omega
      simp only [this, if_true]
      exact ⟨_, _, _, _, _, _, _, rfl⟩
    obtain ⟨ty, fl, di, sq, ln, ps, pn, hh⟩ := hh
    simp only [unpack, INET_HEADER_LENGTH, h24, if_false, hh, and_F, declaredWc]
    generalize beNat (buf.take 1) % 16 = wc
    by_cases hwc : wc > 0
    · simp only [hwc, if_true]
      cases hu : structUnpackFrom (iNET_unpack_fmt0 wc) (List.drop 24 buf) 0 with
      | error e => simp
      | ok af =>
        intro _
        have := structUnpackFrom_ok_length _ _ _ _ hu
        have hs : (iNET_unpack_fmt0 wc).size = 4 * wc := by
          simp only [iNET_unpack_fmt0, Fmt.size, Lemmas.iNET.codesSize_replicate_u32]
        simp only [hs, List.length_drop] at this
        omega
    · intro _; omega

/-- the length a package header declares: big-endian 16 bits at bytes 4..5 -/
def declaredPkgLen (buf : Bytes) : Nat := beNat ((buf.drop 4).take 2)

theorem PKG_hdr (buf : Bytes) (h : 12 ≤ buf.length) :
    ∃ d r f t, structUnpackFrom PKG_FORMAT buf 0 = .ok [d, declaredPkgLen buf, r, f, t] := by
  simp only [structUnpackFrom, PKG_FORMAT, Fmt.size, codesSize, Code.size, unpackCodes, decInt, List.drop_zero,
    declaredPkgLen]
  have : 0 + (4 + (2 + (1 + (1 + (4 + 0))))) ≤ buf.length := by omega
  simp only [this, if_true]
  exact ⟨_, _, _, _, rfl⟩

/-- a package is accepted exactly when its 12-byte header is present and the declared length is at
    least the header's -/
theorem iNETPackage_ok_iff (t : Pkg) (buf : Bytes) :
    (∃ r, (Pkg.unpack t buf).2 = .ok r) ↔ 12 ≤ buf.length ∧ 12 ≤ declaredPkgLen buf := by
  by_cases h12 : 12 ≤ buf.length
  · obtain ⟨d, r, f, td, hh⟩ := PKG_hdr buf h12
    simp only [Pkg.unpack, hh, PKG_FORMAT_LEN, h12, true_and]
    by_cases hl : declaredPkgLen buf < 12
    · simp [hl]
    · simp [hl]; omega
  · have : structUnpackFrom PKG_FORMAT buf 0 = .error .struct := by
      simp only [structUnpackFrom, PKG_FORMAT, Fmt.size, codesSize, Code.size]
      have : ¬ (0 + (4 + (2 + (1 + (1 + (4 + 0))))) ≤ buf.length) := by omega
      simp [this]
    simp [Pkg.unpack, this, h12]

theorem declaredPkgLen_eq (buf : Bytes) : declaredPkgLen buf = pkgDeclared buf := rfl

/-- `iNETPackage.unpack`, exactly, for every buffer that holds the 12-byte header and EVERY declared length
    `d ≥ 12`: `_length` is `d` as declared (not rewritten); the payload is `buffer[12:d]`, i.e.
    `buffer[12 : min d len(buffer)]`, so it has `min d len(buffer) − 12` bytes; the rest returned is
    `buffer[roundUp4 d:]` (empty when `d` points past the end); the other fields are what the layout says. -/
theorem iNETPackage_unpack_payload (t : Pkg) (buf : Bytes) (h12 : 12 ≤ buf.length) (hl : 12 ≤ declaredPkgLen buf) :
    (Pkg.unpack t buf).1.length = declaredPkgLen buf ∧
    (Pkg.unpack t buf).1.payload = slice buf 12 (declaredPkgLen buf) ∧
    (Pkg.unpack t buf).1.payload = slice buf 12 (min (declaredPkgLen buf) buf.length) ∧
    (Pkg.unpack t buf).1.payload.length = min (declaredPkgLen buf) buf.length - 12 ∧
    (Pkg.unpack t buf).2 = .ok (buf.drop (roundUp4 (declaredPkgLen buf))) ∧
    (Pkg.unpack t buf).1.definitionID = beNat (buf.take 4) ∧
    (Pkg.unpack t buf).1.flags = beNat ((buf.drop 7).take 1) ∧
    (Pkg.unpack t buf).1.timedelta = beNat ((buf.drop 8).take 4) := by
  rw [Pkg_unpack_closed t buf h12 hl]
  refine ⟨rfl, rfl, ?_, ?_, rfl, rfl, rfl, rfl⟩
  · show slice buf 12 (pkgDeclared buf) = slice buf 12 (min (pkgDeclared buf) buf.length)
    simp only [slice]
    by_cases h : pkgDeclared buf ≤ buf.length
    · rw [Nat.min_eq_left h]
    · rw [Nat.min_eq_right (by omega), List.take_of_length_le (Nat.le_refl _), List.take_of_length_le (by omega)]
  · show (slice buf 12 (pkgDeclared buf)).length = _
    rw [slice_length]; rfl

/-- the whole result as one equation (object and rest), for any prior state `t` -/
theorem iNETPackage_unpack_closed (t : Pkg) (buf : Bytes) (h12 : 12 ≤ buf.length) (hl : 12 ≤ declaredPkgLen buf) :
    Pkg.unpack t buf = (pkgDecoded t buf, .ok (buf.drop (pkgAdvance buf))) :=
  Pkg_unpack_closed t buf h12 hl

/-- corollary: a declared length within the buffer (and not below the header's) gives a payload of exactly the
    declared length minus the header -/
theorem iNETPackage_exact (t : Pkg) (buf : Bytes) (hl : 12 ≤ declaredPkgLen buf) (hle : declaredPkgLen buf ≤ buf.length) :
    (Pkg.unpack t buf).1.payload = slice buf 12 (declaredPkgLen buf) ∧
    (Pkg.unpack t buf).1.payload.length = declaredPkgLen buf - 12 ∧
    (Pkg.unpack t buf).1.length = declaredPkgLen buf := by
  obtain ⟨h1, h2, _, h4, _⟩ := iNETPackage_unpack_payload t buf (by omega) hl
  refine ⟨h2, ?_, h1⟩
  rw [h4]; omega

/-- and only then: the payload of an accepted package has the declared length exactly when the declared
    length lies inside the buffer -/
theorem iNETPackage_exact_iff (t : Pkg) (buf : Bytes) (h12 : 12 ≤ buf.length) (hl : 12 ≤ declaredPkgLen buf) :
    (Pkg.unpack t buf).1.payload.length = declaredPkgLen buf - 12 ↔ declaredPkgLen buf ≤ buf.length := by
  rw [(iNETPackage_unpack_payload t buf h12 hl).2.2.2.1]
  omega

/-- the gap between `iNETPackage_unpack_payload` and "payload = declared − 12": a package declaring 100 bytes
    with none present is accepted -/
example : (Pkg.unpack Pkg.fresh [0, 0, 0, 1, 0, 100, 0, 0, 0, 0, 0, 0]).2 = .ok [] ∧
    (Pkg.unpack Pkg.fresh [0, 0, 0, 1, 0, 100, 0, 0, 0, 0, 0, 0]).1.payload = [] := ⟨rfl, rfl⟩

/-- non-vacuity of `iNETPackage_exact`: 14 declared, 16 present -/
example : 12 ≤ declaredPkgLen [0, 0, 0, 1, 0, 14, 0, 0, 0, 0, 0, 0, 7, 8, 0, 0] ∧
    declaredPkgLen [0, 0, 0, 1, 0, 14, 0, 0, 0, 0, 0, 0, 7, 8, 0, 0] ≤
      ([0, 0, 0, 1, 0, 14, 0, 0, 0, 0, 0, 0, 7, 8, 0, 0] : Bytes).length := by decide

/-- the package loop is the walk: `PkgWalk rem` holds when `rem` is empty, or the package at its front has a
    complete 12-byte header and declares at least 12 bytes, and the walk continues after the DECLARED length
    rounded up to four -/
theorem PkgWalk_iff (rem : Bytes) :
    PkgWalk rem ↔ rem = [] ∨ (PkgOk rem ∧ PkgWalk (rem.drop (pkgAdvance rem))) := by
  by_cases h : rem = []
  · subst h
    exact ⟨fun _ => Or.inl rfl, fun _ => .done⟩
  · rw [PkgWalk, walk_cons_iff _ _ _ h]
    simp [h]

/-- iNET accepts a buffer exactly when it holds the 24-byte header, all the option words its first byte
    declares, and every package met while walking the rest by the declared lengths has a complete header and
    declares at least 12 bytes.  (The message length field is never looked at: notes/fti.md §4 F2.) -/
theorem iNET_accepts_iff (t : State) (buf : Bytes) :
    (unpack t buf).2 = .ok () ↔
      24 + 4 * declaredWc buf ≤ buf.length ∧ PkgWalk (buf.drop (24 + 4 * declaredWc buf)) := by
  by_cases h24 : buf.length < 24
  · rw [iNET_short_rejected t buf h24]
    simp; omega
  · have hh : ∃ ty fl di sq ln ps pn, structUnpackFrom INET_HEADER_FORMAT buf 0 =
        .ok [beNat (buf.take 1), ty, fl, di, sq, ln, ps, pn] := by
      simp only [structUnpackFrom, INET_HEADER_FORMAT, Fmt.size, codesSize, Code.size, unpackCodes, decInt, List.drop_zero]
      have : 0 + (1 + (1 + (2 + (4 + (4 + (4 + (4 + (4 + 0)))))))) ≤ buf.length := by omega
      simp only [this, if_true]
      exact ⟨_, _, _, _, _, _, _, rfl⟩
    obtain ⟨ty, fl, di, sq, ln, ps, pn, hh⟩ := hh
    simp only [unpack, INET_HEADER_LENGTH, h24, if_false, hh, and_F, declaredWc]
    generalize beNat (buf.take 1) % 16 = wc
    have hwalk := decPkg_walk (buf.drop (24 + wc * 4))
    by_cases hwc : wc > 0
    · simp only [hwc, if_true]
      cases hu : structUnpackFrom (iNET_unpack_fmt0 wc) (List.drop 24 buf) 0 with
      | error e =>
        have := (structUnpackFrom_ok_iff (iNET_unpack_fmt0 wc) (List.drop 24 buf) 0)
        rw [hu] at this
        have hs : (iNET_unpack_fmt0 wc).size = 4 * wc := by
          simp only [iNET_unpack_fmt0, Fmt.size, Lemmas.iNET.codesSize_replicate_u32]
        simp only [hs, List.length_drop, R.isOk] at this
        simp only [reduceCtorEq, false_iff, not_and]
        intro hle
        exfalso
        have := this.2 (by omega)
        cases this
      | ok af =>
        have := structUnpackFrom_ok_length _ _ _ _ hu
        have hs : (iNET_unpack_fmt0 wc).size = 4 * wc := by
          simp only [iNET_unpack_fmt0, Fmt.size, Lemmas.iNET.codesSize_replicate_u32]
        simp only [hs, List.length_drop] at this
        have hle : 24 + 4 * wc ≤ buf.length := by omega
        simp only [hle, true_and]
        rw [show 24 + 4 * wc = 24 + wc * 4 by omega, ← hwalk]
        cases decOff decPkg moreRem (List.drop (24 + wc * 4) buf) ((List.drop (24 + wc * 4) buf).length + 1) 0 <;>
          simp [R.isOk]
    · have h0 : wc = 0 := by omega
      subst h0
      simp only [hwc, if_false]
      have hle : 24 + 4 * 0 ≤ buf.length := by omega
      simp only [hle, true_and]
      rw [show 24 + 4 * 0 = 24 + 0 * 4 by omega, ← hwalk]
      cases decOff decPkg moreRem (List.drop (24 + 0 * 4) buf) ((List.drop (24 + 0 * 4) buf).length + 1) 0 <;>
        simp [R.isOk]

/-- the F2 witness as a walk: one package declaring 100 bytes, 12 present — accepted, the walk jumps past the end -/
example : PkgWalk [0, 0, 0, 1, 0, 100, 0, 0, 0, 0, 0, 0] :=
  .step (by decide) (by decide) .done

/-- a package declaring fewer than 12 bytes, or a trailing incomplete header, is refused -/
example : ¬ PkgWalk [0, 0, 0, 1, 0, 11, 0, 0, 0, 0, 0, 0] := by
  intro h
  rw [PkgWalk_iff] at h
  rcases h with h | ⟨h, _⟩
  · cases h
  · revert h; decide
example : ¬ PkgWalk [0, 0, 0, 1, 0, 12, 0, 0, 0, 0, 0, 0, 1, 2, 3, 4] := by
  intro h
  rw [PkgWalk_iff] at h
  rcases h with h | ⟨_, h⟩
  · cases h
  · rw [PkgWalk_iff] at h
    rcases h with h | ⟨h, _⟩
    · revert h; decide
    · revert h; decide

/-- review witnesses.  Header: version 1 / option word count in byte 0, type 1, definition 7, sequence 1, length word
    40, PTP 5 s / 6 ns; one package (definition 1, declared length 16, time delta 2) with 4 payload bytes. -/
private def inetHdr (wv : UInt8) : Bytes := [wv, 1, 0,0, 0,0,0,7, 0,0,0,1, 0,0,0,40, 0,0,0,5, 0,0,0,6]
/-- accepted (no option words; one option word), the package payload returned whole -/
example : (unpack fresh (inetHdr 0x10 ++ [0,0,0,1, 0,16, 0,0, 0,0,0,2, 1,2,3,4])).2 = .ok () := by rfl
example : (unpack fresh (inetHdr 0x10 ++ [0,0,0,1, 0,16, 0,0, 0,0,0,2, 1,2,3,4])).1.packages.map (·.payload) =
    [[1,2,3,4]] := by rfl
example : (unpack fresh (inetHdr 0x11 ++ [9,9,9,9] ++ [0,0,0,1, 0,16, 0,0, 0,0,0,2, 1,2,3,4])).2 = .ok () := by rfl
/-- rejected: 23-byte header (ValueError); two option words declared, one present; package header cut after 11 bytes;
    package declaring length 11 < 12 (ValueError) -/
example : (unpack fresh ((inetHdr 0x10).take 23)).2 = .error .value := by rfl
example : (unpack fresh (inetHdr 0x12 ++ [9,9,9,9])).2 = .error .struct := by rfl
example : (unpack fresh (inetHdr 0x10 ++ [0,0,0,1, 0,16, 0,0, 0,0,0])).2 = .error .struct := by rfl
example : (Pkg.unpack Pkg.fresh [0,0,0,1, 0,11, 0,0, 0,0,0,2, 1,2,3,4]).2 = .error .value := by rfl
/-- joint witness for `iNETPackage_exact` (declared 16 ≤ 18 present): the payload is
    exactly the declared 4 bytes, the 2 bytes after it are left alone -/
example : (Pkg.unpack Pkg.fresh [0,0,0,1, 0,16, 0,0, 0,0,0,2, 1,2,3,4, 7,7]).2 = .ok [7,7] ∧
    (Pkg.unpack Pkg.fresh [0,0,0,1, 0,16, 0,0, 0,0,0,2, 1,2,3,4, 7,7]).1.payload = [1,2,3,4] := ⟨rfl, rfl⟩
/-- observation: the header's own length word (40 above, 44 bytes present) is not compared with anything -/
example : (unpack fresh (inetHdr 0x10 ++ [0,0,0,1, 0,16, 0,0, 0,0,0,2, 1,2,3,4] ++ [0,0,0,1, 0,12, 0,0, 0,0,0,3])).2 =
    .ok () := by rfl

/-! ### the acceptance condition with a declarative package walk (`FitsPkgs`, Acra.Lemmas.iNETFits), the short-buffer
    check as an iff, and the rejections per exception kind -/

/-- one step of the declarative walk, spelled out: the package area is empty, or it starts with a complete 12-byte
    header declaring `d ≥ 12` and the area after `d` rounded up to four fits again -/
theorem FitsPkgs_iff (rem : Bytes) :
    FitsPkgs rem ↔ rem = [] ∨ (12 ≤ rem.length ∧ 12 ≤ declaredPkgLen rem ∧
      FitsPkgs (rem.drop (roundUp4 (declaredPkgLen rem)))) := by
  constructor
  · intro h
    cases h with
    | done => exact Or.inl rfl
    | pkg _ h12 hl hn => exact Or.inr ⟨h12, hl, hn⟩
  · rintro (rfl | ⟨h12, hl, hn⟩)
    · exact .done
    · exact .pkg rem h12 hl hn

/-- iNET accepts a buffer exactly when it holds the 24-byte header, all the option words its first byte declares,
    and the rest FITS: a chain of complete package headers, each declaring at least 12 bytes, walked by the declared
    lengths.  Stated on the bytes only (`FitsPkgs` does not mention the decoder). -/
theorem iNET_accepts_iff_fits (t : State) (buf : Bytes) :
    (unpack t buf).2 = .ok () ↔
      24 + 4 * declaredWc buf ≤ buf.length ∧ FitsPkgs (buf.drop (24 + 4 * declaredWc buf)) := by
  rw [iNET_accepts_iff, fitsPkgs_iff_walk]

/-- the short-buffer check (iNET.py:188) as an iff: a buffer is shorter than the 24-byte header exactly when `unpack`
    answers `ValueError` and leaves the object untouched WHATEVER the object's prior state.  (For one particular
    prior state the right-hand side can also hold on a long buffer — a package declaring fewer than 12 bytes also
    raises `ValueError`, and the state it leaves may coincide with the prior one — hence the quantifier.) -/
theorem iNET_short_iff (buf : Bytes) :
    buf.length < 24 ↔ ∀ t : State, unpack t buf = (t, .error .value) := by
  constructor
  · intro h t; exact iNET_short_rejected t buf h
  · intro h
    by_cases h24 : buf.length < 24
    · exact h24
    · exfalso
      have h1 := h { fresh with packages := [Pkg.fresh] }
      have hp := unpack_value_packages { fresh with packages := [Pkg.fresh] } buf h24 (by rw [h1])
      rw [h1] at hp
      cases hp

/-- the rejections, exactly and per exception kind.  `ValueError`: the buffer is shorter than 24 bytes, or — past the
    option words — the package walk reaches a complete package header declaring fewer than 12 bytes.  `struct.error`:
    the 24 bytes are there but not all declared option words, or the package walk reaches (with bytes left) an
    incomplete package header.  Nothing else is possible. -/
theorem iNET_rejects_iff (t : State) (buf : Bytes) :
    ((unpack t buf).2 = .error .value ↔ buf.length < 24 ∨
      (24 + 4 * declaredWc buf ≤ buf.length ∧ PkgsReject .value (buf.drop (24 + 4 * declaredWc buf)))) ∧
    ((unpack t buf).2 = .error .struct ↔ 24 ≤ buf.length ∧ (buf.length < 24 + 4 * declaredWc buf ∨
      PkgsReject .struct (buf.drop (24 + 4 * declaredWc buf)))) ∧
    ((unpack t buf).2 = .ok () ∨ (unpack t buf).2 = .error .value ∨ (unpack t buf).2 = .error .struct) := by
  by_cases h24 : buf.length < 24
  · rw [iNET_short_rejected t buf h24]
    exact ⟨⟨fun _ => Or.inl h24, fun _ => rfl⟩, ⟨fun h => (by cases h), fun h => (by omega)⟩, Or.inr (Or.inl rfl)⟩
  · rw [unpack_verdict t buf h24]
    show _ ∧ _ ∧ _
    have hwc : optWc buf = declaredWc buf := rfl
    rw [hwc]
    by_cases hlt : buf.length < 24 + 4 * declaredWc buf
    · rw [if_pos hlt]
      refine ⟨⟨fun h => (by cases h), fun h => ?_⟩, ⟨fun _ => ⟨by omega, Or.inl hlt⟩, fun _ => rfl⟩, Or.inr (Or.inr rfl)⟩
      rcases h with h | h
      · omega
      · omega
    · rw [if_neg hlt]
      have hloop := decPkg_loop_error_iff (buf.drop (24 + 4 * declaredWc buf))
      cases hd : decOff decPkg moreRem (buf.drop (24 + 4 * declaredWc buf))
          ((buf.drop (24 + 4 * declaredWc buf)).length + 1) 0 with
      | ok ps =>
        have hn : ∀ e, ¬ PkgsReject e (buf.drop (24 + 4 * declaredWc buf)) := by
          intro e hr
          have := (hloop e).2 hr
          rw [hd] at this; cases this
        refine ⟨⟨fun h => (by cases h), fun h => ?_⟩, ⟨fun h => (by cases h), fun h => ?_⟩, Or.inl rfl⟩
        · rcases h with h | h
          · omega
          · exact absurd h.2 (hn _)
        · rcases h.2 with h | h
          · omega
          · exact absurd h (hn _)
      | error e =>
        have hr := (hloop e).1 hd
        rcases pkgsReject_kind e _ hr with rfl | rfl
        · refine ⟨⟨fun h => (by cases h), fun h => ?_⟩, ⟨fun _ => ⟨by omega, Or.inr hr⟩, fun _ => rfl⟩, Or.inr (Or.inr rfl)⟩
          rcases h with h | h
          · omega
          · have := (hloop .value).2 h.2
            rw [hd] at this; cases this
        · refine ⟨⟨fun _ => Or.inr ⟨by omega, hr⟩, fun _ => rfl⟩, ⟨fun h => (by cases h), fun h => ?_⟩, Or.inr (Or.inl rfl)⟩
          rcases h.2 with h | h
          · omega
          · have := (hloop .struct).2 h
            rw [hd] at this; cases this

/-- witnesses for `iNET_accepts_iff_fits`: two packages, the first declaring 17 bytes (5 data + 3 pad), the second 12 -/
example : FitsPkgs [0,0,0,1, 0,17, 0,0, 0,0,0,2, 1,2,3,4,5, 0,0,0,   0,0,0,2, 0,12, 0,0, 0,0,0,3] :=
  .pkg _ (by decide) (by decide) (.pkg _ (by decide) (by decide) .done)
example : 24 + 4 * declaredWc (inetHdr 0x11 ++ [9,9,9,9] ++ [0,0,0,1, 0,16, 0,0, 0,0,0,2, 1,2,3,4]) ≤
      (inetHdr 0x11 ++ [9,9,9,9] ++ [0,0,0,1, 0,16, 0,0, 0,0,0,2, 1,2,3,4]).length ∧
    (inetHdr 0x11 ++ [9,9,9,9] ++ [0,0,0,1, 0,16, 0,0, 0,0,0,2, 1,2,3,4]).drop
      (24 + 4 * declaredWc (inetHdr 0x11 ++ [9,9,9,9] ++ [0,0,0,1, 0,16, 0,0, 0,0,0,2, 1,2,3,4])) =
      [0,0,0,1, 0,16, 0,0, 0,0,0,2, 1,2,3,4] := by decide
example : FitsPkgs [0,0,0,1, 0,16, 0,0, 0,0,0,2, 1,2,3,4] := .pkg _ (by decide) (by decide) .done
/-- one witness per constructor of `PkgsReject`: a package declaring 11 bytes (`ValueError`); 4 stray bytes after a
    complete package (`struct.error`, reached through `later`) -/
example : PkgsReject .value [0,0,0,1, 0,11, 0,0, 0,0,0,0] := .small _ (by decide) (by decide) rfl
example : PkgsReject .struct [0,0,0,1, 0,12, 0,0, 0,0,0,0, 1,2,3,4] :=
  .later _ (by decide) (by decide) (.short _ (by decide) (by decide) rfl)
/-- … and the decoder's verdicts on whole messages agree: every outcome of `iNET_rejects_iff` is reachable -/
example : (unpack fresh (inetHdr 0x10 ++ [0,0,0,1, 0,11, 0,0, 0,0,0,0])).2 = .error .value := by rfl
example : (unpack fresh (inetHdr 0x10 ++ [0,0,0,1, 0,12, 0,0, 0,0,0,0, 1,2,3,4])).2 = .error .struct := by rfl
/-- `iNET_short_iff`, right to left is not idle: on a 36-byte buffer whose package declares 11 bytes the answer is
    `ValueError` too, but the object is changed (the sequence number 1 of the header has been stored) -/
example : (unpack fresh (inetHdr 0x10 ++ [0,0,0,1, 0,11, 0,0, 0,0,0,0])).1.sequence = 1 := by rfl

/-- what an accepted iNET message returns, package by package (`area` = the bytes after the 24-byte header and the option
    words): every package object was decoded at some offset `o` of the package area where a complete 12-byte header
    declaring `d ≥ 12` stands; its `_length` is `d` and its payload exactly `area[o+12 : o+d]` — clamped at the end of the
    area: nothing that is not in the buffer is returned, but a declared length pointing past the end IS accepted with a
    shorter payload (observation F2, notes/fti.md) -/
theorem iNET_accepted_every_package (t : State) (buf : Bytes) (h : (unpack t buf).2 = .ok ()) :
    ∀ p ∈ (unpack t buf).1.packages, ∃ o,
      o + 12 ≤ (buf.drop (24 + 4 * declaredWc buf)).length ∧
      12 ≤ declaredPkgLen ((buf.drop (24 + 4 * declaredWc buf)).drop o) ∧
      p.length = declaredPkgLen ((buf.drop (24 + 4 * declaredWc buf)).drop o) ∧
      p.payload = slice ((buf.drop (24 + 4 * declaredWc buf)).drop o) 12
        (declaredPkgLen ((buf.drop (24 + 4 * declaredWc buf)).drop o)) := by
  have h24 : ¬ buf.length < 24 := by
    intro hlt
    rw [iNET_short_rejected t buf hlt] at h
    cases h
  have hh : ∃ ty fl di sq ln ps pn, structUnpackFrom INET_HEADER_FORMAT buf 0 =
      .ok [beNat (buf.take 1), ty, fl, di, sq, ln, ps, pn] := by
    simp only [structUnpackFrom, INET_HEADER_FORMAT, Fmt.size, codesSize, Code.size, unpackCodes, decInt, List.drop_zero]
    have : 0 + (1 + (1 + (2 + (4 + (4 + (4 + (4 + (4 + 0)))))))) ≤ buf.length := by omega
    simp only [this, if_true]
    exact ⟨_, _, _, _, _, _, _, rfl⟩
  obtain ⟨ty, fl, di, sq, ln, ps, pn, hh⟩ := hh
  revert h
  simp only [unpack, INET_HEADER_LENGTH, h24, if_false, hh, and_F, declaredWc,
    Nat.mul_comm (beNat (List.take 1 buf) % 16) 4]
  split
  · intro h; cases h
  · rename_i af _
    split
    · rename_i pk hd
      simp only
      intro _ p hp
      have hw := Acra.Lemmas.ReviewC09.decOff_ok_walk _ _ _ _ _ _ hd
      obtain ⟨o, n, _, _, hdec⟩ := Acra.Lemmas.ReviewC09.walk_mem _ _ _ _ _ hw p hp
      obtain ⟨hok, _⟩ := (decPkg_walk_step _ _ _ hdec)
      refine ⟨o, ?_, hok.2, ?_, ?_⟩
      · have := hok.1
        simp only [List.length_drop] at this ⊢
        omega
      · rw [decPkg, Pkg_unpack_closed Pkg.fresh _ hok.1 hok.2] at hdec
        simp only [Except.ok.injEq, Prod.mk.injEq] at hdec
        rw [← hdec.1]; rfl
      · rw [decPkg, Pkg_unpack_closed Pkg.fresh _ hok.1 hok.2] at hdec
        simp only [Except.ok.injEq, Prod.mk.injEq] at hdec
        rw [← hdec.1]; rfl
    · intro h; cases h

/-- witness: the accepted message with one option word returns one package: `_length` 16, payload the 4 bytes after its header -/
example : (unpack fresh (inetHdr 0x11 ++ [9,9,9,9] ++ [0,0,0,1, 0,16, 0,0, 0,0,0,2, 1,2,3,4])).1.packages.map
    (fun p => (p.length, p.payload)) = [(16, [1,2,3,4])] := by rfl

end Acra.Props.C09
