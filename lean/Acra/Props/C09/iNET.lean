import Acra.Model.iNET
import Acra.Lemmas.Bits
import Acra.Lemmas.iNET
namespace Acra.Props.C09
open Acra.Py Acra.Model.iNET Acra.Gen.iNET Acra.Lemmas.Bits

/-- short buffer: anything shorter than the 24-byte header is rejected with ValueError and the object is untouched -/
theorem iNET_short_rejected (t : State) (buf : Bytes) (h : buf.length < 24) :
    unpack t buf = (t, .error .value) := by
  simp [unpack, INET_HEADER_LENGTH, h]

/-- the option word count the first byte declares -/
def declaredWc (buf : Bytes) : Nat := beNat (buf.take 1) % 16

/-- short buffer, the other direction: an accepted buffer holds the header and all the option words its
    first byte declares -/
theorem iNET_accepted_not_short (t : State) (buf : Bytes) (h : (unpack t buf).2 = .ok ()) :
    24 + 4 * declaredWc buf ≤ buf.length := by
  by_cases h24 : buf.length < 24
  · rw [iNET_short_rejected t buf h24] at h; simp at h
  · revert h
    have hh : ∃ ty fl di sq ln ps pn, structUnpackFrom INET_HEADER_FORMAT buf 0 =
        .ok [beNat (buf.take 1), ty, fl, di, sq, ln, ps, pn] := by
      simp only [structUnpackFrom, INET_HEADER_FORMAT, Fmt.size, codesSize, Code.size, unpackCodes, decInt, List.drop_zero]
      have : 0 + (1 + (1 + (2 + (4 + (4 + (4 + (4 + (4 + 0)))))))) ≤ buf.length := by omega
      simp only [this, if_true]
      exact ⟨_, _, _, _, _, _, _, rfl⟩
    obtain ⟨ty, fl, di, sq, ln, ps, pn, hh⟩ := hh
    simp only [unpack, INET_HEADER_LENGTH, h24, if_false, hh, and_F, declaredWc]
    generalize beNat (buf.take 1) % 16 = wc
    by_cases hwc : wc > 0
    · simp only [hwc, if_true]
      cases hu : structUnpackFrom (iNET_unpack_fmt0 wc) (List.drop 24 buf) 0 with
      | error e => simp
      | ok af =>
        intro _
        have := structUnpackFrom_ok_length _ _ _ _ hu
        have hs : (iNET_unpack_fmt0 wc).size = 4 * wc := by
          simp only [iNET_unpack_fmt0, Fmt.size, Lemmas.iNET.codesSize_replicate_u32]
        simp only [hs, List.length_drop] at this
        omega
    · intro _; omega

/-- the length a package header declares: big-endian 16 bits at bytes 4..5 -/
def declaredPkgLen (buf : Bytes) : Nat := beNat ((buf.drop 4).take 2)

theorem PKG_hdr (buf : Bytes) (h : 12 ≤ buf.length) :
    ∃ d r f t, structUnpackFrom PKG_FORMAT buf 0 = .ok [d, declaredPkgLen buf, r, f, t] := by
  simp only [structUnpackFrom, PKG_FORMAT, Fmt.size, codesSize, Code.size, unpackCodes, decInt, List.drop_zero,
    declaredPkgLen]
  have : 0 + (4 + (2 + (1 + (1 + (4 + 0))))) ≤ buf.length := by omega
  simp only [this, if_true]
  exact ⟨_, _, _, _, rfl⟩

/-- a package is accepted exactly when its 12-byte header is present and the declared length is at
    least the header's -/
theorem iNETPackage_ok_iff (t : Pkg) (buf : Bytes) :
    (∃ r, (Pkg.unpack t buf).2 = .ok r) ↔ 12 ≤ buf.length ∧ 12 ≤ declaredPkgLen buf := by
  by_cases h12 : 12 ≤ buf.length
  · obtain ⟨d, r, f, td, hh⟩ := PKG_hdr buf h12
    simp only [Pkg.unpack, hh, PKG_FORMAT_LEN, h12, true_and]
    by_cases hl : declaredPkgLen buf < 12
    · simp [hl]
    · simp [hl]; omega
  · have : structUnpackFrom PKG_FORMAT buf 0 = .error .struct := by
      simp only [structUnpackFrom, PKG_FORMAT, Fmt.size, codesSize, Code.size]
      have : ¬ (0 + (4 + (2 + (1 + (1 + (4 + 0))))) ≤ buf.length) := by omega
      simp [this]
    simp [Pkg.unpack, this, h12]

/- Full statement (FALSE of the faithful model, hence of the code):
     (Pkg.unpack t buf).2 = .ok r → (Pkg.unpack t buf).1.payload.length = declaredPkgLen buf - 12
   A declared length that points past the end of the buffer is accepted and the payload is what is there. -/
theorem iNETPackage_exact_partial (t : Pkg) (buf r : Bytes) (h : (Pkg.unpack t buf).2 = .ok r) :
    (Pkg.unpack t buf).1.length = declaredPkgLen buf ∧
    (Pkg.unpack t buf).1.payload = slice buf 12 (declaredPkgLen buf) ∧
    (Pkg.unpack t buf).1.payload.length = min (declaredPkgLen buf) buf.length - 12 ∧
    (declaredPkgLen buf ≤ buf.length → (Pkg.unpack t buf).1.payload.length = declaredPkgLen buf - 12) := by
  obtain ⟨h12, hl⟩ := (iNETPackage_ok_iff t buf).1 ⟨r, h⟩
  obtain ⟨d, r', f, td, hh⟩ := PKG_hdr buf h12
  have hl' : ¬ declaredPkgLen buf < 12 := by omega
  simp only [Pkg.unpack, hh, PKG_FORMAT_LEN, hl', if_false, slice_length]
  refine ⟨trivial, trivial, trivial, ?_⟩
  intro hle
  omega

/-- witness of the gap: a package declaring 100 bytes with none present is accepted -/
example : (Pkg.unpack Pkg.fresh [0, 0, 0, 1, 0, 100, 0, 0, 0, 0, 0, 0]).2 = .ok [] ∧
    (Pkg.unpack Pkg.fresh [0, 0, 0, 1, 0, 100, 0, 0, 0, 0, 0, 0]).1.payload = [] := ⟨rfl, rfl⟩

/-- review witnesses.  Header: version 1 / option word count in byte 0, type 1, definition 7, sequence 1, length word
    40, PTP 5 s / 6 ns; one package (definition 1, declared length 16, time delta 2) with 4 payload bytes. -/
private def inetHdr (wv : UInt8) : Bytes := [wv, 1, 0,0, 0,0,0,7, 0,0,0,1, 0,0,0,40, 0,0,0,5, 0,0,0,6]
/-- accepted (no option words; one option word), the package payload returned whole -/
example : (unpack fresh (inetHdr 0x10 ++ [0,0,0,1, 0,16, 0,0, 0,0,0,2, 1,2,3,4])).2 = .ok () := by rfl
example : (unpack fresh (inetHdr 0x10 ++ [0,0,0,1, 0,16, 0,0, 0,0,0,2, 1,2,3,4])).1.packages.map (·.payload) =
    [[1,2,3,4]] := by rfl
example : (unpack fresh (inetHdr 0x11 ++ [9,9,9,9] ++ [0,0,0,1, 0,16, 0,0, 0,0,0,2, 1,2,3,4])).2 = .ok () := by rfl
/-- rejected: 23-byte header (ValueError); two option words declared, one present; package header cut after 11 bytes;
    package declaring length 11 < 12 (ValueError) -/
example : (unpack fresh ((inetHdr 0x10).take 23)).2 = .error .value := by rfl
example : (unpack fresh (inetHdr 0x12 ++ [9,9,9,9])).2 = .error .struct := by rfl
example : (unpack fresh (inetHdr 0x10 ++ [0,0,0,1, 0,16, 0,0, 0,0,0])).2 = .error .struct := by rfl
example : (Pkg.unpack Pkg.fresh [0,0,0,1, 0,11, 0,0, 0,0,0,2, 1,2,3,4]).2 = .error .value := by rfl
/-- joint witness for `iNETPackage_exact_partial` with its last clause live (declared 16 ≤ 18 present): the payload is
    exactly the declared 4 bytes, the 2 bytes after it are left alone -/
example : (Pkg.unpack Pkg.fresh [0,0,0,1, 0,16, 0,0, 0,0,0,2, 1,2,3,4, 7,7]).2 = .ok [7,7] ∧
    (Pkg.unpack Pkg.fresh [0,0,0,1, 0,16, 0,0, 0,0,0,2, 1,2,3,4, 7,7]).1.payload = [1,2,3,4] := ⟨rfl, rfl⟩
/-- observation: the header's own length word (40 above, 44 bytes present) is not compared with anything -/
example : (unpack fresh (inetHdr 0x10 ++ [0,0,0,1, 0,16, 0,0, 0,0,0,2, 1,2,3,4] ++ [0,0,0,1, 0,12, 0,0, 0,0,0,3])).2 =
    .ok () := by rfl

end Acra.Props.C09
