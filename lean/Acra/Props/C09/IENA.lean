import Acra.Model.IENA
namespace Acra.Props.C09
open Acra.Py Acra.Model.IENA Acra.Gen.IENA

/-- IENA (length check on, the default) accepts a buffer exactly when it holds a whole header and
    the size field (bytes 2..3, big-endian, in 16-bit words) equals the real length -/
theorem IENA_accepts_iff (t : Base) (buf : Bytes) (hle : t.lengthError = true) :
    (Base.unpack t buf).2 = .ok () ↔ 14 ≤ buf.length ∧ beNat (slice buf 2 4) * 2 = buf.length := by
  have hs : slice buf 2 4 = List.take 2 (List.drop 2 buf) := by
    simp [slice, List.take_drop]
  simp only [Base.unpack, IENA_HEADER_LENGTH, structUnpackFrom, IENA_HEADER_FORMAT, IENA_unpack_fmt0, Fmt.size,
    codesSize, Code.size, unpackCodes, decInt, hle, hs, Nat.zero_add, List.drop_zero]
  by_cases h : buf.length < 14
  · simp [h]; omega
  · have h1 : 14 ≤ buf.length := by omega
    have h2 : buf.length - 2 + (2 + 0) ≤ buf.length := by omega
    simp only [h, h1, h2, if_false, if_true, true_and, Bool.and_true, ne_eq, decide_not,
      Bool.not_eq_eq_eq_not, Bool.not_true, decide_eq_false_iff_not]
    split <;> simp_all

/-- with the check switched off every buffer of at least 14 bytes is accepted -/
theorem IENA_accepts_iff_nocheck (t : Base) (buf : Bytes) (hle : t.lengthError = false) :
    (Base.unpack t buf).2 = .ok () ↔ 14 ≤ buf.length := by
  simp only [Base.unpack, IENA_HEADER_LENGTH, structUnpackFrom, IENA_HEADER_FORMAT, IENA_unpack_fmt0, Fmt.size,
    codesSize, Code.size, unpackCodes, decInt, hle, Nat.zero_add, List.drop_zero]
  by_cases h : buf.length < 14
  · simp [h]
  · have h1 : 14 ≤ buf.length := by omega
    have h2 : buf.length - 2 + (2 + 0) ≤ buf.length := by omega
    simp [h, h1, h2]

/-- the dataset length a parameter header declares: big-endian 16 bits at bytes 4..5 -/
def declaredM (rem : Bytes) : Nat := beNat (List.drop 4 (List.take 6 rem))

/-- an IENA-M parameter is accepted exactly when its 6-byte header is present and the declared
    dataset length lies inside the bytes that remain — at every position of a multi-parameter
    packet, because the loop applies this step to the remaining bytes -/
theorem IENAM_param_ok_iff (rem : Bytes) :
    (∃ p n, decM rem = .ok (p, n)) ↔ 6 ≤ rem.length ∧ declaredM rem ≤ rem.length - 6 := by
  simp only [decM, IENAM_FORMAT_LEN, structUnpack, IENAM_FORMAT, Fmt.size, codesSize, Code.size, unpackCodes,
    decInt, declaredM, List.length_take, List.length_drop, List.drop_drop]
  by_cases h : 6 ≤ rem.length
  · have : min 6 rem.length = 2 + (2 + (2 + 0)) := by omega
    simp only [this, if_true, h, true_and]
    have e : List.take 2 (List.drop (2 + 2) (List.take 6 rem)) = List.drop 4 (List.take 6 rem) := by
      apply List.take_of_length_le; simp; omega
    simp only [e]
    split <;> simp_all
  · have : ¬ (min 6 rem.length = 2 + (2 + (2 + 0))) := by omega
    simp [this, h]

/-- an accepted parameter's dataset has exactly the declared length: never truncated or padded -/
theorem IENAM_param_exact (rem : Bytes) (p : MParam) (n : Nat) (h : decM rem = .ok (p, n)) :
    p.dataset.length = declaredM rem ∧ n = 6 + declaredM rem + declaredM rem % 2 := by
  have hok := (IENAM_param_ok_iff rem).1 ⟨p, n, h⟩
  revert h
  simp only [decM, IENAM_FORMAT_LEN, structUnpack, IENAM_FORMAT, Fmt.size, codesSize, Code.size, unpackCodes,
    decInt, declaredM, List.length_take, List.length_drop, List.drop_drop] at hok ⊢
  have : min 6 rem.length = 2 + (2 + (2 + 0)) := by omega
  simp only [this, if_true]
  have e : List.take 2 (List.drop (2 + 2) (List.take 6 rem)) = List.drop 4 (List.take 6 rem) := by
    apply List.take_of_length_le; simp; omega
  simp only [e]
  split
  · simp
  · intro h
    simp only [Except.ok.injEq, Prod.mk.injEq] at h
    obtain ⟨hp, hn⟩ := h
    subst hp hn
    simp only [slice_length]
    obtain ⟨h6, hd⟩ := hok
    generalize beNat (List.drop 4 (List.take 6 rem)) = d at *
    constructor
    · omega
    · by_cases hodd : d % 2 = 1
      · simp [hodd]
      · have : d % 2 = 0 := by omega
        simp [this]

end Acra.Props.C09
