import Acra.Model.IENA
import Acra.Lemmas.ReviewC09Loop
namespace Acra.Props.C09
open Acra.Py Acra.Model.IENA Acra.Gen.IENA Acra.Lemmas.ReviewC09

/-- IENA (length check on, the default) accepts a buffer exactly when it holds a whole header and
    the size field (bytes 2..3, big-endian, in 16-bit words) equals the real length -/
theorem IENA_accepts_iff (t : Base) (buf : Bytes) (hle : t.lengthError = true) :
    (Base.unpack t buf).2 = .ok () ↔ 14 ≤ buf.length ∧ beNat (slice buf 2 4) * 2 = buf.length := by
  have hs : slice buf 2 4 = List.take 2 (List.drop 2 buf) := by
    simp [slice, List.take_drop]
  simp only [Base.unpack, IENA_HEADER_LENGTH, structUnpackFrom, IENA_HEADER_FORMAT, IENA_unpack_fmt0, Fmt.size,
    codesSize, Code.size, unpackCodes, decInt, hle, hs, Nat.zero_add, List.drop_zero]
  by_cases h : buf.length < 14
  · simp [h]; omega
  · have h1 : 14 ≤ buf.length := by omega
    have h2 : buf.length - 2 + (2 + 0) ≤ buf.length := by omega
    simp only [h, h1, h2, if_false, if_true, true_and, Bool.and_true, ne_eq, decide_not,
      Bool.not_eq_eq_eq_not, Bool.not_true, decide_eq_false_iff_not]
    split <;> simp_all

/-- with the check switched off every buffer of at least 14 bytes is accepted -/
theorem IENA_accepts_iff_nocheck (t : Base) (buf : Bytes) (hle : t.lengthError = false) :
    (Base.unpack t buf).2 = .ok () ↔ 14 ≤ buf.length := by
  simp only [Base.unpack, IENA_HEADER_LENGTH, structUnpackFrom, IENA_HEADER_FORMAT, IENA_unpack_fmt0, Fmt.size,
    codesSize, Code.size, unpackCodes, decInt, hle, Nat.zero_add, List.drop_zero]
  by_cases h : buf.length < 14
  · simp [h]
  · have h1 : 14 ≤ buf.length := by omega
    have h2 : buf.length - 2 + (2 + 0) ≤ buf.length := by omega
    simp [h, h1, h2]

/-! ### review additions: both option values in one statement, payload exactness, witnesses -/

/-- both values of the `lengthError` option in one statement (the two theorems above fix it by hypothesis) -/
theorem IENA_accepts_iff_all (t : Base) (buf : Bytes) :
    (Base.unpack t buf).2 = .ok () ↔
      14 ≤ buf.length ∧ (t.lengthError = true → beNat (slice buf 2 4) * 2 = buf.length) := by
  cases hle : t.lengthError
  · simpa using IENA_accepts_iff_nocheck t buf hle
  · simpa using IENA_accepts_iff t buf hle

theorem IENA_accepted_payload_exact (t : Base) (buf : Bytes) (h : (Base.unpack t buf).2 = .ok ()) :
    (Base.unpack t buf).1.payload = slice buf 14 (buf.length - 2) ∧
    (Base.unpack t buf).1.payload.length = buf.length - 16 ∧
    (Base.unpack t buf).1.size = beNat (slice buf 2 4) ∧
    (Base.unpack t buf).1.lengthError = t.lengthError := by
  have h14 := ((IENA_accepts_iff_all t buf).1 h).1
  revert h
  have hs : slice buf 2 4 = List.take 2 (List.drop 2 buf) := by
    simp [slice, List.take_drop]
  simp only [Base.unpack, IENA_HEADER_LENGTH, structUnpackFrom, IENA_HEADER_FORMAT, IENA_unpack_fmt0, Fmt.size,
    codesSize, Code.size, unpackCodes, decInt, hs, Nat.zero_add, List.drop_zero]
  have h : ¬ buf.length < 14 := by omega
  have h2 : buf.length - 2 + (2 + 0) ≤ buf.length := by omega
  simp only [h, h14, h2, if_false, if_true]
  split
  · simp
  · intro _
    refine ⟨rfl, ?_, rfl, rfl⟩
    simp only [slice_length]; omega

/-- witnesses (non-trivial header, 2-byte payload, trailer DE AD): size = 9 words = 18 bytes accepted; size 18 ≠ 9
    rejected with the bare `Exception`; the same buffer accepted with the check switched off; 13 bytes rejected -/
example : (Base.unpack Base.fresh ([0,1, 0,9, 0,0, 0,0,0,5, 0,0, 0,9] ++ [1,2] ++ [0xDE,0xAD])).2 = .ok () := by rfl
example : (Base.unpack Base.fresh ([0,1, 0,9, 0,0, 0,0,0,5, 0,0, 0,9] ++ [1,2] ++ [0xDE,0xAD])).1.payload = [1,2] := by rfl
example : (Base.unpack Base.fresh ([0,1, 0,18, 0,0, 0,0,0,5, 0,0, 0,9] ++ [1,2] ++ [0xDE,0xAD])).2 = .error .generic := by rfl
example : (Base.unpack Base.fresh ([0,1, 0,10, 0,0, 0,0,0,5, 0,0, 0,9] ++ [1,2] ++ [0xDE,0xAD])).2 = .error .generic := by rfl
example : (Base.unpack { Base.fresh with lengthError := false }
    ([0,1, 0,18, 0,0, 0,0,0,5, 0,0, 0,9] ++ [1,2] ++ [0xDE,0xAD])).2 = .ok () := by rfl
example : (Base.unpack Base.fresh [0,1, 0,9, 0,0, 0,0,0,5, 0,0, 0]).2 = .error .value := by rfl
/-- observation (inside the property as stated: declared = real): the 2-byte trailer is not part of the 14-byte
    minimum, so a 14-byte buffer declaring 7 words is accepted; its payload is empty and `endfield` is read from
    bytes 12..13, which are also the sequence field -/
example : (Base.unpack Base.fresh [0,1, 0,7, 0,0, 0,0,0,5, 0,0, 0,9]).2 = .ok () ∧
    (Base.unpack Base.fresh [0,1, 0,7, 0,0, 0,0,0,5, 0,0, 0,9]).1.endfield = 9 ∧
    (Base.unpack Base.fresh [0,1, 0,7, 0,0, 0,0,0,5, 0,0, 0,9]).1.sequence = 9 := ⟨rfl, rfl, rfl⟩

/-- the dataset length a parameter header declares: big-endian 16 bits at bytes 4..5 -/
def declaredM (rem : Bytes) : Nat := beNat (List.drop 4 (List.take 6 rem))

/-- an IENA-M parameter is accepted exactly when its 6-byte header is present and the declared
    dataset length lies inside the bytes that remain — at every position of a multi-parameter
    packet, because the loop applies this step to the remaining bytes -/
theorem IENAM_param_ok_iff (rem : Bytes) :
    (∃ p n, decM rem = .ok (p, n)) ↔ 6 ≤ rem.length ∧ declaredM rem ≤ rem.length - 6 := by
  simp only [decM, IENAM_FORMAT_LEN, structUnpack, IENAM_FORMAT, Fmt.size, codesSize, Code.size, unpackCodes,
    decInt, declaredM, List.length_take, List.length_drop, List.drop_drop]
  by_cases h : 6 ≤ rem.length
  · have : min 6 rem.length = 2 + (2 + (2 + 0)) := by omega
    simp only [this, if_true, h, true_and]
    have e : List.take 2 (List.drop (2 + 2) (List.take 6 rem)) = List.drop 4 (List.take 6 rem) := by
      apply List.take_of_length_le; simp; omega
    simp only [e]
    split <;> simp_all
  · have : ¬ (min 6 rem.length = 2 + (2 + (2 + 0))) := by omega
    simp [this, h]

/-- an accepted parameter's dataset has exactly the declared length: never truncated or padded -/
theorem IENAM_param_exact (rem : Bytes) (p : MParam) (n : Nat) (h : decM rem = .ok (p, n)) :
    p.dataset.length = declaredM rem ∧ n = 6 + declaredM rem + declaredM rem % 2 := by
  have hok := (IENAM_param_ok_iff rem).1 ⟨p, n, h⟩
  revert h
  simp only [decM, IENAM_FORMAT_LEN, structUnpack, IENAM_FORMAT, Fmt.size, codesSize, Code.size, unpackCodes,
    decInt, declaredM, List.length_take, List.length_drop, List.drop_drop] at hok ⊢
  have : min 6 rem.length = 2 + (2 + (2 + 0)) := by omega
  simp only [this, if_true]
  have e : List.take 2 (List.drop (2 + 2) (List.take 6 rem)) = List.drop 4 (List.take 6 rem) := by
    apply List.take_of_length_le; simp; omega
  simp only [e]
  split
  · simp
  · intro h
    simp only [Except.ok.injEq, Prod.mk.injEq] at h
    obtain ⟨hp, hn⟩ := h
    subst hp hn
    simp only [slice_length]
    obtain ⟨h6, hd⟩ := hok
    generalize beNat (List.drop 4 (List.take 6 rem)) = d at *
    constructor
    · omega
    · by_cases hodd : d % 2 = 1
      · simp [hodd]
      · have : d % 2 = 0 := by omega
        simp [this]

/-- witnesses for the per-parameter step: accepted with exactly the declared 2 bytes (and the rest left alone);
    declared 10 with 2 present rejected; declared 3 = present (odd, pad byte missing) accepted -/
example : decM [0,3,0,4,0,2,101,102,7,7] = .ok ({ paramid := 3, delay := 4, dataset := [101,102] }, 8) := by rfl
example : decM [0,3,0,4,0,10,101,102] = .error .generic := by rfl
example : decM [0,3,0,4,0,3,101,102,103] = .ok ({ paramid := 3, delay := 4, dataset := [101,102,103] }, 10) := by rfl
example : decM [0,3,0,4,0] = .error .struct := by rfl

/-! ### review additions: the check at EVERY position of a multi-parameter packet -/

/-- the IENA-M parameter area, read declaratively -/
inductive FitsM : Bytes → Prop
  | done : FitsM []
  | param (rem : Bytes) : 6 ≤ rem.length → declaredM rem ≤ rem.length - 6 →
      FitsM (rem.drop (6 + declaredM rem + declaredM rem % 2)) → FitsM rem

theorem decM_pos (b : Bytes) (x : MParam) (n : Nat) (h : decM b = .ok (x, n)) : 0 < n ∧ 0 < b.length := by
  have h1 := (IENAM_param_ok_iff b).1 ⟨x, n, h⟩
  have h2 := IENAM_param_exact b x n h
  omega

theorem IENAM_walk_iff_fits (pl : Bytes) (off : Nat) :
    (∃ ps, Walk decM moreRem pl off ps) ↔ FitsM (pl.drop off) := by
  constructor
  · rintro ⟨ps, hw⟩
    induction ps generalizing off with
    | nil =>
      simp only [Walk, moreRem, decide_eq_false_iff_not] at hw
      rw [List.drop_eq_nil_of_le (by omega)]; exact .done
    | cons p ps ih =>
      obtain ⟨_, n, hd, hw'⟩ := hw
      have h1 := (IENAM_param_ok_iff _).1 ⟨p, n, hd⟩
      have h2 := (IENAM_param_exact _ p n hd).2
      refine .param _ h1.1 h1.2 ?_
      rw [← h2, List.drop_drop]
      exact ih _ hw'
  · intro h
    generalize hr : pl.drop off = rem at h
    induction h generalizing off with
    | done =>
      refine ⟨[], ?_⟩
      have : pl.length ≤ off := by
        have := congrArg List.length hr; simp at this; omega
      simp only [Walk, moreRem, decide_eq_false_iff_not]; omega
    | param rem h6 hd _ ih =>
      obtain ⟨p, n, hdec⟩ := (IENAM_param_ok_iff rem).2 ⟨h6, hd⟩
      have hn := (IENAM_param_exact rem p n hdec).2
      subst hr
      obtain ⟨ps, hps⟩ := ih (off + n) (by rw [List.drop_drop, hn])
      refine ⟨p :: ps, ?_, n, hdec, hps⟩
      simp only [List.length_drop] at h6
      simp only [moreRem, decide_eq_true_eq]; omega

/-- IENA-M, whole packet: accepted exactly when the IENA frame is and the parameter area is a chain of
    parameters each of whose declared dataset lies inside the bytes that remain AT ITS POSITION -/
theorem IENAM_accepts_iff (t : MState) (buf : Bytes) :
    (MState.unpack t buf).2 = .ok () ↔
      (Base.unpack t.base buf).2 = .ok () ∧ FitsM (Base.unpack t.base buf).1.payload := by
  simp only [MState.unpack]
  cases hu : Base.unpack t.base buf with
  | mk b' r =>
    cases r with
    | error e => simp
    | ok u =>
      simp only [true_and]
      have key : (∃ ps, Walk decM moreRem b'.payload 0 ps) ↔ FitsM b'.payload := by
        simpa using IENAM_walk_iff_fits b'.payload 0
      rw [← key]
      cases hd : decOff decM moreRem b'.payload (b'.payload.length + 1) 0 with
      | ok ps =>
        simp only [true_iff]
        exact ⟨ps, (decOff_ok_iff_walk _ _ _ decM_pos ps).1 hd⟩
      | error e =>
        simp only [reduceCtorEq, false_iff]
        rintro ⟨ps, hw⟩
        rw [(decOff_ok_iff_walk _ _ _ decM_pos ps).2 hw] at hd
        cases hd

/-- … and every parameter it returns, at whatever position, has exactly the dataset length its header
    declares, lying wholly inside the payload: nothing truncated, padded or partially returned -/
theorem IENAM_accepted_every_param_exact (t : MState) (buf : Bytes) (h : (MState.unpack t buf).2 = .ok ()) :
    ∀ p ∈ (MState.unpack t buf).1.parameters, ∃ o,
      o + 6 + p.dataset.length ≤ (MState.unpack t buf).1.base.payload.length ∧
      p.dataset.length = declaredM ((MState.unpack t buf).1.base.payload.drop o) := by
  revert h
  simp only [MState.unpack]
  cases hu : Base.unpack t.base buf with
  | mk b' r =>
    cases r with
    | error e => simp
    | ok u =>
      cases hd : decOff decM moreRem b'.payload (b'.payload.length + 1) 0 with
      | error e => simp
      | ok ps =>
        intro _ p hp
        obtain ⟨o, n, _, _, hdec⟩ := walk_mem _ _ _ _ _ (decOff_ok_walk _ _ _ _ _ _ hd) p hp
        have h1 := (IENAM_param_ok_iff _).1 ⟨p, n, hdec⟩
        have h2 := (IENAM_param_exact _ p n hdec).1
        refine ⟨o, ?_, h2⟩
        simp only [List.length_drop] at h1
        show o + 6 + p.dataset.length ≤ b'.payload.length
        omega

/-- witnesses, whole packet (header declares 17 words = 34 bytes): two parameters `abcd`, `ef` accepted and
    returned whole; the SECOND length forced to 10 (only 2 bytes remain; the whole payload holds 18, which is what
    the code compared with before the D01 repair) rejected; the first forced to 13 (12 remain) rejected -/
example : (MState.unpack MState.fresh ([0,1, 0,17, 0,0, 0,0,0,5, 0,0, 0,9] ++ [0,1,0,2,0,4,97,98,99,100] ++
    [0,3,0,4,0,2,101,102] ++ [0xDE,0xAD])).2 = .ok () := by rfl
example : (MState.unpack MState.fresh ([0,1, 0,17, 0,0, 0,0,0,5, 0,0, 0,9] ++ [0,1,0,2,0,4,97,98,99,100] ++
    [0,3,0,4,0,2,101,102] ++ [0xDE,0xAD])).1.parameters.map (·.dataset) = [[97,98,99,100],[101,102]] := by rfl
example : (MState.unpack MState.fresh ([0,1, 0,17, 0,0, 0,0,0,5, 0,0, 0,9] ++ [0,1,0,2,0,4,97,98,99,100] ++
    [0,3,0,4,0,10,101,102] ++ [0xDE,0xAD])).2 = .error .generic := by rfl
example : (MState.unpack MState.fresh ([0,1, 0,17, 0,0, 0,0,0,5, 0,0, 0,9] ++ [0,1,0,2,0,13,97,98,99,100] ++
    [0,3,0,4,0,2,101,102] ++ [0xDE,0xAD])).2 = .error .generic := by rfl

end Acra.Props.C09
