import Acra.Model.NPD
import Acra.Lemmas.Bits
namespace Acra.Props.C09
open Acra.Py Acra.Model.NPD Acra.Gen.NPD Acra.Lemmas.Bits

/-- the packet length the NPD header declares, in 32-bit words: big-endian 16 bits at bytes 2..3 -/
def declaredWords (buf : Bytes) : Nat := beNat ((buf.drop 2).take 2)
/-- the header length nibble and the data type -/
def declaredHdrlen (buf : Bytes) : Nat := beNat (buf.take 1) % 16
def declaredType (buf : Bytes) : Nat := beNat ((buf.drop 1).take 1)

theorem NPD_hdr (buf : Bytes) (h : 20 ≤ buf.length) :
    ∃ cc fl sq ds mc ts, structUnpackFrom NPD_HEADER_FORMAT buf 0 =
      .ok [beNat (buf.take 1), declaredType buf, declaredWords buf, cc, fl, sq, ds, mc, ts] := by
  simp only [structUnpackFrom, NPD_HEADER_FORMAT, Fmt.size, codesSize, Code.size, unpackCodes, decInt, List.drop_zero,
    declaredWords, declaredType, List.drop_drop]
  have : 0 + (1 + (1 + (2 + (1 + (1 + (2 + (4 + (4 + (4 + 0))))))))) ≤ buf.length := by omega
  simp only [this, if_true]
  exact ⟨_, _, _, _, _, _, rfl⟩

/-- the segment walk `NPD.unpack` performs after the two header checks -/
def segmentsOk (buf : Bytes) : Bool :=
  (decOff (decSeg (kindOf (declaredType buf))) moreNe (buf.drop (declaredHdrlen buf * 4))
    ((buf.drop (declaredHdrlen buf * 4)).length + 1) 0).isOk

/-- NPD accepts a buffer exactly when it holds the 20-byte header, the declared total length (in 32-bit
    words) equals the real length, and every segment (typed) header in the segment area is complete -/
theorem NPD_accepts_iff (t : State) (buf : Bytes) :
    (unpack t buf).2 = .ok () ↔ 20 ≤ buf.length ∧ declaredWords buf * 4 = buf.length ∧ segmentsOk buf = true := by
  by_cases h20 : 20 ≤ buf.length
  · obtain ⟨cc, fl, sq, ds, mc, ts, hh⟩ := NPD_hdr buf h20
    simp only [unpack, hh, and_F, h20, true_and, segmentsOk, declaredHdrlen]
    by_cases hl : declaredWords buf * 4 = buf.length
    · simp only [hl, ne_eq, not_true_eq_false, if_false, true_and]
      split <;> simp_all [R.isOk]
    · simp [hl]
  · have : structUnpackFrom NPD_HEADER_FORMAT buf 0 = .error .struct := by
      simp only [structUnpackFrom, NPD_HEADER_FORMAT, Fmt.size, codesSize, Code.size]
      have : ¬ (0 + (1 + (1 + (2 + (1 + (1 + (2 + (4 + (4 + (4 + 0))))))))) ≤ buf.length) := by omega
      simp [this]
    simp [unpack, this, h20]

/-- the declared-total-length check by itself: an accepted buffer's length field (words) times four is its length -/
theorem NPD_accepted_length (t : State) (buf : Bytes) (h : (unpack t buf).2 = .ok ()) :
    20 ≤ buf.length ∧ declaredWords buf * 4 = buf.length :=
  ⟨((NPD_accepts_iff t buf).1 h).1, ((NPD_accepts_iff t buf).1 h).2.1⟩

/-- a wrong declared length is rejected with a bare `Exception`; a short header with `struct.error` -/
theorem NPD_reject_kinds (t : State) (buf : Bytes) :
    (buf.length < 20 → (unpack t buf).2 = .error .struct) ∧
    (20 ≤ buf.length → declaredWords buf * 4 ≠ buf.length → (unpack t buf).2 = .error .generic) := by
  constructor
  · intro h
    have : structUnpackFrom NPD_HEADER_FORMAT buf 0 = .error .struct := by
      simp only [structUnpackFrom, NPD_HEADER_FORMAT, Fmt.size, codesSize, Code.size]
      have : ¬ (0 + (1 + (1 + (2 + (1 + (1 + (2 + (4 + (4 + (4 + 0))))))))) ≤ buf.length) := by omega
      simp [this]
    simp [unpack, this]
  · intro h20 hl
    obtain ⟨cc, fl, sq, ds, mc, ts, hh⟩ := NPD_hdr buf h20
    simp [unpack, hh, hl]

/-- review witnesses.  Header: version 1, hdrlen 5 words, data type 0xFF (plain segments), length word `w`, cfgcnt 1,
    sequence 2, source 3, multicast 235.0.0.1, timestamp 9; one segment of declared length 12 with 4 payload bytes. -/
private def npdHdrW (w : UInt8) : Bytes := [0x15, 0xFF, 0, w, 1, 0, 0, 2, 0,0,0,3, 235,0,0,1, 0,0,0,9]
/-- 8 words declared, 32 bytes present: accepted, the segment payload returned whole -/
example : (unpack fresh (npdHdrW 8 ++ [0,0,0,1, 0,12, 0,0, 1,2,3,4])).2 = .ok () := by rfl
example : (unpack fresh (npdHdrW 8 ++ [0,0,0,1, 0,12, 0,0, 1,2,3,4])).1.segments.map (·.payload) = [[1,2,3,4]] := by rfl
/-- declared 9 / 7 words on 32 bytes; declared 8 words on 33 bytes; 19-byte header: all rejected -/
example : (unpack fresh (npdHdrW 9 ++ [0,0,0,1, 0,12, 0,0, 1,2,3,4])).2 = .error .generic := by rfl
example : (unpack fresh (npdHdrW 7 ++ [0,0,0,1, 0,12, 0,0, 1,2,3,4])).2 = .error .generic := by rfl
example : (unpack fresh (npdHdrW 8 ++ [0,0,0,1, 0,12, 0,0, 1,2,3,4,5])).2 = .error .generic := by rfl
example : (unpack fresh ((npdHdrW 8).take 19)).2 = .error .struct := by rfl
/-- the third conjunct of `NPD_accepts_iff` is not idle: total length right (9 words, 36 bytes) but the second
    segment header incomplete (4 stray bytes) → rejected -/
example : (unpack fresh (npdHdrW 9 ++ [0,0,0,1, 0,12, 0,0, 1,2,3,4] ++ [0,0,0,1])).2 = .error .generic ∧
    segmentsOk (npdHdrW 9 ++ [0,0,0,1, 0,12, 0,0, 1,2,3,4] ++ [0,0,0,1]) = false := ⟨rfl, rfl⟩

/-- the length a segment header declares: big-endian 16 bits at bytes 4..5 -/
def declaredSegLen (buf : Bytes) : Nat := beNat ((buf.drop 4).take 2)

theorem SEG_hdr (buf : Bytes) (h : 8 ≤ buf.length) :
    ∃ td ec fl, structUnpackFrom NPD_SEGMENT_HDR_FORMAT buf 0 = .ok [td, declaredSegLen buf, ec, fl] := by
  simp only [structUnpackFrom, NPD_SEGMENT_HDR_FORMAT, Fmt.size, codesSize, Code.size, unpackCodes, decInt, List.drop_zero,
    declaredSegLen]
  have : 0 + (4 + (2 + (1 + (1 + 0)))) ≤ buf.length := by omega
  simp only [this, if_true]
  exact ⟨_, _, _, rfl⟩

/-- a segment of a plain class (NPDSegment, PCMPacketizer, A429Segment) is accepted exactly when its
    8-byte header is complete -/
theorem NPDSegment_ok_iff (t : Seg) (buf : Bytes) :
    (∃ r, (Seg.unpackBase t buf).2 = .ok r) ↔ 8 ≤ buf.length := by
  by_cases h8 : 8 ≤ buf.length
  · obtain ⟨td, ec, fl, hh⟩ := SEG_hdr buf h8
    simp [Seg.unpackBase, hh, h8]
  · have : structUnpackFrom NPD_SEGMENT_HDR_FORMAT buf 0 = .error .struct := by
      simp only [structUnpackFrom, NPD_SEGMENT_HDR_FORMAT, Fmt.size, codesSize, Code.size]
      have : ¬ (0 + (4 + (2 + (1 + (1 + 0)))) ≤ buf.length) := by omega
      simp [this]
    simp [Seg.unpackBase, this, h8]

/- Full statement (FALSE of the faithful model, hence of the code):
     (Seg.unpackBase t buf).2 = .ok r → (Seg.unpackBase t buf).1.payload.length = declaredSegLen buf - 8
   The declared segment length is never checked: one that points past the end of the buffer is accepted
   and the payload is what is there; one below 8 is taken as 8; and the `payload` setter then overwrites
   `segmentlen` with the length found, so the object no longer shows what was declared. -/
theorem NPDSegment_exact_partial (t : Seg) (buf r : Bytes) (h : (Seg.unpackBase t buf).2 = .ok r) :
    (Seg.unpackBase t buf).1.payload = slice buf 8 (declaredSegLen buf) ∧
    (Seg.unpackBase t buf).1.payload.length = min (declaredSegLen buf) buf.length - 8 ∧
    (Seg.unpackBase t buf).1.segmentlen = (Seg.unpackBase t buf).1.payload.length + 8 ∧
    (8 ≤ declaredSegLen buf → declaredSegLen buf ≤ buf.length →
      (Seg.unpackBase t buf).1.segmentlen = declaredSegLen buf) := by
  have h8 := (NPDSegment_ok_iff t buf).1 ⟨r, h⟩
  obtain ⟨td, ec, fl, hh⟩ := SEG_hdr buf h8
  simp only [Seg.unpackBase, hh, Seg.setPayload, NPD_SEGMENT_HDR_LEN, slice_length]
  refine ⟨trivial, trivial, trivial, ?_⟩
  intro h1 h2
  omega

/-- witnesses of the gap: a segment declaring 100 bytes with none present, and one declaring 0 bytes, are accepted -/
example : (Seg.unpackBase (Seg.fresh .base) [0, 0, 0, 1, 0, 100, 0, 0]).2 = .ok [] ∧
    (Seg.unpackBase (Seg.fresh .base) [0, 0, 0, 1, 0, 100, 0, 0]).1.segmentlen = 8 := ⟨rfl, rfl⟩
example : (Seg.unpackBase (Seg.fresh .base) [0, 0, 0, 1, 0, 0, 0, 0, 9, 9, 9, 9]).2 = .ok [9, 9, 9, 9] ∧
    (Seg.unpackBase (Seg.fresh .base) [0, 0, 0, 1, 0, 0, 0, 0, 9, 9, 9, 9]).1.segmentlen = 8 := ⟨rfl, rfl⟩

/-- joint witness for `NPDSegment_exact_partial` with its last clause live: declared 12, 12 bytes present -/
example : (Seg.unpackBase (Seg.fresh .base) [0,0,0,1, 0,12, 0,0, 1,2,3,4]).2 = .ok [] ∧
    (Seg.unpackBase (Seg.fresh .base) [0,0,0,1, 0,12, 0,0, 1,2,3,4]).1.payload = [1,2,3,4] ∧
    (Seg.unpackBase (Seg.fresh .base) [0,0,0,1, 0,12, 0,0, 1,2,3,4]).1.segmentlen = 12 := ⟨rfl, rfl, rfl⟩
example : (Seg.unpackBase (Seg.fresh .base) [0,0,0,1, 0,12, 0]).2 = .error .struct := by rfl

end Acra.Props.C09
